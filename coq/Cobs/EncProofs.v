(* Cobs/EncProofs.v — the encoders produce frames that the reference decoder maps back
   to the consumed message bytes, for every split into calls and every capacity. *)
From MptV Require Import Base.Mem Base.Tactics Cobs.CobsModel.
Local Open Scope nat_scope.

(* ---------- bytes and codes ---------- *)
Lemma bn_nb c : bn (nb c) = c.
Proof. unfold bn, nb. apply Nat2N.id. Qed.

Lemma bz_nb c : 1 <= c -> bz (nb c) = false.
Proof. intros H. unfold bz, nb. apply N.eqb_neq. lia. Qed.

Lemma nozero_app a b : nozero (a ++ b) = nozero a && nozero b.
Proof. unfold nozero. apply forallb_app. Qed.

Lemma nozero_cons x l : nozero (x :: l) = negb (bz x) && nozero l.
Proof. reflexivity. Qed.

(* ---------- well-formed closed blocks ---------- *)
Definition block := (nat * list byte)%type.
Definition flat (bs : list block) : list byte :=
  concat (map (fun b : block => nb (fst b) :: snd b) bs).
Definition dec_closed (v : variant) (bs : list block) : list byte :=
  concat (map (fun b : block => snd b ++ zeros (zeros_after v (fst b))) bs).

Definition block_ok (v : variant) (b : block) : Prop :=
  1 <= fst b /\ length (snd b) = len_data v (fst b) /\ nozero (snd b) = true.

Lemma flat_app a b : flat (a ++ b) = flat a ++ flat b.
Proof. unfold flat. rewrite map_app, concat_app. reflexivity. Qed.

Lemma dec_closed_app v a b : dec_closed v (a ++ b) = dec_closed v a ++ dec_closed v b.
Proof. unfold dec_closed. rewrite map_app, concat_app. reflexivity. Qed.

Lemma flat_nozero v bs : Forall (block_ok v) bs -> nozero (flat bs) = true.
Proof.
  induction 1 as [|b bs Hb Hbs IH]; [reflexivity|].
  unfold flat in *. cbn [map concat]. rewrite nozero_app, nozero_cons, IH.
  destruct Hb as (H1 & _ & H3). rewrite bz_nb by assumption. rewrite H3. reflexivity.
Qed.

(* the reference decoder on: closed blocks followed by a non-empty tail *)
Lemma sdec_closed v bs : Forall (block_ok v) bs -> forall tail r,
  tail <> [] ->
  (forall f, length tail < f -> sdec_body f v tail = Some r) ->
  forall f, length (flat bs ++ tail) < f ->
  sdec_body f v (flat bs ++ tail) = Some (dec_closed v bs ++ r).
Proof.
  induction 1 as [|b bs Hb Hbs IH]; intros tail r Hne Hr f Hf.
  - cbn [flat map concat app dec_closed] in *. apply Hr. assumption.
  - destruct b as [c d]. destruct Hb as (H1 & H2 & H3). cbn [fst snd] in *.
    unfold flat, dec_closed in *. cbn [map concat fst snd] in *. fold (flat bs) in *. fold (dec_closed v bs).
    rewrite <- !app_assoc in *. cbn [app] in *.
    destruct f as [|f]; [lia|].
    cbn [sdec_body]. rewrite bz_nb by assumption. rewrite bn_nb.
    cbn [length] in Hf. rewrite !app_length in *.
    destruct (Nat.ltb_spec (length d + (length (flat bs) + length tail)) (len_data v c)); [lia|].
    assert (Hfn : firstn (len_data v c) (d ++ flat bs ++ tail) = d).
    { rewrite <- H2. rewrite firstn_app, Nat.sub_diag, firstn_all. cbn [firstn]. apply app_nil_r. }
    assert (Hsk : skipn (len_data v c) (d ++ flat bs ++ tail) = flat bs ++ tail).
    { rewrite <- H2. rewrite skipn_app, Nat.sub_diag, skipn_all. reflexivity. }
    rewrite Hfn, Hsk, H3. cbn [negb].
    destruct (flat bs ++ tail) eqn:E.
    { apply app_eq_nil in E. destruct E. contradiction. }
    rewrite <- E. rewrite (IH tail r Hne Hr f).
    + reflexivity.
    + rewrite app_length. lia.
Qed.

Lemma sdec_last_regular v c d : 1 <= c -> length d = len_data v c -> nozero d = true ->
  zeros_last v c = 0 ->
  forall f, length (nb c :: d) < f -> sdec_body f v (nb c :: d) = Some d.
Proof.
  intros H1 H2 H3 H4 f Hf. destruct f as [|f]; [lia|].
  cbn [sdec_body]. rewrite bz_nb by assumption. rewrite bn_nb.
  destruct (Nat.ltb_spec (length d) (len_data v c)); [lia|].
  assert (Hfn : firstn (len_data v c) d = d) by (rewrite <- H2; apply firstn_all).
  assert (Hsk : skipn (len_data v c) d = []) by (rewrite <- H2; apply skipn_all).
  rewrite Hfn, Hsk, H3, H4. cbn [negb zeros repeat].
  rewrite app_nil_r. reflexivity.
Qed.

Lemma sdec_last_inline v e d : inl v = true -> nozero d = true -> bz e = false ->
  length d < len_data v (bn e) ->
  forall f, length (e :: d) < f -> sdec_body f v (e :: d) = Some (d ++ [e]).
Proof.
  intros Hi H3 He Hl f Hf. destruct f as [|f]; [lia|].
  cbn [sdec_body]. rewrite He.
  destruct (Nat.ltb_spec (length d) (len_data v (bn e))); [|lia].
  rewrite Hi, H3. reflexivity.
Qed.

(* a frame body made of closed blocks and a final block decodes to their content *)
Lemma sdec_frame_regular v bs c d : Forall (block_ok v) bs ->
  1 <= c -> length d = len_data v c -> nozero d = true -> zeros_last v c = 0 ->
  sdec v (flat bs ++ nb c :: d) = Some (dec_closed v bs ++ d).
Proof.
  intros Hbs H1 H2 H3 H4. unfold sdec.
  apply (sdec_closed v bs Hbs (nb c :: d) d); [discriminate| |lia].
  apply sdec_last_regular; assumption.
Qed.

Lemma sdec_frame_inline v bs e d : Forall (block_ok v) bs ->
  inl v = true -> nozero d = true -> bz e = false -> length d < len_data v (bn e) ->
  sdec v (flat bs ++ e :: d) = Some (dec_closed v bs ++ d ++ [e]).
Proof.
  intros Hbs Hi H3 He Hl. unfold sdec.
  apply (sdec_closed v bs Hbs (e :: d) (d ++ [e])); [discriminate| |lia].
  apply sdec_last_inline; assumption.
Qed.

(* ---------- the byte loop ---------- *)
(* variants we prove things about: the block limit leaves room for the pair codes *)
Definition variant_ok (v : variant) : Prop :=
  2 <= maxlen v /\ maxlen v <= 255 /\ (zpe v = true -> maxlen v = 223).

(* state of the open block relative to the consumed message prefix *)
Record loop_inv (v : variant) (bs : list block) (open : list byte) (code : nat)
       (consumed : list byte) : Prop := {
  li_blocks : Forall (block_ok v) bs;
  li_open : nozero open = true;
  li_code : code = S (length open);
  li_lt : code < maxlen v;
  li_dec : dec_closed v bs ++ open = consumed }.

Lemma block_ok_zero v open : variant_ok v -> nozero open = true -> S (length open) < maxlen v ->
  block_ok v (S (length open), open) /\ zeros_after v (S (length open)) = 1.
Proof.
  intros (H2 & H255 & Hz) Hn Hlt. unfold block_ok, len_data, zeros_after. cbn [fst snd].
  destruct (zpe v) eqn:E.
  - rewrite (Hz eq_refl) in *. cbn [andb].
    destruct (Nat.leb_spec (S (length open)) 223); [|lia].
    destruct (Nat.leb_spec 224 (S (length open))); [lia|].
    destruct (Nat.ltb_spec (S (length open)) 223); [|lia].
    repeat split; try lia; assumption.
  - cbn [andb]. destruct (Nat.ltb_spec (S (length open)) (maxlen v)); [|lia].
    repeat split; try lia; assumption.
Qed.

Lemma block_ok_pair v open : variant_ok v -> zpe v = true -> nozero open = true ->
  1 < S (length open) -> S (length open) < 32 ->
  block_ok v (S (length open) + maxlen v, open) /\ zeros_after v (S (length open) + maxlen v) = 2.
Proof.
  intros (H2 & H255 & Hz) E Hn H1 H32. rewrite (Hz E). unfold block_ok, len_data, zeros_after. cbn [fst snd].
  rewrite E. rewrite (Hz E). cbn [andb].
  destruct (Nat.leb_spec (S (length open) + 223) 223); [lia|].
  destruct (Nat.leb_spec 224 (S (length open) + 223)); [|lia].
  repeat split; try lia; assumption.
Qed.

Lemma block_ok_full v open b : variant_ok v -> nozero open = true -> bz b = false ->
  S (S (length open)) = maxlen v ->
  block_ok v (S (S (length open)), open ++ [b]) /\ zeros_after v (S (S (length open))) = 0.
Proof.
  intros (H2 & H255 & Hz) Hn Hb Hm. unfold block_ok, len_data, zeros_after. cbn [fst snd].
  rewrite app_length, nozero_app, Hn. cbn [length nozero forallb]. rewrite Hb. cbn [negb andb].
  rewrite Hm.
  destruct (zpe v) eqn:E.
  - rewrite (Hz eq_refl) in *. cbn [andb].
    destruct (Nat.leb_spec 223 223); [|lia]. destruct (Nat.leb_spec 224 223); [lia|].
    destruct (Nat.ltb_spec 223 223); [lia|]. repeat split; lia.
  - cbn [andb]. destruct (Nat.ltb_spec (maxlen v) (maxlen v)); [lia|]. repeat split; lia.
Qed.

Lemma flat_snoc bs c d : flat (bs ++ [(c, d)]) = flat bs ++ nb c :: d.
Proof. rewrite flat_app. unfold flat at 2. cbn [map concat fst snd]. rewrite app_nil_r. reflexivity. Qed.

Lemma dec_closed_snoc v bs c d :
  dec_closed v (bs ++ [(c, d)]) = dec_closed v bs ++ d ++ zeros (zeros_after v c).
Proof. rewrite dec_closed_app. unfold dec_closed at 2. cbn [map concat fst snd]. rewrite app_nil_r. reflexivity. Qed.

Lemma bz_false_nozero b : bz b = false -> nozero [b] = true.
Proof. intros H. cbn. rewrite H. reflexivity. Qed.

Definition loop_post (v : variant) (pre : list byte) (src : list byte) (bs : list block)
  (code left : nat) (consumed : list byte)
  (r : list byte * list byte * nat * nat * list byte) : Prop :=
  let '(fin', open', code', left', rest) := r in
  exists bs' k, fin' = pre ++ flat bs' /\
    loop_inv v bs' open' code' (consumed ++ firstn k src) /\
    rest = skipn k src /\ k <= length src /\
    length fin' + code' + left' = length (pre ++ flat bs) + code + left.

Lemma enc_loop_spec v pre : variant_ok v -> forall n src bs open code left consumed,
  length src <= n -> 1 <= left -> loop_inv v bs open code consumed ->
  loop_post v pre src bs code left consumed (enc_loop v (pre ++ flat bs) open code left src).
Proof.
  intros Hv. induction n as [|n IH]; intros src bs open code left consumed Hn Hl Hinv.
  { destruct src; [|cbn in Hn; lia]. cbn [enc_loop]. unfold loop_post.
    exists bs, 0. cbn [firstn skipn length]. rewrite app_nil_r.
    split; [reflexivity|]. split; [assumption|]. split; [reflexivity|]. split; lia. }
  destruct src as [|b rest].
  { cbn [enc_loop]. unfold loop_post. exists bs, 0. cbn [firstn skipn length]. rewrite app_nil_r.
    split; [reflexivity|]. split; [assumption|]. split; [reflexivity|]. split; lia. }
  cbn [length] in Hn. destruct Hinv as [Hbs Hop Hcode Hlt Hdec].
  cbn [enc_loop]. destruct (bz b) eqn:Hb.
  - (* zero byte *)
    assert (b = 0%N) by (apply N.eqb_eq; exact Hb). subst b.
    destruct (block_ok_zero v open Hv Hop ltac:(lia)) as [Hok Hz].
    assert (Hinv1 : loop_inv v (bs ++ [(code, open)]) [] 1 (consumed ++ [0%N])).
    { subst code. constructor; [apply Forall_app; split; [assumption|constructor; [assumption|constructor]]
        | reflexivity | reflexivity | destruct Hv; lia |].
      rewrite dec_closed_snoc, Hz, app_nil_r. cbn [zeros repeat]. rewrite app_assoc, Hdec. reflexivity. }
    assert (Hfin1 : (pre ++ flat bs) ++ nb code :: open = pre ++ flat (bs ++ [(code, open)]))
      by (rewrite flat_snoc, app_assoc; reflexivity).
    assert (Hlen1 : length (pre ++ flat (bs ++ [(code, open)])) = length (pre ++ flat bs) + code).
    { rewrite <- Hfin1, app_length. cbn [length]. lia. }
    destruct rest as [|b2 rest2].
    + unfold loop_post. exists (bs ++ [(code, open)]), 1. cbn [firstn skipn length].
      split; [assumption|]. split; [assumption|]. split; [reflexivity|]. split; [lia|].
      rewrite Hfin1, Hlen1. lia.
    + destruct (zpe v && (1 <? code) && (code <? 32) && bz b2) eqn:Hpair.
      * (* zero pair folded into one code *)
        apply andb_prop in Hpair. destruct Hpair as [Hpair Hb2].
        apply andb_prop in Hpair. destruct Hpair as [Hpair H32].
        apply andb_prop in Hpair. destruct Hpair as [Hzpe H1].
        apply Nat.ltb_lt in H1, H32.
        assert (b2 = 0%N) by (apply N.eqb_eq; exact Hb2). subst b2.
        destruct (block_ok_pair v open Hv Hzpe Hop ltac:(lia) ltac:(lia)) as [Hokp Hzp].
        assert (Hinv2 : loop_inv v (bs ++ [(code + maxlen v, open)]) [] 1 (consumed ++ [0%N; 0%N])).
        { subst code. constructor; [apply Forall_app; split; [assumption|constructor; [assumption|constructor]]
            | reflexivity | reflexivity | destruct Hv; lia |].
          rewrite dec_closed_snoc, Hzp, app_nil_r. cbn [zeros repeat]. rewrite app_assoc, Hdec. reflexivity. }
        assert (Hfin2 : (pre ++ flat bs) ++ nb (code + maxlen v) :: open = pre ++ flat (bs ++ [(code + maxlen v, open)]))
          by (rewrite flat_snoc, app_assoc; reflexivity).
        assert (Hlen2 : length (pre ++ flat (bs ++ [(code + maxlen v, open)])) = length (pre ++ flat bs) + code).
        { rewrite <- Hfin2, app_length. cbn [length]. lia. }
        rewrite Hfin2.
        destruct (Nat.eqb_spec (left - 1) 0) as [E|E].
        -- unfold loop_post. exists (bs ++ [(code + maxlen v, open)]), 2. cbn [firstn skipn length].
           split; [reflexivity|]. split; [assumption|]. split; [reflexivity|]. split; [lia|].
           rewrite Hlen2. lia.
        -- cbn [length] in Hn.
           pose proof (IH rest2 (bs ++ [(code + maxlen v, open)]) [] 1 (left - 1) (consumed ++ [0%N; 0%N])
                          ltac:(lia) ltac:(lia) Hinv2) as H.
           unfold loop_post in *.
           destruct (enc_loop v (pre ++ flat (bs ++ [(code + maxlen v, open)])) [] 1 (left - 1) rest2)
             as [[[[fin' open'] code'] left'] rest'].
           destruct H as (bs' & k & Hf & Hi & Hr & Hk & Hlen).
           exists bs', (S (S k)). cbn [firstn skipn length].
           split; [assumption|]. split; [rewrite <- app_assoc in Hi; exact Hi|]. split; [assumption|].
           split; [lia|]. rewrite Hlen, Hlen2. lia.
      * rewrite Hfin1.
        destruct (Nat.eqb_spec (left - 1) 0) as [E|E].
        -- unfold loop_post. exists (bs ++ [(code, open)]), 1. cbn [firstn skipn length].
           split; [reflexivity|]. split; [assumption|]. split; [reflexivity|]. split; [lia|].
           rewrite Hlen1. lia.
        -- pose proof (IH (b2 :: rest2) (bs ++ [(code, open)]) [] 1 (left - 1) (consumed ++ [0%N])
                          ltac:(lia) ltac:(lia) Hinv1) as H.
           unfold loop_post in *.
           destruct (enc_loop v (pre ++ flat (bs ++ [(code, open)])) [] 1 (left - 1) (b2 :: rest2))
             as [[[[fin' open'] code'] left'] rest'].
           destruct H as (bs' & k & Hf & Hi & Hr & Hk & Hlen).
           exists bs', (S k). cbn [firstn skipn length].
           split; [assumption|]. split; [rewrite <- app_assoc in Hi; exact Hi|]. split; [assumption|].
           split; [cbn [length] in Hk; lia|]. rewrite Hlen, Hlen1. lia.
  - (* data byte *)
    destruct (Nat.eqb_spec (S code) (maxlen v)) as [Em|Em].
    + destruct (Nat.eqb_spec (left - 1) 0) as [E|E].
      * (* rolled back *)
        unfold loop_post. exists bs, 0. cbn [firstn skipn length]. rewrite app_nil_r.
        split; [reflexivity|]. split; [constructor; assumption|]. split; [reflexivity|]. split; [lia|]. lia.
      * subst code.
        destruct (block_ok_full v open b Hv Hop Hb Em) as [Hokf Hzf].
        assert (Hinv3 : loop_inv v (bs ++ [(S (S (length open)), open ++ [b])]) [] 1 (consumed ++ [b])).
        { constructor; [apply Forall_app; split; [assumption|constructor; [assumption|constructor]]
            | reflexivity | reflexivity | destruct Hv; lia |].
          rewrite dec_closed_snoc, Hzf, app_nil_r. cbn [zeros repeat]. rewrite app_nil_r, app_assoc, Hdec. reflexivity. }
        assert (Hfin3 : (pre ++ flat bs) ++ nb (S (S (length open))) :: (open ++ [b])
                        = pre ++ flat (bs ++ [(S (S (length open)), open ++ [b])]))
          by (rewrite flat_snoc, app_assoc; reflexivity).
        assert (Hlen3 : length (pre ++ flat (bs ++ [(S (S (length open)), open ++ [b])]))
                        = length (pre ++ flat bs) + S (S (length open))).
        { rewrite <- Hfin3, !app_length. cbn [length]. rewrite app_length. cbn [length]. lia. }
        rewrite Hfin3.
        destruct (Nat.eqb_spec (left - 2) 0) as [E2|E2].
        -- unfold loop_post. exists (bs ++ [(S (S (length open)), open ++ [b])]), 1. cbn [firstn skipn length].
           split; [reflexivity|]. split; [assumption|]. split; [reflexivity|]. split; [lia|].
           rewrite Hlen3. lia.
        -- pose proof (IH rest (bs ++ [(S (S (length open)), open ++ [b])]) [] 1 (left - 2) (consumed ++ [b])
                          ltac:(lia) ltac:(lia) Hinv3) as H.
           unfold loop_post in *.
           destruct (enc_loop v (pre ++ flat (bs ++ [(S (S (length open)), open ++ [b])])) [] 1 (left - 2) rest)
             as [[[[fin' open'] code'] left'] rest'].
           destruct H as (bs' & k & Hf & Hi & Hr & Hk & Hlen).
           exists bs', (S k). cbn [firstn skipn length].
           split; [assumption|]. split; [rewrite <- app_assoc in Hi; exact Hi|]. split; [assumption|].
           split; [lia|]. rewrite Hlen, Hlen3. lia.
    + assert (Hinv4 : loop_inv v bs (open ++ [b]) (S code) (consumed ++ [b])).
      { constructor; [assumption | rewrite nozero_app, Hop; cbn; rewrite Hb; reflexivity
                     | rewrite app_length; cbn [length]; lia | lia |].
        rewrite app_assoc, Hdec. reflexivity. }
      destruct (Nat.eqb_spec (left - 1) 0) as [E|E].
      * unfold loop_post. exists bs, 1. cbn [firstn skipn length].
        split; [reflexivity|]. split; [assumption|]. split; [reflexivity|]. split; [lia|]. lia.
      * pose proof (IH rest bs (open ++ [b]) (S code) (left - 1) (consumed ++ [b])
                       ltac:(lia) ltac:(lia) Hinv4) as H.
        unfold loop_post in *.
        destruct (enc_loop v (pre ++ flat bs) (open ++ [b]) (S code) (left - 1) rest)
          as [[[[fin' open'] code'] left'] rest'].
        destruct H as (bs' & k & Hf & Hi & Hr & Hk & Hlen).
        exists bs', (S k). cbn [firstn skipn length].
        split; [assumption|]. split; [rewrite <- app_assoc in Hi; exact Hi|]. split; [assumption|].
        split; [lia|]. rewrite Hlen. lia.
Qed.

Lemma flat_nil : flat [] = [].
Proof. reflexivity. Qed.

(* ---------- one call ---------- *)
(* what the window holds, relative to the bytes [pre] finished before this message *)
Inductive enc_inv (v : variant) (pre consumed : list byte) (st : estate) (buf : list byte) : Prop :=
| EI_idle : escr st = 0 -> edone st = length pre -> buf = pre -> consumed = [] ->
            enc_inv v pre consumed st buf
| EI_open bs open : loop_inv v bs open (escr st) consumed ->
            edone st = length (pre ++ flat bs) ->
            buf = (pre ++ flat bs) ++ nb (escr st) :: open ->
            enc_inv v pre consumed st buf.

Lemma firstn_app_exact {A} (a b : list A) : firstn (length a) (a ++ b) = a.
Proof. rewrite firstn_app, Nat.sub_diag, firstn_all. cbn. apply app_nil_r. Qed.

Lemma skipn_app_exact {A} (a b : list A) : skipn (length a) (a ++ b) = b.
Proof. rewrite skipn_app, Nat.sub_diag, skipn_all. reflexivity. Qed.

Lemma enc_inv_fin v pre consumed st buf : enc_inv v pre consumed st buf ->
  (escr st = 0 /\ fin_of st buf = pre /\ buf = pre /\ consumed = [] /\ edone st = length pre) \/
  (exists bs open, loop_inv v bs open (escr st) consumed /\ fin_of st buf = pre ++ flat bs /\
     open_of st buf = open /\ edone st = length (pre ++ flat bs) /\
     buf = (pre ++ flat bs) ++ nb (escr st) :: open).
Proof.
  intros [H0 Hd Hb Hc | bs open Hi Hd Hb].
  - left. unfold fin_of. rewrite Hd, Hb, firstn_all. auto.
  - right. exists bs, open. unfold fin_of, open_of. rewrite Hd, Hb.
    rewrite firstn_app_exact.
    replace (S (length (pre ++ flat bs))) with (length ((pre ++ flat bs) ++ [nb (escr st)]))
      by (rewrite app_length; cbn; lia).
    replace ((pre ++ flat bs) ++ nb (escr st) :: open) with (((pre ++ flat bs) ++ [nb (escr st)]) ++ open)
      by (rewrite <- app_assoc; reflexivity).
    rewrite skipn_app_exact. rewrite <- app_assoc. auto.
Qed.

(* data call: consumes a prefix of the chunk and keeps the invariant; errors change nothing *)
Lemma enc_data_call v pre consumed st buf cap src : variant_ok v ->
  enc_inv v pre consumed st buf ->
  match enc_call v st buf cap (Some src) with
  | (EInt k, st', buf') => k <= length src /\ enc_inv v pre (consumed ++ firstn k src) st' buf' /\
                           edone st' + escr st' <= cap
  | (EErr _, st', buf') => st' = st /\ buf' = buf
  | (EFault, _, _) => False
  end.
Proof.
  intros Hv Hinv. cbn [enc_call]. unfold enc_regular.
  destruct ((cap <? edone st) || (cap - edone st <? escr st)) eqn:Hchk; [auto|].
  apply orb_false_elim in Hchk. destruct Hchk as [Hc1 Hc2].
  apply Nat.ltb_ge in Hc1, Hc2.
  destruct (Nat.eqb_spec (length src) 0); [auto|].
  destruct (enc_inv_fin v pre consumed st buf Hinv) as
    [(H0 & Hfin & Hbuf & Hcons & Hd) | (bs & open & Hi & Hfin & Hopen & Hd & Hbuf)].
  - (* new message *)
    rewrite H0. cbn [Nat.eqb negb].
    destruct (Nat.leb_spec (cap - edone st) 1); [auto|].
    rewrite Hfin.
    assert (Hi0 : loop_inv v [] [] 1 consumed).
    { subst consumed. constructor; [constructor|reflexivity|reflexivity|destruct Hv; lia|reflexivity]. }
    pose proof (enc_loop_spec v pre Hv (length src) src [] [] 1 (cap - edone st - 1) consumed
                  (le_n _) ltac:(lia) Hi0) as HL.
    unfold loop_post in HL. rewrite flat_nil, !app_nil_r in HL.
    destruct (enc_loop v pre [] 1 (cap - edone st - 1) src) as [[[[fin' open'] code'] left'] rest'].
    destruct HL as (bs' & k & Hf & Hi' & Hr & Hk & Hlen).
    assert (Hcnt : length src - length rest' = k) by (rewrite Hr, skipn_length; lia).
    rewrite Hcnt. split; [assumption|]. cbn [edone escr].
    assert (Hdone : cap - left' - code' = length fin') by lia.
    split.
    + apply (EI_open v pre _ _ _ bs' open'); cbn [edone escr].
      * assumption.
      * rewrite Hdone, Hf. reflexivity.
      * rewrite Hf. reflexivity.
    + lia.
  - (* continue the open block *)
    pose proof Hi as [Hbs Hop Hcode Hlt Hdec].
    destruct (Nat.eqb_spec (escr st) 0) as [E0|E0]; [lia|]. cbn [negb].
    destruct (Nat.eqb_spec (cap - edone st - escr st) 0); [auto|].
    destruct ((cap - edone st - escr st <? 2) && (escr st =? maxlen v - 1)); [auto|].
    rewrite Hfin, Hopen.
    pose proof (enc_loop_spec v pre Hv (length src) src bs open (escr st) (cap - edone st - escr st) consumed
                  (le_n _) ltac:(lia) Hi) as HL.
    unfold loop_post in HL.
    destruct (enc_loop v (pre ++ flat bs) open (escr st) (cap - edone st - escr st) src)
      as [[[[fin' open'] code'] left'] rest'].
    destruct HL as (bs' & k & Hf & Hi' & Hr & Hk & Hlen).
    assert (Hcnt : length src - length rest' = k) by (rewrite Hr, skipn_length; lia).
    rewrite Hcnt. split; [assumption|]. cbn [edone escr].
    assert (Hdone : cap - left' - code' = length fin') by lia.
    split.
    + apply (EI_open v pre _ _ _ bs' open'); cbn [edone escr].
      * assumption.
      * rewrite Hdone, Hf. reflexivity.
      * rewrite Hf. reflexivity.
    + lia.
Qed.

Definition idle_state (st : estate) (buf : list byte) : Prop :=
  escr st = 0 /\ edone st = length buf.

Lemma zeros_last_small v c : variant_ok v -> c < maxlen v -> zeros_last v c = 0.
Proof.
  intros (H2 & H255 & Hz) Hc. unfold zeros_last. destruct (zpe v) eqn:E; [|reflexivity].
  rewrite (Hz eq_refl) in Hc. cbn [andb]. destruct (Nat.leb_spec 224 c); [lia|reflexivity].
Qed.

Lemma len_data_small v c : variant_ok v -> c <= maxlen v -> len_data v c = c - 1.
Proof.
  intros (H2 & H255 & Hz) Hc. unfold len_data. destruct (zpe v); [|reflexivity].
  destruct (Nat.leb_spec c (maxlen v)); [reflexivity|lia].
Qed.

(* termination call: the window now ends with a frame of the consumed bytes *)
Lemma enc_term_call v pre consumed st buf cap : variant_ok v ->
  enc_inv v pre consumed st buf -> edone st + escr st <= cap ->
  match enc_call v st buf cap None with
  | (EInt _, st', buf') =>
      exists body, buf' = pre ++ body ++ [0%N] /\ sdec v body = Some consumed /\
                   nozero body = true /\ idle_state st' buf' /\ length buf' <= cap
  | (EErr _, st', buf') => st' = st /\ buf' = buf
  | (EFault, _, _) => False
  end.
Proof.
  intros Hv Hinv Hwin.
  destruct (enc_inv_fin v pre consumed st buf Hinv) as
    [(H0 & Hfin & Hbuf & Hcons & Hd) | (bs & open & Hi & Hfin & Hopen & Hd & Hbuf)].
  - (* empty message *)
    cbn [enc_call]. rewrite H0. cbn [Nat.eqb negb andb]. rewrite andb_false_r.
    unfold enc_regular. rewrite H0.
    destruct ((cap <? edone st) || (cap - edone st <? 0)) eqn:Hchk; [auto|].
    apply orb_false_elim in Hchk. destruct Hchk as [Hc1 _]. apply Nat.ltb_ge in Hc1.
    destruct (Nat.leb_spec (cap - edone st) 0); [auto|]. cbn [Nat.eqb].
    destruct (Nat.ltb_spec (cap - edone st) 2); [auto|].
    rewrite Hfin. exists [1%N]. subst consumed.
    split; [reflexivity|].
    split.
    { destruct Hv as (Hv2 & Hv255 & Hvz).
      apply (sdec_frame_regular v [] 1 []); [constructor|lia| |reflexivity|].
      - rewrite len_data_small; [reflexivity|repeat split; assumption|lia].
      - apply zeros_last_small; [repeat split; assumption|lia]. }
    split; [reflexivity|].
    split; [unfold idle_state; cbn [edone escr]; rewrite app_length; cbn [length]; lia|].
    rewrite app_length. cbn [length]. lia.
  - pose proof Hi as [Hbs Hop Hcode Hlt Hdec].
    assert (Hnz : escr st <> 0) by lia.
    assert (Hbody : forall c d, nozero (flat bs ++ c :: d) = nozero [c] && nozero d).
    { intros c d. rewrite nozero_app, (flat_nozero v bs Hbs). cbn. destruct (bz c); reflexivity. }
    assert (Hreg : forall cap', cap' - edone st > escr st -> cap' <= cap ->
       exists body, (pre ++ flat bs) ++ nb (escr st) :: open ++ [0%N] = pre ++ body ++ [0%N] /\
         sdec v body = Some consumed /\ nozero body = true /\
         idle_state (mke 0 (edone st + escr st + 1) 0) ((pre ++ flat bs) ++ nb (escr st) :: open ++ [0%N]) /\
         length ((pre ++ flat bs) ++ nb (escr st) :: open ++ [0%N]) <= cap).
    { intros cap' Hroom Hle. exists (flat bs ++ nb (escr st) :: open).
      split; [rewrite <- !app_assoc; reflexivity|].
      split.
      { rewrite <- Hdec. apply sdec_frame_regular; try assumption; try lia.
        - rewrite len_data_small by (assumption || lia). lia.
        - apply zeros_last_small; assumption. }
      split.
      { rewrite Hbody. cbn [nozero forallb]. rewrite bz_nb by lia. rewrite Hop. reflexivity. }
      split.
      { unfold idle_state. cbn [edone escr]. split; [reflexivity|].
        rewrite Hd. rewrite !app_length. cbn [length]. rewrite app_length. cbn [length]. lia. }
      rewrite !app_length in *. cbn [length] in *. rewrite !app_length in *. cbn [length] in *. lia. }
    cbn [enc_call].
    destruct (inl v) eqn:Hinl; cbn [andb].
    + (* COBS/R termination *)
      destruct (Nat.eqb_spec (escr st) 0); [lia|]. cbn [negb].
      unfold enc_r_term.
      destruct (Nat.ltb_spec cap (edone st)); [auto|].
      destruct (Nat.ltb_spec cap (edone st + escr st)); [lia|].
      rewrite Hfin, Hopen.
      destruct ((1 <? escr st) && check_inline v (escr st) (last open 0%N)) eqn:Hin.
      * apply andb_prop in Hin. destruct Hin as [H1 Hci]. apply Nat.ltb_lt in H1.
        assert (Hne : open <> []) by (intros ->; cbn in Hcode; lia).
        pose proof (app_removelast_last 0%N Hne) as Hsplit.
        set (e := last open 0%N) in *. set (d := removelast open) in *.
        assert (Hd' : nozero d = true /\ bz e = false).
        { rewrite Hsplit, nozero_app in Hop. apply andb_prop in Hop. destruct Hop as [Ha Hb].
          split; [assumption|]. cbn in Hb. destruct (bz e); [discriminate|reflexivity]. }
        destruct Hd' as [Hdz Hez].
        assert (Hlen : S (length d) = length open) by (rewrite Hsplit, app_length; cbn; lia).
        assert (Hld : length d < len_data v (bn e)).
        { unfold check_inline in Hci. unfold len_data. destruct (zpe v).
          - apply andb_prop in Hci. destruct Hci as [Hci H3]. apply andb_prop in Hci. destruct Hci as [_ H2].
            apply Nat.ltb_lt in H2. apply Nat.leb_le in H3.
            destruct (Nat.leb_spec (bn e) (maxlen v)); lia.
          - apply Nat.ltb_lt in Hci. lia. }
        exists (flat bs ++ e :: d).
        split; [rewrite <- !app_assoc; reflexivity|].
        split.
        { rewrite <- Hdec, Hsplit. apply sdec_frame_inline; assumption. }
        split.
        { rewrite Hbody. cbn [nozero forallb]. rewrite Hez, Hdz. reflexivity. }
        split.
        { unfold idle_state. cbn [edone escr]. split; [reflexivity|].
          rewrite Hd. rewrite !app_length. cbn [length]. rewrite app_length. cbn [length]. lia. }
        (* the inlined frame is one byte shorter than the open block plus delimiter *)
        rewrite !app_length in *. cbn [length] in *. rewrite !app_length in *. cbn [length] in *. lia.
      * destruct (Nat.leb_spec (cap - edone st) (escr st)); [auto|].
        apply (Hreg cap); lia.
    + unfold enc_regular.
      destruct ((cap <? edone st) || (cap - edone st <? escr st)) eqn:Hchk; [auto|].
      apply orb_false_elim in Hchk. destruct Hchk as [Hc1 Hc2]. apply Nat.ltb_ge in Hc1, Hc2.
      destruct (Nat.leb_spec (cap - edone st) (escr st)); [auto|].
      destruct (Nat.eqb_spec (escr st) 0); [lia|].
      rewrite Hfin, Hopen.
      replace (edone st + escr st + 1) with (edone st + escr st + 1) by reflexivity.
      apply (Hreg cap); lia.
Qed.
