(* C13/QueueModel.v — mechanism-level model of mptcore/queue/*.c (ring buffer).
   Executable, no proofs.  Every function is a transcription of the C function
   named in its comment; all storage accesses go through [rd]/[wr]/[mv]
   (Base/Mem.v), which fault when they leave the [qmax]-byte storage. *)
From MptV Require Export Base.Mem.
Local Open Scope nat_scope.

Record queue := mkq { qbuf : mem; qlen : nat; qmax : nat; qoff : nat }.

Definition set_len (q : queue) (n : nat) := mkq (qbuf q) n (qmax q) (qoff q).
Definition set_off (q : queue) (n : nat) := mkq (qbuf q) (qlen q) (qmax q) n.
Definition set_buf (q : queue) (m : mem) := mkq m (qlen q) (qmax q) (qoff q).

(* queue_data.c: (index of data start, length of the segment at that index) *)
Definition qdata (q : queue) : nat * nat :=
  let start := qmax q - qoff q in
  if start <? qlen q then (qoff q, start) else (qoff q, qlen q).

(* queue_empty.c: sizes (low, high) of the free parts; None when full *)
Definition qempty (q : queue) : option (nat * nat) :=
  let space := qmax q - qlen q in
  if space =? 0 then None
  else if space <=? qoff q then Some (space, 0)
  else Some (space - qoff q, qoff q).

(* MPT_queue_frag *)
Definition qfrag (q : queue) : bool := qmax q - qlen q <? qoff q.

(* queue_crop.c *)
Definition qcrop (q : queue) (pos n : nat) : res queue :=
  let '(base, low) := qdata q in
  let high := qlen q - low in
  if pos =? 0 then
    if low + high <? n then Err BadArgument
    else
      let q1 := set_len q (qlen q - n) in
      if low <=? n then Ok (set_off q1 (n - low)) else Ok (set_off q1 (qoff q + n))
  else
    (* (base, low, high) of the part starting at pos *)
    let sel :=
      if pos <? low then Ok (base + pos, low - pos, high)
      else let pos' := pos - low in
           if high <? pos' then Err BadArgument else Ok (pos', high - pos', 0) in
    do '(base, low, high) <- sel;
    let post := low + high in
    if post <? n then Err BadArgument
    else
      let post := post - n in
      do buf <-
        (if negb (high =? 0) then
           (* move data over segments *)
           do '(buf, base, post, room, src) <-
             (if n <? low then
                do b <- mv (qbuf q) base (base + n) (low - n);
                Ok (b, base + (low - n), high, n, 0)
              else Ok (qbuf q, base, post, low, n - low));
           if post <=? room then mv buf base src post
           else
             do buf <- mv buf base src room;
             mv buf 0 n (post - room)
         else if negb (post =? 0) then mv (qbuf q) base (base + n) post
         else Ok (qbuf q));
      Ok (set_len (set_buf q buf) (qlen q - n)).

(* queue_get.c / queue_set.c: the temporary copy of the queue advanced to [pos] *)
Definition qtmp (q : queue) (pos : nat) : res queue :=
  if pos =? 0 then Ok q else
  match qcrop q 0 pos with Ok t => Ok t | Fault => Fault | Err _ => Err BadArgument end.

(* the one or two segments of [n] bytes starting at storage index [o] *)
Definition seg_rd (m : mem) (mx o n : nat) : res (list byte) :=
  let '(base, low) := qdata (mkq m n mx o) in
  let high := n - low in
  do a <- rd m base low;
  do b <- rd m 0 high;
  Ok (a ++ b).

Definition seg_wr (m : mem) (mx o : nat) (d : list byte) : res mem :=
  let n := length d in
  let '(base, low) := qdata (mkq m n mx o) in
  let high := n - low in
  do b1 <- (if low =? 0 then Ok m else wr m base (firstn low d));
  if high =? 0 then Ok b1 else wr b1 0 (skipn low d).

(* queue_get.c; returns the bytes copied to the caller *)
Definition qget (q : queue) (pos n : nat) : res (list byte) :=
  if n =? 0 then Ok [] else
  do tmp <- qtmp q pos;
  if qlen tmp <? n then Err BadArgument else
  seg_rd (qbuf q) (qmax q) (qoff tmp) n.

(* queue_set.c; [d] are the bytes to store (zeros when the caller passes NULL) *)
Definition qset (q : queue) (pos : nat) (d : list byte) : res queue :=
  let n := length d in
  if n =? 0 then Ok q else
  do tmp <- qtmp q pos;
  if qlen tmp <? n then Err MissingBuffer else
  do b <- seg_wr (qbuf q) (qmax q) (qoff tmp) d;
  Ok (set_buf q b).

(* qpost.c *)
Definition qpost (q : queue) (n : nat) : res queue :=
  match qempty q with
  | None => Err MissingBuffer
  | Some (low, high) =>
    if low + high <? n then Err MissingBuffer else Ok (set_len q (qlen q + n))
  end.

(* qpre.c *)
Definition qpre (q : queue) (n : nat) : res queue :=
  match qempty q with
  | None => Err MissingBuffer
  | Some (low, high) =>
    if low + high <? n then Err MissingBuffer else
    let off :=
      if negb (high =? 0) && (high <? n) then qmax q - (n - high)
      else if n <? qoff q then qoff q - n else qoff q + (qmax q - n) in
    Ok (mkq (qbuf q) (qlen q + n) (qmax q) off)
  end.

(* qpush.c *)
Definition qpush (q : queue) (d : list byte) : res queue :=
  do q1 <- qpost q (length d);
  qset q1 (qlen q1 - length d) d.

(* qunshift.c *)
Definition qunshift (q : queue) (d : list byte) : res queue :=
  do q1 <- qpre q (length d);
  qset q1 0 d.

(* qpop.c; [hasdata] = caller supplied a target buffer; result bytes are what
   the returned address points to *)
Definition qpop (q : queue) (n : nat) (hasdata : bool) : res (queue * list byte) :=
  let '(base, low) := qdata q in
  let high := qlen q - low in
  if high =? 0 then
    if low <? n then Err ERange else
    do d <- rd (qbuf q) (base + (low - n)) n;
    Ok (set_len q (qlen q - n), d)
  else if high <? n then
    if negb hasdata then Err EInval else
    let part := n - high in
    if low <? part then Err ERange else
    do a <- rd (qbuf q) (qmax q - part) part;
    do b <- rd (qbuf q) 0 high;
    Ok (set_len q (qlen q - n), a ++ b)
  else
    do d <- rd (qbuf q) (high - n) n;
    Ok (set_len q (qlen q - n), d).

(* qshift.c *)
Definition qshift (q : queue) (n : nat) (hasdata : bool) : res (queue * list byte) :=
  let '(base, low) := qdata q in
  do d <-
    (if n <=? low then rd (qbuf q) base n
     else if negb hasdata then Err EInval
     else if qlen q <? n then Err ERange
     else do a <- rd (qbuf q) base low;
          do b <- rd (qbuf q) 0 (n - low);
          Ok (a ++ b));
  (* mpt_queue_crop(queue, 0, len): result ignored by the C code *)
  match qcrop q 0 n with
  | Ok q' => Ok (q', d)
  | Err _ => Ok (q, d)
  | Fault => Fault
  end.

(* memrev.c: mpt_memswap / mpt_memrev on the region starting at [data] *)
Definition memswap (m : mem) (a b n : nat) : res mem :=
  do x <- rd m a n;
  do y <- rd m b n;
  do m1 <- wr m a y;
  wr m1 b x.

Definition MEMREV_BUF := 1024.

Fixpoint memrev_loop (fuel : nat) (m : mem) (data pre post : nat) : res mem :=
  match fuel with
  | 0 => Fault   (* out of fuel: never reached with fuel = pre + post + 1 *)
  | S fuel =>
    if (pre =? 0) || (post =? 0) then Ok m
    else if (pre <=? MEMREV_BUF) || (post <=? MEMREV_BUF) then
      (* tmp copy + memmove + copy back: a rotation *)
      do a <- rd m data pre;
      do b <- rd m (data + pre) post;
      wr m data (b ++ a)
    else if pre <? post then
      do m1 <- memswap m data (data + pre) pre;
      memrev_loop fuel m1 (data + pre) pre (post - pre)
    else
      let l := pre - post in
      do m1 <- memswap m (data + l) (data + pre) post;
      memrev_loop fuel m1 data l post
  end.

Definition memrev (m : mem) (data pre len : nat) : res mem :=
  if len <? pre then Ok m  (* BadArgument, ignored by all callers *)
  else memrev_loop (len + 1) m data pre (len - pre).

(* queue_align.c, first part: make fragmented data contiguous at offset 0 *)
Definition qdefrag (q : queue) : res queue :=
  let pv := qmax q - qlen q in
  do q1 <- (if negb (pv =? 0) then
              do b <- mv (qbuf q) (qoff q - pv) (qoff q) (qmax q - qoff q);
              Ok (set_off (set_buf q b) (qoff q - pv))
            else Ok q);
  do b <- memrev (qbuf q1) 0 (qoff q1) (qlen q1);
  Ok (set_off (set_buf q1 b) 0).

(* queue_align.c, second part: move contiguous data to offset [pos] *)
Definition qplace (q : queue) (pos : nat) : res queue :=
  if pos <=? qmax q - qlen q then
    do b <- mv (qbuf q) pos (qoff q) (qlen q);
    Ok (set_off (set_buf q b) pos)
  else
    let pv := qmax q - pos in
    do b <- memrev (qbuf q) (qoff q) pv (qlen q);
    do b <- (if negb (qoff q =? 0) then mv b 0 (qoff q) (qlen q - pv) else Ok b);
    do b <- (if negb (pos =? qoff q + (qlen q - pv))
             then mv b pos (qoff q + (qlen q - pv)) pv else Ok b);
    Ok (set_off (set_buf q b) pos).

(* queue_align.c *)
Definition qalign (q : queue) (pos : nat) : res queue :=
  if qmax q <? pos then Ok q
  else if qlen q =? 0 then Ok (set_off q 0)
  else if qfrag q then
    do q2 <- qdefrag q;
    if pos =? 0 then Ok q2 else qplace q2 pos
  else if pos =? qoff q then Ok q
  else qplace q pos.

(* queue_resize.c; realloc is modelled as: keep the common prefix, new bytes
   are unspecified (the harness fills them with [fill]); failure of realloc is
   not modelled *)
Definition realloc (m : mem) (n : nat) (fill : byte) : mem :=
  firstn n m ++ repeat fill (n - length m).

Definition qresize (q : queue) (n : nat) (fill : byte) : res queue :=
  if n =? 0 then Ok (mkq [] 0 0 0)
  else if n <? qmax q then
    do q1 <- (if n <? qlen q then
                match qcrop q 0 (qlen q - n) with
                | Ok t => Ok t | Err _ => Ok q | Fault => Fault end
              else Ok q);
    do q2 <- qalign q1 0;
    Ok (mkq (realloc (qbuf q2) n fill) (qlen q2) n (qoff q2))
  else if qmax q <? n then
    do q1 <- (if qfrag q then qalign q 0 else Ok q);
    Ok (mkq (realloc (qbuf q1) n fill) (qlen q1) n (qoff q1))
  else Ok q.

Definition align8 (x : nat) : nat := x + 7 - ((x - 1) mod 8).

(* mpt_queue_prepare; returns the free space *)
Definition qprepare (q : queue) (n : nat) (fill : byte) : res (queue * nat) :=
  let left := qmax q - qlen q in
  if left <? n then
    let want := (n - left) + qmax q in
    do q1 <- qresize q (align8 want) fill;
    Ok (q1, qmax q1 - qlen q1)
  else Ok (q, left).

(* queue_find.c with element size [esz] and the comparison "first byte of the
   element equals [key]"; result: offset of the match from the data start in
   queue order (None = not found) *)
Fixpoint find_from (m : mem) (addr esz iter : nat) (key : byte) (k : nat) : res (option nat) :=
  match iter with
  | 0 => Ok None
  | S iter =>
    do e <- rd m addr esz;
    if N.eqb (hd 0%N e) key then Ok (Some k)
    else find_from m (addr + esz) esz iter key (k + esz)
  end.

Definition qfind (q : queue) (esz : nat) (key : byte) : res (option nat) :=
  if esz =? 0 then Err EInval   (* harness never passes 0: division by zero in C *)
  else if qlen q <? esz then Err MissingData
  else if negb (qfrag q) then find_from (qbuf q) (qoff q) esz (qlen q / esz) key 0
  else
    let up := qmax q - qoff q in
    do r <- find_from (qbuf q) (qoff q) esz (up / esz) key 0;
    match r with
    | Some k => Ok (Some k)
    | None =>
      if negb (up mod esz =? 0) then Err BadOperation
      else find_from (qbuf q) 0 esz ((qlen q - up) / esz) key up
    end.

(* queue_string.c; result: the bytes from the returned address up to and
   including the terminator written by the function *)
Definition qstring (q : queue) : res (queue * list byte) :=
  let rem := qmax q - qlen q in
  if rem =? 0 then Err MissingBuffer
  else
    do q1 <- (if rem <=? qoff q then qalign q 0 else Ok q);
    do b <- wr (qbuf q1) (qoff q1 + qlen q1) [0%N];
    do s <- rd b (qoff q1) (qlen q1 + 1);
    Ok (set_buf q1 b, s).

(* ------------------------------------------------------------------ *)
(* mpt++/io_queue.cpp: class io::queue; its member [_d] is the queue.  Thin
   compositions of the functions above; [fill] is what realloc leaves in new
   storage (reported by the harness set-up, see qresize). *)

(* io::queue::prepare: (!len || mpt_queue_prepare(&_d, len)) *)
Definition ioprepare (q : queue) (n : nat) (fill : byte) : res queue :=
  if n =? 0 then Ok q else
  do '(q1, room) <- qprepare q n fill;
  if room =? 0 then Err MissingBuffer else Ok q1.

(* io::queue::push / unshift: the result of mpt_queue_prepare is ignored *)
Definition iopush (q : queue) (d : list byte) (fill : byte) : res queue :=
  match qprepare q (length d) fill with
  | Ok (q1, _) => qpush q1 d
  | Err _ => qpush q d
  | Fault => Fault
  end.

Definition iounshift (q : queue) (d : list byte) (fill : byte) : res queue :=
  match qprepare q (length d) fill with
  | Ok (q1, _) => qunshift q1 d
  | Err _ => qunshift q d
  | Fault => Fault
  end.

(* io::queue::pop(0, len): mpt_queue_crop(&_d, _d.len - len, len).  For len > _d.len
   the position is computed modulo 2^64 and lies beyond every stored byte, which
   queue_crop refuses in its "start position out of range" branch. *)
Definition iopop0 (q : queue) (n : nat) : res queue :=
  if qlen q <? n then Err BadArgument else qcrop q (qlen q - n) n.

(* io::queue::write(len, d, part); [elems] are the len elements of [part] bytes.
   Transcribed AS PATCHED by docs/C13_io_write.diff: the loop ends when mpt_qpush
   reports an error (< 0); the unpatched test (!mpt_qpush(..)) ends it on success. *)
Fixpoint iowrite_loop (q : queue) (elems : list (list byte)) (done : nat) : res (queue * nat) :=
  match elems with
  | [] => Ok (q, done)
  | e :: r =>
    match qpush q e with
    | Ok q1 => iowrite_loop q1 r (S done)
    | Err _ => Ok (q, done)
    | Fault => Fault
    end
  end.

Definition iowrite (q : queue) (part : nat) (elems : list (list byte)) (fill : byte) : res (queue * nat) :=
  let cnt := length elems in
  if part =? 0 then
    do q1 <- ioprepare q cnt fill; Ok (q1, cnt)
  else
    do q1 <- match ioprepare q (part * cnt) fill with
             | Ok q1 => Ok q1
             | Err _ => match ioprepare q part fill with Ok q2 => Ok q2 | Err _ => Ok q | Fault => Fault end
             | Fault => Fault
             end;
    iowrite_loop q1 elems 0.

(* io::queue::read(len, d, part): elements are taken from the END (mpt_qpop) *)
Fixpoint ioread_loop (q : queue) (cnt part done : nat) (acc : list byte) : res (queue * (nat * list byte)) :=
  match cnt with
  | 0 => Ok (q, (done, acc))
  | S c =>
    match qpop q part true with
    | Ok (q1, d) => ioread_loop q1 c part (S done) (acc ++ d)
    | Err _ => Ok (q, (done, acc))
    | Fault => Fault
    end
  end.

(* io::queue::peek(len): the bytes of the returned span *)
Definition iopeek (q : queue) (n : nat) : res (queue * list byte) :=
  let '(base, low) := qdata q in
  let len := if n =? 0 then qlen q else n in
  if len <=? low then
    do d <- rd (qbuf q) base low; Ok (q, d)
  else if negb (qfrag q) then
    do d <- rd (qbuf q) base (qlen q); Ok (q, d)
  else
    do q1 <- qalign q 0;
    do d <- rd (qbuf q1) 0 (qlen q1);
    Ok (q1, d).

(* ~queue() followed by queue(len) *)
Definition ionew (q : queue) (n : nat) (fill : byte) : res queue :=
  do q0 <- qresize q 0 fill;
  if n =? 0 then Ok q0
  else match qprepare q0 n fill with
       | Ok (q1, _) => Ok q1
       | Err _ => Ok q0
       | Fault => Fault
       end.

(* ------------------------------------------------------------------ *)
(* operations as data, for histories *)
Inductive qop :=
| OpPush (d : list byte)
| OpUnshift (d : list byte)
| OpPop (n : nat) (hasdata : bool)
| OpShift (n : nat) (hasdata : bool)
| OpCrop (pos n : nat)
| OpGet (pos n : nat)
| OpSet (pos : nat) (d : list byte)
| OpAlign (pos : nat)
| OpResize (n : nat) (fill : byte)
| OpPrepare (n : nat) (fill : byte)
| OpFind (esz : nat) (key : byte)
| OpString
(* mpt++ io::queue *)
| OpIoPrepare (n : nat) (fill : byte)
| OpIoPush (d : list byte) (fill : byte)
| OpIoUnshift (d : list byte) (fill : byte)
| OpIoPop (n : nat) (hasdata : bool)
| OpIoShift (n : nat) (hasdata : bool)
| OpIoWrite (part : nat) (elems : list (list byte)) (fill : byte)
| OpIoRead (cnt part : nat)
| OpIoPeek (n : nat)
| OpIoNew (n : nat) (fill : byte).

(* observable outcome of one operation *)
Inductive qout :=
| ODone                      (* accepted, nothing returned *)
| OBytes (d : list byte)     (* accepted, these bytes returned *)
| OPos (p : option nat)      (* search result *)
| OCount (n : nat) (d : list byte)   (* accepted: number of elements transferred, bytes returned *)
| ORefused (e : err)
| OFault.

Definition lift1 (q : queue) (r : res queue) : queue * qout :=
  match r with Ok q' => (q', ODone) | Err e => (q, ORefused e) | Fault => (q, OFault) end.
Definition lift2 (q : queue) (r : res (queue * list byte)) : queue * qout :=
  match r with Ok (q', d) => (q', OBytes d) | Err e => (q, ORefused e) | Fault => (q, OFault) end.

Definition qstep (q : queue) (o : qop) : queue * qout :=
  match o with
  | OpPush d => lift1 q (qpush q d)
  | OpUnshift d => lift1 q (qunshift q d)
  | OpPop n h => lift2 q (qpop q n h)
  | OpShift n h => lift2 q (qshift q n h)
  | OpCrop p n => lift1 q (qcrop q p n)
  | OpGet p n => match qget q p n with
                 | Ok d => (q, OBytes d) | Err e => (q, ORefused e) | Fault => (q, OFault) end
  | OpSet p d => lift1 q (qset q p d)
  | OpAlign p => lift1 q (qalign q p)
  | OpResize n f => lift1 q (qresize q n f)
  | OpPrepare n f => match qprepare q n f with
                     | Ok (q', _) => (q', ODone) | Err e => (q, ORefused e) | Fault => (q, OFault) end
  | OpFind e k => match qfind q e k with
                  | Ok p => (q, OPos p) | Err e => (q, ORefused e) | Fault => (q, OFault) end
  | OpString => lift2 q (qstring q)
  | OpIoPrepare n f => lift1 q (ioprepare q n f)
  | OpIoPush d f => lift1 q (iopush q d f)
  | OpIoUnshift d f => lift1 q (iounshift q d f)
  | OpIoPop n h => if h then lift2 q (qpop q n true) else lift1 q (iopop0 q n)
  | OpIoShift n h => if h then lift2 q (qshift q n true) else lift1 q (qcrop q 0 n)
  | OpIoWrite part elems f =>
    match iowrite q part elems f with
    | Ok (q', k) => (q', OCount k []) | Err e => (q, ORefused e) | Fault => (q, OFault) end
  | OpIoRead cnt part =>
    match ioread_loop q cnt part 0 [] with
    | Ok (q', (k, d)) => (q', OCount k d) | Err e => (q, ORefused e) | Fault => (q, OFault) end
  | OpIoPeek n => lift2 q (iopeek q n)
  | OpIoNew n f => lift1 q (ionew q n f)
  end.

(* the byte sequence held by the queue: index i lives at (off + i) wrapped *)
Definition contents (q : queue) : list byte :=
  if qoff q + qlen q <=? qmax q then slice (qoff q) (qlen q) (qbuf q)
  else skipn (qoff q) (qbuf q) ++ firstn (qoff q + qlen q - qmax q) (qbuf q).

Definition qinv (q : queue) : Prop :=
  length (qbuf q) = qmax q /\ qlen q <= qmax q /\ qoff q <= qmax q.

Definition qinvb (q : queue) : bool :=
  (length (qbuf q) =? qmax q) && (qlen q <=? qmax q) && (qoff q <=? qmax q).
