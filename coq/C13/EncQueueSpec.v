(* C13/EncQueueSpec.v — what a raw encode_queue is: a byte deque whose content is a
   finished part followed by an unfinished part, with a capacity. *)
From MptV Require Import Base.Mem C13.QueueModel C13.QueueSpec C13.EncQueueModel.
Local Open Scope nat_scope.

Record esq := mkesq { sfin : list byte; spend : list byte; secap : nat }.

Definition esstep (s : esq) (o : eop) (e : err) : esq * qout :=
  match o with
  | EPush d =>
    if length d =? 0
    then (mkesq (sfin s ++ spend s) [] (secap s), OCount (length (sfin s ++ spend s)) [])
    else
      let free := secap s - (length (sfin s) + length (spend s)) in
      if free =? 0 then (s, ORefused e)
      else
        let k := Nat.min free (length d) in
        (mkesq (sfin s) (spend s ++ firstn k d) (secap s), OCount k [])
  | ERevert =>
    if length (spend s) =? 0 then (s, ORefused e) else (mkesq (sfin s) [] (secap s), ODone)
  | ETrim n =>
    if n <=? length (sfin s) then (mkesq (skipn n (sfin s)) (spend s) (secap s), ODone)
    else (s, ORefused e)
  end.

Definition eabs (e : equeue) : esq :=
  mkesq (firstn (edone e) (contents (ering e))) (skipn (edone e) (contents (ering e))) (qmax (ering e)).

(* observation after each operation: output, all bytes, capacity, finished / unfinished counts *)
Definition eobs := (qout * list byte * nat * nat * nat)%type.

Fixpoint erun (e : equeue) (ops : list eop) : list eobs :=
  match ops with
  | [] => []
  | o :: ops =>
    let '(e', out) := estep e o in
    (out, contents (ering e'), qmax (ering e'), edone e', escr e') :: erun e' ops
  end.

Fixpoint esrun (e : equeue) (s : esq) (ops : list eop) : list eobs :=
  match ops with
  | [] => []
  | o :: ops =>
    let '(e', out) := estep e o in
    let '(s', sout) := esstep s o (err_of out) in
    (sout, sfin s' ++ spend s', secap s', length (sfin s'), length (spend s')) :: esrun e' s' ops
  end.
