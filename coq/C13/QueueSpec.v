(* C13/QueueSpec.v — the abstract specification: a plain double-ended byte list
   with a capacity.  Short enough to read in a minute; it knows nothing about
   offsets, wrap-around or storage. *)
From MptV Require Import Base.Mem C13.QueueModel.
Local Open Scope nat_scope.

Record sq := mksq { sc : list byte; scap : nat }.

Definition accepted (o : qout) : bool :=
  match o with ORefused _ | OFault => false | _ => true end.

Fixpoint sfind (c : list byte) (esz : nat) (key : byte) (k fuel : nat) : option nat :=
  match fuel with
  | 0 => None
  | S fuel =>
    if length c <? esz then None
    else if N.eqb (hd 0%N c) key then Some k
    else sfind (skipn esz c) esz key (k + esz) fuel
  end.

Definition grow_cap (cap used n : nat) : nat :=
  if cap - used <? n then align8 ((n - (cap - used)) + cap) else cap.

(* io::queue::write / read at the level of the deque: elements go in at the back
   while they fit, and come out at the back while there are enough bytes *)
Fixpoint swrite (c : list byte) (cap : nat) (elems : list (list byte)) (done : nat) : list byte * nat :=
  match elems with
  | [] => (c, done)
  | e :: r =>
    let free := cap - length c in
    if (length e <=? free) && negb (free =? 0) then swrite (c ++ e) cap r (S done) else (c, done)
  end.

Fixpoint sread (c : list byte) (cnt part done : nat) (acc : list byte) : list byte * (nat * list byte) :=
  match cnt with
  | 0 => (c, (done, acc))
  | S k =>
    if part <=? length c
    then sread (firstn (length c - part) c) k part (S done) (acc ++ lastn part c)
    else (c, (done, acc))
  end.

(* [acc]: the implementation's accept/refuse decision, consulted only where the
   interface allows either (no target buffer for data that is not contiguous,
   search over an element that straddles the wrap); everywhere else the
   specification decides alone.  [e] is the error kind reported on refusal,
   which the specification does not constrain.  [k] is the number of bytes the
   implementation returned; only io::queue::peek consults it: how much more than
   asked a peek shows depends on where the content wraps, the specification
   demands a prefix of the content that is long enough. *)
Definition sstep (s : sq) (o : qop) (acc : bool) (e : err) (k : nat) : sq * qout :=
  let c := sc s in
  let free := scap s - length c in
  match o with
  | OpPush d =>
    if (length d <=? free) && negb (free =? 0) then (mksq (c ++ d) (scap s), ODone)
    else (s, ORefused e)
  | OpUnshift d =>
    if (length d <=? free) && negb (free =? 0) then (mksq (d ++ c) (scap s), ODone)
    else (s, ORefused e)
  | OpPop n h =>
    if (n <=? length c) && (h || acc)
    then (mksq (firstn (length c - n) c) (scap s), OBytes (lastn n c))
    else (s, ORefused e)
  | OpShift n h =>
    if (n <=? length c) && (h || acc)
    then (mksq (skipn n c) (scap s), OBytes (firstn n c))
    else (s, ORefused e)
  | OpCrop p n =>
    if p + n <=? length c then (mksq (firstn p c ++ skipn (p + n) c) (scap s), ODone)
    else (s, ORefused e)
  | OpGet p n =>
    if n =? 0 then (s, OBytes [])
    else if p + n <=? length c then (s, OBytes (slice p n c))
    else (s, ORefused e)
  | OpSet p d =>
    if length d =? 0 then (s, ODone)
    else if p + length d <=? length c then (mksq (upd c p d) (scap s), ODone)
    else (s, ORefused e)
  | OpAlign _ => (s, ODone)
  | OpResize n _ => (mksq (lastn (Nat.min n (length c)) c) n, ODone)
  | OpPrepare n _ =>
    let cap := grow_cap (scap s) (length c) n in
    (mksq c cap, ODone)
  | OpFind esz key =>
    if (esz =? 0) || (length c <? esz) || negb acc then (s, ORefused e)
    else (s, OPos (sfind c esz key 0 (length c)))
  | OpString =>
    if free =? 0 then (s, ORefused e) else (s, OBytes (c ++ [0%N]))
  | OpIoPrepare n _ => (mksq c (grow_cap (scap s) (length c) n), ODone)
  | OpIoPush d _ =>
    let cap := grow_cap (scap s) (length c) (length d) in
    if (length d <=? cap - length c) && negb (cap - length c =? 0) then (mksq (c ++ d) cap, ODone)
    else (s, ORefused e)
  | OpIoUnshift d _ =>
    let cap := grow_cap (scap s) (length c) (length d) in
    if (length d <=? cap - length c) && negb (cap - length c =? 0) then (mksq (d ++ c) cap, ODone)
    else (s, ORefused e)
  | OpIoPop n h =>
    if n <=? length c
    then (mksq (firstn (length c - n) c) (scap s), if h then OBytes (lastn n c) else ODone)
    else (s, ORefused e)
  | OpIoShift n h =>
    if n <=? length c
    then (mksq (skipn n c) (scap s), if h then OBytes (firstn n c) else ODone)
    else (s, ORefused e)
  | OpIoWrite part elems _ =>
    if part =? 0 then (mksq c (grow_cap (scap s) (length c) (length elems)), OCount (length elems) [])
    else
      let cap := grow_cap (scap s) (length c) (part * length elems) in
      let '(c', done) := swrite c cap elems 0 in
      (mksq c' cap, OCount done [])
  | OpIoRead cnt part =>
    let '(c', (done, d)) := sread c cnt part 0 [] in
    (mksq c' (scap s), OCount done d)
  | OpIoPeek n =>
    let want := if n =? 0 then length c else n in
    if (k <=? length c) && ((want <=? k) || (k =? length c)) then (s, OBytes (firstn k c))
    else (s, ORefused e)
  | OpIoNew n _ => (mksq [] (grow_cap 0 0 n), ODone)
  end.

Definition abs (q : queue) : sq := mksq (contents q) (qmax q).

Definition err_of (o : qout) : err :=
  match o with ORefused e => e | _ => BadArgument end.

Definition len_of (o : qout) : nat :=
  match o with OBytes d => length d | _ => 0 end.

(* run a history on both levels; the specification is driven by the model's
   accept bits, the outputs are collected *)
Fixpoint qrun (q : queue) (ops : list qop) : list (qout * list byte * nat) :=
  match ops with
  | [] => []
  | o :: ops => let '(q', out) := qstep q o in (out, contents q', qmax q') :: qrun q' ops
  end.

Fixpoint srun (q : queue) (s : sq) (ops : list qop) : list (qout * list byte * nat) :=
  match ops with
  | [] => []
  | o :: ops =>
    let '(q', out) := qstep q o in
    let '(s', sout) := sstep s o (accepted out) (err_of out) (len_of out) in
    (sout, sc s', scap s') :: srun q' s' ops
  end.
