(* C13/QueueSpec.v — the abstract specification: a plain double-ended byte list
   with a capacity.  Short enough to read in a minute; it knows nothing about
   offsets, wrap-around or storage. *)
From MptV Require Import Base.Mem C13.QueueModel.
Local Open Scope nat_scope.

Record sq := mksq { sc : list byte; scap : nat }.

Definition accepted (o : qout) : bool :=
  match o with ORefused _ | OFault => false | _ => true end.

Fixpoint sfind (c : list byte) (esz : nat) (key : byte) (k fuel : nat) : option nat :=
  match fuel with
  | 0 => None
  | S fuel =>
    if length c <? esz then None
    else if N.eqb (hd 0%N c) key then Some k
    else sfind (skipn esz c) esz key (k + esz) fuel
  end.

Definition grow_cap (cap used n : nat) : nat :=
  if cap - used <? n then align8 ((n - (cap - used)) + cap) else cap.

(* [acc]: the implementation's accept/refuse decision, consulted only where the
   interface allows either (no target buffer for data that is not contiguous,
   search over an element that straddles the wrap); everywhere else the
   specification decides alone.  [e] is the error kind reported on refusal,
   which the specification does not constrain. *)
Definition sstep (s : sq) (o : qop) (acc : bool) (e : err) : sq * qout :=
  let c := sc s in
  let free := scap s - length c in
  match o with
  | OpPush d =>
    if (length d <=? free) && negb (free =? 0) then (mksq (c ++ d) (scap s), ODone)
    else (s, ORefused e)
  | OpUnshift d =>
    if (length d <=? free) && negb (free =? 0) then (mksq (d ++ c) (scap s), ODone)
    else (s, ORefused e)
  | OpPop n h =>
    if (n <=? length c) && (h || acc)
    then (mksq (firstn (length c - n) c) (scap s), OBytes (lastn n c))
    else (s, ORefused e)
  | OpShift n h =>
    if (n <=? length c) && (h || acc)
    then (mksq (skipn n c) (scap s), OBytes (firstn n c))
    else (s, ORefused e)
  | OpCrop p n =>
    if p + n <=? length c then (mksq (firstn p c ++ skipn (p + n) c) (scap s), ODone)
    else (s, ORefused e)
  | OpGet p n =>
    if n =? 0 then (s, OBytes [])
    else if p + n <=? length c then (s, OBytes (slice p n c))
    else (s, ORefused e)
  | OpSet p d =>
    if length d =? 0 then (s, ODone)
    else if p + length d <=? length c then (mksq (upd c p d) (scap s), ODone)
    else (s, ORefused e)
  | OpAlign _ => (s, ODone)
  | OpResize n _ => (mksq (lastn (Nat.min n (length c)) c) n, ODone)
  | OpPrepare n _ =>
    let cap := grow_cap (scap s) (length c) n in
    (mksq c cap, ODone)
  | OpFind esz key =>
    if (esz =? 0) || (length c <? esz) || negb acc then (s, ORefused e)
    else (s, OPos (sfind c esz key 0 (length c)))
  | OpString =>
    if free =? 0 then (s, ORefused e) else (s, OBytes (c ++ [0%N]))
  end.

Definition abs (q : queue) : sq := mksq (contents q) (qmax q).

Definition err_of (o : qout) : err :=
  match o with ORefused e => e | _ => BadArgument end.

(* run a history on both levels; the specification is driven by the model's
   accept bits, the outputs are collected *)
Fixpoint qrun (q : queue) (ops : list qop) : list (qout * list byte * nat) :=
  match ops with
  | [] => []
  | o :: ops => let '(q', out) := qstep q o in (out, contents q', qmax q') :: qrun q' ops
  end.

Fixpoint srun (q : queue) (s : sq) (ops : list qop) : list (qout * list byte * nat) :=
  match ops with
  | [] => []
  | o :: ops =>
    let '(q', out) := qstep q o in
    let '(s', sout) := sstep s o (accepted out) (err_of out) in
    (sout, sc s', scap s') :: srun q' s' ops
  end.
