(* C13/QueueProofs.v — refinement of the ring-buffer model to the byte deque. *)
From MptV Require Import Base.Mem C13.QueueModel C13.QueueSpec.
Local Open Scope nat_scope.

(* index of the i-th byte of the queue inside the storage *)
Definition cidx (q : queue) (i : nat) : nat :=
  if qoff q + i <? qmax q then qoff q + i else qoff q + i - qmax q.

Lemma contents_length q : qinv q -> length (contents q) = qlen q.
Proof.
  intros (Hb & Hl & Ho). unfold contents.
  destruct (Nat.leb_spec (qoff q + qlen q) (qmax q)).
  - apply length_slice. lia.
  - rewrite app_length, skipn_length, firstn_length. lia.
Qed.

Lemma contents_nth q i d : qinv q -> i < qlen q ->
  nth i (contents q) d = nth (cidx q i) (qbuf q) d.
Proof.
  intros (Hb & Hl & Ho) Hi. unfold contents, cidx.
  destruct (Nat.leb_spec (qoff q + qlen q) (qmax q)).
  - rewrite nth_slice by assumption.
    destruct (Nat.ltb_spec (qoff q + i) (qmax q)); [reflexivity|lia].
  - rewrite nth_app, skipn_length.
    destruct (Nat.ltb_spec i (length (qbuf q) - qoff q));
    destruct (Nat.ltb_spec (qoff q + i) (qmax q)); try lia.
    + apply nth_skipn'.
    + rewrite nth_firstn' by lia. f_equal. lia.
Qed.

(* two queues hold the same bytes when their storage agrees on the ring *)
Lemma contents_ext q1 q2 :
  qinv q1 -> qinv q2 -> qlen q1 = qlen q2 ->
  (forall i, i < qlen q1 -> nth (cidx q1 i) (qbuf q1) 0%N = nth (cidx q2 i) (qbuf q2) 0%N) ->
  contents q1 = contents q2.
Proof.
  intros H1 H2 Hl H. apply (nth_ext' _ _ 0%N).
  - rewrite !contents_length by assumption. assumption.
  - intros i Hi. rewrite contents_length in Hi by assumption.
    rewrite !contents_nth by (assumption || lia). apply H. assumption.
Qed.

(* ---------- tactics ---------- *)
Ltac cases_if :=
  match goal with
  | |- context [?a <? ?b] => destruct (Nat.ltb_spec a b)
  | |- context [?a <=? ?b] => destruct (Nat.leb_spec a b)
  | |- context [?a =? ?b] => destruct (Nat.eqb_spec a b)
  | H : context [?a <? ?b] |- _ => destruct (Nat.ltb_spec a b)
  | H : context [?a <=? ?b] |- _ => destruct (Nat.leb_spec a b)
  | H : context [?a =? ?b] |- _ => destruct (Nat.eqb_spec a b)
  end; cbn [andb orb negb bind] in *.

Ltac side := first [assumption | lia | rewrite ?contents_length by assumption; lia].
Ltac nth_eq := try reflexivity; try lia; try (f_equal; lia).

(* crop at the front: only [off] and [len] change *)
Lemma qcrop0_ok q n : qinv q -> n <= qlen q ->
  exists o, qcrop q 0 n = Ok (mkq (qbuf q) (qlen q - n) (qmax q) o) /\ o <= qmax q /\
    (n < qlen q -> o = cidx q n).
Proof.
  intros (Hb & Hl & Ho) Hn. unfold qcrop, qdata, cidx.
  destruct (Nat.ltb_spec (qmax q - qoff q) (qlen q)); cbn [Nat.eqb];
    repeat cases_if; try lia; unfold set_off, set_len; cbn [qbuf qlen qmax qoff];
    eexists; (split; [reflexivity|]); split; try lia; intros; repeat cases_if; lia.
Qed.

Lemma qcrop0_err q n : qinv q -> qlen q < n -> qcrop q 0 n = Err BadArgument.
Proof.
  intros (Hb & Hl & Ho) Hn. unfold qcrop, qdata.
  destruct (Nat.ltb_spec (qmax q - qoff q) (qlen q)); cbn [Nat.eqb]; repeat cases_if; try lia; reflexivity.
Qed.

(* ring offset of storage index j relative to start o *)
Definition roff (mx o j : nat) : nat := if o <=? j then j - o else j + mx - o.

Lemma nth_wr m i d m' j x : wr m i d = Ok m' ->
  length m' = length m /\
  nth j m' x = if (i <=? j) && (j <? i + length d) then nth (j - i) d x else nth j m x.
Proof.
  intros H. apply wr_inv in H. destruct H as [Hl ->]. split.
  - apply upd_length. assumption.
  - apply (nth_upd m i d j x Hl).
Qed.

Lemma seg_wr_spec m mx o d : length m = mx -> o <= mx -> length d <= mx ->
  exists b, seg_wr m mx o d = Ok b /\ length b = mx /\
    forall j, j < mx -> nth j b 0%N =
      if roff mx o j <? length d then nth (roff mx o j) d 0%N else nth j m 0%N.
Proof.
  intros Hm Ho Hd. unfold seg_wr, qdata. cbn [qbuf qlen qmax qoff].
  destruct (Nat.ltb_spec (mx - o) (length d)) as [Hw|Hw].
  - (* wraps: low = mx - o *)
    destruct (Nat.eqb_spec (mx - o) 0) as [E|E]; cbn [bind].
    + destruct (Nat.eqb_spec (length d - (mx - o)) 0); [lia|].
      assert (Hs : skipn (mx - o) d = d) by (rewrite E; reflexivity).
      rewrite Hs, wr_ok by lia. eexists; split; [reflexivity|]. split.
      * fold (upd m 0 d). rewrite upd_length; lia.
      * intros j Hj. fold (upd m 0 d). rewrite nth_upd by lia. unfold roff.
        repeat cases_if; cbn [andb]; nth_eq.
    + rewrite wr_ok by (rewrite firstn_length; lia). cbn [bind].
      destruct (Nat.eqb_spec (length d - (mx - o)) 0); [lia|].
      fold (upd m o (firstn (mx - o) d)).
      assert (L1 : length (upd m o (firstn (mx - o) d)) = length m)
        by (apply upd_length; rewrite firstn_length; lia).
      rewrite wr_ok by (rewrite skipn_length; lia).
      fold (upd (upd m o (firstn (mx - o) d)) 0 (skipn (mx - o) d)).
      eexists; split; [reflexivity|]. split.
      * rewrite upd_length; rewrite ?skipn_length; lia.
      * intros j Hj. rewrite nth_upd by (rewrite skipn_length; lia).
        rewrite nth_upd by (rewrite firstn_length; lia).
        rewrite skipn_length, firstn_length. unfold roff.
        repeat cases_if; cbn [andb]; try lia;
          rewrite ?nth_skipn', ?nth_firstn' by lia; nth_eq.
  - (* contiguous: low = length d, high = 0 *)
    rewrite Nat.sub_diag. cbn [Nat.eqb].
    destruct (Nat.eqb_spec (length d) 0) as [E|E]; cbn [bind].
    + eexists; split; [reflexivity|]. split; [assumption|].
      intros j Hj. cases_if; [lia|reflexivity].
    + rewrite firstn_all, wr_ok by lia. cbn [bind].
      eexists; split; [reflexivity|]. fold (upd m o d). split.
      * rewrite upd_length; lia.
      * intros j Hj. rewrite nth_upd by lia. unfold roff.
        repeat cases_if; cbn [andb]; nth_eq.
Qed.

Definition widx (mx o i : nat) : nat := if o + i <? mx then o + i else o + i - mx.

Lemma seg_rd_spec m mx o n : length m = mx -> o <= mx -> n <= mx ->
  exists l, seg_rd m mx o n = Ok l /\ length l = n /\
    forall i, i < n -> nth i l 0%N = nth (widx mx o i) m 0%N.
Proof.
  intros Hm Ho Hn. unfold seg_rd, qdata. cbn [qbuf qlen qmax qoff].
  destruct (Nat.ltb_spec (mx - o) n) as [Hw|Hw].
  - rewrite !rd_ok by lia. cbn [bind]. eexists; split; [reflexivity|]. split.
    + rewrite app_length, !length_slice by lia. lia.
    + intros i Hi. rewrite nth_app, length_slice by lia. unfold widx.
      repeat cases_if; try lia; rewrite nth_slice by lia; nth_eq.
  - rewrite !rd_ok by lia. cbn [bind]. eexists; split; [reflexivity|]. split.
    + rewrite app_length, !length_slice by lia. lia.
    + intros i Hi. rewrite nth_app, length_slice by lia. unfold widx.
      repeat cases_if; try lia; rewrite nth_slice by lia; nth_eq.
Qed.

Lemma qtmp_ok q pos : qinv q -> pos < qlen q ->
  exists o, qtmp q pos = Ok (mkq (qbuf q) (qlen q - pos) (qmax q) o) /\ o <= qmax q /\
    forall i, widx (qmax q) o i = cidx q (pos + i) \/ qmax q <= pos + i.
Proof.
  intros Hq Hp. unfold qtmp. destruct (Nat.eqb_spec pos 0) as [->|Hne].
  - destruct Hq as (Hb & Hl & Ho). exists (qoff q). rewrite Nat.sub_0_r. destruct q; cbn in *.
    split; [reflexivity|]. split; [assumption|]. intros i. left. unfold widx, cidx. cbn. reflexivity.
  - destruct (qcrop0_ok q pos Hq ltac:(lia)) as (o & -> & Ho & Hc). exists o.
    split; [reflexivity|]. split; [assumption|]. intros i. rewrite (Hc Hp).
    destruct Hq as (Hb & Hl & Hoff).
    unfold widx, cidx. repeat cases_if; lia.
Qed.

Lemma qtmp_err q pos : qinv q -> qlen q < pos -> qtmp q pos = Err BadArgument.
Proof.
  intros Hq Hp. unfold qtmp. destruct (Nat.eqb_spec pos 0); [lia|].
  rewrite qcrop0_err by assumption. reflexivity.
Qed.

Lemma qtmp_all q : qinv q -> exists t, qtmp q (qlen q) = Ok t /\ qlen t = 0.
Proof.
  intros Hq. unfold qtmp. destruct (Nat.eqb_spec (qlen q) 0) as [E|E].
  - exists q. auto.
  - destruct (qcrop0_ok q (qlen q) Hq ltac:(lia)) as (o & -> & _). eexists. split; [reflexivity|].
    cbn. lia.
Qed.

(* queue_set: overwrite inside the data *)
Lemma qset_spec q pos d : qinv q -> 0 < length d ->
  if pos + length d <=? qlen q then
    exists b, qset q pos d = Ok (set_buf q b) /\ qinv (set_buf q b) /\
      contents (set_buf q b) = upd (contents q) pos d
  else exists e, qset q pos d = Err e.
Proof.
  intros Hq Hd. pose proof Hq as (Hb & Hl & Ho). unfold qset.
  destruct (Nat.eqb_spec (length d) 0); [lia|].
  destruct (Nat.leb_spec (pos + length d) (qlen q)) as [Hfit|Hfit].
  - destruct (qtmp_ok q pos Hq ltac:(lia)) as (o & -> & Hom & Hw). cbn [bind qlen qoff].
    destruct (Nat.ltb_spec (qlen q - pos) (length d)); [lia|].
    destruct (seg_wr_spec (qbuf q) (qmax q) o d Hb Hom ltac:(lia)) as (b & -> & Hbl & Hn).
    cbn [bind]. exists b. split; [reflexivity|].
    assert (Hq' : qinv (set_buf q b)) by (unfold qinv, set_buf; cbn; lia).
    split; [assumption|].
    apply (nth_ext' _ _ 0%N).
    + rewrite upd_length by (rewrite contents_length by assumption; lia).
      rewrite !contents_length by assumption. reflexivity.
    + intros i Hi. rewrite contents_length in Hi by assumption. cbn [set_buf qlen] in Hi.
      rewrite contents_nth by (assumption || (cbn; lia)).
      rewrite nth_upd by (rewrite contents_length by assumption; lia).
      cbn [set_buf qbuf]. replace (cidx (set_buf q b) i) with (cidx q i) by reflexivity.
      assert (Hci : cidx q i < qmax q) by (unfold cidx; cases_if; lia).
      rewrite (Hn _ Hci).
      assert (Hro : roff (qmax q) o (cidx q i) = if pos <=? i then i - pos else i + qmax q - pos).
      { destruct (Hw 0) as [Hw0|Hw0]; [|lia]. unfold widx in Hw0. rewrite !Nat.add_0_r in Hw0.
        unfold roff. revert Hw0. unfold cidx. repeat cases_if; lia. }
      rewrite Hro.
      repeat cases_if; try lia; rewrite ?contents_nth by (assumption || lia); nth_eq.
  - destruct (Nat.leb_spec pos (qlen q)) as [Hp|Hp].
    + destruct (Nat.eq_dec pos (qlen q)) as [->|Hne].
      * destruct (qtmp_all q Hq) as (t & -> & Ht). cbn [bind]. rewrite Ht.
        destruct (Nat.ltb_spec 0 (length d)); [|lia]. eexists; reflexivity.
      * destruct (qtmp_ok q pos Hq ltac:(lia)) as (o & -> & _). cbn [bind qlen].
        destruct (Nat.ltb_spec (qlen q - pos) (length d)); [|lia]. eexists; reflexivity.
    + rewrite qtmp_err by (assumption || lia). eexists; reflexivity.
Qed.

Lemma nth_contents_slice q p n i : qinv q -> p + n <= qlen q -> i < n ->
  nth i (slice p n (contents q)) 0%N = nth (cidx q (p + i)) (qbuf q) 0%N.
Proof.
  intros Hq Hp Hi. rewrite nth_slice by assumption. apply contents_nth; [assumption|lia].
Qed.

(* queue_get *)
Lemma qget_spec q pos n : qinv q -> 0 < n ->
  if pos + n <=? qlen q then qget q pos n = Ok (slice pos n (contents q))
  else exists e, qget q pos n = Err e.
Proof.
  intros Hq Hn. pose proof Hq as (Hb & Hl & Ho). unfold qget.
  destruct (Nat.eqb_spec n 0); [lia|].
  destruct (Nat.leb_spec (pos + n) (qlen q)) as [Hfit|Hfit].
  - destruct (qtmp_ok q pos Hq ltac:(lia)) as (o & -> & Hom & Hw). cbn [bind qlen qoff].
    destruct (Nat.ltb_spec (qlen q - pos) n); [lia|].
    destruct (seg_rd_spec (qbuf q) (qmax q) o n Hb Hom ltac:(lia)) as (l & -> & Hll & Hn').
    f_equal. apply (nth_ext' _ _ 0%N).
    + rewrite length_slice by (rewrite contents_length by assumption; lia). assumption.
    + intros i Hi. rewrite Hll in Hi. rewrite (Hn' _ Hi), nth_contents_slice by (assumption || lia).
      destruct (Hw i) as [->|]; [reflexivity|lia].
  - destruct (Nat.leb_spec pos (qlen q)) as [Hp|Hp].
    + destruct (Nat.eq_dec pos (qlen q)) as [->|Hne].
      * destruct (qtmp_all q Hq) as (t & -> & Ht). cbn [bind]. rewrite Ht.
        destruct (Nat.ltb_spec 0 n); [|lia]. eexists; reflexivity.
      * destruct (qtmp_ok q pos Hq ltac:(lia)) as (o & -> & _). cbn [bind qlen].
        destruct (Nat.ltb_spec (qlen q - pos) n); [|lia]. eexists; reflexivity.
    + rewrite qtmp_err by (assumption || lia). eexists; reflexivity.
Qed.

(* qpost / qpre: room is made at the back / front, the old bytes keep their place *)
Lemma qpost_spec q n : qinv q ->
  if (n <=? qmax q - qlen q) && negb (qmax q - qlen q =? 0)
  then qpost q n = Ok (set_len q (qlen q + n))
  else exists e, qpost q n = Err e.
Proof.
  intros (Hb & Hl & Ho). unfold qpost, qempty.
  repeat cases_if; try lia; try reflexivity; eexists; reflexivity.
Qed.

Lemma qpre_spec q n : qinv q ->
  if (n <=? qmax q - qlen q) && negb (qmax q - qlen q =? 0)
  then exists o, qpre q n = Ok (mkq (qbuf q) (qlen q + n) (qmax q) o) /\ o <= qmax q /\
         forall i, i < qlen q -> cidx (mkq (qbuf q) (qlen q + n) (qmax q) o) (n + i) = cidx q i
  else exists e, qpre q n = Err e.
Proof.
  intros (Hb & Hl & Ho). unfold qpre, qempty.
  repeat cases_if; try lia; try (eexists; reflexivity);
    (eexists; split; [reflexivity|]); (split; [lia|]);
    intros i Hi; unfold cidx; cbn [qoff qmax]; repeat cases_if; lia.
Qed.

Lemma qinv_set_len q n : qinv q -> n <= qmax q -> qinv (set_len q n).
Proof. unfold qinv, set_len; cbn; intuition. Qed.

(* qpush *)
Lemma qpush_spec q d : qinv q ->
  if (length d <=? qmax q - qlen q) && negb (qmax q - qlen q =? 0)
  then exists q', qpush q d = Ok q' /\ qinv q' /\ qmax q' = qmax q /\
         contents q' = contents q ++ d
  else exists e, qpush q d = Err e.
Proof.
  intros Hq. pose proof Hq as (Hb & Hl & Ho). unfold qpush.
  pose proof (qpost_spec q (length d) Hq) as Hp.
  destruct ((length d <=? qmax q - qlen q) && negb (qmax q - qlen q =? 0)) eqn:E.
  - rewrite Hp. cbn [bind]. apply andb_prop in E. destruct E as [E1 _]. apply Nat.leb_le in E1.
    set (q1 := set_len q (qlen q + length d)).
    assert (Hq1 : qinv q1) by (apply qinv_set_len; [assumption|lia]).
    destruct (Nat.eq_dec (length d) 0) as [Hz|Hz].
    + unfold qset. rewrite Hz. cbn [Nat.eqb]. exists q1. split; [reflexivity|].
      split; [assumption|]. split; [reflexivity|].
      apply length_zero_iff_nil in Hz. subst d. rewrite app_nil_r.
      unfold q1. cbn [length]. rewrite Nat.add_0_r. destruct q; reflexivity.
    + pose proof (qset_spec q1 (qlen q1 - length d) d Hq1 ltac:(lia)) as Hs.
      replace (qlen q1 - length d + length d) with (qlen q1) in Hs by (unfold q1; cbn; lia).
      rewrite Nat.leb_refl in Hs. destruct Hs as (b & -> & Hq' & Hc).
      eexists; split; [reflexivity|]. split; [assumption|]. split; [reflexivity|].
      rewrite Hc. apply (nth_ext' _ _ 0%N).
      * rewrite upd_length by (rewrite contents_length by assumption; unfold q1; cbn; lia).
        rewrite app_length, !contents_length by assumption. reflexivity.
      * intros i Hi.
        rewrite upd_length in Hi by (rewrite contents_length by assumption; unfold q1; cbn; lia).
        rewrite contents_length in Hi by assumption.
        rewrite nth_upd by (rewrite contents_length by assumption; unfold q1; cbn; lia).
        rewrite nth_app, contents_length by assumption.
        unfold q1 in *; cbn [set_len qlen] in *.
        replace (qlen q + length d - length d) with (qlen q) by lia.
        repeat cases_if; try lia; try reflexivity.
        rewrite !contents_nth by (assumption || cbn; lia). reflexivity.
  - destruct Hp as (e & ->). exists e. reflexivity.
Qed.

(* qunshift *)
Lemma qunshift_spec q d : qinv q ->
  if (length d <=? qmax q - qlen q) && negb (qmax q - qlen q =? 0)
  then exists q', qunshift q d = Ok q' /\ qinv q' /\ qmax q' = qmax q /\
         contents q' = d ++ contents q
  else exists e, qunshift q d = Err e.
Proof.
  intros Hq. pose proof Hq as (Hb & Hl & Ho). unfold qunshift.
  pose proof (qpre_spec q (length d) Hq) as Hp.
  destruct ((length d <=? qmax q - qlen q) && negb (qmax q - qlen q =? 0)) eqn:E.
  - destruct Hp as (o & -> & Hom & Hci). cbn [bind].
    apply andb_prop in E. destruct E as [E1 _]. apply Nat.leb_le in E1.
    set (q1 := mkq (qbuf q) (qlen q + length d) (qmax q) o) in *.
    assert (Hq1 : qinv q1) by (unfold qinv, q1; cbn; lia).
    assert (Hnth : forall i, i < qlen q -> nth (length d + i) (contents q1) 0%N = nth i (contents q) 0%N).
    { intros i Hi. rewrite !contents_nth by (assumption || (unfold q1; cbn; lia)).
      rewrite Hci by assumption. reflexivity. }
    destruct (Nat.eq_dec (length d) 0) as [Hz|Hz].
    + unfold qset. rewrite Hz. cbn [Nat.eqb]. exists q1. split; [reflexivity|].
      split; [assumption|]. split; [reflexivity|].
      apply length_zero_iff_nil in Hz. subst d. cbn [app].
      apply (nth_ext' _ _ 0%N).
      * rewrite !contents_length by assumption. unfold q1; cbn. lia.
      * intros i Hi. rewrite contents_length in Hi by assumption. unfold q1 in Hi; cbn in Hi.
        rewrite <- Hnth by lia. reflexivity.
    + pose proof (qset_spec q1 0 d Hq1 ltac:(lia)) as Hs.
      destruct (Nat.leb_spec (0 + length d) (qlen q1)) as [_|Hbad]; [|unfold q1 in Hbad; cbn in Hbad; lia].
      destruct Hs as (b & -> & Hq' & Hc).
      eexists; split; [reflexivity|]. split; [assumption|]. split; [reflexivity|].
      rewrite Hc. apply (nth_ext' _ _ 0%N).
      * rewrite upd_length by (rewrite contents_length by assumption; unfold q1; cbn; lia).
        rewrite app_length, !contents_length by assumption. unfold q1; cbn. lia.
      * intros i Hi.
        rewrite upd_length in Hi by (rewrite contents_length by assumption; unfold q1; cbn; lia).
        rewrite contents_length in Hi by assumption. unfold q1 in Hi; cbn in Hi.
        rewrite nth_upd by (rewrite contents_length by assumption; unfold q1; cbn; lia).
        rewrite nth_app.
        repeat cases_if; try lia; try (f_equal; lia).
        replace i with (length d + (i - length d)) at 1 by lia.
        apply Hnth. lia.
  - destruct Hp as (e & ->). exists e. reflexivity.
Qed.

Lemma contents_shrink q k : qinv q -> k <= qlen q ->
  contents (set_len q k) = firstn k (contents q).
Proof.
  intros Hq Hk. pose proof Hq as (Hb & Hl & Ho).
  assert (Hq' : qinv (set_len q k)) by (apply qinv_set_len; [assumption|lia]).
  apply (nth_ext' _ _ 0%N).
  - rewrite firstn_length, !contents_length by assumption. cbn. lia.
  - intros i Hi. rewrite contents_length in Hi by assumption. cbn in Hi.
    rewrite nth_firstn' by assumption. rewrite !contents_nth by (assumption || cbn; lia). reflexivity.
Qed.

(* the bytes [rd] returns, read through the ring *)
Lemma rd_nth m i n l k : rd m i n = Ok l -> k < n -> nth k l 0%N = nth (i + k) m 0%N.
Proof. intros H Hk. apply rd_inv in H. destruct H as [_ ->]. apply nth_slice. assumption. Qed.

(* qpop *)
Lemma qpop_spec q n h : qinv q ->
  if (n <=? qlen q) then
    (qpop q n h = Ok (set_len q (qlen q - n), lastn n (contents q))) \/
    (h = false /\ exists e, qpop q n h = Err e)
  else exists e, qpop q n h = Err e.
Proof.
  intros Hq. pose proof Hq as (Hb & Hl & Ho). unfold qpop, qdata.
  destruct (Nat.leb_spec n (qlen q)) as [Hn|Hn].
  - destruct (Nat.ltb_spec (qmax q - qoff q) (qlen q)) as [Hw|Hw].
    + (* wrapped *)
      destruct (Nat.eqb_spec (qlen q - (qmax q - qoff q)) 0); [lia|].
      destruct (Nat.ltb_spec (qlen q - (qmax q - qoff q)) n) as [Hs|Hs].
      * destruct h; cbn [negb]; [|right; split; [reflexivity|eexists; reflexivity]].
        destruct (Nat.ltb_spec (qmax q - qoff q) (n - (qlen q - (qmax q - qoff q)))); [lia|].
        left. rewrite !rd_ok by lia. cbn [bind]. do 2 f_equal.
        apply (nth_ext' _ _ 0%N).
        -- rewrite app_length, !length_slice, length_lastn by side. lia.
        -- intros i Hi. rewrite app_length, !length_slice in Hi by lia.
           rewrite nth_lastn by side. rewrite contents_length by assumption.
           rewrite contents_nth by (assumption || lia).
           rewrite nth_app, length_slice by lia. unfold cidx.
           repeat cases_if; try lia; rewrite nth_slice by lia; nth_eq.
      * left. rewrite rd_ok by lia. cbn [bind]. do 2 f_equal.
        apply (nth_ext' _ _ 0%N).
        -- rewrite length_slice, length_lastn by side. lia.
        -- intros i Hi. rewrite length_slice in Hi by lia.
           rewrite nth_lastn by side. rewrite contents_length by assumption.
           rewrite contents_nth by (assumption || lia).
           rewrite nth_slice by lia. unfold cidx. repeat cases_if; try lia; nth_eq.
    + rewrite Nat.sub_diag. cbn [Nat.eqb].
      destruct (Nat.ltb_spec (qlen q) n); [lia|].
      left. rewrite rd_ok by lia. cbn [bind]. do 2 f_equal.
      apply (nth_ext' _ _ 0%N).
      -- rewrite length_slice, length_lastn by side. lia.
      -- intros i Hi. rewrite length_slice in Hi by lia.
         rewrite nth_lastn by side. rewrite contents_length by assumption.
         rewrite contents_nth by (assumption || lia).
         rewrite nth_slice by lia. unfold cidx. repeat cases_if; try lia; nth_eq.
  - repeat cases_if; try lia; destruct h; cbn [negb]; try (eexists; reflexivity).
Qed.

Lemma contents_crop0 q n o : qinv q -> n <= qlen q -> o <= qmax q ->
  (n < qlen q -> o = cidx q n) ->
  contents (mkq (qbuf q) (qlen q - n) (qmax q) o) = skipn n (contents q).
Proof.
  intros Hq Hn Hom Hc. pose proof Hq as (Hb & Hl & Ho).
  set (q' := mkq (qbuf q) (qlen q - n) (qmax q) o).
  assert (Hq' : qinv q') by (unfold qinv, q'; cbn; lia).
  apply (nth_ext' _ _ 0%N).
  - rewrite skipn_length, !contents_length by assumption. reflexivity.
  - intros i Hi. rewrite contents_length in Hi by assumption. unfold q' in Hi; cbn in Hi.
    rewrite nth_skipn'. rewrite !contents_nth by (assumption || (unfold q'; cbn; lia)).
    unfold q'; cbn [qbuf]. f_equal. unfold cidx at 1. cbn [qoff qmax].
    rewrite Hc by lia. unfold cidx. repeat cases_if; lia.
Qed.

(* qshift *)
Lemma qshift_spec q n h : qinv q ->
  if (n <=? qlen q) then
    (exists q', qshift q n h = Ok (q', firstn n (contents q)) /\ qinv q' /\ qmax q' = qmax q /\
       contents q' = skipn n (contents q)) \/
    (h = false /\ exists e, qshift q n h = Err e)
  else exists e, qshift q n h = Err e.
Proof.
  intros Hq. pose proof Hq as (Hb & Hl & Ho). unfold qshift, qdata.
  destruct (Nat.leb_spec n (qlen q)) as [Hn|Hn].
  - destruct (qcrop0_ok q n Hq Hn) as (o & Hcrop & Hom & Hc).
    assert (Hres : forall d, d = firstn n (contents q) ->
      exists q', match qcrop q 0 n with Ok q' => Ok (q', d) | Err _ => Ok (q, d) | Fault => Fault end
                 = Ok (q', firstn n (contents q)) /\ qinv q' /\ qmax q' = qmax q /\
                 contents q' = skipn n (contents q)).
    { intros d ->. rewrite Hcrop. eexists; split; [reflexivity|].
      split; [unfold qinv; cbn; lia|]. split; [reflexivity|].
      apply contents_crop0; assumption. }
    destruct (Nat.ltb_spec (qmax q - qoff q) (qlen q)) as [Hw|Hw].
    + destruct (Nat.leb_spec n (qmax q - qoff q)) as [Hs|Hs].
      * left. rewrite rd_ok by lia. cbn [bind]. apply Hres.
        apply (nth_ext' _ _ 0%N).
        -- rewrite length_slice, firstn_length by lia. side.
        -- intros i Hi. rewrite length_slice in Hi by lia.
           rewrite nth_firstn', nth_slice by lia. rewrite contents_nth by side.
           unfold cidx. repeat cases_if; try lia; nth_eq.
      * destruct h; cbn [negb]; [|right; split; [reflexivity|eexists; reflexivity]].
        destruct (Nat.ltb_spec (qlen q) n); [lia|].
        left. rewrite !rd_ok by lia. cbn [bind]. apply Hres.
        apply (nth_ext' _ _ 0%N).
        -- rewrite app_length, !length_slice, firstn_length by lia. side.
        -- intros i Hi. rewrite app_length, !length_slice in Hi by lia.
           rewrite nth_firstn' by lia. rewrite contents_nth by side.
           rewrite nth_app, length_slice by lia. unfold cidx.
           repeat cases_if; try lia; rewrite nth_slice by lia; nth_eq.
    + destruct (Nat.leb_spec n (qlen q)); [|lia].
      left. rewrite rd_ok by lia. cbn [bind]. apply Hres.
      apply (nth_ext' _ _ 0%N).
      -- rewrite length_slice, firstn_length by lia. side.
      -- intros i Hi. rewrite length_slice in Hi by lia.
         rewrite nth_firstn', nth_slice by lia. rewrite contents_nth by side.
         unfold cidx. repeat cases_if; try lia; nth_eq.
  - repeat cases_if; try lia; destruct h; cbn [negb bind]; try (eexists; reflexivity).
Qed.

(* memmove as a total function with a guarded characterisation *)
Definition mvf (m : mem) (dst src n : nat) : mem := upd m dst (slice src n m).

Lemma mv_ok m dst src n : dst + n <= length m -> src + n <= length m ->
  mv m dst src n = Ok (mvf m dst src n).
Proof.
  intros Hd Hs. unfold mv. rewrite rd_ok by assumption. cbn [bind].
  rewrite wr_ok by (rewrite length_slice; assumption). reflexivity.
Qed.

Lemma rdwr_ok m dst src n : dst + n <= length m -> src + n <= length m ->
  (do d <- rd m src n; wr m dst d) = Ok (mvf m dst src n).
Proof. apply mv_ok. Qed.

Lemma mvf_length m dst src n : dst + n <= length m -> src + n <= length m ->
  length (mvf m dst src n) = length m.
Proof. intros Hd Hs. unfold mvf. apply upd_length. rewrite length_slice; assumption. Qed.

Lemma nth_mvf m dst src n j : dst + n <= length m -> src + n <= length m ->
  nth j (mvf m dst src n) 0%N =
  if (dst <=? j) && (j <? dst + n) then nth (src + (j - dst)) m 0%N else nth j m 0%N.
Proof.
  intros Hd Hs. unfold mvf. rewrite nth_upd by (rewrite length_slice; assumption).
  rewrite length_slice by assumption.
  destruct ((dst <=? j) && (j <? dst + n)) eqn:E; [|reflexivity].
  apply andb_prop in E. destruct E as [E1 E2]. apply Nat.leb_le in E1. apply Nat.ltb_lt in E2.
  apply nth_slice. lia.
Qed.

Lemma contents_of_nth q' c' : qinv q' -> length c' = qlen q' ->
  (forall i, i < qlen q' -> nth (cidx q' i) (qbuf q') 0%N = nth i c' 0%N) ->
  contents q' = c'.
Proof.
  intros Hq' Hl H. apply (nth_ext' _ _ 0%N).
  - rewrite contents_length by assumption. symmetry. assumption.
  - intros i Hi. rewrite contents_length in Hi by assumption.
    rewrite contents_nth by assumption. apply H. assumption.
Qed.

Lemma nth_cropped q p n i : qinv q -> p + n <= qlen q -> i < qlen q - n ->
  nth i (firstn p (contents q) ++ skipn (p + n) (contents q)) 0%N =
  nth (cidx q (if i <? p then i else i + n)) (qbuf q) 0%N.
Proof.
  intros Hq Hp Hi. rewrite nth_app, firstn_length, contents_length by assumption.
  rewrite Nat.min_l by lia.
  destruct (Nat.ltb_spec i p).
  - rewrite nth_firstn' by assumption. apply contents_nth; [assumption|lia].
  - rewrite nth_skipn'. rewrite contents_nth by (assumption || lia). f_equal. f_equal. lia.
Qed.

Lemma length_cropped q p n : qinv q -> p + n <= qlen q ->
  length (firstn p (contents q) ++ skipn (p + n) (contents q)) = qlen q - n.
Proof.
  intros Hq Hp. rewrite app_length, firstn_length, skipn_length, contents_length by assumption. lia.
Qed.

Ltac len_side := rewrite ?mvf_length by len_side; lia.

(* queue_crop: remove [n] bytes at position [p] *)
Lemma qcrop_spec q p n : qinv q ->
  if p + n <=? qlen q then
    exists q', qcrop q p n = Ok q' /\ qinv q' /\ qmax q' = qmax q /\
      contents q' = firstn p (contents q) ++ skipn (p + n) (contents q)
  else exists e, qcrop q p n = Err e.
Proof.
  intros Hq. pose proof Hq as (Hb & Hl & Ho).
  destruct (Nat.leb_spec (p + n) (qlen q)) as [Hfit|Hfit].
  - destruct (Nat.eq_dec p 0) as [->|Hp].
    + destruct (qcrop0_ok q n Hq ltac:(lia)) as (o & -> & Hom & Hc).
      eexists; split; [reflexivity|]. split; [unfold qinv; cbn; lia|]. split; [reflexivity|].
      cbn [firstn app Nat.add]. apply contents_crop0; assumption || lia.
    + unfold qcrop, qdata.
      destruct (Nat.eqb_spec p 0); [lia|].
      destruct (Nat.ltb_spec (qmax q - qoff q) (qlen q)) as [Hw|Hw];
      repeat first [ progress (rewrite ?mv_ok by len_side; cbn [bind]) | cases_if; try lia ];
      (eexists; split; [reflexivity|]);
      (split; [unfold qinv, set_len, set_buf; cbn [qbuf qlen qmax qoff]; rewrite ?mvf_length by len_side; lia|]);
      (split; [reflexivity|]);
      (apply contents_of_nth;
       [ unfold qinv, set_len, set_buf; cbn [qbuf qlen qmax qoff]; rewrite ?mvf_length by len_side; lia
       | rewrite length_cropped by assumption; reflexivity
       | intros i Hi; cbn [set_len set_buf qlen] in Hi;
         rewrite nth_cropped by assumption;
         unfold cidx; cbn [set_len set_buf qbuf qlen qmax qoff];
         rewrite ?nth_mvf by len_side;
         repeat (cases_if; try lia); nth_eq ]).
  - unfold qcrop, qdata. repeat (cases_if; try lia); cbn [bind]; try (eexists; reflexivity).
Qed.

