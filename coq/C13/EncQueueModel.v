(* C13/EncQueueModel.v — mpt++/queue.cpp: class encode_queue without an encoder function
   ("raw throughput"): encode_queue::push is mpt_queue_push, whose first branch
   (mptcore/queue/queue_push.c, "direct data append") is transcribed here, and
   encode_queue::trim.  Executable, no proofs.  The encoder state is the pair
   (done, scratch): finished bytes at the front, unfinished bytes behind them. *)
From MptV Require Export Base.Mem C13.QueueModel.
Local Open Scope nat_scope.

Record equeue := mkeq { ering : queue; edone : nat; escr : nat }.

(* mpt_queue_push(qu, len, base) with base != NULL or len = 0 *)
Definition epush (e : equeue) (d : list byte) : res (equeue * nat) :=
  let q := ering e in
  if length d =? 0 then Ok (mkeq q (qlen q) 0, qlen q)
  else if negb (edone e + escr e =? qlen q) then Err BadEncoding
  else
    let room := qmax q - qlen q in
    if room =? 0 then Err MissingBuffer
    else
      let low := if length d <? room then length d else room in
      (* the result of mpt_qpush is ignored *)
      match qpush q (firstn low d) with
      | Ok q1 => Ok (mkeq q1 (edone e) (escr e + low), low)
      | Err _ => Ok (mkeq q (edone e) (escr e + low), low)
      | Fault => Fault
      end.

(* mpt_queue_push(qu, 1, NULL): drop the unfinished bytes *)
Definition erevert (e : equeue) : res equeue :=
  if escr e =? 0 then Err BadOperation
  else Ok (mkeq (set_len (ering e) (edone e)) (edone e) 0).

(* encode_queue::trim(take) *)
Definition etrim (e : equeue) (take : nat) : res equeue :=
  if qlen (ering e) <? edone e then Err BadArgument
  else if edone e <? take then Err BadArgument
  else
    (* the result of mpt_queue_crop is ignored *)
    match qcrop (ering e) 0 take with
    | Ok q1 => Ok (mkeq q1 (edone e - take) (escr e))
    | Err _ => Ok (mkeq (ering e) (edone e - take) (escr e))
    | Fault => Fault
    end.

Inductive eop :=
| EPush (d : list byte)     (* d = []: finish the message *)
| ERevert
| ETrim (n : nat).

Definition estep (e : equeue) (o : eop) : equeue * qout :=
  match o with
  | EPush d => match epush e d with
               | Ok (e', k) => (e', OCount k []) | Err er => (e, ORefused er) | Fault => (e, OFault) end
  | ERevert => match erevert e with
               | Ok e' => (e', ODone) | Err er => (e, ORefused er) | Fault => (e, OFault) end
  | ETrim n => match etrim e n with
               | Ok e' => (e', ODone) | Err er => (e, ORefused er) | Fault => (e, OFault) end
  end.

Definition einv (e : equeue) : Prop := qinv (ering e) /\ edone e + escr e = qlen (ering e).
