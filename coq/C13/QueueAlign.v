(* C13/QueueAlign.v — memrev is a rotation; queue_align, resize, prepare, string keep the bytes. *)
From MptV Require Import Base.Mem C13.QueueModel C13.QueueSpec C13.QueueProofs.
Local Open Scope nat_scope.

(* decide comparisons that the context settles, without case splits *)
Ltac simp_cmp :=
  repeat match goal with
  | |- context [?a <=? ?b] =>
    first [ rewrite (proj2 (Nat.leb_le a b)) by lia | rewrite (proj2 (Nat.leb_gt a b)) by lia ]
  | |- context [?a <? ?b] =>
    first [ rewrite (proj2 (Nat.ltb_lt a b)) by lia | rewrite (proj2 (Nat.ltb_ge a b)) by lia ]
  | |- context [?a =? ?b] =>
    first [ rewrite (proj2 (Nat.eqb_eq a b)) by lia | rewrite (proj2 (Nat.eqb_neq a b)) by lia ]
  end; cbn [andb orb negb].

Ltac split_at j b := destruct (le_lt_dec b j); try lia.

(* ---------- memrev: rotation of a region ---------- *)
(* [A(pre) B(post)] at [data] becomes [B A] *)
Definition rotf (m : mem) (data pre post : nat) : mem :=
  upd m data (slice (data + pre) post m ++ slice data pre m).

Lemma rotf_length m data pre post : data + pre + post <= length m ->
  length (rotf m data pre post) = length m.
Proof.
  intros H. unfold rotf. apply upd_length. rewrite app_length, !length_slice by lia. lia.
Qed.

Lemma nth_rotf m data pre post j : data + pre + post <= length m ->
  nth j (rotf m data pre post) 0%N =
  if (data <=? j) && (j <? data + post) then nth (j + pre) m 0%N
  else if (data + post <=? j) && (j <? data + post + pre) then nth (j - post) m 0%N
  else nth j m 0%N.
Proof.
  intros H. unfold rotf. rewrite nth_upd by (rewrite app_length, !length_slice by lia; lia).
  rewrite app_length, !length_slice by lia. rewrite nth_app, length_slice by lia.
  repeat cases_if; try lia; rewrite ?nth_slice by lia; nth_eq.
Qed.

Lemma mem_ext (m1 m2 : mem) : length m1 = length m2 ->
  (forall j, j < length m1 -> nth j m1 0%N = nth j m2 0%N) -> m1 = m2.
Proof. apply nth_ext'. Qed.

Lemma memswap_ok m a b n : a + n <= length m -> b + n <= length m ->
  memswap m a b n = Ok (upd (upd m a (slice b n m)) b (slice a n m)).
Proof.
  intros Ha Hb. unfold memswap. rewrite !rd_ok by assumption. cbn [bind].
  rewrite wr_ok by (rewrite length_slice; assumption). cbn [bind].
  fold (upd m a (slice b n m)).
  rewrite wr_ok by (rewrite upd_length, length_slice by (rewrite ?length_slice; assumption); assumption).
  reflexivity.
Qed.

Lemma memrev_loop_spec fuel : forall m data pre post,
  pre + post < fuel -> data + pre + post <= length m ->
  memrev_loop fuel m data pre post = Ok (rotf m data pre post).
Proof.
  induction fuel as [|fuel IH]; intros m data pre post Hf Hl; [lia|].
  cbn [memrev_loop].
  destruct (Nat.eqb_spec pre 0) as [->|Hpre]; cbn [orb].
  { f_equal. apply mem_ext; [rewrite rotf_length by lia; reflexivity|].
    intros j Hj. rewrite nth_rotf by lia.
    split_at j data; split_at j (data + post); simp_cmp; nth_eq. }
  destruct (Nat.eqb_spec post 0) as [->|Hpost].
  { f_equal. apply mem_ext; [rewrite rotf_length by lia; reflexivity|].
    intros j Hj. rewrite nth_rotf by lia.
    split_at j data; split_at j (data + pre); simp_cmp; nth_eq. }
  destruct ((pre <=? MEMREV_BUF) || (post <=? MEMREV_BUF)).
  { rewrite !rd_ok by lia. cbn [bind].
    rewrite wr_ok by (rewrite app_length, !length_slice by lia; lia). reflexivity. }
  destruct (Nat.ltb_spec pre post) as [Hlt|Hge].
  - rewrite memswap_ok by lia. cbn [bind].
    set (m1 := upd (upd m data (slice (data + pre) pre m)) (data + pre) (slice data pre m)).
    assert (L0 : length (upd m data (slice (data + pre) pre m)) = length m)
      by (rewrite upd_length; rewrite ?length_slice by lia; lia).
    assert (L1 : length m1 = length m).
    { unfold m1. rewrite upd_length; rewrite ?L0, ?length_slice by lia; lia. }
    rewrite IH by lia. f_equal.
    apply mem_ext; [rewrite !rotf_length by lia; assumption|].
    intros j Hj. rewrite !nth_rotf by lia.
    unfold m1.
    repeat (rewrite nth_upd by (rewrite ?L0, ?length_slice by lia; lia); rewrite length_slice by lia).
    split_at j data; split_at j (data + pre); split_at j (data + pre + pre);
      split_at j (data + post); split_at j (data + post + pre);
      simp_cmp; rewrite ?nth_slice by lia; simp_cmp; nth_eq.
  - rewrite memswap_ok by lia. cbn [bind].
    set (l := pre - post).
    set (m1 := upd (upd m (data + l) (slice (data + pre) post m)) (data + pre) (slice (data + l) post m)).
    assert (L0 : length (upd m (data + l) (slice (data + pre) post m)) = length m)
      by (rewrite upd_length; rewrite ?length_slice by lia; lia).
    assert (L1 : length m1 = length m).
    { unfold m1. rewrite upd_length; rewrite ?L0, ?length_slice by lia; lia. }
    rewrite IH by lia. f_equal.
    apply mem_ext; [rewrite !rotf_length by lia; assumption|].
    intros j Hj. rewrite !nth_rotf by lia.
    unfold m1.
    repeat (rewrite nth_upd by (rewrite ?L0, ?length_slice by lia; lia); rewrite length_slice by lia).
    unfold l in *.
    split_at j data; split_at j (data + post); split_at j (data + (pre - post));
      split_at j (data + pre); split_at j (data + pre + post);
      simp_cmp; rewrite ?nth_slice by lia; simp_cmp; nth_eq.
Qed.

Lemma memrev_spec m data pre len : pre <= len -> data + len <= length m ->
  memrev m data pre len = Ok (rotf m data pre (len - pre)).
Proof.
  intros Hp Hl. unfold memrev. destruct (Nat.ltb_spec len pre); [lia|].
  apply memrev_loop_spec; lia.
Qed.

Ltac qsimpl := cbn [set_off set_buf set_len qbuf qlen qmax qoff] in *.
Ltac len_side2 := rewrite ?mvf_length, ?rotf_length by len_side2; lia.

Lemma qdefrag_spec q : qinv q -> qfrag q = true ->
  exists q', qdefrag q = Ok q' /\ qinv q' /\ qmax q' = qmax q /\ qlen q' = qlen q /\
    qoff q' = 0 /\ contents q' = contents q.
Proof.
  intros Hq Hf. pose proof Hq as (Hb & Hl & Ho). unfold qfrag in Hf. apply Nat.ltb_lt in Hf.
  unfold qdefrag.
  destruct (Nat.eqb_spec (qmax q - qlen q) 0) as [E|E]; cbn [negb bind].
  - rewrite memrev_spec by lia. cbn [bind].
    eexists; split; [reflexivity|].
    assert (Hq' : qinv (set_off (set_buf q (rotf (qbuf q) 0 (qoff q) (qlen q - qoff q))) 0)).
    { unfold qinv; qsimpl. rewrite rotf_length by lia. lia. }
    split; [assumption|]. repeat (split; [reflexivity|]).
    apply contents_of_nth; [assumption|qsimpl; side|].
    intros i Hi. qsimpl. rewrite contents_nth by assumption.
    unfold cidx; cbn [set_off set_buf qbuf qmax qoff qlen]. rewrite nth_rotf by lia.
    split_at i (qmax q - qoff q); simp_cmp; nth_eq.
  - rewrite mv_ok by lia. cbn [bind set_off set_buf qbuf qoff qlen].
    rewrite memrev_spec by len_side2. cbn [bind].
    eexists; split; [reflexivity|].
    match goal with |- qinv ?Q /\ _ => assert (Hq' : qinv Q) end.
    { unfold qinv; qsimpl. rewrite rotf_length by len_side2. rewrite mvf_length by lia. lia. }
    split; [assumption|]. repeat (split; [reflexivity|]).
    apply contents_of_nth; [assumption|qsimpl; side|].
    intros i Hi. qsimpl. rewrite contents_nth by assumption.
    unfold cidx; cbn [set_off set_buf qbuf qmax qoff qlen].
    rewrite nth_rotf by len_side2. rewrite !nth_mvf by lia.
    split_at i (qmax q - qoff q); simp_cmp; nth_eq.
Qed.

Lemma qplace_spec q pos : qinv q -> qfrag q = false -> 0 < qlen q -> pos <= qmax q ->
  exists q', qplace q pos = Ok q' /\ qinv q' /\ qmax q' = qmax q /\ qlen q' = qlen q /\
    qoff q' = pos /\ contents q' = contents q.
Proof.
  intros Hq Hf Hlen Hpos. pose proof Hq as (Hb & Hl & Ho). unfold qfrag in Hf. apply Nat.ltb_ge in Hf.
  unfold qplace.
  destruct (Nat.leb_spec pos (qmax q - qlen q)) as [Hfit|Hfit].
  - rewrite mv_ok by lia. cbn [bind].
    eexists; split; [reflexivity|].
    match goal with |- qinv ?Q /\ _ => assert (Hq' : qinv Q) end.
    { unfold qinv; qsimpl. rewrite mvf_length by lia. lia. }
    split; [assumption|]. repeat (split; [reflexivity|]).
    apply contents_of_nth; [assumption|qsimpl; side|].
    intros i Hi. qsimpl. rewrite contents_nth by assumption.
    unfold cidx; qsimpl. rewrite nth_mvf by lia. simp_cmp. nth_eq.
  - rewrite memrev_spec by lia. cbn [bind].
    set (pv := qmax q - pos) in *.
    destruct (Nat.eqb_spec (qoff q) 0) as [E0|E0];
    destruct (Nat.eqb_spec pos (qoff q + (qlen q - pv))) as [E1|E1]; cbn [negb bind];
    repeat (rewrite mv_ok by len_side2; cbn [bind]);
    (eexists; split; [reflexivity|]);
    (match goal with |- qinv ?Q /\ _ => assert (Hq' : qinv Q) end;
     [ unfold qinv; qsimpl; rewrite ?mvf_length, ?rotf_length by len_side2; lia |]);
    (split; [assumption|]); repeat (split; [reflexivity|]);
    (apply contents_of_nth; [assumption|qsimpl; side|]);
    intros i Hi; qsimpl; rewrite contents_nth by assumption;
    unfold cidx; qsimpl;
    rewrite ?nth_mvf by len_side2; rewrite ?nth_rotf by lia;
    split_at i pv; simp_cmp; rewrite ?nth_rotf by lia; simp_cmp; nth_eq.
Qed.

Lemma contents_set_off0 q : qinv q -> qlen q = 0 -> contents (set_off q 0) = contents q.
Proof.
  intros Hq E. apply contents_of_nth.
  - destruct Hq as (? & ? & ?). unfold qinv; qsimpl; lia.
  - qsimpl. side.
  - intros i Hi. qsimpl. lia.
Qed.

(* queue_align keeps the bytes *)
Lemma qalign_spec q pos : qinv q ->
  exists q', qalign q pos = Ok q' /\ qinv q' /\ qmax q' = qmax q /\ qlen q' = qlen q /\
    (pos = 0 -> qoff q' = 0) /\ contents q' = contents q.
Proof.
  intros Hq. pose proof Hq as (Hb & Hl & Ho). unfold qalign.
  destruct (Nat.ltb_spec (qmax q) pos).
  { exists q. split; [reflexivity|]. split; [assumption|]. split; [reflexivity|]. split; [reflexivity|]. split; [intros; lia|reflexivity]. }
  destruct (Nat.eqb_spec (qlen q) 0) as [E|E].
  { eexists; split; [reflexivity|]. split; [unfold qinv; qsimpl; lia|].
    repeat (split; [reflexivity|]). apply contents_set_off0; assumption. }
  destruct (qfrag q) eqn:Hf.
  - destruct (qdefrag_spec q Hq Hf) as (q2 & -> & Hq2 & Hm2 & Hl2 & Ho2 & Hc2). cbn [bind].
    destruct (Nat.eqb_spec pos 0).
    + exists q2. split; [reflexivity|]. split; [assumption|]. split; [assumption|]. split; [assumption|]. split; [intros; assumption|assumption].
    + assert (Hf2 : qfrag q2 = false) by (unfold qfrag; rewrite Ho2; apply Nat.ltb_ge; lia).
      destruct (qplace_spec q2 pos Hq2 Hf2 ltac:(lia) ltac:(lia)) as (q3 & -> & Hq3 & Hm3 & Hl3 & Ho3 & Hc3).
      exists q3. split; [reflexivity|]. split; [assumption|].
      split; [etransitivity; eassumption|]. split; [etransitivity; eassumption|].
      split; [intros; lia|]. etransitivity; eassumption.
  - destruct (Nat.eqb_spec pos (qoff q)).
    + exists q. split; [reflexivity|]. split; [assumption|]. split; [reflexivity|]. split; [reflexivity|]. split; [intros; lia|reflexivity].
    + destruct (qplace_spec q pos Hq Hf ltac:(lia) ltac:(lia)) as (q3 & -> & Hq3 & Hm3 & Hl3 & Ho3 & Hc3).
      exists q3. split; [reflexivity|]. split; [assumption|]. split; [assumption|]. split; [assumption|]. split; [intros; lia|assumption].
Qed.

Lemma lastn_all {A} (l : list A) n : length l <= n -> lastn n l = l.
Proof. intros H. unfold lastn. replace (length l - n) with 0 by lia. reflexivity. Qed.

Lemma nth_realloc m n f j : j < n -> j < length m -> nth j (realloc m n f) 0%N = nth j m 0%N.
Proof.
  intros Hn Hm. unfold realloc. rewrite nth_app, firstn_length.
  destruct (Nat.ltb_spec j (Nat.min n (length m))); [|lia]. apply nth_firstn'. assumption.
Qed.

Lemma realloc_length m n f : length (realloc m n f) = n.
Proof. unfold realloc. rewrite app_length, firstn_length, repeat_length. lia. Qed.

(* storage is replaced, the data lies in the kept prefix *)
Lemma contents_realloc q n f : qinv q -> qoff q + qlen q <= qmax q -> qoff q + qlen q <= n -> 0 < n ->
  qinv (mkq (realloc (qbuf q) n f) (qlen q) n (qoff q)) /\
  contents (mkq (realloc (qbuf q) n f) (qlen q) n (qoff q)) = contents q.
Proof.
  intros Hq Hc Hn Hpos. pose proof Hq as (Hb & Hl & Ho).
  assert (Hq' : qinv (mkq (realloc (qbuf q) n f) (qlen q) n (qoff q))).
  { unfold qinv; cbn [qbuf qlen qmax qoff]. rewrite realloc_length. lia. }
  split; [assumption|].
  apply contents_of_nth; [assumption|cbn [qlen]; side|].
  intros i Hi. cbn [qlen] in Hi. rewrite contents_nth by assumption.
  unfold cidx; cbn [qbuf qlen qmax qoff]. simp_cmp. apply nth_realloc; lia.
Qed.

Lemma qresize_spec q n f : qinv q ->
  exists q', qresize q n f = Ok q' /\ qinv q' /\ qmax q' = n /\
    contents q' = lastn (Nat.min n (qlen q)) (contents q).
Proof.
  intros Hq. pose proof Hq as (Hb & Hl & Ho). unfold qresize.
  destruct (Nat.eqb_spec n 0) as [->|Hn0].
  { eexists; split; [reflexivity|]. split; [unfold qinv; cbn; lia|]. split; [reflexivity|].
    cbn [Nat.min]. unfold lastn. rewrite Nat.sub_0_r, skipn_all. reflexivity. }
  destruct (Nat.ltb_spec n (qmax q)) as [Hlt|Hge].
  - (* shrink *)
    assert (H1 : exists q1, (if n <? qlen q then
                match qcrop q 0 (qlen q - n) with Ok t => Ok t | Err _ => Ok q | Fault => Fault end
              else Ok q) = Ok q1 /\ qinv q1 /\ qmax q1 = qmax q /\ qlen q1 = Nat.min n (qlen q) /\
              contents q1 = lastn (Nat.min n (qlen q)) (contents q)).
    { destruct (Nat.ltb_spec n (qlen q)) as [Hs|Hs].
      - destruct (qcrop0_ok q (qlen q - n) Hq ltac:(lia)) as (o & -> & Hom & Hc).
        eexists; split; [reflexivity|]. split; [unfold qinv; cbn; lia|]. split; [reflexivity|].
        split; [cbn; lia|]. rewrite contents_crop0 by (assumption || lia).
        unfold lastn. rewrite contents_length by assumption. f_equal. lia.
      - exists q. split; [reflexivity|]. split; [assumption|]. split; [reflexivity|].
        split; [lia|]. rewrite lastn_all by side. reflexivity. }
    destruct H1 as (q1 & -> & Hq1 & Hm1 & Hl1 & Hc1). cbn [bind].
    destruct (qalign_spec q1 0 Hq1) as (q2 & -> & Hq2 & Hm2 & Hl2 & Ho2 & Hc2). cbn [bind].
    specialize (Ho2 eq_refl).
    destruct (contents_realloc q2 n f Hq2 ltac:(lia) ltac:(lia) ltac:(lia)) as (Hq3 & Hc3).
    eexists; split; [reflexivity|]. split; [assumption|]. split; [reflexivity|].
    rewrite Hc3, Hc2. assumption.
  - destruct (Nat.ltb_spec (qmax q) n) as [Hgt|Heq].
    + (* grow *)
      assert (H1 : exists q1, (if qfrag q then qalign q 0 else Ok q) = Ok q1 /\ qinv q1 /\
                qmax q1 = qmax q /\ qlen q1 = qlen q /\ qoff q1 + qlen q1 <= qmax q1 /\
                contents q1 = contents q).
      { destruct (qfrag q) eqn:Hf.
        - destruct (qalign_spec q 0 Hq) as (q2 & -> & Hq2 & Hm2 & Hl2 & Ho2 & Hc2).
          exists q2. rewrite (Ho2 eq_refl). repeat (split; [assumption || reflexivity|]).
          split; [lia|assumption].
        - exists q. unfold qfrag in Hf. apply Nat.ltb_ge in Hf.
          repeat (split; [assumption || reflexivity|]). split; [lia|reflexivity]. }
      destruct H1 as (q1 & -> & Hq1 & Hm1 & Hl1 & Hfit & Hc1). cbn [bind].
      destruct (contents_realloc q1 n f Hq1 Hfit ltac:(lia) ltac:(lia)) as (Hq3 & Hc3).
      eexists; split; [reflexivity|]. split; [assumption|]. split; [reflexivity|].
      rewrite Hc3, Hc1. rewrite Nat.min_r by lia. rewrite lastn_all by side. reflexivity.
    + exists q. split; [reflexivity|]. split; [assumption|]. split; [lia|].
      rewrite Nat.min_r by lia. rewrite lastn_all by side. reflexivity.
Qed.

Lemma align8_ge x : 0 < x -> x <= align8 x.
Proof.
  intros H. unfold align8. pose proof (Nat.mod_upper_bound (x - 1) 8 ltac:(lia)). lia.
Qed.

Lemma qprepare_spec q n f : qinv q ->
  exists q' r, qprepare q n f = Ok (q', r) /\ qinv q' /\
    qmax q' = grow_cap (qmax q) (qlen q) n /\ contents q' = contents q.
Proof.
  intros Hq. pose proof Hq as (Hb & Hl & Ho). unfold qprepare, grow_cap.
  destruct (Nat.ltb_spec (qmax q - qlen q) n) as [Hlt|Hge].
  - destruct (qresize_spec q (align8 (n - (qmax q - qlen q) + qmax q)) f Hq) as (q1 & -> & Hq1 & Hm1 & Hc1).
    cbn [bind]. eexists; eexists; split; [reflexivity|]. split; [assumption|]. split; [assumption|].
    rewrite Hc1. pose proof (align8_ge (n - (qmax q - qlen q) + qmax q) ltac:(lia)).
    rewrite Nat.min_r by lia. apply lastn_all. side.
  - eexists; eexists; split; [reflexivity|]. auto.
Qed.

Lemma qstring_spec q : qinv q ->
  if qmax q - qlen q =? 0 then exists e, qstring q = Err e
  else exists q', qstring q = Ok (q', contents q ++ [0%N]) /\ qinv q' /\ qmax q' = qmax q /\
         contents q' = contents q.
Proof.
  intros Hq. pose proof Hq as (Hb & Hl & Ho). unfold qstring.
  destruct (Nat.eqb_spec (qmax q - qlen q) 0) as [E|E]; [eexists; reflexivity|].
  assert (H1 : exists q1, (if qmax q - qlen q <=? qoff q then qalign q 0 else Ok q) = Ok q1 /\
             qinv q1 /\ qmax q1 = qmax q /\ qlen q1 = qlen q /\ qoff q1 + qlen q1 < qmax q1 /\
             contents q1 = contents q).
  { destruct (Nat.leb_spec (qmax q - qlen q) (qoff q)).
    - destruct (qalign_spec q 0 Hq) as (q2 & -> & Hq2 & Hm2 & Hl2 & Ho2 & Hc2).
      exists q2. rewrite (Ho2 eq_refl). repeat (split; [assumption || reflexivity|]).
      split; [lia|assumption].
    - exists q. repeat (split; [assumption || reflexivity|]). split; [lia|reflexivity]. }
  destruct H1 as (q1 & -> & Hq1 & Hm1 & Hl1 & Hfit & Hc1). cbn [bind].
  pose proof Hq1 as (Hb1 & Hl1' & Ho1).
  rewrite wr_ok by (cbn [length]; lia). cbn [bind]. fold (upd (qbuf q1) (qoff q1 + qlen q1) [0%N]).
  assert (Lu : length (upd (qbuf q1) (qoff q1 + qlen q1) [0%N]) = qmax q1)
    by (rewrite upd_length by (cbn [length]; lia); assumption).
  rewrite rd_ok by lia. cbn [bind].
  assert (Hq' : qinv (set_buf q1 (upd (qbuf q1) (qoff q1 + qlen q1) [0%N]))).
  { unfold qinv; qsimpl. lia. }
  assert (Hc' : contents (set_buf q1 (upd (qbuf q1) (qoff q1 + qlen q1) [0%N])) = contents q).
  { rewrite <- Hc1. apply contents_of_nth; [assumption|qsimpl; side|].
    intros i Hi. qsimpl. rewrite contents_nth by assumption. unfold cidx; qsimpl.
    rewrite nth_upd by (cbn [length]; lia). cbn [length]. simp_cmp. reflexivity. }
  eexists; split; [|split; [exact Hq'|split; [assumption|exact Hc']]].
  do 2 f_equal. rewrite <- Hc1.
  apply (nth_ext' _ _ 0%N).
  - rewrite length_slice, app_length by lia. rewrite contents_length by assumption. cbn [length]. lia.
  - intros i Hi. rewrite length_slice in Hi by lia. rewrite nth_slice by lia.
    rewrite nth_upd by (cbn [length]; lia). cbn [length]. rewrite nth_app.
    rewrite contents_length by assumption.
    split_at i (qlen q1); simp_cmp.
    + replace i with (qlen q1) by lia. replace (qoff q1 + qlen q1 - (qoff q1 + qlen q1)) with 0 by lia.
      rewrite Nat.sub_diag. reflexivity.
    + rewrite contents_nth by (assumption || lia). unfold cidx. simp_cmp. reflexivity.
Qed.
