(* C13/QueueFind.v — queue_find searches the ring in queue order. *)
From MptV Require Import Base.Mem C13.QueueModel C13.QueueSpec C13.QueueProofs C13.QueueAlign.
Local Open Scope nat_scope.

Lemma sfind_fuel esz key : 0 < esz -> forall f1 f2 c k,
  length c <= f1 -> length c <= f2 -> sfind c esz key k f1 = sfind c esz key k f2.
Proof.
  intros He. induction f1 as [|f1 IH]; intros f2 c k H1 H2.
  - destruct f2; cbn [sfind]; [reflexivity|]. destruct (Nat.ltb_spec (length c) esz); [reflexivity|lia].
  - destruct f2; cbn [sfind].
    + destruct (Nat.ltb_spec (length c) esz); [reflexivity|lia].
    + destruct (Nat.ltb_spec (length c) esz); [reflexivity|].
      destruct (N.eqb (hd 0%N c) key); [reflexivity|].
      apply IH; rewrite skipn_length; lia.
Qed.

Lemma hd_nth0 (l : list N) : hd 0%N l = nth 0 l 0%N.
Proof. destruct l; reflexivity. Qed.

Lemma find_from_spec esz key : 0 < esz -> forall iter m addr k c fuel,
  length c <= fuel -> iter = length c / esz ->
  (forall j, j < length c -> nth j c 0%N = nth (addr + j) m 0%N) ->
  addr + length c <= length m ->
  find_from m addr esz iter key k = Ok (sfind c esz key k fuel).
Proof.
  intros He. induction iter as [|iter IH]; intros m addr k c fuel Hf Hi Hc Hl.
  - assert (length c < esz).
    { destruct (Nat.ltb_spec (length c) esz); [assumption|].
      pose proof (Nat.div_str_pos (length c) esz ltac:(lia)). lia. }
    cbn [find_from]. destruct fuel; cbn [sfind]; [reflexivity|].
    destruct (Nat.ltb_spec (length c) esz); [reflexivity|lia].
  - assert (Hge : esz <= length c).
    { destruct (Nat.leb_spec esz (length c)); [assumption|].
      rewrite Nat.div_small in Hi by lia. lia. }
    cbn [find_from]. rewrite rd_ok by lia. cbn [bind].
    destruct fuel as [|fuel]; [lia|]. cbn [sfind].
    destruct (Nat.ltb_spec (length c) esz); [lia|].
    rewrite !hd_nth0. rewrite nth_slice by lia. rewrite Hc by lia.
    destruct (N.eqb (nth (addr + 0) m 0%N) key); [reflexivity|].
    apply IH.
    + rewrite skipn_length. lia.
    + rewrite skipn_length.
      replace (length c) with ((length c - esz) + 1 * esz) in Hi by lia.
      rewrite Nat.div_add in Hi by lia. lia.
    + intros j Hj. rewrite skipn_length in Hj. rewrite nth_skipn'. rewrite Hc by lia. f_equal. lia.
    + rewrite skipn_length. lia.
Qed.

(* searching a concatenation: a hit in the first part is the hit; a miss in an
   element-aligned first part continues in the second *)
Lemma sfind_app esz key l : 0 < esz -> forall f u k,
  length u <= f ->
  match sfind u esz key k f with
  | Some r => sfind (u ++ l) esz key k (f + length l) = Some r
  | None => length u mod esz = 0 ->
            sfind (u ++ l) esz key k (f + length l) = sfind l esz key (k + length u) (length l)
  end.
Proof.
  intros He. induction f as [|f IH]; intros u k Hf.
  - assert (u = []) by (apply length_zero_iff_nil; lia). subst u. cbn [sfind app length Nat.add].
    intros _. rewrite Nat.add_0_r. reflexivity.
  - destruct (Nat.ltb_spec (length u) esz) as [Hs|Hs].
    + assert (E : sfind u esz key k (S f) = None).
      { cbn [sfind]. destruct (Nat.ltb_spec (length u) esz); [reflexivity|lia]. }
      rewrite E. intros Hm. rewrite Nat.mod_small in Hm by assumption.
      assert (u = []) by (apply length_zero_iff_nil; lia). subst u. cbn [app length].
      rewrite Nat.add_0_r. apply sfind_fuel; try assumption; lia.
    + cbn [sfind Nat.add]. destruct (Nat.ltb_spec (length u) esz); [lia|].
      rewrite app_length. destruct (Nat.ltb_spec (length u + length l) esz); [lia|].
      assert (Hhd : hd 0%N (u ++ l) = hd 0%N u) by (destruct u; [cbn in Hs; lia|reflexivity]).
      rewrite Hhd. destruct (N.eqb (hd 0%N u) key); [reflexivity|].
      assert (Hsk : skipn esz (u ++ l) = skipn esz u ++ l).
      { rewrite skipn_app. replace (esz - length u) with 0 by lia. reflexivity. }
      rewrite Hsk.
      specialize (IH (skipn esz u) (k + esz)). rewrite skipn_length in IH.
      specialize (IH ltac:(lia)).
      destruct (sfind (skipn esz u) esz key (k + esz) f) as [r|]; [assumption|].
      intros Hm. rewrite IH.
      * f_equal. lia.
      * replace (length u) with ((length u - esz) + 1 * esz) in Hm by lia.
        rewrite Nat.mod_add in Hm by lia. assumption.
Qed.

Lemma qfind_spec q esz key : qinv q -> 0 < esz ->
  match qfind q esz key with
  | Ok r => esz <= qlen q /\ r = sfind (contents q) esz key 0 (qlen q)
  | Err _ => True
  | Fault => False
  end.
Proof.
  intros Hq He. pose proof Hq as (Hb & Hl & Ho). unfold qfind.
  destruct (Nat.eqb_spec esz 0); [lia|].
  destruct (Nat.ltb_spec (qlen q) esz); [exact I|].
  destruct (qfrag q) eqn:Hf; cbn [negb]; unfold qfrag in Hf.
  - apply Nat.ltb_lt in Hf.
    set (up := qmax q - qoff q).
    assert (Hcont : contents q = skipn (qoff q) (qbuf q) ++ firstn (qlen q - up) (qbuf q)).
    { unfold contents. destruct (Nat.leb_spec (qoff q + qlen q) (qmax q)); [lia|].
      do 2 f_equal. unfold up. lia. }
    assert (Lu : length (skipn (qoff q) (qbuf q)) = up) by (rewrite skipn_length; unfold up; lia).
    assert (Ll : length (firstn (qlen q - up) (qbuf q)) = qlen q - up) by (rewrite firstn_length; unfold up; lia).
    rewrite (find_from_spec esz key He (up / esz) (qbuf q) (qoff q) 0 (skipn (qoff q) (qbuf q)) up);
      [| lia | rewrite Lu; reflexivity | intros j Hj; apply nth_skipn' | rewrite Lu; unfold up; lia].
    cbn [bind].
    pose proof (sfind_app esz key (firstn (qlen q - up) (qbuf q)) He up (skipn (qoff q) (qbuf q)) 0 ltac:(lia)) as Happ.
    rewrite Ll in Happ. replace (up + (qlen q - up)) with (qlen q) in Happ by (unfold up; lia).
    destruct (sfind (skipn (qoff q) (qbuf q)) esz key 0 up) as [r|].
    + split; [assumption|]. rewrite Hcont. symmetry. assumption.
    + destruct (Nat.eqb_spec (up mod esz) 0) as [Hm|Hm]; cbn [negb]; [|exact I].
      rewrite Lu in Happ. specialize (Happ Hm).
      rewrite (find_from_spec esz key He ((qlen q - up) / esz) (qbuf q) 0 up (firstn (qlen q - up) (qbuf q)) (qlen q - up));
        [| lia | rewrite Ll; reflexivity | intros j Hj; rewrite Ll in Hj; apply nth_firstn'; assumption | rewrite Ll; unfold up; lia].
      split; [assumption|]. rewrite Hcont. symmetry. exact Happ.
  - apply Nat.ltb_ge in Hf.
    rewrite (find_from_spec esz key He (qlen q / esz) (qbuf q) (qoff q) 0 (contents q) (qlen q)).
    + split; [assumption|reflexivity].
    + side.
    + rewrite contents_length by assumption. reflexivity.
    + intros j Hj. rewrite contents_length in Hj by assumption.
      rewrite contents_nth by assumption. unfold cidx. simp_cmp. reflexivity.
    + rewrite contents_length by assumption. lia.
Qed.
