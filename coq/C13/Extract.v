(* Extraction of the executable model and specification of C13 (ExtrOcamlBasic only). *)
From MptV Require Import Base.Mem C13.QueueModel C13.QueueSpec C13.EncQueueModel C13.EncQueueSpec
  C13.DecQueueModel C13.DecQueueSpec.
Require Import ExtrOcamlBasic.
Extraction "c13_model.ml" qrun srun abs mkq qinvb erun esrun eabs mkeq drun dsrun dabs mkdq.
