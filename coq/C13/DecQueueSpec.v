(* C13/DecQueueSpec.v — what a decode_queue without decoder function is at the level of the
   byte deque: the content [dsc] (a plain byte list with capacity [dscap]) plus the five
   counters of the decoder state.  Nothing here knows about offsets, segments or storage:
   a window (pos, n) of the content is [slice pos n c], removing bytes at the front is
   [skipn]. *)
From MptV Require Import Base.Mem C13.QueueModel C13.QueueSpec C13.DecQueueModel.
Local Open Scope nat_scope.

Record dsq := mkdsq {
  dsc : list byte; dscap : nat;
  scurr : nat; spos : nat; slen : nat; smsg : option nat; sctx : bool }.

(* mpt_queue_shift: [curr] consumed bytes in front may go, but not beyond the start [pos]
   of the data window while there is one (or a block is open) *)
Definition ds_shift (s : dsq) : dsq :=
  if scurr s =? 0 then s
  else
    let keep := negb (spos s =? 0) || negb (slen s =? 0) || sctx s in
    let k := if keep && (spos s <? scurr s) then spos s else scurr s in
    let pos := if keep then spos s - k else spos s in
    if (k =? 0) || (length (dsc s) <? k) then s
    else mkdsq (skipn k (dsc s)) (dscap s) (scurr s - k) pos (slen s) (smsg s) (sctx s).

(* mpt_queue_recv without decoder: the window moves behind what was handed out before (the
   delivered message, else the previous window) and covers everything behind it; what was
   the window becomes the message if a message had been delivered.  Refused when nothing is
   stored (a delivered message is withdrawn) or when the old window ends beyond the content. *)
Definition ds_recv (s : dsq) (e : err) : dsq * qout :=
  let len := length (dsc s) in
  if len =? 0 then
    (mkdsq (dsc s) (dscap s) (scurr s) (spos s) (slen s) None (sctx s), ORefused e)
  else
    let done := spos s + match smsg s with Some m => m | None => slen s end in
    if len <? done then (s, ORefused e)
    else
      let s1 := mkdsq (dsc s) (dscap s) (scurr s) done (len - done)
                      (match smsg s with Some _ => Some (slen s) | None => None end) (sctx s) in
      (ds_shift s1, OCount (match smsg s with Some _ => 1 | None => 0 end) []).

Definition dsstep (s : dsq) (o : dop) (acc : bool) (e : err) (k : nat) : dsq * qout :=
  let c := dsc s in
  match o with
  | DSet cu p l m x => (mkdsq c (dscap s) cu p l m x, ODone)
  | DRecv => ds_recv s e
  | DPeek max h =>
    (* preview of what lies behind the delivered message / from the window start *)
    let off := spos s + match smsg s with Some m => m | None => 0 end in
    if (length c =? 0) || (length c <? off) then (s, ORefused e)
    else if h then (s, OBytes (firstn max (skipn off c)))
    else (s, OCount (length c - off) [])
  | DShift => (ds_shift s, ODone)
  | DAdvance =>
    match ds_recv s e with
    | (s1, OCount _ _) => (ds_shift s1, ODone)
    | r => r
    end
  | DCurrent h =>
    (* the delivered message is the window (pos, msg) of the content; without a place for the
       second part the implementation may refuse a message that is not in one piece *)
    match smsg s with
    | Some m => if (spos s + m <=? length c) && (h || acc) then (s, OBytes (slice (spos s) m c))
                else (s, ORefused e)
    | None => (s, ORefused e)
    end
  | DQ o =>
    let '(s', out) := sstep (mksq c (dscap s)) o acc e k in
    (mkdsq (sc s') (scap s') (scurr s) (spos s) (slen s) (smsg s) (sctx s), out)
  end.

Definition dabs (d : dqueue) : dsq :=
  mkdsq (contents (dring d)) (qmax (dring d)) (dcurr d) (dpos d) (dlen d) (dmsg d) (dctx d).

(* observation after each operation: output, bytes, capacity, the counters *)
Definition dobs := (qout * list byte * nat * (nat * nat * nat * option nat))%type.

Fixpoint drun (d : dqueue) (ops : list dop) : list dobs :=
  match ops with
  | [] => []
  | o :: ops =>
    let '(d', out) := dstep d o in
    (out, contents (dring d'), qmax (dring d'), (dcurr d', dpos d', dlen d', dmsg d')) :: drun d' ops
  end.

Fixpoint dsrun (d : dqueue) (s : dsq) (ops : list dop) : list dobs :=
  match ops with
  | [] => []
  | o :: ops =>
    let '(d', out) := dstep d o in
    let '(s', sout) := dsstep s o (accepted out) (err_of out) (len_of out) in
    (sout, dsc s', dscap s', (scurr s', spos s', slen s', smsg s')) :: dsrun d' s' ops
  end.
