(* C13/IoQueueProofs.v — the mpt++ io::queue entry points (mpt++/io_queue.cpp) are
   compositions of the C operations; their effect on the byte deque follows from the
   lemmas about those (QueueProofs.v, QueueAlign.v). *)
From MptV Require Import Base.Mem C13.QueueModel C13.QueueSpec C13.QueueProofs C13.QueueAlign.
Local Open Scope nat_scope.

Lemma qprepare_room q n f q' r : qprepare q n f = Ok (q', r) -> r = qmax q' - qlen q'.
Proof.
  unfold qprepare. destruct (qmax q - qlen q <? n).
  - destruct (qresize q (align8 (n - (qmax q - qlen q) + qmax q)) f) as [q1|e|]; cbn [bind];
      intros H; inversion H; reflexivity.
  - intros H; inversion H; reflexivity.
Qed.

Lemma grow_cap_room cap used n : used <= cap -> n <= grow_cap cap used n - used.
Proof.
  intros H. unfold grow_cap. destruct (Nat.ltb_spec (cap - used) n); [|lia].
  pose proof (align8_ge (n - (cap - used) + cap) ltac:(lia)). lia.
Qed.

Lemma grow_cap_ge cap used n : used <= cap -> cap <= grow_cap cap used n.
Proof.
  intros H. unfold grow_cap. destruct (Nat.ltb_spec (cap - used) n); [|lia].
  pose proof (align8_ge (n - (cap - used) + cap) ltac:(lia)). lia.
Qed.

Lemma grow_cap_id cap used n : n <= cap - used -> grow_cap cap used n = cap.
Proof. intros H. unfold grow_cap. destruct (Nat.ltb_spec (cap - used) n); [lia|reflexivity]. Qed.

Lemma same_contents_len q q' : qinv q -> qinv q' -> contents q' = contents q -> qlen q' = qlen q.
Proof.
  intros Hq Hq' Hc. rewrite <- (contents_length q Hq), <- (contents_length q' Hq'), Hc. reflexivity.
Qed.

(* prepare as a whole: capacity grows as the deque says, bytes stay *)
Lemma qprepare_full q n f : qinv q ->
  exists q' r, qprepare q n f = Ok (q', r) /\ qinv q' /\
    qmax q' = grow_cap (qmax q) (qlen q) n /\ contents q' = contents q /\ qlen q' = qlen q /\
    r = qmax q' - qlen q'.
Proof.
  intros Hq. destruct (qprepare_spec q n f Hq) as (q' & r & E & Hq' & Hm & Hc).
  exists q', r. split; [assumption|]. split; [assumption|]. split; [assumption|]. split; [assumption|].
  split; [apply same_contents_len; assumption|]. eapply qprepare_room; eassumption.
Qed.

Lemma ioprepare_spec q n f : qinv q ->
  exists q', ioprepare q n f = Ok q' /\ qinv q' /\
    qmax q' = grow_cap (qmax q) (qlen q) n /\ contents q' = contents q.
Proof.
  intros Hq. pose proof Hq as (Hb & Hl & Ho). unfold ioprepare.
  destruct (Nat.eqb_spec n 0) as [->|Hn].
  - exists q. split; [reflexivity|]. split; [assumption|]. split; [|reflexivity].
    rewrite grow_cap_id by lia. reflexivity.
  - destruct (qprepare_full q n f Hq) as (q' & r & -> & Hq' & Hm & Hc & Hl' & Hr). cbn [bind].
    pose proof (grow_cap_room (qmax q) (qlen q) n Hl).
    destruct (Nat.eqb_spec r 0) as [E|E]; [lia|].
    exists q'. repeat (split; [assumption || reflexivity|]). assumption.
Qed.

Lemma iopush_spec q d f : qinv q ->
  let cap := grow_cap (qmax q) (qlen q) (length d) in
  if (length d <=? cap - qlen q) && negb (cap - qlen q =? 0)
  then exists q', iopush q d f = Ok q' /\ qinv q' /\ qmax q' = cap /\ contents q' = contents q ++ d
  else exists e, iopush q d f = Err e.
Proof.
  intros Hq cap. unfold iopush.
  destruct (qprepare_full q (length d) f Hq) as (q1 & r & -> & Hq1 & Hm & Hc & Hl1 & _).
  pose proof (qpush_spec q1 d Hq1) as H. rewrite Hm, Hl1 in H. fold cap in H.
  destruct ((length d <=? cap - qlen q) && negb (cap - qlen q =? 0)).
  - destruct H as (q' & E & Hq' & Hm' & Hc'). exists q'. split; [assumption|]. split; [assumption|].
    split; [assumption|]. rewrite Hc', Hc. reflexivity.
  - assumption.
Qed.

Lemma iounshift_spec q d f : qinv q ->
  let cap := grow_cap (qmax q) (qlen q) (length d) in
  if (length d <=? cap - qlen q) && negb (cap - qlen q =? 0)
  then exists q', iounshift q d f = Ok q' /\ qinv q' /\ qmax q' = cap /\ contents q' = d ++ contents q
  else exists e, iounshift q d f = Err e.
Proof.
  intros Hq cap. unfold iounshift.
  destruct (qprepare_full q (length d) f Hq) as (q1 & r & -> & Hq1 & Hm & Hc & Hl1 & _).
  pose proof (qunshift_spec q1 d Hq1) as H. rewrite Hm, Hl1 in H. fold cap in H.
  destruct ((length d <=? cap - qlen q) && negb (cap - qlen q =? 0)).
  - destruct H as (q' & E & Hq' & Hm' & Hc'). exists q'. split; [assumption|]. split; [assumption|].
    split; [assumption|]. rewrite Hc', Hc. reflexivity.
  - assumption.
Qed.

(* a refused push/unshift through io::queue happened on a full queue with nothing to add:
   the capacity was not enlarged either *)
Lemma grow_cap_refused cap used n : used <= cap ->
  (n <=? grow_cap cap used n - used) && negb (grow_cap cap used n - used =? 0) = false ->
  grow_cap cap used n = cap.
Proof.
  intros Hu H. pose proof (grow_cap_room cap used n Hu) as Hr.
  destruct (Nat.leb_spec n (grow_cap cap used n - used)); [|lia]. cbn [andb] in H.
  destruct (Nat.eqb_spec (grow_cap cap used n - used) 0) as [E|E]; [|discriminate].
  unfold grow_cap in *. destruct (Nat.ltb_spec (cap - used) n); [|reflexivity]. lia.
Qed.

Lemma iopop0_spec q n : qinv q ->
  if n <=? qlen q
  then exists q', iopop0 q n = Ok q' /\ qinv q' /\ qmax q' = qmax q /\
         contents q' = firstn (qlen q - n) (contents q)
  else exists e, iopop0 q n = Err e.
Proof.
  intros Hq. unfold iopop0.
  destruct (Nat.leb_spec n (qlen q)) as [Hn|Hn].
  - destruct (Nat.ltb_spec (qlen q) n) as [Hx|Hx]; [lia|].
    pose proof (qcrop_spec q (qlen q - n) n Hq) as H.
    replace (qlen q - n + n) with (qlen q) in H by lia. rewrite Nat.leb_refl in H.
    destruct H as (q' & E & Hq' & Hm & Hc). exists q'. repeat (split; [assumption|]).
    rewrite Hc. rewrite skipn_all2 by (rewrite contents_length by assumption; lia).
    apply app_nil_r.
  - destruct (Nat.ltb_spec (qlen q) n); [|lia]. eexists; reflexivity.
Qed.

(* io::queue::write: the loop pushes exactly the elements the deque accepts *)
Lemma iowrite_loop_spec elems : forall q done, qinv q ->
  exists q' k, iowrite_loop q elems done = Ok (q', k) /\ qinv q' /\ qmax q' = qmax q /\
    swrite (contents q) (qmax q) elems done = (contents q', k).
Proof.
  induction elems as [|e r IH]; intros q done Hq; cbn [iowrite_loop swrite].
  - exists q, done. repeat (split; [assumption || reflexivity|]). reflexivity.
  - pose proof (qpush_spec q e Hq) as H. rewrite (contents_length q Hq).
    destruct ((length e <=? qmax q - qlen q) && negb (qmax q - qlen q =? 0)).
    + destruct H as (q1 & -> & Hq1 & Hm1 & Hc1).
      destruct (IH q1 (S done) Hq1) as (q' & k & E & Hq' & Hm' & Hs).
      exists q', k. split; [assumption|]. split; [assumption|]. split; [lia|].
      rewrite <- Hc1, <- Hm1. assumption.
    + destruct H as (er & ->). exists q, done. repeat (split; [assumption || reflexivity|]). reflexivity.
Qed.

(* io::queue::read: elements come off the end while enough bytes are stored *)
Lemma ioread_loop_spec part cnt : forall q done acc, qinv q ->
  exists q' k d, ioread_loop q cnt part done acc = Ok (q', (k, d)) /\ qinv q' /\ qmax q' = qmax q /\
    sread (contents q) cnt part done acc = (contents q', (k, d)).
Proof.
  induction cnt as [|c IH]; intros q done acc Hq; cbn [ioread_loop sread].
  - exists q, done, acc. repeat (split; [assumption || reflexivity|]). reflexivity.
  - pose proof (qpop_spec q part true Hq) as H. rewrite (contents_length q Hq).
    pose proof Hq as (Hb & Hl & Ho).
    destruct (Nat.leb_spec part (qlen q)) as [Hp|Hp].
    + destruct H as [->|(Hf & _)]; [|discriminate].
      assert (Hq1 : qinv (set_len q (qlen q - part))) by (apply qinv_set_len; [assumption|lia]).
      destruct (IH (set_len q (qlen q - part)) (S done) (acc ++ lastn part (contents q)) Hq1)
        as (q' & k & d & E & Hq' & Hm' & Hs).
      exists q', k, d. split; [assumption|]. split; [assumption|]. split; [assumption|].
      rewrite <- (contents_shrink q (qlen q - part) Hq ltac:(lia)). assumption.
    + destruct H as (er & ->). exists q, done, acc.
      repeat (split; [assumption || reflexivity|]). reflexivity.
Qed.

(* the first [k] bytes of the content lie in one piece at the start offset *)
Lemma slice_prefix q k : qinv q -> k <= qlen q -> qoff q + k <= qmax q ->
  slice (qoff q) k (qbuf q) = firstn k (contents q).
Proof.
  intros Hq Hk Hfit. pose proof Hq as (Hb & Hl & Ho).
  apply (nth_ext' _ _ 0%N).
  - rewrite length_slice by lia. rewrite firstn_length, contents_length by assumption. lia.
  - intros i Hi. rewrite length_slice in Hi by lia.
    rewrite nth_slice, nth_firstn' by assumption. rewrite contents_nth by (assumption || lia).
    unfold cidx. destruct (Nat.ltb_spec (qoff q + i) (qmax q)); [reflexivity|lia].
Qed.

(* io::queue::peek: a prefix of the content, at least as long as asked or everything *)
Lemma iopeek_spec q n : qinv q ->
  exists q' d, iopeek q n = Ok (q', d) /\ qinv q' /\ qmax q' = qmax q /\ contents q' = contents q /\
    d = firstn (length d) (contents q) /\ length d <= qlen q /\
    ((if n =? 0 then qlen q else n) <= length d \/ length d = qlen q).
Proof.
  intros Hq. pose proof Hq as (Hb & Hl & Ho). unfold iopeek, qdata, qfrag.
  set (want := if n =? 0 then qlen q else n).
  destruct (Nat.ltb_spec (qmax q - qoff q) (qlen q)) as [Hw|Hw].
  - (* content wraps *)
    destruct (Nat.leb_spec want (qmax q - qoff q)) as [Hs|Hs].
    + rewrite rd_ok by lia. cbn [bind]. eexists; eexists; split; [reflexivity|].
      split; [assumption|]. split; [reflexivity|]. split; [reflexivity|].
      rewrite length_slice by lia. split; [apply slice_prefix; assumption || lia|]. split; [lia|].
      left. assumption.
    + destruct (Nat.ltb_spec (qmax q - qlen q) (qoff q)); [|lia]. cbn [negb].
      destruct (qalign_spec q 0 Hq) as (q1 & -> & Hq1 & Hm1 & Hl1 & Ho1 & Hc1). cbn [bind].
      specialize (Ho1 eq_refl). pose proof Hq1 as (Hb1 & Hl1' & _).
      rewrite rd_ok by lia. cbn [bind]. eexists; eexists; split; [reflexivity|].
      split; [assumption|]. split; [assumption|]. split; [assumption|].
      rewrite length_slice by lia.
      split; [|split; [lia|right; assumption]].
      rewrite <- Hc1. replace (slice 0 (qlen q1) (qbuf q1)) with (slice (qoff q1) (qlen q1) (qbuf q1))
        by (rewrite Ho1; reflexivity).
      apply slice_prefix; [assumption|lia|lia].
  - (* content in one piece *)
    assert (E : slice (qoff q) (qlen q) (qbuf q) = firstn (qlen q) (contents q))
      by (apply slice_prefix; assumption || lia).
    destruct (Nat.leb_spec want (qlen q)) as [Hs|Hs].
    + rewrite rd_ok by lia. cbn [bind]. eexists; eexists; split; [reflexivity|].
      split; [assumption|]. split; [reflexivity|]. split; [reflexivity|].
      rewrite length_slice by lia. split; [assumption|]. split; [lia|right; reflexivity].
    + destruct (Nat.ltb_spec (qmax q - qlen q) (qoff q)); [lia|]. cbn [negb].
      rewrite rd_ok by lia. cbn [bind]. eexists; eexists; split; [reflexivity|].
      split; [assumption|]. split; [reflexivity|]. split; [reflexivity|].
      rewrite length_slice by lia. split; [assumption|]. split; [lia|right; reflexivity].
Qed.

(* destructor + constructor: an empty deque with the capacity the constructor reserves *)
Lemma ionew_spec q n f : qinv q ->
  exists q', ionew q n f = Ok q' /\ qinv q' /\ qmax q' = grow_cap 0 0 n /\ contents q' = [].
Proof.
  intros Hq. unfold ionew.
  destruct (qresize_spec q 0 f Hq) as (q0 & -> & Hq0 & Hm0 & _). cbn [bind].
  pose proof Hq0 as (Hb0 & Hl0 & Ho0).
  assert (Hlen0 : qlen q0 = 0) by lia.
  assert (Hc0 : contents q0 = []).
  { apply length_zero_iff_nil. rewrite contents_length by assumption. assumption. }
  destruct (Nat.eqb_spec n 0) as [->|Hn].
  - exists q0. split; [reflexivity|]. split; [assumption|]. split; [|assumption].
    rewrite grow_cap_id by lia. assumption.
  - destruct (qprepare_full q0 n f Hq0) as (q1 & r & -> & Hq1 & Hm1 & Hc1 & _).
    exists q1. split; [reflexivity|]. split; [assumption|]. split; [|rewrite Hc1; assumption].
    rewrite Hm1, Hm0, Hlen0. reflexivity.
Qed.

(* with room for everything (which io::queue::write reserves first) the deque takes all elements *)
Lemma swrite_all part : 0 < part -> forall elems c cap done,
  Forall (fun e => length e = part) elems -> length c + part * length elems <= cap ->
  swrite c cap elems done = (c ++ concat elems, done + length elems).
Proof.
  intros Hp. induction elems as [|e r IH]; intros c cap done Hall Hfit; cbn [swrite concat length].
  - rewrite app_nil_r, Nat.add_0_r. reflexivity.
  - inversion Hall as [|? ? He Hr]; subst. cbn [length] in Hfit.
    destruct (Nat.leb_spec (length e) (cap - length c)); [|nia].
    destruct (Nat.eqb_spec (cap - length c) 0); [nia|]. cbn [andb negb].
    rewrite IH by (try assumption; rewrite app_length; nia).
    rewrite <- app_assoc. f_equal. lia.
Qed.
