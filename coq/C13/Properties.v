(* C13 — Ring-buffer queue is a faithful byte deque.
   This file holds only the property theorems (each closed by [exact] of a lemma
   proved elsewhere), their non-vacuity examples and Print Assumptions.

   Reading guide.  [queue] is the mechanism state of mptcore/queue (storage bytes,
   len, max, off); [qstep] transcribes the C functions; [sq]/[sstep] is a plain
   double-ended byte list with a capacity (C13/QueueSpec.v, 60 lines); [abs]
   forgets offsets and wrap-around.  [qinv] is: the storage has [max] bytes,
   len <= max, off <= max.  It holds for every state the library can produce from
   an initialised queue and is preserved by every operation (part of the theorem).

   [qop] holds the C operations (mptcore/queue/*.c) AND the methods of the mpt++ class
   io::queue (mpt++/io_queue.cpp: prepare, push, unshift, pop, shift, write, read, peek,
   destructor + constructor), which are compositions of the C operations; histories mix
   both freely.  The last argument of [sstep] is the number of bytes the implementation
   returned; only the io::queue::peek case of the specification looks at it (a peek may
   show more than asked, depending on where the content wraps: the specification demands
   a long enough prefix of the content).
   [equeue]/[estep] (C13/EncQueueModel.v) is the mpt++ class encode_queue without an
   encoder function (mpt++/queue.cpp: push = raw append of what fits, trim); its
   specification [esq]/[esstep] (C13/EncQueueSpec.v, 30 lines) is a deque split into a
   finished and an unfinished part.
   [dqueue]/[dstep] (C13/DecQueueModel.v) is a decode_queue without a decoder function: the
   raw branches of mpt_queue_recv / mpt_queue_peek, mpt_queue_shift, decode_queue::advance
   and current_message (over mpt_message_get / mpt_message_read), mixed with the C queue
   operations on the embedded ring ([DQ]); its specification [dsq]/[dsstep]
   (C13/DecQueueSpec.v) is the byte deque plus the five counters of the decoder state, reads
   are [slice]s of the content, consuming is [skipn]. *)
From MptV Require Import Base.Mem C13.QueueModel C13.QueueSpec C13.QueueProofs
  C13.QueueAlign C13.QueueFind C13.IoQueueProofs C13.QueueRefine
  C13.EncQueueModel C13.EncQueueSpec C13.EncQueueRefine
  C13.DecQueueModel C13.DecQueueSpec C13.DecQueueRefine.

(* One operation, any capacity, any start offset, any fill, wrapped or not:
   the model does not fault (no access outside the storage), keeps the invariant,
   and output + resulting bytes + capacity are exactly the deque's. *)
Theorem C13_step_refines_deque :
  forall q o, qinv q ->
    let '(q', out) := qstep q o in
    out <> OFault /\ qinv q' /\
    sstep (abs q) o (accepted out) (err_of out) (len_of out) = (abs q', out).
Proof. exact qstep_refines. Qed.

(* Any history of operations: the sequence of outputs, held bytes and capacities
   equals the deque's, and no step faults. *)
Theorem C13_history_refines_deque :
  forall ops q, qinv q ->
    qrun q ops = srun q (abs q) ops /\
    Forall (fun r => fst (fst r) <> OFault) (qrun q ops).
Proof. exact qrun_refines. Qed.

(* A refused operation changes neither the bytes nor the capacity. *)
Theorem C13_refused_leaves_content :
  forall q o, qinv q -> accepted (snd (qstep q o)) = false ->
    contents (fst (qstep q o)) = contents q /\ qmax (fst (qstep q o)) = qmax q.
Proof. exact refused_unchanged. Qed.

(* The block-swap loop of mpt_memrev (used by queue_align for regions larger than
   its 1024-byte buffer) is a rotation, for every region size. *)
Theorem C13_memrev_rotates :
  forall m data pre len, pre <= len -> data + len <= length m ->
    memrev m data pre len = Ok (rotf m data pre (len - pre)).
Proof. exact memrev_spec. Qed.

(* io::queue::write (as patched by docs/C13_io_write.diff) stores every element it is given,
   in order, behind the old content, and reports all of them, whatever the capacity was. *)
Theorem C13_io_write_complete :
  forall q part elems f, qinv q -> 0 < part ->
    Forall (fun e => length e = part) elems ->
    exists q', qstep q (OpIoWrite part elems f) = (q', OCount (length elems) []) /\
      contents q' = contents q ++ concat elems.
Proof. exact iowrite_complete. Qed.

(* Raw encode_queue (mpt++/queue.cpp): one operation, any ring state whose counters
   cover the content (done + scratch = len): no fault, the invariant is kept, and output,
   bytes, capacity, finished/unfinished split are those of the two-part deque. *)
Theorem C13_enc_step_refines :
  forall e o, einv e ->
    let '(e', out) := estep e o in
    out <> OFault /\ einv e' /\ esstep (eabs e) o (err_of out) = (eabs e', out).
Proof. exact estep_refines. Qed.

Theorem C13_enc_history_refines :
  forall ops e, einv e ->
    erun e ops = esrun e (eabs e) ops /\
    Forall (fun r => fst (fst (fst (fst r))) <> OFault) (erun e ops).
Proof. exact erun_refines. Qed.

(* Finished bytes stay what they are, at the front, until they are trimmed. *)
Theorem C13_enc_finished_stable :
  forall e o, einv e -> (forall n, o <> ETrim n) ->
    exists rest, sfin (eabs (fst (estep e o))) = sfin (eabs e) ++ rest.
Proof. exact finished_stable. Qed.

(* Raw decode_queue: one operation (recv, peek, shift, advance, current_message, any C queue
   operation on the embedded ring, or installing any decoder state), any ring state, any
   counters: no fault (no read outside the storage), the ring invariant is kept, and output,
   bytes, capacity and counters are those of the deque-with-counters specification. *)
Theorem C13_dec_step_refines :
  forall d o, dinv d ->
    let '(d', out) := dstep d o in
    out <> OFault /\ dinv d' /\
    dsstep (dabs d) o (accepted out) (err_of out) (len_of out) = (dabs d', out).
Proof. exact dstep_refines. Qed.

Theorem C13_dec_history_refines :
  forall ops d, dinv d ->
    drun d ops = dsrun d (dabs d) ops /\
    Forall (fun r => fst (fst (fst r)) <> OFault) (drun d ops).
Proof. exact drun_refines. Qed.

(* What mpt_queue_peek copies out is the content from the announced offset on (behind the
   delivered message, else from the window start), at most [max] bytes, nothing else. *)
Theorem C13_dec_peek_exact :
  forall d max b d', dinv d -> dstep d (DPeek max true) = (d', OBytes b) ->
    let off := dpos d + match dmsg d with Some m => m | None => 0 end in
    d' = d /\ off <= qlen (dring d) /\ b = firstn max (skipn off (contents (dring d))).
Proof. exact dec_peek_exact. Qed.

(* A message handed out by current_message is exactly the window (pos, msg) of the content and
   lies inside it; one that lies inside is always handed out when room for the second part
   is supplied. *)
Theorem C13_dec_current_exact :
  forall d h b d', dinv d -> dstep d (DCurrent h) = (d', OBytes b) ->
    exists m, dmsg d = Some m /\ d' = d /\ dpos d + m <= qlen (dring d) /\
              b = slice (dpos d) m (contents (dring d)).
Proof. exact dec_current_exact. Qed.

Theorem C13_dec_current_complete :
  forall d m, dinv d -> dmsg d = Some m -> dpos d + m <= qlen (dring d) ->
    dstep d (DCurrent true) = (d, OBytes (slice (dpos d) m (contents (dring d)))).
Proof. exact dec_current_complete. Qed.

(* The decode layer never alters stored bytes: recv / peek / shift / advance / current_message
   leave the capacity alone and at most drop [k <= curr] consumed bytes at the front. *)
Theorem C13_dec_only_consumes :
  forall d o, dinv d -> is_dq o = false ->
    exists k, k <= dcurr d /\
      contents (dring (fst (dstep d o))) = skipn k (contents (dring d)) /\
      qmax (dring (fst (dstep d o))) = qmax (dring d).
Proof. exact dec_only_consumes. Qed.

(* Finding, stated as a theorem about the code as it is: a decode_queue without decoder that
   starts as constructed (no message, nothing consumed) never offers a message and never
   consumes a byte, whatever data arrives and however often recv / advance are called - the
   comment of mpt_queue_recv ("use current available data as message") does not hold. *)
Theorem C13_dec_raw_never_offers :
  forall ops d, dmsg d = None -> dcurr d = 0 ->
    forallb (fun o => negb (is_dset o)) ops = true ->
    Forall (fun r : dobs => let '(_, _, _, (cu, _, _, mg)) := r in cu = 0 /\ mg = None) (drun d ops).
Proof. exact raw_never_offers. Qed.

(* ---- non-vacuity: a wrapped, partly filled queue meets the hypotheses and the
   statements say something about it ---- *)
Example C13_inv_wrapped : qinv (mkq [3;4;238;238;238;238;1;2]%N 4 8 6).
Proof. unfold qinv; cbn; lia. Qed.

Example C13_wrapped_contents : contents (mkq [3;4;238;238;238;238;1;2]%N 4 8 6) = [1;2;3;4]%N.
Proof. reflexivity. Qed.

Example C13_history_example :
  map (fun r => snd (fst r))
      (qrun (mkq [3;4;238;238;238;238;1;2]%N 4 8 6)
            [OpPush [5;6]%N; OpCrop 1 3; OpUnshift [9]%N; OpAlign 7; OpPop 2 true])
  = [[1;2;3;4;5;6]; [1;5;6]; [9;1;5;6]; [9;1;5;6]; [9;1]]%N.
Proof. vm_compute. reflexivity. Qed.

Example C13_refusal_example :
  accepted (snd (qstep (mkq [3;4;238;238;238;238;1;2]%N 4 8 6) (OpPush [1;2;3;4;5]%N))) = false.
Proof. vm_compute. reflexivity. Qed.

(* the mpt++ methods on the same wrapped queue: push beyond the capacity grows it, a peek
   for more than the first segment makes the content contiguous, read takes from the end *)
Example C13_io_history_example :
  map (fun r => (fst (fst r), snd (fst r), snd r))
      (qrun (mkq [3;4;238;238;238;238;1;2]%N 4 8 6)
            [OpIoPush [5;6;7;8;9]%N 238%N; OpIoPeek 3%nat; OpIoRead 2%nat 2%nat; OpIoPop 1%nat false;
             OpIoWrite 2%nat [[10;11];[12;13]]%N 238%N; OpIoShift 9%nat true])
  = [(ODone, [1;2;3;4;5;6;7;8;9], 16%nat); (OBytes [1;2;3;4;5;6;7;8;9], [1;2;3;4;5;6;7;8;9], 16%nat);
     (OCount 2%nat [8;9;6;7], [1;2;3;4;5], 16%nat); (ODone, [1;2;3;4], 16%nat);
     (OCount 2%nat [], [1;2;3;4;10;11;12;13], 16%nat);
     (ORefused ERange, [1;2;3;4;10;11;12;13], 16%nat)]%N.
Proof. vm_compute. reflexivity. Qed.

Example C13_enc_inv_wrapped : einv (mkeq (mkq [3;4;238;238;238;238;1;2]%N 4 8 6) 3 1).
Proof. unfold einv, qinv; cbn; lia. Qed.

Example C13_enc_history_example :
  map (fun r => (snd (fst (fst (fst r))), snd (fst r), snd r))
      (erun (mkeq (mkq [3;4;238;238;238;238;1;2]%N 4 8 6) 3 1)
            [EPush [5;6]%N; ERevert; EPush [7;8;9;10;11;12]%N; EPush []; ETrim 2%nat; ETrim 7%nat])
  = [([1;2;3;4;5;6], 3%nat, 3%nat); ([1;2;3], 3%nat, 0%nat); ([1;2;3;7;8;9;10;11], 3%nat, 5%nat);
     ([1;2;3;7;8;9;10;11], 8%nat, 0%nat); ([3;7;8;9;10;11], 6%nat, 0%nat);
     ([3;7;8;9;10;11], 6%nat, 0%nat)]%N.
Proof. vm_compute. reflexivity. Qed.

Example C13_dec_inv_wrapped : dinv (mkdq (mkq [3;4;238;238;238;238;1;2]%N 4 8 6) 0 0 0 None false).
Proof. unfold dinv, qinv; cbn; lia. Qed.

(* fresh raw queue on wrapped content: recv moves the window over the four bytes, never a message;
   peek shows the window across the wrap; new data becomes the next window *)
Example C13_dec_history_example :
  map (fun r => (fst (fst (fst r)), snd r))
      (drun (mkdq (mkq [3;4;238;238;238;238;1;2]%N 4 8 6) 0 0 0 None false)
            [DRecv; DPeek 3%nat true; DCurrent true; DQ (OpPush [5;6]%N); DAdvance; DPeek 9%nat true; DPeek 0%nat false])
  = [(OCount 0%nat [], (0, 0, 4, None)); (OBytes [1;2;3]%N, (0, 0, 4, None));
     (ORefused MissingData, (0, 0, 4, None)); (ODone, (0, 0, 4, None));
     (ODone, (0, 4, 2, None)); (OBytes [5;6]%N, (0, 4, 2, None)); (OCount 2%nat [], (0, 4, 2, None))]%nat.
Proof. vm_compute. reflexivity. Qed.

(* consumed input in front of a delivered message that straddles the wrap: current_message reads
   it with and (refused) without room for the second part; advance drops the consumed bytes *)
Example C13_dec_message_example :
  map (fun r => (fst (fst (fst r)), snd (fst (fst r)), snd r))
      (drun (mkdq (mkq [3;4;238;238;238;238;1;2]%N 4 8 6) 0 0 0 None false)
            [DSet 1 1 0 (Some 2%nat) false; DCurrent true; DCurrent false; DAdvance; DCurrent true])
  = [(ODone, [1;2;3;4]%N, (1, 1, 0, Some 2)); (OBytes [2;3]%N, [1;2;3;4]%N, (1, 1, 0, Some 2));
     (ORefused EInval, [1;2;3;4]%N, (1, 1, 0, Some 2)); (ODone, [2;3;4]%N, (0, 2, 1, Some 0));
     (OBytes []%N, [2;3;4]%N, (0, 2, 1, Some 0))]%nat.
Proof. vm_compute. reflexivity. Qed.

(* anomaly of the raw branch kept on record (code as it is): with a delivered message the window
   that becomes the next message is counted twice, so the third recv reports a message (1) at
   (pos 4, length 4) of a 4-byte content; every read of it is refused, nothing outside is read *)
Example C13_dec_offer_outside_content :
  map (fun r => (fst (fst (fst r)), snd r))
      (drun (mkdq (mkq [3;4;238;238;238;238;1;2]%N 4 8 6) 0 0 0 None false)
            [DSet 0 0 0 (Some 0%nat) false; DRecv; DRecv; DCurrent true; DRecv; DCurrent true; DPeek 1%nat true; DRecv])
  = [(ODone, (0, 0, 0, Some 0)); (OCount 1%nat [], (0, 0, 4, Some 0)); (OCount 1%nat [], (0, 0, 4, Some 4));
     (OBytes [1;2;3;4]%N, (0, 0, 4, Some 4)); (OCount 1%nat [], (0, 4, 0, Some 4));
     (ORefused ERange, (0, 4, 0, Some 4)); (ORefused MissingData, (0, 4, 0, Some 4));
     (ORefused BadEncoding, (0, 4, 0, Some 4))]%nat.
Proof. vm_compute. reflexivity. Qed.

Print Assumptions C13_step_refines_deque.
Print Assumptions C13_history_refines_deque.
Print Assumptions C13_refused_leaves_content.
Print Assumptions C13_memrev_rotates.
Print Assumptions C13_io_write_complete.
Print Assumptions C13_enc_step_refines.
Print Assumptions C13_enc_history_refines.
Print Assumptions C13_enc_finished_stable.
Print Assumptions C13_dec_step_refines.
Print Assumptions C13_dec_history_refines.
Print Assumptions C13_dec_peek_exact.
Print Assumptions C13_dec_current_exact.
Print Assumptions C13_dec_current_complete.
Print Assumptions C13_dec_only_consumes.
Print Assumptions C13_dec_raw_never_offers.
