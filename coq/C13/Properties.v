(* C13 — Ring-buffer queue is a faithful byte deque.
   This file holds only the property theorems (each closed by [exact] of a lemma
   proved elsewhere), their non-vacuity examples and Print Assumptions.

   Reading guide.  [queue] is the mechanism state of mptcore/queue (storage bytes,
   len, max, off); [qstep] transcribes the C functions; [sq]/[sstep] is a plain
   double-ended byte list with a capacity (C13/QueueSpec.v, 60 lines); [abs]
   forgets offsets and wrap-around.  [qinv] is: the storage has [max] bytes,
   len <= max, off <= max.  It holds for every state the library can produce from
   an initialised queue and is preserved by every operation (part of the theorem). *)
From MptV Require Import Base.Mem C13.QueueModel C13.QueueSpec C13.QueueProofs
  C13.QueueAlign C13.QueueFind C13.QueueRefine.

(* One operation, any capacity, any start offset, any fill, wrapped or not:
   the model does not fault (no access outside the storage), keeps the invariant,
   and output + resulting bytes + capacity are exactly the deque's. *)
Theorem C13_step_refines_deque :
  forall q o, qinv q ->
    let '(q', out) := qstep q o in
    out <> OFault /\ qinv q' /\
    sstep (abs q) o (accepted out) (err_of out) = (abs q', out).
Proof. exact qstep_refines. Qed.

(* Any history of operations: the sequence of outputs, held bytes and capacities
   equals the deque's, and no step faults. *)
Theorem C13_history_refines_deque :
  forall ops q, qinv q ->
    qrun q ops = srun q (abs q) ops /\
    Forall (fun r => fst (fst r) <> OFault) (qrun q ops).
Proof. exact qrun_refines. Qed.

(* A refused operation changes neither the bytes nor the capacity. *)
Theorem C13_refused_leaves_content :
  forall q o, qinv q -> accepted (snd (qstep q o)) = false ->
    contents (fst (qstep q o)) = contents q /\ qmax (fst (qstep q o)) = qmax q.
Proof. exact refused_unchanged. Qed.

(* The block-swap loop of mpt_memrev (used by queue_align for regions larger than
   its 1024-byte buffer) is a rotation, for every region size. *)
Theorem C13_memrev_rotates :
  forall m data pre len, pre <= len -> data + len <= length m ->
    memrev m data pre len = Ok (rotf m data pre (len - pre)).
Proof. exact memrev_spec. Qed.

(* ---- non-vacuity: a wrapped, partly filled queue meets the hypotheses and the
   statements say something about it ---- *)
Example C13_inv_wrapped : qinv (mkq [3;4;238;238;238;238;1;2]%N 4 8 6).
Proof. unfold qinv; cbn; lia. Qed.

Example C13_wrapped_contents : contents (mkq [3;4;238;238;238;238;1;2]%N 4 8 6) = [1;2;3;4]%N.
Proof. reflexivity. Qed.

Example C13_history_example :
  map (fun r => snd (fst r))
      (qrun (mkq [3;4;238;238;238;238;1;2]%N 4 8 6)
            [OpPush [5;6]%N; OpCrop 1 3; OpUnshift [9]%N; OpAlign 7; OpPop 2 true])
  = [[1;2;3;4;5;6]; [1;5;6]; [9;1;5;6]; [9;1;5;6]; [9;1]]%N.
Proof. vm_compute. reflexivity. Qed.

Example C13_refusal_example :
  accepted (snd (qstep (mkq [3;4;238;238;238;238;1;2]%N 4 8 6) (OpPush [1;2;3;4;5]%N))) = false.
Proof. vm_compute. reflexivity. Qed.

Print Assumptions C13_step_refines_deque.
Print Assumptions C13_history_refines_deque.
Print Assumptions C13_refused_leaves_content.
Print Assumptions C13_memrev_rotates.
