(* placeholder; replaced by the real property theorems *)
From MptV Require Import Base.Mem C13.QueueModel C13.QueueSpec.
Example qinv_example : qinv (mkq [1;2;3]%N 2 3 2).
Proof. unfold qinv; simpl; lia. Qed.
Print Assumptions qinv_example.
