(* C13/DecQueueModel.v — decode_queue WITHOUT a decoder function ("raw message mode"):
   the branch `if (!qu->_dec)` of mptcore/queue/queue_recv.c and of
   mptcore/queue/queue_peek.c, mptcore/queue/queue_shift.c, and the two methods of the
   mpt++ class decode_queue (mpt++/queue.cpp: advance, current_message with
   mptcore/message/message_get.c and message_read.c underneath).  Executable, no proofs.
   The decoder state is (curr, data.pos, data.len, data.msg, _ctx != 0); data.msg = -1
   is [None].  All counters are natural numbers: the C code computes modulo 2^64, the
   cases keep them far below that. *)
From MptV Require Export Base.Mem C13.QueueModel.
Local Open Scope nat_scope.

Record dqueue := mkdq {
  dring : queue;           (* decode_queue::data / the queue base class *)
  dcurr : nat;             (* _state.curr *)
  dpos : nat;              (* _state.data.pos *)
  dlen : nat;              (* _state.data.len *)
  dmsg : option nat;       (* _state.data.msg, None = -1 *)
  dctx : bool              (* _state._ctx != 0 *)
}.

Definition set_ring (d : dqueue) (q : queue) : dqueue :=
  mkdq q (dcurr d) (dpos d) (dlen d) (dmsg d) (dctx d).

(* queue_shift.c: mpt_queue_shift *)
Definition dshift (d : dqueue) : res dqueue :=
  if dcurr d =? 0 then Ok d
  else
    let keep := negb (dpos d =? 0) || negb (dlen d =? 0) || dctx d in
    (* (bytes to remove, new data.pos); None = the early return *)
    let sel :=
      if keep then
        if dpos d <? dcurr d then (if dpos d =? 0 then None else Some (dpos d, 0))
        else Some (dcurr d, dpos d - dcurr d)
      else Some (dcurr d, dpos d) in
    match sel with
    | None => Ok d
    | Some (curr, pos) =>
      match qcrop (dring d) 0 curr with
      | Ok q1 => Ok (mkdq q1 (dcurr d - curr) pos (dlen d) (dmsg d) (dctx d))
      | Err _ => Ok d
      | Fault => Fault
      end
    end.

(* queue_recv.c: mpt_queue_recv with _dec = 0.  The state is returned on refusal too:
   the empty-queue refusal withdraws a delivered message. *)
Definition drecv (d : dqueue) : dqueue * res nat :=
  let len := qlen (dring d) in
  if len =? 0 then
    (mkdq (dring d) (dcurr d) (dpos d) (dlen d) None (dctx d), Err MissingData)
  else
    let done := dpos d + match dmsg d with Some m => m | None => dlen d end in
    if len <? done then (d, Err BadEncoding)
    else
      let rest := len - done in
      let '(d1, ret) :=
        match dmsg d with
        | Some _ => (mkdq (dring d) (dcurr d) done rest (Some (dlen d)) (dctx d), 1)
        | None => (mkdq (dring d) (dcurr d) done rest None (dctx d), 0)
        end in
      match dshift d1 with
      | Ok d2 => (d2, Ok ret)
      | Err e => (d1, Err e)
      | Fault => (d1, Fault)
      end.

(* a message as mpt_message_read sees it: fragments (storage index, length).
   [frag_rd m frags skip n]: the bytes copied by reading [n] bytes after [skip]
   bytes were consumed; every memcpy is a checked [rd] of one fragment part. *)
Fixpoint frag_rd (m : mem) (frags : list (nat * nat)) (skip n : nat) : res (list byte) :=
  match frags with
  | [] => Ok []
  | (b, u) :: r =>
    if u <=? skip then frag_rd m r (skip - u) n
    else
      let k := Nat.min n (u - skip) in
      do a <- (if k =? 0 then Ok [] else rd m (b + skip) k);
      do t <- frag_rd m r 0 (n - k);
      Ok (a ++ t)
  end.

Definition frag_total (frags : list (nat * nat)) : nat :=
  fold_right (fun f a => snd f + a) 0 frags.

(* queue_peek.c: the message set up over the one or two data segments *)
Definition dfrags (q : queue) : list (nat * nat) :=
  let off := if qoff q =? qmax q then 0 else qoff q in
  if qmax q - off <? qlen q then [(off, qmax q - off); (0, qlen q - (qmax q - off))]
  else [(off, qlen q)].

(* queue_peek.c: mpt_queue_peek(qu, max, dst) with _dec = 0; result = (return value,
   bytes stored at dst) *)
Definition dpeek (d : dqueue) (max : nat) (hasdst : bool) : res (nat * list byte) :=
  let q := dring d in
  let len := qlen q in
  if len =? 0 then Err MissingData
  else
    let off := dpos d + match dmsg d with Some m => m | None => 0 end in
    if negb hasdst then
      (if off <=? len then Ok (len - off, []) else Err MissingData)
    else if negb (off =? 0) && (frag_total (dfrags q) <? off) then Err MissingData
    else
      do b <- frag_rd (qbuf q) (dfrags q) off max;
      Ok (length b, b).

(* message_get.c: mpt_message_get(qu, off, take, msg, vec): the fragments of the message *)
Definition mget (q : queue) (off take : nat) (hasvec : bool) : res (list (nat * nat)) :=
  let '(base, low) := qdata q in
  let high := qlen q - low in
  do '(base, low, high) <-
    (if off <? low then Ok (base + off, low - off, high)
     else let l := off - low in
          if high <? l then Err EInval else Ok (l, high - l, 0));
  if low + high <? take then Err ERange
  else if take <=? low then Ok [(base, take)]
  else if negb hasvec then Err EInval
  else Ok [(base, low); (0, take - low)].

(* decode_queue::current_message(msg, vec) followed by reading the whole message *)
Definition dcurrent (d : dqueue) (hasvec : bool) : res (list byte) :=
  match dmsg d with
  | None => Err MissingData
  | Some m =>
    do fr <- mget (dring d) (dpos d) m hasvec;
    frag_rd (qbuf (dring d)) fr 0 m
  end.

(* decode_queue::advance: mpt_queue_recv, then mpt_queue_shift once more *)
Definition dadvance (d : dqueue) : dqueue * res unit :=
  match drecv d with
  | (d1, Ok _) => match dshift d1 with
                  | Ok d2 => (d2, Ok tt) | Err e => (d1, Err e) | Fault => (d1, Fault) end
  | (d1, Err e) => (d1, Err e)
  | (d1, Fault) => (d1, Fault)
  end.

Inductive dop :=
| DSet (curr pos len : nat) (msg : option nat) (ctx : bool)   (* install a decoder state *)
| DRecv
| DPeek (max : nat) (hasdst : bool)
| DShift
| DAdvance
| DCurrent (hasvec : bool)
| DQ (o : qop).          (* an operation of the C queue API on the embedded ring *)

Definition dstep (d : dqueue) (o : dop) : dqueue * qout :=
  match o with
  | DSet c p l m x => (mkdq (dring d) c p l m x, ODone)
  | DRecv => match drecv d with
             | (d', Ok r) => (d', OCount r []) | (d', Err e) => (d', ORefused e) | (d', Fault) => (d', OFault) end
  | DPeek max h => match dpeek d max h with
                   | Ok (r, b) => (d, if h then OBytes b else OCount r [])
                   | Err e => (d, ORefused e) | Fault => (d, OFault) end
  | DShift => match dshift d with
              | Ok d' => (d', ODone) | Err e => (d, ORefused e) | Fault => (d, OFault) end
  | DAdvance => match dadvance d with
                | (d', Ok _) => (d', ODone) | (d', Err e) => (d', ORefused e) | (d', Fault) => (d', OFault) end
  | DCurrent h => match dcurrent d h with
                  | Ok b => (d, OBytes b) | Err e => (d, ORefused e) | Fault => (d, OFault) end
  | DQ o => let '(q', out) := qstep (dring d) o in (set_ring d q', out)
  end.

Definition dinv (d : dqueue) : Prop := qinv (dring d).

(* a decode_queue as its constructor leaves it *)
Definition dfresh (q : queue) : dqueue := mkdq q 0 0 0 None false.
