(* C13/QueueRefine.v — every operation of the ring-buffer model refines the byte deque,
   never faults and keeps the invariant; lifted to all histories. *)
From MptV Require Import Base.Mem C13.QueueModel C13.QueueSpec C13.QueueProofs C13.QueueAlign C13.QueueFind.
Local Open Scope nat_scope.

Definition step_ok (q : queue) (o : qop) : Prop :=
  let '(q', out) := qstep q o in
  out <> OFault /\ qinv q' /\
  sstep (abs q) o (accepted out) (err_of out) = (abs q', out).

Lemma abs_len q : qinv q -> length (sc (abs q)) = qlen q.
Proof. intros Hq. unfold abs; cbn [sc]. apply contents_length. assumption. Qed.

Ltac refused := cbn [accepted err_of]; split; [discriminate|]; split; [assumption|].

Lemma step_push q d : qinv q -> step_ok q (OpPush d).
Proof.
  intros Hq. unfold step_ok, qstep, lift1. pose proof (qpush_spec q d Hq) as H.
  unfold sstep. rewrite (abs_len q Hq). cbn [abs sc scap].
  destruct ((length d <=? qmax q - qlen q) && negb (qmax q - qlen q =? 0)).
  - destruct H as (q' & -> & Hq' & Hm & Hc). split; [discriminate|]. split; [assumption|].
    unfold abs. rewrite Hc, Hm. reflexivity.
  - destruct H as (e & ->). refused. reflexivity.
Qed.

Lemma step_unshift q d : qinv q -> step_ok q (OpUnshift d).
Proof.
  intros Hq. unfold step_ok, qstep, lift1. pose proof (qunshift_spec q d Hq) as H.
  unfold sstep. rewrite (abs_len q Hq). cbn [abs sc scap].
  destruct ((length d <=? qmax q - qlen q) && negb (qmax q - qlen q =? 0)).
  - destruct H as (q' & -> & Hq' & Hm & Hc). split; [discriminate|]. split; [assumption|].
    unfold abs. rewrite Hc, Hm. reflexivity.
  - destruct H as (e & ->). refused. reflexivity.
Qed.

Lemma step_pop q n h : qinv q -> step_ok q (OpPop n h).
Proof.
  intros Hq. unfold step_ok, qstep, lift2. pose proof (qpop_spec q n h Hq) as H.
  unfold sstep. rewrite (abs_len q Hq). cbn [abs sc scap].
  destruct (Nat.leb_spec n (qlen q)) as [Hn|Hn].
  - destruct H as [->|(-> & e & ->)].
    + split; [discriminate|]. pose proof Hq as (Hb & Hl & Ho).
      split; [apply qinv_set_len; [assumption|lia]|].
      cbn [accepted]. rewrite orb_true_r. cbn [andb]. unfold abs.
      rewrite contents_shrink by (assumption || lia). reflexivity.
    + refused. reflexivity.
  - destruct H as (e & ->). refused. reflexivity.
Qed.

Lemma step_shift q n h : qinv q -> step_ok q (OpShift n h).
Proof.
  intros Hq. unfold step_ok, qstep, lift2. pose proof (qshift_spec q n h Hq) as H.
  unfold sstep. rewrite (abs_len q Hq). cbn [abs sc scap].
  destruct (Nat.leb_spec n (qlen q)) as [Hn|Hn].
  - destruct H as [(q' & -> & Hq' & Hm & Hc)|(-> & e & ->)].
    + split; [discriminate|]. split; [assumption|].
      cbn [accepted]. rewrite orb_true_r. cbn [andb]. unfold abs. rewrite Hc, Hm. reflexivity.
    + refused. reflexivity.
  - destruct H as (e & ->). refused. reflexivity.
Qed.

Lemma step_crop q p n : qinv q -> step_ok q (OpCrop p n).
Proof.
  intros Hq. unfold step_ok, qstep, lift1. pose proof (qcrop_spec q p n Hq) as H.
  unfold sstep. rewrite (abs_len q Hq). cbn [abs sc scap].
  destruct (Nat.leb_spec (p + n) (qlen q)).
  - destruct H as (q' & -> & Hq' & Hm & Hc). split; [discriminate|]. split; [assumption|].
    unfold abs. rewrite Hc, Hm. reflexivity.
  - destruct H as (e & ->). refused. reflexivity.
Qed.

Lemma step_get q p n : qinv q -> step_ok q (OpGet p n).
Proof.
  intros Hq. unfold step_ok, qstep. unfold sstep. rewrite (abs_len q Hq). cbn [abs sc scap].
  destruct (Nat.eqb_spec n 0) as [->|Hn].
  - unfold qget. cbn [Nat.eqb]. split; [discriminate|]. split; [assumption|]. reflexivity.
  - pose proof (qget_spec q p n Hq ltac:(lia)) as H.
    destruct (Nat.leb_spec (p + n) (qlen q)).
    + rewrite H. split; [discriminate|]. split; [assumption|]. reflexivity.
    + destruct H as (e & ->). refused. reflexivity.
Qed.

Lemma step_set q p d : qinv q -> step_ok q (OpSet p d).
Proof.
  intros Hq. unfold step_ok, qstep, lift1. unfold sstep. rewrite (abs_len q Hq). cbn [abs sc scap].
  destruct (Nat.eqb_spec (length d) 0) as [Hz|Hz].
  - unfold qset. rewrite Hz. cbn [Nat.eqb]. split; [discriminate|]. split; [assumption|]. reflexivity.
  - pose proof (qset_spec q p d Hq ltac:(lia)) as H.
    destruct (Nat.leb_spec (p + length d) (qlen q)).
    + destruct H as (b & -> & Hq' & Hc). split; [discriminate|]. split; [assumption|].
      unfold abs. rewrite Hc. reflexivity.
    + destruct H as (e & ->). refused. reflexivity.
Qed.

Lemma step_align q p : qinv q -> step_ok q (OpAlign p).
Proof.
  intros Hq. unfold step_ok, qstep, lift1.
  destruct (qalign_spec q p Hq) as (q' & -> & Hq' & Hm & Hl & _ & Hc).
  split; [discriminate|]. split; [assumption|]. cbn [sstep]. unfold abs. rewrite Hc, Hm. reflexivity.
Qed.

Lemma step_resize q n f : qinv q -> step_ok q (OpResize n f).
Proof.
  intros Hq. unfold step_ok, qstep, lift1.
  destruct (qresize_spec q n f Hq) as (q' & -> & Hq' & Hm & Hc).
  split; [discriminate|]. split; [assumption|]. cbn [sstep]. rewrite (abs_len q Hq).
  unfold abs. cbn [sc]. rewrite Hc, Hm. reflexivity.
Qed.

Lemma step_prepare q n f : qinv q -> step_ok q (OpPrepare n f).
Proof.
  intros Hq. unfold step_ok, qstep.
  destruct (qprepare_spec q n f Hq) as (q' & r & -> & Hq' & Hm & Hc).
  split; [discriminate|]. split; [assumption|]. cbn [sstep]. rewrite (abs_len q Hq).
  unfold abs. cbn [sc scap]. rewrite Hc, Hm. reflexivity.
Qed.

Lemma step_find q esz key : qinv q -> step_ok q (OpFind esz key).
Proof.
  intros Hq. unfold step_ok, qstep. unfold sstep. rewrite (abs_len q Hq). cbn [abs sc scap].
  destruct (Nat.eqb_spec esz 0) as [->|He].
  - unfold qfind. cbn [Nat.eqb orb]. refused. reflexivity.
  - pose proof (qfind_spec q esz key Hq ltac:(lia)) as H.
    destruct (qfind q esz key) as [r|e|]; [|refused|contradiction].
    + destruct H as [Hl ->]. split; [discriminate|]. split; [assumption|].
      cbn [accepted negb orb]. destruct (Nat.ltb_spec (qlen q) esz); [lia|]. reflexivity.
    + cbn [negb]. rewrite orb_true_r. reflexivity.
Qed.

Lemma step_string q : qinv q -> step_ok q OpString.
Proof.
  intros Hq. unfold step_ok, qstep, lift2. pose proof (qstring_spec q Hq) as H.
  unfold sstep. rewrite (abs_len q Hq). cbn [abs sc scap].
  destruct (Nat.eqb_spec (qmax q - qlen q) 0) as [E|E].
  - destruct H as (e & ->). refused. reflexivity.
  - destruct H as (q' & -> & Hq' & Hm & Hc). split; [discriminate|]. split; [assumption|].
    unfold abs. rewrite Hc, Hm. reflexivity.
Qed.

Theorem qstep_refines q o : qinv q -> step_ok q o.
Proof.
  intros Hq. destruct o.
  - apply step_push; assumption.
  - apply step_unshift; assumption.
  - apply step_pop; assumption.
  - apply step_shift; assumption.
  - apply step_crop; assumption.
  - apply step_get; assumption.
  - apply step_set; assumption.
  - apply step_align; assumption.
  - apply step_resize; assumption.
  - apply step_prepare; assumption.
  - apply step_find; assumption.
  - apply step_string; assumption.
Qed.

(* every history: same outputs, same bytes, same capacity as the deque; no fault *)
Theorem qrun_refines ops : forall q, qinv q ->
  qrun q ops = srun q (abs q) ops /\
  Forall (fun r => fst (fst r) <> OFault) (qrun q ops).
Proof.
  induction ops as [|o ops IH]; intros q Hq; cbn [qrun srun].
  - split; [reflexivity|constructor].
  - pose proof (qstep_refines q o Hq) as H. unfold step_ok in H.
    destruct (qstep q o) as [q' out]. destruct H as (Hnf & Hq' & Hs). rewrite Hs.
    destruct (IH q' Hq') as [E F]. split.
    + cbn [sc scap abs]. f_equal. assumption.
    + constructor; [assumption|assumption].
Qed.

(* refusal leaves the content untouched; acceptance is decided by the deque alone
   whenever a target buffer is supplied *)
Lemma refused_unchanged q o : qinv q ->
  accepted (snd (qstep q o)) = false -> contents (fst (qstep q o)) = contents q /\ qmax (fst (qstep q o)) = qmax q.
Proof.
  intros Hq. pose proof (qstep_refines q o Hq) as H. unfold step_ok in H.
  destruct (qstep q o) as [q' out]. destruct H as (Hnf & Hq' & Hs). cbn [fst snd]. intros Ha.
  destruct o; cbn [qstep] in *;
  destruct out; try discriminate; try contradiction;
  unfold sstep in Hs; repeat match type of Hs with context [if ?c then _ else _] => destruct c end;
  try discriminate; inversion Hs; split; reflexivity.
Qed.
