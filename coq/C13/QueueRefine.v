(* C13/QueueRefine.v — every operation of the ring-buffer model refines the byte deque,
   never faults and keeps the invariant; lifted to all histories. *)
From MptV Require Import Base.Mem C13.QueueModel C13.QueueSpec C13.QueueProofs C13.QueueAlign C13.QueueFind
  C13.IoQueueProofs.
Local Open Scope nat_scope.

Definition step_ok (q : queue) (o : qop) : Prop :=
  let '(q', out) := qstep q o in
  out <> OFault /\ qinv q' /\
  sstep (abs q) o (accepted out) (err_of out) (len_of out) = (abs q', out).

Lemma abs_len q : qinv q -> length (sc (abs q)) = qlen q.
Proof. intros Hq. unfold abs; cbn [sc]. apply contents_length. assumption. Qed.

Ltac refused := cbn [accepted err_of]; split; [discriminate|]; split; [assumption|].

Lemma step_push q d : qinv q -> step_ok q (OpPush d).
Proof.
  intros Hq. unfold step_ok, qstep, lift1. pose proof (qpush_spec q d Hq) as H.
  unfold sstep. rewrite (abs_len q Hq). cbn [abs sc scap].
  destruct ((length d <=? qmax q - qlen q) && negb (qmax q - qlen q =? 0)).
  - destruct H as (q' & -> & Hq' & Hm & Hc). split; [discriminate|]. split; [assumption|].
    unfold abs. rewrite Hc, Hm. reflexivity.
  - destruct H as (e & ->). refused. reflexivity.
Qed.

Lemma step_unshift q d : qinv q -> step_ok q (OpUnshift d).
Proof.
  intros Hq. unfold step_ok, qstep, lift1. pose proof (qunshift_spec q d Hq) as H.
  unfold sstep. rewrite (abs_len q Hq). cbn [abs sc scap].
  destruct ((length d <=? qmax q - qlen q) && negb (qmax q - qlen q =? 0)).
  - destruct H as (q' & -> & Hq' & Hm & Hc). split; [discriminate|]. split; [assumption|].
    unfold abs. rewrite Hc, Hm. reflexivity.
  - destruct H as (e & ->). refused. reflexivity.
Qed.

Lemma step_pop q n h : qinv q -> step_ok q (OpPop n h).
Proof.
  intros Hq. unfold step_ok, qstep, lift2. pose proof (qpop_spec q n h Hq) as H.
  unfold sstep. rewrite (abs_len q Hq). cbn [abs sc scap].
  destruct (Nat.leb_spec n (qlen q)) as [Hn|Hn].
  - destruct H as [->|(-> & e & ->)].
    + split; [discriminate|]. pose proof Hq as (Hb & Hl & Ho).
      split; [apply qinv_set_len; [assumption|lia]|].
      cbn [accepted]. rewrite orb_true_r. cbn [andb]. unfold abs.
      rewrite contents_shrink by (assumption || lia). reflexivity.
    + refused. reflexivity.
  - destruct H as (e & ->). refused. reflexivity.
Qed.

Lemma step_shift q n h : qinv q -> step_ok q (OpShift n h).
Proof.
  intros Hq. unfold step_ok, qstep, lift2. pose proof (qshift_spec q n h Hq) as H.
  unfold sstep. rewrite (abs_len q Hq). cbn [abs sc scap].
  destruct (Nat.leb_spec n (qlen q)) as [Hn|Hn].
  - destruct H as [(q' & -> & Hq' & Hm & Hc)|(-> & e & ->)].
    + split; [discriminate|]. split; [assumption|].
      cbn [accepted]. rewrite orb_true_r. cbn [andb]. unfold abs. rewrite Hc, Hm. reflexivity.
    + refused. reflexivity.
  - destruct H as (e & ->). refused. reflexivity.
Qed.

Lemma step_crop q p n : qinv q -> step_ok q (OpCrop p n).
Proof.
  intros Hq. unfold step_ok, qstep, lift1. pose proof (qcrop_spec q p n Hq) as H.
  unfold sstep. rewrite (abs_len q Hq). cbn [abs sc scap].
  destruct (Nat.leb_spec (p + n) (qlen q)).
  - destruct H as (q' & -> & Hq' & Hm & Hc). split; [discriminate|]. split; [assumption|].
    unfold abs. rewrite Hc, Hm. reflexivity.
  - destruct H as (e & ->). refused. reflexivity.
Qed.

Lemma step_get q p n : qinv q -> step_ok q (OpGet p n).
Proof.
  intros Hq. unfold step_ok, qstep. unfold sstep. rewrite (abs_len q Hq). cbn [abs sc scap].
  destruct (Nat.eqb_spec n 0) as [->|Hn].
  - unfold qget. cbn [Nat.eqb]. split; [discriminate|]. split; [assumption|]. reflexivity.
  - pose proof (qget_spec q p n Hq ltac:(lia)) as H.
    destruct (Nat.leb_spec (p + n) (qlen q)).
    + rewrite H. split; [discriminate|]. split; [assumption|]. reflexivity.
    + destruct H as (e & ->). refused. reflexivity.
Qed.

Lemma step_set q p d : qinv q -> step_ok q (OpSet p d).
Proof.
  intros Hq. unfold step_ok, qstep, lift1. unfold sstep. rewrite (abs_len q Hq). cbn [abs sc scap].
  destruct (Nat.eqb_spec (length d) 0) as [Hz|Hz].
  - unfold qset. rewrite Hz. cbn [Nat.eqb]. split; [discriminate|]. split; [assumption|]. reflexivity.
  - pose proof (qset_spec q p d Hq ltac:(lia)) as H.
    destruct (Nat.leb_spec (p + length d) (qlen q)).
    + destruct H as (b & -> & Hq' & Hc). split; [discriminate|]. split; [assumption|].
      unfold abs. rewrite Hc. reflexivity.
    + destruct H as (e & ->). refused. reflexivity.
Qed.

Lemma step_align q p : qinv q -> step_ok q (OpAlign p).
Proof.
  intros Hq. unfold step_ok, qstep, lift1.
  destruct (qalign_spec q p Hq) as (q' & -> & Hq' & Hm & Hl & _ & Hc).
  split; [discriminate|]. split; [assumption|]. cbn [sstep]. unfold abs. rewrite Hc, Hm. reflexivity.
Qed.

Lemma step_resize q n f : qinv q -> step_ok q (OpResize n f).
Proof.
  intros Hq. unfold step_ok, qstep, lift1.
  destruct (qresize_spec q n f Hq) as (q' & -> & Hq' & Hm & Hc).
  split; [discriminate|]. split; [assumption|]. cbn [sstep]. rewrite (abs_len q Hq).
  unfold abs. cbn [sc]. rewrite Hc, Hm. reflexivity.
Qed.

Lemma step_prepare q n f : qinv q -> step_ok q (OpPrepare n f).
Proof.
  intros Hq. unfold step_ok, qstep.
  destruct (qprepare_spec q n f Hq) as (q' & r & -> & Hq' & Hm & Hc).
  split; [discriminate|]. split; [assumption|]. cbn [sstep]. rewrite (abs_len q Hq).
  unfold abs. cbn [sc scap]. rewrite Hc, Hm. reflexivity.
Qed.

Lemma step_find q esz key : qinv q -> step_ok q (OpFind esz key).
Proof.
  intros Hq. unfold step_ok, qstep. unfold sstep. rewrite (abs_len q Hq). cbn [abs sc scap].
  destruct (Nat.eqb_spec esz 0) as [->|He].
  - unfold qfind. cbn [Nat.eqb orb]. refused. reflexivity.
  - pose proof (qfind_spec q esz key Hq ltac:(lia)) as H.
    destruct (qfind q esz key) as [r|e|]; [|refused|contradiction].
    + destruct H as [Hl ->]. split; [discriminate|]. split; [assumption|].
      cbn [accepted negb orb]. destruct (Nat.ltb_spec (qlen q) esz); [lia|]. reflexivity.
    + cbn [negb]. rewrite orb_true_r. reflexivity.
Qed.

Lemma step_string q : qinv q -> step_ok q OpString.
Proof.
  intros Hq. unfold step_ok, qstep, lift2. pose proof (qstring_spec q Hq) as H.
  unfold sstep. rewrite (abs_len q Hq). cbn [abs sc scap].
  destruct (Nat.eqb_spec (qmax q - qlen q) 0) as [E|E].
  - destruct H as (e & ->). refused. reflexivity.
  - destruct H as (q' & -> & Hq' & Hm & Hc). split; [discriminate|]. split; [assumption|].
    unfold abs. rewrite Hc, Hm. reflexivity.
Qed.

(* ---- mpt++ io::queue ---- *)
Lemma step_ioprepare q n f : qinv q -> step_ok q (OpIoPrepare n f).
Proof.
  intros Hq. unfold step_ok, qstep, lift1.
  destruct (ioprepare_spec q n f Hq) as (q' & -> & Hq' & Hm & Hc).
  split; [discriminate|]. split; [assumption|]. cbn [sstep]. rewrite (abs_len q Hq).
  unfold abs. cbn [sc scap]. rewrite Hc, Hm. reflexivity.
Qed.

Lemma step_iopush q d f : qinv q -> step_ok q (OpIoPush d f).
Proof.
  intros Hq. unfold step_ok, qstep, lift1. pose proof (iopush_spec q d f Hq) as H. cbn zeta in H.
  unfold sstep. rewrite (abs_len q Hq). cbn [abs sc scap].
  destruct ((length d <=? grow_cap (qmax q) (qlen q) (length d) - qlen q)
            && negb (grow_cap (qmax q) (qlen q) (length d) - qlen q =? 0)).
  - destruct H as (q' & -> & Hq' & Hm & Hc). split; [discriminate|]. split; [assumption|].
    unfold abs. rewrite Hc, Hm. reflexivity.
  - destruct H as (e & ->). refused. reflexivity.
Qed.

Lemma step_iounshift q d f : qinv q -> step_ok q (OpIoUnshift d f).
Proof.
  intros Hq. unfold step_ok, qstep, lift1. pose proof (iounshift_spec q d f Hq) as H. cbn zeta in H.
  unfold sstep. rewrite (abs_len q Hq). cbn [abs sc scap].
  destruct ((length d <=? grow_cap (qmax q) (qlen q) (length d) - qlen q)
            && negb (grow_cap (qmax q) (qlen q) (length d) - qlen q =? 0)).
  - destruct H as (q' & -> & Hq' & Hm & Hc). split; [discriminate|]. split; [assumption|].
    unfold abs. rewrite Hc, Hm. reflexivity.
  - destruct H as (e & ->). refused. reflexivity.
Qed.

Lemma step_iopop q n h : qinv q -> step_ok q (OpIoPop n h).
Proof.
  intros Hq. unfold step_ok, qstep. unfold sstep. rewrite (abs_len q Hq). cbn [abs sc scap].
  destruct h.
  - unfold lift2. pose proof (qpop_spec q n true Hq) as H.
    destruct (Nat.leb_spec n (qlen q)) as [Hn|Hn].
    + destruct H as [->|(Hf & _)]; [|discriminate].
      split; [discriminate|]. pose proof Hq as (Hb & Hl & Ho).
      split; [apply qinv_set_len; [assumption|lia]|].
      unfold abs. rewrite contents_shrink by (assumption || lia). reflexivity.
    + destruct H as (e & ->). refused. reflexivity.
  - unfold lift1. pose proof (iopop0_spec q n Hq) as H.
    destruct (Nat.leb_spec n (qlen q)) as [Hn|Hn].
    + destruct H as (q' & -> & Hq' & Hm & Hc). split; [discriminate|]. split; [assumption|].
      unfold abs. rewrite Hc, Hm. reflexivity.
    + destruct H as (e & ->). refused. reflexivity.
Qed.

Lemma step_ioshift q n h : qinv q -> step_ok q (OpIoShift n h).
Proof.
  intros Hq. unfold step_ok, qstep. unfold sstep. rewrite (abs_len q Hq). cbn [abs sc scap].
  destruct h.
  - unfold lift2. pose proof (qshift_spec q n true Hq) as H.
    destruct (Nat.leb_spec n (qlen q)) as [Hn|Hn].
    + destruct H as [(q' & -> & Hq' & Hm & Hc)|(Hf & _)]; [|discriminate].
      split; [discriminate|]. split; [assumption|]. unfold abs. rewrite Hc, Hm. reflexivity.
    + destruct H as (e & ->). refused. reflexivity.
  - unfold lift1. pose proof (qcrop_spec q 0 n Hq) as H. cbn [Nat.add] in H.
    destruct (Nat.leb_spec n (qlen q)) as [Hn|Hn].
    + destruct H as (q' & -> & Hq' & Hm & Hc). split; [discriminate|]. split; [assumption|].
      unfold abs. rewrite Hc, Hm. reflexivity.
    + destruct H as (e & ->). refused. reflexivity.
Qed.

Lemma step_iowrite q part elems f : qinv q -> step_ok q (OpIoWrite part elems f).
Proof.
  intros Hq. unfold step_ok, qstep, iowrite. unfold sstep. rewrite (abs_len q Hq). cbn [abs sc scap].
  destruct (Nat.eqb_spec part 0) as [Hp|Hp].
  - destruct (ioprepare_spec q (length elems) f Hq) as (q' & -> & Hq' & Hm & Hc). cbn [bind].
    split; [discriminate|]. split; [assumption|]. unfold abs. rewrite Hc, Hm. reflexivity.
  - destruct (ioprepare_spec q (part * length elems) f Hq) as (q1 & -> & Hq1 & Hm1 & Hc1). cbn [bind].
    destruct (iowrite_loop_spec elems q1 0 Hq1) as (q' & k & -> & Hq' & Hm' & Hs).
    split; [discriminate|]. split; [assumption|].
    rewrite <- Hm1, <- Hc1, Hs. unfold abs. rewrite Hm'. reflexivity.
Qed.

Lemma step_ioread q cnt part : qinv q -> step_ok q (OpIoRead cnt part).
Proof.
  intros Hq. unfold step_ok, qstep. unfold sstep. cbn [abs sc scap].
  destruct (ioread_loop_spec part cnt q 0 [] Hq) as (q' & k & d & -> & Hq' & Hm' & Hs).
  split; [discriminate|]. split; [assumption|]. rewrite Hs. unfold abs. rewrite Hm'. reflexivity.
Qed.

Lemma step_iopeek q n : qinv q -> step_ok q (OpIoPeek n).
Proof.
  intros Hq. unfold step_ok, qstep, lift2.
  destruct (iopeek_spec q n Hq) as (q' & d & -> & Hq' & Hm & Hc & Hd & Hle & Hlong).
  split; [discriminate|]. split; [assumption|].
  unfold sstep. rewrite (abs_len q Hq). cbn [abs sc scap len_of].
  destruct (Nat.leb_spec (length d) (qlen q)) as [_|Hx]; [|lia]. cbn [andb].
  assert (E : ((if n =? 0 then qlen q else n) <=? length d) || (length d =? qlen q) = true).
  { apply orb_true_iff. destruct Hlong as [Hl|Hl]; [left; apply Nat.leb_le|right; apply Nat.eqb_eq]; assumption. }
  rewrite E. unfold abs. rewrite Hc, Hm, <- Hd. reflexivity.
Qed.

Lemma step_ionew q n f : qinv q -> step_ok q (OpIoNew n f).
Proof.
  intros Hq. unfold step_ok, qstep, lift1.
  destruct (ionew_spec q n f Hq) as (q' & -> & Hq' & Hm & Hc).
  split; [discriminate|]. split; [assumption|]. cbn [sstep]. unfold abs. rewrite Hc, Hm. reflexivity.
Qed.

Theorem qstep_refines q o : qinv q -> step_ok q o.
Proof.
  intros Hq. destruct o.
  - apply step_push; assumption.
  - apply step_unshift; assumption.
  - apply step_pop; assumption.
  - apply step_shift; assumption.
  - apply step_crop; assumption.
  - apply step_get; assumption.
  - apply step_set; assumption.
  - apply step_align; assumption.
  - apply step_resize; assumption.
  - apply step_prepare; assumption.
  - apply step_find; assumption.
  - apply step_string; assumption.
  - apply step_ioprepare; assumption.
  - apply step_iopush; assumption.
  - apply step_iounshift; assumption.
  - apply step_iopop; assumption.
  - apply step_ioshift; assumption.
  - apply step_iowrite; assumption.
  - apply step_ioread; assumption.
  - apply step_iopeek; assumption.
  - apply step_ionew; assumption.
Qed.

(* every history: same outputs, same bytes, same capacity as the deque; no fault *)
Theorem qrun_refines ops : forall q, qinv q ->
  qrun q ops = srun q (abs q) ops /\
  Forall (fun r => fst (fst r) <> OFault) (qrun q ops).
Proof.
  induction ops as [|o ops IH]; intros q Hq; cbn [qrun srun].
  - split; [reflexivity|constructor].
  - pose proof (qstep_refines q o Hq) as H. unfold step_ok in H.
    destruct (qstep q o) as [q' out]. destruct H as (Hnf & Hq' & Hs). rewrite Hs.
    destruct (IH q' Hq') as [E F]. split.
    + cbn [sc scap abs]. f_equal. assumption.
    + constructor; [assumption|assumption].
Qed.

(* refusal leaves the content untouched; acceptance is decided by the deque alone
   whenever a target buffer is supplied *)
Lemma refused_unchanged q o : qinv q ->
  accepted (snd (qstep q o)) = false -> contents (fst (qstep q o)) = contents q /\ qmax (fst (qstep q o)) = qmax q.
Proof.
  intros Hq. pose proof (qstep_refines q o Hq) as H. unfold step_ok in H.
  destruct (qstep q o) as [q' out]. destruct H as (Hnf & Hq' & Hs). cbn [fst snd]. intros Ha.
  destruct o; cbn [qstep] in *;
  destruct out; try discriminate; try contradiction;
  unfold sstep in Hs;
  repeat match type of Hs with
         | context [swrite ?a ?b ?c ?d] => destruct (swrite a b c d)
         | context [sread ?a ?b ?c ?d ?e] => destruct (sread a b c d e) as [? [? ?]]
         | context [if ?c then _ else _] => destruct c
         end;
  try discriminate; inversion Hs; split; reflexivity.
Qed.

(* io::queue::write (as patched) stores every element it is given and reports all of them *)
Lemma iowrite_complete q part elems f : qinv q -> 0 < part ->
  Forall (fun e => length e = part) elems ->
  exists q', qstep q (OpIoWrite part elems f) = (q', OCount (length elems) []) /\
    contents q' = contents q ++ concat elems.
Proof.
  intros Hq Hp Hall. pose proof (step_iowrite q part elems f Hq) as H. unfold step_ok in H.
  destruct (qstep q (OpIoWrite part elems f)) as [q' out]. destruct H as (_ & Hq' & Hs).
  unfold sstep in Hs. destruct (Nat.eqb_spec part 0); [lia|].
  cbn [abs sc scap] in Hs. pose proof Hq as (Hb & Hl & Ho).
  rewrite (swrite_all part Hp) in Hs.
  - inversion Hs. exists q'. split; [reflexivity|]. symmetry. assumption.
  - assumption.
  - rewrite contents_length by assumption.
    pose proof (grow_cap_room (qmax q) (qlen q) (part * length elems) Hl).
    pose proof (grow_cap_ge (qmax q) (qlen q) (part * length elems) Hl). lia.
Qed.
