(* C13/EncQueueRefine.v — a raw encode_queue (mpt++/queue.cpp over the ring buffer)
   refines the finished/unfinished byte deque of EncQueueSpec.v, for every history. *)
From MptV Require Import Base.Mem C13.QueueModel C13.QueueSpec C13.QueueProofs C13.QueueAlign
  C13.EncQueueModel C13.EncQueueSpec.
Local Open Scope nat_scope.

Definition estep_ok (e : equeue) (o : eop) : Prop :=
  let '(e', out) := estep e o in
  out <> OFault /\ einv e' /\ esstep (eabs e) o (err_of out) = (eabs e', out).

Lemma eabs_lens e : einv e ->
  length (sfin (eabs e)) = edone e /\ length (spend (eabs e)) = escr e.
Proof.
  intros (Hq & He). unfold eabs; cbn [sfin spend].
  rewrite firstn_length, skipn_length, contents_length by assumption. lia.
Qed.

Lemma estep_push e d : einv e -> estep_ok e (EPush d).
Proof.
  intros He. pose proof He as (Hq & Hd). pose proof Hq as (Hb & Hl & Ho).
  destruct (eabs_lens e He) as (Lf & Lp).
  unfold estep_ok, estep, epush. unfold esstep. rewrite Lf, Lp.
  destruct (Nat.eqb_spec (length d) 0) as [Hz|Hz].
  - split; [discriminate|]. split; [split; [assumption|cbn; lia]|].
    unfold eabs; cbn [sfin spend secap ering edone].
    rewrite firstn_skipn, contents_length by assumption.
    rewrite firstn_all2, skipn_all2 by (rewrite contents_length by assumption; lia). reflexivity.
  - destruct (Nat.eqb_spec (edone e + escr e) (qlen (ering e))) as [_|Hx]; [|contradiction]. cbn [negb].
    cbn [eabs secap]. rewrite Hd.
    destruct (Nat.eqb_spec (qmax (ering e) - qlen (ering e)) 0) as [Hr|Hr].
    + cbn [err_of]. split; [discriminate|]. split; [assumption|]. reflexivity.
    + set (room := qmax (ering e) - qlen (ering e)) in *.
      set (low := if length d <? room then length d else room).
      assert (Hlow : low = Nat.min room (length d)).
      { unfold low. destruct (Nat.ltb_spec (length d) room); lia. }
      pose proof (qpush_spec (ering e) (firstn low d) Hq) as H.
      rewrite firstn_length in H. fold room in H.
      replace (Nat.min low (length d)) with low in H by lia.
      destruct (Nat.leb_spec low room) as [_|Hx]; [|lia].
      destruct (Nat.eqb_spec room 0) as [Hx|_]; [contradiction|]. cbn [andb negb] in H.
      destruct H as (q1 & -> & Hq1 & Hm1 & Hc1).
      assert (Hl1 : qlen q1 = qlen (ering e) + low).
      { rewrite <- (contents_length q1 Hq1), Hc1, app_length, firstn_length, contents_length by assumption. lia. }
      split; [discriminate|]. split; [split; [assumption|cbn [ering edone escr]; lia]|].
      unfold eabs; cbn [sfin spend secap ering edone escr]. rewrite Hc1, Hm1, <- Hlow.
      rewrite firstn_app, skipn_app, contents_length by assumption.
      replace (edone e - qlen (ering e)) with 0 by lia. cbn [firstn skipn].
      rewrite app_nil_r. reflexivity.
Qed.

Lemma estep_revert e : einv e -> estep_ok e ERevert.
Proof.
  intros He. pose proof He as (Hq & Hd). pose proof Hq as (Hb & Hl & Ho).
  destruct (eabs_lens e He) as (Lf & Lp).
  unfold estep_ok, estep, erevert. unfold esstep. rewrite Lp.
  destruct (Nat.eqb_spec (escr e) 0) as [Hz|Hz].
  - cbn [err_of]. split; [discriminate|]. split; [assumption|]. reflexivity.
  - assert (Hq1 : qinv (set_len (ering e) (edone e))) by (apply qinv_set_len; [assumption|lia]).
    split; [discriminate|]. split; [split; [assumption|cbn; lia]|].
    unfold eabs; cbn [sfin spend secap ering edone escr].
    rewrite contents_shrink by (assumption || lia).
    rewrite firstn_firstn, Nat.min_id.
    rewrite skipn_all2 by (rewrite firstn_length; lia). reflexivity.
Qed.

Lemma skipn_twice {A} (a b : nat) (l : list A) : skipn a (skipn b l) = skipn (a + b) l.
Proof.
  revert l. induction b as [|b IH]; intros l.
  - rewrite Nat.add_0_r. reflexivity.
  - destruct l as [|x l]; [rewrite !skipn_nil; reflexivity|].
    rewrite Nat.add_succ_r. cbn [skipn]. apply IH.
Qed.

Lemma estep_trim e n : einv e -> estep_ok e (ETrim n).
Proof.
  intros He. pose proof He as (Hq & Hd). pose proof Hq as (Hb & Hl & Ho).
  destruct (eabs_lens e He) as (Lf & Lp).
  unfold estep_ok, estep, etrim. unfold esstep. rewrite Lf.
  destruct (Nat.ltb_spec (qlen (ering e)) (edone e)) as [Hx|_]; [lia|].
  destruct (Nat.leb_spec n (edone e)) as [Hn|Hn]; destruct (Nat.ltb_spec (edone e) n) as [Hn'|Hn']; try lia.
  - destruct (qcrop0_ok (ering e) n Hq ltac:(lia)) as (o & -> & Hom & Hc).
    assert (Hq1 : qinv (mkq (qbuf (ering e)) (qlen (ering e) - n) (qmax (ering e)) o))
      by (unfold qinv; cbn; lia).
    split; [discriminate|]. split; [split; [assumption|cbn; lia]|].
    unfold eabs; cbn [sfin spend secap ering edone escr qmax].
    rewrite contents_crop0 by (assumption || lia).
    rewrite skipn_firstn_comm, skipn_twice. replace (edone e - n + n) with (edone e) by lia.
    reflexivity.
  - cbn [err_of]. split; [discriminate|]. split; [assumption|]. reflexivity.
Qed.

Theorem estep_refines e o : einv e -> estep_ok e o.
Proof.
  intros He. destruct o.
  - apply estep_push; assumption.
  - apply estep_revert; assumption.
  - apply estep_trim; assumption.
Qed.

Theorem erun_refines ops : forall e, einv e ->
  erun e ops = esrun e (eabs e) ops /\
  Forall (fun r => fst (fst (fst (fst r))) <> OFault) (erun e ops).
Proof.
  induction ops as [|o ops IH]; intros e He; cbn [erun esrun].
  - split; [reflexivity|constructor].
  - pose proof (estep_refines e o He) as H. unfold estep_ok in H.
    destruct (estep e o) as [e' out]. destruct H as (Hnf & He' & Hs). rewrite Hs.
    destruct (IH e' He') as [E F]. destruct (eabs_lens e' He') as (Lf & Lp). split.
    + rewrite Lf, Lp. cbn [eabs sfin spend secap]. rewrite firstn_skipn. f_equal. assumption.
    + constructor; assumption.
Qed.

(* the finished bytes are never altered by adding, finishing or dropping unfinished data:
   they are a prefix of the content and only trim removes from them *)
Lemma finished_stable e o : einv e -> (forall n, o <> ETrim n) ->
  exists rest, sfin (eabs (fst (estep e o))) = sfin (eabs e) ++ rest.
Proof.
  intros He Hnt. pose proof (estep_refines e o He) as H. unfold estep_ok in H.
  destruct (estep e o) as [e' out]. destruct H as (_ & _ & Hs). cbn [fst].
  assert (Hf : fst (esstep (eabs e) o (err_of out)) = eabs e') by (rewrite Hs; reflexivity).
  rewrite <- Hf. clear Hs Hf.
  destruct o as [d| |n]; unfold esstep.
  - destruct (length d =? 0); [cbn [fst sfin]; eexists; reflexivity|].
    destruct (_ =? 0); cbn [fst sfin]; exists []; rewrite app_nil_r; reflexivity.
  - destruct (_ =? 0); cbn [fst sfin]; exists []; rewrite app_nil_r; reflexivity.
  - exfalso. apply (Hnt n). reflexivity.
Qed.
