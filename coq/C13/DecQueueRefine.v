(* C13/DecQueueRefine.v — a decode_queue without decoder function (raw branches of
   mptcore/queue/queue_recv.c, queue_peek.c, queue_shift.c, mpt++ decode_queue::advance /
   current_message over message_get.c / message_read.c) refines the byte deque with counters
   of DecQueueSpec.v, for every state and every history; property-level consequences. *)
From MptV Require Import Base.Mem C13.QueueModel C13.QueueSpec C13.QueueProofs C13.QueueAlign C13.QueueFind
  C13.IoQueueProofs C13.QueueRefine C13.DecQueueModel C13.DecQueueSpec.
Local Open Scope nat_scope.

(* ---------- fragment reader (mpt_message_read) ---------- *)
Definition fbytes (m : mem) (frags : list (nat * nat)) : list byte :=
  concat (map (fun f => slice (fst f) (snd f) m) frags).
Definition fin (m : mem) (frags : list (nat * nat)) : Prop :=
  Forall (fun f => fst f + snd f <= length m) frags.

Lemma skipn_skipn' {A} (a b : nat) (l : list A) : skipn a (skipn b l) = skipn (a + b) l.
Proof.
  revert l. induction b as [|b IH]; intros l.
  - rewrite Nat.add_0_r. reflexivity.
  - destruct l as [|x l]; [rewrite !skipn_nil; reflexivity|].
    rewrite Nat.add_succ_r. cbn [skipn]. apply IH.
Qed.

Lemma skipn_slice {A} (b u k : nat) (m : list A) : skipn k (slice b u m) = slice (b + k) (u - k) m.
Proof.
  unfold slice. rewrite skipn_firstn_comm, skipn_skipn'. f_equal. f_equal. lia.
Qed.

Lemma firstn_slice {A} (b u n : nat) (m : list A) : firstn n (slice b u m) = slice b (Nat.min n u) m.
Proof. unfold slice. apply firstn_firstn. Qed.

Lemma frag_rd_spec m frags : fin m frags -> forall skip n,
  frag_rd m frags skip n = Ok (firstn n (skipn skip (fbytes m frags))).
Proof.
  unfold fin, fbytes. induction 1 as [|[b u] r Hf Hr IH]; intros skip n; cbn [frag_rd map concat fst snd].
  - rewrite skipn_nil, firstn_nil. reflexivity.
  - simpl in Hf.
    assert (Hl : length (slice b u m) = u) by (apply length_slice; lia).
    rewrite skipn_app, Hl.
    destruct (Nat.leb_spec u skip) as [Hs|Hs].
    + rewrite IH. rewrite (skipn_all2 (n := skip) (slice b u m)) by (rewrite Hl; lia). reflexivity.
    + replace (skip - u) with 0 by lia. rewrite IH. cbn [skipn bind].
      rewrite firstn_app, skipn_slice, firstn_slice.
      rewrite length_slice by lia.
      assert (Ha : (if Nat.min n (u - skip) =? 0 then Ok [] else rd m (b + skip) (Nat.min n (u - skip)))
                   = Ok (slice (b + skip) (Nat.min n (u - skip)) m)).
      { destruct (Nat.eqb_spec (Nat.min n (u - skip)) 0) as [->|_].
        - unfold slice. reflexivity.
        - apply rd_ok. lia. }
      rewrite Ha. cbn [bind].
      destruct (Nat.le_gt_cases n (u - skip)) as [Hn|Hn].
      * rewrite Nat.min_l by lia. replace (n - n) with 0 by lia. replace (n - (u - skip)) with 0 by lia.
        reflexivity.
      * rewrite Nat.min_r by lia. reflexivity.
Qed.

Lemma frag_total_length m frags : fin m frags -> length (fbytes m frags) = frag_total frags.
Proof.
  unfold fin, fbytes, frag_total. induction 1 as [|[b u] r Hf Hr IH]; cbn [map concat fold_right fst snd]; [reflexivity|].
  simpl in Hf. rewrite app_length, length_slice by lia. f_equal. assumption.
Qed.

(* the message mpt_queue_peek sets up covers exactly the content *)
Lemma dfrags_contents q : qinv q ->
  fin (qbuf q) (dfrags q) /\ fbytes (qbuf q) (dfrags q) = contents q.
Proof.
  intros (Hb & Hl & Ho). unfold dfrags, contents, fin, fbytes.
  destruct (Nat.eqb_spec (qoff q) (qmax q)) as [He|He].
  - rewrite Nat.sub_0_r. destruct (Nat.ltb_spec (qmax q) (qlen q)); [lia|].
    split; [repeat constructor; cbn; lia|]. cbn [map concat fst snd]. rewrite app_nil_r.
    destruct (Nat.leb_spec (qoff q + qlen q) (qmax q)).
    + replace (qlen q) with 0 by lia. unfold slice. reflexivity.
    + rewrite skipn_all2 by lia. cbn [app]. unfold slice. cbn [skipn]. f_equal. lia.
  - destruct (Nat.ltb_spec (qmax q - qoff q) (qlen q));
    destruct (Nat.leb_spec (qoff q + qlen q) (qmax q)); try lia.
    + split; [repeat constructor; cbn; lia|]. cbn [map concat fst snd]. rewrite app_nil_r.
      unfold slice. cbn [skipn]. f_equal.
      * apply firstn_all2. rewrite skipn_length. lia.
      * f_equal. lia.
    + split; [repeat constructor; cbn; lia|]. cbn [map concat fst snd]. apply app_nil_r.
Qed.

(* ---------- mpt_queue_shift ---------- *)
Definition crop_front (d : dqueue) (k pos : nat) : res dqueue :=
  match qcrop (dring d) 0 k with
  | Ok q1 => Ok (mkdq q1 (dcurr d - k) pos (dlen d) (dmsg d) (dctx d))
  | Err _ => Ok d
  | Fault => Fault
  end.

Lemma crop_front_spec d k pos : dinv d ->
  exists d', crop_front d k pos = Ok d' /\ dinv d' /\
    dabs d' = if length (contents (dring d)) <? k then dabs d
              else mkdsq (skipn k (contents (dring d))) (qmax (dring d)) (dcurr d - k) pos
                         (dlen d) (dmsg d) (dctx d).
Proof.
  intros Hq. unfold dinv in *. unfold crop_front. rewrite contents_length by assumption.
  destruct (Nat.ltb_spec (qlen (dring d)) k) as [Hk|Hk].
  - rewrite qcrop0_err by assumption. exists d. split; [reflexivity|]. split; [assumption|reflexivity].
  - destruct (qcrop0_ok (dring d) k Hq Hk) as (o & -> & Hom & Hc).
    pose proof Hq as (Hb & Hl & Ho).
    eexists. split; [reflexivity|]. split.
    + unfold dinv, qinv; cbn; lia.
    + unfold dabs; cbn [dring dcurr dpos dlen dmsg dctx qmax].
      rewrite contents_crop0 by (assumption || lia). reflexivity.
Qed.

Lemma dshift_spec d : dinv d ->
  exists d', dshift d = Ok d' /\ dinv d' /\ dabs d' = ds_shift (dabs d).
Proof.
  intros Hq. unfold dshift, ds_shift. cbn [dabs scurr spos slen sctx dsc dscap smsg].
  destruct (Nat.eqb_spec (dcurr d) 0) as [Hc|Hc].
  - exists d. split; [reflexivity|]. split; [assumption|reflexivity].
  - set (keep := negb (dpos d =? 0) || negb (dlen d =? 0) || dctx d).
    destruct keep eqn:Hkeep; cbn [andb].
    + destruct (Nat.ltb_spec (dpos d) (dcurr d)) as [Hp|Hp].
      * destruct (Nat.eqb_spec (dpos d) 0) as [Hz|Hz].
        -- cbn [orb]. exists d. split; [reflexivity|]. split; [assumption|reflexivity].
        -- cbn [orb]. destruct (crop_front_spec d (dpos d) 0 Hq) as (d' & E & Hi & Ha).
           unfold crop_front in E. rewrite E. exists d'. split; [reflexivity|]. split; [assumption|].
           rewrite Ha. replace (dpos d - dpos d) with 0 by lia.
           destruct (length (contents (dring d)) <? dpos d); reflexivity.
      * destruct (Nat.eqb_spec (dcurr d) 0) as [|_]; [contradiction|]. cbn [orb].
        destruct (crop_front_spec d (dcurr d) (dpos d - dcurr d) Hq) as (d' & E & Hi & Ha).
        unfold crop_front in E. rewrite E. exists d'. split; [reflexivity|]. split; [assumption|].
        rewrite Ha. destruct (length (contents (dring d)) <? dcurr d); reflexivity.
    + destruct (Nat.eqb_spec (dcurr d) 0) as [|_]; [contradiction|]. cbn [orb].
      destruct (crop_front_spec d (dcurr d) (dpos d) Hq) as (d' & E & Hi & Ha).
      unfold crop_front in E. rewrite E. exists d'. split; [reflexivity|]. split; [assumption|].
      rewrite Ha. destruct (length (contents (dring d)) <? dcurr d); reflexivity.
Qed.

(* ---------- mpt_queue_recv, raw branch ---------- *)
Definition out_of {A} (r : res A) (f : A -> qout) : qout :=
  match r with Ok a => f a | Err e => ORefused e | Fault => OFault end.

Lemma drecv_spec d : dinv d ->
  forall d' r, drecv d = (d', r) ->
  r <> Fault /\ dinv d' /\
  ds_recv (dabs d) (err_of (out_of r (fun k => OCount k []))) = (dabs d', out_of r (fun k => OCount k [])).
Proof.
  intros Hq d' r. unfold drecv, ds_recv. cbn [dabs scurr spos slen sctx dsc dscap smsg].
  unfold dinv in Hq. rewrite contents_length by assumption.
  destruct (Nat.eqb_spec (qlen (dring d)) 0) as [Hz|Hz].
  - intros E; inversion E; subst; clear E. split; [discriminate|]. split; [assumption|]. reflexivity.
  - set (done := dpos d + match dmsg d with Some m => m | None => dlen d end).
    destruct (Nat.ltb_spec (qlen (dring d)) done) as [Hd|Hd].
    + intros E; inversion E; subst; clear E. split; [discriminate|]. split; [assumption|]. reflexivity.
    + destruct (dmsg d) as [m|] eqn:Hm.
      * match goal with |- context [dshift ?x] => destruct (dshift_spec x Hq) as (d2 & E2 & Hi2 & Ha2) end.
        rewrite E2. intros E; inversion E; subst; clear E.
        split; [discriminate|]. split; [assumption|]. cbn [out_of err_of]. rewrite Ha2. reflexivity.
      * match goal with |- context [dshift ?x] => destruct (dshift_spec x Hq) as (d2 & E2 & Hi2 & Ha2) end.
        rewrite E2. intros E; inversion E; subst; clear E.
        split; [discriminate|]. split; [assumption|]. cbn [out_of err_of]. rewrite Ha2. reflexivity.
Qed.

(* ---------- mpt_queue_peek, raw branch ---------- *)
Lemma dpeek_spec d max h : dinv d ->
  let c := contents (dring d) in
  let off := dpos d + match dmsg d with Some m => m | None => 0 end in
  if (length c =? 0) || (length c <? off) then exists e, dpeek d max h = Err e
  else dpeek d max h =
       Ok (if h then (length (firstn max (skipn off c)), firstn max (skipn off c)) else (length c - off, [])).
Proof.
  intros Hq c off. unfold dinv in Hq. subst c. unfold dpeek. fold off.
  rewrite contents_length by assumption.
  destruct (dfrags_contents (dring d) Hq) as (Hfin & Hfb).
  pose proof (frag_total_length _ _ Hfin) as Hft. rewrite Hfb, contents_length in Hft by assumption.
  rewrite <- Hft.
  destruct (Nat.eqb_spec (qlen (dring d)) 0) as [Hz|Hz]; cbn [orb]; [eexists; reflexivity|].
  destruct h; cbn [negb].
  - destruct (Nat.ltb_spec (qlen (dring d)) off) as [Ho|Ho].
    + destruct (Nat.eqb_spec off 0); [lia|]. cbn [negb andb]. eexists; reflexivity.
    + replace (negb (off =? 0) && false) with false by (destruct (off =? 0); reflexivity).
      rewrite (frag_rd_spec _ _ Hfin), Hfb. reflexivity.
  - destruct (Nat.ltb_spec (qlen (dring d)) off) as [Ho|Ho];
    destruct (Nat.leb_spec off (qlen (dring d))); try lia; [eexists; reflexivity|reflexivity].
Qed.

(* ---------- mpt_message_get + reading the message ---------- *)
Lemma one_frag q p m b : qinv q -> p + m <= qlen q -> b + m <= qmax q ->
  (forall i, i < m -> b + i = cidx q (p + i)) ->
  frag_rd (qbuf q) [(b, m)] 0 m = Ok (slice p m (contents q)).
Proof.
  intros Hq Hp Hb Hi. pose proof Hq as (Hl & _ & _).
  rewrite frag_rd_spec by (repeat constructor; cbn; lia).
  unfold fbytes. cbn [map concat fst snd skipn]. rewrite app_nil_r. f_equal.
  apply (nth_ext' _ _ 0%N).
  - rewrite firstn_length, !length_slice by (rewrite ?contents_length by assumption; lia). lia.
  - intros i Hlt. rewrite firstn_length, length_slice in Hlt by lia.
    rewrite nth_firstn' by lia. rewrite nth_slice by lia.
    rewrite nth_contents_slice by (assumption || lia). f_equal. apply Hi. lia.
Qed.

Lemma two_frags q p m b1 u1 u2 : qinv q -> p + m <= qlen q -> m = u1 + u2 ->
  b1 + u1 <= qmax q -> u2 <= qmax q ->
  (forall i, i < u1 -> b1 + i = cidx q (p + i)) ->
  (forall i, i < u2 -> i = cidx q (p + u1 + i)) ->
  frag_rd (qbuf q) [(b1, u1); (0, u2)] 0 m = Ok (slice p m (contents q)).
Proof.
  intros Hq Hp Hm Hb1 Hb2 H1 H2. pose proof Hq as (Hl & _ & _).
  rewrite frag_rd_spec by (repeat constructor; cbn; lia).
  unfold fbytes. cbn [map concat fst snd skipn]. rewrite app_nil_r. f_equal.
  apply (nth_ext' _ _ 0%N).
  - rewrite firstn_length, app_length, !length_slice by (rewrite ?contents_length by assumption; lia). lia.
  - intros i Hlt. rewrite firstn_length, app_length, !length_slice in Hlt by lia.
    rewrite nth_firstn' by lia. rewrite nth_app, length_slice by lia.
    rewrite nth_contents_slice by (assumption || lia).
    destruct (Nat.ltb_spec i u1) as [Hi|Hi].
    + rewrite nth_slice by lia. f_equal. apply H1. lia.
    + rewrite nth_slice by lia. f_equal. cbn [Nat.add]. rewrite (H2 (i - u1)) by lia. f_equal. lia.
Qed.

Lemma mget_spec q p m h : qinv q ->
  match mget q p m h with
  | Ok fr => p + m <= qlen q /\ frag_rd (qbuf q) fr 0 m = Ok (slice p m (contents q))
  | Err _ => qlen q < p + m \/ h = false
  | Fault => False
  end.
Proof.
  intros Hq. pose proof Hq as (Hb & Hl & Ho). unfold mget, qdata.
  destruct (Nat.ltb_spec (qmax q - qoff q) (qlen q)) as [Hw|Hw].
  - (* two data segments *)
    destruct (Nat.ltb_spec p (qmax q - qoff q)) as [Hp|Hp]; cbn [bind].
    + destruct (Nat.ltb_spec (qmax q - qoff q - p + (qlen q - (qmax q - qoff q))) m) as [Ht|Ht]; [left; lia|].
      destruct (Nat.leb_spec m (qmax q - qoff q - p)) as [Hf|Hf].
      * split; [lia|]. apply one_frag; try assumption; try lia.
        intros i Hi. unfold cidx. destruct (Nat.ltb_spec (qoff q + (p + i)) (qmax q)); lia.
      * destruct h; cbn [negb]; [|right; reflexivity].
        split; [lia|]. apply two_frags; try assumption; try lia.
        -- intros i Hi. unfold cidx. destruct (Nat.ltb_spec (qoff q + (p + i)) (qmax q)); lia.
        -- intros i Hi. unfold cidx. destruct (Nat.ltb_spec (qoff q + (p + (qmax q - qoff q - p) + i)) (qmax q)); lia.
    + destruct (Nat.ltb_spec (qlen q - (qmax q - qoff q)) (p - (qmax q - qoff q))) as [Hh|Hh]; cbn [bind]; [left; lia|].
      destruct (Nat.ltb_spec (qlen q - (qmax q - qoff q) - (p - (qmax q - qoff q)) + 0) m) as [Ht|Ht]; [left; lia|].
      destruct (Nat.leb_spec m (qlen q - (qmax q - qoff q) - (p - (qmax q - qoff q)))) as [Hf|Hf]; [|lia].
      split; [lia|]. apply one_frag; try assumption; try lia.
      intros i Hi. unfold cidx. destruct (Nat.ltb_spec (qoff q + (p + i)) (qmax q)); lia.
  - (* one data segment *)
    replace (qlen q - qlen q) with 0 by lia.
    destruct (Nat.ltb_spec p (qlen q)) as [Hp|Hp]; cbn [bind].
    + destruct (Nat.ltb_spec (qlen q - p + 0) m) as [Ht|Ht]; [left; lia|].
      destruct (Nat.leb_spec m (qlen q - p)) as [Hf|Hf]; [|lia].
      split; [lia|]. apply one_frag; try assumption; try lia.
      intros i Hi. unfold cidx. destruct (Nat.ltb_spec (qoff q + (p + i)) (qmax q)); lia.
    + destruct (Nat.ltb_spec 0 (p - qlen q)) as [Hh|Hh]; cbn [bind]; [left; lia|].
      destruct (Nat.ltb_spec (0 - (p - qlen q) + 0) m) as [Ht|Ht]; [left; lia|].
      destruct (Nat.leb_spec m (0 - (p - qlen q))) as [Hf|Hf]; [|lia].
      split; [lia|]. assert (m = 0) by lia. subst m.
      unfold frag_rd. cbn. unfold slice. reflexivity.
Qed.

(* ---------- every operation, every history ---------- *)
Definition dstep_ok (d : dqueue) (o : dop) : Prop :=
  let '(d', out) := dstep d o in
  out <> OFault /\ dinv d' /\
  dsstep (dabs d) o (accepted out) (err_of out) (len_of out) = (dabs d', out).

Lemma dstep_recv d : dinv d -> dstep_ok d DRecv.
Proof.
  intros Hq. unfold dstep_ok, dstep, dsstep.
  destruct (drecv d) as [d' r] eqn:E. destruct (drecv_spec d Hq d' r E) as (Hnf & Hi & Hs).
  destruct r as [k|e|]; [| |contradiction]; cbn [out_of err_of] in *;
    (split; [discriminate|]); (split; [assumption|]); assumption.
Qed.

Lemma dstep_peek d max h : dinv d -> dstep_ok d (DPeek max h).
Proof.
  intros Hq. unfold dstep_ok, dstep, dsstep. cbn [dabs dsc spos smsg].
  pose proof (dpeek_spec d max h Hq) as H. cbv zeta in H.
  destruct ((length (contents (dring d)) =? 0) ||
            (length (contents (dring d)) <? dpos d + match dmsg d with Some m => m | None => 0 end)).
  - destruct H as (e & ->). split; [discriminate|]. split; [assumption|]. reflexivity.
  - rewrite H. destruct h; (split; [discriminate|]); (split; [assumption|]); reflexivity.
Qed.

Lemma dstep_shift d : dinv d -> dstep_ok d DShift.
Proof.
  intros Hq. unfold dstep_ok, dstep, dsstep.
  destruct (dshift_spec d Hq) as (d' & -> & Hi & Ha).
  split; [discriminate|]. split; [assumption|]. rewrite Ha. reflexivity.
Qed.

Lemma dstep_advance d : dinv d -> dstep_ok d DAdvance.
Proof.
  intros Hq. unfold dstep_ok, dstep, dsstep, dadvance.
  destruct (drecv d) as [d1 r] eqn:E. destruct (drecv_spec d Hq d1 r E) as (Hnf & Hi & Hs).
  destruct r as [k|e|]; [| |contradiction]; cbn [out_of err_of] in *.
  - destruct (dshift_spec d1 Hi) as (d2 & -> & Hi2 & Ha2).
    split; [discriminate|]. split; [assumption|]. cbn [accepted err_of].
    replace (ds_recv (dabs d) BadArgument) with (dabs d1, OCount k []) by (symmetry; exact Hs).
    rewrite Ha2. reflexivity.
  - split; [discriminate|]. split; [assumption|]. cbn [accepted err_of]. rewrite Hs. reflexivity.
Qed.

Lemma dstep_current d h : dinv d -> dstep_ok d (DCurrent h).
Proof.
  intros Hq. unfold dstep_ok, dstep, dsstep, dcurrent. cbn [dabs dsc spos smsg].
  unfold dinv in Hq. rewrite contents_length by assumption.
  destruct (dmsg d) as [m|].
  - pose proof (mget_spec (dring d) (dpos d) m h Hq) as H.
    destruct (mget (dring d) (dpos d) m h) as [fr|e|]; cbn [bind]; [| |contradiction].
    + destruct H as (Hp & ->). cbn [accepted].
      destruct (Nat.leb_spec (dpos d + m) (qlen (dring d))); [|lia]. rewrite orb_true_r. cbn [andb].
      split; [discriminate|]. split; [assumption|]. reflexivity.
    + cbn [accepted err_of]. split; [discriminate|]. split; [assumption|].
      destruct H as [H|H].
      * destruct (Nat.leb_spec (dpos d + m) (qlen (dring d))); [lia|]. reflexivity.
      * subst h. cbn [orb]. rewrite andb_false_r. reflexivity.
  - split; [discriminate|]. split; [assumption|]. reflexivity.
Qed.

Lemma dstep_q d o : dinv d -> dstep_ok d (DQ o).
Proof.
  intros Hq. unfold dstep_ok, dstep, dsstep. cbn [dabs dsc dscap scurr spos slen smsg sctx].
  pose proof (qstep_refines (dring d) o Hq) as H. unfold step_ok in H.
  destruct (qstep (dring d) o) as [q' out]. destruct H as (Hnf & Hq' & Hs).
  unfold abs in Hs. rewrite Hs. split; [assumption|]. split; [assumption|]. reflexivity.
Qed.

Theorem dstep_refines d o : dinv d -> dstep_ok d o.
Proof.
  intros Hq. destruct o.
  - unfold dstep_ok, dstep, dsstep. split; [discriminate|]. split; [assumption|]. reflexivity.
  - apply dstep_recv; assumption.
  - apply dstep_peek; assumption.
  - apply dstep_shift; assumption.
  - apply dstep_advance; assumption.
  - apply dstep_current; assumption.
  - apply dstep_q; assumption.
Qed.

Theorem drun_refines ops : forall d, dinv d ->
  drun d ops = dsrun d (dabs d) ops /\
  Forall (fun r => fst (fst (fst r)) <> OFault) (drun d ops).
Proof.
  induction ops as [|o ops IH]; intros d Hq; cbn [drun dsrun].
  - split; [reflexivity|constructor].
  - pose proof (dstep_refines d o Hq) as H. unfold dstep_ok in H.
    destruct (dstep d o) as [d' out]. destruct H as (Hnf & Hq' & Hs). rewrite Hs.
    destruct (IH d' Hq') as [E F]. split.
    + cbn [dabs dsc dscap scurr spos slen smsg]. f_equal. assumption.
    + constructor; assumption.
Qed.

(* ---------- property-level consequences ---------- *)

(* what a read returns are the bytes of the deque at the announced place, wherever the ring wraps *)
Lemma dec_peek_exact d max b d' : dinv d -> dstep d (DPeek max true) = (d', OBytes b) ->
  let off := dpos d + match dmsg d with Some m => m | None => 0 end in
  d' = d /\ off <= qlen (dring d) /\ b = firstn max (skipn off (contents (dring d))).
Proof.
  intros Hq E. pose proof (dstep_peek d max true Hq) as H. unfold dstep_ok in H. rewrite E in H.
  destruct H as (_ & _ & Hs). cbn [dsstep accepted err_of len_of dabs dsc spos smsg] in Hs.
  unfold dinv in Hq. rewrite contents_length in Hs by assumption. cbv zeta.
  assert (d' = d).
  { unfold dstep in E. destruct (dpeek d max true) as [[r bb]|e|]; inversion E; reflexivity. }
  subst d'. split; [reflexivity|].
  destruct (Nat.eqb_spec (qlen (dring d)) 0); cbn [orb] in Hs; [inversion Hs|].
  destruct (Nat.ltb_spec (qlen (dring d)) (dpos d + match dmsg d with Some m => m | None => 0 end));
    inversion Hs. split; [lia|reflexivity].
Qed.

Lemma dec_current_exact d h b d' : dinv d -> dstep d (DCurrent h) = (d', OBytes b) ->
  exists m, dmsg d = Some m /\ d' = d /\ dpos d + m <= qlen (dring d) /\
            b = slice (dpos d) m (contents (dring d)).
Proof.
  intros Hq E. pose proof (dstep_current d h Hq) as H. unfold dstep_ok in H. rewrite E in H.
  destruct H as (_ & _ & Hs). cbn [dsstep accepted err_of len_of dabs dsc spos smsg] in Hs.
  unfold dinv in Hq. rewrite contents_length in Hs by assumption.
  assert (d' = d).
  { unfold dstep in E. destruct (dcurrent d h) as [bb|e|]; inversion E; reflexivity. }
  subst d'. destruct (dmsg d) as [m|]; [|inversion Hs].
  exists m. split; [reflexivity|]. split; [reflexivity|].
  destruct (Nat.leb_spec (dpos d + m) (qlen (dring d))); cbn [andb] in Hs; [|inversion Hs].
  rewrite orb_true_r in Hs. inversion Hs. split; [assumption|reflexivity].
Qed.

(* a delivered message that lies inside the content is always handed out when the caller
   provides room for a second part *)
Lemma dec_current_complete d m : dinv d -> dmsg d = Some m -> dpos d + m <= qlen (dring d) ->
  dstep d (DCurrent true) = (d, OBytes (slice (dpos d) m (contents (dring d)))).
Proof.
  intros Hq Hm Hp. unfold dstep, dcurrent. rewrite Hm.
  pose proof (mget_spec (dring d) (dpos d) m true Hq) as H.
  destruct (mget (dring d) (dpos d) m true) as [fr|e|]; cbn [bind]; [| |contradiction].
  - destruct H as (_ & ->). reflexivity.
  - destruct H as [H|H]; [lia|discriminate].
Qed.

(* the decode layer itself (recv, peek, shift, advance, current_message) never alters stored
   bytes: all it does to the content is to drop at most [curr] consumed bytes at the front *)
Lemma ds_shift_suffix s : exists k, k <= scurr s /\ dsc (ds_shift s) = skipn k (dsc s) /\
  dscap (ds_shift s) = dscap s /\ scurr (ds_shift s) = scurr s - k.
Proof.
  unfold ds_shift. destruct (Nat.eqb_spec (scurr s) 0).
  - exists 0. cbn [skipn]. repeat split; lia.
  - set (k := if _ && (spos s <? scurr s) then spos s else scurr s).
    assert (Hk : k <= scurr s).
    { unfold k. destruct (_ && (spos s <? scurr s)) eqn:Hb; [|lia].
      apply andb_prop in Hb. destruct Hb as [_ Hb]. apply Nat.ltb_lt in Hb. lia. }
    destruct ((k =? 0) || (length (dsc s) <? k)).
    + exists 0. cbn [skipn]. repeat split; lia.
    + exists k. cbn [dsc dscap scurr]. repeat split; lia.
Qed.

Lemma ds_recv_suffix s e : exists k, k <= scurr s /\ dsc (fst (ds_recv s e)) = skipn k (dsc s) /\
  dscap (fst (ds_recv s e)) = dscap s /\ scurr (fst (ds_recv s e)) = scurr s - k.
Proof.
  unfold ds_recv. destruct (length (dsc s) =? 0).
  - exists 0. cbn. repeat split; lia.
  - destruct (length (dsc s) <? _).
    + exists 0. cbn. repeat split; lia.
    + cbn [fst]. match goal with |- context [ds_shift ?x] => destruct (ds_shift_suffix x) as (k & H) end.
      exists k. exact H.
Qed.

Definition is_dq (o : dop) : bool := match o with DQ _ => true | _ => false end.

Lemma dec_only_consumes d o : dinv d -> is_dq o = false ->
  exists k, k <= dcurr d /\
    contents (dring (fst (dstep d o))) = skipn k (contents (dring d)) /\
    qmax (dring (fst (dstep d o))) = qmax (dring d).
Proof.
  intros Hq Ho. pose proof (dstep_refines d o Hq) as H. unfold dstep_ok in H.
  destruct (dstep d o) as [d' out]. destruct H as (_ & _ & Hs). cbn [fst].
  assert (Hd : contents (dring d') = dsc (fst (dsstep (dabs d) o (accepted out) (err_of out) (len_of out))) /\
               qmax (dring d') = dscap (fst (dsstep (dabs d) o (accepted out) (err_of out) (len_of out))))
    by (rewrite Hs; split; reflexivity).
  destruct Hd as [-> ->]. clear Hs.
  change (dcurr d) with (scurr (dabs d)). change (contents (dring d)) with (dsc (dabs d)).
  change (qmax (dring d)) with (dscap (dabs d)).
  generalize (dabs d) as s. intros s.
  destruct o; try discriminate; unfold dsstep.
  - exists 0. cbn. repeat split; lia.
  - destruct (ds_recv_suffix s (err_of out)) as (k & H1 & H2 & H3 & _). exists k. repeat split; assumption.
  - exists 0. destruct (_ || _); [|destruct hasdst]; cbn; repeat split; lia.
  - destruct (ds_shift_suffix s) as (k & H1 & H2 & H3 & _). exists k. cbn [fst]. repeat split; assumption.
  - destruct (ds_recv_suffix s (err_of out)) as (k & H1 & H2 & H3 & H4).
    destruct (ds_recv s (err_of out)) as [s1 o1]. cbn [fst] in *.
    destruct o1; try (exists k; cbn [fst]; repeat split; assumption).
    destruct (ds_shift_suffix s1) as (k2 & K1 & K2 & K3 & _). exists (k2 + k). cbn [fst].
    rewrite K2, H2, K3, H3, skipn_skipn'. repeat split; lia.
  - exists 0. destruct (smsg s); [destruct (_ && _)|]; cbn; repeat split; lia.
Qed.

(* a decode_queue that starts as its constructor leaves it (no message, nothing consumed) never
   offers a message in raw mode, whatever arrives: mpt_queue_recv only moves the window *)
Definition is_dset (o : dop) : bool := match o with DSet _ _ _ _ _ => true | _ => false end.

Lemma raw_idle_step d o : dmsg d = None -> dcurr d = 0 -> is_dset o = false ->
  dmsg (fst (dstep d o)) = None /\ dcurr (fst (dstep d o)) = 0.
Proof.
  intros Hm Hc Ho. destruct d as [q cu p l mg x]. cbn [dmsg dcurr] in Hm, Hc. subst mg cu.
  destruct o; try discriminate; unfold dstep.
  - unfold drecv. cbn [dring dcurr dpos dlen dmsg dctx].
    destruct (qlen q =? 0); [cbn; split; reflexivity|].
    destruct (qlen q <? p + l); cbn; split; reflexivity.
  - destruct (dpeek _ _ _) as [[r b]|e|]; cbn; split; reflexivity.
  - cbn. split; reflexivity.
  - unfold dadvance, drecv. cbn [dring dcurr dpos dlen dmsg dctx].
    destruct (qlen q =? 0); [cbn; split; reflexivity|].
    destruct (qlen q <? p + l); cbn; split; reflexivity.
  - destruct (dcurrent _ _) as [b|e|]; cbn; split; reflexivity.
  - destruct (qstep _ _) as [q' out]. cbn. split; reflexivity.
Qed.

Lemma raw_never_offers ops : forall d, dmsg d = None -> dcurr d = 0 ->
  forallb (fun o => negb (is_dset o)) ops = true ->
  Forall (fun r : dobs => let '(_, _, _, (cu, _, _, mg)) := r in cu = 0 /\ mg = None) (drun d ops).
Proof.
  induction ops as [|o ops IH]; intros d Hm Hc Hall; cbn [drun]; [constructor|].
  cbn [forallb] in Hall. apply andb_prop in Hall. destruct Hall as [Ho Hall].
  apply negb_true_iff in Ho.
  destruct (raw_idle_step d o Hm Hc Ho) as (Hm' & Hc').
  destruct (dstep d o) as [d' out]. cbn [fst] in *. constructor.
  - split; assumption.
  - apply IH; assumption.
Qed.
