(* C19 — Value generators follow the iterator protocol and their formulas.
   This file holds only the property theorems (each closed by [exact] of a lemma
   proved elsewhere), their non-vacuity examples and Print Assumptions.

   Reading guide.
   [src] is the mechanism state of one iterator (IterModel.v, transcribed from
   iterator_linear/factor/boundary/poly/values.c, iterator_string.c, meta_buffer.c):
   pos/elem counters, the running product of the factor iterator, the cached value
   of the polynomial iterator, text offsets of the value list, slice offsets of the
   buffer iterators.  [it_value/it_advance/it_reset/it_clone] are the vtable calls,
   [it_walk] is the documented loop of examples/iter.c.  All formulas use the
   arithmetic [rnd : Q -> fv]; every theorem holds for EVERY [rnd] (binary64 rounding,
   exact arithmetic, anything), counts are in N and unbounded.
   [abs s] (IterSpec.v) is the cursor the state stands for: the denoted sequence
   ([d_at] by index for counted sources, an explicit element list for texts and
   buffers) and a position; [remaining c] is what is still to come, [denoted c] the
   whole sequence (what remains after a reset).  [inv] is the invariant every state
   produced by a constructor and any calls satisfies (pos <= elem, running product =
   closed product, cache = value of the current position, text offset on the chain of
   parsed numbers, slice = one segment of the buffer).
   [nostr s]: every kind except the text iterator of iterator_string.c (whose cursor
   [CStr] knows the end of an element only after it was read; it has its own walk
   theorem and is covered by C19_history_refines / C19_clone_refines);
   [numeric s]: the kinds whose elements are numbers. *)
From Coq Require Import ZArith NArith QArith List Bool.
From MptV Require Import C19.IterModel C19.IterSpec C19.IterProofs C19.IterText C19.IterString C19.IterRefine
  C19.IterClosed C19.IterGrammar C19.IterGrammarC C19.IterProfile C19.IterDenote C19.IterAccept C19.IterFeed C19.IterKey.
Import ListNotations.

(* The documented loop - read the current value, advance, stop when advance reports
   no further element - started anywhere yields exactly the elements still to come,
   in order, and stops: cleanly ([WDone], nothing remains) or, for a value list
   followed by unreadable text, with the refusal of the last advance. *)
Theorem C19_walk_visits_exactly :
  forall (rnd : Q -> fv) fuel s, inv rnd s -> numeric s = true ->
    (length (remaining rnd (abs s)) <= fuel)%nat -> remaining rnd (abs s) <> [] ->
    let '(l, e, s') := it_walk rnd fuel s [] in
    map velem l = remaining rnd (abs s) /\ inv rnd s' /\
    (if s_bad (abs s) then exists c, e = WAdvErr c /\ (c < 0)%Z
     else e = WDone /\ remaining rnd (abs s') = []).
Proof. exact walk_visits_exactly. Qed.

Theorem C19_walk_of_nothing :
  forall (rnd : Q -> fv) fuel s, inv rnd s -> numeric s = true -> remaining rnd (abs s) = [] ->
    it_walk rnd (S fuel) s [] = ([], WNoValue, s).
Proof. exact walk_empty. Qed.

(* Past the end: no value, advancing is refused with an error code, the state is unchanged. *)
Theorem C19_past_end_reported :
  forall (rnd : Q -> fv) s, inv rnd s -> nostr s = true -> remaining rnd (abs s) = [] ->
    it_value rnd s = (VNone, s) /\ exists c, (c < 0)%Z /\ it_advance rnd s = (c, s).
Proof. exact past_end_reported. Qed.

(* Reset succeeds (non-negative result) from every reachable state and puts the whole
   denoted sequence ahead again; value/advance never change what is denoted. *)
Theorem C19_reset_replays :
  forall (rnd : Q -> fv) s, inv rnd s -> nostr s = true ->
    let (r, s') := it_reset s in
    (0 <= r)%Z /\ inv rnd s' /\ nostr s' = true /\
    remaining rnd (abs s') = denoted rnd (abs s) /\ denoted rnd (abs s') = denoted rnd (abs s) /\
    s_bad (abs s') = s_bad (abs s).
Proof. exact reset_replays. Qed.

Theorem C19_denoted_stable :
  forall (rnd : Q -> fv) s, inv rnd s -> nostr s = true ->
    denoted rnd (abs (snd (it_value rnd s))) = denoted rnd (abs s) /\
    denoted rnd (abs (snd (it_advance rnd s))) = denoted rnd (abs s).
Proof. exact denoted_stable. Qed.

(* A clone (where offered) is the identical machine state, hence replays identically. *)
Theorem C19_clone_replays :
  forall s c, nostr s = true -> it_clone s = Some c ->
    c = s /\ abs c = abs s /\ s_clone (abs s) = Some (abs c).
Proof. exact clone_replays. Qed.

(* Any interleaving of value/advance/reset/clone and skip (mpt_iterator_consume(it, 0, 0)) on the
   source and its clone, for EVERY kind including the text iterator: results correspond call by
   call to the cursor's ([omatch]: same element / none, return code of advance in the class the
   cursor reports, reset >= 0, clone offered alike, skip = advance whose result is negative exactly
   when the advance is refused and else tells whether there was an element). *)
Theorem C19_history_refines :
  forall (rnd : Q -> fv) ops st cst,
    srel rnd (fst st) (fst cst) -> srel rnd (snd st) (snd cst) -> forallb prim ops = true ->
    Forall2 omatch (mrun rnd st ops) (srun rnd cst ops).
Proof. exact history_refines. Qed.

(* Every constructor result satisfies the invariant and stands at the first element. *)
Theorem C19_build_fresh :
  forall (rnd : Q -> fv) d s, build rnd d = Some s ->
    inv rnd s /\ nostr s = true /\ remaining rnd (abs s) = denoted rnd (abs s).
Proof. exact build_fresh. Qed.

Theorem C19_buffer_fresh : forall d args, inv_buf (mk_buffer d args).
Proof. exact mk_buffer_inv. Qed.
Theorem C19_text_fresh : forall sep t, inv_str (mk_string_sep sep t).
Proof. exact mk_string_sep_inv_str. Qed.

(* Clone of any kind: the clone stands for the cursor the specification's clone gives
   (text iterator: a cursor over the remaining text only). *)
Theorem C19_clone_refines :
  forall (rnd : Q -> fv) s, inv rnd s ->
    match it_clone s with
    | Some c => inv rnd c /\ s_clone (abs s) = Some (abs c)
    | None => s_clone (abs s) = None
    end.
Proof. exact gsim_clone. Qed.

(* Text iterator (iterator_string.c) read as numbers: the documented loop yields exactly
   the numbers of the text up to the first element that is no number, and ends with
   a conversion error there, else cleanly.  [schain t p]: read results from offset p,
   one separator byte skipped between elements. *)
Theorem C19_text_walk_visits_exactly :
  forall (rnd : Q -> fv) fuel m p, inv_str m -> s_val m = Some p ->
    (length (schain (s_text m) p) <= fuel)%nat ->
    let '(l, e, s') := it_walk rnd fuel (SStr m) [] in
    l = str_numbers (schain (s_text m) p) /\ inv rnd s' /\
    (if forallb isnum (schain (s_text m) p) then e = WDone else exists c, e = WConvErr c).
Proof. exact text_walk_visits_exactly. Qed.

(* Linear source in exact arithmetic: len elements, element i = a + i*(b-a)/(len-1)
   exactly; first = a, last = b, equal steps. *)
Theorem C19_linear_closed_form :
  forall len a b m, mk_linear rexact len (Fin a) (Fin b) = Some m ->
    (2 <= len)%N /\ l_elem m = len /\ l_pos m = 0%N /\
    forall i, lin_at rexact m i = Fin (lin_closed a b (len - 1) i).
Proof. exact linear_closed_form. Qed.

Theorem C19_linear_first : forall a b n, (lin_closed a b n 0 == a)%Q.
Proof. exact lin_closed_first. Qed.
Theorem C19_linear_last : forall a b n, (0 < n)%N -> (lin_closed a b n n == b)%Q.
Proof. exact lin_closed_last. Qed.
Theorem C19_linear_equal_steps : forall a b n i,
  (lin_closed a b n (i + 1) - lin_closed a b n i == (b - a) / (Z.of_N n # 1))%Q.
Proof. exact lin_closed_step. Qed.

(* mpt_iterator_create accepts EXACTLY the texts of the grammar of IterGrammar.v (blank*,
   lin|linear ( count [: a b] ), range ( a b [: step] ), fac|fact|factor ( count [: b [: f [: i]]] )
   or ( count : b :: i ), value lists, empty text), with the count and numbers standing at the
   named positions of the text; the grammar is unambiguous.  The tokens are what the libc table
   answers at that offset through mpt_cuint32 / mpt_cdouble, so no assumption on the table is needed. *)
Theorem C19_accepted_iff_in_grammar :
  forall rnd t d, parse_create rnd (Some t) = Some d <-> create_form rnd t d.
Proof. exact create_iff. Qed.

Theorem C19_malformed_refused :
  forall rnd t, (forall d, ~ create_form rnd t d) -> parse_create rnd (Some t) = None.
Proof. exact malformed_refused. Qed.

Theorem C19_grammar_unambiguous :
  forall rnd t d1 d2, create_form rnd t d1 -> create_form rnd t d2 -> d1 = d2.
Proof. exact create_form_unique. Qed.

(* Profile descriptions (iterator_profile.c: lin / bound / poly over a grid) and polynomial
   descriptions (iterator_poly.c: longest run of <= 128 coefficients, shifts behind the first ':'):
   parser = grammar of IterProfile.v, both directions. *)
Theorem C19_profile_iff_in_grammar :
  forall grid t d, parse_profile grid (Some t) = Some d <-> profile_form grid t d.
Proof. exact profile_iff. Qed.

Theorem C19_poly_accepted_in_grammar :
  forall t p grid d, poly_of_text (Some t) p grid = Some d -> poly_form t p grid d.
Proof. exact poly_sound. Qed.
Theorem C19_poly_in_grammar_accepted :
  forall t p grid d, poly_form t p grid d -> poly_of_text (Some t) p grid = Some d.
Proof. exact poly_complete. Qed.

(* What a description denotes: the source a constructor builds from it denotes exactly the
   sequence [desc_denotes] writes down by count and formula (for every arithmetic). *)
Theorem C19_build_denotes :
  forall (rnd : Q -> fv) d s, build rnd d = Some s -> desc_denotes rnd d (denoted rnd (abs s)).
Proof. exact build_denotes. Qed.

(* Accepted text => in the grammar, denotes that sequence, and the iterator stands at its start. *)
Theorem C19_created_denotes :
  forall (rnd : Q -> fv) t s, create rnd (Some t) = Some s ->
    exists d, create_form rnd t d /\ desc_denotes rnd d (denoted rnd (abs s)) /\
              inv rnd s /\ remaining rnd (abs s) = denoted rnd (abs s).
Proof. exact created_denotes. Qed.

Theorem C19_profile_denotes :
  forall (rnd : Q -> fv) grid t s, profile rnd grid (Some t) = Some s ->
    exists d, profile_form grid t d /\ desc_denotes rnd d (denoted rnd (abs s)) /\
              inv rnd s /\ remaining rnd (abs s) = denoted rnd (abs s).
Proof. exact profile_denotes. Qed.

(* Polynomial element in exact arithmetic: sum_j m_j (x + s_j)^(n-1-j). *)
Theorem C19_poly_exact :
  forall cs x, cs <> [] -> exists q,
    poly_eval rexact (map fin2 cs) (Fin x) = Fin q /\ (q == qpoly cs x)%Q.
Proof. exact poly_exact. Qed.

(* mpt_values_linear / mpt_values_bound: for points >= 2 one write per element, element i at
   index i*ld, first = min/left, last = max/right, interior min + i*dv resp. the middle value;
   in exact arithmetic element i is the closed form; one point / no point spelled out. *)
Theorem C19_values_linear_spec :
  forall (rnd : Q -> fv) points ld mn mx, (2 <= points)%Z ->
    values_linear rnd points ld mn mx =
    map (fun i => ((Z.of_nat i * ld)%Z, vlin_at rnd points mn mx i)) (seq 0 (Z.to_nat points)).
Proof. exact values_linear_spec. Qed.
Theorem C19_values_bound_spec :
  forall (rnd : Q -> fv) points ld l c r, (2 <= points)%Z ->
    values_bound rnd points ld l c r =
    map (fun i => ((Z.of_nat i * ld)%Z, vbound_at points l c r i)) (seq 0 (Z.to_nat points)).
Proof. exact values_bound_spec. Qed.
Theorem C19_values_small :
  forall (rnd : Q -> fv) ld mn mx l c r,
    values_linear rnd 1 ld mn mx = [(0%Z, mn); (0%Z, mx)] /\
    values_bound rnd 1 ld l c r = [(0%Z, fdiv rnd (fadd rnd (fadd rnd l c) r) (of_N 3))] /\
    (forall points, (points < 1)%Z -> values_linear rnd points ld mn mx = [] /\ values_bound rnd points ld l c r = []).
Proof. exact values_small. Qed.
Theorem C19_values_linear_exact :
  forall points a b i, (2 <= points)%Z -> (i < Z.to_nat points)%nat ->
    exists q, vlin_at rexact points (Fin a) (Fin b) i = Fin q /\
              (q == a + (Z.of_nat i # 1) * ((b - a) / (points - 1 # 1)))%Q.
Proof. exact values_linear_exact. Qed.

(* Constructors fed from another iterator (mpt_range_set, TypeIteratorPtr values), for sources
   that serve numbers: a range takes exactly the next three elements as min, max, step and leaves
   the source behind them; a count cannot be read from numbers served as double, so lin/fac are
   refused.  (Text iterators as source are modelled and compared, see notes.) *)
Theorem C19_range_from_numbers :
  forall (rnd : Q -> fv) s d s', inv rnd s -> numeric s = true -> s_bad (abs s) = false ->
    range_of_iter rnd s = (Some d, s') ->
    exists mn mx st r, remaining rnd (abs s) = EV mn :: EV mx :: EV st :: r /\ d = PRange mn mx st /\
                       remaining rnd (abs s') = r /\ inv rnd s'.
Proof. exact range_from_numbers. Qed.
Theorem C19_count_from_numbers_refused :
  forall (rnd : Q -> fv) s, numeric s = true ->
    fst (lin_of_iter rnd s) = None /\ fst (fac_of_iter rnd s) = None.
Proof. exact count_from_numbers_refused. Qed.

(* Text iterator (iterator_string.c) whose elements are read as KEYWORDS ('k', key = true) or as 'c'
   VECTORS (key = false), for every separator configuration: [absb key m] is the cursor over the
   elements the text denotes for that reader ([scan_rd]: the reader's element at a position, the next
   element behind the ONE byte that ends it).  Any interleaving of such reads (with and without
   target), advance, reset and clone on the iterator and its clone corresponds call by call to the
   cursor ([bomatch]: the bytes handed out are the element's, an unreadable element gives its error
   code, advance/reset/clone as above).  Model = code WITH docs/C19_string_vector.diff and
   docs/C19_string_key_separator.diff. *)
Theorem C19_byte_history_refines :
  forall (rnd : Q -> fv) (key : bool) ops st cst,
    brel key (fst st) (fst cst) -> brel key (snd st) (snd cst) -> forallb (bprim key) ops = true ->
    Forall2 (bomatch key) (mrun rnd st ops) (srun rnd cst ops).
Proof. exact byte_history_refines. Qed.

(* The documented loop reading keywords / vectors visits exactly the readable elements, in order,
   and ends with the conversion error of the first unreadable one, else cleanly. *)
Theorem C19_byte_walk_visits_exactly :
  forall (rnd : Q -> fv) (key : bool) fuel m full rest fl, invb key m -> absb key m = CStr full rest fl ->
    (length rest <= fuel)%nat -> rest <> [] ->
    let '(l, e, m') := str_walk_b (convb key) fuel m [] in
    map (mk_of key) l = good rest /\ invb key m' /\
    (if forallb noerr rest then e = WDone else exists c, e = WConvErr c).
Proof. exact byte_walk_visits_exactly. Qed.

Theorem C19_byte_text_fresh : forall key sep t, invb key (mk_string_sep sep t).
Proof. exact byte_text_fresh. Qed.

(* What the two readers hand out, stated without their scanning loops: separators holding a white-space
   character (the default " ,;/:"): the keyword is the longest run of bytes that are neither white
   space, separator nor end behind the leading white space, and the element ends at the FIRST byte
   behind it; vector: leading white space + the next word, ended by white space or the end of the text. *)
Theorem C19_key_element :
  forall sep t p rs b, existsb isspace sep = true -> rd_key sep t p = ROk rs b ->
    let k := skip_space_at t p in
    (k <= rs)%nat /\ b = firstn (rs - k) (skipn k (t_bytes t)) /\ forallb (keych sep) b = true /\
    (byte_at t rs = 0%N \/ isspace (byte_at t rs) = true \/ is_sep sep (byte_at t rs) = true).
Proof. exact key_element. Qed.
Theorem C19_vector_element :
  forall t p rs b, rd_vec t p = ROk rs b ->
    let k := skip_space_at t p in
    (k <= rs)%nat /\ b = firstn (rs - p) (skipn p (t_bytes t)) /\
    forallb wordch (firstn (rs - k) (skipn k (t_bytes t))) = true /\
    (byte_at t rs = 0%N \/ isspace (byte_at t rs) = true).
Proof. exact vector_element. Qed.

(* Segments of a buffer are no numbers: mpt_iterator_consume(.., 'd') and the documented loop are
   refused at once and leave the iterator where it is. *)
Theorem C19_buffer_no_numbers :
  forall (rnd : Q -> fv) m fuel,
    (buf_value m = VNone -> it_consume rnd (SBuf m) = (MissingData, None, SBuf m) /\
                            it_walk rnd (S fuel) (SBuf m) [] = ([], WNoValue, SBuf m)) /\
    (buf_value m <> VNone -> it_consume rnd (SBuf m) = (BadType, None, SBuf m) /\
                             it_walk rnd (S fuel) (SBuf m) [] = ([], WConvErr BadType, SBuf m)).
Proof. exact buffer_no_numbers. Qed.

(* mpt_range_set (range_set.c).  Iterator value, source of numbers: the next two elements become min and
   max, the source is left behind them; fewer than two: refused, range untouched.  Vector of doubles:
   exactly two complete elements (16..23 bytes), a null base gives 0..1; anything else BadValue, untouched.
   Null iterator pointer: 0..1; other types: BadType, untouched. *)
Theorem C19_range_set_from_numbers :
  forall (rnd : Q -> fv) s mn mx, inv rnd s -> numeric s = true -> s_bad (abs s) = false ->
    let '(r, a, b, s') := range_set rnd s mn mx in
    match remaining rnd (abs s) with
    | x :: y :: rest => r = 2%Z /\ x = EV a /\ y = EV b /\ remaining rnd (abs s') = rest /\ inv rnd s'
    | _ => (r < 0)%Z /\ a = mn /\ b = mx
    end.
Proof. exact range_set_from_numbers. Qed.
Theorem C19_range_set_vector :
  forall bytes base mn mx,
    range_set_val (RSVec bytes base) mn mx =
    if ((16 <=? bytes) && (bytes <? 24))%N
    then match base with Some l => (0%Z, nth 0 l NaN, nth 1 l NaN) | None => (0%Z, Fin 0, of_N 1) end
    else (BadValue, mn, mx).
Proof. exact range_set_vector. Qed.
Theorem C19_range_set_other :
  forall mn mx,
    range_set_val RSNoIter mn mx = (0%Z, Fin 0, of_N 1) /\
    range_set_val RSVecNull mn mx = (BadValue, mn, mx) /\ range_set_val RSOther mn mx = (BadType, mn, mx).
Proof. exact range_set_other. Qed.

(* ---- non-vacuity *)
Definition ex_lin : lin := {| l_base := Fin 0; l_step := dyadic 1 (-2); l_elem := 5; l_pos := 2 |}.
Example C19_ex_inv : inv rnd64 (SLin ex_lin).
Proof. vm_compute. discriminate. Qed.
Example C19_ex_remaining :
  remaining rnd64 (abs (SLin ex_lin)) = [EV (Fin (1#2)); EV (Fin (3#4)); EV (Fin 1)].
Proof. vm_compute. reflexivity. Qed.
Example C19_ex_walk :
  fst (fst (it_walk rnd64 10 (SLin ex_lin) [])) = [Some (Fin (1#2)); Some (Fin (3#4)); Some (Fin 1)].
Proof. vm_compute. reflexivity. Qed.
(* binary64: 1/3 is rounded, the count is not *)
Example C19_ex_rounding :
  option_map (fun m => (l_elem m, l_step m)) (mk_linear rnd64 4 (Fin 0) (Fin 1))
  = Some (4%N, Fin (6004799503160661 # 18014398509481984)).
Proof. vm_compute. reflexivity. Qed.
(* factor iterator: init, base, base*fact, ... and a reset in the middle *)
Example C19_ex_factor :
  mrun rnd64 (Some (SFac (mk_factor (Fin 2) (Fin 3) (Fin 1) 4)), None)
       [(OWalk, false); (OReset, false); (OAdvance, false); (OClone, false); (OWalk, true)]
  = [OutW [Some (Fin 1); Some (Fin 2); Some (Fin 6); Some (Fin 18)] WDone; OutR 4; OutA T_d; OutK true;
     OutW [Some (Fin 2); Some (Fin 6); Some (Fin 18)] WDone].
Proof. vm_compute. reflexivity. Qed.
(* "lin(3:0 1)" with the libc answers at the offsets the parser asks *)
Definition ex_text : text :=
  {| t_bytes := [108;105;110;40;51;58;48;32;49;41]%N;
     t_d := [dnone;dnone;dnone;dnone;dnone;dnone;
             {| IterModel.d_len := 1; d_ovf := false; d_val := Fin 0 |};
             {| IterModel.d_len := 2; d_ovf := false; d_val := Fin 1 |}];
     t_u := [unone;unone;unone;unone; {| u_len := 1; u_rng := false; u_val := 3 |}] |}.
Example C19_ex_parse : parse_create rnd64 (Some ex_text) = Some (PLin 4 (Fin 0) (Fin 1)).
Proof. vm_compute. reflexivity. Qed.
Example C19_ex_refuse :
  parse_create rnd64 (Some {| t_bytes := [108;105;110;40;51;58;48;32;49]%N; t_d := t_d ex_text; t_u := t_u ex_text |}) = None.
Proof. vm_compute. reflexivity. Qed.

Print Assumptions C19_walk_visits_exactly.
Print Assumptions C19_walk_of_nothing.
Print Assumptions C19_past_end_reported.
Print Assumptions C19_reset_replays.
Print Assumptions C19_denoted_stable.
Print Assumptions C19_clone_replays.
Print Assumptions C19_history_refines.
Print Assumptions C19_build_fresh.
Print Assumptions C19_buffer_fresh.
Print Assumptions C19_text_fresh.
Print Assumptions C19_clone_refines.
Print Assumptions C19_text_walk_visits_exactly.
Print Assumptions C19_linear_closed_form.
Print Assumptions C19_linear_first.
Print Assumptions C19_linear_last.
Print Assumptions C19_linear_equal_steps.
Example C19_ex_in_grammar : create_form rnd64 ex_text (PLin 4 (Fin 0) (Fin 1)).
Proof. apply create_sound. vm_compute. reflexivity. Qed.
Example C19_ex_denotes :
  desc_denotes rnd64 (PLin 3 (Fin 0) (Fin 1)) [EV (Fin 0); EV (Fin (1#2)); EV (Fin 1)].
Proof. split; [discriminate|]. vm_compute. reflexivity. Qed.
(* a range fed from a boundary source 0,1,1,9: min 0, max 1, step 1; the 9 is left; two elements are too few *)
Example C19_ex_range_feed :
  let src := SBnd {| b_left := Fin 0; b_inter := Fin 1; b_right := Fin 9; b_elem := 4; b_pos := 0 |} in
  fst (range_of_iter rnd64 src) = Some (PRange (Fin 0) (Fin 1) (Fin 1)) /\
  remaining rnd64 (abs (snd (range_of_iter rnd64 src))) = [EV (Fin 9)] /\
  fst (range_of_iter rnd64 (SLin {| l_base := Fin 0; l_step := Fin 1; l_elem := 2; l_pos := 0 |})) = None.
Proof. vm_compute. repeat split; reflexivity. Qed.
Example C19_ex_qpoly : (qpoly [(1, 0); (2, 0); (3, 0)] 2 == 11)%Q.
Proof. vm_compute. reflexivity. Qed.

(* "ab,cd ef;" read as keywords with the default separators, and as vectors; the libc tables are not consulted *)
Definition ex_words : text := {| t_bytes := [97;98;44;99;100;32;101;102;59]%N; t_d := []; t_u := [] |}.
Example C19_ex_keys :
  fst (str_walk_b str_conv_k 10 (mk_string ex_words) []) = ([[97;98]; [99;100]; [101;102]]%N, WConvErr MissingData) /\
  absb true (mk_string ex_words)
  = CStr [ES [97;98]; ES [99;100]; ES [101;102]; EErr MissingData]%N [ES [97;98]; ES [99;100]; ES [101;102]; EErr MissingData]%N false.
Proof. vm_compute. split; reflexivity. Qed.
Example C19_ex_vectors :
  fst (str_walk_b str_conv_vec 10 (mk_string ex_words) []) = ([[97;98;44;99;100]; [101;102;59]]%N, WDone).
Proof. vm_compute. reflexivity. Qed.
Example C19_ex_byte_inv : invb true (mk_string ex_words) /\ brel true (Some (SStr (mk_string ex_words))) (Some (absb true (mk_string ex_words))).
Proof. split; [apply byte_text_fresh|split; [apply byte_text_fresh|reflexivity]]. Qed.
(* a history with reads, skip, clone on the keyword reader *)
Example C19_ex_key_history :
  mrun rnd64 (Some (SStr (mk_string ex_words)), None)
       [(OKey, false); (OAdvance, false); (OClone, false); (OKeyN, true); (OSkip, true); (OKey, true); (OKey, false)]
  = [OutB T_s (Some [97;98]%N); OutA T_s; OutK true; OutC T_s; OutZ T_conv; OutB T_s (Some [101;102]%N);
     OutB T_s (Some [99;100]%N)].
Proof. vm_compute. reflexivity. Qed.
Example C19_ex_range_set :
  range_set_val (RSVec 17 (Some [Fin 2; Fin 3; Fin 4])) (Fin 7) (Fin 9) = (0%Z, Fin 2, Fin 3) /\
  range_set_val (RSVec 24 (Some [Fin 2; Fin 3; Fin 4])) (Fin 7) (Fin 9) = (BadValue, Fin 7, Fin 9) /\
  fst (range_set rnd64 (SLin ex_lin) (Fin 7) (Fin 9)) = (2%Z, Fin (1#2), Fin (3#4)).
Proof. vm_compute. repeat split; reflexivity. Qed.

Print Assumptions C19_byte_history_refines.
Print Assumptions C19_byte_walk_visits_exactly.
Print Assumptions C19_byte_text_fresh.
Print Assumptions C19_key_element.
Print Assumptions C19_vector_element.
Print Assumptions C19_buffer_no_numbers.
Print Assumptions C19_range_set_from_numbers.
Print Assumptions C19_range_set_vector.
Print Assumptions C19_range_set_other.
Print Assumptions C19_range_from_numbers.
Print Assumptions C19_count_from_numbers_refused.
Print Assumptions C19_accepted_iff_in_grammar.
Print Assumptions C19_malformed_refused.
Print Assumptions C19_grammar_unambiguous.
Print Assumptions C19_profile_iff_in_grammar.
Print Assumptions C19_poly_accepted_in_grammar.
Print Assumptions C19_poly_in_grammar_accepted.
Print Assumptions C19_build_denotes.
Print Assumptions C19_created_denotes.
Print Assumptions C19_profile_denotes.
Print Assumptions C19_poly_exact.
Print Assumptions C19_values_linear_spec.
Print Assumptions C19_values_bound_spec.
Print Assumptions C19_values_small.
Print Assumptions C19_values_linear_exact.

(* ---- round 5: the description a value list hands out, and the reset of a value list ----
   mptplot/values/iterator_values.c: the conversion of the metatype to 's' hands out the text kept behind the
   object (WITH docs/C19_values_text.diff).  A source created from that text ([ORedesc]: slot 1 :=
   mpt_iterator_values(description of the addressed slot)) stands at the start of the SAME denoted sequence,
   whatever position the described source is at, and the described source is not touched; the other
   generators do not offer a description (negative code, nothing changes).  [prim_run]: every operation
   is value / advance / reset / clone / skip, or a re-creation addressed to a slot that holds a generator
   (text and buffer iterators hand out other texts: separator configuration / command string). *)
Theorem C19_history_refines_desc :
  forall (rnd : Q -> fv) ops st cst,
    srel rnd (fst st) (fst cst) -> srel rnd (snd st) (snd cst) -> prim_run rnd st ops = true ->
    Forall2 omatch (mrun rnd st ops) (srun rnd cst ops).
Proof. exact history_refines_desc. Qed.

(* The reset of a value list cannot fail (both error branches of iterValueReset are unreachable: the first
   number of the kept text was accepted at creation), and creating a source from the kept text gives exactly
   the reset source. *)
Theorem C19_values_reset_total :
  forall m, inv_val m ->
    fst (val_reset m) = 0%Z /\ mk_values (v_text m) (v_base m) = Some (snd (val_reset m)).
Proof. exact val_reset_ok. Qed.

(* "1 2" walked to its end, then described: the re-created source serves 1 again; a linear source refuses *)
Definition ex_vals : text :=
  {| t_bytes := [49;32;50]%N;
     t_d := [{| IterModel.d_len := 1; d_ovf := false; d_val := Fin 1 |};
             {| IterModel.d_len := 2; d_ovf := false; d_val := Fin 2 |};
             {| IterModel.d_len := 1; d_ovf := false; d_val := Fin 2 |}];
     t_u := [] |}.
Example C19_ex_redesc :
  mrun rnd64 (build rnd64 (PVals ex_vals 0), None)
       [(OAdvance, false); (OAdvance, false); (OValue, false); (ORedesc, false); (OValue, true); (OMeta, false)]
  = [OutA T_d; OutA 0; OutV VNone; OutK true; OutV (VNum 0 (Some (Fin 1)));
     OutM {| mr_codes := [T_iter; T_d; T_s; T_s; BadType; T_iter; T_iter; 0]%Z; mr_fmt := [134]%N;
             mr_vec := None; mr_str := MStr [49;32;50]%N |}] /\
  prim_run rnd64 (build rnd64 (PVals ex_vals 0), None)
       [(OAdvance, false); (OAdvance, false); (OValue, false); (ORedesc, false); (OValue, true)] = true /\
  mrun rnd64 (Some (SLin ex_lin), None) [(ORedesc, false)] = [OutC BadType] /\
  srun rnd64 (Some (abs (SLin ex_lin)), None) [(ORedesc, false)] = [SoA ARefused].
Proof. vm_compute. repeat split; reflexivity. Qed.

Print Assumptions C19_history_refines_desc.
Print Assumptions C19_values_reset_total.

(* ---- round 6: mpt::source<T> of mptcore/types.h (the C++ iterator over a span with a step) ----
   Mechanism: [csrc] (elements of the span, position, step, type id), [mk_csrc] = the constructor
   source(val, len, step) WITH docs/C19_span_negative_length.diff (a span created with a negative length is
   empty).  It is an eighth kind [SSrc] of [src]: [inv rnd (SSrc m)] is [step <> 0 /\ 0 < type id], it is
   [numeric], its cursor is the list of elements visited from the position on - so C19_walk_visits_exactly,
   C19_walk_of_nothing, C19_past_end_reported, C19_reset_replays, C19_denoted_stable, C19_clone_replays and
   C19_history_refines above hold for it as they stand.  The constructor result (any length - negative, 0,
   up to the number of elements given - any step but 0): invariant, stands at the start of what it denotes;
   a negative length denotes NOTHING; with step 1 it denotes the first len elements in order. *)
Theorem C19_source_fresh :
  forall (rnd : Q -> fv) elems len step ty,
    step <> 0%Z -> (0 < ty)%Z -> (len <= Z.of_nat (length elems))%Z ->
    let s := SSrc (mk_csrc elems len step ty) in
    inv rnd s /\ numeric s = true /\ remaining rnd (abs s) = denoted rnd (abs s) /\
    ((len < 0)%Z -> denoted rnd (abs s) = []) /\
    (step = 1%Z -> (0 <= len)%Z -> denoted rnd (abs s) = map EV (firstn (Z.to_nat len) elems)) /\
    srel rnd (Some s) (Some (abs s)).
Proof. exact source_fresh. Qed.

(* five int32 elements walked backwards in steps of 2 (examples/cxx/iter.cpp), reset; a negative length *)
Example C19_ex_source :
  mrun rnd64 (Some (SSrc (mk_csrc [Fin 1; Fin 2; Fin 3; Fin 4; Fin 5] 5 (-2) 105)), None)
       [(OValue, false); (OAdvance, false); (OValue, false); (OAdvance, false); (OValue, false); (OAdvance, false);
        (OValue, false); (OAdvance, false); (OReset, false); (OValue, false)]
  = [OutV (VNum 0 (Some (Fin 5))); OutA 105; OutV (VNum 0 (Some (Fin 3))); OutA 105; OutV (VNum 0 (Some (Fin 1)));
     OutA 0; OutV VNone; OutA MissingData; OutR 5; OutV (VNum 0 (Some (Fin 5)))] /\
  abs (SSrc (mk_csrc [Fin 1; Fin 2; Fin 3; Fin 4; Fin 5] 5 (-2) 105))
  = CList [EV (Fin 5); EV (Fin 3); EV (Fin 1)] [EV (Fin 5); EV (Fin 3); EV (Fin 1)] false /\
  mrun rnd64 (Some (SSrc (mk_csrc [Fin 1; Fin 2] (-1) 1 100)), None)
       [(OValue, false); (OAdvance, false); (OValue, false); (OReset, false); (OValue, false)]
  = [OutV VNone; OutA MissingData; OutV VNone; OutR 0; OutV VNone].
Proof. vm_compute. repeat split; reflexivity. Qed.

Print Assumptions C19_source_fresh.
