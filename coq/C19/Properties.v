(* C19 — placeholder while the pipeline is brought up *)
From MptV Require Import C19.IterModel C19.IterSpec.
Example C19_placeholder : True. Proof. exact I. Qed.
