(* C19 — IterSpec.v: the abstract specification (no proofs here).

   A value source DENOTES a finite sequence of elements; the iterator protocol is
   a cursor over that sequence:
     value    the element under the cursor, nothing past the end;
     advance  refused past the end; otherwise moves on and tells whether a
              further element exists (More) or the sequence is exhausted (End);
     reset    back to the first element; clone: an independent equal cursor.
   Counted sources (linear/range, factor, boundary, polynomial) denote
   [d_len] elements given by index ([d_at], the formula evaluated with the
   arithmetic [rnd]); text and buffer sources denote an explicit list.

   [abs] maps a mechanism state of IterModel to the cursor it stands for. *)
From Coq Require Import ZArith NArith QArith List Bool.
From MptV Require Import C19.IterModel.
Import ListNotations.
Local Open Scope N_scope.

Inductive elem :=
| EV (v : fv)                 (* a number *)
| EUnset                      (* text iterator: blank remainder, read "succeeds" without a number *)
| EErr (c : Z)                (* text iterator: unreadable element *)
| ES (b : list N)             (* buffer iterator: terminated string segment *)
| EVec (b : list N).          (* buffer iterator: unterminated rest *)

Inductive denot :=
| DLin (a step : fv) (n : N)
| DFac (base fact init : fv) (n : N)
| DBnd (l i r : fv) (n : N)
| DPol (grid : option (list fv)) (coef : list (fv * fv)).

Inductive sstate :=
| CIdx (d : denot) (pos : N)
| CList (full rest : list elem) (bad : bool)      (* bad: unreadable text follows the last element *)
| CStr (full rest : list elem) (read : bool).     (* text iterator: element ends are known after a read only *)

Inductive aclass := AMore | AEnd | ARefused | ANotMore.   (* ANotMore: End or Refused, left open *)

Section Spec.
Variable rnd : Q -> fv.

Definition d_len (d : denot) : N :=
  match d with
  | DLin _ _ n => n | DFac _ _ _ n => n | DBnd _ _ _ n => n
  | DPol (Some g) _ => N.of_nat (length g)
  | DPol None _ => UINT_MAX
  end.
Definition d_at (d : denot) (k : N) : fv :=
  match d with
  | DLin a step _ => fadd rnd a (fmul rnd (of_N k) step)
  | DFac base fact init _ =>
      if k =? 0 then init else N.iter (k - 1) (fun c => fmul rnd c fact) base
  | DBnd l i r n => if k =? 0 then l else if k <? n - 1 then i else r
  | DPol g coef =>
      poly_eval rnd coef (match g with Some g => nth (N.to_nat k) g NaN | None => of_N k end)
  end.

Definition s_value (c : sstate) : option elem :=
  match c with
  | CIdx d pos => if pos <? d_len d then Some (EV (d_at d pos)) else None
  | CList _ rest _ => match rest with x :: _ => Some x | [] => None end
  | CStr _ rest _ => match rest with x :: _ => Some x | [] => None end
  end.
(* reading may fix the element end of a text iterator *)
Definition s_read (c : sstate) : sstate :=
  match c with
  | CStr full (e :: y :: r) _ => CStr full (e :: y :: r) (match e with EErr _ => false | _ => true end)
  | CStr full [] r => c
  | CStr full rest _ => CStr full rest false
  | _ => c
  end.
Definition s_advance (c : sstate) : aclass * sstate :=
  match c with
  | CIdx d pos =>
      if d_len d <=? pos then (ARefused, c)
      else (if pos + 1 =? d_len d then AEnd else AMore, CIdx d (pos + 1))
  | CList full rest bad =>
      match rest with
      | [] => (ARefused, c)
      | [x] => if bad then (ARefused, c) else (AEnd, CList full [] bad)
      | _ :: r => (AMore, CList full r bad)
      end
  | CStr full rest read =>
      match rest with
      | [] => (ANotMore, c)
      | _ :: r => if read then (AMore, CStr full r false) else (AEnd, CStr full [] false)
      end
  end.
Definition s_reset (c : sstate) : sstate :=
  match c with
  | CIdx d _ => CIdx d 0
  | CList full _ bad => CList full full bad
  | CStr full _ _ => CStr full full false
  end.
Definition s_clone (c : sstate) : option sstate :=
  match c with
  | CIdx (DPol _ _) _ => None
  (* the clone owns the remaining text only; the clone of a finished text iterator holds an empty text,
     which is one unreadable element *)
  | CStr _ [] _ => Some (CStr [EErr MissingData] [EErr MissingData] false)
  | CStr _ rest _ => Some (CStr rest rest false)
  | _ => Some c
  end.

(* the sequence still to come (specification level only; counted sources can be long) *)
Definition nrange (from cnt : N) : list N := map (fun i => from + N.of_nat i) (seq 0 (N.to_nat cnt)).
Definition remaining (c : sstate) : list elem :=
  match c with
  | CIdx d pos => map (fun k => EV (d_at d k)) (nrange pos (d_len d - pos))
  | CList _ rest _ => rest
  | CStr _ rest _ => rest
  end.
Definition s_index (c : sstate) : option N := match c with CIdx _ pos => Some pos | _ => None end.
Definition s_bad (c : sstate) : bool := match c with CList _ _ b => b | _ => false end.

(* ---- the elements a text denotes (from the libc tables) *)
(* value list: numbers from offset p on; the flag tells whether unreadable text follows *)
Fixpoint scan_vals (t : text) (p : nat) (fuel : nat) : list elem * bool :=
  match fuel with
  | O => ([], false)
  | S fuel =>
      match cdouble t p with
      | (len, Some v) =>
          if fisnan v then ([], true)
          else let (l, b) := scan_vals t (zpos p len) fuel in (EV v :: l, b)
      | (r, None) => ([], negb (r =? 0)%Z)
      end
  end.
(* text iterator: read results from offset p on, one separator byte skipped between elements *)
Fixpoint scan_str (t : text) (p : nat) (fuel : nat) : list elem :=
  match fuel with
  | O => []
  | S fuel =>
      if (byte_at t p =? 0)%N then [EErr MissingData] else
      let p' := skip_space_at t p in
      match cdouble t p' with
      | (r, v) =>
          if (r <? 0)%Z then [EErr r] else
          let rs := zpos p' r in
          (* only white space read: no element *)
          if all_space (firstn (rs - p) (skipn p (t_bytes t))) then [EErr MissingData] else
          let e := match v with Some v => EV v | None => EUnset end in
          if Nat.ltb rs (tlen t) then e :: scan_str t (S rs) fuel else [e]
      end
  end.
(* text iterator read with a byte reader (keyword: rd_key sep, vector: rd_vec): the elements from offset p
   on, one terminator byte skipped between elements; [mk] wraps the bytes of an element *)
Fixpoint scan_rd (rd : text -> nat -> rres) (mk : list N -> elem) (t : text) (p : nat) (fuel : nat) : list elem :=
  match fuel with
  | O => []
  | S fuel =>
      if (byte_at t p =? 0)%N then [EErr MissingData] else
      match rd t p with
      | RFail c _ => [EErr c]
      | ROk rs b => if Nat.ltb rs (tlen t) then mk b :: scan_rd rd mk t (S rs) fuel else [mk b]
      end
  end.
(* buffer: segments of a 'c' array *)
Fixpoint segments (d : list N) (cur : list N) : list elem :=
  match d with
  | [] => match cur with [] => [] | _ => [EVec (rev cur)] end
  | b :: r => if (b =? 0)%N then ES (rev cur) :: segments r [] else segments r (b :: cur)
  end.

(* mpt::source<T>: the elements visited from position p on, in steps of [step], while inside the span *)
Fixpoint cvisit (l : list fv) (step : Z) (fuel : nat) (p : Z) : list elem :=
  match fuel with
  | O => []
  | S f =>
      if ((0 <=? p) && (p <? Z.of_nat (length l)))%Z then
        match nth_error l (Z.to_nat p) with
        | Some v => EV v :: cvisit l step f (p + step)%Z
        | None => []
        end
      else []
  end.

(* ---- the cursor a mechanism state stands for *)
Definition abs (s : src) : sstate :=
  match s with
  | SLin m => CIdx (DLin (l_base m) (l_step m) (l_elem m)) (l_pos m)
  | SFac m => CIdx (DFac (f_base m) (f_fact m) (f_init m) (f_elem m)) (f_pos m)
  | SBnd m => CIdx (DBnd (b_left m) (b_inter m) (b_right m) (b_elem m)) (b_pos m)
  | SPol m => CIdx (DPol (p_grid m) (p_coef m)) (p_pos m)
  | SVal m =>
      let fuel := S (tlen (v_text m)) in
      let (fl, fb) := scan_vals (v_text m) (v_base m) fuel in
      match v_next m with
      | None => CList fl [] fb
      | Some p => let (l, b) := scan_vals (v_text m) p fuel in CList fl (EV (v_curr m) :: l) fb
      end
  | SStr m =>
      let fuel := S (S (tlen (s_text m))) in
      CStr (scan_str (s_text m) (s_base m) fuel)
           (match s_val m with Some p => scan_str (s_text m) p fuel | None => [] end)
           (match s_restore m with Some _ => true | None => false end)
  | SBuf m =>
      let segs := match m_data m with Some d => segments d [] | None => [] end in
      let full := if m_args m then tl segs else segs in
      (* the segments behind the current one *)
      let rest := match m_data m with
                  | Some d => if Nat.eqb (m_len m) 0 then []
                              else segments (skipn (m_off m) d) []
                  | None => [] end in
      CList full rest false
  | SSrc m =>
      let n := length (c_elems m) in
      CList (cvisit (c_elems m) (c_step m) n (csrc_start m)) (cvisit (c_elems m) (c_step m) n (c_pos m)) false
  end.

(* the cursor of a text iterator whose elements are read as keywords / vectors *)
Definition abs_rd (rdm : list N -> text -> nat -> rres) (mk : list N -> elem) (m : stri) : sstate :=
  let fuel := S (S (tlen (s_text m))) in
  CStr (scan_rd (rdm (s_sep m)) mk (s_text m) (s_base m) fuel)
       (match s_val m with Some p => scan_rd (rdm (s_sep m)) mk (s_text m) p fuel | None => [] end)
       (match s_restore m with Some _ => true | None => false end).
Definition abs_key (m : stri) : sstate := abs_rd rd_key ES m.
Definition abs_vec (m : stri) : sstate := abs_rd (fun _ => rd_vec) EVec m.

(* ---- histories on the specification *)
Inductive sout :=
| SoV (e : option elem) (idx : option N) | SoA (a : aclass) | SoR | SoK (ok : bool)
| SoQ (ok : bool) (e : option elem) (idx : option N) | SoW (l : list elem) (e : wend)
| SoZ (a : aclass) (hasval : bool) | SoOpen | SoNone.

Definition s_consume (c : sstate) : bool * option elem * sstate :=
  match s_value c with
  | None => (false, None, c)
  | Some (EErr _) => (false, None, s_read c)
  | Some (ES _) => (false, None, c)          (* segments are no numbers *)
  | Some (EVec _) => (false, None, c)
  | Some e =>
      let (a, c') := s_advance (s_read c) in
      match a with
      | ARefused => (false, None, c')
      | _ => (true, Some e, c')
      end
  end.
Fixpoint s_walk (fuel : nat) (c : sstate) (acc : list elem) : list elem * wend * sstate :=
  match fuel with
  | O => (rev acc, WLimit, c)
  | S fuel =>
      match s_value c with
      | None => (rev acc, WNoValue, c)
      | Some (EErr e) => (rev acc, WConvErr e, s_read c)
      | Some (ES _) => (rev acc, WConvErr BadType, c)
      | Some (EVec _) => (rev acc, WConvErr BadType, c)
      | Some x =>
          let (a, c') := s_advance (s_read c) in
          match a with
          | ARefused => (rev (x :: acc), WAdvErr 0, c')
          | AMore => s_walk fuel c' (x :: acc)
          | _ => (rev (x :: acc), WDone, c')
          end
      end
  end.

(* the loop reading keywords / vectors: every element that can be read is collected *)
Fixpoint s_walk_b (fuel : nat) (c : sstate) (acc : list elem) : list elem * wend * sstate :=
  match fuel with
  | O => (rev acc, WLimit, c)
  | S fuel =>
      match s_value c with
      | None => (rev acc, WNoValue, c)
      | Some (EErr e) => (rev acc, WConvErr e, s_read c)
      | Some x =>
          let (a, c') := s_advance (s_read c) in
          match a with
          | ARefused => (rev (x :: acc), WAdvErr 0, c')
          | AMore => s_walk_b fuel c' (x :: acc)
          | _ => (rev (x :: acc), WDone, c')
          end
      end
  end.

(* A history on a text iterator is specified for ONE way of reading its elements (numbers, keywords or
   vectors: the cursor is built by abs / abs_key / abs_vec accordingly and OValue / OKey / OVec are then the
   same step).  Histories that mix readers, and OUint, are not specified at this level. *)
Definition sstep (st : option sstate * option sstate) (o : op * bool)
  : (option sstate * option sstate) * sout :=
  let '(o, upper) := o in
  let cur := if upper then snd st else fst st in
  let put c' := if upper then (fst st, Some c') else (Some c', snd st) in
  match cur with
  | None => (st, SoNone)
  | Some c =>
      match o with
      | OValue => (put (s_read c), SoV (s_value c) (s_index c))
      | OAdvance => let (a, c') := s_advance c in (put c', SoA a)
      | OReset => (put (s_reset c), SoR)
      | OClone => ((fst st, s_clone c), SoK (match s_clone c with Some _ => true | None => false end))
      | OConsume => let '(ok, e, c') := s_consume c in (put c', SoQ ok e (s_index c))
      | OWalk => let '(l, e, c') := s_walk WALK_MAX c [] in (put c', SoW l e)
      | OString => match c with
                   | CStr full (x :: r) _ => (put (CStr full (x :: r) false), SoOpen)
                   | _ => (st, SoNone)
                   end
      | OKey | OKeyN | OVec | OVecN =>
          match c with
          | CStr _ _ _ => (put (s_read c), SoV (s_value c) None)
          | _ => (st, SoNone)
          end
      | OWalkK | OWalkV =>
          match c with
          | CStr _ _ _ => let '(l, e, c') := s_walk_b WALK_MAX c [] in (put c', SoW l e)
          | _ => (st, SoNone)
          end
      | OSkip => let (a, c') := s_advance c in
                 (put c', SoZ a (match s_value c with Some _ => true | None => false end))
      | OUint | OMeta => (st, SoOpen)
      (* a text iterator offers its conversion to 's' (format list), with or without target *)
      | OMetaS => (st, match c with CStr _ _ _ => SoK true | _ => SoNone end)
      (* a source re-created from its own description: only a value list (cursor over an explicit list) hands a
         description out; the new source stands at the start of the same denoted sequence *)
      | ORedesc => match c with
                   | CList _ _ _ => ((fst st, Some (s_reset c)), SoK true)
                   | CIdx _ _ => (st, SoA ARefused)
                   | CStr _ _ _ => (st, SoNone)
                   end
      end
  end.
Fixpoint srun (st : option sstate * option sstate) (ops : list (op * bool)) : list sout :=
  match ops with
  | [] => []
  | o :: r => let (st', x) := sstep st o in x :: srun st' r
  end.

(* exact closed form of the linear source: n equal steps from a to b *)
Definition lin_closed (a b : Q) (n : N) (i : N) : Q :=
  (a + (Z.of_N i # 1) * ((b - a) / (Z.of_N n # 1)))%Q.
End Spec.
