(* C19 — IterRefine.v: every iterator state machine except the text iterator
   (iterator_string.c, see IterString.v) refines the cursor over its denoted
   sequence; the documented loop, past-the-end behaviour, reset and clone follow
   for every kind and every count from the cursor laws. *)
From Coq Require Import ZArith NArith QArith List Bool Lia.
From MptV Require Import C19.IterModel C19.IterSpec C19.IterProofs C19.IterText C19.IterString C19.IterSource.
Import ListNotations.
Local Open Scope N_scope.

Definition nostr (s : src) : bool := match s with SStr _ => false | _ => true end.
Definition numeric (s : src) : bool := match s with SStr _ => false | SBuf _ => false | _ => true end.

Section Refine.
Variable rnd : Q -> fv.
Notation s_value := (s_value rnd).
Notation remaining := (remaining rnd).
Notation denoted := (denoted rnd).

Definition inv (s : src) : Prop :=
  match s with
  | SLin m => inv_lin m | SFac m => inv_fac rnd m | SBnd m => inv_bnd m | SPol m => inv_pol rnd m
  | SVal m => inv_val m | SStr m => inv_str m | SBuf m => inv_buf m | SSrc m => inv_csrc m
  end.

Lemma counted_abs s : nostr s = true -> counted (abs s) = true.
Proof.
  destruct s; cbn [nostr]; intros H; try discriminate; try reflexivity.
  rewrite abs_val. reflexivity.
Qed.

Lemma c_inv_abs s : inv s -> c_inv (abs s).
Proof.
  destruct s as [m|m|m|m|m|m|m|m]; cbn [inv]; intros I.
  - exact I.
  - exact (proj1 I).
  - exact I.
  - cbn [abs c_inv]. rewrite pol_len. exact (proj1 I).
  - rewrite abs_val. exact Logic.I.
  - exact Logic.I.
  - exact Logic.I.
  - exact Logic.I.
Qed.

(* ---- one protocol call of the mechanism = one step of the cursor *)
Lemma sim_value s : inv s -> nostr s = true ->
  let (v, s') := it_value rnd s in
  inv s' /\ nostr s' = true /\ abs s' = abs s /\ vmatch v (s_value (abs s)) /\ (v = VNone -> s' = s).
Proof.
  destruct s as [m|m|m|m|m|m|m|m]; cbn [inv nostr]; intros I N; try discriminate.
  - pose proof (lin_value_sim rnd m) as [H1 H2]. destruct (it_value rnd (SLin m)) as [v s'].
    cbn [fst snd] in *. subst s'. auto.
  - pose proof (fac_value_sim rnd m I) as [H1 H2]. destruct (it_value rnd (SFac m)) as [v s'].
    cbn [fst snd] in *. subst s'. auto.
  - pose proof (bnd_value_sim rnd m) as [H1 H2]. destruct (it_value rnd (SBnd m)) as [v s'].
    cbn [fst snd] in *. subst s'. auto.
  - pose proof (pol_value_sim rnd m I) as H. cbn [it_value]. unfold pol_value in *.
    destruct (N.leb_spec (pol_count m) (p_pos m)).
    + destruct H as [H1 [H2 H3]]. split; [exact H1|split; [reflexivity|split; [exact H2|split; [exact H3|reflexivity]]]].
    + destruct (p_cache m).
      * destruct H as [H1 [H2 H3]]. split; [exact H1|split; [reflexivity|split; [exact H2|split; [exact H3|intros X; discriminate X]]]].
      * destruct H as [H1 [H2 H3]]. split; [exact H1|split; [reflexivity|split; [exact H2|split; [exact H3|intros X; discriminate X]]]].
  - pose proof (val_value_sim rnd m) as [H1 H2]. destruct (it_value rnd (SVal m)) as [v s'].
    cbn [fst snd] in *. subst s'. auto.
  - pose proof (buf_value_sim rnd m I) as [H1 H2]. destruct (it_value rnd (SBuf m)) as [v s'].
    cbn [fst snd] in *. subst s'. auto.
  - pose proof (csrc_value_sim rnd m I) as [H1 H2]. destruct (it_value rnd (SSrc m)) as [v s'].
    cbn [fst snd] in *. subst s'. auto.
Qed.

Lemma sim_advance s : inv s -> nostr s = true ->
  let (r, s') := it_advance rnd s in
  inv s' /\ nostr s' = true /\ s_advance (abs s) = (cls r, abs s') /\ ((r < 0)%Z -> s' = s).
Proof.
  destruct s as [m|m|m|m|m|m|m|m]; cbn [inv nostr it_advance]; intros I N; try discriminate.
  - pose proof (lin_advance_sim m I) as H. destruct (lin_advance m) as [r m'].
    destruct H as [H1 [H2 H3]]. split; [exact H1|split; [reflexivity|split; [exact H2|intros X; now rewrite (H3 X)]]].
  - pose proof (fac_advance_sim rnd m I) as H. destruct (fac_advance rnd m) as [r m'].
    destruct H as [H1 [H2 H3]]. split; [exact H1|split; [reflexivity|split; [exact H2|intros X; now rewrite (H3 X)]]].
  - pose proof (bnd_advance_sim m I) as H. destruct (bnd_advance m) as [r m'].
    destruct H as [H1 [H2 H3]]. split; [exact H1|split; [reflexivity|split; [exact H2|intros X; now rewrite (H3 X)]]].
  - pose proof (pol_advance_sim rnd m I) as H. destruct (pol_advance m) as [r m'].
    destruct H as [H1 [H2 H3]]. split; [exact H1|split; [reflexivity|split; [exact H2|intros X; now rewrite (H3 X)]]].
  - pose proof (val_advance_sim m I) as H. destruct (val_advance m) as [r m'].
    destruct H as [H1 [H2 H3]]. split; [exact H1|split; [reflexivity|split; [exact H2|intros X; now rewrite (H3 X)]]].
  - pose proof (buf_advance_sim m I) as H. destruct (buf_advance m) as [r m'].
    destruct H as [H1 [H2 [H3 [H4 H5]]]]. split; [exact H1|split; [reflexivity|split]].
    + rewrite !abs_buf, H3. exact H4.
    + intros X. now rewrite (H5 X).
  - pose proof (csrc_advance_sim m I) as H. destruct (csrc_advance m) as [r m'].
    destruct H as [H1 [H2 H3]]. split; [exact H1|split; [reflexivity|split; [exact H2|intros X; now rewrite (H3 X)]]].
Qed.

Lemma sim_reset s : inv s -> nostr s = true ->
  let (r, s') := it_reset s in
  inv s' /\ nostr s' = true /\ abs s' = s_reset (abs s) /\ (0 <= r)%Z.
Proof.
  destruct s as [m|m|m|m|m|m|m|m]; cbn [inv nostr it_reset]; intros I N; try discriminate.
  - pose proof (lin_reset_sim m) as H. destruct (lin_reset m). destruct H as [H1 [H2 H3]]. auto.
  - pose proof (fac_reset_sim rnd m) as H. destruct (fac_reset m). destruct H as [H1 [H2 H3]]. auto.
  - pose proof (bnd_reset_sim m) as H. destruct (bnd_reset m). destruct H as [H1 [H2 H3]]. auto.
  - pose proof (pol_reset_sim rnd m) as H. destruct (pol_reset m). destruct H as [H1 [H2 H3]]. auto.
  - pose proof (val_reset_sim m I) as H. destruct (val_reset m). destruct H as [H1 [H2 H3]]. auto.
  - pose proof (buf_reset_sim m) as H. destruct (buf_reset m). destruct H as [H1 [H2 H3]]. auto.
  - pose proof (csrc_reset_sim m I) as H. destruct (csrc_reset m). destruct H as [H1 [H2 H3]]. auto.
Qed.

Lemma sim_clone s : nostr s = true ->
  match it_clone s with
  | Some c => c = s /\ s_clone (abs s) = Some (abs s)
  | None => s_clone (abs s) = None
  end.
Proof.
  destruct s as [m|m|m|m|m|m|m|m]; cbn [nostr it_clone]; intros N; try discriminate;
    try (split; reflexivity); try reflexivity.
  rewrite abs_val. split; reflexivity.
Qed.

(* ---- consequences *)
Lemma cls_more r : cls r = AMore -> (0 < r)%Z.
Proof. unfold cls. destruct (Z.ltb_spec 0 r); [auto|]. destruct (Z.eqb_spec r 0); discriminate. Qed.
Lemma cls_end r : cls r = AEnd -> r = 0%Z.
Proof. unfold cls. destruct (Z.ltb_spec 0 r); [discriminate|]. destruct (Z.eqb_spec r 0); [auto|discriminate]. Qed.
Lemma cls_refused r : cls r = ARefused -> (r < 0)%Z.
Proof. unfold cls. destruct (Z.ltb_spec 0 r); [discriminate|]. destruct (Z.eqb_spec r 0); [discriminate|lia]. Qed.

(* advancing from a state with elements left *)
Lemma advance_step s x r : inv s -> nostr s = true -> remaining (abs s) = x :: r ->
  let (c, s') := it_advance rnd s in
  if (match r with [] => s_bad (abs s) | _ => false end) then (c < 0)%Z /\ s' = s
  else inv s' /\ nostr s' = true /\ remaining (abs s') = r /\ denoted (abs s') = denoted (abs s) /\
       s_bad (abs s') = s_bad (abs s) /\
       match r with [] => c = 0%Z | _ => (0 < c)%Z end.
Proof.
  intros I N R. pose proof (sim_advance s I N) as H. destruct (it_advance rnd s) as [c s'].
  destruct H as [I' [N' [SA U]]].
  pose proof (law_advance_step rnd (abs s) x r (counted_abs s N) (c_inv_abs s I) R) as L.
  destruct (match r with [] => s_bad (abs s) | _ => false end).
  - rewrite L in SA. injection SA as SA _. symmetry in SA. apply cls_refused in SA. auto.
  - destruct L as [c' [L1 [L2 [L3 [L4 _]]]]]. rewrite L1 in SA. injection SA as SA1 SA2. subst c'.
    repeat split; auto. destruct r; symmetry in SA1; [now apply cls_end|now apply cls_more].
Qed.

Lemma numeric_nostr s : numeric s = true -> nostr s = true.
Proof. now destruct s. Qed.

Lemma numeric_value s : numeric s = true ->
  match fst (it_value rnd s) with VNone => True | VNum _ (Some _) => True | _ => False end.
Proof.
  destruct s as [m|m|m|m|m|m|m|m]; cbn [numeric]; intros N; try discriminate; cbn [it_value fst].
  - now destruct (lin_value rnd m).
  - now destruct (fac_value m).
  - now destruct (bnd_value m).
  - destruct (pol_value rnd m) as [[v|] m']; exact Logic.I.
  - now destruct (val_value m).
  - now destruct (csrc_value m).
Qed.

Lemma numeric_step s : numeric s = true -> numeric (snd (it_value rnd s)) = true /\
  numeric (snd (it_advance rnd s)) = true.
Proof.
  destruct s as [m|m|m|m|m|m|m|m]; cbn [numeric]; intros N; try discriminate; cbn [it_value it_advance];
    split; try reflexivity.
  - now destruct (lin_advance m).
  - now destruct (fac_advance rnd m).
  - now destruct (bnd_advance m).
  - now destruct (pol_value rnd m).
  - now destruct (pol_advance m).
  - now destruct (val_advance m).
  - now destruct (csrc_advance m).
Qed.

(* the documented loop *)
Lemma walk_gen : forall fuel s acc, inv s -> numeric s = true ->
  (length (remaining (abs s)) <= fuel)%nat -> remaining (abs s) <> [] ->
  let '(l, e, s') := it_walk rnd fuel s acc in
  map velem l = map velem (rev acc) ++ remaining (abs s) /\ inv s' /\
  (if s_bad (abs s) then exists c, e = WAdvErr c /\ (c < 0)%Z
   else e = WDone /\ remaining (abs s') = []).
Proof.
  induction fuel as [|fuel IH]; intros s acc I NU LE NE.
  - destruct (remaining (abs s)); [contradiction|cbn in LE; lia].
  - cbn [it_walk]. pose proof (numeric_nostr s NU) as N.
    pose proof (sim_value s I N) as SV. pose proof (numeric_value s NU) as NV.
    pose proof (numeric_step s NU) as [NS1 _].
    destruct (it_value rnd s) as [v s1]. cbn [fst snd] in *. destruct SV as [I1 [_ [A1 [VM _]]]].
    destruct (remaining (abs s)) as [|x r] eqn:R; [contradiction|].
    rewrite (law_value rnd (abs s) (counted_abs s N)), R in VM. cbn [hd_error] in VM.
    destruct v as [|c|c [y|]|b|b]; try contradiction. cbn [vmatch] in VM. subst x.
    rewrite <- A1 in R.
    pose proof (advance_step s1 _ _ I1 (numeric_nostr _ NS1) R) as AS.
    pose proof (numeric_step s1 NS1) as [_ NS2].
    destruct (it_advance rnd s1) as [c2 s2]. cbn [snd] in NS2. rewrite A1 in AS.
    destruct r as [|x2 r].
    + destruct (s_bad (abs s)).
      * destruct AS as [C ->]. destruct (Z.ltb_spec c2 0); [|lia].
        cbn [rev]. rewrite map_app. cbn [map]. split; [reflexivity|]. split; [assumption|]. eauto.
      * destruct AS as [I2 [N2 [R2 [_ [_ C]]]]]. subst c2. cbn [Z.ltb Z.eqb Z.compare rev].
        rewrite map_app. cbn [map]. split; [reflexivity|]. split; [assumption|]. split; [reflexivity|assumption].
    + destruct AS as [I2 [N2 [R2 [_ [B2 C]]]]].
      destruct (Z.ltb_spec c2 0); [lia|]. destruct (Z.eqb_spec c2 0); [lia|].
      specialize (IH s2 (Some y :: acc) I2 NS2).
      rewrite R2 in IH. cbn [length] in LE. specialize (IH ltac:(cbn [length]; lia) ltac:(discriminate)).
      destruct (it_walk rnd fuel s2 (Some y :: acc)) as [[l e] s']. rewrite B2 in IH.
      destruct IH as [IH1 [IH2 IH3]]. split; [|split; assumption].
      rewrite IH1. cbn [rev]. rewrite map_app, <- app_assoc. reflexivity.
Qed.

Theorem walk_visits_exactly : forall fuel s, inv s -> numeric s = true ->
  (length (remaining (abs s)) <= fuel)%nat -> remaining (abs s) <> [] ->
  let '(l, e, s') := it_walk rnd fuel s [] in
  map velem l = remaining (abs s) /\ inv s' /\
  (if s_bad (abs s) then exists c, e = WAdvErr c /\ (c < 0)%Z
   else e = WDone /\ remaining (abs s') = []).
Proof. intros fuel s I N L NE. exact (walk_gen fuel s [] I N L NE). Qed.

(* nothing left: the walk reports it at once *)
Theorem walk_empty : forall fuel s, inv s -> numeric s = true -> remaining (abs s) = [] ->
  it_walk rnd (S fuel) s [] = ([], WNoValue, s).
Proof.
  intros fuel s I NU R. cbn [it_walk]. pose proof (numeric_nostr s NU) as N.
  pose proof (sim_value s I N) as SV. destruct (it_value rnd s) as [v s1].
  destruct SV as [_ [_ [_ [VM U]]]]. rewrite (law_value rnd (abs s) (counted_abs s N)), R in VM. cbn in VM.
  destruct v; try contradiction. now rewrite (U eq_refl).
Qed.

(* reading or advancing past the end is refused and changes nothing *)
Theorem past_end_reported : forall s, inv s -> nostr s = true -> remaining (abs s) = [] ->
  it_value rnd s = (VNone, s) /\
  exists c, (c < 0)%Z /\ it_advance rnd s = (c, s).
Proof.
  intros s I N R. split.
  - pose proof (sim_value s I N) as SV. destruct (it_value rnd s) as [v s1].
    destruct SV as [_ [_ [_ [VM U]]]]. rewrite (law_value rnd (abs s) (counted_abs s N)), R in VM. cbn in VM.
    destruct v; try contradiction. now rewrite (U eq_refl).
  - pose proof (sim_advance s I N) as SA. destruct (it_advance rnd s) as [c s'].
    destruct SA as [_ [_ [SA U]]]. rewrite (law_advance_end rnd (abs s) (counted_abs s N) R) in SA.
    injection SA as SA _. symmetry in SA. apply cls_refused in SA. exists c. split; [assumption|].
    now rewrite (U SA).
Qed.

(* after a reset the whole denoted sequence is ahead again, whatever happened before *)
Theorem reset_replays : forall s, inv s -> nostr s = true ->
  let (r, s') := it_reset s in
  (0 <= r)%Z /\ inv s' /\ nostr s' = true /\
  remaining (abs s') = denoted (abs s) /\ denoted (abs s') = denoted (abs s) /\
  s_bad (abs s') = s_bad (abs s).
Proof.
  intros s I N. pose proof (sim_reset s I N) as H. destruct (it_reset s) as [r s'].
  destruct H as [I' [N' [A R]]]. rewrite A.
  destruct (law_reset rnd (abs s) (counted_abs s N)) as [L1 [L2 [L3 _]]].
  split; [exact R|]. split; [exact I'|]. split; [exact N'|]. split; [exact L1|]. split; [exact L2|exact L3].
Qed.

(* value and advance never change the denoted sequence *)
Theorem denoted_stable : forall s, inv s -> nostr s = true ->
  denoted (abs (snd (it_value rnd s))) = denoted (abs s) /\
  denoted (abs (snd (it_advance rnd s))) = denoted (abs s).
Proof.
  intros s I N. split.
  - pose proof (sim_value s I N) as SV. destruct (it_value rnd s) as [v s1]. cbn [snd].
    destruct SV as [_ [_ [A _]]]. now rewrite A.
  - destruct (remaining (abs s)) as [|x r] eqn:R.
    + destruct (past_end_reported s I N R) as [_ [c [_ E]]]. now rewrite E.
    + pose proof (advance_step s x r I N R) as AS. destruct (it_advance rnd s) as [c s']. cbn [snd].
      destruct (match r with [] => s_bad (abs s) | _ => false end).
      * destruct AS as [_ ->]. reflexivity.
      * destruct AS as [_ [_ [_ [D _]]]]. exact D.
Qed.

(* a clone is the same machine state: every later history on it equals that on the original *)
Theorem clone_replays : forall s c, nostr s = true -> it_clone s = Some c ->
  c = s /\ abs c = abs s /\ s_clone (abs s) = Some (abs c).
Proof.
  intros s c N E. pose proof (sim_clone s N) as H. rewrite E in H. destruct H as [-> H]. auto.
Qed.

(* ---- one call of any kind, the text iterator included *)
Lemma amatch_cls r : amatch (cls r) r.
Proof.
  unfold cls. destruct (Z.ltb_spec 0 r); [exact H|]. destruct (Z.eqb_spec r 0); [assumption|]. cbn. lia.
Qed.

Lemma s_read_counted c : counted c = true -> s_read c = c.
Proof. destruct c; cbn; intros; try discriminate; reflexivity. Qed.

Lemma gsim_value s : inv s ->
  let (v, s') := it_value rnd s in
  inv s' /\ abs s' = s_read (abs s) /\ vmatch v (s_value (abs s)).
Proof.
  intros I. destruct (nostr s) eqn:N.
  - pose proof (sim_value s I N) as H. destruct (it_value rnd s) as [v s'].
    destruct H as [I' [_ [A [VM _]]]]. rewrite (s_read_counted _ (counted_abs s N)). auto.
  - destruct s as [m|m|m|m|m|m|m|m]; try discriminate. cbn [it_value inv] in *.
    pose proof (str_value_sim rnd m I) as H. destruct (str_value m) as [v m']. exact H.
Qed.

Lemma gsim_advance s : inv s ->
  let (r, s') := it_advance rnd s in
  inv s' /\ exists a, s_advance (abs s) = (a, abs s') /\ amatch a r.
Proof.
  intros I. destruct (nostr s) eqn:N.
  - pose proof (sim_advance s I N) as H. destruct (it_advance rnd s) as [r s'].
    destruct H as [I' [_ [SA _]]]. split; [assumption|]. exists (cls r). split; [assumption|apply amatch_cls].
  - destruct s as [m|m|m|m|m|m|m|m]; try discriminate. cbn [it_advance inv] in *.
    pose proof (str_advance_sim m I) as H. destruct (str_advance m) as [r m']. exact H.
Qed.

Lemma gsim_reset s : inv s ->
  let (r, s') := it_reset s in
  inv s' /\ abs s' = s_reset (abs s) /\ (0 <= r)%Z.
Proof.
  intros I. destruct (nostr s) eqn:N.
  - pose proof (sim_reset s I N) as H. destruct (it_reset s) as [r s']. destruct H as [I' [_ [A R]]]. auto.
  - destruct s as [m|m|m|m|m|m|m|m]; try discriminate. cbn [it_reset inv] in *.
    pose proof (str_reset_sim m I) as H. destruct (str_reset m) as [r m']. exact H.
Qed.

Lemma gsim_clone s : inv s ->
  match it_clone s with
  | Some c => inv c /\ s_clone (abs s) = Some (abs c)
  | None => s_clone (abs s) = None
  end.
Proof.
  intros I. destruct (nostr s) eqn:N.
  - pose proof (sim_clone s N) as H. destruct (it_clone s) as [c|]; [|exact H]. destruct H as [-> H]. auto.
  - destruct s as [m|m|m|m|m|m|m|m]; try discriminate. cbn [it_clone inv] in *. exact (str_clone_sim m I).
Qed.

(* mpt_iterator_consume(it, 0, 0) - skip the current element - is an advance: the cursor moves the same way,
   the result is negative exactly when the advance is refused, else it tells whether there was an element *)
Definition zmatch (a : aclass) (hasval : bool) (z : Z) : Prop :=
  match a with
  | ARefused => (z < 0)%Z
  | ANotMore => (z <= 0)%Z
  | _ => if hasval then (0 < z)%Z else z = 0%Z
  end.
Definition hasv (e : option elem) : bool := match e with Some _ => true | None => false end.

Lemma zmatch_cls r ty (hv : bool) : (if hv then (0 < ty)%Z else ty = 0%Z) ->
  zmatch (cls r) hv (if (r <? 0)%Z then r else ty).
Proof.
  intros T. unfold cls. destruct (Z.ltb_spec 0 r) as [P|P].
  - destruct (Z.ltb_spec r 0); [lia|]. exact T.
  - destruct (Z.eqb_spec r 0) as [->|NZ]; [exact T|]. destruct (Z.ltb_spec r 0); [|lia]. cbn. lia.
Qed.

Lemma buf_value_shape m : match buf_value m with VErr _ | VNum _ _ => False | _ => True end.
Proof. unfold buf_value. destruct (m_data m); [|exact Logic.I]. destruct (Nat.eqb _ _); [exact Logic.I|]. now destruct (m_str m). Qed.

Lemma gsim_skip s : inv s ->
  let (z, s') := it_skip rnd s in
  inv s' /\ exists a, s_advance (abs s) = (a, abs s') /\ zmatch a (hasv (s_value (abs s))) z.
Proof.
  intros I. unfold it_skip.
  assert (NUM : nostr s = true -> (match s with SBuf _ => False | _ => True end) ->
    let (z, s') := (let (ty, s1) := match it_value rnd s with (VNone, s1) => (0%Z, s1) | (_, s1) => (T_d, s1) end in
                    let (r, s2) := it_advance rnd s1 in (if (r <? 0)%Z then r else ty, s2)) in
    inv s' /\ exists a, s_advance (abs s) = (a, abs s') /\ zmatch a (hasv (s_value (abs s))) z).
  { intros N _. pose proof (sim_value s I N) as SV. destruct (it_value rnd s) as [v s1].
    destruct SV as [I1 [N1 [A1 [VM _]]]].
    assert (T : exists ty, (match v with VNone => (0%Z, s1) | _ => (T_d, s1) end) = (ty, s1) /\
                           (if hasv (s_value (abs s)) then (0 < ty)%Z else ty = 0%Z)).
    { destruct v, (s_value (abs s)); cbn [vmatch] in VM; try contradiction; cbn [hasv];
        eexists; (split; [reflexivity|]); unfold T_d; lia. }
    destruct T as [ty [-> T]].
    pose proof (sim_advance s1 I1 N1) as SA. destruct (it_advance rnd s1) as [r s2].
    destruct SA as [I2 [_ [SA _]]]. split; [assumption|]. exists (cls r). rewrite <- A1. split; [assumption|].
    rewrite A1. now apply zmatch_cls. }
  destruct s as [m|m|m|m|m|m|m|m]; try (apply NUM; [reflexivity|exact Logic.I]).
  - (* text iterator: no conversion takes place *)
    cbn [inv it_advance] in *. pose proof (str_advance_sim m I) as SA. destruct (str_advance m) as [r m'].
    destruct SA as [I' [a [SA AM]]]. split; [assumption|]. exists a. split; [assumption|].
    rewrite abs_str in *. pose proof (schain_nonempty (s_text m)) as NE.
    destruct (s_val m) as [p|] eqn:V.
    + specialize (NE p). destruct (schain (s_text m) p) as [|x rest] eqn:SC; [contradiction|].
      cbn [s_advance] in SA. cbn [IterSpec.s_value hasv].
      destruct (flag (s_restore m)); injection SA as <- _; cbn [zmatch amatch] in *.
      * destruct (Z.ltb_spec r 0); [lia|]. unfold T_conv. lia.
      * subst r. cbn. unfold T_conv. lia.
    + cbn [s_advance] in SA. injection SA as <- _. cbn [zmatch amatch IterSpec.s_value hasv] in *.
      destruct (Z.ltb_spec r 0); lia.
  - (* buffer iterators *)
    cbn [inv] in I. pose proof (buf_value_sim rnd m I) as [VM _]. cbn [it_value fst] in VM.
    assert (T : if hasv (s_value (abs (SBuf m))) then
                  (0 < match buf_value m with VStr _ => T_s | VVec _ => T_vec_c | _ => 0 end)%Z
                else match buf_value m with VStr _ => T_s | VVec _ => T_vec_c | _ => 0%Z end = 0%Z).
    { pose proof (buf_value_shape m) as SH.
      destruct (buf_value m), (s_value (abs (SBuf m))); cbn [vmatch] in VM; try contradiction; cbn [hasv];
        unfold T_s, T_vec_c; lia. }
    pose proof (sim_advance (SBuf m) I eq_refl) as SA. destruct (it_advance rnd (SBuf m)) as [r s2].
    destruct SA as [I2 [_ [SA _]]]. split; [assumption|]. exists (cls r). split; [assumption|].
    now apply zmatch_cls.
Qed.

(* ---- histories over both slots, every kind *)
Definition prim (o : op * bool) : bool :=
  match fst o with OValue | OAdvance | OReset | OClone | OSkip => true | _ => false end.
Definition omatch (o : out) (x : sout) : Prop :=
  match o, x with
  | OutV v, SoV e _ => vmatch v e
  | OutA r, SoA a => amatch a r
  | OutR r, SoR => (0 <= r)%Z
  | OutK b, SoK b' => b = b'
  | OutZ z, SoZ a hv => zmatch a hv z
  | OutC c, SoA ARefused => (c < 0)%Z
  | OutNone, SoNone => True
  | _, _ => False
  end.
Definition srel (s : option src) (c : option sstate) : Prop :=
  match s, c with
  | Some s, Some c => inv s /\ abs s = c
  | None, None => True
  | _, _ => False
  end.

Lemma step_refines st cst o : srel (fst st) (fst cst) -> srel (snd st) (snd cst) -> prim o = true ->
  let (st', x) := mstep rnd st o in
  let (cst', y) := sstep rnd cst o in
  srel (fst st') (fst cst') /\ srel (snd st') (snd cst') /\ omatch x y.
Proof.
  destruct st as [s0 s1], cst as [c0 c1], o as [o upper]. cbn [fst snd]. intros R0 R1 P.
  unfold mstep, sstep. cbn [fst snd].
  assert (RC : srel (if upper then s1 else s0) (if upper then c1 else c0)) by now destruct upper.
  destruct (if upper then s1 else s0) as [s|], (if upper then c1 else c0) as [c|];
    cbn [srel] in RC; try contradiction; [|cbn; auto].
  destruct RC as [I <-].
  destruct o; cbn [prim fst] in P; try discriminate.
  - pose proof (gsim_value s I) as H. destruct (it_value rnd s) as [v s'].
    destruct H as [I' [A VM]]. rewrite <- A.
    destruct upper; cbn [fst snd srel omatch]; repeat split; auto.
  - pose proof (gsim_advance s I) as H. destruct (it_advance rnd s) as [r s'].
    destruct H as [I' [a [SA AM]]]. rewrite SA.
    destruct upper; cbn [fst snd srel omatch]; repeat split; auto.
  - pose proof (gsim_reset s I) as H. destruct (it_reset s) as [r s'].
    destruct H as [I' [A R]]. rewrite <- A.
    destruct upper; cbn [fst snd srel omatch]; repeat split; auto.
  - pose proof (gsim_clone s I) as H. destruct (it_clone s) as [c|].
    + destruct H as [IC H]. rewrite H. cbn [fst snd srel omatch]. repeat split; auto.
    + rewrite H. cbn [fst snd srel omatch]. repeat split; auto.
  - pose proof (gsim_skip s I) as H. destruct (it_skip rnd s) as [z s'].
    destruct H as [I' [a [SA ZM]]]. rewrite SA. fold (hasv (IterSpec.s_value rnd (abs s))).
    destruct upper; cbn [fst snd srel omatch]; repeat split; auto.
Qed.

Theorem history_refines : forall ops st cst,
  srel (fst st) (fst cst) -> srel (snd st) (snd cst) -> forallb prim ops = true ->
  Forall2 omatch (mrun rnd st ops) (srun rnd cst ops).
Proof.
  induction ops as [|o ops IH]; intros st cst R0 R1 P; cbn [mrun srun]; [constructor|].
  cbn [forallb] in P. apply andb_prop in P as [P1 P2].
  pose proof (step_refines st cst o R0 R1 P1) as H.
  destruct (mstep rnd st o) as [st' x], (sstep rnd cst o) as [cst' y].
  destruct H as [H0 [H1 H2]]. constructor; [assumption|]. now apply IH.
Qed.

(* ---- a source re-created from the description it hands out (conversion of the metatype to 's', then
   mpt_iterator_values): offered by value lists only; the new source stands at the start of the same denoted
   sequence, the source itself is not touched.  Text and buffer iterators hand out other texts (separator
   configuration / command string): the operation is specified for the generators. *)
Definition desc_ok (s : option src) : bool :=
  match s with Some (SStr _) | Some (SBuf _) | Some (SSrc _) => false | _ => true end.
Definition prim_at (st : option src * option src) (o : op * bool) : bool :=
  match fst o with
  | ORedesc => desc_ok (if snd o then snd st else fst st)
  | _ => prim o
  end.
Fixpoint prim_run (st : option src * option src) (ops : list (op * bool)) : bool :=
  match ops with
  | [] => true
  | o :: r => prim_at st o && prim_run (fst (mstep rnd st o)) r
  end.

Lemma gsim_redesc s : inv s -> desc_ok (Some s) = true ->
  match it_redesc s with
  | Some (inr (Some c)) => inv c /\ (exists full rest bad, abs s = CList full rest bad) /\ abs c = s_reset (abs s)
  | Some (inl e) => (e < 0)%Z /\ exists d p, abs s = CIdx d p
  | _ => False
  end.
Proof.
  intros I D. destruct s as [m|m|m|m|m|m|m|m]; cbn [desc_ok] in D; try discriminate; cbn [it_redesc];
    try (split; [unfold BadType; lia|cbn [abs]; eauto]).
  cbn [inv] in I. destruct (val_reset_ok m I) as [_ E]. rewrite E. cbn [option_map].
  pose proof (val_reset_sim m I) as H. destruct (val_reset m) as [r m']. cbn [snd]. destruct H as [I' [A _]].
  split; [exact I'|]. split; [|exact A]. rewrite abs_val. eauto.
Qed.

Lemma step_refines_at st cst o : srel (fst st) (fst cst) -> srel (snd st) (snd cst) -> prim_at st o = true ->
  let (st', x) := mstep rnd st o in
  let (cst', y) := sstep rnd cst o in
  srel (fst st') (fst cst') /\ srel (snd st') (snd cst') /\ omatch x y.
Proof.
  intros R0 R1 P. destruct o as [o upper].
  assert (Q : prim (o, upper) = true \/ o = ORedesc).
  { destruct o; cbn [prim_at fst] in P; auto. }
  destruct Q as [Q| ->]; [exact (step_refines st cst (o, upper) R0 R1 Q)|].
  destruct st as [s0 s1], cst as [c0 c1]. cbn [fst snd prim_at] in *.
  unfold mstep, sstep. cbn [fst snd].
  assert (RC : srel (if upper then s1 else s0) (if upper then c1 else c0)) by now destruct upper.
  destruct (if upper then s1 else s0) as [s|], (if upper then c1 else c0) as [c|];
    cbn [srel] in RC; try contradiction; [|cbn; auto].
  destruct RC as [I <-].
  pose proof (gsim_redesc s I P) as H.
  destruct (it_redesc s) as [[e|[c|]]|]; try contradiction.
  - destruct H as [E [d [p A]]]. rewrite A. cbn [fst snd srel omatch]. auto.
  - destruct H as [IC [[full [rest [bad A]]] AC]]. rewrite A in *. cbn [fst snd srel omatch]. repeat split; auto.
Qed.

Theorem history_refines_desc : forall ops st cst,
  srel (fst st) (fst cst) -> srel (snd st) (snd cst) -> prim_run st ops = true ->
  Forall2 omatch (mrun rnd st ops) (srun rnd cst ops).
Proof.
  induction ops as [|o ops IH]; intros st cst R0 R1 P; cbn [mrun srun]; [constructor|].
  cbn [prim_run] in P. apply andb_prop in P as [P1 P2].
  pose proof (step_refines_at st cst o R0 R1 P1) as H.
  destruct (mstep rnd st o) as [st' x], (sstep rnd cst o) as [cst' y].
  destruct H as [H0 [H1 H2]]. constructor; [assumption|]. now apply IH.
Qed.

(* ---- mpt::source<T> (mptcore/types.h): the constructor result satisfies the invariant and stands at the start of
   what it denotes; a negative length denotes nothing (WITH docs/C19_span_negative_length.diff); with step 1 it
   denotes the first len elements in order.  [inv] / [numeric] make every protocol theorem of this file apply. *)
Theorem source_fresh : forall elems len step ty,
  step <> 0%Z -> (0 < ty)%Z -> (len <= Z.of_nat (length elems))%Z ->
  let s := SSrc (mk_csrc elems len step ty) in
  inv s /\ numeric s = true /\ remaining (abs s) = denoted (abs s) /\
  ((len < 0)%Z -> denoted (abs s) = []) /\
  (step = 1%Z -> (0 <= len)%Z -> denoted (abs s) = map EV (firstn (Z.to_nat len) elems)) /\
  srel (Some s) (Some (abs s)).
Proof.
  intros elems len step ty NZ TY LE s.
  assert (I : inv s) by (cbn [inv s]; split; assumption).
  split; [exact I|]. split; [reflexivity|].
  destruct (mk_csrc_fresh elems len step ty NZ TY LE) as [[_ P]|[_ [N E]]].
  - split; [unfold s; rewrite abs_csrc; rewrite P; reflexivity|].
    split; [|split; [|split; [exact I|reflexivity]]].
    + intros N. unfold s. rewrite abs_csrc. unfold mk_csrc. cbn [c_elems].
      replace (Z.max len 0) with 0%Z by lia. reflexivity.
    + intros -> L. unfold s. rewrite abs_csrc. unfold csrc_start. cbn [mk_csrc c_elems c_step].
      replace (Z.max len 0) with len by lia. cbn [Z.ltb Z.compare]. cbn [denoted s_reset IterSpec.remaining].
      apply cvisit_all.
  - split; [unfold s; rewrite abs_csrc; rewrite E; reflexivity|].
    split; [|split; [lia|split; [exact I|reflexivity]]].
    intros _. unfold s. rewrite abs_csrc. rewrite E. reflexivity.
Qed.

(* segments of a buffer are no numbers: consuming one as double and the documented loop (which converts to
   double) are refused at once and leave the iterator where it is *)
Theorem buffer_no_numbers m fuel :
  (buf_value m = VNone -> it_consume rnd (SBuf m) = (MissingData, None, SBuf m) /\
                          it_walk rnd (S fuel) (SBuf m) [] = ([], WNoValue, SBuf m)) /\
  (buf_value m <> VNone -> it_consume rnd (SBuf m) = (BadType, None, SBuf m) /\
                           it_walk rnd (S fuel) (SBuf m) [] = ([], WConvErr BadType, SBuf m)).
Proof.
  pose proof (buf_value_shape m) as SH. unfold it_consume. cbn [it_walk it_value].
  destruct (buf_value m); try contradiction; split; intros H; try discriminate H; try (now contradiction H); split; reflexivity.
Qed.

(* the documented loop on a text iterator: exactly the numbers up to the first element
   that is no number; it ends with a conversion error there, else cleanly *)
Definition isnum (e : elem) : bool := match e with EV _ | EUnset => true | _ => false end.
Fixpoint str_numbers (l : list elem) : list (option fv) :=
  match l with
  | EV v :: r => Some v :: str_numbers r
  | EUnset :: r => None :: str_numbers r
  | _ => []
  end.

Lemma str_walk_gen : forall fuel s acc full rest fl, inv s -> abs s = CStr full rest fl ->
  (length rest <= fuel)%nat -> rest <> [] ->
  let '(l, e, s') := it_walk rnd fuel s acc in
  l = rev acc ++ str_numbers rest /\ inv s' /\
  (if forallb isnum rest then e = WDone else exists c, e = WConvErr c).
Proof.
  induction fuel as [|fuel IH]; intros s acc full rest fl I A LE NE.
  - destruct rest; [contradiction|cbn in LE; lia].
  - cbn [it_walk]. pose proof (gsim_value s I) as SV. destruct (it_value rnd s) as [v s1].
    destruct SV as [I1 [A1 VM]]. rewrite A in A1, VM. destruct rest as [|x r]; [contradiction|].
    cbn [IterSpec.s_value] in VM.
    destruct v as [|c|c v0|b|b]; cbn [vmatch] in VM; try contradiction.
    + subst x. cbn. rewrite app_nil_r. split; [reflexivity|]. split; [assumption|]. eauto.
    + pose proof (gsim_advance s1 I1) as SA. destruct (it_advance rnd s1) as [c2 s2].
      destruct SA as [I2 [a [SA AM]]]. rewrite A1 in SA.
      assert (NX : isnum x = true) by (subst x; now destruct v0).
      assert (SN : str_numbers (x :: r) = v0 :: str_numbers r) by (subst x; now destruct v0).
      rewrite SN. cbn [forallb]. rewrite NX. cbn [andb].
      destruct r as [|y r'].
      * cbn [s_read s_advance] in SA. injection SA as <- SA2. cbn [amatch] in AM. subst c2.
        cbn [Z.ltb Z.eqb Z.compare forallb str_numbers rev]. split; [reflexivity|]. split; [assumption|reflexivity].
      * assert (RD : s_read (CStr full (x :: y :: r') fl) = CStr full (x :: y :: r') true).
        { cbn [s_read]. subst x. now destruct v0. }
        rewrite RD in SA. cbn [s_advance] in SA. injection SA as <- SA2. cbn [amatch] in AM.
        destruct (Z.ltb_spec c2 0); [lia|]. destruct (Z.eqb_spec c2 0); [lia|].
        specialize (IH s2 (v0 :: acc) full (y :: r') false I2 (eq_sym SA2)).
        cbn [length] in LE. specialize (IH ltac:(cbn [length]; lia) ltac:(discriminate)).
        destruct (it_walk rnd fuel s2 (v0 :: acc)) as [[l e] s']. destruct IH as [IH1 [IH2 IH3]].
        split; [|split; assumption]. rewrite IH1. cbn [rev]. now rewrite <- app_assoc.
    + subst x. cbn. rewrite app_nil_r. split; [reflexivity|]. split; [assumption|]. eauto.
    + subst x. cbn. rewrite app_nil_r. split; [reflexivity|]. split; [assumption|]. eauto.
Qed.

Theorem text_walk_visits_exactly : forall fuel m p, inv_str m -> s_val m = Some p ->
  (length (schain (s_text m) p) <= fuel)%nat ->
  let '(l, e, s') := it_walk rnd fuel (SStr m) [] in
  l = str_numbers (schain (s_text m) p) /\ inv s' /\
  (if forallb isnum (schain (s_text m) p) then e = WDone else exists c, e = WConvErr c).
Proof.
  intros fuel m p I V LE.
  pose proof (str_walk_gen fuel (SStr m) [] _ _ _ I (abs_str m)) as H. rewrite V in H.
  exact (H LE (schain_nonempty _ _)).
Qed.

(* ---- freshly built sources satisfy the invariant and stand at the start of their sequence *)
Theorem build_fresh : forall d s, build rnd d = Some s ->
  inv s /\ nostr s = true /\ remaining (abs s) = denoted (abs s).
Proof.
  intros d s. destruct d; cbn [build].
  - intros [= <-]. split; [cbn; unfold inv_lin; cbn; lia|split; reflexivity].
  - unfold mk_linear. destruct (len <? 2); [discriminate|]. intros [= <-].
    split; [cbn; unfold inv_lin; cbn; lia|split; reflexivity].
  - unfold range_check. destruct (_ || _); [discriminate|]. destruct (_ || _); [discriminate|].
    destruct (ftrunc _); [|discriminate]. intros [= <-].
    split; [cbn; unfold inv_lin; cbn; lia|split; reflexivity].
  - intros [= <-]. split; [cbn; unfold inv_fac; cbn; split; [lia|reflexivity]|split; reflexivity].
  - unfold mk_boundary. destruct (len <? 2); [discriminate|]. intros [= <-].
    split; [cbn; unfold inv_bnd; cbn; lia|split; reflexivity].
  - intros [= <-]. split; [cbn; unfold inv_pol; cbn; split; [lia|discriminate]|split; reflexivity].
  - destruct (mk_values t p) as [m|] eqn:E; [|discriminate]. intros [= <-].
    pose proof (mk_values_inv _ _ _ E) as I. split; [exact I|]. split; [reflexivity|].
    rewrite abs_val. unfold denoted. cbn [s_reset IterSpec.remaining]. unfold vrest.
    unfold mk_values in E. destruct (cdouble t p) as [ln [v|]] eqn:C; [|discriminate].
    destruct (fisnan v) eqn:NA; [discriminate|]. injection E as <-. cbn [v_text v_base v_next v_curr].
    now rewrite (vchain_step t p), C, NA.
Qed.
End Refine.
