(* C19 — IterGrammarC.v: completeness of the description grammar: every text of the
   grammar of IterGrammar.v is accepted by the transcribed parser, with exactly the
   description the grammar assigns.  No hypothesis on the libc tables is needed:
   the tokens of the grammar ([utok], [dtok]) are by definition what the table
   answers at that offset through mpt_cuint32 / mpt_cdouble. *)
From Coq Require Import ZArith NArith QArith List Bool Lia.
From MptV Require Import C19.IterModel C19.IterGrammar.
Import ListNotations.
Local Open Scope nat_scope.

Lemma isspace_nz b : isspace b = true -> b <> 0%N.
Proof. intros H ->. discriminate. Qed.

Lemma vis_nextvis t p x q : vis t p x q -> nextvis t p = (Z.of_N x, q).
Proof.
  intros [X [SX [[-> B]|[-> [SP [B G]]]]]]; unfold nextvis.
  - rewrite B. destruct (N.eqb_spec x 0); [contradiction|]. now rewrite SX.
  - destruct (N.eqb_spec (byte_at t p) 0) as [E|E]; [rewrite E in SP; discriminate|].
    rewrite SP, B. destruct (N.eqb_spec x 0); [contradiction|]. now rewrite G.
Qed.

Lemma vis_at t p x q : vis t p x q -> nextvis t q = (Z.of_N x, q).
Proof. intros V. apply vis_nextvis in V. exact (nextvis_idem _ _ _ _ V). Qed.

Ltac nv V := rewrite (vis_nextvis _ _ _ _ V).
Ltac nv' V := rewrite (vis_at _ _ _ _ V).

Lemma zpos_s' q k : zpos q (Z.of_nat (S k) + 1) = S q + S k.
Proof. unfold zpos. lia. Qed.
Lemma zpos_k p k : zpos p (Z.of_nat (S k)) = p + S k.
Proof. unfold zpos. lia. Qed.
Lemma ltb_sk k : (Z.of_nat (S k) <? 0)%Z = false.
Proof. apply Z.ltb_ge. lia. Qed.
Lemma ltb_sk1 k : (Z.of_nat (S k) <? 1)%Z = false.
Proof. apply Z.ltb_ge. lia. Qed.

Lemma parse_range_ok t p k1 a k2 b mn mx : dtok t p k1 a -> dtok t (p + S k1) k2 b ->
  parse_range t p mn mx = ((Z.of_nat (S k1) + Z.of_nat (S k2))%Z, a, b).
Proof.
  unfold dtok, parse_range. intros D1 D2. rewrite D1, ltb_sk, zpos_k, D2, ltb_sk. reflexivity.
Qed.

Lemma lin_complete t p d : lin_form t p d -> lin_of_text t p = Some d.
Proof.
  intros F. unfold lin_of_text. destruct F as [q k n q2 V1 U V2|q k n q2 k1 a k2 b q3 V1 U V2 D1 D2 V3].
  - nv V1. change (Z.of_N c_lpar =? LPAR)%Z with true. cbn [negb].
    unfold utok in U. rewrite U, ltb_sk1, zpos_s'. nv V2.
    change (Z.of_N c_rpar =? COLON)%Z with false. cbv iota. nv' V2. reflexivity.
  - nv V1. change (Z.of_N c_lpar =? LPAR)%Z with true. cbn [negb].
    unfold utok in U. rewrite U, ltb_sk1, zpos_s'. nv V2.
    change (Z.of_N c_colon =? COLON)%Z with true. cbv iota.
    rewrite (parse_range_ok t (S q2) k1 a k2 b) by assumption.
    replace (Z.of_nat (S k1) + Z.of_nat (S k2) <? 0)%Z with false by (symmetry; apply Z.ltb_ge; lia).
    replace (zpos q2 (Z.of_nat (S k1) + Z.of_nat (S k2) + 1)) with (S q2 + S k1 + S k2) by (unfold zpos; lia).
    nv V3. reflexivity.
Qed.

Lemma range_complete rnd t p d : range_form rnd t p d -> range_of_text rnd t p = Some d.
Proof.
  intros F. unfold range_of_text.
  destruct F as [q k1 a k2 b q2 V1 D1 D2 V2|q k1 a k2 b q2 k3 st q3 V1 D1 D2 V2 D3 V3].
  - nv V1. change (Z.of_N c_lpar =? LPAR)%Z with true. cbn [negb].
    rewrite (parse_range_ok t (S q) k1 a k2 b) by assumption.
    replace (Z.of_nat (S k1) + Z.of_nat (S k2) <? 0)%Z with false by (symmetry; apply Z.ltb_ge; lia).
    replace (zpos q (Z.of_nat (S k1) + Z.of_nat (S k2) + 1)) with (S q + S k1 + S k2) by (unfold zpos; lia).
    nv V2. change (Z.of_N c_rpar =? COLON)%Z with false. cbv iota. nv' V2. reflexivity.
  - nv V1. change (Z.of_N c_lpar =? LPAR)%Z with true. cbn [negb].
    rewrite (parse_range_ok t (S q) k1 a k2 b) by assumption.
    replace (Z.of_nat (S k1) + Z.of_nat (S k2) <? 0)%Z with false by (symmetry; apply Z.ltb_ge; lia).
    replace (zpos q (Z.of_nat (S k1) + Z.of_nat (S k2) + 1)) with (S q + S k1 + S k2) by (unfold zpos; lia).
    nv V2. change (Z.of_N c_colon =? COLON)%Z with true. cbv iota.
    unfold dtok in D3. rewrite D3, ltb_sk, zpos_s'. nv V3. reflexivity.
Qed.

Lemma ten_ge : flt (of_N 10) c_dblmin = false.
Proof. vm_compute. reflexivity. Qed.

Lemma fac_complete t p d : fac_form t p d -> fac_of_text t p = Some d.
Proof.
  intros F. unfold fac_of_text.
  destruct F as [q k n q2 V1 U V2
                |q k n q2 k1 b q3 V1 U V2 D1 V3 GB
                |q k n q2 k1 b q3 k2 f q4 V1 U V2 D1 V3 NC D2 GF V4
                |q k n q2 k1 b q3 k2 f q4 k3 i q5 V1 U V2 D1 V3 NC D2 GF V4 D3 V5
                |q k n q2 k1 b q3 k3 i q5 V1 U V2 D1 V3 B58 GB D3 V5];
    nv V1; change (Z.of_N c_lpar =? LPAR)%Z with true; cbn [negb];
    unfold utok in U; rewrite U, ltb_sk, zpos_s'; nv V2.
  - change (Z.of_N c_rpar =? COLON)%Z with false. cbv iota. nv' V2.
    change (Z.of_N c_rpar =? COLON)%Z with false. cbv iota. rewrite ten_ge. nv' V2. reflexivity.
  - change (Z.of_N c_colon =? COLON)%Z with true. cbv iota.
    unfold dtok in D1. rewrite D1, ltb_sk, zpos_s'. nv V3.
    change (Z.of_N c_rpar =? COLON)%Z with false. cbv iota. unfold ge_dblmin in GB. rewrite GB. nv' V3. reflexivity.
  - change (Z.of_N c_colon =? COLON)%Z with true. cbv iota.
    unfold dtok in D1. rewrite D1, ltb_sk, zpos_s'. nv V3.
    change (Z.of_N c_colon =? COLON)%Z with true. cbv iota.
    destruct (N.eqb_spec (byte_at t (S q3)) 58); [contradiction|].
    unfold dtok in D2. rewrite D2, ltb_sk. unfold ge_dblmin in GF. rewrite GF. cbn [orb]. rewrite zpos_s'. nv V4.
    change (Z.of_N c_rpar =? COLON)%Z with false. cbv iota. nv' V4. reflexivity.
  - change (Z.of_N c_colon =? COLON)%Z with true. cbv iota.
    unfold dtok in D1. rewrite D1, ltb_sk, zpos_s'. nv V3.
    change (Z.of_N c_colon =? COLON)%Z with true. cbv iota.
    destruct (N.eqb_spec (byte_at t (S q3)) 58); [contradiction|].
    unfold dtok in D2. rewrite D2, ltb_sk. unfold ge_dblmin in GF. rewrite GF. cbn [orb]. rewrite zpos_s'. nv V4.
    change (Z.of_N c_colon =? COLON)%Z with true. cbv iota.
    unfold dtok in D3. rewrite D3, ltb_sk, zpos_s'. nv V5. reflexivity.
  - change (Z.of_N c_colon =? COLON)%Z with true. cbv iota.
    unfold dtok in D1. rewrite D1, ltb_sk, zpos_s'. nv V3.
    change (Z.of_N c_colon =? COLON)%Z with true. cbv iota.
    destruct (N.eqb_spec (byte_at t (S q3)) 58) as [_|NE]; [|contradiction].
    unfold ge_dblmin in GB. rewrite GB.
    replace (zpos q3 (0 + 1)) with (S q3) by (unfold zpos; lia).
    rewrite (nextvis_at t (S q3) 58 B58) by (discriminate || reflexivity).
    change (Z.of_N 58 =? COLON)%Z with true. cbv iota.
    unfold dtok in D3. rewrite D3, ltb_sk, zpos_s'. nv V5. reflexivity.
Qed.

(* ---- names *)
Lemma name_is_map l s : name_is l s = true -> map tolower l = s.
Proof.
  unfold name_is. intros H. apply andb_prop in H as [L F]. apply Nat.eqb_eq in L.
  revert s L F. induction l as [|a l IH]; intros [|b s] L F; try discriminate; [reflexivity|].
  cbn in *. apply andb_prop in F as [E F]. apply N.eqb_eq in E. rewrite E. f_equal. apply IH; [lia|assumption].
Qed.

Lemma name_excl l s1 s2 : name_is l s1 = true -> s1 <> s2 -> name_is l s2 = false.
Proof.
  intros H1 NE. destruct (name_is l s2) eqn:H2; [|reflexivity].
  apply name_is_map in H1, H2. congruence.
Qed.

Lemma count_alpha_first l n : n = count_alpha l -> 1 <= n -> exists b r, l = b :: r /\ isalpha b = true.
Proof.
  intros -> H. destruct l as [|b r]; cbn in H; [lia|]. destruct (isalpha b) eqn:A; [eauto|lia].
Qed.

Theorem create_complete rnd t d : create_form rnd t d -> parse_create rnd (Some t) = Some d.
Proof.
  intros F. unfold parse_create.
  assert (HEAD : forall p0 n, p0 = skip_space_at t 0 -> n = count_alpha (skipn p0 (t_bytes t)) -> 1 <= n ->
                 (byte_at t p0 =? 0)%N = false).
  { intros p0 n P0 CN N1. destruct (count_alpha_first _ _ CN N1) as [b [r [E A]]].
    unfold byte_at. rewrite <- (Nat.add_0_r p0), <- nth_skip, E. cbn. apply N.eqb_neq. intros ->. discriminate. }
  destruct F as [p0 P0 Z|p0 P0 NZ NA|p0 n name d P0 CN NB NM IS LF|p0 n name d P0 CN NB NM IS FF|p0 n name d P0 CN NB NM IS RF].
  - rewrite <- P0, Z. reflexivity.
  - rewrite <- P0. destruct (N.eqb_spec (byte_at t p0) 0); [contradiction|].
    assert (count_alpha (skipn p0 (t_bytes t)) = 0) as ->.
    { unfold byte_at in NA. rewrite <- (Nat.add_0_r p0), <- nth_skip in NA.
      destruct (skipn p0 (t_bytes t)); [reflexivity|]. cbn in *. now rewrite NA. }
    reflexivity.
  - rewrite <- P0, (HEAD p0 n P0 CN ltac:(lia)), <- CN.
    destruct (Nat.leb_spec 31 n); [lia|]. destruct (Nat.eqb_spec n 0); [lia|].
    rewrite <- NM, IS. now apply lin_complete.
  - rewrite <- P0, (HEAD p0 n P0 CN ltac:(lia)), <- CN.
    destruct (Nat.leb_spec 31 n); [lia|]. destruct (Nat.eqb_spec n 0); [lia|].
    rewrite <- NM, IS.
    assert ((name_is name n_linear || name_is name n_lin) = false) as ->.
    { apply orb_true_iff in IS as [IS|IS]; [apply orb_true_iff in IS as [IS|IS]|];
        rewrite (name_excl name _ n_linear IS ltac:(intros X; vm_compute in X; discriminate X)), (name_excl name _ n_lin IS ltac:(intros X; vm_compute in X; discriminate X)); reflexivity. }
    now apply fac_complete.
  - rewrite <- P0, (HEAD p0 n P0 CN ltac:(lia)), <- CN.
    destruct (Nat.leb_spec 31 n); [lia|]. destruct (Nat.eqb_spec n 0); [lia|].
    rewrite <- NM, IS.
    rewrite (name_excl name _ n_linear IS ltac:(intros X; vm_compute in X; discriminate X)), (name_excl name _ n_lin IS ltac:(intros X; vm_compute in X; discriminate X)),
            (name_excl name _ n_factor IS ltac:(intros X; vm_compute in X; discriminate X)), (name_excl name _ n_fact IS ltac:(intros X; vm_compute in X; discriminate X)),
            (name_excl name _ n_fac IS ltac:(intros X; vm_compute in X; discriminate X)). cbn [orb].
    now apply range_complete.
Qed.

Theorem create_iff rnd t d : parse_create rnd (Some t) = Some d <-> create_form rnd t d.
Proof. split; [apply create_sound|apply create_complete]. Qed.

(* the grammar is unambiguous: a text has at most one reading *)
Corollary create_form_unique rnd t d1 d2 : create_form rnd t d1 -> create_form rnd t d2 -> d1 = d2.
Proof. intros H1 H2. apply create_complete in H1, H2. congruence. Qed.
