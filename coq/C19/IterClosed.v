(* C19 — IterClosed.v: under exact arithmetic the linear source is its closed form:
   len elements, element i = a + i*(b-a)/(len-1); the first is a, the last is b. *)
From Coq Require Import ZArith NArith QArith List Bool Lia.
From MptV Require Import C19.IterModel C19.IterSpec.
Local Open Scope N_scope.

Lemma qeq_bool_pos n : 0 < n -> Qeq_bool (Z.of_N n # 1) 0 = false.
Proof.
  intros H. destruct (Qeq_bool (Z.of_N n # 1) 0) eqn:E; [|reflexivity].
  apply Qeq_bool_iff in E. unfold Qeq in E. cbn in E. lia.
Qed.

Lemma linear_closed_form : forall len a b m,
  mk_linear rexact len (Fin a) (Fin b) = Some m ->
  2 <= len /\ l_elem m = len /\ l_pos m = 0 /\
  forall i, lin_at rexact m i = Fin (lin_closed a b (len - 1) i).
Proof.
  intros len a b m. unfold mk_linear. destruct (N.ltb_spec len 2); [discriminate|].
  intros [= <-]. cbn [l_elem l_pos]. repeat split; try assumption.
  intros i. unfold lin_at. cbn [l_base l_step]. unfold fsub, fneg, fadd, fdiv, fmul, of_N, rexact.
  rewrite qeq_bool_pos by lia. reflexivity.
Qed.

Lemma lin_closed_first a b n : (lin_closed a b n 0 == a)%Q.
Proof. unfold lin_closed. cbn. ring. Qed.

Lemma lin_closed_last a b n : 0 < n -> (lin_closed a b n n == b)%Q.
Proof.
  intros H. unfold lin_closed. assert (~ (Z.of_N n # 1 == 0)%Q). { unfold Qeq. cbn. lia. }
  field. assumption.
Qed.

(* consecutive elements differ by the same step (b-a)/n *)
Lemma lin_closed_step a b n i :
  (lin_closed a b n (i + 1) - lin_closed a b n i == (b - a) / (Z.of_N n # 1))%Q.
Proof.
  unfold lin_closed. replace (Z.of_N (i + 1) # 1)%Q with ((Z.of_N i # 1) + 1)%Q.
  - ring.
  - unfold Qplus. cbn. f_equal. lia.
Qed.
