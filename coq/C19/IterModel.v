(* C19 — IterModel.v: executable mechanism model of the value generators and
   text/buffer iterators (NO proofs in this file).

   Transcribed from (tree with the C19 fix: commits):
     mptplot/values/iterator_linear.c   (linear + range: one state machine)
     mptplot/values/iterator_factor.c, iterator_boundary.c, iterator_poly.c,
     mptplot/values/iterator_values.c, iterator_create.c, iterator_profile.c,
     mptplot/values/values_linear.c, values_bound.c
     mptcore/meta/iterator_string.c, mptcore/array/meta_buffer.c (+ slice_next.c),
     mptcore/types/iterator_consume.c, mptcore/misc/string_nextvis.c,
     mptcore/convert/cdouble.c, convert_int.c (mpt_cuint32), convert_string.c (number case),
     mptcore/convert/convert_key.c (mpt_convert_key), mptplot/values/range_set.c
   iterator_string.c is modelled WITH docs/C19_string_vector.diff, docs/C19_string_key_separator.diff and
   docs/C19_string_meta_target.diff (see docs/notes_C19.md, round 4).

   Values.  A C double is modelled by [fv]: a finite value is the exact rational
   it stands for, the non-finite values are classes.  Every arithmetic operation
   of the C formulas is the exact operation followed by [rnd : Q -> fv]; the
   model is parametric in [rnd].  [rnd64] is IEEE-754 binary64 round-to-nearest-even
   (the instance the correspondence run uses, compared bit for bit), [rexact] does
   not round (the instance of the closed-form theorem).  The sign of zero is not
   represented (no formula of these files can observe it).

   libc.  strtod / strtoumax are NOT modelled: a [text] carries, for every offset,
   what libc answers there ([dres]/[ures]: consumed length, ERANGE flag, value).
   The tables are produced by the generator from the same libc and consumed here. *)
From Coq Require Import ZArith NArith QArith List Bool.
Import ListNotations.
Local Open Scope Z_scope.

(* ------------------------------------------------------------------ values *)
Inductive fv := Fin (q : Q) | PInf | NInf | NaN.

Definition rexact (q : Q) : fv := Fin q.

(* m * 2^e as a reduced fraction (m odd or e >= 0 after stripping) *)
Fixpoint strip2 (m : positive) (k : N) : positive * N :=
  match m with
  | xO m' => if (k =? 0)%N then (m, k) else strip2 m' (N.pred k)
  | _ => (m, k)
  end.
Definition dyadic (m e : Z) : fv :=
  if 0 <=? e then Fin (Z.shiftl m e # 1) else
  match m with
  | Z0 => Fin 0
  | Zpos p => let (p', k) := strip2 p (Z.to_N (- e)) in Fin (Zpos p' # Pos.shiftl 1 k)
  | Zneg p => let (p', k) := strip2 p (Z.to_N (- e)) in Fin (Zneg p' # Pos.shiftl 1 k)
  end.

Definition rnd64 (q : Q) : fv :=
  let n := Z.abs (Qnum q) in
  if n =? 0 then Fin 0 else
  let d := Zpos (Qden q) in
  let e0 := Z.log2 n - Z.log2 d in
  let ge := if 0 <=? e0 then Z.shiftl d e0 <=? n else d <=? Z.shiftl n (- e0) in
  let e1 := if ge then e0 else e0 - 1 in            (* 2^e1 <= |q| < 2^(e1+1) *)
  let ex := Z.max (e1 - 52) (-1074) in              (* exponent of the last place *)
  let num := if 0 <=? ex then n else Z.shiftl n (- ex) in
  let den := if 0 <=? ex then Z.shiftl d ex else d in
  let fl := num / den in
  let r := num mod den in
  let m := match 2 * r ?= den with
           | Lt => fl | Gt => fl + 1
           | Eq => if Z.even fl then fl else fl + 1 end in
  if m =? 0 then Fin 0 else
  if 1024 <=? Z.log2 m + ex then (if 0 <? Qnum q then PInf else NInf) else
  dyadic (if 0 <? Qnum q then m else - m) ex.

Definition of_N (n : N) : fv := Fin (Z.of_N n # 1).

Definition qsgn (q : Q) : Z := Z.sgn (Qnum q).
Definition fsgn (x : fv) : Z := match x with Fin q => qsgn q | PInf => 1 | NInf => -1 | NaN => 0 end.
Definition inf_of (s : Z) : fv := if 0 <? s then PInf else NInf.
Definition fneg (x : fv) : fv :=
  match x with Fin q => Fin (Qopp q) | PInf => NInf | NInf => PInf | NaN => NaN end.
Definition fisnan (x : fv) : bool := match x with NaN => true | _ => false end.

Section Arith.
Variable rnd : Q -> fv.

Definition fadd (x y : fv) : fv :=
  match x, y with
  | NaN, _ => NaN | _, NaN => NaN
  | PInf, NInf => NaN | NInf, PInf => NaN
  | PInf, _ => PInf | _, PInf => PInf
  | NInf, _ => NInf | _, NInf => NInf
  | Fin a, Fin b => rnd (a + b)
  end.
Definition fsub (x y : fv) : fv := fadd x (fneg y).
Definition fmul (x y : fv) : fv :=
  match x, y with
  | NaN, _ => NaN | _, NaN => NaN
  | Fin a, Fin b => rnd (a * b)
  | _, _ => let s := fsgn x * fsgn y in if s =? 0 then NaN else inf_of s
  end.
(* a zero divisor is taken as +0 (see header) *)
Definition fdiv (x y : fv) : fv :=
  match x, y with
  | NaN, _ => NaN | _, NaN => NaN
  | Fin a, Fin b =>
      if Qeq_bool b 0 then (if Qeq_bool a 0 then NaN else inf_of (qsgn a)) else rnd (a / b)
  | Fin _, _ => Fin 0
  | _, Fin b => inf_of (fsgn x * (if Qeq_bool b 0 then 1 else qsgn b))
  | _, _ => NaN
  end.
End Arith.

(* x < y, x <= y with the IEEE rule that every comparison with NaN is false *)
Definition flt (x y : fv) : bool :=
  match x, y with
  | NaN, _ => false | _, NaN => false
  | Fin a, Fin b => match a ?= b with Lt => true | _ => false end
  | NInf, NInf => false | NInf, _ => true | _, NInf => false
  | PInf, _ => false | _, PInf => true
  end%Q.
Definition fle (x y : fv) : bool :=
  match x, y with
  | NaN, _ => false | _, NaN => false
  | Fin a, Fin b => match a ?= b with Gt => false | _ => true end
  | NInf, _ => true | _, NInf => false
  | _, PInf => true | PInf, _ => false
  end%Q.
(* (int) x : truncation; None = undefined conversion *)
Definition ftrunc (x : fv) : option Z :=
  match x with Fin q => Some (Z.quot (Qnum q) (Zpos (Qden q))) | _ => None end.

(* constants of the sources as binary64 values *)
Definition c_1em6 : fv := dyadic 4722366482869645 (-72).     (* 1e-6 *)
Definition c_0p1 : fv := dyadic 7205759403792794 (-56).      (* 0.1 *)
Definition c_dblmin : fv := dyadic 1 (-1022).                (* DBL_MIN *)
Definition c_intmax : fv := of_N 2147483647.
Definition UINT_MAX : N := 4294967295%N.
Definition wrap32 (z : Z) : N := Z.to_N (z mod 4294967296).
(* element count returned through int: limited to INT_MAX *)
Definition as_int (n : N) : Z := Z.min (Z.of_N n) 2147483647.

(* result codes *)
Definition BadArgument := -1. Definition BadValue := -2. Definition BadType := -3.
Definition BadOperation := -4. Definition MissingData := -16.
Definition T_d := 100. Definition T_s := 115. Definition T_vec_c := 67.
Definition T_conv := 128.    (* TypeConvertablePtr *)

(* ------------------------------------------------------------------ text + libc answers *)
Record dres := { d_len : nat; d_ovf : bool; d_val : fv }.       (* strtod *)
Record ures := { u_len : nat; u_rng : bool; u_val : N }.        (* strtoumax, base 0 *)
Record text := { t_bytes : list N; t_d : list dres; t_u : list ures }.

Definition dnone := {| d_len := O; d_ovf := false; d_val := Fin 0 |}.
Definition unone := {| u_len := O; u_rng := false; u_val := 0%N |}.
Definition byte_at (t : text) (p : nat) : N := nth p (t_bytes t) 0%N.   (* 0 = terminator *)
Definition tlen (t : text) : nat := length (t_bytes t).

Definition isspace (b : N) : bool := ((9 <=? b) && (b <=? 13) || (b =? 32))%N.
Definition isgraph (b : N) : bool := ((33 <=? b) && (b <=? 126))%N.
Definition isupper (b : N) : bool := ((65 <=? b) && (b <=? 90))%N.
Definition islower (b : N) : bool := ((97 <=? b) && (b <=? 122))%N.
Definition isalpha (b : N) : bool := isupper b || islower b.
Definition tolower (b : N) : N := if isupper b then (b + 32)%N else b.
Definition all_space (l : list N) : bool := forallb isspace l.

Fixpoint skip_space (l : list N) (p : nat) : nat :=
  match l with
  | b :: r => if isspace b then skip_space r (S p) else p
  | [] => p
  end.
Definition skip_space_at (t : text) (p : nat) : nat := skip_space (skipn p (t_bytes t)) p.
Fixpoint count_alpha (l : list N) : nat :=
  match l with
  | b :: r => if isalpha b then S (count_alpha r) else O
  | [] => O
  end.

(* mpt_cdouble(&v, text + p, 0): result code and the value stored (None = target untouched) *)
Definition cdouble (t : text) (p : nat) : Z * option fv :=
  if (byte_at t p =? 0)%N then (0, None) else
  let r := nth p (t_d t) dnone in
  if d_ovf r then (BadValue, None) else
  match d_len r with
  | O => if all_space (skipn p (t_bytes t)) then (0, None) else (BadType, None)
  | S _ => (Z.of_nat (d_len r), Some (d_val r))
  end.

(* mpt_cuint32(&v, text + p, 0, 0) *)
Definition cuint32 (t : text) (p : nat) : Z * option N :=
  if (byte_at t p =? 0)%N then (0, None) else
  let r := nth p (t_u t) unone in
  if u_rng r then (BadValue, None) else
  match u_len r with
  | O => if all_space (skipn p (t_bytes t)) then (0, None) else (BadType, None)
  | S _ =>
      if negb (u_val r =? 0)%N && (byte_at t (skip_space_at t p) =? 45)%N then (BadValue, None)
      else if (UINT_MAX <? u_val r)%N then (BadValue, None)
      else (Z.of_nat (u_len r), Some (u_val r))
  end.

(* mpt_string_nextvis(&str): code (byte or error) and the new position *)
Definition nextvis (t : text) (p : nat) : Z * nat :=
  let c := byte_at t p in
  if (c =? 0)%N then (MissingData, p) else
  if isspace c then
    let c2 := byte_at t (S p) in
    if (c2 =? 0)%N then (MissingData, p)
    else if isgraph c2 then (Z.of_N c2, S p) else (BadValue, p)
  else (Z.of_N c, p).

Definition zpos (p : nat) (z : Z) : nat := Z.to_nat (Z.of_nat p + z).

(* ------------------------------------------------------------------ the state machines *)
(* iterator_linear.c: linear and range iterators *)
Record lin := { l_base : fv; l_step : fv; l_elem : N; l_pos : N }.
(* iterator_factor.c *)
Record fac := { f_base : fv; f_fact : fv; f_init : fv; f_elem : N; f_pos : N; f_curr : fv }.
(* iterator_boundary.c *)
Record bnd := { b_left : fv; b_inter : fv; b_right : fv; b_elem : N; b_pos : N }.
(* iterator_poly.c: grid = None: no reference data (UINT_MAX positions); p_cache = result kept in d->val *)
Record pol := { p_grid : option (list fv); p_coef : list (fv * fv); p_pos : N; p_cache : option fv }.
(* iterator_values.c: text copy starts at offset v_base of the description *)
Record vals := { v_text : text; v_base : nat; v_next : option nat; v_curr : fv }.
(* iterator_string.c: content = text from s_base; val/end/restore as offsets (save = original byte);
   s_sep = the separator configuration stored in front of the text (empty: none) *)
Record stri := { s_text : text; s_sep : list N; s_base : nat; s_val : option nat; s_end : option nat; s_restore : option nat }.
(* meta_buffer.c over a 'c' array: data = None: no buffer; off/len = current slice; str = string address *)
Record bufi := { m_data : option (list N); m_off : nat; m_len : nat; m_str : option nat; m_args : bool }.

(* mptcore/types.h: mpt::source<T> - iterator over a span of c_elems (size() elements) with position and step;
   c_ty = the type id of T (what advance() answers while a further element exists) *)
Record csrc := { c_elems : list fv; c_pos : Z; c_step : Z; c_ty : Z }.

Inductive src := SLin (s : lin) | SFac (s : fac) | SBnd (s : bnd) | SPol (s : pol)
               | SVal (s : vals) | SStr (s : stri) | SBuf (s : bufi) | SSrc (s : csrc).

(* what reading the current element gives *)
Inductive vres :=
| VNone                                   (* value() returned 0 *)
| VErr (c : Z)                            (* conversion to double failed *)
| VNum (c : Z) (v : option fv)            (* conversion result code, stored value (None: target untouched) *)
| VStr (b : list N) | VVec (b : list N).  (* buffer iterators: string / vector element *)

(* what a description / constructor call asks for (result of the parsers) *)
Inductive desc :=
| PDefault                                   (* no description: range 0..1, step 0.1 *)
| PLin (len : N) (a b : fv)                  (* mpt_iterator_linear(len, a, b) *)
| PRange (mn mx step : fv)
| PFac (base fact init : fv) (elem : N)
| PBnd (len : N) (l i r : fv)
| PPol (coef : list (fv * fv)) (grid : option (list fv))
| PVals (t : text) (p : nat).                (* mpt_iterator_values(text + p) *)

Section Machines.
Variable rnd : Q -> fv.
Notation fadd := (fadd rnd). Notation fsub := (fsub rnd).
Notation fmul := (fmul rnd). Notation fdiv := (fdiv rnd).

(* ---- linear / range *)
Definition lin_at (s : lin) (k : N) : fv := fadd (l_base s) (fmul (of_N k) (l_step s)).
Definition lin_value (s : lin) : option fv :=
  if (l_pos s <? l_elem s)%N then Some (lin_at s (l_pos s)) else None.
Definition lin_advance (s : lin) : Z * lin :=
  if (l_elem s <=? l_pos s)%N then (MissingData, s) else
  let p := (l_pos s + 1)%N in
  (if (p =? l_elem s)%N then 0 else T_d,
   {| l_base := l_base s; l_step := l_step s; l_elem := l_elem s; l_pos := p |}).
Definition lin_reset (s : lin) : Z * lin :=
  (as_int (l_elem s), {| l_base := l_base s; l_step := l_step s; l_elem := l_elem s; l_pos := 0 |}).

(* mpt_iterator_linear(len, start, end) *)
Definition mk_linear (len : N) (a b : fv) : option lin :=
  if (len <? 2)%N then None else
  Some {| l_base := a; l_step := fdiv (fsub b a) (of_N (len - 1)); l_elem := len; l_pos := 0 |}.

(* ---- factor *)
Definition fac_value (s : fac) : option fv :=
  if (f_pos s <? f_elem s)%N then Some (f_curr s) else None.
Definition fac_advance (s : fac) : Z * fac :=
  if (f_elem s <=? f_pos s)%N then (MissingData, s) else
  let c := if (f_pos s =? 0)%N then f_base s else fmul (f_curr s) (f_fact s) in
  let p := (f_pos s + 1)%N in
  (if (p =? f_elem s)%N then 0 else T_d,
   {| f_base := f_base s; f_fact := f_fact s; f_init := f_init s; f_elem := f_elem s; f_pos := p; f_curr := c |}).
Definition fac_reset (s : fac) : Z * fac :=
  (as_int (f_elem s),
   {| f_base := f_base s; f_fact := f_fact s; f_init := f_init s; f_elem := f_elem s; f_pos := 0; f_curr := f_init s |}).
Definition mk_factor (base fact init : fv) (elem : N) : fac :=
  {| f_base := base; f_fact := fact; f_init := init; f_elem := elem; f_pos := 0; f_curr := init |}.

(* ---- boundary *)
Definition bnd_at (s : bnd) (k : N) : fv :=
  if (k =? 0)%N then b_left s else if (k <? b_elem s - 1)%N then b_inter s else b_right s.
Definition bnd_value (s : bnd) : option fv :=
  if (b_pos s <? b_elem s)%N then Some (bnd_at s (b_pos s)) else None.
Definition bnd_advance (s : bnd) : Z * bnd :=
  if (b_elem s <=? b_pos s)%N then (MissingData, s) else
  let p := (b_pos s + 1)%N in
  (if (p =? b_elem s)%N then 0 else T_d,
   {| b_left := b_left s; b_inter := b_inter s; b_right := b_right s; b_elem := b_elem s; b_pos := p |}).
Definition bnd_reset (s : bnd) : Z * bnd :=
  (as_int (b_elem s),
   {| b_left := b_left s; b_inter := b_inter s; b_right := b_right s; b_elem := b_elem s; b_pos := 0 |}).
Definition mk_boundary (len : N) (l i r : fv) : option bnd :=
  if (len <? 2)%N then None else
  Some {| b_left := l; b_inter := i; b_right := r; b_elem := len; b_pos := 0 |}.

(* ---- polynomial *)
Fixpoint pow_mul (prod x : fv) (k : nat) : fv :=
  match k with O => prod | S k => pow_mul (fmul prod x) x k end.
Fixpoint poly_sum (cs : list (fv * fv)) (x sum : fv) : fv :=
  match cs with
  | [] => sum
  | (m, sh) :: r => poly_sum r x (fadd sum (pow_mul m (fadd x sh) (length r)))
  end.
Definition poly_eval (cs : list (fv * fv)) (x : fv) : fv :=
  match cs with [] => x | _ => poly_sum cs x (Fin 0) end.
Definition pol_count (s : pol) : N :=
  match p_grid s with Some g => N.of_nat (length g) | None => UINT_MAX end.
Definition pol_arg (s : pol) (k : N) : fv :=
  match p_grid s with Some g => nth (N.to_nat k) g NaN | None => of_N k end.
Definition pol_at (s : pol) (k : N) : fv := poly_eval (p_coef s) (pol_arg s k).
Definition pol_value (s : pol) : option fv * pol :=
  if (pol_count s <=? p_pos s)%N then (None, s) else
  match p_cache s with
  | Some v => (Some v, s)
  | None => let v := pol_at s (p_pos s) in
            (Some v, {| p_grid := p_grid s; p_coef := p_coef s; p_pos := p_pos s; p_cache := Some v |})
  end.
Definition pol_advance (s : pol) : Z * pol :=
  if (pol_count s <=? p_pos s)%N
  then (match p_grid s with Some _ => BadOperation | None => MissingData end, s) else
  let p := (p_pos s + 1)%N in
  (if (p =? pol_count s)%N then 0 else T_d,
   {| p_grid := p_grid s; p_coef := p_coef s; p_pos := p; p_cache := None |}).
Definition pol_reset (s : pol) : Z * pol :=
  (match p_grid s with Some g => as_int (N.of_nat (length g)) | None => 0 end,
   {| p_grid := p_grid s; p_coef := p_coef s; p_pos := 0; p_cache := None |}).

(* ---- value list *)
Definition val_value (s : vals) : option fv :=
  match v_next s with Some _ => Some (v_curr s) | None => None end.
Definition val_set (s : vals) (n : option nat) (c : fv) : vals :=
  {| v_text := v_text s; v_base := v_base s; v_next := n; v_curr := c |}.
Definition val_advance (s : vals) : Z * vals :=
  match v_next s with
  | None => (MissingData, s)
  | Some p =>
      match cdouble (v_text s) p with
      | (_, None) as r => if fst r =? 0 then (0, val_set s None (v_curr s)) else (BadValue, s)
      | (len, Some v) => if fisnan v then (BadValue, s) else (T_d, val_set s (Some (zpos p len)) v)
      end
  end.
Definition val_reset (s : vals) : Z * vals :=
  match cdouble (v_text s) (v_base s) with
  | (r, None) => if r =? 0 then (MissingData, val_set s (v_next s) (Fin 0)) else (BadValue, s)
  | (len, Some v) => if fisnan v then (BadValue, val_set s (v_next s) v)
                     else (0, val_set s (Some (zpos (v_base s) len)) v)
  end.
(* mpt_iterator_values(text + p) *)
Definition mk_values (t : text) (p : nat) : option vals :=
  match cdouble t p with
  | (len, Some v) => if fisnan v then None
                     else Some {| v_text := t; v_base := p; v_next := Some (zpos p len); v_curr := v |}
  | _ => None
  end.

(* ---- mpt::source<T> (mptcore/types.h), WITH docs/C19_span_negative_length.diff: a span created with a negative
   length is empty.  value(): _pos < 0 || !nth(_pos) -> none;  advance(): outside -> MissingData, else _pos += _step and
   0 when that leaves the span, else the type;  reset(): _pos = step < 0 ? size - 1 : 0, returns the size *)
Definition csrc_size (s : csrc) : Z := Z.of_nat (length (c_elems s)).
Definition csrc_in (s : csrc) (p : Z) : bool := (0 <=? p) && (p <? csrc_size s).
Definition csrc_set (s : csrc) (p : Z) : csrc :=
  {| c_elems := c_elems s; c_pos := p; c_step := c_step s; c_ty := c_ty s |}.
Definition csrc_value (s : csrc) : option fv :=
  if csrc_in s (c_pos s) then nth_error (c_elems s) (Z.to_nat (c_pos s)) else None.
Definition csrc_advance (s : csrc) : Z * csrc :=
  if csrc_in s (c_pos s) then
    let p := c_pos s + c_step s in (if csrc_in s p then c_ty s else 0, csrc_set s p)
  else (MissingData, s).
Definition csrc_start (s : csrc) : Z := if c_step s <? 0 then csrc_size s - 1 else 0.
Definition csrc_reset (s : csrc) : Z * csrc := (csrc_size s, csrc_set s (csrc_start s)).
(* source(const T *val, long len, int step) over the first len of the given elements *)
Definition mk_csrc (elems : list fv) (len step ty : Z) : csrc :=
  {| c_elems := firstn (Z.to_nat (Z.max len 0)) elems;
     c_pos := if step <? 0 then len - 1 else 0; c_step := step; c_ty := ty |}.

(* ---- string iterator *)
Definition str_set (s : stri) (v e r : option nat) : stri :=
  {| s_text := s_text s; s_sep := s_sep s; s_base := s_base s; s_val := v; s_end := e; s_restore := r |}.
(* element conversion to double: parseConvertElement(.., 'd', &dest) *)
Definition str_conv_d (s : stri) : vres * stri :=
  match s_val s with
  | None => (VNum 0 None, s)
  | Some p =>
      if (byte_at (s_text s) p =? 0)%N then (VErr MissingData, str_set s (s_val s) (s_end s) None) else
      let p' := skip_space_at (s_text s) p in
      match cdouble (s_text s) p' with
      | (r, v) =>
          if r <? 0 then (VErr r, s) else
          let rs := zpos p' r in
          (* only white space consumed: no element *)
          if all_space (firstn (rs - p) (skipn p (t_bytes (s_text s)))) then (VErr MissingData, s) else
          let keep := match s_end s with Some e => Nat.ltb rs e | None => false end in
          (VNum T_s v, str_set s (s_val s) (s_end s) (if keep then Some rs else None))
      end
  end.
(* element as string: remaining text (None = null pointer) *)
Definition str_conv_s (s : stri) : option (list N) * stri :=
  match s_val s with
  | None => (None, s)
  | Some p =>
      if (byte_at (s_text s) p =? 0)%N then (None, str_set s (s_val s) (s_end s) None) else
      (Some (skipn (skip_space_at (s_text s) p) (t_bytes (s_text s))), str_set s (s_val s) (s_end s) None)
  end.
Definition str_value (s : stri) : vres * stri :=
  match s_val s with None => (VNone, s) | Some _ => str_conv_d s end.
Definition str_advance (s : stri) : Z * stri :=
  match s_end s with
  | None => (MissingData, s)
  | Some e =>
      match s_val s with
      | None => (0, str_set s None None (s_restore s))
      | Some p =>
          if Nat.eqb e p then (0, str_set s None None (s_restore s)) else
          match s_restore s with
          | Some r => (T_s, str_set s (Some (S r)) (s_end s) None)
          | None => (0, str_set s None (s_end s) None)       (* no terminator in the remaining text *)
          end
      end
  end.
Definition str_reset (s : stri) : Z * stri :=
  (1, str_set s (Some (s_base s)) (Some (tlen (s_text s))) None).
(* the clone is mpt_iterator_string(it->val, stored separators); without a text no separators are kept *)
Definition str_clone (s : stri) : stri :=
  let b := match s_val s with Some p => p | None => tlen (s_text s) end in
  {| s_text := s_text s; s_sep := match s_val s with Some _ => s_sep s | None => [] end;
     s_base := b; s_val := Some b; s_end := Some (tlen (s_text s)); s_restore := None |}.
(* mpt_iterator_string(text, sep) *)
Definition mk_string_sep (sep : list N) (t : text) : stri :=
  {| s_text := t; s_sep := sep; s_base := O; s_val := Some O; s_end := Some (tlen t); s_restore := None |}.
Definition default_sep : list N := [32; 44; 59; 47; 58]%N.        (* " ,;/:" *)
Definition mk_string (t : text) : stri := mk_string_sep default_sep t.

(* ---- element conversions that hand out bytes: keyword ('k') and 'c' vector *)
(* what a reader finds at a position holding a byte: no element (code; clear = the pending terminator is
   forgotten), or an element ending at offset rs (the byte replaced by the terminator) with its bytes *)
Inductive rres := RFail (c : Z) (clear : bool) | ROk (rs : nat) (b : list N).
Definition str_read (rd : text -> nat -> rres) (s : stri) : Z * option (list N) * stri :=
  match s_val s with
  | None => (0, None, s)
  | Some p =>
      if (byte_at (s_text s) p =? 0)%N then (MissingData, None, str_set s (s_val s) (s_end s) None) else
      match rd (s_text s) p with
      | RFail c clear => (c, None, if clear then str_set s (s_val s) (s_end s) None else s)
      | ROk rs b =>
          let keep := match s_end s with Some e => Nat.ltb rs e | None => false end in
          (T_s, Some b, str_set s (s_val s) (s_end s) (if keep then Some rs else None))
      end
  end.
(* mpt_convert_key (convert_key.c): the scanning loops; n = bytes consumed behind the key start, len = key length *)
Definition is_sep (sep : list N) (b : N) : bool := existsb (N.eqb b) sep.
Fixpoint key_scan (sep : list N) (anysp : bool) (l : list N) (n len : nat) : nat * nat :=
  match l with
  | [] => (n, len)
  | b :: r =>
      if (b =? 0)%N then (n, len) else
      if isspace b then (if anysp then (n, len) else key_scan sep anysp r (S n) len)
      else if is_sep sep b then (S n, len)
      else key_scan sep anysp r (S n) (S n)
  end.
Fixpoint word_len (l : list N) (n : nat) : nat :=
  match l with
  | [] => n
  | b :: r => if (b =? 0)%N || isspace b then n else word_len r (S n)
  end.
(* mpt_convert_key(&txt, sep, &klen) with txt = text + p: key start, key length, end of the consumed text *)
Definition convert_key (t : text) (sep : list N) (p : nat) : option (nat * nat * nat) :=
  let k := skip_space_at t p in
  let l := skipn k (t_bytes t) in
  let (n, len) := match sep with
                  | [] => let n := word_len l O in (n, n)
                  | _ => key_scan sep (existsb isspace sep) l O O
                  end in
  if Nat.eqb n O then None else Some (k, len, (k + n)%nat).
(* parseConvertElement(.., 'k', &key) WITH docs/C19_string_key_separator.diff: a consumed separator is the
   byte the terminator replaces.  The caller sees the key up to the terminator. *)
Definition rd_key (sep : list N) (t : text) (p : nat) : rres :=
  match convert_key t sep p with
  | None => RFail BadValue true
  | Some (k, len, e) =>
      let rs := if Nat.ltb (k + len) e && negb (isspace (byte_at t (e - 1))) then (e - 1)%nat else e in
      ROk rs (firstn (rs - k) (skipn k (t_bytes t)))
  end.
(* parseConvertElement(.., vector 'c', &vec) WITH docs/C19_string_vector.diff: the next word, stops at the
   end of the text; the vector starts at the element position *)
Definition rd_vec (t : text) (p : nat) : rres :=
  let k := skip_space_at t p in
  let rs := (k + word_len (skipn k (t_bytes t)) O)%nat in
  ROk rs (firstn (rs - p) (skipn p (t_bytes t))).
Definition str_conv_k (s : stri) := str_read (rd_key (s_sep s)) s.
Definition str_conv_vec (s : stri) := str_read rd_vec s.

(* ---- buffer / argument iterators *)
Fixpoint find0 (l : list N) : option nat :=
  match l with
  | [] => None
  | b :: r => if (b =? 0)%N then Some O else match find0 r with Some k => Some (S k) | None => None end
  end.
Definition buf_set (s : bufi) (o l : nat) (st : option nat) : bufi :=
  {| m_data := m_data s; m_off := o; m_len := l; m_str := st; m_args := m_args s |}.
(* mpt_slice_next for content type 'c': result code, new (off, len) *)
Definition slice_next (d : list N) (off len : nat) : Z * nat * nat :=
  if Nat.ltb (length d) off then (MissingData, off, len) else
  let rest := (length d - off - len)%nat in
  if negb (Nat.eqb len O) && Nat.eqb rest O then (0, (off + len)%nat, O) else
  if Nat.ltb rest 1%nat then (MissingData, off, len) else
  match find0 (skipn (off + len) d) with
  | Some k => (T_s, (off + len)%nat, S k)
  | None => (T_vec_c, (off + len)%nat, rest)
  end.
Definition buf_value (s : bufi) : vres :=
  match m_data s with
  | None => VNone
  | Some d =>
      if Nat.eqb (m_len s) O then VNone else
      match m_str s with
      | None => VVec (firstn (m_len s) (skipn (m_off s) d))
      | Some p => let r := skipn p d in
                  VStr (firstn (match find0 r with Some k => k | None => length r end) r)
      end
  end.
Definition buf_advance (s : bufi) : Z * bufi :=
  match m_data s with
  | None => (MissingData, buf_set s (m_off s) (m_len s) None)
  | Some d =>
      match slice_next d (m_off s) (m_len s) with
      | (t, o, l) => (t, buf_set s o l (if t =? T_s then Some o else None))
      end
  end.
Definition buf_reset0 (s : bufi) : Z * bufi :=
  let (t, s') := buf_advance (buf_set s O O (m_str s)) in
  (if t <? 0 then 0 else t, s').
Definition buf_reset (s : bufi) : Z * bufi :=
  if m_args s then
    let (r, s') := buf_reset0 s in
    if r <=? 0 then (r, s') else buf_advance s'
  else buf_reset0 s.
Definition mk_buffer (d : option (list N)) (args : bool) : bufi :=
  let s := {| m_data := d; m_off := O; m_len := O; m_str := None; m_args := args |} in
  match d with None => s | Some _ => snd (buf_reset s) end.

(* ---- the iterator interface over all kinds *)
Definition it_value (s : src) : vres * src :=
  match s with
  | SLin m => (match lin_value m with Some v => VNum 0 (Some v) | None => VNone end, s)
  | SFac m => (match fac_value m with Some v => VNum 0 (Some v) | None => VNone end, s)
  | SBnd m => (match bnd_value m with Some v => VNum 0 (Some v) | None => VNone end, s)
  | SPol m => let (v, m') := pol_value m in
              (match v with Some v => VNum 0 (Some v) | None => VNone end, SPol m')
  | SVal m => (match val_value m with Some v => VNum 0 (Some v) | None => VNone end, s)
  | SStr m => let (v, m') := str_value m in (v, SStr m')
  | SBuf m => (buf_value m, s)
  | SSrc m => (match csrc_value m with Some v => VNum 0 (Some v) | None => VNone end, s)
  end.
Definition it_advance (s : src) : Z * src :=
  match s with
  | SLin m => let (r, m') := lin_advance m in (r, SLin m')
  | SFac m => let (r, m') := fac_advance m in (r, SFac m')
  | SBnd m => let (r, m') := bnd_advance m in (r, SBnd m')
  | SPol m => let (r, m') := pol_advance m in (r, SPol m')
  | SVal m => let (r, m') := val_advance m in (r, SVal m')
  | SStr m => let (r, m') := str_advance m in (r, SStr m')
  | SBuf m => let (r, m') := buf_advance m in (r, SBuf m')
  | SSrc m => let (r, m') := csrc_advance m in (r, SSrc m')
  end.
Definition it_reset (s : src) : Z * src :=
  match s with
  | SLin m => let (r, m') := lin_reset m in (r, SLin m')
  | SFac m => let (r, m') := fac_reset m in (r, SFac m')
  | SBnd m => let (r, m') := bnd_reset m in (r, SBnd m')
  | SPol m => let (r, m') := pol_reset m in (r, SPol m')
  | SVal m => let (r, m') := val_reset m in (r, SVal m')
  | SStr m => let (r, m') := str_reset m in (r, SStr m')
  | SBuf m => let (r, m') := buf_reset m in (r, SBuf m')
  | SSrc m => let (r, m') := csrc_reset m in (r, SSrc m')
  end.
(* metatype clone; None = not offered (polynomial) *)
Definition it_clone (s : src) : option src :=
  match s with
  | SPol _ => None
  | SStr m => Some (SStr (str_clone m))
  | _ => Some s
  end.

(* mpt_iterator_consume(it, 'd', &dest): result code, value copied to dest *)
Definition it_consume (s : src) : Z * option fv * src :=
  match it_value s with
  | (VNone, s1) => (MissingData, None, s1)
  | (VErr _, s1) => (BadType, None, s1)          (* mpt_value_convert folds converter errors *)
  | (VNum _ v, s1) =>
      let (r, s2) := it_advance s1 in
      if r <? 0 then (r, None, s2)
      else (match s with SStr _ => T_conv | _ => T_d end, v, s2)
  | (_, s1) => (BadType, None, s1)
  end.

(* mpt_iterator_consume(it, 0, 0): skip the current element; the result is the type of the value handed
   out by value() (no conversion takes place) unless advance fails *)
Definition it_skip (s : src) : Z * src :=
  let (ty, s1) := match s with
                  | SStr m => (match s_val m with Some _ => T_conv | None => 0 end, s)
                  | SBuf m => (match buf_value m with VStr _ => T_s | VVec _ => T_vec_c | _ => 0 end, s)
                  | _ => match it_value s with (VNone, s1) => (0, s1) | (_, s1) => (T_d, s1) end
                  end in
  let (r, s2) := it_advance s1 in (if r <? 0 then r else ty, s2).

(* conversions of the metatype itself: parseConv (iterator_string.c), bufferConv / bufferConvArgs (meta_buffer.c).
   Result codes in the order the harness asks (see harness/c19_iter.c:op_meta), the format list, the vector
   (None: null base) and the string handed out; the last code is the result of addref (not offered: 0).  The CONTENT of the 's' / vector conversions of the text
   iterator is not modelled (see docs/notes_C19.md). *)
Definition T_iter := 134. Definition T_metaptr := 256. Definition T_array := 2050. Definition T_bufptr := 11.
Inductive mstr := MNull | MStr (b : list N) | MOpen (b : list N).     (* MOpen: no terminator inside the used data *)
Record mres := { mr_codes : list Z; mr_fmt : list N; mr_vec : option (list N); mr_str : mstr }.
Definition it_meta (s : src) : option mres :=
  match s with
  | SStr _ => Some {| mr_codes := [T_iter; 0; T_s; T_s; BadType; T_s; T_s; T_s; T_s; 0];
                      mr_fmt := [134; 115]%N; mr_vec := None; mr_str := MNull |}
  | SBuf m =>
      if m_args m then
        Some {| mr_codes := [T_metaptr; T_metaptr; T_array; T_array; BadType; T_array; T_array;
                             BadType; BadType; BadType; BadType; BadType; T_iter; T_iter; 0];
                mr_fmt := [134; 115]%N; mr_vec := None;
                mr_str := match m_data m with
                          | Some d => if Nat.eqb (m_off m) O then MNull else
                                      match find0 d with Some k => MStr (firstn k d) | None => MOpen d end
                          | None => MNull
                          end |}
      else
        Some {| mr_codes := [T_metaptr; T_metaptr; T_array; T_array; BadType; T_array; T_array;
                             T_array; T_array; T_iter; T_iter; T_iter; BadType; BadType; 0];
                mr_fmt := [134; 11; 67]%N; mr_vec := m_data m; mr_str := MNull |}
  (* the generators of mptplot/values (iterConv, iterFactorConv, iterBoundaryConv, iterPolyConv, iterValueConv): codes
     of type 0 without / with target, TypeIteratorPtr with / without target, 'd', 's' with / without target, addref.
     A value list hands out the description text it keeps behind the object (WITH docs/C19_values_text.diff). *)
  | SLin _ | SFac _ | SBnd _ =>
      Some {| mr_codes := [T_iter; T_d; T_d; T_d; BadType; BadType; BadType; 0];
              mr_fmt := [134]%N; mr_vec := None; mr_str := MNull |}
  | SPol _ =>
      Some {| mr_codes := [T_iter; T_d; T_iter; T_iter; BadType; BadType; BadType; 0];
              mr_fmt := [134]%N; mr_vec := None; mr_str := MNull |}
  | SVal m =>
      Some {| mr_codes := [T_iter; T_d; T_s; T_s; BadType; T_iter; T_iter; 0];
              mr_fmt := [134]%N; mr_vec := None; mr_str := MStr (skipn (v_base m) (t_bytes (v_text m))) |}
  | SSrc _ => None       (* a C++ iterator object, no metatype *)
  end.

(* a source re-created from the description it hands out: conversion of the metatype to 's', then
   mpt_iterator_values on that text (the generators other than the value list do not offer 's') *)
Definition it_redesc (s : src) : option (Z + option src) :=
  match s with
  | SVal m => Some (inr (option_map SVal (mk_values (v_text m) (v_base m))))
  | SStr _ | SBuf _ | SSrc _ => None
  | _ => Some (inl BadType)
  end.

(* the documented loop of examples/iter.c, at most [fuel] elements *)
Inductive wend := WLimit | WNoValue | WConvErr (c : Z) | WAdvErr (c : Z) | WDone.
Fixpoint it_walk (fuel : nat) (s : src) (acc : list (option fv)) : list (option fv) * wend * src :=
  match fuel with
  | O => (rev acc, WLimit, s)
  | S fuel =>
      match it_value s with
      | (VNone, s1) => (rev acc, WNoValue, s1)
      | (VErr c, s1) => (rev acc, WConvErr c, s1)
      | (VNum _ v, s1) =>
          let (r, s2) := it_advance s1 in
          if r <? 0 then (rev (v :: acc), WAdvErr r, s2)
          else if r =? 0 then (rev (v :: acc), WDone, s2)
          else it_walk fuel s2 (v :: acc)
      | (_, s1) => (rev acc, WConvErr BadType, s1)
      end
  end.

(* the same loop on a text iterator reading every element with a byte reader (keyword / vector) *)
Fixpoint str_walk_b (conv : stri -> Z * option (list N) * stri) (fuel : nat) (m : stri) (acc : list (list N))
  : list (list N) * wend * stri :=
  match fuel with
  | O => (rev acc, WLimit, m)
  | S fuel =>
      match s_val m with
      | None => (rev acc, WNoValue, m)
      | Some _ =>
          let '(c, b, m1) := conv m in
          if c <? 0 then (rev acc, WConvErr c, m1) else
          let b := match b with Some b => b | None => [] end in
          let (r, m2) := str_advance m1 in
          if r <? 0 then (rev (b :: acc), WAdvErr r, m2)
          else if r =? 0 then (rev (b :: acc), WDone, m2)
          else str_walk_b conv fuel m2 (b :: acc)
      end
  end.

(* ------------------------------------------------------------------ description parsers *)
(* parseRange(text + p, &r): result, min, max *)
Definition parse_range (t : text) (p : nat) (mn mx : fv) : Z * fv * fv :=
  match cdouble t p with
  | (r1, v1) =>
      if r1 <? 0 then (r1, mn, mx) else
      match cdouble t (zpos p r1) with
      | (r2, v2) =>
          let mx' := match v2 with Some v => v | None => mx end in
          if r2 <? 0 then (r2, mn, mx') else
          (* an unparsed first bound leaves the C variable unset; such a text is always refused below *)
          (r1 + r2, match v1 with Some v => v | None => Fin 0 end, mx')
      end
  end.

Definition ch (c : N) : Z := Z.of_N c.
Definition LPAR := 40. Definition RPAR := 41. Definition COLON := 58.

(* _mpt_iterator_linear with a string value, p = position behind the type name *)
Definition lin_of_text (t : text) (p : nat) : option desc :=
  let (c, q) := nextvis t p in
  if negb (c =? LPAR) then None else
  match cuint32 t (S q) with
  | (ret, iv) =>
      if ret <? 1 then None else
      let iv := match iv with Some n => n | None => 0%N end in
      let s := zpos q (ret + 1) in
      let '(c2, q2) := nextvis t s in
      let rr := if c2 =? COLON then
                  let '(r, mn, mx) := parse_range t (S q2) (Fin 0) (Fin 1) in
                  if r <? 0 then None else Some (zpos q2 (r + 1), mn, mx)
                else Some (q2, Fin 0, Fin 1) in
      match rr with
      | None => None
      | Some (s', mn, mx) =>
          let (c3, _) := nextvis t s' in
          if negb (c3 =? RPAR) then None else Some (PLin (wrap32 (Z.of_N iv + 1)) mn mx)
      end
  end.

(* _mpt_iterator_range; the default (no value) is range 0..1 step 0.1 *)
Definition range_default : lin := {| l_base := Fin 0; l_step := c_0p1; l_elem := 11; l_pos := 0 |}.
Definition default_step (mn mx : fv) : fv := fdiv (fsub mx mn) (of_N 10).
Definition range_check (mn mx step : fv) : option lin :=
  let diff := fsub mx mn in
  if flt diff step || flt step (fmul diff c_1em6) then None else
  let cnt := fdiv diff step in
  if negb (fle (of_N 1) cnt) || fle c_intmax cnt then None else
  match ftrunc cnt with
  | None => None
  | Some iv => Some {| l_base := mn; l_step := step; l_elem := wrap32 (iv + 1); l_pos := 0 |}
  end.
Definition range_of_text (t : text) (p : nat) : option desc :=
  let (c, q) := nextvis t p in
  if negb (c =? LPAR) then None else
  let '(r, mn, mx) := parse_range t (S q) (Fin 0) (Fin 1) in
  if r <? 0 then None else
  let s := zpos q (r + 1) in
  let '(c2, q2) := nextvis t s in
  let rr := if c2 =? COLON then
              match cdouble t (S q2) with
              | (r2, v) => if r2 <? 0 then None else Some (zpos q2 (r2 + 1), v)
              end
            else Some (q2, None) in
  match rr with
  | None => None
  | Some (s', step) =>
      let (c3, _) := nextvis t s' in
      if negb (c3 =? RPAR) then None
      else Some (PRange mn mx (match step with Some v => v | None => default_step mn mx end))
  end.

(* _mpt_iterator_factor with a string value *)
Definition fac_of_text (t : text) (p : nat) : option desc :=
  let (c, q) := nextvis t p in
  if negb (c =? LPAR) then None else
  match cuint32 t (S q) with
  | (ret, iv) =>
      if ret <? 0 then None else
      (* ret = 0 leaves the count unset in C; the remaining text is blank then and the text is refused *)
      let elem := wrap32 (Z.of_N (match iv with Some n => n | None => 0%N end) + 1) in
      let s := zpos q (ret + 1) in
      let '(c2, q2) := nextvis t s in
      let rb := if c2 =? COLON then
                  match cdouble t (S q2) with
                  | (r, v) => if r <? 0 then None
                              else Some (zpos q2 (r + 1), match v with Some v => v | None => of_N 10 end)
                  end
                else Some (q2, of_N 10) in
      match rb with
      | None => None
      | Some (s1, base) =>
          let '(c3, q3) := nextvis t s1 in
          let rf :=
            if c3 =? COLON then
              let rfact :=
                if (byte_at t (S q3) =? 58)%N then
                  if flt base c_dblmin then None else Some (0, base)
                else match cdouble t (S q3) with
                     | (r, v) => let f := match v with Some v => v | None => of_N 10 end in
                                 if (r <? 0) || flt f c_dblmin then None else Some (r, f)
                     end in
              match rfact with
              | None => None
              | Some (r, fact) =>
                  let s2 := zpos q3 (r + 1) in
                  let '(c4, q4) := nextvis t s2 in
                  if c4 =? COLON then
                    match cdouble t (S q4) with
                    | (r2, v) => if r2 <? 0 then None
                                 else Some (zpos q4 (r2 + 1), fact, match v with Some v => v | None => Fin 0 end)
                    end
                  else Some (q4, fact, Fin 0)
              end
            else if flt base c_dblmin then None else Some (q3, base, Fin 0) in
          match rf with
          | None => None
          | Some (s3, fact, init) =>
              let (c5, _) := nextvis t s3 in
              if negb (c5 =? RPAR) then None else Some (PFac base fact init elem)
          end
      end
  end.

Definition name_is (l : list N) (s : list N) : bool :=
  Nat.eqb (length l) (length s) && forallb (fun p => (tolower (fst p) =? snd p)%N) (combine l s).
Definition n_lin := [108;105;110]%N. Definition n_linear := [108;105;110;101;97;114]%N.
Definition n_fac := [102;97;99]%N. Definition n_fact := [102;97;99;116]%N.
Definition n_factor := [102;97;99;116;111;114]%N. Definition n_range := [114;97;110;103;101]%N.

(* mpt_iterator_create(conf); None text = null pointer *)
Definition parse_create (t : option text) : option desc :=
  match t with
  | None => Some PDefault
  | Some t =>
      let p0 := skip_space_at t O in
      if (byte_at t p0 =? 0)%N then Some PDefault else
      let n := count_alpha (skipn p0 (t_bytes t)) in
      if Nat.leb 31%nat n then None else
      if Nat.eqb n O then Some (PVals t p0) else
      let name := firstn n (skipn p0 (t_bytes t)) in
      let p := (p0 + n)%nat in
      if name_is name n_linear || name_is name n_lin then lin_of_text t p
      else if name_is name n_factor || name_is name n_fact || name_is name n_fac then fac_of_text t p
      else if name_is name n_range then range_of_text t p
      else None
  end.

(* ---- iterator_poly.c: description "c0 c1 .. [: s0 s1 ..]" *)
Fixpoint get_values (t : text) (p : nat) (n : nat) : list fv * nat :=
  match n with
  | O => ([], p)
  | S n => match cdouble t p with
           | (len, Some v) => if 0 <? len then
                                let (l, q) := get_values t (zpos p len) n in (v :: l, q)
                              else ([], p)
           | _ => ([], p)
           end
  end.
Fixpoint find_colon (l : list N) (p : nat) : option nat :=
  match l with
  | [] => None
  | b :: r => if (b =? 58)%N then Some p else find_colon r (S p)
  end.
Fixpoint zip_shift (ms ss : list fv) : list (fv * fv) :=
  match ms with
  | [] => []
  | m :: mr => match ss with
               | s :: sr => (m, s) :: zip_shift mr sr
               | [] => (m, Fin 0) :: zip_shift mr []
               end
  end.
(* mpt_iterator_poly(desc + p, grid); desc = None: null pointer *)
Definition poly_of_text (t : option text) (p : nat) (grid : option (list fv)) : option desc :=
  match t with
  | None => Some (PPol [] grid)
  | Some t =>
      let (ms, q) := get_values t p 128%nat in
      match ms with
      | [] => None
      | _ =>
          let ss := match find_colon (skipn q (t_bytes t)) q with
                    | Some c => fst (get_values t (S c) (length ms - 1)%nat)
                    | None => []
                    end in
          Some (PPol (zip_shift ms ss) grid)
      end
  end.

(* ---- iterator_profile.c *)
Definition prefix_ci (t : text) (p : nat) (name : list N) : bool :=
  forallb (fun k => (tolower (byte_at t (p + k)%nat) =? nth k name 0)%N) (seq O (length name)).
(* nextVis(ptr, cont) with cont != 0 *)
Fixpoint next_cont (t : text) (p : nat) (cont : list N) : option nat :=
  match cont with
  | [] => Some p
  | c :: r =>
      let b := byte_at t p in
      if (b =? 0)%N || isspace b || (b =? 58)%N then Some p
      else if (b =? c)%N then next_cont t (S p) r else None
  end.
Definition skip_sep (t : text) (p : nat) : nat :=
  let p1 := skip_space_at t p in
  if (byte_at t p1 =? 58)%N then skip_space_at t (S p1) else p1.
Definition next_vis_cont (t : text) (p : nat) (cont : list N) : option nat :=
  match next_cont t p cont with Some q => Some (skip_sep t q) | None => None end.
(* nextVis(ptr, 0) *)
Definition next_vis0 (t : text) (p : nat) : option nat :=
  let b := byte_at t p in
  if (b =? 0)%N then Some p
  else if negb (isspace b) && negb (b =? 58)%N then None
  else Some (skip_sep t (S p)).
Definition n_bound := [98;111;117;110;100]%N. Definition n_poly := [112;111;108;121]%N.
Definition n_ear := [101;97;114]%N. Definition n_ary := [97;114;121]%N.

(* mpt_iterator_profile(grid, desc); the "file" profile is not modelled *)
Definition parse_profile (grid : option (list fv)) (t : option text) : option desc :=
  match t, grid with
  | None, _ => None
  | Some _, None => None
  | Some t, Some g =>
      let len := N.of_nat (length g) in
      if (len =? 0)%N then None else
      let p := skip_space_at t O in
      if prefix_ci t p n_lin then
        match next_vis_cont t (p + 3)%nat n_ear with
        | None => None
        | Some q => match fst (get_values t q 2%nat) with
                    | [a; b] => Some (PLin len a b)
                    | _ => None
                    end
        end
      else if prefix_ci t p n_bound then
        match next_vis_cont t (p + 5)%nat n_ary with
        | None => None
        | Some q => match fst (get_values t q 3%nat) with
                    | [a; b; c] => Some (PBnd len a b c)
                    | _ => None
                    end
        end
      else if prefix_ci t p n_poly then
        match next_vis0 t (p + 4)%nat with
        | None => None
        | Some q => poly_of_text (Some t) q grid
        end
      else None
  end.

(* ---- constructors fed from another iterator (value of type TypeIteratorPtr) *)
(* element conversion of the text iterator to uint32_t: parseConvertElement(.., 'u', &dest) *)
Definition str_conv_u (s : stri) : Z * option N * stri :=
  match s_val s with
  | None => (0, None, s)
  | Some p =>
      if (byte_at (s_text s) p =? 0)%N then (MissingData, None, str_set s (s_val s) (s_end s) None) else
      let p' := skip_space_at (s_text s) p in
      match cuint32 (s_text s) p' with
      | (r, v) =>
          if r <? 0 then (r, None, s) else
          let rs := zpos p' r in
          if all_space (firstn (rs - p) (skipn p (t_bytes (s_text s)))) then (MissingData, None, s) else
          let keep := match s_end s with Some e => Nat.ltb rs e | None => false end in
          (T_s, v, str_set s (s_val s) (s_end s) (if keep then Some rs else None))
      end
  end.
(* mpt_iterator_consume(it, 'u', &dest): numbers served as double have no conversion to 'u' *)
Definition it_consume_u (s : src) : Z * option N * src :=
  match s with
  | SStr m =>
      match s_val m with
      | None => (MissingData, None, s)
      | Some _ =>
          let '(c, v, m1) := str_conv_u m in
          if c <? 0 then (BadType, None, SStr m1) else
          let (r, m2) := str_advance m1 in
          if r <? 0 then (r, None, SStr m2) else (T_conv, v, SStr m2)
      end
  | _ => match it_value s with
         | (VNone, s1) => (MissingData, None, s1)
         | (_, s1) => (BadType, None, s1)
         end
  end.
Definition vdflt (v : option fv) (d : fv) : fv := match v with Some x => x | None => d end.
(* mpt_range_set(&r, value with iterator): result, min, max *)
Definition range_set (s : src) (mn mx : fv) : Z * fv * fv * src :=
  let '(r1, v1, s1) := it_consume s in
  if r1 <? 0 then (r1, mn, mx, s1) else
  if r1 =? 0 then (MissingData, mn, mx, s1) else
  let '(r2, v2, s2) := it_consume s1 in
  if r2 <? 0 then (r2, mn, mx, s2) else (2, vdflt v1 (Fin 0), vdflt v2 (Fin 1), s2).
(* mpt_range_set(&r, value) for the other value types: a null iterator pointer gives the default range;
   a vector of doubles (iov_len bytes, base = None: null) must hold two elements *)
Inductive rsarg := RSNoIter | RSVec (bytes : N) (base : option (list fv)) | RSVecNull | RSOther.
Definition range_set_val (a : rsarg) (mn mx : fv) : Z * fv * fv :=
  match a with
  | RSNoIter => (0, Fin 0, of_N 1)
  | RSVec bytes base =>
      if (bytes / 8 =? 2)%N then
        match base with
        | Some l => (0, nth 0 l NaN, nth 1 l NaN)
        | None => (0, Fin 0, of_N 1)
        end
      else (BadValue, mn, mx)
  | RSVecNull => (BadValue, mn, mx)
  | RSOther => (BadType, mn, mx)
  end.
(* _mpt_iterator_linear / _range / _factor with an iterator value: description and the source afterwards *)
Definition lin_of_iter (s : src) : option desc * src :=
  let '(r, iv, s1) := it_consume_u s in
  if r <? 0 then (None, s1) else
  let '(r2, mn, mx, s2) := range_set s1 (Fin 0) (Fin 1) in
  if r2 <? 0 then (None, s2)
  else (Some (PLin (wrap32 (Z.of_N (match iv with Some n => n | None => 10%N end) + 1)) mn mx), s2).
Definition range_of_iter (s : src) : option desc * src :=
  let '(r, mn, mx, s1) := range_set s (Fin 0) (Fin 1) in
  if r <? 0 then (None, s1) else
  let '(r2, v, s2) := it_consume s1 in
  if r2 <? 0 then (None, s2) else (Some (PRange mn mx (vdflt v (default_step mn mx))), s2).
Definition fac_of_iter (s : src) : option desc * src :=
  let '(r, iv, s1) := it_consume_u s in
  if r <? 0 then (None, s1) else
  let elem := wrap32 (Z.of_N (match iv with Some n => n | None => 0%N end) + 1) in
  let '(r1, vb, s2) := it_consume s1 in
  if r1 <? 0 then (Some (PFac (of_N 10) (of_N 10) (Fin 0) elem), s2) else
  let base := vdflt vb (of_N 10) in
  let '(r2, vf, s3) := it_consume s2 in
  if r2 <? 0 then (Some (PFac base (of_N 10) (Fin 0) elem), s3) else
  let fact := vdflt vf (of_N 10) in
  let '(r3, vi, s4) := it_consume s3 in
  (Some (PFac base fact (if r3 <? 0 then Fin 0 else vdflt vi (Fin 0)) elem), s4).

(* the constructors: description -> state machine (may still refuse) *)
Definition build (d : desc) : option src :=
  match d with
  | PDefault => Some (SLin range_default)
  | PLin len a b => option_map SLin (mk_linear len a b)
  | PRange mn mx step => option_map SLin (range_check mn mx step)
  | PFac base fact init elem => Some (SFac (mk_factor base fact init elem))
  | PBnd len l i r => option_map SBnd (mk_boundary len l i r)
  | PPol coef grid => Some (SPol {| p_grid := grid; p_coef := coef; p_pos := 0; p_cache := None |})
  | PVals t p => option_map SVal (mk_values t p)
  end.
Definition create (t : option text) : option src :=
  match parse_create t with Some d => build d | None => None end.
Definition profile (grid : option (list fv)) (t : option text) : option src :=
  match parse_profile grid t with Some d => build d | None => None end.

(* ---- values_linear.c / values_bound.c: the elements written, as (index, value) in write order *)
Definition values_linear (points ld : Z) (mn mx : fv) : list (Z * fv) :=
  if points <? 1 then [] else
  let len := points - 1 in
  let dv := fdiv (fsub mx mn) (if len =? 0 then Fin 0 else Fin (len # 1)) in
  (0, mn) :: map (fun i => (Z.of_nat i * ld, fadd mn (fmul (Fin (Z.of_nat i # 1)) dv)))
                 (seq 1%nat (Z.to_nat len - 1)%nat)
  ++ [(len * ld, mx)].
Definition values_bound (points ld : Z) (l c r : fv) : list (Z * fv) :=
  if points <? 1 then [] else
  if points <? 2 then [(0, fdiv (fadd (fadd l c) r) (of_N 3))] else
  let e := points - 1 in
  (0, l) :: map (fun i => (Z.of_nat i * ld, c)) (seq 1%nat (Z.to_nat e - 1)%nat) ++ [(ld * e, r)].
End Machines.

(* ------------------------------------------------------------------ histories *)
Inductive op := OValue | OAdvance | OReset | OClone | OConsume | OWalk | OString
  | OKey | OKeyN | OVec | OVecN | OUint | OWalkK | OWalkV | OMeta | OMetaS | OSkip | ORedesc.
Inductive out :=
| OutV (v : vres) | OutA (c : Z) | OutR (c : Z) | OutK (ok : bool)
| OutQ (c : Z) (v : option fv) | OutW (l : list (option fv)) (e : wend)
| OutS (s : option (list N))
| OutB (c : Z) (b : option (list N))          (* text iterator element as keyword / vector *)
| OutC (c : Z)                                (* .. converted without a target: result code only *)
| OutU (c : Z) (v : option N)                 (* .. as uint32 *)
| OutWB (l : list (list N)) (e : wend)        (* documented loop reading keywords / vectors *)
| OutM (r : mres) | OutZ (c : Z)
| OutNone.      (* OutNone: the slot is empty / operation not applicable *)

Definition WALK_MAX : nat := 40%nat.

(* one operation on slot [upper] (false: the created source, true: the clone) *)
Definition mstep (rnd : Q -> fv) (st : option src * option src) (o : op * bool)
  : (option src * option src) * out :=
  let '(o, upper) := o in
  let cur := if upper then snd st else fst st in
  let put s' := if upper then (fst st, Some s') else (Some s', snd st) in
  match cur with
  | None => (st, OutNone)
  | Some s =>
      match o with
      | OValue => let (v, s') := it_value rnd s in (put s', OutV v)
      | OAdvance => let (r, s') := it_advance rnd s in (put s', OutA r)
      | OReset => let (r, s') := it_reset s in (put s', OutR r)
      | OClone => ((fst st, it_clone s), OutK (match it_clone s with Some _ => true | None => false end))
      | OConsume => let '(r, v, s') := it_consume rnd s in (put s', OutQ r v)
      | OWalk => let '(l, e, s') := it_walk rnd WALK_MAX s [] in (put s', OutW l e)
      | OString => match s with
                   | SStr m => match s_val m with
                               | None => (st, OutNone)
                               | Some _ => let (r, m') := str_conv_s m in (put (SStr m'), OutS r)
                               end
                   | _ => (st, OutNone)
                   end
      | OKey | OKeyN | OVec | OVecN =>
          match s with
          | SStr m => match s_val m with
                      | None => (st, OutV VNone)
                      | Some _ =>
                          let '(c, b, m') := match o with OKey | OKeyN => str_conv_k m | _ => str_conv_vec m end in
                          (put (SStr m'), match o with OKey | OVec => OutB c b | _ => OutC c end)
                      end
          | _ => (st, OutNone)
          end
      | OUint => match s with
                 | SStr m => match s_val m with
                             | None => (st, OutV VNone)
                             | Some _ => let '(c, v, m') := str_conv_u m in (put (SStr m'), OutU c v)
                             end
                 | _ => (st, OutNone)
                 end
      | OWalkK | OWalkV =>
          match s with
          | SStr m => let '(l, e, m') := str_walk_b (match o with OWalkK => str_conv_k | _ => str_conv_vec end)
                                                    WALK_MAX m [] in (put (SStr m'), OutWB l e)
          | _ => (st, OutNone)
          end
      | OMeta => (st, match it_meta s with Some r => OutM r | None => OutNone end)
      (* text iterator metatype: conversion to 's' without target (WITH docs/C19_string_meta_target.diff) *)
      | OMetaS => (st, match s with SStr _ => OutC T_s | _ => OutNone end)
      | OSkip => let (r, s') := it_skip rnd s in (put s', OutZ r)
      (* slot 1 := mpt_iterator_values(description handed out by this source) *)
      | ORedesc => match it_redesc s with
                   | Some (inr c) => ((fst st, c), OutK (match c with Some _ => true | None => false end))
                   | Some (inl e) => (st, OutC e)
                   | None => (st, OutNone)
                   end
      end
  end.

Fixpoint mrun (rnd : Q -> fv) (st : option src * option src) (ops : list (op * bool)) : list out :=
  match ops with
  | [] => []
  | o :: r => let (st', x) := mstep rnd st o in x :: mrun rnd st' r
  end.
