(* C19 — IterText.v: the value-list iterator (iterator_values.c) and the buffer /
   argument iterators (meta_buffer.c) are simulated by a cursor over the list of
   elements their text / buffer denotes. *)
From Coq Require Import ZArith NArith QArith List Bool Lia.
From MptV Require Import C19.IterModel C19.IterSpec C19.IterProofs.
Import ListNotations.
Local Open Scope nat_scope.

(* ------------------------------------------------------------------ value lists *)
Definition vchain (t : text) (p : nat) : list elem * bool := scan_vals t p (S (tlen t)).

Lemma byte_past t p : tlen t <= p -> byte_at t p = 0%N.
Proof. intros H. unfold byte_at, tlen in *. now apply nth_overflow. Qed.

Lemma cdouble_some t p len v : cdouble t p = (len, Some v) ->
  p < tlen t /\ exists k, len = Z.of_nat (S k).
Proof.
  unfold cdouble. destruct (N.eqb_spec (byte_at t p) 0) as [E|E]; [discriminate|].
  assert (p < tlen t). { destruct (Nat.lt_ge_cases p (tlen t)); [assumption|]. now rewrite byte_past in E. }
  destruct (d_ovf _); [discriminate|]. destruct (IterModel.d_len _) as [|k] eqn:L.
  - destruct (all_space _); discriminate.
  - intros [= <- _]. split; [assumption|]. now exists k.
Qed.

Lemma zpos_nat p k : zpos p (Z.of_nat k) = p + k.
Proof. unfold zpos. lia. Qed.

Lemma scan_fuel t : forall f1 f2 p, S (tlen t) - p <= f1 -> S (tlen t) - p <= f2 ->
  scan_vals t p f1 = scan_vals t p f2.
Proof.
  induction f1 as [|f1 IH]; intros f2 p H1 H2.
  - assert (tlen t < p) by lia. destruct f2; [reflexivity|]. cbn [scan_vals].
    unfold cdouble. rewrite byte_past by lia. reflexivity.
  - destruct f2 as [|f2].
    + assert (tlen t < p) by lia. cbn [scan_vals]. unfold cdouble. rewrite byte_past by lia. reflexivity.
    + cbn [scan_vals]. destruct (cdouble t p) as [len [v|]] eqn:C; [|reflexivity].
      destruct (fisnan v); [reflexivity|].
      destruct (cdouble_some _ _ _ _ C) as [L [k ->]]. rewrite zpos_nat.
      rewrite (IH f2 (p + S k)) by lia. reflexivity.
Qed.

Lemma vchain_step t p : vchain t p =
  match cdouble t p with
  | (len, Some v) => if fisnan v then ([], true)
                     else (EV v :: fst (vchain t (zpos p len)), snd (vchain t (zpos p len)))
  | (r, None) => ([], negb (r =? 0)%Z)
  end.
Proof.
  unfold vchain at 1. cbn [scan_vals]. destruct (cdouble t p) as [len [v|]] eqn:C; [|reflexivity].
  destruct (fisnan v); [reflexivity|].
  destruct (cdouble_some _ _ _ _ C) as [L [k ->]]. rewrite zpos_nat.
  unfold vchain. rewrite (scan_fuel t (tlen t) (S (tlen t)) (p + S k)) by lia.
  now destruct (scan_vals t (p + S k) (S (tlen t))).
Qed.

Definition vrest (m : vals) : list elem :=
  match v_next m with None => [] | Some p => EV (v_curr m) :: fst (vchain (v_text m) p) end.

Definition inv_val (m : vals) : Prop :=
  (exists len v, cdouble (v_text m) (v_base m) = (len, Some v) /\ fisnan v = false) /\
  match v_next m with
  | None => True
  | Some p => snd (vchain (v_text m) p) = snd (vchain (v_text m) (v_base m))
  end.

Lemma abs_val m : abs (SVal m) =
  CList (fst (vchain (v_text m) (v_base m))) (vrest m) (snd (vchain (v_text m) (v_base m))).
Proof.
  cbn [abs]. unfold vrest, vchain.
  destruct (scan_vals (v_text m) (v_base m) (S (tlen (v_text m)))) as [fl fb].
  destruct (v_next m) as [p|]; [|reflexivity].
  now destruct (scan_vals (v_text m) p (S (tlen (v_text m)))).
Qed.

Section SimText.
Variable rnd : Q -> fv.
Notation s_value := (s_value rnd).

Lemma val_value_sim m :
  vmatch (fst (it_value rnd (SVal m))) (s_value (abs (SVal m))) /\ snd (it_value rnd (SVal m)) = SVal m.
Proof.
  rewrite abs_val. cbn [it_value fst snd IterSpec.s_value]. unfold val_value, vrest.
  destruct (v_next m); cbn; auto.
Qed.

Lemma val_advance_sim m : inv_val m ->
  let (r, m') := val_advance m in
  inv_val m' /\ s_advance (abs (SVal m)) = (cls r, abs (SVal m')) /\ ((r < 0)%Z -> m' = m).
Proof.
  intros [F I]. unfold val_advance.
  destruct (v_next m) as [p|] eqn:N.
  - pose proof (vchain_step (v_text m) p) as ST.
    assert (AM : abs (SVal m) = CList (fst (vchain (v_text m) (v_base m)))
                                  (EV (v_curr m) :: fst (vchain (v_text m) p)) (snd (vchain (v_text m) p))).
    { rewrite abs_val. unfold vrest. rewrite N, I. reflexivity. }
    assert (IM : inv_val m) by (unfold inv_val; rewrite N; split; assumption).
    destruct (cdouble (v_text m) p) as [len [v|]] eqn:C.
    + destruct (fisnan v) eqn:NA.
      * split; [exact IM|split; [|intros _; reflexivity]]. rewrite AM, ST. cbn [fst snd s_advance]. reflexivity.
      * split; [|split].
        -- unfold inv_val, val_set. cbn [v_text v_base v_next]. split; [assumption|].
           rewrite <- I, ST. reflexivity.
        -- rewrite AM, ST. cbn [fst snd s_advance].
           rewrite abs_val. unfold vrest, val_set. cbn [v_text v_base v_next v_curr].
           rewrite <- I, ST. cbn [snd].
           destruct (fst (vchain (v_text m) (zpos p len))); reflexivity.
        -- intros X. cbv in X. discriminate X.
    + cbn [fst]. destruct (Z.eqb_spec len 0) as [->|NE].
      * split; [|split].
        -- unfold inv_val, val_set. cbn. split; [assumption|exact Logic.I].
        -- rewrite AM, ST. cbn [fst snd s_advance negb Z.eqb].
           rewrite abs_val. unfold vrest, val_set. cbn [v_text v_base v_next v_curr].
           rewrite <- I, ST. reflexivity.
        -- intros X. cbv in X. discriminate X.
      * split; [exact IM|split; [|intros _; reflexivity]]. rewrite AM, ST. cbn [fst snd s_advance].
        destruct (Z.eqb_spec len 0); [contradiction|]. reflexivity.
  - rewrite abs_val. unfold vrest. rewrite N. cbn [s_advance]. repeat split; auto.
    unfold inv_val. now rewrite N.
Qed.

Lemma val_reset_sim m : inv_val m ->
  let (r, m') := val_reset m in
  inv_val m' /\ abs (SVal m') = s_reset (abs (SVal m)) /\ (0 <= r)%Z.
Proof.
  intros [[len [v [C NA]]] I]. unfold val_reset. rewrite C, NA.
  split; [|split; [|lia]].
  - unfold inv_val, val_set. cbn [v_text v_base v_next]. split; [now exists len, v|].
    rewrite (vchain_step (v_text m) (v_base m)), C, NA. reflexivity.
  - rewrite !abs_val. unfold vrest, val_set. cbn [v_text v_base v_next v_curr s_reset].
    f_equal. rewrite (vchain_step (v_text m) (v_base m)), C, NA. reflexivity.
Qed.

(* the reset of a value list never fails (its two error branches are dead: the first number of the kept text was
   accepted at creation), and the source created from the kept text is the reset source *)
Lemma val_reset_ok m : inv_val m -> fst (val_reset m) = 0%Z /\ mk_values (v_text m) (v_base m) = Some (snd (val_reset m)).
Proof.
  intros [[len [v [C NA]]] I]. unfold val_reset, mk_values. rewrite C, NA. cbn [fst snd]. split; [reflexivity|].
  unfold val_set. reflexivity.
Qed.

Lemma mk_values_inv t p m : mk_values t p = Some m -> inv_val m.
Proof.
  unfold mk_values. destruct (cdouble t p) as [len [v|]] eqn:C; [|discriminate].
  destruct (fisnan v) eqn:NA; [discriminate|]. intros [= <-].
  unfold inv_val. cbn [v_text v_base v_next]. split; [now exists len, v|].
  rewrite (vchain_step t p), C, NA. reflexivity.
Qed.
End SimText.

(* ------------------------------------------------------------------ buffer segments *)
Lemma segments_acc : forall l acc,
  segments l acc =
  match find0 l with
  | Some k => ES (rev acc ++ firstn k l) :: segments (skipn (S k) l) []
  | None => match rev acc ++ l with [] => [] | x => [EVec x] end
  end.
Proof.
  induction l as [|b l IH]; intros acc.
  - cbn. rewrite app_nil_r. destruct acc as [|a acc]; [reflexivity|].
    cbn [rev]. destruct (rev acc ++ [a]) eqn:E; [|reflexivity].
    apply app_eq_nil in E. destruct E; discriminate.
  - cbn [segments find0]. destruct (N.eqb_spec b 0).
    + cbn. now rewrite app_nil_r.
    + rewrite IH. destruct (find0 l) as [k|].
      * cbn [firstn skipn rev]. rewrite <- app_assoc. reflexivity.
      * cbn [rev]. rewrite <- app_assoc. reflexivity.
Qed.

Lemma segments_some l k : find0 l = Some k ->
  segments l [] = ES (firstn k l) :: segments (skipn (S k) l) [].
Proof. intros H. rewrite segments_acc, H. reflexivity. Qed.

Lemma segments_none l : find0 l = None -> l <> [] -> segments l [] = [EVec l].
Proof. intros H N. rewrite segments_acc, H. cbn. destruct l; [contradiction|reflexivity]. Qed.

Lemma find0_bound l k : find0 l = Some k -> k < length l.
Proof.
  revert k; induction l as [|b l IH]; intros k; cbn; [discriminate|].
  destruct (N.eqb_spec b 0).
  - intros [= <-]. lia.
  - destruct (find0 l); [|discriminate]. intros [= <-]. specialize (IH n0 eq_refl). lia.
Qed.

(* the current slice of a buffer iterator is the first segment of the data from its offset *)
Definition seg_ok (d : list N) (off len : nat) (str : option nat) : Prop :=
  if Nat.eqb len 0 then off = length d /\ str = None
  else off + len <= length d /\
       match find0 (skipn off d) with
       | Some k => len = S k /\ str = Some off
       | None => len = length d - off /\ str = None
       end.
Definition inv_buf (m : bufi) : Prop :=
  match m_data m with
  | None => m_off m = 0 /\ m_len m = 0 /\ m_str m = None
  | Some d => seg_ok d (m_off m) (m_len m) (m_str m)
  end.

Definition brest (m : bufi) : list elem :=
  match m_data m with
  | Some d => if Nat.eqb (m_len m) 0 then [] else segments (skipn (m_off m) d) []
  | None => []
  end.
Definition bfull (m : bufi) : list elem :=
  let segs := match m_data m with Some d => segments d [] | None => [] end in
  if m_args m then tl segs else segs.

Lemma abs_buf m : abs (SBuf m) = CList (bfull m) (brest m) false.
Proof. reflexivity. Qed.

Lemma skipn_skipn {A} (l : list A) a b : skipn a (skipn b l) = skipn (b + a) l.
Proof.
  revert l; induction b as [|b IH]; intros l; [reflexivity|].
  destruct l; [now rewrite !skipn_nil|]. cbn. apply IH.
Qed.

(* one step of mpt_slice_next from a well-formed current slice *)
Lemma slice_next_sim d off len str : seg_ok d off len str -> len <> 0 ->
  let '(t, o, l) := slice_next d off len in
  let str' := if (t =? T_s)%Z then Some o else None in
  seg_ok d o l str' /\
  exists x, segments (skipn off d) [] = x :: (if Nat.eqb l 0 then [] else segments (skipn o d) []) /\
            cls t = (if Nat.eqb l 0 then AEnd else AMore).
Proof.
  unfold seg_ok. intros S NZ. destruct (Nat.eqb_spec len 0) as [|_]; [contradiction|].
  destruct S as [B S]. unfold slice_next.
  destruct (Nat.ltb_spec (length d) off); [lia|].
  assert (CUR : exists x, segments (skipn off d) [] = x :: segments (skipn (off + len) d) []).
  { destruct (find0 (skipn off d)) as [k|] eqn:F.
    - destruct S as [-> _]. rewrite (segments_some _ _ F), skipn_skipn. eauto.
    - destruct S as [-> _]. rewrite (segments_none _ F).
      + replace (off + (length d - off)) with (length d) by lia. rewrite skipn_all. eauto.
      + intros E. apply (f_equal (@length N)) in E. rewrite skipn_length in E. cbn in E. lia. }
  destruct CUR as [x CUR].
  destruct (Nat.eqb_spec len 0) as [|_]; [contradiction|]. cbn [negb andb].
  destruct (Nat.eqb_spec (length d - off - len) 0) as [Z|NZ2].
  - cbn [Nat.eqb]. split; [split; [lia|reflexivity]|]. exists x. split; [|reflexivity].
    rewrite CUR. replace (off + len) with (length d) by lia. now rewrite skipn_all.
  - destruct (Nat.ltb_spec (length d - off - len) 1); [lia|].
    destruct (find0 (skipn (off + len) d)) as [k|] eqn:F2.
    + cbn [Nat.eqb]. pose proof (find0_bound _ _ F2) as KB. rewrite skipn_length in KB.
      split; [|exists x; split; [exact CUR|reflexivity]].
      split; [lia|]. rewrite F2. split; reflexivity.
    + destruct (Nat.eqb_spec (length d - off - len) 0); [contradiction|].
      split; [|exists x; split; [exact CUR|reflexivity]].
      split; [lia|]. rewrite F2. split; [lia|reflexivity].
Qed.

Section SimBuf.
Variable rnd : Q -> fv.
Notation s_value := (s_value rnd).

Lemma buf_value_sim m : inv_buf m ->
  vmatch (fst (it_value rnd (SBuf m))) (s_value (abs (SBuf m))) /\ snd (it_value rnd (SBuf m)) = SBuf m.
Proof.
  intros I. rewrite abs_buf. cbn [it_value fst snd IterSpec.s_value]. split; [|reflexivity].
  unfold buf_value, brest, inv_buf, seg_ok in *. destruct (m_data m) as [d|]; [|exact Logic.I].
  destruct (Nat.eqb_spec (m_len m) 0); [exact Logic.I|]. destruct I as [B S].
  destruct (find0 (skipn (m_off m) d)) as [k|] eqn:F.
  - destruct S as [L ->]. rewrite (segments_some _ _ F), F. reflexivity.
  - destruct S as [L ->]. rewrite (segments_none _ F).
    + cbn. f_equal. rewrite L. symmetry. apply firstn_all2. rewrite skipn_length. lia.
    + intros E. apply (f_equal (@length N)) in E. rewrite skipn_length in E. cbn in E. lia.
Qed.

Lemma buf_advance_sim m : inv_buf m ->
  let (r, m') := buf_advance m in
  inv_buf m' /\ brest m' = tl (brest m) /\ bfull m' = bfull m /\
  s_advance (CList (bfull m) (brest m) false) = (cls r, CList (bfull m) (brest m') false) /\
  ((r < 0)%Z -> m' = m).
Proof.
  intros I. unfold buf_advance, inv_buf, brest, bfull in *. destruct m as [data off len str args].
  cbn [m_data m_off m_len m_str m_args buf_set] in *. destruct data as [d|].
  - destruct (Nat.eqb_spec len 0) as [->|NZ].
    + (* finished *)
      unfold seg_ok in I. cbn [Nat.eqb] in I. destruct I as [-> ->].
      unfold slice_next. destruct (Nat.ltb_spec (length d) (length d)); [lia|].
      replace (length d - length d - 0) with 0 by lia. cbn [Nat.eqb negb andb Nat.ltb Nat.leb].
      cbn. unfold seg_ok. cbn. repeat split; reflexivity.
    + pose proof (slice_next_sim d off len str I NZ) as H.
      destruct (slice_next d off len) as [[t o] l]. unfold buf_set. cbn [m_data m_off m_len m_str m_args].
      destruct H as [S [x [E C]]]. rewrite E. cbn [tl].
      split; [exact S|]. split; [reflexivity|]. split; [reflexivity|]. split.
      * cbn [s_advance]. rewrite C. destruct (Nat.eqb_spec l 0); [reflexivity|].
        destruct (segments (skipn o d) []) eqn:SG; [|reflexivity].
        exfalso. unfold seg_ok in S. destruct (Nat.eqb_spec l 0); [contradiction|]. destruct S as [B S].
        destruct (find0 (skipn o d)) as [k|] eqn:F.
        -- rewrite (segments_some _ _ F) in SG. discriminate.
        -- rewrite (segments_none _ F) in SG; [discriminate|].
           intros E2. apply (f_equal (@length N)) in E2. rewrite skipn_length in E2. cbn in E2. lia.
      * intros X. exfalso. unfold cls in C. destruct (Z.ltb_spec 0 t); [lia|].
        destruct (Z.eqb_spec t 0); [lia|]. destruct (Nat.eqb l 0); discriminate.
  - destruct I as [-> [-> ->]]. cbn. repeat split; reflexivity.
Qed.

Lemma buf_reset0_sim m :
  let (r, m') := buf_reset0 m in
  inv_buf m' /\ (0 <= r)%Z /\ m_data m' = m_data m /\ m_args m' = m_args m /\
  brest m' = match m_data m with Some d => segments d [] | None => [] end /\
  ((0 < r)%Z <-> brest m' <> []).
Proof.
  unfold buf_reset0, buf_advance, buf_set, inv_buf, brest. destruct m as [data off len str args].
  cbn [m_data m_off m_len m_str m_args]. destruct data as [d|].
  - unfold slice_next. cbn [Nat.ltb Nat.leb Nat.eqb negb andb]. rewrite Nat.sub_0_r. cbn [Nat.add skipn].
    destruct d as [|b d].
    + cbn. unfold seg_ok. cbn. repeat split; try reflexivity; try lia; intros X; try discriminate X; contradiction.
    + cbn [length Nat.sub Nat.ltb Nat.leb]. destruct (find0 (b :: d)) as [k|] eqn:F.
      * cbn [m_data m_off m_len m_str m_args Nat.eqb]. unfold seg_ok. cbn [Nat.eqb skipn].
        pose proof (find0_bound _ _ F). cbn [length] in *. rewrite F.
        repeat split; try reflexivity; try lia; try (cbv; discriminate).
        -- intros _. rewrite (segments_some _ _ F). discriminate.
      * cbn [m_data m_off m_len m_str m_args Nat.eqb]. unfold seg_ok. cbn [Nat.eqb skipn length]. rewrite F.
        repeat split; try reflexivity; try lia; try (cbv; discriminate).
        -- intros _. rewrite (segments_none _ F); discriminate.
  - cbn. repeat split; try reflexivity; try lia; intros X; try discriminate X; contradiction.
Qed.

Lemma buf_reset_sim m :
  let (r, m') := buf_reset m in
  inv_buf m' /\ abs (SBuf m') = s_reset (abs (SBuf m)) /\ (0 <= r)%Z.
Proof.
  unfold buf_reset. pose proof (buf_reset0_sim m) as H0. destruct (buf_reset0 m) as [r0 m0].
  destruct H0 as [I0 [R0 [D0 [A0 [B0 P0]]]]].
  destruct (m_args m) eqn:AR.
  - destruct (Z.leb_spec r0 0) as [LE|GT].
    + split; [exact I0|]. split; [|exact R0]. rewrite !abs_buf. cbn [s_reset].
      assert (brest m0 = []). { destruct (brest m0); [reflexivity|]. exfalso. assert (0 < r0)%Z by (apply P0; discriminate). lia. }
      unfold bfull. rewrite D0, A0, AR. rewrite H. f_equal.
      rewrite H in B0. rewrite <- B0. reflexivity.
    + pose proof (buf_advance_sim m0 I0) as H1. destruct (buf_advance m0) as [r1 m1].
      destruct H1 as [I1 [B1 [F1 [SA NEG]]]].
      split; [exact I1|]. split.
      * rewrite !abs_buf. cbn [s_reset]. rewrite B1, B0, F1. unfold bfull. rewrite D0, A0, AR. reflexivity.
      * assert (NE : brest m0 <> []) by (apply P0; lia).
        destruct (brest m0) as [|x r] eqn:BR; [contradiction|]. cbn [s_advance] in SA.
        destruct r; injection SA as SA _; unfold cls in SA;
          destruct (Z.ltb_spec 0 r1); try lia; destruct (Z.eqb_spec r1 0); try lia; discriminate.
  - split; [exact I0|]. split; [|exact R0]. rewrite !abs_buf. cbn [s_reset].
    unfold bfull. rewrite D0, A0, AR, B0. reflexivity.
Qed.

Lemma mk_buffer_inv d args : inv_buf (mk_buffer d args).
Proof.
  unfold mk_buffer. destruct d as [d|].
  - pose proof (buf_reset_sim {| m_data := Some d; m_off := 0; m_len := 0; m_str := None; m_args := args |}) as H.
    destruct (buf_reset _) as [r m']. exact (proj1 H).
  - cbn. repeat split; reflexivity.
Qed.
End SimBuf.
