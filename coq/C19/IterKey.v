(* C19 — IterKey.v: the text iterator (mptcore/meta/iterator_string.c) read with a BYTE reader:
   every element as keyword ('k', mpt_convert_key with the separator configuration) or as 'c' vector.
   One development for both: a reader [rdm sep t p] tells, at a position holding a byte, that there is
   no element (code) or where the element ends (the byte replaced by the terminator) and which bytes it
   hands out.  The mechanism state is simulated by the cursor [CStr] over [scan_rd] exactly as for
   numbers (IterString.v): the end of an element is known after it was read; advancing an element that
   was not read ends the iteration.  Instances: [abs_key] / [abs_vec]. *)
From Coq Require Import ZArith NArith QArith List Bool Lia.
From MptV Require Import C19.IterModel C19.IterSpec C19.IterProofs C19.IterText C19.IterString.
Import ListNotations.
Local Open Scope nat_scope.

(* the elements read without error, up to the first unreadable one *)
Fixpoint good (l : list elem) : list elem :=
  match l with
  | EErr _ :: _ => []
  | x :: r => x :: good r
  | [] => []
  end.
Definition noerr (e : elem) : bool := match e with EErr _ => false | _ => true end.

Section Reader.
Variable rnd : Q -> fv.
Variable rdm : list N -> text -> nat -> rres.
Variable mk : list N -> elem.
Hypothesis mk_ok : forall b, noerr (mk b) = true.
Hypothesis rd_ge : forall sep t p rs b, rdm sep t p = ROk rs b -> p <= rs.
Hypothesis rd_neg : forall sep t p c cl, rdm sep t p = RFail c cl -> (c < 0)%Z.
Notation s_value := (s_value rnd).
Notation absr := (abs_rd rdm mk).
Notation conv := (fun m : stri => str_read (rdm (s_sep m)) m).

Definition rchain (sep : list N) (t : text) (p : nat) : list elem := scan_rd (rdm sep) mk t p (S (S (tlen t))).

Lemma scan_rd_S sep t p f : scan_rd (rdm sep) mk t p (S f) =
  if (byte_at t p =? 0)%N then [EErr MissingData] else
  match rdm sep t p with
  | RFail c _ => [EErr c]
  | ROk rs b => if Nat.ltb rs (tlen t) then mk b :: scan_rd (rdm sep) mk t (S rs) f else [mk b]
  end.
Proof. reflexivity. Qed.

Lemma rscan_fuel sep t : forall f1 f2 p, S (S (tlen t)) - p <= f1 -> S (S (tlen t)) - p <= f2 ->
  1 <= f1 -> 1 <= f2 -> scan_rd (rdm sep) mk t p f1 = scan_rd (rdm sep) mk t p f2.
Proof.
  induction f1 as [|f1 IH]; intros f2 p H1 H2 G1 G2; [lia|]. destruct f2 as [|f2]; [lia|].
  rewrite !scan_rd_S. destruct (byte_at t p =? 0)%N; [reflexivity|].
  destruct (rdm sep t p) as [c cl|rs b] eqn:R; [reflexivity|].
  destruct (Nat.ltb_spec rs (tlen t)) as [L|L]; [|reflexivity].
  f_equal. pose proof (rd_ge _ _ _ _ _ R). apply IH; lia.
Qed.

Lemma rchain_step sep t p : rchain sep t p =
  if (byte_at t p =? 0)%N then [EErr MissingData] else
  match rdm sep t p with
  | RFail c _ => [EErr c]
  | ROk rs b => if Nat.ltb rs (tlen t) then mk b :: rchain sep t (S rs) else [mk b]
  end.
Proof.
  unfold rchain at 1. rewrite scan_rd_S. destruct (byte_at t p =? 0)%N; [reflexivity|].
  destruct (rdm sep t p) as [c cl|rs b] eqn:R; [reflexivity|].
  destruct (Nat.ltb_spec rs (tlen t)) as [L|L]; [|reflexivity].
  f_equal. pose proof (rd_ge _ _ _ _ _ R). unfold rchain. apply rscan_fuel; lia.
Qed.

Lemma rchain_nonempty sep t p : rchain sep t p <> [].
Proof.
  rewrite rchain_step. destruct (_ =? _)%N; [discriminate|]. destruct (rdm sep t p); [discriminate|].
  destruct (Nat.ltb _ _); discriminate.
Qed.

Lemma rchain_end sep t : rchain sep t (tlen t) = [EErr MissingData].
Proof. rewrite rchain_step, byte_past by lia. reflexivity. Qed.

(* a pending terminator stands where the reader ends the current element *)
Definition inv_rd (m : stri) : Prop :=
  s_base m <= tlen (s_text m) /\
  match s_val m with
  | None => True
  | Some p =>
      s_end m = Some (tlen (s_text m)) /\ p <= tlen (s_text m) /\
      match s_restore m with
      | None => True
      | Some rs => byte_at (s_text m) p <> 0%N /\
                   exists b, rdm (s_sep m) (s_text m) p = ROk rs b /\ rs < tlen (s_text m)
      end
  end.

Lemma absr_eq m : absr m =
  CStr (rchain (s_sep m) (s_text m) (s_base m))
       (match s_val m with Some p => rchain (s_sep m) (s_text m) p | None => [] end) (flag (s_restore m)).
Proof. reflexivity. Qed.

(* result of a conversion against the element under the cursor *)
Definition bmatch (c : Z) (b : option (list N)) (e : option elem) : Prop :=
  match e with
  | None => False
  | Some (EErr c') => c = c' /\ b = None /\ (c < 0)%Z
  | Some e => (0 <= c)%Z /\ exists x, b = Some x /\ e = mk x
  end.

Lemma s_read_one full x fl : s_read (CStr full [x] fl) = CStr full [x] false.
Proof. reflexivity. Qed.
Lemma s_read_more full x y r fl : noerr x = true -> s_read (CStr full (x :: y :: r) fl) = CStr full (x :: y :: r) true.
Proof. intros H. cbn [s_read]. destruct x; try reflexivity. discriminate H. Qed.

Lemma read_sim m p : inv_rd m -> s_val m = Some p ->
  let '(c, b, m') := conv m in
  inv_rd m' /\ absr m' = s_read (absr m) /\ bmatch c b (s_value (absr m)).
Proof.
  intros [IB I] V. unfold str_read. rewrite V in *. destruct I as [E [PL R]].
  rewrite (absr_eq m), V. rewrite (rchain_step _ (s_text m) p).
  destruct (N.eqb_spec (byte_at (s_text m) p) 0) as [Z|NZ].
  - split; [unfold inv_rd, str_set; cbn; rewrite ?V; auto|]. split.
    + rewrite absr_eq. unfold str_set. cbn [s_text s_sep s_base s_val s_end s_restore flag]. rewrite ?V.
      rewrite (rchain_step _ (s_text m) p), Z. reflexivity.
    + cbn. unfold MissingData. repeat split; lia.
  - destruct (rdm (s_sep m) (s_text m) p) as [c cl|rs b] eqn:RD.
    + (* no element: no terminator can be pending, nothing changes *)
      assert (RN : s_restore m = None).
      { destruct (s_restore m) as [rs|]; [|reflexivity]. destruct R as [_ [b [C' _]]].
        try rewrite RD in C'. discriminate C'. }
      assert (EQ : absr (if cl then str_set m (Some p) (s_end m) None else m)
                   = CStr (rchain (s_sep m) (s_text m) (s_base m)) [EErr c] false).
      { destruct cl; rewrite absr_eq; unfold str_set; cbn [s_text s_sep s_base s_val s_end s_restore flag];
          rewrite ?V, ?RN, (rchain_step _ (s_text m) p);
          (destruct (N.eqb_spec (byte_at (s_text m) p) 0); [contradiction|]); rewrite RD; reflexivity. }
      split; [destruct cl; unfold inv_rd, str_set; cbn; rewrite ?V, ?RN; auto|].
      split; [rewrite EQ; reflexivity|]. cbn. pose proof (rd_neg _ _ _ _ _ RD). auto.
    + rewrite E. pose proof (mk_ok b) as MK. destruct (Nat.ltb_spec rs (tlen (s_text m))) as [L|L].
      * split; [|split].
        -- unfold inv_rd, str_set. cbn [s_text s_sep s_base s_val s_end s_restore].
           split; [assumption|]. split; [reflexivity|]. split; [assumption|]. split; [assumption|]. eauto.
        -- rewrite absr_eq. unfold str_set. cbn [s_text s_sep s_base s_val s_end s_restore flag].
           rewrite (rchain_step _ (s_text m) p).
           destruct (N.eqb_spec (byte_at (s_text m) p) 0); [contradiction|]. rewrite RD.
           destruct (Nat.ltb_spec rs (tlen (s_text m))); [|lia].
           destruct (rchain (s_sep m) (s_text m) (S rs)) eqn:SC; [exfalso; exact (rchain_nonempty _ _ _ SC)|].
           now rewrite s_read_more.
        -- cbn [IterSpec.s_value]. unfold bmatch. destruct (mk b) eqn:MB; try discriminate MK; (split; [unfold T_s; lia|eauto]).
      * split; [|split].
        -- unfold inv_rd, str_set. cbn. auto.
        -- rewrite absr_eq. unfold str_set. cbn [s_text s_sep s_base s_val s_end s_restore flag].
           rewrite (rchain_step _ (s_text m) p).
           destruct (N.eqb_spec (byte_at (s_text m) p) 0); [contradiction|]. rewrite RD.
           destruct (Nat.ltb_spec rs (tlen (s_text m))); [lia|]. reflexivity.
        -- cbn [IterSpec.s_value]. unfold bmatch. destruct (mk b) eqn:MB; try discriminate MK; (split; [unfold T_s; lia|eauto]).
Qed.

Lemma advance_sim m : inv_rd m ->
  let (r, m') := str_advance m in
  inv_rd m' /\ exists a, s_advance (absr m) = (a, absr m') /\ amatch a r.
Proof.
  intros [IB I]. unfold str_advance. rewrite (absr_eq m).
  destruct (s_end m) as [e|] eqn:E.
  2:{ destruct (s_val m) as [p|] eqn:V; [destruct I as [E' _]; try rewrite E in E'; discriminate|].
      split; [split; [assumption|now rewrite V]|]. exists ANotMore. rewrite absr_eq, V.
      split; [reflexivity|unfold amatch, MissingData; lia]. }
  destruct (s_val m) as [p|] eqn:V.
  2:{ split; [unfold inv_rd, str_set; cbn; auto|]. exists ANotMore.
      rewrite absr_eq. unfold str_set. cbn [s_text s_sep s_base s_val s_end s_restore].
      split; [reflexivity|unfold amatch; lia]. }
  destruct I as [E' [PL R]]. try rewrite E in E'. injection E' as ->.
  pose proof (rchain_nonempty (s_sep m) (s_text m) p) as NE.
  destruct (Nat.eqb_spec (tlen (s_text m)) p) as [EQ|NEQ].
  - assert (RN : s_restore m = None).
    { destruct (s_restore m); [|reflexivity]. destruct R as [NZ _]. rewrite byte_past in NZ by lia. contradiction. }
    split; [unfold inv_rd, str_set; cbn; auto|]. exists AEnd. rewrite absr_eq. unfold str_set.
    cbn [s_text s_sep s_base s_val s_end s_restore]. rewrite RN. cbn [flag s_advance].
    destruct (rchain (s_sep m) (s_text m) p); [contradiction|]. split; reflexivity.
  - destruct (s_restore m) as [rs|] eqn:RS.
    + destruct R as [NZ [b [C L]]].
      split.
      * unfold inv_rd, str_set. cbn. repeat split; auto.
      * exists AMore. rewrite absr_eq. unfold str_set. cbn [s_text s_sep s_base s_val s_end s_restore flag].
        rewrite (rchain_step _ (s_text m) p).
        destruct (N.eqb_spec (byte_at (s_text m) p) 0); [contradiction|]. rewrite C.
        destruct (Nat.ltb_spec rs (tlen (s_text m))); [|lia].
        cbn [s_advance]. split; reflexivity.
    + split; [unfold inv_rd, str_set; cbn; auto|]. exists AEnd. rewrite absr_eq. unfold str_set.
      cbn [s_text s_sep s_base s_val s_end s_restore flag s_advance].
      destruct (rchain (s_sep m) (s_text m) p); [contradiction|]. split; reflexivity.
Qed.

Lemma reset_sim m : inv_rd m ->
  let (r, m') := str_reset m in
  inv_rd m' /\ absr m' = s_reset (absr m) /\ (0 <= r)%Z.
Proof.
  intros [IB I]. unfold str_reset, str_set. split; [|split; [reflexivity|lia]].
  unfold inv_rd. cbn. auto.
Qed.

Lemma clone_sim m : inv_rd m ->
  inv_rd (str_clone m) /\ s_clone (absr m) = Some (absr (str_clone m)).
Proof.
  intros [IB I]. unfold str_clone. rewrite (absr_eq m). destruct (s_val m) as [p|] eqn:V.
  - destruct I as [E [PL _]]. split; [unfold inv_rd; cbn; auto|].
    rewrite absr_eq. cbn [s_text s_sep s_base s_val s_end s_restore flag].
    pose proof (rchain_nonempty (s_sep m) (s_text m) p). destruct (rchain (s_sep m) (s_text m) p) eqn:SC; [contradiction|].
    reflexivity.
  - split; [unfold inv_rd; cbn; auto|]. rewrite absr_eq. cbn [s_text s_sep s_base s_val s_end s_restore flag s_clone].
    rewrite rchain_end. reflexivity.
Qed.

Lemma mk_string_sep_inv sep t : inv_rd (mk_string_sep sep t).
Proof. unfold inv_rd, mk_string_sep. cbn. repeat split; lia. Qed.

(* ---- the documented loop reading every element with the reader: exactly the elements up to the
   first unreadable one; it ends with the conversion error there, else cleanly *)
Lemma walk_b_gen : forall fuel m acc full rest fl, inv_rd m -> absr m = CStr full rest fl ->
  length rest <= fuel -> rest <> [] ->
  let '(l, e, m') := str_walk_b conv fuel m acc in
  map mk l = map mk (rev acc) ++ good rest /\ inv_rd m' /\
  (if forallb noerr rest then e = WDone else exists c, e = WConvErr c).
Proof.
  induction fuel as [|fuel IH]; intros m acc full rest fl I A LE NE.
  - destruct rest; [contradiction|cbn in LE; lia].
  - cbn [str_walk_b]. destruct (s_val m) as [p|] eqn:V.
    2:{ rewrite absr_eq, V in A. injection A as _ A _. congruence. }
    pose proof (read_sim m p I V) as RS. destruct (str_read (rdm (s_sep m)) m) as [[c b] m1].
    destruct RS as [I1 [A1 BM]]. rewrite A in A1, BM. destruct rest as [|x r]; [contradiction|].
    cbn [IterSpec.s_value] in BM. unfold bmatch in BM.
    destruct (noerr x) eqn:NX.
    + assert (BM' : (0 <= c)%Z /\ exists y, b = Some y /\ x = mk y) by (destruct x; try discriminate NX; exact BM).
      destruct BM' as [C [y [-> ->]]]. destruct (Z.ltb_spec c 0); [lia|].
      pose proof (advance_sim m1 I1) as SA. destruct (str_advance m1) as [r2 m2].
      destruct SA as [I2 [a [SA AM]]]. rewrite A1 in SA.
      assert (G : good (mk y :: r) = mk y :: good r) by (destruct (mk y); try discriminate NX; reflexivity).
      rewrite G. cbn [forallb]. rewrite NX. cbn [andb].
      destruct r as [|z r'].
      * rewrite s_read_one in SA. cbn [s_advance] in SA. apply pair_equal_spec in SA as [<- SA2]. cbn [amatch] in AM. subst r2.
        cbn [Z.ltb Z.eqb Z.compare forallb good rev]. rewrite map_app. cbn [map].
        split; [reflexivity|]. split; [assumption|reflexivity].
      * rewrite (s_read_more _ _ _ _ _ NX) in SA. cbn [s_advance] in SA. apply pair_equal_spec in SA as [<- SA2]. cbn [amatch] in AM.
        destruct (Z.ltb_spec r2 0); [lia|]. destruct (Z.eqb_spec r2 0); [lia|].
        specialize (IH m2 (y :: acc) full (z :: r') false I2 (eq_sym SA2)).
        cbn [length] in LE. specialize (IH ltac:(cbn [length]; lia) ltac:(discriminate)).
        destruct (str_walk_b conv fuel m2 (y :: acc)) as [[l e] m']. destruct IH as [IH1 [IH2 IH3]].
        split; [|split; assumption]. rewrite IH1. cbn [rev]. rewrite map_app, <- app_assoc. reflexivity.
    + destruct x; try discriminate NX. destruct BM as [-> [-> C]]. destruct (Z.ltb_spec c0 0); [|lia].
      cbn [good forallb noerr andb]. rewrite app_nil_r. split; [reflexivity|]. split; [assumption|]. eauto.
Qed.
End Reader.

(* ---- the two readers of iterator_string.c *)
Lemma word_len_ge l : forall n, n <= word_len l n.
Proof. induction l as [|b l IH]; intros n; cbn; [lia|]. destruct (_ || _); [lia|]. specialize (IH (S n)). lia. Qed.

Lemma rd_vec_ge (sep : list N) t p rs b : rd_vec t p = ROk rs b -> p <= rs.
Proof. unfold rd_vec. intros [= <- _]. pose proof (skip_at_ge t p). lia. Qed.

Lemma rd_key_ge sep t p rs b : rd_key sep t p = ROk rs b -> p <= rs.
Proof.
  unfold rd_key, convert_key. pose proof (skip_at_ge t p) as G.
  destruct (match sep with [] => _ | _ => _ end) as [n len]. destruct (Nat.eqb_spec n 0) as [Z|NZ]; [discriminate|].
  intros [= <- _]. destruct (_ && _); lia.
Qed.
Lemma rd_key_neg sep t p c cl : rd_key sep t p = RFail c cl -> (c < 0)%Z.
Proof.
  unfold rd_key. destruct (convert_key t sep p) as [[[k len] e]|]; [discriminate|]. intros [= <- _]. reflexivity.
Qed.
Lemma rd_vec_neg (sep : list N) t p c cl : rd_vec t p = RFail c cl -> (c < 0)%Z.
Proof. discriminate. Qed.

(* key = true: keywords, false: vectors *)
Definition rdm_of (key : bool) : list N -> text -> nat -> rres := if key then rd_key else fun _ => rd_vec.
Definition mk_of (key : bool) : list N -> elem := if key then ES else EVec.
Definition absb (key : bool) (m : stri) : sstate := if key then abs_key m else abs_vec m.
Definition convb (key : bool) : stri -> Z * option (list N) * stri := if key then str_conv_k else str_conv_vec.
Definition invb (key : bool) : stri -> Prop := inv_rd (rdm_of key).

Lemma absb_eq key m : absb key m = abs_rd (rdm_of key) (mk_of key) m.
Proof. now destruct key. Qed.
Lemma mk_of_ok key b : noerr (mk_of key b) = true.
Proof. now destruct key. Qed.
Lemma rdm_of_ge key sep t p rs b : rdm_of key sep t p = ROk rs b -> p <= rs.
Proof. destruct key; [apply rd_key_ge|apply (rd_vec_ge sep)]. Qed.
Lemma rdm_of_neg key sep t p c cl : rdm_of key sep t p = RFail c cl -> (c < 0)%Z.
Proof. destruct key; [apply rd_key_neg|apply (rd_vec_neg sep)]. Qed.
Lemma convb_eq key m : convb key m = str_read (rdm_of key (s_sep m)) m.
Proof. now destruct key. Qed.

Section Histories.
Variable rnd : Q -> fv.
Variable key : bool.

(* the calls of such a history: reading (with and without target), advance, reset, clone *)
Definition bprim (o : op * bool) : bool :=
  match fst o with
  | OAdvance | OReset | OClone => true
  | OKey | OKeyN => key
  | OVec | OVecN => negb key
  | _ => false
  end.
Definition bomatch (o : out) (x : sout) : Prop :=
  match o, x with
  | OutB c b, SoV e _ => bmatch (mk_of key) c b e
  | OutC c, SoV (Some (EErr c')) _ => c = c'
  | OutC c, SoV (Some _) _ => (0 <= c)%Z
  | OutV VNone, SoV None _ => True
  | OutA r, SoA a => amatch a r
  | OutR r, SoR => (0 <= r)%Z
  | OutK b, SoK b' => b = b'
  | OutNone, SoNone => True
  | _, _ => False
  end.
Definition brel (s : option src) (c : option sstate) : Prop :=
  match s, c with
  | Some (SStr m), Some c => invb key m /\ absb key m = c
  | None, None => True
  | _, _ => False
  end.

Lemma brel_intro m c : invb key m -> absb key m = c -> brel (Some (SStr m)) (Some c).
Proof. intros; split; assumption. Qed.

Lemma bstep_refines st cst o : brel (fst st) (fst cst) -> brel (snd st) (snd cst) -> bprim o = true ->
  let (st', x) := mstep rnd st o in
  let (cst', y) := sstep rnd cst o in
  brel (fst st') (fst cst') /\ brel (snd st') (snd cst') /\ bomatch x y.
Proof.
  destruct st as [s0 s1], cst as [c0 c1], o as [o upper]. cbn [fst snd]. intros R0 R1 P.
  unfold mstep, sstep. cbn [fst snd].
  assert (RC : brel (if upper then s1 else s0) (if upper then c1 else c0)) by now destruct upper.
  destruct (if upper then s1 else s0) as [s|] eqn:ES, (if upper then c1 else c0) as [c|];
    cbn [brel] in RC; try contradiction; [|destruct s; contradiction|cbn; auto].
  destruct s as [?|?|?|?|?|m|?|?]; try contradiction. destruct RC as [I A].
  unfold invb in I. rewrite absb_eq in A.
  assert (CS : exists full rest fl, c = CStr full rest fl) by (rewrite <- A; unfold abs_rd; eauto).
  destruct CS as [full [rest [fl CS]]].
  assert (VN : s_val m = None -> IterSpec.s_value rnd c = None).
  { intros V. rewrite <- A. unfold abs_rd. rewrite V. reflexivity. }
  assert (RN : s_val m = None -> s_read c = c).
  { intros V. rewrite <- A. unfold abs_rd. rewrite V. reflexivity. }
  assert (READ : forall (cv : stri -> Z * option (list N) * stri), cv m = str_read (rdm_of key (s_sep m)) m ->
      match s_val m with
      | None => True
      | Some _ =>
          let '(cc, b, m') := cv m in
          invb key m' /\ absb key m' = s_read c /\ bmatch (mk_of key) cc b (IterSpec.s_value rnd c)
      end).
  { intros cv H. destruct (s_val m) as [p|] eqn:V; [|exact Logic.I]. rewrite H.
    pose proof (read_sim rnd (rdm_of key) (mk_of key) (mk_of_ok key) (rdm_of_ge key) (rdm_of_neg key) m p I V) as RS.
    destruct (str_read (rdm_of key (s_sep m)) m) as [[cc b] m']. rewrite A in RS. rewrite absb_eq. exact RS. }
  assert (BC : forall cc b, bmatch (mk_of key) cc b (IterSpec.s_value rnd c) ->
                            bomatch (OutC cc) (SoV (IterSpec.s_value rnd c) None)).
  { intros cc b BM. unfold bmatch in BM. cbn [bomatch].
    destruct (IterSpec.s_value rnd c) as [[]|]; try contradiction; destruct BM; assumption. }
  destruct o; cbn [bprim fst] in P; try discriminate.
  - (* advance *)
    pose proof (advance_sim (rdm_of key) (mk_of key) (rdm_of_ge key) m I) as H. cbn [it_advance].
    destruct (str_advance m) as [r m']. destruct H as [I' [a [SA AM]]]. rewrite A in SA. rewrite SA.
    destruct upper; cbn [fst snd]; (split; [|split]); try assumption;
      try (apply brel_intro; [exact I'|apply absb_eq]); exact AM.
  - (* reset *)
    pose proof (reset_sim (rdm_of key) (mk_of key) m I) as H. cbn [it_reset].
    destruct (str_reset m) as [r m']. destruct H as [I' [A' R]]. rewrite A in A'. rewrite <- A'.
    destruct upper; cbn [fst snd]; (split; [|split]); try assumption;
      try (apply brel_intro; [exact I'|apply absb_eq]); exact R.
  - (* clone *)
    pose proof (clone_sim (rdm_of key) (mk_of key) (rdm_of_ge key) m I) as [IC H]. cbn [it_clone].
    rewrite A in H. rewrite H. cbn [fst snd]. split; [assumption|]. split; [|reflexivity].
    apply brel_intro; [exact IC|apply absb_eq].
  - (* keyword *)
    assert (CV : str_conv_k m = str_read (rdm_of key (s_sep m)) m) by (destruct key; [reflexivity|discriminate P]).
    specialize (READ str_conv_k CV). rewrite CS in *. destruct (s_val m) as [p|] eqn:V.
    + destruct (str_conv_k m) as [[cc b] m']. destruct READ as [I' [A' BM]]. rewrite <- A'.
      destruct upper; cbn [fst snd]; (split; [|split]); try assumption;
        try (apply brel_intro; [exact I'|reflexivity]); exact BM.
    + rewrite (VN eq_refl), (RN eq_refl). destruct upper; rewrite ES; cbn [fst snd]; (split; [|split]); try assumption;
        try exact Logic.I; (apply brel_intro; [exact I|rewrite absb_eq; exact A]).
  - assert (CV : str_conv_k m = str_read (rdm_of key (s_sep m)) m) by (destruct key; [reflexivity|discriminate P]).
    specialize (READ str_conv_k CV). rewrite CS in *. destruct (s_val m) as [p|] eqn:V.
    + destruct (str_conv_k m) as [[cc b] m']. destruct READ as [I' [A' BM]]. rewrite <- A'.
      destruct upper; cbn [fst snd]; (split; [|split]); try assumption;
        try (apply brel_intro; [exact I'|reflexivity]); exact (BC _ _ BM).
    + rewrite (VN eq_refl), (RN eq_refl). destruct upper; rewrite ES; cbn [fst snd]; (split; [|split]); try assumption;
        try exact Logic.I; (apply brel_intro; [exact I|rewrite absb_eq; exact A]).
  - (* vector *)
    assert (CV : str_conv_vec m = str_read (rdm_of key (s_sep m)) m) by (destruct key; [discriminate P|reflexivity]).
    specialize (READ str_conv_vec CV). rewrite CS in *. destruct (s_val m) as [p|] eqn:V.
    + destruct (str_conv_vec m) as [[cc b] m']. destruct READ as [I' [A' BM]]. rewrite <- A'.
      destruct upper; cbn [fst snd]; (split; [|split]); try assumption;
        try (apply brel_intro; [exact I'|reflexivity]); exact BM.
    + rewrite (VN eq_refl), (RN eq_refl). destruct upper; rewrite ES; cbn [fst snd]; (split; [|split]); try assumption;
        try exact Logic.I; (apply brel_intro; [exact I|rewrite absb_eq; exact A]).
  - assert (CV : str_conv_vec m = str_read (rdm_of key (s_sep m)) m) by (destruct key; [discriminate P|reflexivity]).
    specialize (READ str_conv_vec CV). rewrite CS in *. destruct (s_val m) as [p|] eqn:V.
    + destruct (str_conv_vec m) as [[cc b] m']. destruct READ as [I' [A' BM]]. rewrite <- A'.
      destruct upper; cbn [fst snd]; (split; [|split]); try assumption;
        try (apply brel_intro; [exact I'|reflexivity]); exact (BC _ _ BM).
    + rewrite (VN eq_refl), (RN eq_refl). destruct upper; rewrite ES; cbn [fst snd]; (split; [|split]); try assumption;
        try exact Logic.I; (apply brel_intro; [exact I|rewrite absb_eq; exact A]).
Qed.

Theorem byte_history_refines : forall ops st cst,
  brel (fst st) (fst cst) -> brel (snd st) (snd cst) -> forallb bprim ops = true ->
  Forall2 bomatch (mrun rnd st ops) (srun rnd cst ops).
Proof.
  induction ops as [|o ops IH]; intros st cst R0 R1 P; cbn [mrun srun]; [constructor|].
  cbn [forallb] in P. apply andb_prop in P as [P1 P2].
  pose proof (bstep_refines st cst o R0 R1 P1) as H.
  destruct (mstep rnd st o) as [st' x], (sstep rnd cst o) as [cst' y].
  destruct H as [H0 [H1 H2]]. constructor; [assumption|]. now apply IH.
Qed.

(* the documented loop reading keywords / vectors visits exactly the readable elements in order *)
Theorem byte_walk_visits_exactly : forall fuel m full rest fl, invb key m -> absb key m = CStr full rest fl ->
  length rest <= fuel -> rest <> [] ->
  let '(l, e, m') := str_walk_b (convb key) fuel m [] in
  map (mk_of key) l = good rest /\ invb key m' /\
  (if forallb noerr rest then e = WDone else exists c, e = WConvErr c).
Proof.
  intros fuel m full rest fl I A LE NE. rewrite absb_eq in A.
  pose proof (walk_b_gen rnd (rdm_of key) (mk_of key) (mk_of_ok key) (rdm_of_ge key) (rdm_of_neg key)
                fuel m [] full rest fl I A LE NE) as H.
  assert (EQ : str_walk_b (convb key) fuel m [] = str_walk_b (fun m0 : stri => str_read (rdm_of key (s_sep m0)) m0) fuel m []).
  { clear. generalize (@nil (list N)) as acc. revert m. induction fuel as [|fuel IH]; intros m acc; [reflexivity|].
    cbn [str_walk_b]. destruct (s_val m); [|reflexivity]. rewrite convb_eq.
    destruct (str_read (rdm_of key (s_sep m)) m) as [[c b] m1]. destruct (c <? 0)%Z; [reflexivity|].
    destruct (str_advance m1) as [r m2]. destruct (r <? 0)%Z; [reflexivity|]. destruct (r =? 0)%Z; [reflexivity|]. apply IH. }
  rewrite EQ. exact H.
Qed.

Theorem byte_text_fresh : forall sep t, invb key (mk_string_sep sep t).
Proof. intros. apply mk_string_sep_inv. Qed.
End Histories.

(* ---- what the readers hand out, independent of the scanning loops *)
(* a keyword byte: no terminator, no white space, no separator *)
Definition keych (sep : list N) (b : N) : bool := negb (b =? 0)%N && negb (isspace b) && negb (is_sep sep b).
Definition wordch (b : N) : bool := negb (b =? 0)%N && negb (isspace b).

Lemma key_scan_spec sep : forall l n,
  let '(n', len) := key_scan sep true l n n in
  let j := len - n in
  n <= len /\ forallb (keych sep) (firstn j l) = true /\
  ((n' = len /\ (nth j l 0%N = 0%N \/ isspace (nth j l 0%N) = true)) \/
   (n' = S len /\ is_sep sep (nth j l 0%N) = true /\ isspace (nth j l 0%N) = false /\ nth j l 0%N <> 0%N)).
Proof.
  induction l as [|b r IH]; intros n; cbn [key_scan].
  - rewrite Nat.sub_diag. cbn. split; [lia|]. split; [reflexivity|]. left. split; [reflexivity|]. left. reflexivity.
  - destruct (N.eqb_spec b 0) as [Z|NZ].
    { rewrite Nat.sub_diag. cbn. split; [lia|]. split; [reflexivity|]. left. split; [reflexivity|]. left. exact Z. }
    destruct (isspace b) eqn:SP.
    { rewrite Nat.sub_diag. cbn. split; [lia|]. split; [reflexivity|]. left. split; [reflexivity|]. right. exact SP. }
    destruct (is_sep sep b) eqn:SE.
    { rewrite Nat.sub_diag. cbn. split; [lia|]. split; [reflexivity|]. right. repeat split; assumption. }
    specialize (IH (S n)). destruct (key_scan sep true r (S n) (S n)) as [n' len].
    destruct IH as [LE [F C]]. split; [lia|]. replace (len - n) with (S (len - S n)) by lia.
    cbn [firstn forallb nth]. split; [|exact C].
    rewrite F. unfold keych. rewrite SP, SE. destruct (N.eqb_spec b 0); [contradiction|]. reflexivity.
Qed.

Lemma word_len_spec : forall l n,
  let w := word_len l n in
  n <= w /\ forallb wordch (firstn (w - n) l) = true /\
  (nth (w - n) l 0%N = 0%N \/ isspace (nth (w - n) l 0%N) = true).
Proof.
  induction l as [|b r IH]; intros n; cbn [word_len].
  - rewrite Nat.sub_diag. cbn. split; [lia|]. split; [reflexivity|]. left. reflexivity.
  - destruct (N.eqb_spec b 0) as [Z|NZ]; cbn [orb].
    { rewrite Nat.sub_diag. cbn. split; [lia|]. split; [reflexivity|]. left. exact Z. }
    destruct (isspace b) eqn:SP.
    { rewrite Nat.sub_diag. cbn. split; [lia|]. split; [reflexivity|]. right. exact SP. }
    specialize (IH (S n)). cbv zeta in IH. destruct IH as [LE [F C]]. split; [lia|].
    replace (word_len r (S n) - n) with (S (word_len r (S n) - S n)) by lia.
    cbn [firstn forallb nth]. split; [|exact C].
    rewrite F. unfold wordch. rewrite SP. destruct (N.eqb_spec b 0); [contradiction|]. reflexivity.
Qed.

Lemma nth_skipn_add {A} (l : list A) d : forall k j, nth j (skipn k l) d = nth (k + j) l d.
Proof. induction l as [|a l IH]; intros [|k] j; cbn; try reflexivity; [now destruct j|apply IH]. Qed.

(* Separator configurations that hold a white-space character (the default " ,;/:" does): the keyword is the
   longest run of keyword bytes behind the leading white space, and the byte that ends the element (the one
   replaced by the terminator and skipped by advance) is the FIRST byte behind it: the end of the text,
   white space or a separator.  (With docs/C19_string_key_separator.diff.) *)
Theorem key_element sep t p rs b : existsb isspace sep = true -> rd_key sep t p = ROk rs b ->
  let k := skip_space_at t p in
  k <= rs /\ b = firstn (rs - k) (skipn k (t_bytes t)) /\ forallb (keych sep) b = true /\
  (byte_at t rs = 0%N \/ isspace (byte_at t rs) = true \/ is_sep sep (byte_at t rs) = true).
Proof.
  intros SP. unfold rd_key, convert_key. cbv zeta.
  destruct sep as [|s0 sep']; [discriminate SP|]. rewrite SP.
  pose proof (key_scan_spec (s0 :: sep') (skipn (skip_space_at t p) (t_bytes t)) 0) as KS.
  destruct (key_scan (s0 :: sep') true (skipn (skip_space_at t p) (t_bytes t)) 0 0) as [n len].
  rewrite Nat.sub_0_r in KS. destruct KS as [_ [F C]].
  destruct (Nat.eqb_spec n 0) as [Z|NZ]; [discriminate|].
  set (k := skip_space_at t p) in *. unfold byte_at. rewrite nth_skipn_add in C.
  destruct C as [[-> C]|[-> [C1 [C2 C3]]]].
  - destruct (Nat.ltb_spec (k + len) (k + len)); [lia|]. cbn [andb]. intros [= <- <-].
    replace (k + len - k) with len by lia. split; [lia|]. split; [reflexivity|]. split; [exact F|].
    destruct C; auto.
  - destruct (Nat.ltb_spec (k + len) (k + S len)); [|lia]. replace (k + S len - 1) with (k + len) by lia.
    unfold byte_at. rewrite C2. cbn [andb negb]. intros [= <- <-].
    replace (k + len - k) with len by lia. split; [lia|]. split; [reflexivity|]. split; [exact F|]. auto.
Qed.

(* The 'c' vector element: leading white space and the next word (longest run of bytes that are neither
   white space nor the end), ended by white space or the end of the text.
   (With docs/C19_string_vector.diff: the scan stops at the end of the text.) *)
Theorem vector_element t p rs b : rd_vec t p = ROk rs b ->
  let k := skip_space_at t p in
  k <= rs /\ b = firstn (rs - p) (skipn p (t_bytes t)) /\
  forallb wordch (firstn (rs - k) (skipn k (t_bytes t))) = true /\
  (byte_at t rs = 0%N \/ isspace (byte_at t rs) = true).
Proof.
  unfold rd_vec. intros [= <- <-]. cbv zeta.
  pose proof (word_len_spec (skipn (skip_space_at t p) (t_bytes t)) 0) as W. cbv zeta in W.
  rewrite Nat.sub_0_r in W. destruct W as [_ [F C]]. rewrite nth_skipn_add in C.
  set (k := skip_space_at t p) in *. split; [lia|]. split; [reflexivity|].
  replace (k + word_len (skipn k (t_bytes t)) 0 - k) with (word_len (skipn k (t_bytes t)) 0) by lia.
  split; [exact F|]. exact C.
Qed.
