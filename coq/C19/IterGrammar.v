(* C19 — IterGrammar.v: the descriptions mpt_iterator_create accepts, as a grammar
   over positions of the text, and the proof that the transcribed parser accepts
   nothing else and only with the numbers found at those positions.

     description :=  blank*                                      (default range)
                  |  blank* number ...                           (value list, no letters first)
                  |  blank* NAME form                             NAME: 1..30 letters, case ignored
     lin|linear    ( count )  |  ( count : a b )
     range         ( a b )    |  ( a b : step )
     fac|fact|factor ( count ) | ( count : b ) | ( count : b : f ) | ( count : b : f : i ) | ( count : b :: i )
                   (b resp. f not below DBL_MIN where it serves as factor; f does not start with ':')

   Every "(", ":" and ")" may be preceded by at most ONE blank which must be
   followed by a printing character ([vis]); count is what strtoumax (base 0)
   reads there, accepted up to UINT32_MAX and not negative; a, b, step, f, i are
   what strtod reads (refused when a finite numeral overflows).  Text behind
   the closing parenthesis is ignored. *)
From Coq Require Import ZArith NArith QArith List Bool Lia.
From MptV Require Import C19.IterModel.
Import ListNotations.
Local Open Scope nat_scope.

(* the next visible character of the text from p is c, found at q *)
Definition vis (t : text) (p : nat) (c : N) (q : nat) : Prop :=
  c <> 0%N /\ isspace c = false /\
  ((q = p /\ byte_at t p = c) \/
   (q = S p /\ isspace (byte_at t p) = true /\ byte_at t (S p) = c /\ isgraph c = true)).
(* a count / a number of S k characters stands at p *)
Definition utok (t : text) (p k : nat) (n : N) : Prop := cuint32 t p = (Z.of_nat (S k), Some n).
Definition dtok (t : text) (p k : nat) (v : fv) : Prop := cdouble t p = (Z.of_nat (S k), Some v).
Definition blank (t : text) (p : nat) : Prop :=
  byte_at t p = 0%N \/ all_space (skipn p (t_bytes t)) = true.

Definition c_lpar := 40%N. Definition c_rpar := 41%N. Definition c_colon := 58%N.

Inductive lin_form (t : text) (p : nat) : desc -> Prop :=
| LF_count q k n q2 :
    vis t p c_lpar q -> utok t (S q) k n -> vis t (S q + S k) c_rpar q2 ->
    lin_form t p (PLin (wrap32 (Z.of_N n + 1)) (Fin 0) (Fin 1))
| LF_range q k n q2 k1 a k2 b q3 :
    vis t p c_lpar q -> utok t (S q) k n -> vis t (S q + S k) c_colon q2 ->
    dtok t (S q2) k1 a -> dtok t (S q2 + S k1) k2 b -> vis t (S q2 + S k1 + S k2) c_rpar q3 ->
    lin_form t p (PLin (wrap32 (Z.of_N n + 1)) a b).

Inductive range_form (rnd : Q -> fv) (t : text) (p : nat) : desc -> Prop :=
| RF_plain q k1 a k2 b q2 :
    vis t p c_lpar q -> dtok t (S q) k1 a -> dtok t (S q + S k1) k2 b ->
    vis t (S q + S k1 + S k2) c_rpar q2 ->
    range_form rnd t p (PRange a b (default_step rnd a b))
| RF_step q k1 a k2 b q2 k3 st q3 :
    vis t p c_lpar q -> dtok t (S q) k1 a -> dtok t (S q + S k1) k2 b ->
    vis t (S q + S k1 + S k2) c_colon q2 -> dtok t (S q2) k3 st -> vis t (S q2 + S k3) c_rpar q3 ->
    range_form rnd t p (PRange a b st).

Definition ge_dblmin (x : fv) : Prop := flt x c_dblmin = false.
Inductive fac_form (t : text) (p : nat) : desc -> Prop :=
| FF_count q k n q2 :
    vis t p c_lpar q -> utok t (S q) k n -> vis t (S q + S k) c_rpar q2 ->
    fac_form t p (PFac (of_N 10) (of_N 10) (Fin 0) (wrap32 (Z.of_N n + 1)))
| FF_base q k n q2 k1 b q3 :
    vis t p c_lpar q -> utok t (S q) k n -> vis t (S q + S k) c_colon q2 ->
    dtok t (S q2) k1 b -> vis t (S q2 + S k1) c_rpar q3 -> ge_dblmin b ->
    fac_form t p (PFac b b (Fin 0) (wrap32 (Z.of_N n + 1)))
| FF_fact q k n q2 k1 b q3 k2 f q4 :
    vis t p c_lpar q -> utok t (S q) k n -> vis t (S q + S k) c_colon q2 ->
    dtok t (S q2) k1 b -> vis t (S q2 + S k1) c_colon q3 -> byte_at t (S q3) <> c_colon ->
    dtok t (S q3) k2 f -> ge_dblmin f -> vis t (S q3 + S k2) c_rpar q4 ->
    fac_form t p (PFac b f (Fin 0) (wrap32 (Z.of_N n + 1)))
| FF_init q k n q2 k1 b q3 k2 f q4 k3 i q5 :
    vis t p c_lpar q -> utok t (S q) k n -> vis t (S q + S k) c_colon q2 ->
    dtok t (S q2) k1 b -> vis t (S q2 + S k1) c_colon q3 -> byte_at t (S q3) <> c_colon ->
    dtok t (S q3) k2 f -> ge_dblmin f -> vis t (S q3 + S k2) c_colon q4 ->
    dtok t (S q4) k3 i -> vis t (S q4 + S k3) c_rpar q5 ->
    fac_form t p (PFac b f i (wrap32 (Z.of_N n + 1)))
| FF_same q k n q2 k1 b q3 k3 i q5 :
    vis t p c_lpar q -> utok t (S q) k n -> vis t (S q + S k) c_colon q2 ->
    dtok t (S q2) k1 b -> vis t (S q2 + S k1) c_colon q3 -> byte_at t (S q3) = c_colon ->
    ge_dblmin b -> dtok t (S (S q3)) k3 i -> vis t (S (S q3) + S k3) c_rpar q5 ->
    fac_form t p (PFac b b i (wrap32 (Z.of_N n + 1))).

Inductive create_form (rnd : Q -> fv) (t : text) : desc -> Prop :=
| CF_default p0 : p0 = skip_space_at t 0 -> byte_at t p0 = 0%N -> create_form rnd t PDefault
| CF_values p0 : p0 = skip_space_at t 0 -> byte_at t p0 <> 0%N -> isalpha (byte_at t p0) = false ->
    create_form rnd t (PVals t p0)
| CF_lin p0 n name d : p0 = skip_space_at t 0 -> n = count_alpha (skipn p0 (t_bytes t)) -> 1 <= n <= 30 ->
    name = firstn n (skipn p0 (t_bytes t)) -> (name_is name n_linear || name_is name n_lin) = true ->
    lin_form t (p0 + n) d -> create_form rnd t d
| CF_fac p0 n name d : p0 = skip_space_at t 0 -> n = count_alpha (skipn p0 (t_bytes t)) -> 1 <= n <= 30 ->
    name = firstn n (skipn p0 (t_bytes t)) ->
    (name_is name n_factor || name_is name n_fact || name_is name n_fac) = true ->
    fac_form t (p0 + n) d -> create_form rnd t d
| CF_range p0 n name d : p0 = skip_space_at t 0 -> n = count_alpha (skipn p0 (t_bytes t)) -> 1 <= n <= 30 ->
    name = firstn n (skipn p0 (t_bytes t)) -> name_is name n_range = true ->
    range_form rnd t (p0 + n) d -> create_form rnd t d.

(* ------------------------------------------------------------------ lexical lemmas *)
Lemma nextvis_idem t p c q : nextvis t p = (c, q) -> nextvis t q = (c, q).
Proof.
  unfold nextvis. destruct (N.eqb_spec (byte_at t p) 0) as [E|E].
  - intros [= <- <-]. destruct (N.eqb_spec (byte_at t p) 0); [reflexivity|contradiction].
  - destruct (isspace (byte_at t p)) eqn:SP.
    + destruct (N.eqb_spec (byte_at t (S p)) 0) as [E2|E2].
      * intros [= <- <-]. destruct (N.eqb_spec (byte_at t p) 0); [contradiction|]. rewrite SP.
        destruct (N.eqb_spec (byte_at t (S p)) 0); [reflexivity|contradiction].
      * destruct (isgraph (byte_at t (S p))) eqn:G.
        -- intros [= <- <-]. destruct (N.eqb_spec (byte_at t (S p)) 0); [contradiction|].
           assert (isspace (byte_at t (S p)) = false) as ->; [|reflexivity].
           unfold isgraph, isspace in *. destruct (N.leb_spec 33 (byte_at t (S p))); [|discriminate].
           destruct (N.leb_spec (byte_at t (S p)) 13); [lia|]. cbn. rewrite andb_false_r. cbn.
           apply N.eqb_neq. lia.
        -- intros [= <- <-]. destruct (N.eqb_spec (byte_at t p) 0); [contradiction|]. rewrite SP.
           destruct (N.eqb_spec (byte_at t (S p)) 0); [contradiction|]. now rewrite G.
    + intros [= <- <-]. destruct (N.eqb_spec (byte_at t p) 0); [contradiction|]. now rewrite SP.
Qed.

Lemma nextvis_vis t p c q x : nextvis t p = (c, q) -> c = Z.of_N x -> x <> 0%N -> isspace x = false ->
  vis t p x q.
Proof.
  unfold nextvis, vis. intros H C X SX. split; [assumption|]. split; [assumption|].
  destruct (N.eqb_spec (byte_at t p) 0) as [E|E].
  - injection H as <- <-. unfold MissingData in C. lia.
  - destruct (isspace (byte_at t p)) eqn:SP.
    + destruct (N.eqb_spec (byte_at t (S p)) 0).
      * injection H as <- <-. unfold MissingData in C. lia.
      * destruct (isgraph (byte_at t (S p))) eqn:G.
        -- injection H as <- <-. apply N2Z.inj in C. subst x. right. auto.
        -- injection H as <- <-. unfold BadValue in C. lia.
    + injection H as <- <-. apply N2Z.inj in C. subst x. left. auto.
Qed.

Lemma nth_skip {A} (l : list A) n i d : nth i (skipn n l) d = nth (n + i) l d.
Proof.
  revert n; induction l as [|x l IH]; intros n.
  - rewrite skipn_nil. destruct i, n; reflexivity.
  - destruct n; cbn; [reflexivity|]. apply IH.
Qed.

Lemma all_space_nth l p i : all_space (skipn p l) = true -> p <= i -> i < length l ->
  isspace (nth i l 0%N) = true.
Proof.
  intros A P L. unfold all_space in A. rewrite forallb_forall in A. apply A.
  replace i with (p + (i - p)) by lia. rewrite <- nth_skip. apply nth_In. rewrite skipn_length. lia.
Qed.

Lemma blank_no_vis t p x q : blank t p -> ~ vis t p x q.
Proof.
  intros B [X [SX V]]. unfold blank, byte_at in *.
  assert (G : forall i, p <= i -> nth i (t_bytes t) 0%N = x -> False).
  { intros i P E. destruct B as [B|B].
    - destruct V as [[-> V]|[-> [SP _]]].
      + rewrite B in V. now subst x.
      + rewrite B in SP. discriminate.
    - destruct (Nat.lt_ge_cases i (length (t_bytes t))) as [L|L].
      + rewrite <- E, (all_space_nth _ _ _ B P L) in SX. discriminate.
      + rewrite nth_overflow in E by assumption. now subst x. }
  destruct V as [[-> V]|[-> [_ [V _]]]]; [apply (G p)|apply (G (S p))]; auto.
Qed.

Lemma cdouble_cases t p : forall r v, cdouble t p = (r, v) ->
  ((r < 0)%Z /\ v = None) \/ (r = 0%Z /\ v = None /\ blank t p) \/
  (exists k x, r = Z.of_nat (S k) /\ v = Some x).
Proof.
  intros r v. unfold cdouble, blank. destruct (N.eqb_spec (byte_at t p) 0).
  - intros [= <- <-]. right. left. auto.
  - destruct (d_ovf _).
    + intros [= <- <-]. left. split; [reflexivity|reflexivity].
    + destruct (d_len _) as [|k] eqn:L.
      * destruct (all_space _) eqn:A; intros [= <- <-].
        -- right. left. auto.
        -- left. split; reflexivity.
      * intros [= <- <-]. right. right. exists k. eexists. split; reflexivity.
Qed.

Lemma cuint32_cases t p : forall r v, cuint32 t p = (r, v) ->
  ((r < 0)%Z /\ v = None) \/ (r = 0%Z /\ v = None /\ blank t p) \/
  (exists k x, r = Z.of_nat (S k) /\ v = Some x).
Proof.
  intros r v. unfold cuint32, blank. destruct (N.eqb_spec (byte_at t p) 0).
  - intros [= <- <-]. right. left. auto.
  - destruct (u_rng _).
    + intros [= <- <-]. left. split; reflexivity.
    + destruct (u_len _) as [|k] eqn:L.
      * destruct (all_space _) eqn:A; intros [= <- <-].
        -- right. left. auto.
        -- left. split; reflexivity.
      * destruct (_ && _).
        -- intros [= <- <-]. left. split; reflexivity.
        -- destruct (_ <? _)%N; intros [= <- <-]; [left; split; reflexivity|]. right. right. exists k. eexists. split; reflexivity.
Qed.

Lemma zpos_s q k : zpos q (Z.of_nat (S k) + 1) = S q + S k.
Proof. unfold zpos. lia. Qed.
Lemma zpos_0 q : zpos q (0 + 1) = S q.
Proof. unfold zpos. lia. Qed.

Lemma eqb_code c x : (c =? Z.of_N x)%Z = true -> c = Z.of_N x.
Proof. apply Z.eqb_eq. Qed.

(* closing parenthesis reached through the two nextvis calls of the C code *)
Lemma close_vis t s c q c3 q3 : nextvis t s = (c, q) -> nextvis t q = (c3, q3) ->
  (c3 =? RPAR)%Z = true -> vis t s c_rpar q.
Proof.
  intros H1 H2 E. rewrite (nextvis_idem _ _ _ _ H1) in H2. injection H2 as <- <-.
  apply (nextvis_vis t s c q c_rpar H1); [now apply Z.eqb_eq in E|discriminate|reflexivity].
Qed.

Ltac vis_of H E x :=
  apply (nextvis_vis _ _ _ _ x) in H; [|apply Z.eqb_eq in E; exact E|discriminate|reflexivity].

(* two bounds *)
Lemma parse_range_cases t p mn mx : forall r a b, parse_range t p mn mx = (r, a, b) ->
  (r < 0)%Z \/
  (exists k1 k2, dtok t p k1 a /\ dtok t (p + S k1) k2 b /\ r = (Z.of_nat (S k1) + Z.of_nat (S k2))%Z) \/
  ((0 <= r)%Z /\ blank t (zpos p r)).
Proof.
  intros r a b. unfold parse_range. destruct (cdouble t p) as [r1 v1] eqn:C1.
  destruct (cdouble_cases _ _ _ _ C1) as [[N1 ->]|[[-> [-> B1]]|[k1 [x1 [-> ->]]]]].
  - destruct (Z.ltb_spec r1 0); [|lia]. intros [= <- _ _]. left. assumption.
  - cbn [Z.ltb Z.compare]. replace (zpos p 0) with p by (unfold zpos; lia).
    rewrite C1. cbn [Z.ltb Z.compare Z.add]. intros [= <- _ _]. right. right.
    split; [lia|]. match goal with |- blank t ?x => replace x with p by (unfold zpos; lia) end. assumption.
  - destruct (Z.ltb_spec (Z.of_nat (S k1)) 0); [lia|].
    replace (zpos p (Z.of_nat (S k1))) with (p + S k1) by (unfold zpos; lia).
    destruct (cdouble t (p + S k1)) as [r2 v2] eqn:C2.
    destruct (cdouble_cases _ _ _ _ C2) as [[N2 ->]|[[-> [-> B2]]|[k2 [x2 [-> ->]]]]].
    + destruct (Z.ltb_spec r2 0); [|lia]. intros [= <- _ _]. left. assumption.
    + cbn [Z.ltb Z.compare]. intros [= <- _ _]. right. right. split; [lia|].
      match goal with |- blank t ?x => replace x with (p + S k1) by (unfold zpos; lia) end. assumption.
    + destruct (Z.ltb_spec (Z.of_nat (S k2)) 0); [lia|]. intros [= <- <- <-]. right. left.
      exists k1, k2. unfold dtok. auto.
Qed.

(* ------------------------------------------------------------------ soundness of the parsers *)
Lemma lin_sound t p d : lin_of_text t p = Some d -> lin_form t p d.
Proof.
  unfold lin_of_text. destruct (nextvis t p) as [c q] eqn:V1.
  destruct (c =? LPAR)%Z eqn:E1; [|discriminate]. cbn [negb].
  vis_of V1 E1 c_lpar.
  destruct (cuint32 t (S q)) as [ret iv] eqn:U.
  destruct (Z.ltb_spec ret 1); [discriminate|].
  destruct (cuint32_cases _ _ _ _ U) as [[N _]|[[Z0 _]|[k [n [-> ->]]]]]; try lia.
  rewrite zpos_s. destruct (nextvis t (S q + S k)) as [c2 q2] eqn:V2.
  destruct (c2 =? COLON)%Z eqn:E2.
  - vis_of V2 E2 c_colon.
    destruct (parse_range t (S q2) (Fin 0) (Fin 1)) as [[r mn] mx] eqn:PR.
    destruct (Z.ltb_spec r 0); [discriminate|].
    destruct (nextvis t (zpos q2 (r + 1))) as [c3 q3] eqn:V3.
    destruct (c3 =? RPAR)%Z eqn:E3; [|discriminate]. cbn [negb]. intros [= <-].
    vis_of V3 E3 c_rpar.
    destruct (parse_range_cases _ _ _ _ _ _ _ PR) as [N|[[k1 [k2 [D1 [D2 ->]]]]|[_ B]]]; [lia| |].
    + replace (zpos q2 (Z.of_nat (S k1) + Z.of_nat (S k2) + 1)) with (S q2 + S k1 + S k2) in V3
        by (unfold zpos; lia).
      eapply LF_range; eauto.
    + exfalso. replace (zpos q2 (r + 1)) with (zpos (S q2) r) in V3 by (unfold zpos; lia).
      exact (blank_no_vis _ _ _ _ B V3).
  - destruct (nextvis t q2) as [c3 q3] eqn:V3.
    destruct (c3 =? RPAR)%Z eqn:E3; [|discriminate]. cbn [negb]. intros [= <-].
    eapply LF_count; eauto. eapply close_vis; eauto.
Qed.

Lemma range_sound rnd t p d : range_of_text rnd t p = Some d -> range_form rnd t p d.
Proof.
  unfold range_of_text. destruct (nextvis t p) as [c q] eqn:V1.
  destruct (c =? LPAR)%Z eqn:E1; [|discriminate]. cbn [negb].
  vis_of V1 E1 c_lpar.
  destruct (parse_range t (S q) (Fin 0) (Fin 1)) as [[r mn] mx] eqn:PR.
  destruct (Z.ltb_spec r 0); [discriminate|].
  assert (NB : forall x q', vis t (zpos q (r + 1)) x q' ->
               exists k1 k2, dtok t (S q) k1 mn /\ dtok t (S q + S k1) k2 mx /\
                             zpos q (r + 1) = S q + S k1 + S k2).
  { intros x q' V. destruct (parse_range_cases _ _ _ _ _ _ _ PR) as [N|[[k1 [k2 [D1 [D2 ->]]]]|[_ B]]]; [lia| |].
    - exists k1, k2. repeat split; auto. unfold zpos. lia.
    - exfalso. replace (zpos q (r + 1)) with (zpos (S q) r) in V by (unfold zpos; lia).
      exact (blank_no_vis _ _ _ _ B V). }
  destruct (nextvis t (zpos q (r + 1))) as [c2 q2] eqn:V2.
  destruct (c2 =? COLON)%Z eqn:E2.
  - vis_of V2 E2 c_colon. destruct (NB _ _ V2) as [k1 [k2 [D1 [D2 P]]]]. rewrite P in V2.
    destruct (cdouble t (S q2)) as [r2 v] eqn:C.
    destruct (Z.ltb_spec r2 0); [discriminate|].
    destruct (nextvis t (zpos q2 (r2 + 1))) as [c3 q3] eqn:V3.
    destruct (c3 =? RPAR)%Z eqn:E3; [|discriminate]. cbn [negb]. intros [= <-].
    vis_of V3 E3 c_rpar.
    destruct (cdouble_cases _ _ _ _ C) as [[N _]|[[-> [_ B]]|[k3 [x [-> ->]]]]]; [lia| |].
    + exfalso. rewrite zpos_0 in V3. exact (blank_no_vis _ _ _ _ B V3).
    + rewrite zpos_s in V3. eapply RF_step; eauto.
  - destruct (nextvis t q2) as [c3 q3] eqn:V3.
    destruct (c3 =? RPAR)%Z eqn:E3; [|discriminate]. cbn [negb]. intros [= <-].
    pose proof (close_vis _ _ _ _ _ _ V2 V3 E3) as VC.
    destruct (NB _ _ VC) as [k1 [k2 [D1 [D2 P]]]]. rewrite P in VC.
    eapply RF_plain; eauto.
Qed.

(* ---- factor descriptions *)
Lemma blank_nextvis t s c q : blank t s -> nextvis t s = (c, q) -> (c < 0)%Z /\ q = s.
Proof.
  intros B H. destruct (Z.ltb_spec c 0) as [L|L].
  - split; [assumption|]. revert H. unfold nextvis.
    destruct (_ =? _)%N; [now intros [= _ <-]|]. destruct (isspace _); [|intros [= <- _]; lia].
    destruct (_ =? _)%N; [now intros [= _ <-]|]. destruct (isgraph _); [intros [= <- _]; lia|now intros [= _ <-]].
  - exfalso. assert (V : vis t s (Z.to_N c) q).
    { apply (nextvis_vis t s c q (Z.to_N c) H); [lia| |].
      - intros E. revert H. unfold nextvis. destruct (N.eqb_spec (byte_at t s) 0); [intros [= <- _]; unfold MissingData in L; lia|].
        destruct (isspace _).
        + destruct (N.eqb_spec (byte_at t (S s)) 0); [intros [= <- _]; unfold MissingData in L; lia|].
          destruct (isgraph _); intros [= <- _]; [lia|unfold BadValue in L; lia].
        + intros [= <- _]. lia.
      - revert H. unfold nextvis. destruct (N.eqb_spec (byte_at t s) 0); [intros [= <- _]; unfold MissingData in L; lia|].
        destruct (isspace (byte_at t s)) eqn:SP.
        + destruct (N.eqb_spec (byte_at t (S s)) 0); [intros [= <- _]; unfold MissingData in L; lia|].
          destruct (isgraph (byte_at t (S s))) eqn:G; intros [= <- _]; [|unfold BadValue in L; lia].
          rewrite N2Z.id. unfold isgraph, isspace in *. destruct (N.leb_spec 33 (byte_at t (S s))); [|discriminate].
          destruct (N.leb_spec (byte_at t (S s)) 13); [lia|]. rewrite andb_false_r. cbn. apply N.eqb_neq. lia.
        + intros [= <- _]. now rewrite N2Z.id. }
    exact (blank_no_vis _ _ _ _ B V).
Qed.

Lemma nextvis_at t p x : byte_at t p = x -> x <> 0%N -> isspace x = false -> nextvis t p = (Z.of_N x, p).
Proof.
  intros E X SX. unfold nextvis. rewrite E. destruct (N.eqb_spec x 0); [contradiction|]. now rewrite SX.
Qed.

Lemma neg_not c x : (c < 0)%Z -> (c =? Z.of_N x)%Z = false.
Proof. intros H. apply Z.eqb_neq. lia. Qed.

(* from a blank position the closing parenthesis is never found *)
Lemma blank_refuse t s c q c3 q3 : blank t s -> nextvis t s = (c, q) -> nextvis t q = (c3, q3) ->
  (c3 =? RPAR)%Z = false /\ (c =? COLON)%Z = false /\ (c3 =? COLON)%Z = false.
Proof.
  intros B H1 H2. destruct (blank_nextvis _ _ _ _ B H1) as [N ->]. rewrite H1 in H2. injection H2 as <- <-.
  repeat split; apply Z.eqb_neq; unfold RPAR, COLON; lia.
Qed.

Lemma fac_sound t p d : fac_of_text t p = Some d -> fac_form t p d.
Proof.
  unfold fac_of_text. destruct (nextvis t p) as [c q] eqn:V1.
  destruct (c =? LPAR)%Z eqn:E1; [|discriminate]. cbn [negb].
  vis_of V1 E1 c_lpar.
  destruct (cuint32 t (S q)) as [ret iv] eqn:U.
  destruct (Z.ltb_spec ret 0); [discriminate|].
  destruct (cuint32_cases _ _ _ _ U) as [[N _]|[[-> [-> B]]|[k [n [-> ->]]]]]; [lia| |].
  { (* no count: the rest is blank *)
    rewrite zpos_0. destruct (nextvis t (S q)) as [c2 q2] eqn:V2.
    destruct (nextvis t q2) as [c3 q3] eqn:V3.
    destruct (blank_refuse _ _ _ _ _ _ B V2 V3) as [R3 [C2 C3]]. rewrite C2, V3, C3.
    destruct (flt _ _); [discriminate|]. rewrite (nextvis_idem _ _ _ _ V3), R3. discriminate. }
  rewrite zpos_s. destruct (nextvis t (S q + S k)) as [c2 q2] eqn:V2.
  destruct (c2 =? COLON)%Z eqn:E2.
  2:{ (* fac(n) *)
    rewrite (nextvis_idem _ _ _ _ V2), E2.
    destruct (flt _ _); [discriminate|]. rewrite (nextvis_idem _ _ _ _ V2).
    destruct (c2 =? RPAR)%Z eqn:E3; [|discriminate]. cbn [negb]. intros [= <-].
    eapply FF_count; eauto. vis_of V2 E3 c_rpar. exact V2. }
  vis_of V2 E2 c_colon.
  destruct (cdouble t (S q2)) as [r1 v1] eqn:C1.
  destruct (Z.ltb_spec r1 0); [discriminate|].
  destruct (cdouble_cases _ _ _ _ C1) as [[N _]|[[-> [-> B]]|[k1 [b [-> ->]]]]]; [lia| |].
  { rewrite zpos_0. destruct (nextvis t (S q2)) as [c3 q3] eqn:V3.
    destruct (nextvis t q3) as [c4 q4] eqn:V4.
    destruct (blank_refuse _ _ _ _ _ _ B V3 V4) as [R4 [C3 C4]]. rewrite C3.
    destruct (flt _ _); [discriminate|]. rewrite V4, R4. discriminate. }
  rewrite zpos_s. destruct (nextvis t (S q2 + S k1)) as [c3 q3] eqn:V3.
  destruct (c3 =? COLON)%Z eqn:E3.
  2:{ (* fac(n : b) *)
    destruct (flt b c_dblmin) eqn:GB; [discriminate|].
    destruct (nextvis t q3) as [c5 q5] eqn:V5.
    destruct (c5 =? RPAR)%Z eqn:E5; [|discriminate]. cbn [negb]. intros [= <-].
    eapply FF_base; eauto. eapply close_vis; eauto. }
  vis_of V3 E3 c_colon.
  destruct (N.eqb_spec (byte_at t (S q3)) 58) as [B58|B58].
  { (* fac(n : b :: i) *)
    destruct (flt b c_dblmin) eqn:GB; [discriminate|].
    rewrite zpos_0. rewrite (nextvis_at t (S q3) 58 B58) by (discriminate || reflexivity).
    change (Z.of_N 58 =? COLON)%Z with true. cbn iota.
    destruct (cdouble t (S (S q3))) as [r3 v3] eqn:C3.
    destruct (Z.ltb_spec r3 0); [discriminate|].
    destruct (cdouble_cases _ _ _ _ C3) as [[N _]|[[-> [-> B]]|[k3 [i [-> ->]]]]]; [lia| |].
    - rewrite zpos_0. destruct (nextvis t (S (S q3))) as [c5 q5] eqn:V5.
      destruct (blank_nextvis _ _ _ _ B V5) as [N5 _].
      assert ((c5 =? RPAR)%Z = false) as -> by (apply Z.eqb_neq; unfold RPAR; lia). discriminate.
    - rewrite zpos_s. destruct (nextvis t (S (S q3) + S k3)) as [c5 q5] eqn:V5.
      destruct (c5 =? RPAR)%Z eqn:E5; [|discriminate]. cbn [negb]. intros [= <-].
      vis_of V5 E5 c_rpar. eapply FF_same; eauto. }
  destruct (cdouble t (S q3)) as [r2 v2] eqn:C2.
  destruct (cdouble_cases _ _ _ _ C2) as [[N ->]|[[-> [-> B]]|[k2 [f [-> ->]]]]].
  { destruct (Z.ltb_spec r2 0); [|lia]. discriminate. }
  { cbn [Z.ltb Z.compare orb]. destruct (flt _ _); [discriminate|].
    rewrite zpos_0. destruct (nextvis t (S q3)) as [c4 q4] eqn:V4.
    destruct (nextvis t q4) as [c5 q5] eqn:V5.
    destruct (blank_refuse _ _ _ _ _ _ B V4 V5) as [R5 [C4 _]]. rewrite C4, V5, R5. discriminate. }
  destruct (Z.ltb_spec (Z.of_nat (S k2)) 0); [lia|]. cbn [orb].
  destruct (flt f c_dblmin) eqn:GF; [discriminate|].
  rewrite zpos_s. destruct (nextvis t (S q3 + S k2)) as [c4 q4] eqn:V4.
  destruct (c4 =? COLON)%Z eqn:E4.
  2:{ (* fac(n : b : f) *)
    destruct (nextvis t q4) as [c5 q5] eqn:V5.
    destruct (c5 =? RPAR)%Z eqn:E5; [|discriminate]. cbn [negb]. intros [= <-].
    eapply FF_fact; eauto. eapply close_vis; eauto. }
  vis_of V4 E4 c_colon.
  destruct (cdouble t (S q4)) as [r3 v3] eqn:C3.
  destruct (Z.ltb_spec r3 0); [discriminate|].
  destruct (cdouble_cases _ _ _ _ C3) as [[N _]|[[-> [-> B]]|[k3 [i [-> ->]]]]]; [lia| |].
  - rewrite zpos_0. destruct (nextvis t (S q4)) as [c5 q5] eqn:V5.
    destruct (blank_nextvis _ _ _ _ B V5) as [N5 _].
      assert ((c5 =? RPAR)%Z = false) as -> by (apply Z.eqb_neq; unfold RPAR; lia). discriminate.
  - rewrite zpos_s. destruct (nextvis t (S q4 + S k3)) as [c5 q5] eqn:V5.
    destruct (c5 =? RPAR)%Z eqn:E5; [|discriminate]. cbn [negb]. intros [= <-].
    vis_of V5 E5 c_rpar. eapply FF_init; eauto.
Qed.

(* ---- mpt_iterator_create *)
Theorem create_sound rnd t d : parse_create rnd (Some t) = Some d -> create_form rnd t d.
Proof.
  unfold parse_create. remember (skip_space_at t 0) as p0 eqn:P0.
  destruct (N.eqb_spec (byte_at t p0) 0) as [Z|NZ].
  - intros [= <-]. eapply CF_default; eauto.
  - remember (count_alpha (skipn p0 (t_bytes t))) as n eqn:CN.
    destruct (Nat.leb_spec 31 n); [discriminate|].
    destruct (Nat.eqb_spec n 0) as [N0|N0].
    + intros [= <-]. eapply CF_values; eauto.
      subst n. unfold byte_at in *. rewrite <- (Nat.add_0_r p0), <- nth_skip.
      destruct (skipn p0 (t_bytes t)) as [|b r]; [reflexivity|]. cbn in *. destruct (isalpha b); [discriminate|reflexivity].
    + set (name := firstn n (skipn p0 (t_bytes t))).
      destruct (name_is name n_linear || name_is name n_lin) eqn:L1.
      * intros HP. eapply (CF_lin rnd t p0 n _ d P0 CN); [lia|reflexivity|exact L1|now apply lin_sound].
      * destruct (name_is name n_factor || name_is name n_fact || name_is name n_fac) eqn:L2.
        -- intros HP. eapply (CF_fac rnd t p0 n _ d P0 CN); [lia|reflexivity|exact L2|now apply fac_sound].
        -- destruct (name_is name n_range) eqn:L3; [|discriminate].
           intros HP. eapply (CF_range rnd t p0 n _ d P0 CN); [lia|reflexivity|exact L3|now apply range_sound].
Qed.

(* what is outside the grammar is refused *)
Corollary malformed_refused rnd t : (forall d, ~ create_form rnd t d) -> parse_create rnd (Some t) = None.
Proof.
  intros H. destruct (parse_create rnd (Some t)) as [d|] eqn:E; [|reflexivity].
  exfalso. exact (H d (create_sound _ _ _ E)).
Qed.
