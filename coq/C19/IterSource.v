(* C19/IterSource.v - mpt::source<T> (mptcore/types.h): the span iterator with position and step refines the
   cursor over the elements it visits.  [cvisit l step fuel p] (IterSpec.v) lists the elements at p, p+step, ..
   while the position is inside the span; with step <> 0 the span size is always enough fuel. *)
From Coq Require Import ZArith NArith QArith List Bool Lia.
From MptV Require Import C19.IterModel C19.IterSpec C19.IterProofs.
Import ListNotations.
Local Open Scope Z_scope.

Definition inv_csrc (m : csrc) : Prop := c_step m <> 0 /\ 0 < c_ty m.

Definition cin (l : list fv) (p : Z) : bool := (0 <=? p) && (p <? Z.of_nat (length l)).

Lemma cvisit_out l st f p : cin l p = false -> cvisit l st f p = [].
Proof. intros C. destruct f; [reflexivity|]. cbn [cvisit]. unfold cin in C. now rewrite C. Qed.

Lemma cin_bounds l p : cin l p = true -> 0 <= p < Z.of_nat (length l).
Proof. unfold cin. intros C. apply andb_prop in C as [A B]. apply Z.leb_le in A. apply Z.ltb_lt in B. lia. Qed.

Lemma cvisit_in l st f p : cin l p = true ->
  exists v, nth_error l (Z.to_nat p) = Some v /\ cvisit l st (S f) p = EV v :: cvisit l st f (p + st).
Proof.
  intros C. pose proof (cin_bounds l p C) as B. cbn [cvisit]. unfold cin in C. rewrite C.
  destruct (nth_error l (Z.to_nat p)) as [v|] eqn:E.
  - exists v. split; reflexivity.
  - apply nth_error_None in E. lia.
Qed.

Definition meas (l : list fv) (st p : Z) : Z := if st <? 0 then p + 1 else Z.of_nat (length l) - p.

Lemma fuel_irrel l st : st <> 0 -> forall f p, meas l st p <= Z.of_nat f -> cvisit l st f p = cvisit l st (S f) p.
Proof.
  intros NZ. induction f as [|f IH]; intros p H.
  - destruct (cin l p) eqn:C; [|now rewrite !cvisit_out].
    apply cin_bounds in C. unfold meas in H. destruct (st <? 0); lia.
  - destruct (cin l p) eqn:C; [|now rewrite !cvisit_out].
    destruct (cvisit_in l st f p C) as [v [E1 ->]]. destruct (cvisit_in l st (S f) p C) as [v' [E2 ->]].
    rewrite E1 in E2. injection E2 as <-. f_equal.
    destruct (cin l (p + st)) eqn:C2; [|now rewrite !cvisit_out].
    apply IH. apply cin_bounds in C, C2. unfold meas in *. destruct (Z.ltb_spec st 0); lia.
Qed.

(* inside the span the size is enough fuel for the rest of the walk *)
Lemma cvisit_step l st p : st <> 0 -> cin l p = true ->
  exists v, nth_error l (Z.to_nat p) = Some v /\
            cvisit l st (length l) p = EV v :: cvisit l st (length l) (p + st).
Proof.
  intros NZ C. pose proof (cin_bounds l p C) as B.
  destruct (length l) as [|n] eqn:L; [lia|].
  destruct (cvisit_in l st n p C) as [v [E ->]]. exists v. split; [exact E|]. f_equal.
  destruct (cin l (p + st)) eqn:C2; [|now rewrite !cvisit_out].
  apply fuel_irrel; [assumption|]. apply cin_bounds in C2. unfold meas. rewrite L in *.
  destruct (Z.ltb_spec st 0); lia.
Qed.

Lemma abs_csrc m : abs (SSrc m) =
  CList (cvisit (c_elems m) (c_step m) (length (c_elems m)) (csrc_start m))
        (cvisit (c_elems m) (c_step m) (length (c_elems m)) (c_pos m)) false.
Proof. reflexivity. Qed.

Lemma csrc_in_cin m p : csrc_in m p = cin (c_elems m) p.
Proof. reflexivity. Qed.

Section SimSource.
Variable rnd : Q -> fv.
Notation s_value := (s_value rnd).

Lemma csrc_value_sim m : inv_csrc m ->
  vmatch (fst (it_value rnd (SSrc m))) (s_value (abs (SSrc m))) /\ snd (it_value rnd (SSrc m)) = SSrc m.
Proof.
  intros [NZ _]. split; [|reflexivity]. rewrite abs_csrc. cbn [it_value fst IterSpec.s_value]. unfold csrc_value.
  rewrite csrc_in_cin. destruct (cin (c_elems m) (c_pos m)) eqn:C.
  - destruct (cvisit_step _ (c_step m) _ NZ C) as [v [E ->]]. rewrite E. reflexivity.
  - rewrite cvisit_out by assumption. exact Logic.I.
Qed.

Lemma csrc_advance_sim m : inv_csrc m ->
  let (r, m') := csrc_advance m in
  inv_csrc m' /\ s_advance (abs (SSrc m)) = (cls r, abs (SSrc m')) /\ ((r < 0)%Z -> m' = m).
Proof.
  intros [NZ TY]. unfold csrc_advance. rewrite !csrc_in_cin.
  destruct (cin (c_elems m) (c_pos m)) eqn:C.
  - rewrite !abs_csrc. unfold csrc_start, csrc_size. cbn [csrc_set c_elems c_step c_pos c_ty].
    split; [split; assumption|].
    destruct (cvisit_step _ (c_step m) _ NZ C) as [v [E ->]].
    destruct (cin (c_elems m) (c_pos m + c_step m)) eqn:C2.
    + destruct (cvisit_step _ (c_step m) _ NZ C2) as [v2 [E2 R2]]. rewrite R2. cbn [s_advance].
      split; [|lia]. unfold cls. destruct (Z.ltb_spec 0 (c_ty m)); [reflexivity|lia].
    + rewrite (cvisit_out _ _ _ _ C2). cbn [s_advance]. split; [reflexivity|lia].
  - rewrite !abs_csrc. rewrite (cvisit_out _ _ _ _ C). cbn [s_advance]. split; [split; assumption|]. split; [reflexivity|reflexivity].
Qed.

Lemma csrc_reset_sim m : inv_csrc m ->
  let (r, m') := csrc_reset m in
  inv_csrc m' /\ abs (SSrc m') = s_reset (abs (SSrc m)) /\ (0 <= r)%Z.
Proof.
  intros I. unfold csrc_reset. split; [exact I|]. split; [reflexivity|]. unfold csrc_size. lia.
Qed.
End SimSource.

(* the constructor: a source over the first len of the given elements (len <= their number) stands at its start;
   a negative length denotes nothing (WITH docs/C19_span_negative_length.diff) *)
Lemma mk_csrc_fresh elems len step ty : step <> 0 -> 0 < ty -> len <= Z.of_nat (length elems) ->
  let m := mk_csrc elems len step ty in
  inv_csrc m /\ c_pos m = csrc_start m \/ inv_csrc m /\ len < 0 /\ c_elems m = [].
Proof.
  intros NZ TY LE. destruct (Z.ltb_spec len 0) as [N|N].
  - right. split; [split; assumption|]. split; [assumption|]. unfold mk_csrc. cbn [c_elems].
    replace (Z.max len 0) with 0 by lia. reflexivity.
  - left. split; [split; assumption|]. unfold mk_csrc, csrc_start, csrc_size. cbn [c_elems c_pos c_step].
    rewrite firstn_length. destruct (step <? 0); lia.
Qed.

(* step 1: the source denotes the elements of the span in order *)
Lemma cvisit_forward : forall suf pre f, (length suf <= f)%nat ->
  cvisit (pre ++ suf) 1 f (Z.of_nat (length pre)) = map EV suf.
Proof.
  induction suf as [|x suf IH]; intros pre f H.
  - rewrite app_nil_r. apply cvisit_out. unfold cin.
    rewrite (proj2 (Z.ltb_ge _ _)) by lia. apply andb_false_r.
  - cbn [length] in H. destruct f as [|f]; [lia|].
    assert (C : cin (pre ++ x :: suf) (Z.of_nat (length pre)) = true).
    { unfold cin. rewrite app_length. cbn [length]. apply andb_true_intro. split; [apply Z.leb_le|apply Z.ltb_lt]; lia. }
    destruct (cvisit_in _ 1 f _ C) as [v [E ->]].
    rewrite Nat2Z.id in E. rewrite nth_error_app2 in E by lia. rewrite Nat.sub_diag in E. cbn in E.
    injection E as <-. cbn [map]. f_equal.
    replace (pre ++ x :: suf) with ((pre ++ [x]) ++ suf) by (rewrite <- app_assoc; reflexivity).
    replace (Z.of_nat (length pre) + 1) with (Z.of_nat (length (pre ++ [x]))) by (rewrite app_length; cbn [length]; lia).
    apply IH. lia.
Qed.
Lemma cvisit_all l : cvisit l 1 (length l) 0 = map EV l.
Proof. exact (cvisit_forward l [] (length l) (le_n _)). Qed.
