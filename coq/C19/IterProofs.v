(* C19 — IterProofs.v: cursor laws of the specification, invariants of the counted
   state machines (linear/range, factor, boundary, polynomial) and their simulation
   by the cursor.  Everything is parametric in the arithmetic [rnd]. *)
From Coq Require Import ZArith NArith QArith List Bool Lia.
From MptV Require Import C19.IterModel C19.IterSpec.
Import ListNotations.
Local Open Scope N_scope.

Definition cls (r : Z) : aclass := if (0 <? r)%Z then AMore else if (r =? 0)%Z then AEnd else ARefused.

(* ------------------------------------------------------------------ index ranges *)
Lemma nrange_nil from : nrange from 0 = [].
Proof. reflexivity. Qed.

Lemma nrange_cons from cnt : 0 < cnt -> nrange from cnt = from :: nrange (from + 1) (cnt - 1).
Proof.
  intros H. unfold nrange.
  replace (N.to_nat cnt) with (S (N.to_nat (cnt - 1))) by lia.
  cbn [seq map]. f_equal; [lia|].
  rewrite <- seq_shift, map_map. apply map_ext. intros i. lia.
Qed.

Lemma nrange_length from cnt : length (nrange from cnt) = N.to_nat cnt.
Proof. unfold nrange. now rewrite map_length, seq_length. Qed.

Section Laws.
Variable rnd : Q -> fv.
Notation d_at := (d_at rnd).
Notation s_value := (s_value rnd).
Notation remaining := (remaining rnd).

(* the sequence a cursor denotes: what remains after a reset *)
Definition denoted (c : sstate) : list elem := remaining (s_reset c).

Definition counted (c : sstate) : bool := match c with CStr _ _ _ => false | _ => true end.
Definition c_inv (c : sstate) : Prop := match c with CIdx d pos => pos <= d_len d | _ => True end.

(* ---- cursor laws (specification side only) *)
Lemma remaining_idx d pos : pos < d_len d ->
  remaining (CIdx d pos) = EV (d_at d pos) :: remaining (CIdx d (pos + 1)).
Proof.
  intros H. cbn [IterSpec.remaining]. rewrite (nrange_cons pos) by lia. cbn [map].
  do 3 f_equal. lia.
Qed.

Lemma remaining_idx_end d pos : d_len d <= pos -> remaining (CIdx d pos) = [].
Proof. intros H. cbn. replace (d_len d - pos) with 0 by lia. reflexivity. Qed.

Lemma law_value c : counted c = true -> s_value c = hd_error (remaining c).
Proof.
  destruct c as [d pos|full rest bad|]; cbn [counted]; intros Hc; try discriminate Hc; clear Hc.
  - cbn [IterSpec.s_value]. destruct (N.ltb_spec pos (d_len d)).
    + now rewrite remaining_idx.
    + now rewrite remaining_idx_end.
  - cbn. now destruct rest.
Qed.

Lemma law_advance_end c : counted c = true -> remaining c = [] -> s_advance c = (ARefused, c).
Proof.
  destruct c as [d pos|full rest bad|]; cbn [counted]; intros Hc H; try discriminate Hc; clear Hc.
  - cbn [s_advance]. destruct (N.leb_spec (d_len d) pos); [reflexivity|].
    rewrite remaining_idx in H by lia. discriminate.
  - cbn in H. subst. reflexivity.
Qed.

Lemma law_advance_step c x r : counted c = true -> c_inv c -> remaining c = x :: r ->
  if (match r with [] => s_bad c | _ => false end) then s_advance c = (ARefused, c)
  else exists c', s_advance c = (match r with [] => AEnd | _ => AMore end, c') /\
                  remaining c' = r /\ denoted c' = denoted c /\ s_bad c' = s_bad c /\
                  counted c' = true /\ c_inv c'.
Proof.
  destruct c as [d pos|full rest bad|]; cbn [counted]; intros Hc I H; try discriminate Hc; clear Hc.
  - cbn [c_inv] in I. cbn [s_bad].
    assert (L : pos < d_len d).
    { destruct (N.ltb_spec pos (d_len d)); [assumption|]. rewrite remaining_idx_end in H by lia. discriminate. }
    rewrite remaining_idx in H by assumption.
    remember (remaining (CIdx d (pos + 1))) as R eqn:ER. injection H as _ Hr. subst r.
    replace (match R with [] => false | _ :: _ => false end) with false by now destruct R.
    exists (CIdx d (pos + 1)). cbn [s_advance].
    destruct (N.leb_spec (d_len d) pos); [lia|].
    repeat split; try (symmetry; assumption); try reflexivity; [|cbn; lia].
    destruct (N.eqb_spec (pos + 1) (d_len d)) as [E|E].
    + rewrite remaining_idx_end in ER by lia. now subst R.
    + rewrite remaining_idx in ER by lia. now subst R.
  - cbn in H. subst rest. cbn [s_bad s_advance]. destruct r as [|y r].
    + destruct bad; [reflexivity|]. exists (CList full [] false). now repeat split.
    + exists (CList full (y :: r) bad). now repeat split.
Qed.

Lemma law_reset c : counted c = true ->
  remaining (s_reset c) = denoted c /\ denoted (s_reset c) = denoted c /\
  s_bad (s_reset c) = s_bad c /\ counted (s_reset c) = true /\ c_inv (s_reset c).
Proof.
  destruct c; cbn [counted]; intros H; try discriminate; unfold denoted; cbn; repeat split; lia.
Qed.
End Laws.

(* ------------------------------------------------------------------ invariants of the counted machines *)
Section Sim.
Variable rnd : Q -> fv.
Notation d_at := (d_at rnd).
Notation s_value := (s_value rnd).

Definition fac_at (m : fac) (k : N) : fv := d_at (DFac (f_base m) (f_fact m) (f_init m) (f_elem m)) k.

Definition inv_lin (m : lin) : Prop := l_pos m <= l_elem m.
Definition inv_fac (m : fac) : Prop := f_pos m <= f_elem m /\ f_curr m = fac_at m (f_pos m).
Definition inv_bnd (m : bnd) : Prop := b_pos m <= b_elem m.
Definition inv_pol (m : pol) : Prop :=
  p_pos m <= pol_count m /\ (forall v, p_cache m = Some v -> v = pol_at rnd m (p_pos m)).

Definition velem (v : option fv) : elem := match v with Some x => EV x | None => EUnset end.
(* what reading gives corresponds to the element under the cursor *)
Definition vmatch (v : vres) (e : option elem) : Prop :=
  match v, e with
  | VNone, None => True
  | VNum _ x, Some e => e = velem x
  | VErr c, Some e => e = EErr c
  | VStr b, Some e => e = ES b
  | VVec b, Some e => e = EVec b
  | _, _ => False
  end.

(* ---- linear / range *)
Lemma lin_value_sim m : vmatch (fst (it_value rnd (SLin m))) (s_value (abs (SLin m))) /\
  snd (it_value rnd (SLin m)) = SLin m.
Proof.
  cbn [it_value abs fst snd IterSpec.s_value d_len]. unfold lin_value, lin_at.
  destruct (N.ltb_spec (l_pos m) (l_elem m)); cbn; auto.
Qed.

Lemma lin_advance_sim m : inv_lin m ->
  let (r, m') := lin_advance m in
  inv_lin m' /\ s_advance (abs (SLin m)) = (cls r, abs (SLin m')) /\
  ((r < 0)%Z -> m' = m).
Proof.
  unfold inv_lin, lin_advance. intros I. cbn [abs s_advance d_len].
  destruct (N.leb_spec (l_elem m) (l_pos m)); cbn [l_pos l_elem l_base l_step].
  - repeat split; auto.
  - destruct (N.eqb_spec (l_pos m + 1) (l_elem m)); repeat split; try lia; try reflexivity; intros X; cbv in X; discriminate X.
Qed.

Lemma lin_reset_sim m :
  let (r, m') := lin_reset m in
  inv_lin m' /\ abs (SLin m') = s_reset (abs (SLin m)) /\ (0 <= r)%Z.
Proof. unfold lin_reset, inv_lin, as_int. cbn. repeat split; lia. Qed.

(* ---- factor *)
Lemma fac_value_sim m : inv_fac m ->
  vmatch (fst (it_value rnd (SFac m))) (s_value (abs (SFac m))) /\ snd (it_value rnd (SFac m)) = SFac m.
Proof.
  intros [I C]. cbn [it_value abs fst snd IterSpec.s_value d_len]. unfold fac_value.
  destruct (N.ltb_spec (f_pos m) (f_elem m)); cbn; auto. split; auto. now rewrite C.
Qed.

Lemma fac_at_succ m k : fac_at m (k + 1) =
  if k =? 0 then f_base m else fmul rnd (fac_at m k) (f_fact m).
Proof.
  unfold fac_at. cbn [IterSpec.d_at].
  destruct (N.eqb_spec (k + 1) 0); [lia|].
  destruct (N.eqb_spec k 0) as [->|K]; [reflexivity|].
  replace (k + 1 - 1) with (N.succ (k - 1)) by lia. now rewrite N.iter_succ.
Qed.

Lemma fac_advance_sim m : inv_fac m ->
  let (r, m') := fac_advance rnd m in
  inv_fac m' /\ s_advance (abs (SFac m)) = (cls r, abs (SFac m')) /\ ((r < 0)%Z -> m' = m).
Proof.
  unfold inv_fac, fac_advance. intros [I C]. cbn [abs s_advance d_len].
  destruct (N.leb_spec (f_elem m) (f_pos m)); cbn [f_pos f_elem f_base f_fact f_init f_curr].
  - repeat split; auto.
  - assert (E : (if f_pos m =? 0 then f_base m else fmul rnd (f_curr m) (f_fact m)) = fac_at m (f_pos m + 1)).
    { rewrite fac_at_succ, C. reflexivity. }
    destruct (N.eqb_spec (f_pos m + 1) (f_elem m)); repeat split; try lia; try exact E; try reflexivity; intros X; cbv in X; discriminate X.
Qed.

Lemma fac_reset_sim m :
  let (r, m') := fac_reset m in
  inv_fac m' /\ abs (SFac m') = s_reset (abs (SFac m)) /\ (0 <= r)%Z.
Proof. unfold fac_reset, inv_fac, as_int. cbn. repeat split; lia. Qed.

(* ---- boundary *)
Lemma bnd_value_sim m : vmatch (fst (it_value rnd (SBnd m))) (s_value (abs (SBnd m))) /\
  snd (it_value rnd (SBnd m)) = SBnd m.
Proof.
  cbn [it_value abs fst snd IterSpec.s_value d_len]. unfold bnd_value, bnd_at.
  destruct (N.ltb_spec (b_pos m) (b_elem m)); cbn; auto.
Qed.

Lemma bnd_advance_sim m : inv_bnd m ->
  let (r, m') := bnd_advance m in
  inv_bnd m' /\ s_advance (abs (SBnd m)) = (cls r, abs (SBnd m')) /\ ((r < 0)%Z -> m' = m).
Proof.
  unfold inv_bnd, bnd_advance. intros I. cbn [abs s_advance d_len].
  destruct (N.leb_spec (b_elem m) (b_pos m)); cbn [b_pos b_elem b_left b_inter b_right].
  - repeat split; auto.
  - destruct (N.eqb_spec (b_pos m + 1) (b_elem m)); repeat split; try lia; try reflexivity; intros X; cbv in X; discriminate X.
Qed.

Lemma bnd_reset_sim m :
  let (r, m') := bnd_reset m in
  inv_bnd m' /\ abs (SBnd m') = s_reset (abs (SBnd m)) /\ (0 <= r)%Z.
Proof. unfold bnd_reset, inv_bnd, as_int. cbn. repeat split; lia. Qed.

(* ---- polynomial *)
Lemma pol_len m : d_len (DPol (p_grid m) (p_coef m)) = pol_count m.
Proof. unfold pol_count. cbn. now destruct (p_grid m). Qed.

Lemma pol_value_sim m : inv_pol m ->
  let (v, m') := pol_value rnd m in
  inv_pol m' /\ abs (SPol m') = abs (SPol m) /\
  vmatch (match v with Some v => VNum 0 (Some v) | None => VNone end) (s_value (abs (SPol m))).
Proof.
  intros [I C]. unfold pol_value. cbn [abs IterSpec.s_value]. rewrite pol_len.
  destruct (N.leb_spec (pol_count m) (p_pos m)) as [L|L].
  - destruct (N.ltb_spec (p_pos m) (pol_count m)); [lia|]. repeat split; auto.
  - destruct (N.ltb_spec (p_pos m) (pol_count m)); [|lia].
    destruct (p_cache m) as [v|] eqn:E.
    + pose proof (C v eq_refl) as Cv.
      split; [split; [exact I|intros v0 Hv0; rewrite E in Hv0; exact (C v0 Hv0)]|]. split; [reflexivity|]. cbn. rewrite Cv. reflexivity.
    + split; [|split; reflexivity]. split; cbn; [exact I|]. intros v [= <-]. reflexivity.
Qed.

Lemma pol_advance_sim m : inv_pol m ->
  let (r, m') := pol_advance m in
  inv_pol m' /\ s_advance (abs (SPol m)) = (cls r, abs (SPol m')) /\ ((r < 0)%Z -> m' = m).
Proof.
  intros [I C]. unfold pol_advance. cbn [abs s_advance]. rewrite pol_len.
  destruct (N.leb_spec (pol_count m) (p_pos m)).
  - repeat split; auto. now destruct (p_grid m).
  - cbn [p_pos]. unfold inv_pol. cbn [p_pos p_cache p_grid p_coef].
    assert (PC : pol_count {| p_grid := p_grid m; p_coef := p_coef m; p_pos := p_pos m + 1; p_cache := None |} = pol_count m)
      by reflexivity.
    rewrite PC.
    destruct (N.eqb_spec (p_pos m + 1) (pol_count m)); repeat split; try lia; try discriminate; try reflexivity; intros X; cbv in X; discriminate X.
Qed.

Lemma pol_reset_sim m :
  let (r, m') := pol_reset m in
  inv_pol m' /\ abs (SPol m') = s_reset (abs (SPol m)) /\ (0 <= r)%Z.
Proof.
  unfold pol_reset, inv_pol, as_int. cbn. repeat split; try lia; try discriminate.
  destruct (p_grid m); lia.
Qed.
End Sim.
