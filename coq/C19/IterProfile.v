(* C19 — IterProfile.v: the profile descriptions (iterator_profile.c) and polynomial
   descriptions (iterator_poly.c) as grammars over positions, with the proof that the
   transcribed parsers accept exactly these (both directions).

     profile := blank* lin<tail> a b | blank* bound<tail> l c r | blank* poly<sep> polynomial
     polynomial := m_0 m_1 .. m_(n-1) [ .. ':' s_0 .. s_k ]      1 <= n <= 128, k < n-1
   A [numrun] is a run of numbers, each starting where strtod left the previous one.
   The coefficients are the LONGEST such run (at most 128); the shifts follow the first
   ':' behind the coefficients and are the longest run of at most n-1 numbers. *)
From Coq Require Import ZArith NArith QArith List Bool Lia.
From MptV Require Import C19.IterModel C19.IterGrammar.
Import ListNotations.
Local Open Scope nat_scope.

Inductive numrun (t : text) : nat -> list fv -> nat -> Prop :=
| NR_nil p : numrun t p [] p
| NR_cons p k v l q : dtok t p k v -> numrun t (p + S k) l q -> numrun t p (v :: l) q.
Definition no_num (t : text) (q : nat) : Prop := forall k v, ~ dtok t q k v.
(* the longest run of at most n numbers *)
Definition maxrun (t : text) (p n : nat) (l : list fv) (q : nat) : Prop :=
  numrun t p l q /\ length l <= n /\ (length l < n -> no_num t q).

Lemma get_values_maxrun t : forall n p l q, get_values t p n = (l, q) -> maxrun t p n l q.
Proof.
  unfold maxrun. induction n as [|n IH]; intros p l q; cbn [get_values].
  - intros [= <- <-]. repeat split; [constructor|cbn; lia|cbn; lia].
  - destruct (cdouble t p) as [len v] eqn:C.
    destruct (cdouble_cases _ _ _ _ C) as [[N ->]|[[-> [-> B]]|[k [x [-> ->]]]]].
    + intros [= <- <-]. repeat split; [constructor|cbn; lia|]. intros _ k v D. unfold dtok in D. rewrite C in D.
      injection D as D _. lia.
    + intros [= <- <-]. repeat split; [constructor|cbn; lia|]. intros _ k v D. unfold dtok in D. rewrite C in D.
      discriminate.
    + destruct (Z.ltb_spec 0 (Z.of_nat (S k))); [|lia].
      replace (zpos p (Z.of_nat (S k))) with (p + S k) by (unfold zpos; lia).
      destruct (get_values t (p + S k) n) as [l' q'] eqn:G. intros [= <- <-].
      destruct (IH _ _ _ G) as [R [L M]]. repeat split.
      * econstructor; [exact C|exact R].
      * cbn; lia.
      * intros HL. apply M. cbn in HL. lia.
Qed.

Lemma maxrun_get_values t : forall n p l q, maxrun t p n l q -> get_values t p n = (l, q).
Proof.
  unfold maxrun. induction n as [|n IH]; intros p l q [R [L M]]; cbn [get_values].
  - destruct R; [reflexivity|cbn in L; lia].
  - destruct R as [p|p k v l q D R].
    + specialize (M ltac:(cbn; lia)). destruct (cdouble t p) as [len v] eqn:C.
      destruct (cdouble_cases _ _ _ _ C) as [[N ->]|[[-> [-> B]]|[k [x [-> ->]]]]]; try reflexivity.
      exfalso. exact (M k x C).
    + unfold dtok in D. rewrite D. destruct (Z.ltb_spec 0 (Z.of_nat (S k))); [|lia].
      replace (zpos p (Z.of_nat (S k))) with (p + S k) by (unfold zpos; lia).
      rewrite (IH (p + S k) l q); [reflexivity|]. repeat split; [exact R|cbn in L; lia|].
      intros HL. apply M. cbn. lia.
Qed.

(* first ':' at or behind q *)
Definition first_colon (t : text) (q : nat) (c : option nat) : Prop :=
  match c with
  | Some c => q <= c /\ c < tlen t /\ byte_at t c = 58%N /\ forall i, q <= i -> i < c -> byte_at t i <> 58%N
  | None => forall i, q <= i -> i < tlen t -> byte_at t i <> 58%N
  end.

Lemma find_colon_spec : forall l p,
  match find_colon l p with
  | Some c => p <= c /\ c < p + length l /\ nth (c - p) l 0%N = 58%N /\ forall i, i < c - p -> nth i l 0%N <> 58%N
  | None => forall i, i < length l -> nth i l 0%N <> 58%N
  end.
Proof.
  induction l as [|b l IH]; intros p; cbn [find_colon].
  - intros i H. cbn in H. lia.
  - destruct (N.eqb_spec b 58) as [->|NE].
    + split; [lia|]. split; [cbn [length]; lia|]. split; [rewrite Nat.sub_diag; reflexivity|intros i H; lia].
    + specialize (IH (S p)). destruct (find_colon l (S p)) as [c|].
      * destruct IH as [A [B [C D]]]. split; [lia|]. split; [cbn [length]; lia|]. split.
        -- replace (c - p) with (S (c - S p)) by lia. exact C.
        -- intros i H. destruct i; [exact NE|]. apply D. lia.
      * intros i H. destruct i; [exact NE|]. apply IH. cbn in H. lia.
Qed.

Lemma find_colon_first t q : first_colon t q (find_colon (skipn q (t_bytes t)) q).
Proof.
  destruct (Nat.le_gt_cases q (tlen t)) as [Q|Q].
  - pose proof (find_colon_spec (skipn q (t_bytes t)) q) as H. unfold first_colon, byte_at, tlen in *.
    rewrite skipn_length in H. destruct (find_colon _ q) as [c|].
    + destruct H as [A [B [C D]]]. rewrite nth_skip in C. replace (q + (c - q)) with c in C by lia.
      split; [lia|]. split; [lia|]. split; [exact C|]. intros i I1 I2. specialize (D (i - q) ltac:(lia)).
      rewrite nth_skip in D. now replace (q + (i - q)) with i in D by lia.
    + intros i I1 I2. specialize (H (i - q) ltac:(lia)). rewrite nth_skip in H. now replace (q + (i - q)) with i in H by lia.
  - unfold tlen in Q. rewrite skipn_all2 by lia. cbn. intros i I1 I2. unfold tlen in I2. lia.
Qed.

Lemma first_colon_unique t q c1 c2 : first_colon t q c1 -> first_colon t q c2 -> c1 = c2.
Proof.
  unfold first_colon. destruct c1 as [a|], c2 as [b|]; intros H1 H2; try reflexivity.
  - destruct H1 as [A1 [B1 [C1 D1]]], H2 as [A2 [B2 [C2 D2]]]. f_equal.
    destruct (Nat.lt_trichotomy a b) as [L|[E|L]]; [|exact E|].
    + exfalso. exact (D2 a A1 L C1).
    + exfalso. exact (D1 b A2 L C2).
  - destruct H1 as [A1 [B1 [C1 D1]]]. exfalso. exact (H2 a A1 B1 C1).
  - destruct H2 as [A2 [B2 [C2 D2]]]. exfalso. exact (H1 b A2 B2 C2).
Qed.

(* ---- polynomial descriptions *)
Definition poly_form (t : text) (p : nat) (grid : option (list fv)) (d : desc) : Prop :=
  exists ms q c ss q',
    maxrun t p 128 ms q /\ ms <> [] /\ first_colon t q c /\
    match c with
    | Some c => maxrun t (S c) (length ms - 1) ss q'
    | None => ss = []
    end /\
    d = PPol (zip_shift ms ss) grid.

Theorem poly_sound t p grid d : poly_of_text (Some t) p grid = Some d -> poly_form t p grid d.
Proof.
  unfold poly_of_text. destruct (get_values t p 128) as [ms q] eqn:G.
  pose proof (get_values_maxrun _ _ _ _ _ G) as MR.
  destruct ms as [|m ms]; [discriminate|].
  pose proof (find_colon_first t q) as FC. unfold poly_form.
  destruct (find_colon (skipn q (t_bytes t)) q) as [c|].
  - destruct (get_values t (S c) (length (m :: ms) - 1)) as [ss q'] eqn:G2. cbn [fst]. intros [= <-].
    exists (m :: ms), q, (Some c), ss, q'. split; [exact MR|]. split; [discriminate|]. split; [exact FC|].
    split; [exact (get_values_maxrun _ _ _ _ _ G2)|reflexivity].
  - intros [= <-]. exists (m :: ms), q, None, [], q. split; [exact MR|]. split; [discriminate|]. split; [exact FC|].
    split; reflexivity.
Qed.

Theorem poly_complete t p grid d : poly_form t p grid d -> poly_of_text (Some t) p grid = Some d.
Proof.
  intros [ms [q [c [ss [q' [MR [NE [FC [SS ->]]]]]]]]]. unfold poly_of_text.
  rewrite (maxrun_get_values _ _ _ _ _ MR). destruct ms as [|m ms]; [contradiction|].
  rewrite (first_colon_unique _ _ _ _ (find_colon_first t q) FC). destruct c as [c|].
  - now rewrite (maxrun_get_values _ _ _ _ _ SS).
  - now subst ss.
Qed.

(* the null description: no coefficients, the element is the grid value itself *)
Lemma poly_null grid : poly_of_text None 0 grid = Some (PPol [] grid).
Proof. reflexivity. Qed.

(* ---- profile descriptions *)
Definition profile_form (grid : option (list fv)) (t : text) (d : desc) : Prop :=
  exists g, grid = Some g /\ g <> [] /\
  let p := skip_space_at t 0 in
  let len := N.of_nat (length g) in
  if prefix_ci t p n_lin then
    exists q a b q', next_vis_cont t (p + 3) n_ear = Some q /\ numrun t q [a; b] q' /\ d = PLin len a b
  else if prefix_ci t p n_bound then
    exists q a b c q', next_vis_cont t (p + 5) n_ary = Some q /\ numrun t q [a; b; c] q' /\ d = PBnd len a b c
  else if prefix_ci t p n_poly then
    exists q, next_vis0 t (p + 4) = Some q /\ poly_form t q grid d
  else False.

Lemma numrun_maxrun t p l q : numrun t p l q -> maxrun t p (length l) l q.
Proof. intros R. repeat split; [exact R|lia|lia]. Qed.

Theorem profile_iff grid t d : parse_profile grid (Some t) = Some d <-> profile_form grid t d.
Proof.
  unfold parse_profile, profile_form. split.
  - destruct grid as [g|]; [|discriminate]. destruct (N.eqb_spec (N.of_nat (length g)) 0) as [Z|NZ]; [discriminate|].
    intros H. exists g. split; [reflexivity|]. split; [intros ->; apply NZ; reflexivity|]. cbv zeta.
    destruct (prefix_ci t (skip_space_at t 0) n_lin).
    + destruct (next_vis_cont _ _ n_ear) as [q|]; [|discriminate].
      destruct (get_values t q 2) as [l q'] eqn:G. pose proof (get_values_maxrun _ _ _ _ _ G) as [R _].
      cbn [fst] in H. destruct l as [|a [|b [|c l]]]; try discriminate. injection H as <-.
      exists q, a, b, q'. auto.
    + destruct (prefix_ci t (skip_space_at t 0) n_bound).
      * destruct (next_vis_cont _ _ n_ary) as [q|]; [|discriminate].
        destruct (get_values t q 3) as [l q'] eqn:G. pose proof (get_values_maxrun _ _ _ _ _ G) as [R _].
        cbn [fst] in H. destruct l as [|a [|b [|c [|e l]]]]; try discriminate. injection H as <-.
        exists q, a, b, c, q'. auto.
      * destruct (prefix_ci t (skip_space_at t 0) n_poly); [|discriminate].
        destruct (next_vis0 _ _) as [q|]; [|discriminate]. exists q. split; [reflexivity|]. now apply poly_sound.
  - intros [g [-> [NE F]]]. cbv zeta in F.
    destruct (N.eqb_spec (N.of_nat (length g)) 0) as [Z|NZ]; [destruct g; [contradiction|discriminate]|].
    destruct (prefix_ci t (skip_space_at t 0) n_lin).
    + destruct F as [q [a [b [q' [NV [R ->]]]]]]. rewrite NV.
      rewrite (maxrun_get_values t 2 q [a; b] q' (numrun_maxrun _ _ _ _ R)). reflexivity.
    + destruct (prefix_ci t (skip_space_at t 0) n_bound).
      * destruct F as [q [a [b [c [q' [NV [R ->]]]]]]]. rewrite NV.
        rewrite (maxrun_get_values t 3 q [a; b; c] q' (numrun_maxrun _ _ _ _ R)). reflexivity.
      * destruct (prefix_ci t (skip_space_at t 0) n_poly); [|contradiction].
        destruct F as [q [NV PF]]. rewrite NV. now apply poly_complete.
Qed.
