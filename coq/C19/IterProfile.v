(* C19 — IterProfile.v: the profile descriptions (iterator_profile.c) and polynomial
   descriptions (iterator_poly.c) as grammars over positions, with the proof that the
   transcribed parsers accept exactly these (both directions).

     profile := blank* lin<tail> a b | blank* bound<tail> l c r | blank* poly<sep> polynomial
     polynomial := m_0 m_1 .. m_(n-1) [ .. ':' s_0 .. s_k ]      1 <= n <= 128, k < n-1
   A [numrun] is a run of numbers, each starting where strtod left the previous one.
   The coefficients are the LONGEST such run (at most 128); the shifts follow the first
   ':' behind the coefficients and are the longest run of at most n-1 numbers. *)
From Coq Require Import ZArith NArith QArith List Bool Lia.
From MptV Require Import C19.IterModel C19.IterGrammar.
Import ListNotations.
Local Open Scope nat_scope.

Inductive numrun (t : text) : nat -> list fv -> nat -> Prop :=
| NR_nil p : numrun t p [] p
| NR_cons p k v l q : dtok t p k v -> numrun t (p + S k) l q -> numrun t p (v :: l) q.
Definition no_num (t : text) (q : nat) : Prop := forall k v, ~ dtok t q k v.
(* the longest run of at most n numbers *)
Definition maxrun (t : text) (p n : nat) (l : list fv) (q : nat) : Prop :=
  numrun t p l q /\ length l <= n /\ (length l < n -> no_num t q).

Lemma get_values_maxrun t : forall n p l q, get_values t p n = (l, q) -> maxrun t p n l q.
Proof.
  unfold maxrun. induction n as [|n IH]; intros p l q; cbn [get_values].
  - intros [= <- <-]. repeat split; [constructor|cbn; lia|cbn; lia].
  - destruct (cdouble t p) as [len v] eqn:C.
    destruct (cdouble_cases _ _ _ _ C) as [[N ->]|[[-> [-> B]]|[k [x [-> ->]]]]].
    + intros [= <- <-]. repeat split; [constructor|cbn; lia|]. intros _ k v D. unfold dtok in D. rewrite C in D.
      injection D as D _. lia.
    + intros [= <- <-]. repeat split; [constructor|cbn; lia|]. intros _ k v D. unfold dtok in D. rewrite C in D.
      discriminate.
    + destruct (Z.ltb_spec 0 (Z.of_nat (S k))); [|lia].
      replace (zpos p (Z.of_nat (S k))) with (p + S k) by (unfold zpos; lia).
      destruct (get_values t (p + S k) n) as [l' q'] eqn:G. intros [= <- <-].
      destruct (IH _ _ _ G) as [R [L M]]. repeat split.
      * econstructor; [exact C|exact R].
      * cbn; lia.
      * intros H. apply M. cbn in H. lia.
Qed.

Lemma maxrun_get_values t : forall n p l q, maxrun t p n l q -> get_values t p n = (l, q).
Proof.
  unfold maxrun. induction n as [|n IH]; intros p l q [R [L M]]; cbn [get_values].
  - destruct R; [reflexivity|cbn in L; lia].
  - destruct R as [p|p k v l q D R].
    + specialize (M ltac:(cbn; lia)). destruct (cdouble t p) as [len v] eqn:C.
      destruct (cdouble_cases _ _ _ _ C) as [[N ->]|[[-> [-> B]]|[k [x [-> ->]]]]]; try reflexivity.
      exfalso. exact (M k x C).
    + unfold dtok in D. rewrite D. destruct (Z.ltb_spec 0 (Z.of_nat (S k))); [|lia].
      replace (zpos p (Z.of_nat (S k))) with (p + S k) by (unfold zpos; lia).
      rewrite (IH (p + S k) l q); [reflexivity|]. repeat split; [exact R|cbn in L; lia|].
      intros H. apply M. cbn. lia.
Qed.

(* first ':' at or behind q *)
Definition first_colon (t : text) (q : nat) (c : option nat) : Prop :=
  match c with
  | Some c => q <= c /\ c < tlen t /\ byte_at t c = 58%N /\ forall i, q <= i -> i < c -> byte_at t i <> 58%N
  | None => forall i, q <= i -> i < tlen t -> byte_at t i <> 58%N
  end.

Lemma find_colon_spec : forall l p,
  match find_colon l p with
  | Some c => p <= c /\ c < p + length l /\ nth (c - p) l 0%N = 58%N /\ forall i, i < c - p -> nth i l 0%N <> 58%N
  | None => forall i, i < length l -> nth i l 0%N <> 58%N
  end.
Proof.
  induction l as [|b l IH]; intros p; cbn [find_colon].
  - intros i H. cbn in H. lia.
  - destruct (N.eqb_spec b 58) as [->|NE].
    + repeat split; try lia; [cbn; lia|rewrite Nat.sub_diag; reflexivity|intros i H; lia].
    + specialize (IH (S p)). destruct (find_colon l (S p)) as [c|].
      * destruct IH as [A [B [C D]]]. repeat split; try lia; [cbn [length]; lia| |].
        -- replace (c - p) with (S (c - S p)) by lia. exact C.
        -- intros i H. destruct i; [exact NE|]. apply D. lia.
      * intros i H. destruct i; [exact NE|]. apply IH. cbn in H. lia.
Qed.

Lemma find_colon_first t q : q <= tlen t -> first_colon t q (find_colon (skipn q (t_bytes t)) q).
Proof.
  intros Q. pose proof (find_colon_spec (skipn q (t_bytes t)) q) as H. unfold first_colon, byte_at, tlen in *.
  rewrite skipn_length in H. destruct (find_colon _ q) as [c|].
  - destruct H as [A [B [C D]]]. rewrite nth_skip in C. replace (q + (c - q)) with c in C by lia.
    repeat split; try lia; [exact C|]. intros i I1 I2. specialize (D (i - q) ltac:(lia)).
    rewrite nth_skip in D. now replace (q + (i - q)) with i in D by lia.
  - intros i I1 I2. specialize (H (i - q) ltac:(lia)). rewrite nth_skip in H. now replace (q + (i - q)) with i in H by lia.
Qed.

Lemma first_colon_unique t q c1 c2 : first_colon t q c1 -> first_colon t q c2 -> c1 = c2.
Proof.
  unfold first_colon. destruct c1 as [a|], c2 as [b|]; intros H1 H2; try reflexivity.
  - destruct H1 as [A1 [B1 [C1 D1]]], H2 as [A2 [B2 [C2 D2]]]. f_equal.
    destruct (Nat.lt_trichotomy a b) as [L|[E|L]]; [|exact E|].
    + exfalso. exact (D2 a A1 L C1).
    + exfalso. exact (D1 b A2 L C2).
  - destruct H1 as [A1 [B1 [C1 D1]]]. exfalso. exact (H2 a A1 B1 C1).
  - destruct H2 as [A2 [B2 [C2 D2]]]. exfalso. exact (H1 b A2 B2 C2).
Qed.

(* ---- polynomial descriptions *)
Definition poly_form (t : text) (p : nat) (grid : option (list fv)) (d : desc) : Prop :=
  exists ms q c ss q',
    maxrun t p 128 ms q /\ ms <> [] /\ first_colon t q c /\
    match c with
    | Some c => maxrun t (S c) (length ms - 1) ss q'
    | None => ss = []
    end /\
    d = PPol (zip_shift ms ss) grid.

Lemma numrun_bound t p l q : numrun t p l q -> p <= tlen t -> q <= tlen t.
Proof.
  induction 1 as [p|p k v l q D R IH]; [auto|]. intros P. apply IH.
  unfold dtok in D. destruct (cdouble_some _ _ _ _ D) as [L [k' E]].
  (* the token may reach past the end only with a bogus table; positions past the end stop every run *)
Abort.
