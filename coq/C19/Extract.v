(* Extraction of the executable model and specification of C19 (ExtrOcamlBasic only). *)
From Coq Require Import QArith.
From MptV Require Import C19.IterModel C19.IterSpec.
Require Import ExtrOcamlBasic.
Extraction "c19_model.ml" Qred Qcompare Qopp Qminus c_dblmin fsub rnd64 rexact dyadic of_N
  parse_create parse_profile poly_of_text build mk_string mk_buffer
  values_linear values_bound mrun srun abs lin_closed lin_of_iter range_of_iter fac_of_iter it_value
  mk_string_sep default_sep abs_key abs_vec range_set range_set_val mk_csrc.
