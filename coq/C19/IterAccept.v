(* C19 — IterAccept.v: accepted descriptions denote exactly the sequence their grammar
   reading names (parser = grammar, constructor = denoted sequence, put together). *)
From Coq Require Import ZArith NArith QArith List Bool Lia.
From MptV Require Import C19.IterModel C19.IterSpec C19.IterProofs C19.IterRefine C19.IterGrammar C19.IterGrammarC
  C19.IterProfile C19.IterDenote.
Import ListNotations.

Theorem created_denotes rnd t s : create rnd (Some t) = Some s ->
  exists d, create_form rnd t d /\ desc_denotes rnd d (denoted rnd (abs s)) /\
            inv rnd s /\ remaining rnd (abs s) = denoted rnd (abs s).
Proof.
  unfold create. destruct (parse_create rnd (Some t)) as [d|] eqn:P; [|discriminate]. intros B.
  exists d. split; [now apply create_sound|]. split; [now apply build_denotes|].
  destruct (build_fresh rnd d s B) as [I [_ R]]. auto.
Qed.

Theorem create_refuses rnd t : (forall d, create_form rnd t d -> build rnd d = None) -> create rnd (Some t) = None.
Proof.
  intros H. unfold create. destruct (parse_create rnd (Some t)) as [d|] eqn:P; [|reflexivity].
  apply H. now apply create_sound.
Qed.

Theorem profile_denotes rnd grid t s : profile rnd grid (Some t) = Some s ->
  exists d, profile_form grid t d /\ desc_denotes rnd d (denoted rnd (abs s)) /\
            inv rnd s /\ remaining rnd (abs s) = denoted rnd (abs s).
Proof.
  unfold profile. destruct (parse_profile grid (Some t)) as [d|] eqn:P; [|discriminate]. intros B.
  exists d. split; [now apply profile_iff|]. split; [now apply build_denotes|].
  destruct (build_fresh rnd d s B) as [I [_ R]]. auto.
Qed.

Theorem poly_denotes rnd t p grid d s : poly_of_text (Some t) p grid = Some d -> build rnd d = Some s ->
  poly_form t p grid d /\ desc_denotes rnd d (denoted rnd (abs s)).
Proof. intros P B. split; [now apply poly_sound|now apply build_denotes]. Qed.
