(* C19 — IterFeed.v: constructors fed from another iterator (mpt_range_set,
   _mpt_iterator_linear/_range/_factor with a TypeIteratorPtr value), for sources that
   serve numbers (linear/range, factor, boundary, polynomial, value list):
   mpt_iterator_consume takes exactly the element under the cursor and moves on;
   a range built from such a source has the next three elements as min, max, step;
   a count ('u') cannot be taken from numbers served as double, so lin/fac are refused. *)
From Coq Require Import ZArith NArith QArith List Bool Lia.
From MptV Require Import C19.IterModel C19.IterSpec C19.IterProofs C19.IterText C19.IterString C19.IterRefine.
Import ListNotations.

Section Feed.
Variable rnd : Q -> fv.
Notation remaining := (remaining rnd).

Lemma consume_numeric s : inv rnd s -> numeric s = true ->
  let '(c, v, s') := it_consume rnd s in
  match remaining (abs s) with
  | [] => (c < 0)%Z /\ v = None /\ s' = s
  | x :: r =>
      if (match r with [] => s_bad (abs s) | _ => false end)
      then (c < 0)%Z /\ v = None /\ inv rnd s' /\ numeric s' = true /\ remaining (abs s') = x :: r
      else c = T_d /\ (exists y, v = Some y /\ x = EV y) /\ inv rnd s' /\ numeric s' = true /\
           remaining (abs s') = r /\ s_bad (abs s') = s_bad (abs s)
  end.
Proof.
  intros I NU. pose proof (numeric_nostr s NU) as N. unfold it_consume.
  pose proof (sim_value rnd s I N) as SV. pose proof (numeric_value rnd s NU) as NV.
  pose proof (numeric_step rnd s NU) as [NS1 _].
  destruct (it_value rnd s) as [v s1]. cbn [fst snd] in *. destruct SV as [I1 [N1 [A1 [VM U]]]].
  rewrite (law_value rnd (abs s) (counted_abs s N)) in VM.
  destruct (IterSpec.remaining rnd (abs s)) as [|x r] eqn:R.
  - cbn in VM. destruct v; try contradiction. rewrite (U eq_refl). split; [unfold MissingData; lia|]. split; reflexivity.
  - cbn [hd_error] in VM. destruct v as [|c|c [y|]|b|b]; try contradiction. cbn [vmatch] in VM. subst x.
    rewrite <- A1 in R.
    pose proof (advance_step rnd s1 _ _ I1 N1 R) as AS. pose proof (numeric_step rnd s1 NS1) as [_ NS2].
    destruct (it_advance rnd s1) as [c2 s2]. cbn [snd] in NS2. rewrite A1 in AS.
    destruct (match r with [] => s_bad (abs s) | _ => false end).
    + destruct AS as [C ->]. destruct (Z.ltb_spec c2 0); [|lia]. repeat split; auto.
    + destruct AS as [I2 [N2 [R2 [_ [B2 C]]]]].
      assert (P : (0 <= c2)%Z) by (destruct r; lia). destruct (Z.ltb_spec c2 0); [lia|].
      destruct s; try discriminate; repeat split; eauto.
Qed.

(* a count cannot be read from a source of numbers *)
Theorem count_from_numbers_refused s : numeric s = true ->
  fst (lin_of_iter rnd s) = None /\ fst (fac_of_iter rnd s) = None.
Proof.
  intros NU. unfold lin_of_iter, fac_of_iter, it_consume_u.
  destruct s; try discriminate; destruct (it_value rnd _) as [[| | | |] s1]; split; reflexivity.
Qed.

Theorem range_from_numbers s d s' : inv rnd s -> numeric s = true -> s_bad (abs s) = false ->
  range_of_iter rnd s = (Some d, s') ->
  exists mn mx st r, remaining (abs s) = EV mn :: EV mx :: EV st :: r /\ d = PRange mn mx st /\
                     remaining (abs s') = r /\ inv rnd s'.
Proof.
  intros I NU NB. unfold range_of_iter, range_set.
  assert (FF : forall l : list elem, match l with [] => false | _ :: _ => false end = false) by (now destruct l).
  pose proof (consume_numeric s I NU) as C1. destruct (it_consume rnd s) as [[r1 v1] s1].
  destruct (IterSpec.remaining rnd (abs s)) as [|x1 l1] eqn:R0.
  { destruct C1 as [N _]. assert (L : (r1 <? 0)%Z = true) by (apply Z.ltb_lt; lia).
    rewrite L. cbv beta iota zeta. try rewrite L. intros X; discriminate X. }
  rewrite NB, FF in C1. destruct C1 as [-> [[y1 [-> ->]] [I1 [NU1 [R1 B1]]]]].
  change (T_d <? 0)%Z with false. change (T_d =? 0)%Z with false. cbv beta iota zeta.
  pose proof (consume_numeric s1 I1 NU1) as C2. destruct (it_consume rnd s1) as [[r2 v2] s2].
  rewrite R1 in C2. destruct l1 as [|x2 l2].
  { destruct C2 as [N _]. assert (L : (r2 <? 0)%Z = true) by (apply Z.ltb_lt; lia).
    rewrite L. cbv beta iota zeta. try rewrite L. intros X; discriminate X. }
  rewrite B1, FF in C2. destruct C2 as [-> [[y2 [-> ->]] [I2 [NU2 [R2 B2]]]]].
  change (T_d <? 0)%Z with false. cbv beta iota zeta.
  pose proof (consume_numeric s2 I2 NU2) as C3. destruct (it_consume rnd s2) as [[r3 v3] s3].
  rewrite R2 in C3. destruct l2 as [|x3 l3].
  { destruct C3 as [N _]. assert (L : (r3 <? 0)%Z = true) by (apply Z.ltb_lt; lia).
    rewrite L. cbv beta iota zeta. try rewrite L. intros X; discriminate X. }
  rewrite B2, FF in C3. destruct C3 as [-> [[y3 [-> ->]] [I3 [NU3 [R3 B3]]]]].
  change (T_d <? 0)%Z with false. cbv beta iota zeta. intros [= <- <-].
  exists y1, y2, y3, l3. cbn [vdflt]. auto.
Qed.
(* mpt_range_set with an iterator value, for a source that serves numbers: the next two elements become
   min and max and the source is left behind them; with fewer than two elements it is refused (negative
   result) and the range is untouched *)
Theorem range_set_from_numbers s mn mx : inv rnd s -> numeric s = true -> s_bad (abs s) = false ->
  let '(r, a, b, s') := range_set rnd s mn mx in
  match remaining (abs s) with
  | x :: y :: rest => r = 2%Z /\ x = EV a /\ y = EV b /\ remaining (abs s') = rest /\ inv rnd s'
  | _ => (r < 0)%Z /\ a = mn /\ b = mx
  end.
Proof.
  intros I NU NB. unfold range_set.
  assert (FF : forall l : list elem, match l with [] => false | _ :: _ => false end = false) by (now destruct l).
  pose proof (consume_numeric s I NU) as C1. destruct (it_consume rnd s) as [[r1 v1] s1].
  destruct (IterSpec.remaining rnd (abs s)) as [|x1 l1] eqn:R0.
  { destruct C1 as [N _]. assert (L : (r1 <? 0)%Z = true) by (apply Z.ltb_lt; lia). rewrite L. auto. }
  rewrite NB, FF in C1. destruct C1 as [-> [[y1 [-> ->]] [I1 [NU1 [R1 B1]]]]].
  change (T_d <? 0)%Z with false. change (T_d =? 0)%Z with false. cbv beta iota zeta.
  pose proof (consume_numeric s1 I1 NU1) as C2. destruct (it_consume rnd s1) as [[r2 v2] s2].
  rewrite R1 in C2. destruct l1 as [|x2 l2].
  { destruct C2 as [N _]. assert (L : (r2 <? 0)%Z = true) by (apply Z.ltb_lt; lia). rewrite L. auto. }
  rewrite B1, FF in C2. destruct C2 as [-> [[y2 [-> ->]] [I2 [NU2 [R2 B2]]]]].
  change (T_d <? 0)%Z with false. cbv beta iota zeta. cbn [vdflt]. auto.
Qed.
End Feed.

(* mpt_range_set with a vector of doubles: exactly two complete elements (16..23 bytes) are taken as
   min and max (a null base: the default range 0..1); anything else is refused and the range is untouched.
   A null iterator pointer gives the default range; other value types are refused. *)
Theorem range_set_vector bytes base mn mx :
  range_set_val (RSVec bytes base) mn mx =
  if ((16 <=? bytes) && (bytes <? 24))%N
  then match base with Some l => (0%Z, nth 0 l NaN, nth 1 l NaN) | None => (0%Z, Fin 0, of_N 1) end
  else (BadValue, mn, mx).
Proof.
  unfold range_set_val.
  destruct (N.leb_spec 16 bytes) as [L|L], (N.ltb_spec bytes 24) as [U|U]; cbn [andb].
  - replace (bytes / 8)%N with 2%N; [reflexivity|]. apply (N.div_unique bytes 8 2 (bytes - 16)); lia.
  - destruct (N.eqb_spec (bytes / 8) 2) as [E|E]; [|reflexivity]. exfalso.
    pose proof (N.mul_div_le bytes 8 ltac:(lia)). pose proof (N.mod_lt bytes 8 ltac:(lia)).
    pose proof (N.div_mod bytes 8 ltac:(lia)). lia.
  - destruct (N.eqb_spec (bytes / 8) 2) as [E|E]; [|reflexivity]. exfalso.
    pose proof (N.mul_div_le bytes 8 ltac:(lia)). lia.
  - lia.
Qed.
Theorem range_set_other mn mx :
  range_set_val RSNoIter mn mx = (0%Z, Fin 0, of_N 1) /\
  range_set_val RSVecNull mn mx = (BadValue, mn, mx) /\ range_set_val RSOther mn mx = (BadType, mn, mx).
Proof. repeat split. Qed.
