(* C19 — IterDenote.v: what an accepted description denotes.
   [build_denotes]: the source built from a parsed description denotes exactly the
   sequence written here by index (count and formula), for every arithmetic [rnd].
   [poly_exact]: in exact arithmetic the polynomial element is sum_j m_j (x+s_j)^(n-1-j).
   [values_linear_spec] / [values_bound_spec]: the array fillers write one element
   per index, first = min, last = max, interior by the same formula. *)
From Coq Require Import ZArith NArith QArith List Bool Lia.
From MptV Require Import C19.IterModel C19.IterSpec C19.IterProofs C19.IterText C19.IterString C19.IterRefine
  C19.IterClosed.
Import ListNotations.
Local Open Scope N_scope.

Definition seq_of (n : N) (f : N -> fv) : list elem := map (fun k => EV (f k)) (nrange 0 n).

Section Denote.
Variable rnd : Q -> fv.
Notation fadd := (fadd rnd). Notation fsub := (fsub rnd).
Notation fmul := (fmul rnd). Notation fdiv := (fdiv rnd).
Notation denoted := (denoted rnd).

Lemma denoted_idx d pos : denoted (CIdx d pos) = seq_of (d_len d) (d_at rnd d).
Proof. unfold denoted, seq_of. cbn. now rewrite N.sub_0_r. Qed.

Definition desc_denotes (d : desc) (l : list elem) : Prop :=
  match d with
  | PDefault => l = seq_of 11 (fun k => fadd (Fin 0) (fmul (of_N k) c_0p1))
  | PLin len a b =>
      2 <= len /\ l = seq_of len (fun k => fadd a (fmul (of_N k) (fdiv (fsub b a) (of_N (len - 1)))))
  | PRange mn mx step =>
      exists iv, ftrunc (fdiv (fsub mx mn) step) = Some iv /\
                 l = seq_of (wrap32 (iv + 1)) (fun k => fadd mn (fmul (of_N k) step))
  | PFac base fact init elem =>
      l = seq_of elem (fun k => if k =? 0 then init else N.iter (k - 1) (fun c => fmul c fact) base)
  | PBnd len le i r =>
      2 <= len /\ l = seq_of len (fun k => if k =? 0 then le else if k <? len - 1 then i else r)
  | PPol coef (Some g) =>
      l = seq_of (N.of_nat (length g)) (fun k => poly_eval rnd coef (nth (N.to_nat k) g NaN))
  | PPol coef None => l = seq_of UINT_MAX (fun k => poly_eval rnd coef (of_N k))
  | PVals t p =>
      exists len v, cdouble t p = (len, Some v) /\ fisnan v = false /\
                    l = EV v :: fst (vchain t (zpos p len))
  end.

Theorem build_denotes d s : build rnd d = Some s -> desc_denotes d (denoted (abs s)).
Proof.
  destruct d; cbn [build desc_denotes].
  - intros [= <-]. cbn [abs]. rewrite denoted_idx. reflexivity.
  - unfold mk_linear. destruct (N.ltb_spec len 2); [discriminate|]. intros [= <-].
    split; [assumption|]. cbn [abs l_base l_step l_elem l_pos]. rewrite denoted_idx. reflexivity.
  - unfold range_check. destruct (_ || _); [discriminate|]. destruct (_ || _); [discriminate|].
    destruct (ftrunc _) as [iv|] eqn:T; [|discriminate]. intros [= <-]. exists iv. split; [reflexivity|].
    cbn [abs l_base l_step l_elem l_pos]. rewrite denoted_idx. reflexivity.
  - intros [= <-]. cbn [abs mk_factor f_base f_fact f_init f_elem f_pos]. rewrite denoted_idx. reflexivity.
  - unfold mk_boundary. destruct (N.ltb_spec len 2); [discriminate|]. intros [= <-].
    split; [assumption|]. cbn [abs b_left b_inter b_right b_elem b_pos]. rewrite denoted_idx. reflexivity.
  - intros [= <-]. cbn [abs p_grid p_coef p_pos]. rewrite denoted_idx. destruct grid; reflexivity.
  - unfold mk_values. destruct (cdouble t p) as [len [v|]] eqn:C; [|discriminate].
    destruct (fisnan v) eqn:NA; [discriminate|]. intros [= <-]. exists len, v. repeat split; auto.
    rewrite abs_val. unfold denoted. cbn [s_reset IterSpec.remaining v_text v_base].
    now rewrite (vchain_step t p), C, NA.
Qed.
End Denote.

(* ------------------------------------------------------------------ polynomial in exact arithmetic *)
Fixpoint qpow (y : Q) (k : nat) : Q := match k with O => 1 | S k => y * qpow y k end.
Fixpoint qpoly (cs : list (Q * Q)) (x : Q) : Q :=
  match cs with [] => 0 | (m, sh) :: r => m * qpow (x + sh) (length r) + qpoly r x end.
Definition fin2 (c : Q * Q) : fv * fv := (Fin (fst c), Fin (snd c)).

Lemma pow_mul_exact m y k : exists q, pow_mul rexact (Fin m) (Fin y) k = Fin q /\ (q == m * qpow y k)%Q.
Proof.
  revert m; induction k as [|k IH]; intros m; cbn [pow_mul qpow].
  - exists m. split; [reflexivity|ring].
  - destruct (IH (m * y)%Q) as [q [E Q]]. exists q. split; [exact E|]. rewrite Q. ring.
Qed.

Lemma poly_sum_exact cs x acc : exists q,
  poly_sum rexact (map fin2 cs) (Fin x) (Fin acc) = Fin q /\ (q == acc + qpoly cs x)%Q.
Proof.
  revert acc; induction cs as [|[m sh] cs IH]; intros acc; cbn [map poly_sum qpoly fin2 fst snd].
  - exists acc. split; [reflexivity|ring].
  - rewrite map_length. cbn [IterModel.fadd]. change (rexact (x + sh)) with (Fin (x + sh)).
    destruct (pow_mul_exact m (x + sh) (length cs)) as [p [E P]]. rewrite E. change (rexact (acc + p)) with (Fin (acc + p)).
    destruct (IH (acc + p)%Q) as [q [E2 Q2]]. exists q. split; [exact E2|]. rewrite Q2, P. ring.
Qed.

Theorem poly_exact cs x : cs <> [] -> exists q,
  poly_eval rexact (map fin2 cs) (Fin x) = Fin q /\ (q == qpoly cs x)%Q.
Proof.
  intros NE. unfold poly_eval. destruct cs as [|c cs]; [contradiction|].
  destruct (poly_sum_exact (c :: cs) x 0) as [q [E Q]]. cbn [map] in *. exists q. split; [exact E|]. rewrite Q. ring.
Qed.

(* ------------------------------------------------------------------ mpt_values_linear / mpt_values_bound *)
Local Open Scope Z_scope.

Lemma seq_ends n : (1 <= n)%nat -> seq 0 (S n) = (0 :: seq 1 (n - 1) ++ [n])%nat.
Proof.
  intros H. cbn [seq]. f_equal. replace n with ((n - 1) + 1)%nat at 1 by lia.
  rewrite seq_app. cbn [seq]. do 2 f_equal. lia.
Qed.

Section Fill.
Variable rnd : Q -> fv.

(* element i of points >= 2 elements *)
Definition vlin_at (points : Z) (mn mx : fv) (i : nat) : fv :=
  if Nat.eqb i 0 then mn else if Nat.eqb i (Z.to_nat (points - 1)) then mx
  else fadd rnd mn (fmul rnd (Fin (Z.of_nat i # 1)) (fdiv rnd (fsub rnd mx mn) (Fin (points - 1 # 1)))).
Definition vbound_at (points : Z) (l c r : fv) (i : nat) : fv :=
  if Nat.eqb i 0 then l else if Nat.eqb i (Z.to_nat (points - 1)) then r else c.

(* one write per element, in order, element i at index i*ld *)
Theorem values_linear_spec points ld mn mx : 2 <= points ->
  values_linear rnd points ld mn mx =
  map (fun i => (Z.of_nat i * ld, vlin_at points mn mx i)) (seq 0 (Z.to_nat points)).
Proof.
  intros H. unfold values_linear. destruct (Z.ltb_spec points 1); [lia|].
  destruct (Z.eqb_spec (points - 1) 0); [lia|].
  replace (Z.to_nat points) with (S (Z.to_nat (points - 1))) by lia.
  rewrite seq_ends by lia. cbn [map]. rewrite map_app. cbn [map].
  f_equal. f_equal.
  - apply map_ext_in. intros i I. apply in_seq in I. unfold vlin_at.
    destruct (Nat.eqb_spec i 0); [lia|]. destruct (Nat.eqb_spec i (Z.to_nat (points - 1))); [lia|]. reflexivity.
  - unfold vlin_at. destruct (Nat.eqb_spec (Z.to_nat (points - 1)) 0); [lia|]. rewrite Nat.eqb_refl.
    f_equal. f_equal. lia.
Qed.

Theorem values_bound_spec points ld l c r : 2 <= points ->
  values_bound rnd points ld l c r =
  map (fun i => (Z.of_nat i * ld, vbound_at points l c r i)) (seq 0 (Z.to_nat points)).
Proof.
  intros H. unfold values_bound. destruct (Z.ltb_spec points 1); [lia|]. destruct (Z.ltb_spec points 2); [lia|].
  replace (Z.to_nat points) with (S (Z.to_nat (points - 1))) by lia.
  rewrite seq_ends by lia. cbn [map]. rewrite map_app. cbn [map].
  f_equal. f_equal.
  - apply map_ext_in. intros i I. apply in_seq in I. unfold vbound_at.
    destruct (Nat.eqb_spec i 0); [lia|]. destruct (Nat.eqb_spec i (Z.to_nat (points - 1))); [lia|]. reflexivity.
  - unfold vbound_at. destruct (Nat.eqb_spec (Z.to_nat (points - 1)) 0); [lia|]. rewrite Nat.eqb_refl.
    f_equal. f_equal. lia.
Qed.

(* one point: linear writes min then max to the same place (max stays), bound writes the mean;
   no point: nothing is written *)
Theorem values_small ld mn mx l c r :
  values_linear rnd 1 ld mn mx = [(0, mn); (0, mx)] /\
  values_bound rnd 1 ld l c r = [(0, fdiv rnd (fadd rnd (fadd rnd l c) r) (of_N 3))] /\
  (forall points, points < 1 -> values_linear rnd points ld mn mx = [] /\ values_bound rnd points ld l c r = []).
Proof.
  split; [reflexivity|]. split; [reflexivity|]. intros points H. unfold values_linear, values_bound.
  destruct (Z.ltb_spec points 1); [auto|lia].
Qed.
End Fill.

(* exact arithmetic: element i of mpt_values_linear is the closed form a + i(b-a)/(points-1) *)
Theorem values_linear_exact points a b i : 2 <= points -> (i < Z.to_nat points)%nat ->
  exists q, vlin_at rexact points (Fin a) (Fin b) i = Fin q /\
            (q == a + (Z.of_nat i # 1) * ((b - a) / (points - 1 # 1)))%Q.
Proof.
  intros H I. unfold vlin_at. assert (NZ : ~ (points - 1 # 1 == 0)%Q) by (unfold Qeq; cbn; lia).
  destruct (Nat.eqb_spec i 0) as [->|N0].
  - exists a. split; [reflexivity|]. cbn. field. exact NZ.
  - destruct (Nat.eqb_spec i (Z.to_nat (points - 1))) as [->|NL].
    + exists b. split; [reflexivity|]. rewrite Z2Nat.id by lia. field. exact NZ.
    + unfold fsub, fneg, IterModel.fadd, fdiv, fmul, rexact.
      destruct (Qeq_bool (points - 1 # 1) 0) eqn:E; [apply Qeq_bool_iff in E; contradiction|].
      eexists. split; [reflexivity|]. reflexivity.
Qed.
