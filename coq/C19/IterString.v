(* C19 — IterString.v: the text iterator (mptcore/meta/iterator_string.c, read as
   numbers) is simulated by the cursor [CStr]: a list of read results in which the
   end of an element is known only after it was read.  Advancing an element that
   was not read (or that is the last one) ends the iteration. *)
From Coq Require Import ZArith NArith QArith List Bool Lia.
From MptV Require Import C19.IterModel C19.IterSpec C19.IterProofs C19.IterText.
Import ListNotations.
Local Open Scope nat_scope.

Definition schain (t : text) (p : nat) : list elem := scan_str t p (S (S (tlen t))).
(* the text read from p up to rs is white space only *)
Definition sblank (t : text) (p rs : nat) : bool := all_space (firstn (rs - p) (skipn p (t_bytes t))).

(* how a return code of advance relates to the class the cursor reports *)
Definition amatch (a : aclass) (r : Z) : Prop :=
  match a with
  | AMore => (0 < r)%Z | AEnd => r = 0%Z | ARefused => (r < 0)%Z | ANotMore => (r <= 0)%Z
  end.

Lemma skip_space_ge l p : p <= skip_space l p.
Proof. revert p; induction l as [|b l IH]; intros p; cbn; [lia|]. destruct (isspace b); [|lia]. specialize (IH (S p)). lia. Qed.
Lemma skip_at_ge t p : p <= skip_space_at t p.
Proof. apply skip_space_ge. Qed.

Lemma scan_str_S t p f : scan_str t p (S f) =
  if (byte_at t p =? 0)%N then [EErr MissingData] else
  let p' := skip_space_at t p in
  match cdouble t p' with
  | (r, v) =>
      if (r <? 0)%Z then [EErr r] else
      let rs := zpos p' r in
      if sblank t p rs then [EErr MissingData] else
      let e := match v with Some v => EV v | None => EUnset end in
      if Nat.ltb rs (tlen t) then e :: scan_str t (S rs) f else [e]
  end.
Proof. reflexivity. Qed.

Lemma sscan_fuel t : forall f1 f2 p, S (S (tlen t)) - p <= f1 -> S (S (tlen t)) - p <= f2 ->
  1 <= f1 -> 1 <= f2 -> scan_str t p f1 = scan_str t p f2.
Proof.
  induction f1 as [|f1 IH]; intros f2 p H1 H2 G1 G2; [lia|]. destruct f2 as [|f2]; [lia|].
  rewrite !scan_str_S. destruct (byte_at t p =? 0)%N; [reflexivity|]. cbv zeta.
  destruct (cdouble t (skip_space_at t p)) as [r v]. destruct (r <? 0)%Z eqn:R; [reflexivity|].
  destruct (sblank t p (zpos (skip_space_at t p) r)); [reflexivity|].
  destruct (Nat.ltb_spec (zpos (skip_space_at t p) r) (tlen t)) as [L|L]; [|reflexivity].
  f_equal. pose proof (skip_at_ge t p). apply Z.ltb_ge in R.
  assert (p <= zpos (skip_space_at t p) r) by (unfold zpos; lia).
  apply IH; lia.
Qed.

Lemma schain_step t p : schain t p =
  if (byte_at t p =? 0)%N then [EErr MissingData] else
  let p' := skip_space_at t p in
  match cdouble t p' with
  | (r, v) =>
      if (r <? 0)%Z then [EErr r] else
      let rs := zpos p' r in
      if sblank t p rs then [EErr MissingData] else
      let e := match v with Some v => EV v | None => EUnset end in
      if Nat.ltb rs (tlen t) then e :: schain t (S rs) else [e]
  end.
Proof.
  unfold schain at 1. rewrite scan_str_S. destruct (byte_at t p =? 0)%N; [reflexivity|]. cbv zeta.
  destruct (cdouble t (skip_space_at t p)) as [r v]. destruct (r <? 0)%Z eqn:R; [reflexivity|].
  destruct (sblank t p (zpos (skip_space_at t p) r)); [reflexivity|].
  destruct (Nat.ltb_spec (zpos (skip_space_at t p) r) (tlen t)) as [L|L]; [|reflexivity].
  f_equal. unfold schain. apply sscan_fuel; lia.
Qed.

Lemma schain_nonempty t p : schain t p <> [].
Proof.
  rewrite schain_step. destruct (_ =? _)%N; [discriminate|]. cbv zeta.
  destruct (cdouble _ _) as [r v]. destruct (_ <? _)%Z; [discriminate|]. destruct (sblank _ _ _); [discriminate|].
  destruct (Nat.ltb _ _); discriminate.
Qed.

Definition inv_str (m : stri) : Prop :=
  s_base m <= tlen (s_text m) /\
  match s_val m with
  | None => True
  | Some p =>
      s_end m = Some (tlen (s_text m)) /\ p <= tlen (s_text m) /\
      match s_restore m with
      | None => True
      | Some rs =>
          byte_at (s_text m) p <> 0%N /\
          exists r v, cdouble (s_text m) (skip_space_at (s_text m) p) = (r, v) /\ (0 <= r)%Z /\
                      rs = zpos (skip_space_at (s_text m) p) r /\ rs < tlen (s_text m) /\
                      sblank (s_text m) p rs = false
      end
  end.

Definition flag (o : option nat) : bool := match o with Some _ => true | None => false end.
Lemma abs_str m : abs (SStr m) =
  CStr (schain (s_text m) (s_base m))
       (match s_val m with Some p => schain (s_text m) p | None => [] end) (flag (s_restore m)).
Proof. reflexivity. Qed.

Section SimStr.
Variable rnd : Q -> fv.
Notation s_value := (s_value rnd).

Lemma str_value_sim m : inv_str m ->
  let (v, m') := str_value m in
  inv_str m' /\ abs (SStr m') = s_read (abs (SStr m)) /\ vmatch v (s_value (abs (SStr m))).
Proof.
  intros [IB I]. unfold str_value, str_conv_d. rewrite (abs_str m).
  destruct (s_val m) as [p|] eqn:V.
  2:{ split; [split; [assumption|now rewrite V]|]. split; [rewrite abs_str, V; reflexivity|exact Logic.I]. }
  destruct I as [E [PL R]]. rewrite (schain_step (s_text m) p).
  destruct (N.eqb_spec (byte_at (s_text m) p) 0) as [Z|NZ].
  - split; [|split; [rewrite abs_str; unfold str_set; cbn [s_text s_base s_val s_end s_restore flag]; rewrite (schain_step (s_text m) p), Z; reflexivity|reflexivity]].
    unfold inv_str, str_set. cbn. auto.
  - cbv zeta. destruct (cdouble (s_text m) (skip_space_at (s_text m) p)) as [r v] eqn:C.
    destruct (Z.ltb_spec r 0) as [NEG|POS].
    + (* unreadable: nothing changes; no terminator can be pending *)
      assert (RN : s_restore m = None).
      { destruct (s_restore m) as [rs|]; [|reflexivity]. destruct R as [_ [r' [v' [C' [P' _]]]]].
        try rewrite C in C'. injection C' as <- <-. lia. }
      split; [split; [assumption|rewrite V; rewrite RN; auto]|].
      split; [|reflexivity]. rewrite abs_str, V, RN, (schain_step (s_text m) p).
      destruct (N.eqb_spec (byte_at (s_text m) p) 0); [contradiction|]. cbv zeta. rewrite C.
      destruct (Z.ltb_spec r 0); [reflexivity|lia].
    + unfold sblank.
      destruct (all_space (firstn (zpos (skip_space_at (s_text m) p) r - p) (skipn p (t_bytes (s_text m))))) eqn:BL.
      { (* white space only: no element, nothing changes; no terminator can be pending *)
        assert (RN : s_restore m = None).
        { destruct (s_restore m) as [rs|]; [|reflexivity]. destruct R as [_ [r' [v' [C' [P' [-> [_ NB]]]]]]].
          try rewrite C in C'. injection C' as <- <-. unfold sblank in NB. rewrite BL in NB. discriminate. }
        split; [split; [assumption|rewrite V; rewrite RN; auto]|].
        split; [|reflexivity]. rewrite abs_str, V, RN, (schain_step (s_text m) p).
        destruct (N.eqb_spec (byte_at (s_text m) p) 0); [contradiction|]. cbv zeta. rewrite C.
        destruct (Z.ltb_spec r 0); [lia|]. unfold sblank. rewrite BL. reflexivity. }
      rewrite E. destruct (Nat.ltb_spec (zpos (skip_space_at (s_text m) p) r) (tlen (s_text m))) as [L|L].
      * split; [|split].
        -- unfold inv_str, str_set. cbn [s_text s_base s_val s_end s_restore].
           split; [assumption|]. split; [reflexivity|]. split; [assumption|]. split; [assumption|].
           exists r, v. unfold sblank. auto.
        -- rewrite abs_str. unfold str_set. cbn [s_text s_base s_val s_end s_restore flag].
           rewrite (schain_step (s_text m) p).
           destruct (N.eqb_spec (byte_at (s_text m) p) 0); [contradiction|]. cbv zeta. rewrite C.
           destruct (Z.ltb_spec r 0); [lia|]. unfold sblank. rewrite BL.
           destruct (Nat.ltb_spec (zpos (skip_space_at (s_text m) p) r) (tlen (s_text m))); [|lia].
           destruct (schain (s_text m) (S (zpos (skip_space_at (s_text m) p) r))) eqn:SC;
             [exfalso; exact (schain_nonempty _ _ SC)|].
           cbn [s_read]. now destruct v.
        -- cbn. now destruct v.
      * split; [|split].
        -- unfold inv_str, str_set. cbn. auto.
        -- rewrite abs_str. unfold str_set. cbn [s_text s_base s_val s_end s_restore flag].
           rewrite (schain_step (s_text m) p).
           destruct (N.eqb_spec (byte_at (s_text m) p) 0); [contradiction|]. cbv zeta. rewrite C.
           destruct (Z.ltb_spec r 0); [lia|]. unfold sblank. rewrite BL.
           destruct (Nat.ltb_spec (zpos (skip_space_at (s_text m) p) r) (tlen (s_text m))); [lia|].
           reflexivity.
        -- cbn. now destruct v.
Qed.

Lemma str_advance_sim m : inv_str m ->
  let (r, m') := str_advance m in
  inv_str m' /\ exists a, s_advance (abs (SStr m)) = (a, abs (SStr m')) /\ amatch a r.
Proof.
  intros [IB I]. unfold str_advance. rewrite (abs_str m).
  destruct (s_end m) as [e|] eqn:E.
  2:{ (* end cleared: the iteration is over *)
    destruct (s_val m) as [p|] eqn:V; [destruct I as [E' _]; try rewrite E in E'; discriminate|].
    split; [split; [assumption|now rewrite V]|]. exists ANotMore. rewrite abs_str, V. split; [reflexivity|unfold amatch, MissingData; lia]. }
  destruct (s_val m) as [p|] eqn:V.
  2:{ split; [unfold inv_str, str_set; cbn; auto|]. exists ANotMore.
      rewrite abs_str. unfold str_set. cbn [s_text s_base s_val s_end s_restore]. split; [reflexivity|unfold amatch; lia]. }
  destruct I as [E' [PL R]]. try rewrite E in E'. injection E' as ->.
  pose proof (schain_nonempty (s_text m) p) as NE.
  destruct (Nat.eqb_spec (tlen (s_text m)) p) as [EQ|NEQ].
  - (* at the end of the text: the empty last element *)
    assert (RN : s_restore m = None).
    { destruct (s_restore m); [|reflexivity]. destruct R as [NZ _]. rewrite byte_past in NZ by lia. contradiction. }
    split; [unfold inv_str, str_set; cbn; auto|]. exists AEnd. rewrite abs_str. unfold str_set.
    cbn [s_text s_base s_val s_end s_restore]. rewrite RN. cbn [flag s_advance].
    destruct (schain (s_text m) p); [contradiction|]. split; reflexivity.
  - destruct (s_restore m) as [rs|] eqn:RS.
    + destruct R as [NZ [r [v [C [P [-> [L NB]]]]]]].
      split.
      * unfold inv_str, str_set. cbn. repeat split; auto.
      * exists AMore. rewrite abs_str. unfold str_set. cbn [s_text s_base s_val s_end s_restore flag].
        rewrite (schain_step (s_text m) p).
        destruct (N.eqb_spec (byte_at (s_text m) p) 0); [contradiction|]. cbv zeta. rewrite C.
        destruct (Z.ltb_spec r 0); [lia|]. rewrite NB.
        destruct (Nat.ltb_spec (zpos (skip_space_at (s_text m) p) r) (tlen (s_text m))); [|lia].
        cbn [s_advance]. split; [reflexivity|reflexivity].
    + split; [unfold inv_str, str_set; cbn; auto|]. exists AEnd. rewrite abs_str. unfold str_set.
      cbn [s_text s_base s_val s_end s_restore flag s_advance].
      destruct (schain (s_text m) p); [contradiction|]. split; reflexivity.
Qed.

Lemma str_reset_sim m : inv_str m ->
  let (r, m') := str_reset m in
  inv_str m' /\ abs (SStr m') = s_reset (abs (SStr m)) /\ (0 <= r)%Z.
Proof.
  intros [IB I]. unfold str_reset, str_set. split; [|split; [reflexivity|lia]].
  unfold inv_str. cbn. auto.
Qed.

Lemma str_clone_sim m : inv_str m ->
  inv_str (str_clone m) /\ s_clone (abs (SStr m)) = Some (abs (SStr (str_clone m))).
Proof.
  intros [IB I]. unfold str_clone. rewrite (abs_str m). destruct (s_val m) as [p|] eqn:V.
  - destruct I as [E [PL _]]. split; [unfold inv_str; cbn; auto|].
    rewrite abs_str. cbn [s_text s_base s_val s_end s_restore flag].
    pose proof (schain_nonempty (s_text m) p). destruct (schain (s_text m) p) eqn:SC; [contradiction|]. reflexivity.
  - split; [unfold inv_str; cbn; auto|]. rewrite abs_str. cbn [s_text s_base s_val s_end s_restore flag s_clone].
    rewrite (schain_step (s_text m) (tlen (s_text m))), byte_past by lia. reflexivity.
Qed.

Lemma mk_string_sep_inv_str sep t : inv_str (mk_string_sep sep t).
Proof. unfold inv_str, mk_string_sep. cbn. repeat split; lia. Qed.
Lemma mk_string_inv t : inv_str (mk_string t).
Proof. apply mk_string_sep_inv_str. Qed.
End SimStr.
