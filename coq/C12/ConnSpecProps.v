(* C12/ConnSpecProps.v — what the connection does with a request, proved on the abstract
   specification instance of ConnModel.v (transferred to the mechanism in ConnProofs.v). *)
From MptV Require Import Base.Mem C12.ReplyModel C12.ReplySpec C12.ConnModel.
Local Open Scope nat_scope.

(* the connection holds its reply context: one reference, transport and target present, id width idl *)
Definition sopen (idl : nat) (s : sworld) : Prop :=
  s_own s <= 1 /\ (s_own s = 1 -> s_att s = true /\ s_ptr s = true /\ s_max s = idl).

Lemma sopen_step idl s orc o : sopen idl s -> cop_ok o = true -> sopen idl (fst (sstepo s orc o)).
Proof.
  intros [Hle Ho] Hok. unfold sstepo, sstep.
  destruct (sstep0 (sset_orc s orc) o) as [s' ob] eqn:E. cbn [fst].
  unfold sopen. cbn [sbump s_own s_att s_ptr s_max].
  revert E. destruct o; try discriminate; cbn [sstep0 sset_orc s_own s_att s_ptr s_max s_cur s_hs s_log s_orc s_step].
  - (* arm *)
    destruct (negb (s_own s =? 0)); [|intros E; inversion E; subst; cbn; auto].
    destruct (s_max s <? length bs); intros E; inversion E; subst; cbn; auto.
  - (* reply *)
    destruct (negb (s_own s =? 0)); [|intros E; inversion E; subst; cbn; auto].
    unfold s_reply. cbn [s_cur sset_orc].
    destruct (s_cur s) as [q|]; [|intros E; inversion E; subst; cbn; auto].
    destruct (s_answer _ q p) as [[[[open r] cs] lg] orc'].
    intros E; inversion E; subst; cbn; auto.
  - (* defer *)
    destruct (negb (s_own s =? 0)); [|intros E; inversion E; subst; cbn; auto].
    destruct (s_cur s) as [q|]; [|intros E; inversion E; subst; cbn; auto].
    destruct (_ <? _)%N; intros E; inversion E; subst; cbn; auto.
  - (* deferred reply *)
    destruct (nth_error (s_hs s) k) as [[q|]|]; try (intros E; inversion E; subst; cbn; auto; fail).
    destruct (s_answer _ q p) as [[[[open r] cs] lg] orc'].
    destruct (_ && _); intros E; inversion E; subst; cbn; auto.
  - (* unref *)
    destruct (Nat.eqb_spec (s_own s) 0) as [Hz|Hz]; cbn [negb].
    { intros E; inversion E; subst; cbn; auto. }
    assert (H1 : s_own s = 1) by lia.
    destruct (holders _ =? 1).
    + destruct (s_cur s) as [q|].
      * destruct (s_att s).
        -- destruct (s_answer _ q None) as [[[[open r] cs] lg] orc'].
           intros E; inversion E; subst; cbn. split; [lia|]. intros; lia.
        -- intros E; inversion E; subst; cbn. split; [lia|]. intros; lia.
      * intros E; inversion E; subst; cbn. split; [lia|]. intros; lia.
    + intros E; inversion E; subst; cbn. rewrite H1. cbn. split; [lia|]. intros; lia.
Qed.

(* ---------- a request is answered exactly once ---------- *)
Definition ssame (s s' : sworld) : Prop :=
  s_own s' = s_own s /\ s_att s' = s_att s /\ s_ptr s' = s_ptr s /\ s_max s' = s_max s /\ s_hs s' = s_hs s.

Lemma ssame_refl s : ssame s s.
Proof. repeat split. Qed.
Lemma ssame_trans a b c : ssame a b -> ssame b c -> ssame a c.
Proof. intros (A1 & A2 & A3 & A4 & A5) (B1 & B2 & B3 & B4 & B5). repeat split; congruence. Qed.

Lemma s_arm s orc id : s_own s = 1 -> length id = s_max s -> 0 < length id ->
  exists s', sstepo s orc (OArm id) = (s', mkobs (RInt 0) []) /\ ssame s s' /\ s_step s' = S (s_step s) /\
             s_cur s' = Some (mkq (s_step s) id) /\ s_log s' = s_log s.
Proof.
  intros Hown Hlen Hpos. unfold sstepo, sstep.
  cbn [sstep0 sset_orc s_own s_att s_ptr s_max s_cur s_hs s_log s_orc s_step].
  rewrite Hown. cbn [Nat.eqb negb]. rewrite <- Hlen, Nat.ltb_irrefl.
  destruct (Nat.eqb_spec (length id) 0); [lia|]. rewrite Nat.sub_diag.
  eexists. split; [reflexivity|]. cbn. repeat split; auto.
Qed.

Lemma s_reply_open s r p q : s_own s = 1 -> s_att s = true -> s_ptr s = true -> s_cur s = Some q -> (0 <= r)%Z ->
  exists s', sstepo s [r] (OReply p) = (s', mkobs (RInt r) [mkcall (mark (qid q)) p r]) /\ ssame s s' /\
             s_step s' = S (s_step s) /\ s_cur s' = None /\ s_log s' = s_log s ++ [mkent (qser q) (mark (qid q)) p].
Proof.
  intros Hown Hatt Hptr Hcur Hr. unfold sstepo, sstep.
  cbn [sstep0 sset_orc s_own]. rewrite Hown. cbn [Nat.eqb negb].
  unfold s_reply. cbn [s_cur sset_orc]. rewrite Hcur.
  unfold s_answer. cbn [s_att s_ptr s_orc sset_orc hd tl]. rewrite Hatt, Hptr. cbn [negb].
  destruct (Z.leb_spec 0 r); [|lia].
  eexists. split; [reflexivity|]. cbn. repeat split; auto.
Qed.

Lemma s_reply_closed s orc p : s_own s = 1 -> s_cur s = None ->
  exists s', sstepo s orc (OReply p) = (s', mkobs (RInt EBadArgument) []) /\ ssame s s' /\
             s_step s' = S (s_step s) /\ s_cur s' = None /\ s_log s' = s_log s.
Proof.
  intros Hown Hcur. unfold sstepo, sstep.
  cbn [sstep0 sset_orc s_own]. rewrite Hown. cbn [Nat.eqb negb].
  unfold s_reply. cbn [s_cur sset_orc]. rewrite Hcur.
  eexists. split; [reflexivity|]. cbn. repeat split; auto.
Qed.

Definition is_reply_act (a : hact) : bool := match a with HReply _ => true | HDefer => false end.

Lemma run_replies_closed c acts : forall s, s_own s = 1 -> s_cur s = None -> forallb is_reply_act acts = true ->
  exists s', run_acts sworld sstepo s c acts = (s', map (fun _ => HInt EBadArgument) acts, [], false) /\
             ssame s s' /\ s_cur s' = None /\ s_log s' = s_log s.
Proof.
  induction acts as [|a acts IH]; intros s Hown Hcur Hall.
  - exists s. repeat split; auto.
  - cbn [forallb] in Hall. apply andb_true_iff in Hall. destruct Hall as [Ha Hall].
    destruct a as [p|]; [|discriminate]. cbn [run_acts act_op fst snd]. unfold prim.
    destruct (s_reply_closed s [tans c p] p Hown Hcur) as (s1 & -> & Hs1 & _ & Hc1 & Hl1).
    assert (Hown1 : s_own s1 = 1) by (destruct Hs1 as (A & _); congruence).
    destruct (IH s1 Hown1 Hc1 Hall) as (s2 & -> & Hs2 & Hc2 & Hl2).
    exists s2. split; [reflexivity|]. split; [eapply ssame_trans; eauto|]. split; [assumption|congruence].
Qed.

Definition first_reply (acts : list hact) (code : Z) : option (list byte) :=
  match acts with HReply p :: _ => p | _ => Some (answer_hdr code) end.

Lemma tans_set_req c n id p : tans (set_req c n id) p = tans c p.
Proof. reflexivity. Qed.

Lemma tans_accepts c p : cclosed c = false -> cgone c = false -> (cdg c = true \/ cact c = false) -> (0 <= tans c p)%Z.
Proof.
  intros Hc Hg Ht. unfold tans. rewrite Hc, Hg. cbn [orb]. destruct (cdg c); [lia|].
  destruct Ht as [|Ht]; [discriminate|]. rewrite Ht. lia.
Qed.

Lemma call_wire_one k p r : (0 <= r)%Z -> call_wire [mkcall k p r] = [k ++ paybytes p].
Proof. intros Hr. unfold call_wire. cbn. destruct (Z.leb_spec 0 r); [reflexivity|lia]. Qed.

Lemma sarmed_spec s : s_own s = 1 -> sarmed s = match s_cur s with Some _ => true | None => false end.
Proof. intros H. unfold sarmed, view_armed, sview. cbn [v_ctx]. rewrite H. cbn. destruct (s_cur s); reflexivity. Qed.

(* A request (nonzero id without reply mark) dispatched to a handler that does not defer, on a connection
   whose transport accepts: exactly one message goes out, it is the request's id marked as reply followed
   by the handler's first reply (or the generic answer if the handler did not reply); later replies of the
   handler are refused; the context is closed afterwards and the log has exactly one new entry. *)
Lemma spec_request_answered_once s c m acts code :
  s_own s = 1 -> s_att s = true -> s_ptr s = true -> s_max s = cidl c ->
  cclosed c = false -> cgone c = false -> (cdg c = true \/ cact c = false) ->
  0 < cidl c -> cidl c <= length m -> all_zero (firstn (cidl c) m) = false ->
  forallb is_reply_act acts = true ->
  let id := firstn (cidl c) m in
  let p0 := first_reply acts code in
  exists s',
    dispatch_request sworld sstepo sarmed s_step s c m (Some (acts, code)) =
      (s', set_req c (s_step s) id, code, Some (true, skipn (cidl c) m),
       match acts with [] => [] | _ :: rest => HInt (tans c p0) :: map (fun _ => HInt EBadArgument) rest end,
       [mark id ++ paybytes p0], false) /\
    s_cur s' = None /\ ssame s s' /\ s_log s' = s_log s ++ [mkent (s_step s) (mark id) p0].
Proof.
  intros Hown Hatt Hptr Hmax Hcl Hgn Hacc Hpos Hlen Hnz Hall id p0.
  assert (Hidl : length id = s_max s) by (unfold id; rewrite firstn_length; lia).
  unfold dispatch_request. rewrite Hnz. fold id. unfold prim at 1.
  destruct (s_arm s [tans (set_req c (s_step s) id) None] id Hown Hidl ltac:(lia)) as (s1 & -> & Hs1 & Hst1 & Hc1 & Hl1).
  cbn [oret is_fault]. change (0 <? 0)%Z with false. cbv iota.
  assert (Hown1 : s_own s1 = 1) by (destruct Hs1 as (A & _); congruence).
  assert (Hatt1 : s_att s1 = true) by (destruct Hs1 as (_ & A & _); congruence).
  assert (Hptr1 : s_ptr s1 = true) by (destruct Hs1 as (_ & _ & A & _); congruence).
  destruct acts as [|a rest].
  - (* the handler did not reply: generic answer *)
    cbn [run_acts]. rewrite (sarmed_spec s1 Hown1), Hc1. unfold prim. rewrite tans_set_req.
    destruct (s_reply_open s1 (tans c (Some (answer_hdr code))) (Some (answer_hdr code)) _ Hown1 Hatt1 Hptr1 Hc1
                           (tans_accepts c _ Hcl Hgn Hacc)) as (s2 & -> & Hs2 & _ & Hc2 & Hl2).
    cbn [ocalls oret is_fault orb qid qser app]. rewrite call_wire_one by (apply tans_accepts; assumption).
    exists s2. split; [reflexivity|]. split; [assumption|]. split; [eapply ssame_trans; eauto|].
    rewrite Hl2, Hl1. reflexivity.
  - cbn [forallb] in Hall. apply andb_true_iff in Hall. destruct Hall as [Ha Hall].
    destruct a as [p|]; [|discriminate].
    cbn [run_acts act_op fst snd]. unfold prim at 1. rewrite tans_set_req.
    destruct (s_reply_open s1 (tans c p) p _ Hown1 Hatt1 Hptr1 Hc1 (tans_accepts c _ Hcl Hgn Hacc))
      as (s2 & -> & Hs2 & _ & Hc2 & Hl2).
    assert (Hown2 : s_own s2 = 1) by (destruct Hs2 as (A & _); congruence).
    destruct (run_replies_closed (set_req c (s_step s) id) rest s2 Hown2 Hc2 Hall) as (s3 & -> & Hs3 & Hc3 & Hl3).
    assert (Hown3 : s_own s3 = 1) by (destruct Hs3 as (A & _); congruence).
    rewrite (sarmed_spec s3 Hown3), Hc3.
    cbn [ocalls oret is_fault orb qid qser act_res]. rewrite call_wire_one by (apply tans_accepts; assumption).
    rewrite app_nil_r.
    exists s3. split; [reflexivity|]. split; [assumption|].
    split; [eapply ssame_trans; [eassumption|]; eapply ssame_trans; eauto|].
    rewrite Hl3, Hl2, Hl1. reflexivity.
Qed.

Lemma sstepo_no_fault s orc o : oret (snd (sstepo s orc o)) <> RFault.
Proof.
  unfold sstepo, sstep. destruct (sstep0 (sset_orc s orc) o) as [s' ob] eqn:E. cbn [snd].
  revert E. destruct o; cbn [sstep0]; unfold s_reply;
  repeat (match goal with |- context [match ?x with _ => _ end] => destruct x end);
  intros E; inversion E; subst; cbn; discriminate.
Qed.

(* a reply through a deferred handle asks the transport at most once, with the id the handle holds *)
Lemma spec_handle_calls s orc k p cl : In cl (ocalls (snd (sstepo s orc (OHReply k p)))) ->
  exists q, nth_error (s_hs s) k = Some (Some q) /\ kid cl = mark (qid q) /\ kpay cl = p.
Proof.
  unfold sstepo, sstep. cbn [sstep0 sset_orc s_hs].
  destruct (nth_error (s_hs s) k) as [[q|]|]; cbn [snd ocalls]; try contradiction.
  unfold s_answer. cbn [s_att s_ptr s_orc sset_orc].
  destruct (s_att s); cbn [negb].
  2:{ cbn. contradiction. }
  destruct (s_ptr s); cbn [negb].
  2:{ cbn. contradiction. }
  destruct (0 <=? hd 0%Z orc)%Z; destruct ((hd 0%Z orc <? 0)%Z && is_some p); cbn; intros [<-|[]]; exists q; auto.
Qed.

Lemma in_call_wire f cs : In f (call_wire cs) -> exists cl, In cl cs /\ f = kid cl ++ paybytes (kpay cl).
Proof.
  unfold call_wire. intros H. apply in_map_iff in H. destruct H as (cl & <- & Hin).
  apply filter_In in Hin. destruct Hin as [Hin _]. eauto.
Qed.
