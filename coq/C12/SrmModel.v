(* C12/SrmModel.v — mptio/stream/stream_reply.c (mpt_stream_reply: the transport of a reply on a stream)
   with what it calls: mpt_stream_append (stream_append.c) and the three uses of mpt_stream_push
   (stream_push.c): data, termination of the message, deletion of the message in progress (the roll-back).
   Executable, no proofs.  AS PATCHED by
     docs/C12_reply_rollback_blocks.diff  (encode_cobs.c: deleting the message in progress drops its finished blocks too)
     docs/C12_reply_rollback_active.diff  (stream_push.c: a deletion is not appended data: no MesgActive, no length arithmetic)
     docs/C12_reply_id_partial.diff       (stream_reply.c: an id that was pushed only in part is rolled back, not sent)

   The write queue is abstracted to the complete messages it holds ([wfin], decoded), the bytes of the message
   in progress ([wcur], decoded) and MPT_STREAMFLAG(MesgActive) ([wact]).  How much a push can take is a
   parameter of the section ([take] = bytes of a data push the encoder consumes before the queue is full and
   cannot grow, [term_ok] = the delimiter still fits); the instance below ([ctake], [cterm_ok]) is a COBS
   queue of a fixed number of bytes - what the harness sets up in the sin mode Q<n>. *)
From MptV Require Export Base.Mem C12.ReplyModel.
Local Open Scope nat_scope.

Definition EBadOperation : Z := (-4)%Z.
Definition EMissingBuffer : Z := (-17)%Z.

Record wq := mkwq { wfin : list (list byte); wcur : list byte; wact : bool }.

Section Srm.
  Variable take : wq -> list byte -> nat.
  Variable term_ok : wq -> bool.
  Variable efull : Z.       (* nothing could be pushed: BadOperation (buffered, cannot grow) / BadArgument (no buffer) *)

  (* mpt_stream_push(srm, len, src) with data: "return total ? total : error" *)
  Definition push_data (q : wq) (bs : list byte) : Z * wq :=
    let k := Nat.min (take q bs) (length bs) in
    if k =? 0 then (efull, q)
    else (Z.of_nat k, mkwq (wfin q) (wcur q ++ firstn k bs) true).

  (* mpt_stream_push(srm, 0, 0): terminate the message *)
  Definition push_end (q : wq) : Z * wq :=
    if term_ok q then (0%Z, mkwq (wfin q ++ [wcur q]) [] false) else (efull, q).

  (* mpt_stream_push(srm, 1, 0): delete the message in progress (as patched) *)
  Definition push_del (q : wq) : wq := mkwq (wfin q) [] false.

  (* mpt_stream_append: inner loop for one part "curr = push(used, base); total += curr; if ((used -= curr)) continue" *)
  Fixpoint push_part (fuel : nat) (q : wq) (bs : list byte) (total : nat) : bool * nat * wq :=
    match bs with
    | [] => (true, total, q)
    | _ =>
      match fuel with
      | O => (false, total, q)
      | S f =>
        let '(r, q1) := push_data q bs in
        if (r <? 0)%Z then (false, total, q1)
        else push_part f q1 (skipn (Z.to_nat r) bs) (total + Z.to_nat r)
      end
    end.

  (* mpt_stream_append: base part, then the continuation parts; (ok, total, queue) - not ok = BadOperation *)
  Fixpoint append_parts (q : wq) (parts : list (list byte)) (total : nat) : bool * nat * wq :=
    match parts with
    | [] => (true, total, q)
    | p :: ps =>
      let '(ok, t, q1) := push_part (length p) q p total in
      if ok then append_parts q1 ps t else (false, t, q1)
    end.

  Definition msg_length (parts : list (list byte)) : nat := length (concat parts).

  (* the end of mpt_stream_reply: terminate, roll back if that fails; [l] = "len != 0" *)
  Definition reply_finish (q : wq) (l : bool) : Z * wq :=
    let '(r, q1) := push_end q in
    if (r <? 0)%Z then (r, if l then push_del q1 else q1) else (0%Z, q1).

  (* int mpt_stream_reply(srm, len, val, msg): [id] = val[0..len), [msg] = None for a null message *)
  Definition srm_reply (q : wq) (id : list byte) (msg : option (list (list byte))) : Z * wq :=
    if wact q then (EBadArgument, q)
    else
      let '(r0, q1) := match id with [] => (0%Z, q) | _ => push_data q id end in
      if (r0 <? Z.of_nat (length id))%Z then
        (* id refused or pushed in part *)
        if (r0 <? 0)%Z then (r0, q1) else (EMissingBuffer, push_del q1)
      else
        let idl := negb (length id =? 0) in
        match msg with
        | None => reply_finish q1 idl
        | Some parts =>
          let '(ok, t, q2) := append_parts q1 parts 0 in
          if negb ok then (EBadOperation, if idl then push_del q2 else q2)
          else if t <? msg_length parts then
            (EMissingBuffer, if idl || (0 <? t) then push_del q2 else q2)
          else reply_finish q2 (idl || (0 <? t))
        end.
End Srm.

(* ------------------------------------------------------------------ *)
(* a COBS write queue of [cap] bytes that cannot grow (mpt_encode_cobs through mpt_queue_push on an aligned queue) *)

(* encoder state after one more byte: (bytes used by the message in progress, code of the open block; 0 = no block yet) *)
Definition enc_byte (uc : nat * nat) (b : byte) : nat * nat :=
  let '(u, c) := uc in
  let '(u, c) := if c =? 0 then (S u, 1) else (u, c) in
  if (b =? 0)%N then (S u, 1)
  else if S c =? 255 then (S (S u), 1)       (* block complete: the next code byte is needed as well *)
  else (S u, S c).
Definition enc_state (bs : list byte) : nat * nat := fold_left enc_byte bs (0, 0).
(* bytes of the finished frame incl. delimiter; the empty message is 01 00 *)
Definition frame_size (bs : list byte) : nat :=
  let '(u, c) := enc_state bs in if c =? 0 then 2 else S u.
Definition fin_size (fs : list (list byte)) : nat := list_sum (map frame_size fs).

(* the encoder's loop: a byte is consumed iff the state after it still fits *)
Fixpoint take_loop (free : nat) (uc : nat * nat) (bs : list byte) : nat :=
  match bs with
  | [] => 0
  | b :: t => let uc' := enc_byte uc b in if fst uc' <=? free then S (take_loop free uc' t) else 0
  end.
Definition ctake (cap : nat) (q : wq) (bs : list byte) : nat :=
  let free := cap - fin_size (wfin q) in
  let uc := enc_state (wcur q) in
  (* "if (left < 2 && code == MPT_COBS_MAXLEN - 1) return MissingBuffer" on entry *)
  if (snd uc =? 254) && (free - fst uc <? 2) then 0 else take_loop free uc bs.
Definition cterm_ok (cap : nat) (q : wq) : bool :=
  fin_size (wfin q) + frame_size (wcur q) <=? cap.

Definition srm_reply_cap (cap : nat) := srm_reply (ctake cap) (cterm_ok cap) EBadOperation.

(* ------------------------------------------------------------------ *)
(* stream_input.c over such a queue (sin mode Q<n>; correspondence level like [sin_request]):
   streamReply turns every failure of mpt_stream_reply into BadArgument and leaves the request open, so the handler's
   next reply and the generic answer are further attempts for the same request. *)

(* the harness hands a reply of more than 2 bytes over as base part (2 bytes) + one continuation part *)
Definition msg_parts (p : option (list byte)) : option (list (list byte)) :=
  match p with
  | None => None
  | Some m => Some (if 2 <? length m then [firstn 2 m; skipn 2 m] else [m])
  end.

Fixpoint sin_replies_q (cap : nat) (id : list byte) (armed : bool) (reps : list (option (list byte))) (q : wq)
  : list Z * wq * bool :=
  match reps with
  | [] => ([], q, armed)
  | p :: reps' =>
    if armed then
      let '(r, q1) := srm_reply_cap cap q (markb id) (msg_parts p) in
      let ok := (0 <=? r)%Z in
      let '(rs, q2, a) := sin_replies_q cap id (negb ok) reps' q1 in
      ((if ok then 0%Z else EBadArgument) :: rs, q2, a)
    else
      let '(rs, q2, a) := sin_replies_q cap id false reps' q in
      (EBadArgument :: rs, q2, a)
  end.

Definition sin_request_q (idlen cap : nat) (frame : list byte) (reps : list (option (list byte))) (code : Z) : sin_res :=
  let r := sin_request idlen true frame reps code in
  match si_seen r with
  | Some (_, true, _) =>
    let id := firstn idlen frame in
    let '(rs, q, armed) := sin_replies_q cap id true reps (mkwq [] [] false) in
    let q' := if armed
              then snd (srm_reply_cap cap q (markb id)
                          (Some [[1%N; Z.to_N ((if (code <? 0)%Z then code else 0%Z) mod 256)]]))
              else q in
    mksin (si_ret r) (si_seen r) rs (wfin q')
  | _ => r
  end.

(* ------------------------------------------------------------------ *)
(* specification of the same (S line of the sin Q<n> cases): a reply is a transport call that is accepted iff its
   complete frame fits into the queue; a refused one leaves no trace; the first accepted one closes the request *)
Definition s_fits (cap : nat) (fin : list (list byte)) (m : list byte) : bool :=
  fin_size fin + frame_size m <=? cap.
Definition pay_bytes (p : option (list byte)) : list byte := match p with None => [] | Some m => m end.
Fixpoint s_sin_replies_q (cap : nat) (id : list byte) (armed : bool) (reps : list (option (list byte)))
         (wire : list (list byte)) : list Z * list (list byte) * bool :=
  match reps with
  | [] => ([], wire, armed)
  | p :: reps' =>
    let m := markb id ++ pay_bytes p in
    let ok := armed && s_fits cap wire m in
    let '(rs, w, a) := s_sin_replies_q cap id (armed && negb ok) reps' (if ok then wire ++ [m] else wire) in
    ((if ok then 0%Z else EBadArgument) :: rs, w, a)
  end.
Definition s_sin_request_q (idlen cap : nat) (frame : list byte) (reps : list (option (list byte))) (code : Z) : sin_res :=
  let r := sin_request idlen true frame reps code in
  match si_seen r with
  | Some (_, true, _) =>
    let id := firstn idlen frame in
    let '(rs, w, armed) := s_sin_replies_q cap id true reps [] in
    let g := markb id ++ [1%N; Z.to_N ((if (code <? 0)%Z then code else 0%Z) mod 256)] in
    mksin (si_ret r) (si_seen r) rs (if armed && s_fits cap w g then w ++ [g] else w)
  | _ => r
  end.
