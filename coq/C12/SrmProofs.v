(* C12/SrmProofs.v — mpt_stream_reply (SrmModel.v) is atomic: for EVERY capacity behaviour of the write queue
   (any [take], any [term_ok]) a reply either puts exactly one complete message "id ++ message" behind the
   messages already queued, or fails and leaves the queue as it was (nothing of the refused reply can reach the
   wire, the next reply is not blocked).  This is what the transport script of the reply-context theorems
   (C12_retry_after_reject, C12_at_most_one_reply) assumes of a transport that rejects. *)
From MptV Require Import Base.Mem C12.ReplyModel C12.SrmModel.
Require Import Lia.
Local Open Scope nat_scope.

Section SrmP.
  Variable take : wq -> list byte -> nat.
  Variable term_ok : wq -> bool.
  Variable efull : Z.
  Hypothesis efull_neg : (efull < 0)%Z.

  Notation push_data := (push_data take efull).
  Notation push_end := (push_end term_ok efull).
  Notation push_part := (push_part take efull).
  Notation append_parts := (append_parts take efull).
  Notation srm_reply := (srm_reply take term_ok efull).

  Lemma push_data_cases q bs r q1 :
    push_data q bs = (r, q1) ->
    (r = efull /\ q1 = q) \/
    (exists k, 0 < k <= length bs /\ r = Z.of_nat k /\ q1 = mkwq (wfin q) (wcur q ++ firstn k bs) true).
  Proof.
    unfold SrmModel.push_data. destruct (Nat.eqb_spec (Nat.min (take q bs) (length bs)) 0) as [E|E]; intros H; inversion H; subst.
    - left. split; reflexivity.
    - right. exists (Nat.min (take q bs) (length bs)). split; [lia|split; reflexivity].
  Qed.

  Lemma firstn_skipn_app (k : nat) (bs : list byte) : firstn k bs ++ skipn k bs = bs.
  Proof. apply firstn_skipn. Qed.

  Lemma push_part_spec fuel : forall q bs total ok t q1,
    length bs <= fuel ->
    push_part fuel q bs total = (ok, t, q1) ->
    wfin q1 = wfin q /\ (ok = true -> wcur q1 = wcur q ++ bs /\ t = total + length bs).
  Proof.
    induction fuel as [|f IH]; intros q bs total ok t q1 Hl H.
    - destruct bs as [|b bs]; [|cbn in Hl; lia]. cbn in H. inversion H; subst.
      split; [reflexivity|]. intros _. rewrite app_nil_r. cbn. split; [reflexivity|lia].
    - destruct bs as [|b bs].
      { cbn in H. inversion H; subst. split; [reflexivity|]. intros _. rewrite app_nil_r. cbn. split; [reflexivity|lia]. }
      cbn [SrmModel.push_part] in H.
      destruct (push_data q (b :: bs)) as [r q0] eqn:E.
      destruct (push_data_cases _ _ _ _ E) as [[-> ->]|[k [Hk [-> ->]]]].
      + destruct (Z.ltb_spec efull 0) as [_|C]; [|lia]. inversion H; subst. split; [reflexivity|discriminate].
      + destruct (Z.ltb_spec (Z.of_nat k) 0) as [C|_]; [lia|]. rewrite Nat2Z.id in H.
        apply IH in H.
        2:{ rewrite skipn_length. cbn [length] in *. lia. }
        destruct H as [Hf Hok]. cbn [wfin wcur] in *. split; [exact Hf|].
        intros Ho. destruct (Hok Ho) as [Hc Ht]. split.
        * rewrite Hc, <- app_assoc, firstn_skipn_app. reflexivity.
        * rewrite Ht, skipn_length. cbn [length] in *. lia.
  Qed.

  Lemma append_parts_spec parts : forall q total ok t q1,
    append_parts q parts total = (ok, t, q1) ->
    wfin q1 = wfin q /\ (ok = true -> wcur q1 = wcur q ++ concat parts /\ t = total + length (concat parts)).
  Proof.
    induction parts as [|p ps IH]; intros q total ok t q1 H.
    - cbn in H. inversion H; subst. split; [reflexivity|]. intros _. cbn. rewrite app_nil_r. split; [reflexivity|lia].
    - cbn [SrmModel.append_parts] in H.
      destruct (push_part (length p) q p total) as [[ok0 t0] q0] eqn:E.
      apply push_part_spec in E; [|lia]. destruct E as [Hf Hok].
      destruct ok0.
      + destruct (Hok eq_refl) as [Hc Ht]. apply IH in H. destruct H as [Hf2 Hok2].
        split; [congruence|]. intros Ho. destruct (Hok2 Ho) as [Hc2 Ht2]. cbn [concat].
        split; [rewrite Hc2, Hc, <- app_assoc; reflexivity|rewrite Ht2, Ht, app_length; lia].
      + inversion H; subst. split; [exact Hf|discriminate].
  Qed.

  (* a queue between two replies: no message in progress *)
  Definition wq_idle (q : wq) : Prop := wact q = false /\ wcur q = [].

  Lemma idle_eq q : wq_idle q -> q = mkwq (wfin q) [] false.
  Proof. destruct q as [f c a]. intros [Ha Hc]. cbn in *. subst. reflexivity. Qed.

  Lemma reply_finish_spec q l r q1 fin cur :
    wfin q = fin -> wcur q = cur -> l = true ->
    reply_finish term_ok efull q l = (r, q1) ->
    (r = 0%Z /\ q1 = mkwq (fin ++ [cur]) [] false /\ term_ok q = true) \/ ((r < 0)%Z /\ q1 = mkwq fin [] false).
  Proof.
    intros Hf Hc -> H. unfold reply_finish, SrmModel.push_end in H. destruct (term_ok q) eqn:ET.
    - cbn in H. inversion H; subst. left. repeat split; reflexivity.
    - destruct (Z.ltb_spec efull 0) as [_|C]; [|lia]. inversion H; subst. right. split; [lia|reflexivity].
  Qed.

  (* the flattened message; a null message adds nothing *)
  Definition msg_bytes (msg : option (list (list byte))) : list byte :=
    match msg with None => [] | Some parts => concat parts end.

  Theorem srm_reply_atomic q id msg r q1 :
    wq_idle q -> id <> [] ->
    srm_reply q id msg = (r, q1) ->
    (r = 0%Z /\ q1 = mkwq (wfin q ++ [id ++ msg_bytes msg]) [] false /\
     exists q2, wfin q2 = wfin q /\ wcur q2 = id ++ msg_bytes msg /\ term_ok q2 = true) \/
    ((r < 0)%Z /\ q1 = q).
  Proof.
    intros Hi Hid H. pose proof (idle_eq _ Hi) as Hq. destruct Hi as [Ha Hc].
    unfold SrmModel.srm_reply in H. rewrite Ha in H.
    destruct id as [|b id]; [congruence|]. set (ID := b :: id) in *.
    destruct (push_data q ID) as [r0 q0] eqn:E.
    destruct (push_data_cases _ _ _ _ E) as [[-> ->]|[k [Hk [-> ->]]]].
    - (* nothing of the id could be pushed *)
      destruct (Z.ltb_spec efull (Z.of_nat (length ID))) as [_|C]; [|lia].
      destruct (Z.ltb_spec efull 0) as [_|C]; [|lia]. inversion H; subst. right. split; [lia|reflexivity].
    - destruct (Z.ltb_spec (Z.of_nat k) (Z.of_nat (length ID))) as [C|C].
      + (* id pushed in part: rolled back *)
        destruct (Z.ltb_spec (Z.of_nat k) 0) as [C2|_]; [lia|]. inversion H; subst.
        right. split; [reflexivity|]. unfold push_del. cbn [wfin]. symmetry. exact Hq.
      + assert (k = length ID) by lia. subst k. rewrite firstn_all, Hc in H. cbn [app] in H.
        assert (Hl : negb (length ID =? 0) = true) by reflexivity. rewrite Hl in H. cbn [orb] in H.
        destruct msg as [parts|].
        * destruct (append_parts (mkwq (wfin q) ID true) parts 0) as [[ok t] q2] eqn:EA.
          apply append_parts_spec in EA. cbn [wfin wcur] in EA. destruct EA as [Hf Hok].
          destruct ok; cbn [negb] in H.
          -- destruct (Hok eq_refl) as [Hc2 Ht]. unfold msg_length in H.
             destruct (Nat.ltb_spec t (length (concat parts))) as [C2|_]; [lia|].
             destruct (reply_finish term_ok efull q2 true) as [r2 q3] eqn:EF.
             eapply reply_finish_spec in EF; [|exact Hf|exact Hc2|reflexivity].
             inversion H; subst. destruct EF as [[-> [-> ET]]|[Hr ->]].
             ++ left. repeat split. exists q2. cbn [msg_bytes]. auto.
             ++ right. split; [exact Hr|symmetry; exact Hq].
          -- inversion H; subst. right. split; [reflexivity|]. unfold push_del. rewrite Hf. symmetry. exact Hq.
        * destruct (reply_finish term_ok efull (mkwq (wfin q) ID true) true) as [r2 q3] eqn:EF.
          eapply reply_finish_spec in EF; [|reflexivity|reflexivity|reflexivity].
          inversion H; subst. destruct EF as [[-> [-> ET]]|[Hr ->]].
          -- left. cbn [msg_bytes]. rewrite app_nil_r. repeat split.
             eexists. split; [|split; [|exact ET]]; reflexivity.
          -- right. split; [exact Hr|symmetry; exact Hq].
  Qed.

  (* while another message is being composed on the stream the reply is refused and nothing changes *)
  Theorem srm_reply_busy q id msg : wact q = true -> srm_reply q id msg = (EBadArgument, q).
  Proof. intros Ha. unfold SrmModel.srm_reply. rewrite Ha. reflexivity. Qed.

  (* the queue stays idle: replies can follow each other *)
  Corollary srm_reply_idle q id msg r q1 :
    wq_idle q -> id <> [] -> srm_reply q id msg = (r, q1) -> wq_idle q1.
  Proof.
    intros Hi Hid H. destruct (srm_reply_atomic _ _ _ _ _ Hi Hid H) as [[_ [-> _]]|[_ ->]]; [split; reflexivity|exact Hi].
  Qed.
End SrmP.

(* the COBS queue of [cap] bytes: what is accepted fits (frame incl. delimiter behind the frames already queued), and
   the result is 0 or negative, nothing else *)
Theorem srm_reply_cap_sound cap q id msg r q1 :
  wq_idle q -> id <> [] ->
  srm_reply_cap cap q id msg = (r, q1) ->
  (r = 0%Z /\ q1 = mkwq (wfin q ++ [id ++ msg_bytes msg]) [] false /\ s_fits cap (wfin q) (id ++ msg_bytes msg) = true)
  \/ ((r < 0)%Z /\ q1 = q).
Proof.
  intros Hi Hid H. unfold srm_reply_cap in H.
  apply srm_reply_atomic in H; [|reflexivity|exact Hi|exact Hid].
  destruct H as [[-> [-> [q2 [Hf [Hc Ht]]]]]|H]; [left|right; exact H].
  repeat split. unfold cterm_ok in Ht. unfold s_fits. rewrite <- Hf, <- Hc. exact Ht.
Qed.

(* a history of replies on one stream: the queue holds exactly the accepted ones, complete, in order *)
Fixpoint srm_run (cap : nat) (q : wq) (reqs : list (list byte * option (list (list byte)))) : list Z * wq :=
  match reqs with
  | [] => ([], q)
  | (id, msg) :: t =>
    let '(r, q1) := srm_reply_cap cap q id msg in
    let '(rs, q2) := srm_run cap q1 t in (r :: rs, q2)
  end.
Fixpoint accepted (rs : list Z) (reqs : list (list byte * option (list (list byte)))) : list (list byte) :=
  match rs, reqs with
  | r :: rs', (id, msg) :: t => (if (r =? 0)%Z then [id ++ msg_bytes msg] else []) ++ accepted rs' t
  | _, _ => []
  end.
Theorem srm_run_wire cap : forall reqs q rs q1,
  wq_idle q -> Forall (fun x => fst x <> []) reqs ->
  srm_run cap q reqs = (rs, q1) ->
  wq_idle q1 /\ wfin q1 = wfin q ++ accepted rs reqs /\ Forall (fun r => (r <= 0)%Z) rs.
Proof.
  induction reqs as [|[id msg] t IH]; intros q rs q1 Hi Hall H.
  - cbn in H. inversion H; subst. cbn. rewrite app_nil_r. auto.
  - cbn [srm_run] in H. destruct (srm_reply_cap cap q id msg) as [r q0] eqn:E.
    destruct (srm_run cap q0 t) as [rs0 q2] eqn:E2. inversion H; subst. inversion Hall; subst. cbn [fst] in *.
    apply srm_reply_cap_sound in E; [|exact Hi|assumption].
    destruct E as [[-> [-> _]]|[Hr ->]].
    + apply IH in E2; [|split; reflexivity|assumption]. destruct E2 as [Hi2 [Hw Hf]]. cbn [wfin] in Hw.
      split; [exact Hi2|]. split; [|constructor; [lia|exact Hf]].
      cbn [accepted]. rewrite Hw. cbn. rewrite <- app_assoc. reflexivity.
    + apply IH in E2; [|exact Hi|assumption]. destruct E2 as [Hi2 [Hw Hf]].
      split; [exact Hi2|]. split; [|constructor; [lia|exact Hf]].
      cbn [accepted]. destruct (Z.eqb_spec r 0) as [C|_]; [lia|]. exact Hw.
Qed.
