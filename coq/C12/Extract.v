(* Extraction of the executable model and specification of C12 (ExtrOcamlBasic only). *)
From MptV Require Import Base.Mem C12.ReplyModel C12.ReplySpec C12.ConnModel C12.SinModel C12.SrmModel.
Require Import ExtrOcamlBasic.
Extraction "c12_model.ml" id2buf buf2id s_id2buf s_buf2id init sinit run srun mview sview live sin_request
  minit sinit_c mcrun scrun sin_request2 sin_skip sin_conv sin_create_ok reserve_run
  ctx_reply_none sin_request_q s_sin_request_q srm_reply_cap.
