(* C12/ReplyRefine.v — the mechanism refines the per-request specification:
   same results, same transport calls, same open requests, same log, for every history. *)
From MptV Require Import Base.Mem C12.ReplyModel C12.ReplySpec C12.ReplyInv C12.ReplyStep.
Local Open Scope nat_scope.

Definition abs_rd (d : rdata) : sreq := mkq (drq d) (firstn (dlen d) (dval d)).
Definition abs_cur (d : rdata) : option sreq := if dlen d =? 0 then None else Some (abs_rd d).
Definition abs_h (h : option rdata) : option sreq := option_map abs_rd h.

Record simrel (w : world) (s : sworld) : Prop := mksim {
  r_own : s_own s = wown w;
  r_hs : s_hs s = map abs_h (whs w);
  r_log : s_log s = wlog w;
  r_step : s_step s = wstep w;
  r_orc : s_orc s = worc w;
  r_ctx : match wctx w with
          | Some c => s_att s = csend c /\ s_ptr s = cptr c /\ s_max s = dmax (cdata c)
                      /\ s_cur s = abs_cur (cdata c)
          | None => True
          end
}.

Lemma slive_map hs : slive (map abs_h hs) = live hs.
Proof.
  unfold slive, live. induction hs as [|x hs IH]; [reflexivity|].
  cbn [map filter]. destruct x; cbn [abs_h option_map is_some length]; rewrite ?IH; reflexivity.
Qed.

Lemma supd_map hs k v : supd (map abs_h hs) k (abs_h v) = map abs_h (upd_h hs k v).
Proof. unfold supd, upd_h. rewrite firstn_map, skipn_map, map_app. reflexivity. Qed.

Lemma upd_h_same hs k x : nth_error hs k = Some x -> upd_h hs k x = hs.
Proof.
  intros Hk. destruct (nth_error_split _ _ Hk) as (l1 & l2 & -> & <-). apply upd_h_split.
Qed.

Lemma abs_cur_pos d : 0 < dlen d -> abs_cur d = Some (abs_rd d).
Proof. intros H. unfold abs_cur. destruct (Nat.eqb_spec (dlen d) 0); [lia|reflexivity]. Qed.
Lemma abs_cur_zero d : dlen d = 0 -> abs_cur d = None.
Proof. intros H. unfold abs_cur. rewrite H. reflexivity. Qed.

(* one reply attempt: specification against the five outcomes of contextSend *)
Lemma answer_sim s c d p sr :
  send_outcome c d p (s_orc s) sr -> 0 < dlen d -> s_att s = csend c -> s_ptr s = cptr c ->
  s_answer s (abs_rd d) p = (negb (dlen (srd sr) =? 0), sret sr, scalls sr, slogged sr, sorc sr) /\
  (dlen (srd sr) <> 0 -> srd sr = d).
Proof.
  intros Ho Hp Ha Hpt. unfold s_answer. rewrite Ha, Hpt.
  destruct Ho as [Hz0 | _ Hs0 | _ Hs0 Hpt0 | _ Hs0 Hpt0 Hacc | _ Hs0 Hpt0 Hrej];
    cbn [srd sret scalls slogged sorc set_dlen dlen]; try lia.
  - rewrite Hs0. cbn. split; [reflexivity|]. intros Hx; lia.
  - rewrite Hs0, Hpt0. cbn [negb]. destruct (Nat.eqb_spec (dlen d) 0); [lia|]. cbn. auto.
  - rewrite Hs0, Hpt0. cbn [negb abs_rd qid qser].
    destruct (Z.leb_spec 0 (hd 0%Z (s_orc s))); [|lia]. cbn. split; [reflexivity|]. intros Hx; lia.
  - rewrite Hs0, Hpt0. cbn [negb abs_rd qid qser].
    destruct (Z.leb_spec 0 (hd 0%Z (s_orc s))); [lia|].
    destruct (Nat.eqb_spec (dlen d) 0); [lia|]. cbn. auto.
Qed.

(* reply on the context *)
Lemma reply_sim w s c p sr :
  simrel w s -> wctx w = Some c -> send_outcome c (cdata c) p (worc w) sr ->
  exists s', s_reply s p = (s', sret sr, scalls sr) /\
    simrel (w_sent w (Some (set_data c (srd sr))) (whs w) (wown w) sr) s'.
Proof.
  intros [Ro Rh Rl Rs Rorc Rc] Hctx Ho. rewrite Hctx in Rc. destruct Rc as (Ra & Rp & Rm & Rcur).
  unfold s_reply. rewrite Rcur.
  destruct (Nat.eq_dec (dlen (cdata c)) 0) as [Hz|Hz].
  - rewrite (abs_cur_zero _ Hz).
    destruct Ho as [Hz0 | Hp0 | Hp0 | Hp0 | Hp0]; try lia.
    eexists; split; [reflexivity|]. unfold w_sent. cbn. rewrite set_data_same, app_nil_r.
    constructor; cbn; auto.
  - rewrite abs_cur_pos by lia.
    rewrite <- Rorc in Ho. destruct (answer_sim s c (cdata c) p sr Ho ltac:(lia) Ra Rp) as [-> Hsame].
    eexists; split; [reflexivity|].
    constructor; unfold w_sent, s_set; cbn [s_own s_hs s_log s_step s_orc s_att s_ptr s_max s_cur
                                             wown whs wlog wstep worc wctx cdata set_data csend cptr]; auto.
    + rewrite Rl. reflexivity.
    + repeat split; auto.
      * destruct Ho; cbn; auto.
      * destruct (Nat.eqb_spec (dlen (srd sr)) 0) as [Hx|Hx]; cbn [negb].
        -- rewrite (abs_cur_zero _ Hx). reflexivity.
        -- rewrite (Hsame Hx). rewrite abs_cur_pos by lia. reflexivity.
Qed.

Lemma sim_same w s w' :
  simrel w s -> wctx w' = wctx w -> whs w' = whs w -> wown w' = wown w -> wlog w' = wlog w ->
  wstep w' = wstep w -> worc w' = worc w -> simrel w' s.
Proof.
  intros [Ro Rh Rl Rs Rorc Rc] E1 E2 E3 E4 E5 E6.
  constructor; rewrite ?E1, ?E2, ?E3, ?E4, ?E5, ?E6; auto.
Qed.

Lemma holders_sim w s : simrel w s -> holders s = wown w + live (whs w).
Proof. intros [Ro Rh _ _ _ _]. unfold holders. rewrite Ro, Rh, slive_map. reflexivity. Qed.

Lemma step0_sim H w s o :
  simrel w s -> ginv H (wstep w) w -> nth_error H (wstep w) = Some o -> wf_op o = true ->
  snd (sstep0 s o) = snd (step0 w o) /\ simrel (fst (step0 w o)) (fst (sstep0 s o)).
Proof.
  intros Hsim Hinv Hnth Hwf.
  pose proof (holders_sim w s Hsim) as Hhold.
  pose proof Hsim as [Ro Rh Rl Rs Rorc Rc].
  pose proof Hinv as [Gc Gh Gl Gs].
  destruct (Nat.eq_dec (wown w) 0) as [Hown|Hown].
  { (* no reference held: only a deferred reply can do anything *)
    destruct o; cbn [step0 sstep0]; unfold with_ctx; rewrite ?Ro, ?Hown; cbn [Nat.eqb negb];
      try (split; [reflexivity|assumption]).
    (* deferred reply *)
    rewrite Rh, nth_error_map.
    destruct (nth_error (whs w) k) as [[d|]|] eqn:Hk; cbn [option_map abs_h];
      try (split; [reflexivity|assumption]).
    destruct (nth_error_split _ _ Hk) as (l1 & l2 & Hhs & Hlen).
    assert (Hin : In (Some d) (whs w)) by (rewrite Hhs; apply in_or_app; right; left; reflexivity).
    destruct (wctx w) as [c|] eqn:Hctx.
    2:{ exfalso. rewrite Hhs, live_app, live_cons in Gc. cbn in Gc. lia. }
    destruct Rc as (Ra & Rp & Rm & Rcur).
    destruct (ginv_handle_facts _ _ _ _ Hinv Hin) as [Hok Hhd].
    destruct (Gh d Hin) as (_ & Hdp & _).
    destruct (ctx_send_outcome c d p (worc w) Hok Hhd) as (sr & Hs & Ho).
    rewrite Hs. rewrite <- Rorc in Ho.
    destruct (answer_sim s c d p sr Ho Hdp Ra Rp) as [-> Hsame].
    destruct ((sret sr <? 0)%Z && is_some p) eqn:Hb; cbn [fst snd]; (split; [reflexivity|]).
    - assert (Hd : srd sr = d).
      { apply andb_true_iff in Hb. destruct Hb as [Hneg _]. apply Z.ltb_lt in Hneg.
        destruct Ho; cbn [sret srd] in *; auto; lia. }
      rewrite Hd, (upd_h_same _ _ _ Hk).
      constructor; unfold w_sent, s_set; cbn; auto; try (rewrite Rl; reflexivity).
    - constructor; unfold w_sent, s_set; cbn [s_own s_hs s_log s_step s_orc s_att s_ptr s_max s_cur
                                               wown whs wlog wstep worc wctx]; auto.
      + apply (supd_map (whs w) k None).
      + rewrite Rl. reflexivity.
      + destruct (refcount_lower (cref c)) as [r|]; [destruct (r =? 0)%N|]; cbn; auto. }
  (* a reference is held: the context exists *)
  destruct (wctx w) as [c|] eqn:Hctx; [|lia].
  destruct Gc as (Gr & Gr64 & Gpos & Gdet & Gok & Garm).
  destruct Rc as (Ra & Rp & Rm & Rcur).
  assert (Hheld : negb (s_own s =? 0) = true).
  { rewrite Ro. destruct (Nat.eqb_spec (wown w) 0); [lia|reflexivity]. }
  assert (Hwith : forall f, with_ctx w f = match f c with Ok r => r | _ => (w, mkobs RFault []) end).
  { intros f. unfold with_ctx. destruct (wown w); [lia|]. rewrite Hctx. reflexivity. }
  destruct o; cbn [step0 sstep0]; rewrite ?Hheld, ?Hwith.
  - (* conv *)
    destruct (ctx_conv t). cbn. split; [reflexivity|assumption].
  - (* arm *)
    unfold do_arm. change (snd (ctx_conv TypeReplyDataPtr)) with (Some PData).
    unfold reply_set. rewrite Rm.
    destruct (Nat.ltb_spec (dmax (cdata c)) (length bs)) as [Hgt|Hle]; cbn [bind fst snd].
    + split; [reflexivity|]. apply (sim_same w); auto. cbn. rewrite set_data_same. auto.
    + destruct Gok as [Glen Gdl].
      assert (Hfit : 0 + length bs <= length (dval (cdata c))) by lia.
      rewrite (wr_ok _ _ _ Hfit). cbn [bind fst snd firstn app plus].
      split; [reflexivity|].
      constructor; unfold w_ctx, s_set; cbn [s_own s_hs s_log s_step s_orc s_att s_ptr s_max s_cur
                                              wown whs wlog wstep worc wctx cdata set_data csend cptr]; auto.
      repeat split; auto. unfold abs_cur, abs_rd. cbn [dlen dval drq].
      destruct (length bs =? 0); [reflexivity|]. rewrite firstn_exact, Rs. reflexivity.
  - (* armz *)
    unfold do_arm. change (snd (ctx_conv TypeReplyDataPtr)) with (Some PData).
    unfold reply_set. rewrite Rm.
    destruct (Nat.ltb_spec (dmax (cdata c)) (length (repeat 0%N n))) as [Hgt|Hle]; cbn [bind fst snd].
    + split; [reflexivity|]. apply (sim_same w); auto. cbn. rewrite set_data_same. auto.
    + destruct Gok as [Glen Gdl].
      assert (Hfit : 0 + length (repeat 0%N n) <= length (dval (cdata c))) by lia.
      rewrite (wr_ok _ _ _ Hfit). cbn [bind fst snd firstn app plus].
      split; [reflexivity|].
      constructor; unfold w_ctx, s_set; cbn [s_own s_hs s_log s_step s_orc s_att s_ptr s_max s_cur
                                              wown whs wlog wstep worc wctx cdata set_data csend cptr]; auto.
      repeat split; auto. unfold abs_cur, abs_rd. cbn [dlen dval drq].
      destruct (length (repeat 0%N n) =? 0); [reflexivity|]. rewrite firstn_exact, Rs. reflexivity.
  - (* reply *)
    destruct (ginv_ctx_facts _ _ _ _ Hinv Hctx) as [Hok Hhd].
    destruct (ctx_send_outcome c (cdata c) p (worc w) Hok Hhd) as (sr & Hs & Ho).
    destruct (reply_sim w s c p sr Hsim Hctx Ho) as (s' & Hrep & Hsim').
    unfold do_reply. rewrite Hs, Hrep. cbn [bind fst snd]. auto.
  - (* context reply *)
    destruct ((code <? -128)%Z || (127 <? code)%Z); [cbn; split; [reflexivity|assumption]|].
    destruct (ginv_ctx_facts _ _ _ _ Hinv Hctx) as [Hok Hhd].
    destruct (ctx_send_outcome c (cdata c) (Some (ctx_reply_payload code text)) (worc w) Hok Hhd) as (sr & Hs & Ho).
    destruct (reply_sim w s c _ sr Hsim Hctx Ho) as (s' & Hrep & Hsim').
    unfold do_reply. rewrite Hs, Hrep. cbn [bind fst snd]. auto.
  - (* defer *)
    rewrite Rcur.
    destruct (Nat.eqb_spec (dlen (cdata c)) 0) as [Hz|Hz].
    + rewrite (abs_cur_zero _ Hz). cbn. split; [reflexivity|assumption].
    + rewrite abs_cur_pos by lia.
      rewrite raise_spec by lia. rewrite Hhold, <- Gr.
      destruct (N.ltb_spec (cref c + 1) two64); cbn [fst snd]; [|split; [reflexivity|assumption]].
      split; [rewrite Rh, map_length; reflexivity|].
      constructor; unfold s_set; cbn [s_own s_hs s_log s_step s_orc s_att s_ptr s_max s_cur
                                      wown whs wlog wstep worc wctx cdata csend cptr]; auto.
      all: try (rewrite Rh, map_app; reflexivity); try (repeat split; auto).
  - (* deferred reply *)
    rewrite Rh, nth_error_map.
    destruct (nth_error (whs w) k) as [[d|]|] eqn:Hk; cbn [option_map abs_h];
      try (split; [reflexivity|assumption]).
    destruct (nth_error_split _ _ Hk) as (l1 & l2 & Hhs & Hlen).
    assert (Hin : In (Some d) (whs w)) by (rewrite Hhs; apply in_or_app; right; left; reflexivity).
    destruct (ginv_handle_facts _ _ _ _ Hinv Hin) as [Hok Hhd].
    destruct (Gh d Hin) as (_ & Hdp & _).
    destruct (ctx_send_outcome c d p (worc w) Hok Hhd) as (sr & Hs & Ho).
    rewrite Hctx, Hs. rewrite <- Rorc in Ho.
    destruct (answer_sim s c d p sr Ho Hdp Ra Rp) as [-> Hsame].
    destruct ((sret sr <? 0)%Z && is_some p) eqn:Hb; cbn [fst snd]; (split; [reflexivity|]).
    + assert (Hd : srd sr = d).
      { apply andb_true_iff in Hb. destruct Hb as [Hneg _]. apply Z.ltb_lt in Hneg.
        destruct Ho; cbn [sret srd] in *; auto; lia. }
      rewrite Hd, (upd_h_same _ _ _ Hk).
      constructor; unfold w_sent, s_set; cbn; auto; try (rewrite Rl; reflexivity).
    + constructor; unfold w_sent, s_set; cbn [s_own s_hs s_log s_step s_orc s_att s_ptr s_max s_cur
                                               wown whs wlog wstep worc wctx]; auto.
      * apply (supd_map (whs w) k None).
      * rewrite Rl. reflexivity.
      * destruct (refcount_lower (cref c)) as [r|]; [destruct (r =? 0)%N|]; cbn; auto.
  - (* addref *)
    rewrite raise_spec by lia. rewrite Hhold, <- Gr.
    destruct (N.ltb_spec (cref c + 1) two64); cbn [fst snd]; [|split; [reflexivity|assumption]].
    split; [reflexivity|].
    constructor; unfold s_set; cbn [s_own s_hs s_log s_step s_orc s_att s_ptr s_max s_cur
                                    wown whs wlog wstep worc wctx cdata set_ref csend cptr]; auto.
    all: try (rewrite Ro; reflexivity).
  - (* unref *)
    rewrite lower_spec by lia. rewrite Hhold, Rcur.
    destruct (N.eqb_spec (cref c - 1) 0) as [Hz|Hz].
    + assert (Hone : wown w + live (whs w) = 1) by lia.
      rewrite Hone. cbn [Nat.eqb].
      destruct (Nat.eqb_spec (dlen (cdata c)) 0) as [Hd|Hd].
      * rewrite (abs_cur_zero _ Hd), andb_false_r. cbn [negb fst snd]. split; [reflexivity|].
        constructor; unfold s_set; cbn; auto. lia.
      * rewrite abs_cur_pos by lia. rewrite Ra. cbn [negb]. rewrite andb_true_r.
        destruct (csend c) eqn:Hsend; cbn [fst snd].
        2:{ split; [reflexivity|]. constructor; unfold s_set; cbn; auto. lia. }
        destruct (ginv_ctx_facts _ _ _ _ Hinv Hctx) as [Hok Hhd].
        destruct (ctx_send_outcome c (cdata c) None (worc w) Hok Hhd) as (sr & Hs & Ho).
        rewrite Hs. cbn [bind]. rewrite <- Rorc in Ho.
        destruct (answer_sim s c (cdata c) None sr Ho ltac:(lia) ltac:(congruence) Rp) as [-> _].
        cbn [fst snd]. split; [reflexivity|].
        constructor; unfold w_sent, s_set; cbn; auto; try lia. rewrite Rl. reflexivity.
    + assert (Hne : wown w + live (whs w) <> 1) by lia.
      destruct (Nat.eqb_spec (wown w + live (whs w)) 1); [lia|]. cbn [fst snd]. split; [reflexivity|].
      constructor; unfold s_set; cbn [s_own s_hs s_log s_step s_orc s_att s_ptr s_max s_cur
                                      wown whs wlog wstep worc wctx cdata set_ref set_send csend cptr]; auto.
      all: try (rewrite Ro; reflexivity).
Qed.

Lemma sim_bump w s : simrel w s -> simrel (bump w) (sbump s).
Proof.
  intros [Ro Rh Rl Rs Rorc Rc]. constructor; cbn; auto.
Qed.

Lemma view_sim H n w s : simrel w s -> ginv H n w -> mview w = sview s.
Proof.
  intros [Ro Rh Rl Rs Rorc Rc] [Gc Gh _ _]. unfold mview, sview. rewrite Ro, Rl. f_equal.
  - destruct (Nat.eqb_spec (wown w) 0) as [|Hn]; [reflexivity|]. f_equal.
    destruct (wctx w) as [c|]; [|lia]. destruct Rc as (_ & _ & _ & ->).
    unfold abs_cur, armed_id. destruct (dlen (cdata c) =? 0); reflexivity.
  - rewrite Rh, map_map. apply map_ext. intros [d|]; reflexivity.
Qed.

Lemma init_sim max send ptr orc : simrel (init max send ptr orc) (sinit max send ptr orc).
Proof.
  unfold init, sinit. destruct (65535 <? N.of_nat max)%N; constructor; cbn; auto.
Qed.

Lemma run_refines ops : forall pre w s,
  simrel w s -> ginv (pre ++ ops) (wstep w) w -> wstep w = length pre -> all_wf ops ->
  mrun w ops = srun s ops.
Proof.
  induction ops as [|o ops IH]; intros pre w s Hsim Hinv Hst Hwf; [reflexivity|].
  inversion Hwf as [|? ? Ho Hwf']; subst.
  assert (Hnth : nth_error (pre ++ o :: ops) (wstep w) = Some o).
  { rewrite Hst, nth_error_app2, Nat.sub_diag by lia. reflexivity. }
  destruct (step_good _ w o Hinv Hnth Ho) as (Hg & Hs' & _).
  destruct (step0_sim _ w s o Hsim Hinv Hnth Ho) as (Hob & Hsim').
  unfold mrun in *. cbn [run srun map]. unfold step, sstep in *.
  destruct (step0 w o) as [w' ob]. destruct (sstep0 s o) as [s' ob']. cbn [fst snd] in *. subst ob'.
  apply sim_bump in Hsim'.
  replace (pre ++ o :: ops) with ((pre ++ [o]) ++ ops) in * by (rewrite <- app_assoc; reflexivity).
  cbn [map fst snd]. f_equal.
  - f_equal. eapply view_sim; eauto.
  - apply (IH (pre ++ [o])); auto. rewrite Hs', Hst, app_length. cbn. lia.
Qed.

Lemma history_refines_spec max send ptr orc ops :
  all_wf ops ->
  mrun (init max send ptr orc) ops = srun (sinit max send ptr orc) ops.
Proof.
  intros Hwf. apply (run_refines ops []); auto.
  - apply init_sim.
  - rewrite init_step. apply init_inv.
  - apply init_step.
Qed.
