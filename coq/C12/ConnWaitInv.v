(* C12/ConnWaitInv.v — the ids of the requests a connection waits for are pairwise distinct, after every
   connection history (so "the handler registered under the id" is unique). *)
From MptV Require Import Base.Mem C12.ReplyModel C12.ReplySpec C12.ConnModel C12.ConnWait C12.ConnReserve.
Local Open Scope nat_scope.

Definition winv (c : conn) : Prop := NoDup (act_ids (ctab c)) /\ (ctbuf c = false -> ctab c = []).
Definition ckeep (c c' : conn) : Prop := winv c -> winv c'.

Lemma ckeep_refl c : ckeep c c.
Proof. intros H; exact H. Qed.
Lemma ckeep_trans a b c : ckeep a b -> ckeep b c -> ckeep a c.
Proof. intros A B H. apply B, A, H. Qed.

Lemma keep_same c c' : ctab c' = ctab c -> ctbuf c' = ctbuf c -> ckeep c c'.
Proof. intros E1 E2 [A B]. split; rewrite ?E1, ?E2; assumption. Qed.

Lemma keep_release c k v tg : tfind (ctab c) v = Some (k, tg) -> ckeep c (set_tab c (trelease (ctab c) k)).
Proof.
  intros Hf [A B]. split; cbn [set_tab ctab ctbuf].
  - apply (answered_once _ _ _ _ A Hf).
  - intros Hb. rewrite (B Hb) in Hf. discriminate.
Qed.

Lemma keep_active c : ckeep c (set_tab c (tactive (ctab c))).
Proof.
  intros [A B]. split; cbn [set_tab ctab ctbuf].
  - rewrite act_ids_active. exact A.
  - intros Hb. rewrite (B Hb). reflexivity.
Qed.

Lemma keep_set_in c a b d : ckeep c (set_in c a b d). Proof. apply keep_same; reflexivity. Qed.
Lemma keep_set_out c a b d : ckeep c (set_out c a b d). Proof. apply keep_same; reflexivity. Qed.
Lemma keep_set_ntag c n : ckeep c (set_ntag c n). Proof. apply keep_same; reflexivity. Qed.
Lemma keep_set_req c n id : ckeep c (set_req c n id). Proof. apply keep_same; reflexivity. Qed.

Lemma keep_answer c m e1 e2 : ckeep c (fst (fst (dispatch_answer c m e1 e2))).
Proof.
  unfold dispatch_answer. destruct (buf2id _) as [[v u]| |]; try apply ckeep_refl.
  destruct (tfind _ v) as [[k tg]|] eqn:Hf; [eapply keep_release; eauto|apply ckeep_refl].
Qed.

Lemma keep_await c tag : ckeep c (fst (do_await c tag)).
Proof.
  unfold do_await. destruct (cgone c); [apply ckeep_refl|]. destruct (_ || _); [apply ckeep_refl|].
  destruct (reserve _ _ _ _) as [[[tab k] id]|] eqn:Hr; [|apply ckeep_refl].
  intros [A B]. split; cbn [ctab ctbuf fst]; [|discriminate].
  eapply reserve_nodup; eauto.
Qed.

Lemma keep_push c pay : ckeep c (fst (fst (do_push c pay))).
Proof.
  unfold do_push. destruct (cgone c); [apply ckeep_refl|]. destruct (push_blocked c); [apply ckeep_refl|]. destruct (_ && _); [|apply keep_set_out].
  destruct (id2buf _ _) as [[bs u]| |]; [apply keep_set_out|apply ckeep_refl|apply ckeep_refl].
Qed.

Lemma keep_finish c : ckeep c (fst (fst (fst (do_finish c)))).
Proof.
  unfold do_finish. destruct (cgone c); [apply ckeep_refl|]. destruct (push_blocked c); [apply ckeep_refl|]. destruct (_ && _); [|apply keep_same; reflexivity].
  destruct (id2buf _ _) as [[bs u]| |]; apply keep_same; reflexivity.
Qed.

Lemma keep_sync_end c count wc : ckeep c (fst (fst (sync_end c count wc))).
Proof. unfold sync_end. destruct (_ <? _); [apply ckeep_refl|apply keep_active]. Qed.

Lemma keep_sync_loop fuel : forall c count wc, ckeep c (fst (fst (sync_loop fuel c count wc))).
Proof.
  induction fuel as [|fuel IH]; intros c count wc; [apply ckeep_refl|]. cbn [sync_loop].
  destruct (count =? 0); [apply keep_sync_end|].
  set (oc := if ccur c then Some c else if is_nil (csock c) then None else Some (set_in c [] (cload c ++ csock c) true)).
  assert (Hoc : match oc with Some c1 => ckeep c c1 | None => True end).
  { unfold oc. destruct (ccur c); [apply ckeep_refl|]. destruct (is_nil _); [exact I|apply keep_set_in]. }
  destruct oc as [c1|]; [|apply ckeep_refl].
  destruct (cload c1) as [|m rest]; [exact Hoc|].
  destruct (_ || _); [exact Hoc|].
  destruct (buf2id _) as [[v u]| |]; try exact Hoc.
  destruct (tfind (ctab c1) v) as [[k tg]|] eqn:Hf.
  - cbv zeta. destruct (_ <? _)%Z; (eapply ckeep_trans; [|first [apply keep_sync_end|apply IH]]);
      (eapply ckeep_trans; [exact Hoc|]; eapply ckeep_trans; [apply keep_set_in|]; eapply keep_release; exact Hf).
  - destruct (tfind (ctab c1) 0%N) as [[k tg]|].
    + cbv zeta. destruct (_ <? _)%Z; (eapply ckeep_trans; [|first [apply keep_sync_end|apply IH]]);
        (eapply ckeep_trans; [exact Hoc|apply keep_set_in]).
    + eapply ckeep_trans; [|apply IH]. eapply ckeep_trans; [exact Hoc|apply keep_set_in].
Qed.

Lemma keep_dsync_loop fuel : forall c wc, ckeep c (fst (fst (dsync_loop fuel c wc))).
Proof.
  induction fuel as [|fuel IH]; intros c wc; [apply ckeep_refl|]. cbn [dsync_loop].
  set (oc := if ccur c then Some (Some c) else match csock c with
             | [] => None
             | m :: rest => if cact c then Some None else if length m <? cidl c then Some None
                            else Some (Some (set_in c rest [m] true)) end).
  assert (Hoc : match oc with Some (Some c1) => ckeep c c1 | _ => True end).
  { unfold oc. destruct (ccur c); [apply ckeep_refl|]. destruct (csock c) as [|m rest]; [exact I|].
    destruct (cact c); [exact I|]. destruct (_ <? _); [exact I|apply keep_set_in]. }
  destruct oc as [[c1|]|]; [| |apply ckeep_refl].
  - destruct (cload c1) as [|m rest]; [exact Hoc|].
    destruct (negb _); [exact Hoc|].
    destruct (buf2id _) as [[v u]| |]; try (eapply ckeep_trans; [exact Hoc|apply keep_set_in]).
    destruct (tfind _ v) as [[k tg]|] eqn:Hf; [|eapply ckeep_trans; [exact Hoc|apply keep_set_in]].
    cbv zeta. destruct (_ <? _)%Z.
    + cbn [fst]. eapply ckeep_trans; [exact Hoc|]. eapply ckeep_trans; [apply keep_set_in|]. eapply keep_release. exact Hf.
    + eapply ckeep_trans; [|apply IH]. eapply ckeep_trans; [exact Hoc|].
      eapply ckeep_trans; [apply keep_set_in|]. eapply keep_release. exact Hf.
  - cbn [fst]. destruct (cact c); [apply ckeep_refl|apply keep_set_in].
Qed.

Lemma keep_sync c : ckeep c (fst (fst (do_sync c))).
Proof.
  unfold do_sync. destruct (cidl c =? 0); [apply ckeep_refl|]. destruct (cgone c); [apply ckeep_refl|].
  destruct (cdg c); [apply keep_dsync_loop|].
  destruct (is_nil _); [apply ckeep_refl|apply keep_sync_loop].
Qed.

Lemma keep_dg_next c : ckeep c (fst (dg_next c)).
Proof.
  unfold dg_next. destruct (is_nil _); [apply ckeep_refl|]. destruct (ccur c); [apply ckeep_refl|].
  destruct (cact c); [apply ckeep_refl|]. destruct (csock c) as [|m rest]; [apply ckeep_refl|].
  destruct (_ <? _); apply keep_set_in.
Qed.

Lemma keep_close c : ckeep c (fst (close_conn c)).
Proof. intros [A B]. split; cbn; [constructor|reflexivity]. Qed.

Lemma keep_apf c tag bump pay : ckeep c (fst (await_push_finish c tag bump pay)).
Proof.
  unfold await_push_finish.
  pose proof (keep_await c tag) as H1. destruct (do_await c tag) as [c1 ra]. cbn [fst] in H1.
  set (c1' := if bump then set_ntag c1 (S (cntag c1)) else c1).
  assert (H2 : ckeep c c1') by (unfold c1'; destruct bump; [eapply ckeep_trans; [exact H1|apply keep_set_ntag]|exact H1]).
  destruct (is_nil pay).
  - pose proof (keep_finish c1') as H3. destruct (do_finish c1') as [[[c3 p2] ws] f]. cbn [fst snd] in *.
    eapply ckeep_trans; eauto.
  - pose proof (keep_push c1' pay) as H3. destruct (do_push c1' pay) as [[c2 p1] f1]. cbn [fst] in H3.
    pose proof (keep_finish c2) as H4. destruct (do_finish c2) as [[[c3 p2] ws] f]. cbn [fst snd] in *.
    eapply ckeep_trans; [exact H2|]. eapply ckeep_trans; eauto.
Qed.

Lemma keep_cleared c c' : ctab c' = [] -> ckeep c c'.
Proof. intros E _. split; rewrite E; [constructor|reflexivity]. Qed.

Section WKeep.
  Variable RW : Type.
  Variable rstep : RW -> list Z -> op -> RW * obs.
  Variable rarmed : RW -> bool.
  Variable rserial : RW -> nat.

  Lemma request_conn r c m h :
    let '(_, c', _, _, _, _, _) := dispatch_request RW rstep rarmed rserial r c m h in
    c' = c \/ c' = set_req c (rserial r) (firstn (cidl c) m).
  Proof.
    unfold dispatch_request. destruct (all_zero _).
    { destruct h as [[acts code]|]; auto. }
    destruct (prim _ _ _ _ _ _) as [r1 oba].
    destruct (oret oba); auto.
    destruct (_ <? _)%Z; auto.
    destruct h as [[acts code]|].
    - destruct (run_acts _ _ _ _ _) as [[[r2 rs] ws] f]. destruct (rarmed r2); auto.
      destruct (prim _ _ _ _ _ _); auto.
    - destruct (prim _ _ _ _ _ _); auto.
  Qed.

  Lemma keep_request r c m h :
    let '(_, c', _, _, _, _, _) := dispatch_request RW rstep rarmed rserial r c m h in ckeep c c'.
  Proof.
    pose proof (request_conn r c m h) as H.
    destruct (dispatch_request _ _ _ _ _ _ _ _) as [[[[[[r' c'] z] seen] rs] ws] f].
    destruct H as [-> | ->]; [apply ckeep_refl|apply keep_set_req].
  Qed.

  Lemma keep_msg r c m h e1 e2 e3 :
    let '(_, c', _, _, _, _, _, _) := dispatch_msg RW rstep rarmed rserial r c m h e1 e2 e3 in ckeep c c'.
  Proof.
    unfold dispatch_msg. destruct (cidl c =? 0).
    { destruct h as [[acts code]|]; apply ckeep_refl. }
    destruct (_ <? _); [apply ckeep_refl|].
    destruct (_ <=? _)%N.
    - pose proof (keep_answer c m e2 e3) as H. destruct (dispatch_answer c m e2 e3) as [[c1 z] wc]. exact H.
    - pose proof (keep_request r c m h) as H.
      destruct (dispatch_request _ _ _ _ _ _ _ _) as [[[[[[r' c'] z] seen] rs] ws] f]. exact H.
  Qed.

  Lemma keep_dispatch r c h :
    let '(_, c', _) := do_dispatch RW rstep rarmed rserial r c h in ckeep c c'.
  Proof.
    unfold do_dispatch. destruct (cgone c); [apply ckeep_refl|]. destruct (cdg c).
    - pose proof (keep_dg_next c) as H1. destruct (dg_next c) as [c1 nx]. cbn [fst] in H1.
      destruct (cact c1); [exact H1|]. destruct (ccur c1); [|exact H1].
      destruct (cload c1) as [|m rest]; [exact H1|].
      pose proof (keep_msg r (set_in c1 (csock c1) [] false) m h 0%Z EBadValue EMissingBuffer) as H2.
      destruct (dispatch_msg _ _ _ _ _ _ _ _ _ _ _) as [[[[[[[r3 c3] z] seen] rs] wc] ws] f].
      eapply ckeep_trans; [exact H1|]. eapply ckeep_trans; [apply keep_set_in|exact H2].
    - set (c1 := set_in c [] (cload c ++ csock c) (ccur c)).
      assert (H1 : ckeep c c1) by apply keep_set_in.
      destruct (cact c1); [exact H1|].
      destruct (cload c1) as [|m rest]; [exact H1|].
      pose proof (keep_msg r c1 m h EBadValue EBadValue EBadValue) as H2.
      destruct (dispatch_msg _ _ _ _ _ _ _ _ _ _ _) as [[[[[[[r3 c3] z] seen] rs] wc] ws] f].
      eapply ckeep_trans; [exact H1|]. eapply ckeep_trans; [exact H2|apply keep_set_in].
  Qed.

  Lemma keep_cstep r c o : ckeep c (snd (fst (cstep RW rstep rarmed rserial (r, c) o))).
  Proof.
    unfold cstep. destruct o as [m|acts code| |k p|pay|pay| | | |pay| | | |msg|rk rh|t|color].
    - apply keep_set_in.
    - destruct (cclosed c); [apply ckeep_refl|].
      pose proof (keep_dispatch r c (Some (acts, code))) as H.
      destruct (do_dispatch _ _ _ _ _ _ _) as [[r1 c1] res]. exact H.
    - destruct (cclosed c); [apply ckeep_refl|].
      pose proof (keep_dispatch r c None) as H.
      destruct (do_dispatch _ _ _ _ _ _ _) as [[r1 c1] res]. exact H.
    - destruct (prim _ _ _ _ _ _). apply ckeep_refl.
    - destruct (cclosed c); [apply ckeep_refl|].
      pose proof (keep_apf c (S (cntag c)) true pay) as H. destruct (await_push_finish _ _ _ _) as [c3 res]. exact H.
    - destruct (cclosed c); [apply ckeep_refl|].
      pose proof (keep_await c (S (cntag c))) as H1. destruct (do_await c _) as [c1 ra]. cbn [fst] in H1.
      pose proof (keep_push (set_ntag c1 (S (cntag c1))) pay) as H3.
      destruct (do_push _ pay) as [[c2 p1] f1]. cbn [fst snd] in *.
      eapply ckeep_trans; [exact H1|]. eapply ckeep_trans; [apply keep_set_ntag|exact H3].
    - destruct (cclosed c); [apply ckeep_refl|].
      pose proof (keep_finish c) as H. destruct (do_finish c) as [[[c3 p2] ws] f]. exact H.
    - destruct (cclosed c); [apply ckeep_refl|].
      pose proof (keep_sync c) as H. destruct (do_sync c) as [[c1 z] wc]. exact H.
    - destruct (cclosed c); [apply ckeep_refl|].
      destruct (0 <? crefs c); [apply keep_same; reflexivity|].
      pose proof (keep_close c) as H. destruct (close_conn c) as [c0 wc]. cbn [fst] in H.
      destruct (chas c); [|exact H]. destruct (prim _ _ _ _ _ _). exact H.
    - destruct (cclosed c); [apply ckeep_refl|].
      pose proof (keep_apf c 0 false pay) as H. destruct (await_push_finish _ _ _ _) as [c3 res]. exact H.
    - destruct (cclosed c); [apply ckeep_refl|]. apply keep_same; reflexivity.
    - destruct (cclosed c); apply ckeep_refl.
    - destruct (cclosed c); [apply ckeep_refl|]. cbn [fst snd]. destruct (_ && _); [apply keep_same; reflexivity|apply ckeep_refl].
    - destruct (cclosed c); [apply ckeep_refl|].
      pose proof (keep_push c msg) as H1. destruct (do_push c msg) as [[c1 p1] f1]. cbn [fst] in H1.
      destruct (p1 <? 0)%Z; [exact H1|].
      pose proof (keep_finish c1) as H2. destruct (do_finish c1) as [[[c2 p2] ws] f]. cbn [fst snd] in *.
      eapply ckeep_trans; eauto.
    - destruct (cclosed c); [apply ckeep_refl|].
      destruct (cact c && negb (is_assign_null rk rh)); [apply ckeep_refl|].
      destruct (is_reopen c rk rh).
      + destruct rh; cbn [fst snd]; first [apply keep_cleared; reflexivity|apply keep_set_in].
      + destruct (chas c); [destruct (prim _ _ _ _ _ _)|]; apply keep_cleared; reflexivity.
    - destruct (cclosed c); apply ckeep_refl.
    - destruct (cclosed c); apply ckeep_refl.
  Qed.

  Lemma keep_cexec ops : forall r c, ckeep c (snd (cexec RW rstep rarmed rserial (r, c) ops)).
  Proof.
    induction ops as [|o ops IH]; intros r c; [apply ckeep_refl|]. cbn [cexec].
    pose proof (keep_cstep r c o) as H.
    destruct (cstep _ _ _ _ (r, c) o) as [[r1 c1] res]. cbn [fst snd] in *.
    eapply ckeep_trans; [exact H|apply IH].
  Qed.
End WKeep.

Lemma winv_init dg idl : winv (conn_init dg idl).
Proof. split; [constructor|reflexivity]. Qed.
