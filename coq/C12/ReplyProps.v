(* C12/ReplyProps.v — the property-level consequences of the invariant. *)
From MptV Require Import Base.Mem C12.ReplyModel C12.ReplySpec C12.ReplyInv C12.ReplyStep.
Local Open Scope nat_scope.

(* worlds the library can be in: any well-formed history from any freshly created context *)
Definition reachable (w : world) : Prop :=
  exists max send ptr orc ops, all_wf ops /\ w = exec (init max send ptr orc) ops.

Definition sound (w : world) : Prop := exists H, ginv H (wstep w) w.

Lemma exec_app ops1 : forall w ops2, exec w (ops1 ++ ops2) = exec (exec w ops1) ops2.
Proof. induction ops1 as [|o ops1 IH]; intros w ops2; [reflexivity|]. cbn [app exec]. apply IH. Qed.

Lemma reachable_sound w : reachable w -> sound w.
Proof.
  intros (max & send & ptr & orc & ops & Hwf & ->). exists ops.
  apply (reach_inv max send ptr orc ops Hwf).
Qed.

Lemma reachable_exec w ops : reachable w -> all_wf ops -> reachable (exec w ops).
Proof.
  intros (max & send & ptr & orc & ops0 & Hwf & ->) Hw.
  exists max, send, ptr, orc, (ops0 ++ ops). split; [apply Forall_app; auto|].
  rewrite exec_app. reflexivity.
Qed.

Lemma reachable_step w o : reachable w -> wf_op o = true -> reachable (fst (step w o)).
Proof. intros Hr Ho. apply (reachable_exec w [o]); auto. repeat constructor; auto. Qed.

Lemma reachable_init max send ptr orc : reachable (init max send ptr orc).
Proof. exists max, send, ptr, orc, []. split; [constructor|reflexivity]. Qed.

(* ---------- at most one accepted reply per armed request; it carries that request's id ---------- *)
Lemma at_most_one_reply max send ptr orc ops :
  all_wf ops -> NoDup (map erq (wlog (exec (init max send ptr orc) ops))).
Proof.
  intros Hwf. destruct (reach_inv max send ptr orc ops Hwf) as [[_ _ _ Hs] _].
  apply nodup_cnt. intros i. destruct (Hs i) as [A _].
  unfold all_ser in A. rewrite !cnt_app in A. lia.
Qed.

Lemma reply_carries_id max send ptr orc ops e :
  all_wf ops -> In e (wlog (exec (init max send ptr orc) ops)) ->
  exists bs, arm_at ops (erq e) = Some bs /\ bs <> [] /\ eid e = mark bs.
Proof.
  intros Hwf Hin. destruct (reach_inv max send ptr orc ops Hwf) as [[_ _ Hl _] _].
  apply (Hl e Hin).
Qed.

(* ---------- the ghost log is exactly the sequence of accepted transport calls ---------- *)
Definition accepted_calls (cs : list call) : list (list byte * option (list byte)) :=
  map (fun c => (kid c, kpay c)) (filter (fun c => (0 <=? kres c)%Z) cs).
Definition log_view (l : list entry) : list (list byte * option (list byte)) :=
  map (fun e => (eid e, epay e)) l.

Lemma ctx_send_log c d p orc s :
  ctx_send c d p orc = Ok s -> log_view (slogged s) = accepted_calls (scalls s).
Proof.
  unfold ctx_send. destruct (dlen d =? 0); [intros E; inversion E; reflexivity|].
  destruct (csend c); cbn [negb]; [|intros E; inversion E; reflexivity].
  destruct (cptr c); cbn [negb]; [|intros E; inversion E; reflexivity].
  destruct (val0 (dval d) _) as [v1| |]; cbn [bind]; try discriminate.
  destruct (rd v1 0 (dlen d)) as [seen| |]; cbn [bind]; try discriminate.
  destruct (Z.leb_spec 0 (hd 0%Z orc)) as [Hr|Hr].
  - intros E; inversion E. unfold accepted_calls. cbn [scalls slogged filter kres].
    destruct (Z.leb_spec 0 (hd 0%Z orc)); [reflexivity|lia].
  - destruct (val0 v1 _) as [v2| |]; cbn [bind]; try discriminate.
    intros E; inversion E. unfold accepted_calls. cbn [scalls slogged filter kres].
    destruct (Z.leb_spec 0 (hd 0%Z orc)); [lia|reflexivity].
Qed.

Lemma step_log_calls w o :
  exists lg, wlog (fst (step w o)) = wlog w ++ lg /\
             log_view lg = accepted_calls (ocalls (snd (step w o))).
Proof.
  assert (Hnil : exists lg, wlog w = wlog w ++ lg /\ log_view lg = accepted_calls [])
    by (exists []; rewrite app_nil_r; auto).
  unfold step. destruct (step0 w o) as [w' ob] eqn:Hs. cbn [fst snd bump wlog].
  revert Hs. destruct o; cbn [step0]; unfold with_ctx.
  - destruct (wown w); [intros E; inversion E; subst; exact Hnil|].
    destruct (wctx w); [|intros E; inversion E; subst; exact Hnil].
    destruct (ctx_conv t). intros E; inversion E; subst; exact Hnil.
  - destruct (wown w); [intros E; inversion E; subst; exact Hnil|].
    destruct (wctx w) as [c|]; [|intros E; inversion E; subst; exact Hnil].
    unfold do_arm. destruct (snd (ctx_conv TypeReplyDataPtr)) as [[]|]; try (intros E; inversion E; subst; exact Hnil).
    destruct (reply_set _ _ _) as [[r d]| |]; cbn [bind]; intros E; inversion E; subst; exact Hnil.
  - destruct (wown w); [intros E; inversion E; subst; exact Hnil|].
    destruct (wctx w) as [c|]; [|intros E; inversion E; subst; exact Hnil].
    unfold do_arm. destruct (snd (ctx_conv TypeReplyDataPtr)) as [[]|]; try (intros E; inversion E; subst; exact Hnil).
    destruct (reply_set _ _ _) as [[r d]| |]; cbn [bind]; intros E; inversion E; subst; exact Hnil.
  - destruct (wown w); [intros E; inversion E; subst; exact Hnil|].
    destruct (wctx w) as [c|]; [|intros E; inversion E; subst; exact Hnil].
    unfold do_reply. destruct (ctx_send _ _ _ _) as [s| |] eqn:Hsend; cbn [bind];
      try (intros E; inversion E; subst; exact Hnil).
    intros E; inversion E; subst. cbn [wlog w_sent ocalls]. eexists; split; [reflexivity|].
    eapply ctx_send_log; eauto.
  - destruct (wown w); [intros E; inversion E; subst; exact Hnil|].
    destruct (wctx w) as [c|]; [|intros E; inversion E; subst; exact Hnil].
    destruct (_ || _); [intros E; inversion E; subst; exact Hnil|].
    unfold do_reply. destruct (ctx_send _ _ _ _) as [s| |] eqn:Hsend; cbn [bind];
      try (intros E; inversion E; subst; exact Hnil).
    intros E; inversion E; subst. cbn [wlog w_sent ocalls]. eexists; split; [reflexivity|].
    eapply ctx_send_log; eauto.
  - destruct (wown w); [intros E; inversion E; subst; exact Hnil|].
    destruct (wctx w) as [c|]; [|intros E; inversion E; subst; exact Hnil].
    destruct (dlen (cdata c) =? 0); [intros E; inversion E; subst; exact Hnil|].
    destruct (refcount_raise _); intros E; inversion E; subst; exact Hnil.
  - destruct (nth_error (whs w) k) as [[d|]|]; try (intros E; inversion E; subst; exact Hnil).
    destruct (wctx w) as [c|]; [|intros E; inversion E; subst; exact Hnil].
    destruct (ctx_send _ _ _ _) as [s| |] eqn:Hsend; try (intros E; inversion E; subst; exact Hnil).
    destruct (_ && _); intros E; inversion E; subst; cbn [wlog w_sent ocalls];
      (eexists; split; [reflexivity|]; eapply ctx_send_log; eauto).
  - destruct (wown w); [intros E; inversion E; subst; exact Hnil|].
    destruct (wctx w) as [c|]; [|intros E; inversion E; subst; exact Hnil].
    destruct (refcount_raise _); intros E; inversion E; subst; exact Hnil.
  - destruct (wown w); [intros E; inversion E; subst; exact Hnil|].
    destruct (wctx w) as [c|]; [|intros E; inversion E; subst; exact Hnil].
    destruct (refcount_lower _) as [r|]; [|intros E; inversion E; subst; exact Hnil].
    destruct (r =? 0)%N; [|intros E; inversion E; subst; exact Hnil].
    destruct (_ && _); [|intros E; inversion E; subst; exact Hnil].
    destruct (ctx_send _ _ _ _) as [s| |] eqn:Hsend; cbn [bind];
      try (intros E; inversion E; subst; exact Hnil).
    intros E; inversion E; subst. cbn [wlog w_sent ocalls]. eexists; split; [reflexivity|].
    eapply ctx_send_log; eauto.
Qed.

Lemma log_is_accepted_calls ops : forall w,
  log_view (wlog (exec w ops)) =
  log_view (wlog w) ++ accepted_calls (concat (map (fun r => ocalls (fst r)) (run w ops))).
Proof.
  induction ops as [|o ops IH]; intros w.
  - cbn. rewrite app_nil_r. reflexivity.
  - cbn [exec run]. destruct (step_log_calls w o) as (lg & Hl & Hv).
    destruct (step w o) as [w' ob]. cbn [fst snd] in *.
    rewrite IH, Hl. cbn [map concat fst].
    unfold log_view, accepted_calls in *. rewrite map_app, filter_app, map_app, <- Hv, app_assoc. reflexivity.
Qed.

(* ---------- a closed request stays closed until the next arm ---------- *)
Definition ctx_closed (w : world) : Prop :=
  match wctx w with Some c => dlen (cdata c) = 0 | None => True end.
Definition is_arm (o : op) : bool := match o with OArm _ | OArmZ _ => true | _ => false end.

Lemma ctx_send_closed c d p orc s : dlen d = 0 -> ctx_send c d p orc = Ok s -> srd s = d /\ scalls s = [] /\ sret s = EBadArgument.
Proof. intros Hd. unfold ctx_send. rewrite Hd. cbn. intros E; inversion E. auto. Qed.

Ltac same :=
  intros E; inversion E; subst; cbn [wctx w_sent];
  match goal with
  | Hs : wctx ?w = Some ?c -> _, Hc : wctx ?w = Some ?c |- _ => exact (Hs Hc)
  end.

Lemma closed_step w o : is_arm o = false -> ctx_closed w -> ctx_closed (fst (step w o)).
Proof.
  intros Ha Hc. unfold step. destruct (step0 w o) as [w' ob] eqn:Hs. cbn [fst].
  unfold ctx_closed. cbn [bump wctx].
  assert (Hsame : wctx w' = wctx w -> match wctx w' with Some c => dlen (cdata c) = 0 | None => True end)
    by (intros ->; exact Hc).
  destruct (wctx w) as [c|] eqn:Hctx.
  2:{ (* no context: nothing changes it *)
      apply Hsame. clear Hsame. revert Hs. destruct o; cbn [step0]; unfold with_ctx; rewrite ?Hctx;
        repeat (first [ progress cbv iota
                      | match goal with |- context [match ?x with _ => _ end] => destruct x end ]);
        intros E; inversion E; subst; auto. }
  unfold ctx_closed in Hc. rewrite Hctx in Hc.
  revert Hs. destruct o; try discriminate; cbn [step0]; unfold with_ctx; rewrite ?Hctx.
  - destruct (wown w); [same|].
    destruct (ctx_conv t). same.
  - destruct (wown w); [same|].
    unfold do_reply. destruct (ctx_send _ _ _ _) as [s| |] eqn:Hsend; cbn [bind]; try same.
    destruct (ctx_send_closed _ _ _ _ _ Hc Hsend) as (E1 & _).
    intros E; inversion E; subst. cbn [wctx w_sent cdata set_data]. rewrite E1. assumption.
  - destruct (wown w); [same|].
    destruct (_ || _); [same|].
    unfold do_reply. destruct (ctx_send _ _ _ _) as [s| |] eqn:Hsend; cbn [bind]; try same.
    destruct (ctx_send_closed _ _ _ _ _ Hc Hsend) as (E1 & _).
    intros E; inversion E; subst. cbn [wctx w_sent cdata set_data]. rewrite E1. assumption.
  - destruct (wown w); [same|].
    rewrite Hc. cbn. same.
  - destruct (nth_error (whs w) k) as [[d|]|]; try same.
    destruct (ctx_send _ _ _ _) as [s| |]; try same.
    destruct (_ && _); intros E; inversion E; subst; cbn [wctx w_sent]; [assumption|].
    destruct (refcount_lower (cref c)) as [r|]; [|assumption].
    destruct (r =? 0)%N; [exact I|assumption].
  - destruct (wown w); [same|].
    destruct (refcount_raise _); [|same]. intros E; inversion E; subst; cbn [wctx]; assumption.
  - destruct (wown w); [same|].
    destruct (refcount_lower _) as [r|]; [|intros E; inversion E; subst; cbn; assumption].
    destruct (r =? 0)%N; [|intros E; inversion E; subst; cbn; assumption].
    destruct (_ && _); [|intros E; inversion E; subst; exact I].
    destruct (ctx_send _ _ _ _) as [s| |]; cbn [bind]; try same. intros E; inversion E; subst; exact I.
Qed.

Lemma closed_exec ops : forall w,
  Forall (fun o => is_arm o = false) ops -> ctx_closed w -> ctx_closed (exec w ops).
Proof.
  induction ops as [|o ops IH]; intros w Hf Hc; [assumption|].
  inversion Hf; subst. cbn [exec]. apply IH; [assumption|]. apply closed_step; assumption.
Qed.

Definition is_reply (o : op) : bool :=
  match o with OReply _ | OCtxReply _ _ => true | _ => false end.

Lemma closed_reply_refused w o :
  sound w -> ctx_closed w -> is_reply o = true ->
  ocalls (snd (step w o)) = [] /\
  (oret (snd (step w o)) = RSkip \/ oret (snd (step w o)) = RInt EBadArgument).
Proof.
  intros [H Hinv] Hc Hr. unfold step.
  destruct (step0 w o) as [w' ob] eqn:Hs. cbn [snd]. revert Hs.
  destruct o; try discriminate; cbn [step0]; unfold with_ctx.
  - destruct (wown w) eqn:Hown; [intros E; inversion E; auto|].
    destruct (wctx w) as [c|] eqn:Hctx.
    2:{ destruct Hinv as [Hg _ _ _]. rewrite Hctx in Hg. lia. }
    unfold ctx_closed in Hc. rewrite Hctx in Hc.
    unfold do_reply, ctx_send. rewrite Hc. cbn. intros E; inversion E; auto.
  - destruct (wown w) eqn:Hown; [intros E; inversion E; auto|].
    destruct (wctx w) as [c|] eqn:Hctx.
    2:{ destruct Hinv as [Hg _ _ _]. rewrite Hctx in Hg. lia. }
    unfold ctx_closed in Hc. rewrite Hctx in Hc.
    destruct (_ || _); [intros E; inversion E; auto|].
    unfold do_reply, ctx_send. rewrite Hc. cbn. intros E; inversion E; auto.
Qed.

Lemma accepted_closes w p :
  sound w -> (exists c, In c (ocalls (snd (step w (OReply p)))) /\ (0 <= kres c)%Z) ->
  ctx_closed (fst (step w (OReply p))).
Proof.
  intros [H Hinv] (c0 & Hin & Hacc). unfold step in *.
  destruct (step0 w (OReply p)) as [w' ob] eqn:Hs. cbn [fst snd] in *.
  unfold ctx_closed. cbn [bump wctx]. revert Hs. cbn [step0]. unfold with_ctx.
  destruct (wown w) eqn:Hown; [intros E; inversion E; subst; destruct Hin|].
  destruct (wctx w) as [c|] eqn:Hctx; [|intros E; inversion E; subst; destruct Hin].
  destruct (ginv_ctx_facts _ _ _ _ Hinv Hctx) as [Hok Hhd].
  destruct (ctx_send_outcome c (cdata c) p (worc w) Hok Hhd) as (s & Hsend & Ho).
  unfold do_reply. rewrite Hsend. cbn [bind]. intros E; inversion E; subst. cbn [ocalls wctx w_sent cdata set_data] in *.
  destruct Ho; cbn [scalls srd dlen] in *.
  - destruct Hin.
  - destruct Hin.
  - destruct Hin.
  - reflexivity.
  - destruct Hin as [<-|[]]. cbn [kres] in Hacc. lia.
Qed.

Lemma later_replies_refused w p mid o :
  reachable w ->
  (exists c, In c (ocalls (snd (step w (OReply p)))) /\ (0 <= kres c)%Z) ->
  all_wf mid -> Forall (fun o => is_arm o = false) mid -> is_reply o = true ->
  let w2 := exec (fst (step w (OReply p))) mid in
  ocalls (snd (step w2 o)) = [] /\
  (oret (snd (step w2 o)) = RSkip \/ oret (snd (step w2 o)) = RInt EBadArgument).
Proof.
  intros Hr Hacc Hwf Hna Hrep w2.
  assert (Hr1 : reachable (fst (step w (OReply p)))) by (apply reachable_step; auto).
  apply closed_reply_refused; auto.
  - apply reachable_sound. apply reachable_exec; assumption.
  - apply closed_exec; [assumption|]. apply accepted_closes; [apply reachable_sound|]; assumption.
Qed.

(* ---------- a rejected send may be retried ---------- *)
Definition next_script (w : world) : world :=
  mkw (wctx w) (whs w) (wown w) (wlog w) (S (wstep w)) (tl (worc w)).

Lemma rejected_leaves_request w p c1 :
  sound w -> ocalls (snd (step w (OReply p))) = [c1] -> (kres c1 < 0)%Z ->
  fst (step w (OReply p)) = next_script w /\ oret (snd (step w (OReply p))) = RInt (kres c1) /\
  exists c, wctx w = Some c /\ 0 < wown w /\ 0 < dlen (cdata c) /\ csend c = true /\ cptr c = true /\
            kid c1 = mark (firstn (dlen (cdata c)) (dval (cdata c))) /\ kpay c1 = p /\ kres c1 = hd 0%Z (worc w).
Proof.
  intros [H Hinv]. unfold step.
  destruct (step0 w (OReply p)) as [w' ob] eqn:Hs. cbn [fst snd]. revert Hs. cbn [step0]. unfold with_ctx.
  destruct (wown w) eqn:Hown; [intros E; inversion E; subst; discriminate|].
  destruct (wctx w) as [c|] eqn:Hctx; [|intros E; inversion E; subst; discriminate].
  destruct (ginv_ctx_facts _ _ _ _ Hinv Hctx) as [Hok Hhd].
  destruct (ctx_send_outcome c (cdata c) p (worc w) Hok Hhd) as (s & Hsend & Ho).
  unfold do_reply. rewrite Hsend. cbn [bind]. intros E; inversion E; subst. cbn [ocalls oret].
  destruct Ho; cbn [scalls sret srd slogged sorc]; try discriminate; intros Hc Hneg; inversion Hc; subst c1;
    cbn [kres] in *; try lia.
  split; [|split].
  - unfold w_sent, next_script, bump. cbn. rewrite set_data_same, app_nil_r, Hctx, Hown. reflexivity.
  - reflexivity.
  - exists c. cbn. repeat split; auto; lia.
Qed.

Lemma armed_reply_accepted w c q :
  sound w -> 0 < wown w -> wctx w = Some c -> 0 < dlen (cdata c) -> csend c = true -> cptr c = true ->
  (0 <= hd 0 (worc w))%Z ->
  let id := mark (firstn (dlen (cdata c)) (dval (cdata c))) in
  let r := hd 0%Z (worc w) in
  snd (step w (OReply q)) = mkobs (RInt r) [mkcall id q r] /\
  wlog (fst (step w (OReply q))) = wlog w ++ [mkent (drq (cdata c)) id q] /\
  ctx_closed (fst (step w (OReply q))).
Proof.
  intros [H Hinv] Hown Hctx Hp Hs Hpt Hr id r. unfold step.
  destruct (step0 w (OReply q)) as [w' ob] eqn:Hst. cbn [fst snd]. revert Hst. cbn [step0]. unfold with_ctx.
  destruct (wown w); [lia|]. rewrite Hctx.
  destruct (ginv_ctx_facts _ _ _ _ Hinv Hctx) as [Hok Hhd].
  destruct (ctx_send_outcome c (cdata c) q (worc w) Hok Hhd) as (s & Hsend & Ho).
  unfold do_reply. rewrite Hsend. cbn [bind]. intros E; inversion E; subst.
  destruct Ho; try lia; try congruence.
  unfold ctx_closed. cbn. auto.
Qed.

Lemma retry_after_reject w p c1 q :
  sound w -> ocalls (snd (step w (OReply p))) = [c1] -> (kres c1 < 0)%Z ->
  let w1 := fst (step w (OReply p)) in
  (0 <= hd 0 (worc w1))%Z ->
  snd (step w1 (OReply q)) = mkobs (RInt (hd 0%Z (worc w1))) [mkcall (kid c1) q (hd 0%Z (worc w1))] /\
  exists e, wlog (fst (step w1 (OReply q))) = wlog w ++ [e] /\ eid e = kid c1 /\ epay e = q.
Proof.
  intros Hs Hc Hneg w1 Hacc.
  destruct (rejected_leaves_request w p c1 Hs Hc Hneg) as (Hw1 & _ & c & Hctx & Hown & Hp & Hsd & Hpt & Hid & _).
  assert (Hs1 : sound w1).
  { destruct Hs as [H Hinv]. exists H. unfold w1. rewrite Hw1.
    apply (ginv_ext H (wstep w) _ w); auto. cbn. lia. }
  subst w1. rewrite Hw1 in *.
  destruct (armed_reply_accepted (next_script w) c q Hs1) as (A & B & _); auto.
  cbn [next_script wlog] in *. rewrite Hid. split; [exact A|].
  eexists; split; [exact B|]. auto.
Qed.

(* ---------- released without an answer: exactly one default reply while the transport is attached ---------- *)
Lemma released_context_default_reply w c :
  sound w -> wown w = 1 -> live (whs w) = 0 -> wctx w = Some c ->
  let w' := fst (step w OUnref) in
  let ob := snd (step w OUnref) in
  let id := mark (firstn (dlen (cdata c)) (dval (cdata c))) in
  let r := hd 0%Z (worc w) in
  wctx w' = None /\ wown w' = 0 /\ oret ob = RDone /\
  if csend c && cptr c && negb (dlen (cdata c) =? 0)
  then ocalls ob = [mkcall id None r] /\
       wlog w' = wlog w ++ (if (0 <=? r)%Z then [mkent (drq (cdata c)) id None] else [])
  else ocalls ob = [] /\ wlog w' = wlog w.
Proof.
  intros [H Hinv] Hown Hlive Hctx w' ob id r. subst w' ob. unfold step.
  destruct (step0 w OUnref) as [w' ob] eqn:Hst. cbn [fst snd]. revert Hst. cbn [step0]. unfold with_ctx.
  rewrite Hown, Hctx.
  destruct (ginv_ctx_facts _ _ _ _ Hinv Hctx) as [Hok Hhd].
  assert (Hr : cref c = 1%N).
  { destruct Hinv as [Hg _ _ _]. rewrite Hctx, Hown, Hlive in Hg. destruct Hg as (Hr & _). rewrite Hr. reflexivity. }
  rewrite Hr. cbn [refcount_lower N.eqb N.sub Pos.pred_N].
  change ((1 - 1 =? 0)%N) with true. cbv iota.
  destruct (csend c) eqn:Hs; cbn [andb].
  2:{ intros E; inversion E; subst. cbn. auto. }
  destruct (Nat.eqb_spec (dlen (cdata c)) 0) as [Hz|Hz]; cbn [negb].
  { rewrite andb_false_r. intros E; inversion E; subst. cbn. auto. }
  destruct (ctx_send_outcome c (cdata c) None (worc w) Hok Hhd) as (s & Hsend & Ho).
  rewrite Hsend. cbn [bind]. intros E; inversion E; subst. cbn [bump wctx wown wlog w_sent ocalls oret].
  split; [reflexivity|]. split; [reflexivity|]. split; [reflexivity|].
  destruct Ho as [Hz0 | Hp Hs0 | Hp Hs0 Hpt | Hp Hs0 Hpt Hacc | Hp Hs0 Hpt Hrej];
    try lia; try congruence; rewrite Hpt; cbn [andb scalls slogged].
  - rewrite app_nil_r. auto.
  - fold r. destruct (Z.leb_spec 0 r); [auto|lia].
  - fold r. destruct (Z.leb_spec 0 r); [lia|]. rewrite app_nil_r. auto.
Qed.

Lemma released_handle_default_reply w c k d :
  sound w -> nth_error (whs w) k = Some (Some d) -> wctx w = Some c ->
  let w' := fst (step w (OHReply k None)) in
  let ob := snd (step w (OHReply k None)) in
  let id := mark (firstn (dlen d) (dval d)) in
  let r := hd 0%Z (worc w) in
  nth_error (whs w') k = Some None /\ 0 < dlen d /\
  if csend c && cptr c
  then ocalls ob = [mkcall id None r] /\
       wlog w' = wlog w ++ (if (0 <=? r)%Z then [mkent (drq d) id None] else [])
  else ocalls ob = [] /\ wlog w' = wlog w.
Proof.
  intros [H Hinv] Hk Hctx w' ob id r. subst w' ob. unfold step.
  destruct (step0 w (OHReply k None)) as [w' ob] eqn:Hst. cbn [fst snd]. revert Hst. cbn [step0].
  rewrite Hk, Hctx.
  destruct (nth_error_split _ _ Hk) as (l1 & l2 & Hhs & Hlen).
  assert (Hin : In (Some d) (whs w)) by (rewrite Hhs; apply in_or_app; right; left; reflexivity).
  destruct (ginv_handle_facts _ _ _ _ Hinv Hin) as [Hok Hhd].
  assert (Hdp : 0 < dlen d) by (destruct Hinv as [_ Hh _ _]; apply (Hh d Hin)).
  destruct (ctx_send_outcome c d None (worc w) Hok Hhd) as (s & Hsend & Ho).
  rewrite Hsend. cbn [is_some]. rewrite andb_false_r.
  replace (upd_h (whs w) k None) with (l1 ++ None :: l2)
    by (rewrite Hhs, <- Hlen, upd_h_split; reflexivity).
  intros E; inversion E; subst. cbn [bump whs wlog w_sent ocalls].
  split; [rewrite nth_error_app2, Nat.sub_diag by lia; reflexivity|]. split; [assumption|].
  destruct Ho as [Hz0 | Hp Hs0 | Hp Hs0 Hpt | Hp Hs0 Hpt Hacc | Hp Hs0 Hpt Hrej];
    try lia; rewrite ?Hs0, ?Hpt; cbn [andb scalls slogged].
  - rewrite app_nil_r. auto.
  - rewrite app_nil_r. auto.
  - fold r. destruct (Z.leb_spec 0 r); [auto|lia].
  - fold r. destruct (Z.leb_spec 0 r); [lia|]. rewrite app_nil_r. auto.
Qed.

(* ---------- arming writes only the data part ---------- *)
Lemma arm_preserves_context w c o bs :
  sound w -> 0 < wown w -> wctx w = Some c -> arm_bytes o = Some bs ->
  let w' := fst (step w o) in
  let ob := snd (step w o) in
  exists c', wctx w' = Some c' /\
    csend c' = csend c /\ cptr c' = cptr c /\ cref c' = cref c /\ dmax (cdata c') = dmax (cdata c) /\
    whs w' = whs w /\ wown w' = wown w /\ wlog w' = wlog w /\ worc w' = worc w /\ ocalls ob = [] /\
    if dmax (cdata c) <? length bs
    then oret ob = RInt EBadValue /\ cdata c' = cdata c
    else oret ob = RInt (Z.of_nat (dmax (cdata c) - length bs)) /\
         dlen (cdata c') = length bs /\ firstn (length bs) (dval (cdata c')) = bs /\
         skipn (length bs) (dval (cdata c')) = skipn (length bs) (dval (cdata c)) /\
         length (dval (cdata c')) = length (dval (cdata c)).
Proof.
  intros [H Hinv] Hown Hctx Hab w' ob. subst w' ob.
  destruct (ginv_ctx_facts _ _ _ _ Hinv Hctx) as [[Hlen Hdl] _].
  assert (Hstep : step w o = let '(w', ob) := with_ctx w (fun c => do_arm w c bs) in (bump w', ob)).
  { destruct o; try discriminate; cbn in Hab; inversion Hab; subst; reflexivity. }
  rewrite Hstep. unfold with_ctx. destruct (wown w) eqn:Hw; [lia|]. rewrite Hctx.
  unfold do_arm. change (snd (ctx_conv TypeReplyDataPtr)) with (Some PData).
  unfold reply_set. destruct (Nat.ltb_spec (dmax (cdata c)) (length bs)) as [Hgt|Hle]; cbn [bind fst snd].
  - exists c. cbn. rewrite set_data_same. repeat split; auto.
  - assert (Hfit : 0 + length bs <= length (dval (cdata c))) by lia.
    rewrite (wr_ok _ _ _ Hfit). cbn [bind fst snd firstn app plus].
    eexists. cbn [bump w_ctx wctx whs wown wlog worc]. split; [reflexivity|].
    cbn [set_data csend cptr cref cdata dmax dlen dval ocalls oret].
    repeat split; auto.
    + apply firstn_exact.
    + rewrite skipn_app, skipn_all, Nat.sub_diag. reflexivity.
    + rewrite app_length, skipn_length. lia.
Qed.

(* ---------- the same statements for reachable worlds / complete histories ---------- *)
Lemma no_fault max send ptr orc ops :
  all_wf ops -> Forall (fun r => oret (fst r) <> RFault) (run (init max send ptr orc) ops).
Proof.
  intros Hwf. apply (run_no_fault ops []); auto.
  - rewrite init_step. apply init_inv.
  - apply init_step.
Qed.

Lemma log_is_accepted_calls_init max send ptr orc ops :
  log_view (wlog (exec (init max send ptr orc) ops)) =
  accepted_calls (concat (map (fun r => ocalls (fst r)) (run (init max send ptr orc) ops))).
Proof.
  rewrite log_is_accepted_calls. unfold init. destruct (65535 <? N.of_nat max)%N; reflexivity.
Qed.

Lemma retry_after_reject_r w p c1 q :
  reachable w -> ocalls (snd (step w (OReply p))) = [c1] -> (kres c1 < 0)%Z ->
  let w1 := fst (step w (OReply p)) in
  oret (snd (step w (OReply p))) = RInt (kres c1) /\ wlog w1 = wlog w /\
  ((0 <= hd 0 (worc w1))%Z ->
   snd (step w1 (OReply q)) = mkobs (RInt (hd 0%Z (worc w1))) [mkcall (kid c1) q (hd 0%Z (worc w1))] /\
   exists e, wlog (fst (step w1 (OReply q))) = wlog w ++ [e] /\ eid e = kid c1 /\ epay e = q).
Proof.
  intros Hr Hc Hneg w1. pose proof (reachable_sound w Hr) as Hs.
  destruct (rejected_leaves_request w p c1 Hs Hc Hneg) as (Hw1 & Hret & _).
  split; [assumption|]. split; [unfold w1; rewrite Hw1; reflexivity|].
  intros Hacc. apply retry_after_reject; assumption.
Qed.

Lemma released_context_default_reply_r w c :
  reachable w -> wown w = 1 -> live (whs w) = 0 -> wctx w = Some c ->
  let w' := fst (step w OUnref) in
  let ob := snd (step w OUnref) in
  let id := mark (firstn (dlen (cdata c)) (dval (cdata c))) in
  let r := hd 0%Z (worc w) in
  wctx w' = None /\ wown w' = 0 /\ oret ob = RDone /\
  if csend c && cptr c && negb (dlen (cdata c) =? 0)
  then ocalls ob = [mkcall id None r] /\
       wlog w' = wlog w ++ (if (0 <=? r)%Z then [mkent (drq (cdata c)) id None] else [])
  else ocalls ob = [] /\ wlog w' = wlog w.
Proof. intros Hr. apply released_context_default_reply. apply reachable_sound; assumption. Qed.

Lemma released_handle_default_reply_r w c k d :
  reachable w -> nth_error (whs w) k = Some (Some d) -> wctx w = Some c ->
  let w' := fst (step w (OHReply k None)) in
  let ob := snd (step w (OHReply k None)) in
  let id := mark (firstn (dlen d) (dval d)) in
  let r := hd 0%Z (worc w) in
  nth_error (whs w') k = Some None /\ 0 < dlen d /\
  if csend c && cptr c
  then ocalls ob = [mkcall id None r] /\
       wlog w' = wlog w ++ (if (0 <=? r)%Z then [mkent (drq d) id None] else [])
  else ocalls ob = [] /\ wlog w' = wlog w.
Proof. intros Hr. apply released_handle_default_reply. apply reachable_sound; assumption. Qed.

Lemma arm_preserves_context_r w c o bs :
  reachable w -> 0 < wown w -> wctx w = Some c -> arm_bytes o = Some bs ->
  let w' := fst (step w o) in
  let ob := snd (step w o) in
  exists c', wctx w' = Some c' /\
    csend c' = csend c /\ cptr c' = cptr c /\ cref c' = cref c /\ dmax (cdata c') = dmax (cdata c) /\
    whs w' = whs w /\ wown w' = wown w /\ wlog w' = wlog w /\ worc w' = worc w /\ ocalls ob = [] /\
    if dmax (cdata c) <? length bs
    then oret ob = RInt EBadValue /\ cdata c' = cdata c
    else oret ob = RInt (Z.of_nat (dmax (cdata c) - length bs)) /\
         dlen (cdata c') = length bs /\ firstn (length bs) (dval (cdata c')) = bs /\
         skipn (length bs) (dval (cdata c')) = skipn (length bs) (dval (cdata c)) /\
         length (dval (cdata c')) = length (dval (cdata c)).
Proof. intros Hr. apply arm_preserves_context. apply reachable_sound; assumption. Qed.

(* a context the caller holds exists; handles that are live keep the context allocated *)
Lemma reachable_shape w :
  reachable w ->
  match wctx w with
  | Some c => cref c = N.of_nat (wown w + live (whs w)) /\ 0 < wown w + live (whs w)
              /\ (wown w = 0 -> csend c = false)
  | None => wown w = 0 /\ live (whs w) = 0
  end.
Proof.
  intros Hr. destruct (reachable_sound w Hr) as [H [Hc _ _ _]].
  destruct (wctx w); [|assumption]. destruct Hc as (A & _ & B & C & _). auto.
Qed.
