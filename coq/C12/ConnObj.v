(* C12/ConnObj.v — round 3: the operations of the object of mpt_output_remote() that were added to ConnModel.v
   (references, default answer handler, failing answer handlers, next(POLLOUT/POLLHUP), log messages, another backend).
   The history theorems of ConnProofs.v / ConnWaitInv.v quantify over [cop] and therefore cover them already;
   here: what each of them does to the requests in flight. *)
From MptV Require Import Base.Mem C12.ReplyModel C12.ReplySpec C12.ReplyInv C12.ReplyStep C12.ReplyProps
  C12.ReplyRefine C12.ConnModel C12.ConnSim C12.ConnKeep C12.ConnSpecProps C12.ConnWait C12.ConnReserve C12.ConnProofs.
Local Open Scope nat_scope.

(* ---------- no backend: nothing reaches a wire ---------- *)
Lemma call_wire_refused cs : (forall cl, In cl cs -> (kres cl < 0)%Z) -> call_wire cs = [].
Proof.
  unfold call_wire. induction cs as [|cl cs IH]; intros H; [reflexivity|]. cbn [filter].
  destruct (Z.leb_spec 0 (kres cl)) as [Hge|Hlt].
  - specialize (H cl (or_introl eq_refl)). lia.
  - apply IH. intros x Hx. apply H. right. exact Hx.
Qed.

(* the transport call of a deferred reply carries the answer of the transport *)
Lemma spec_handle_calls_res s orc k p cl : In cl (ocalls (snd (sstepo s orc (OHReply k p)))) -> kres cl = hd 0%Z orc.
Proof.
  unfold sstepo, sstep. cbn [sstep0 sset_orc s_hs].
  destruct (nth_error (s_hs s) k) as [[q|]|]; cbn [snd ocalls]; try contradiction.
  unfold s_answer. cbn [s_att s_ptr s_orc sset_orc].
  destruct (s_att s); cbn [negb].
  2:{ cbn. contradiction. }
  destruct (s_ptr s); cbn [negb].
  2:{ cbn. contradiction. }
  destruct (0 <=? hd 0%Z orc)%Z; destruct ((hd 0%Z orc <? 0)%Z && is_some p); cbn; intros [<-|[]]; reflexivity.
Qed.

Lemma tans_gone c p : cgone c = true -> tans c p = EBadArgument.
Proof. intros H. unfold tans. rewrite H, orb_true_r. reflexivity. Qed.

(* a connection without backend (datagram socket hung up, assign(NULL)): a deferred reply puts nothing on a wire *)
Lemma conn_gone_handle_silent dg idl ops k p :
  let w := fst (mcexec (minit dg idl) ops) in
  let c := snd (mcexec (minit dg idl) ops) in
  cgone c = true -> r_wire (snd (mcstep (w, c) (CHr k p))) = [].
Proof.
  intros w c Hg. destruct (conn_related dg idl ops) as [HR _]. fold w in HR.
  set (s := fst (scexec (sinit_c dg idl) ops)) in *. clearbody s. clearbody w c.
  unfold mcstep, cstep, prim.
  destruct (R1_step w s [tans c p] (OHReply k p) HR eq_refl) as (Hob & _ & _).
  destruct (mstep w [tans c p] (OHReply k p)) as [w' ob]. cbn [fst snd r_wire] in *.
  destruct (cclosed c); [reflexivity|].
  apply call_wire_refused. intros cl Hcl. rewrite Hob in Hcl.
  rewrite (spec_handle_calls_res _ _ _ _ _ Hcl). cbn [hd]. rewrite (tans_gone c p Hg). reflexivity.
Qed.

(* ... and no new request can be registered, nothing can be pushed *)
Lemma gone_refuses c tag pay : cgone c = true ->
  do_await c tag = (c, EBadArgument) /\ do_push c pay = (c, EBadArgument, false) /\ do_finish c = (c, EBadArgument, [], false).
Proof. intros H. unfold do_await, do_push, do_finish. rewrite H. auto. Qed.

(* ---------- references ---------- *)
Section Obj.
  Variable RW : Type.
  Variable rstep : RW -> list Z -> op -> RW * obs.
  Variable rarmed : RW -> bool.
  Variable rserial : RW -> nat.
  Notation cstep := (cstep RW rstep rarmed rserial).

  (* releasing a reference that is not the last one touches neither the connection nor its reply context *)
  Lemma unref_not_last r c : cclosed c = false -> 0 < crefs c ->
    cstep (r, c) CCl = ((r, set_refs c (crefs c - 1)), nofault RCl [] []).
  Proof. intros Hc Hr. unfold ConnModel.cstep. rewrite Hc. apply Nat.ltb_lt in Hr. rewrite Hr. reflexivity. Qed.

  Lemma addref_only_counts r c : cclosed c = false ->
    cstep (r, c) CRf = ((r, set_refs c (S (crefs c))), nofault (RRf (S (S (crefs c)))) [] []).
  Proof. intros Hc. unfold ConnModel.cstep. rewrite Hc. reflexivity. Qed.

  (* ---------- next(POLLOUT), as patched: nothing is sent, nothing changes ---------- *)
  Lemma pollout_is_silent r c : fst (cstep (r, c) CNo) = (r, c) /\ r_wire (snd (cstep (r, c) CNo)) = [] /\
                                r_wcalls (snd (cstep (r, c) CNo)) = [].
  Proof. unfold ConnModel.cstep. destruct (cclosed c); cbn; auto. Qed.

  (* ---------- next(POLLHUP): the datagram backend is gone, the requests in flight stay registered ---------- *)
  Lemma hup_keeps_waiters r c : cclosed c = false ->
    let c' := snd (fst (cstep (r, c) CNh)) in
    ctab c' = ctab c /\ chas c' = chas c /\ ccid c' = ccid c /\ fst (fst (cstep (r, c) CNh)) = r /\
    (cdg c = true -> cgone c' = true) /\ r_wcalls (snd (cstep (r, c) CNh)) = [].
  Proof.
    intros Hc. unfold ConnModel.cstep. rewrite Hc. cbn [fst snd r_wcalls nofault].
    destruct (cdg c) eqn:Hd; destruct (cgone c) eqn:Hg; cbn; repeat split; auto; discriminate.
  Qed.

  (* ---------- another backend ---------- *)
  (* mpt_connection_close: every handler waiting for an answer is called with NULL exactly once (one call per slot in
     use, in table order), the table is empty afterwards, no id is pending, the connection holds no reply context
     any more, nothing is sent *)
  Lemma reset_releases_waiters r c k h : cclosed c = false -> (cact c && negb (is_assign_null k h)) = false ->
    is_reopen c k h = false ->
    let c' := snd (fst (cstep (r, c) (CRs k h))) in
    let res := snd (cstep (r, c) (CRs k h)) in
    ctab c' = [] /\ ccid c' = 0%N /\ chas c' = false /\ r_wire res = [] /\
    r_wcalls res = clear_calls c /\ r_ret res = RRs (reset_ret k h) /\
    cgone c' = (match k with KNone => true | _ => false end).
  Proof.
    intros Hc Ha Hr. unfold ConnModel.cstep. rewrite Hc, Ha, Hr.
    destruct (chas c); [destruct (prim _ _ _ _ _ _)|]; cbn; repeat split; reflexivity.
  Qed.

  (* a stream socket for an open stream: the stream is re-opened; wait table, pending id and reply context are kept
     (mpt_connection_assign) / the waiting handlers are released, the reply context is kept (property "") *)
  Lemma reopen_keeps_context r c h : cclosed c = false -> cact c = false -> is_reopen c KStream h = true ->
    let c' := snd (fst (cstep (r, c) (CRs KStream h))) in
    fst (fst (cstep (r, c) (CRs KStream h))) = r /\ chas c' = chas c /\ ccid c' = ccid c /\ cgone c' = false /\
    (h = HAssign -> ctab c' = ctab c /\ r_wcalls (snd (cstep (r, c) (CRs KStream h))) = []) /\
    (h = HPropSock -> ctab c' = [] /\ r_wcalls (snd (cstep (r, c) (CRs KStream h))) = clear_calls c).
  Proof.
    intros Hc Ha Hr. unfold ConnModel.cstep. rewrite Hc, Ha, Hr. cbn [andb].
    assert (Hg : cgone c = false).
    { destruct h; cbn in Hr; try discriminate; apply andb_true_iff in Hr; destruct Hr as [_ Hr];
        (destruct (cgone c); [discriminate|reflexivity]). }
    destruct h; cbn in Hr; try discriminate; cbn; repeat split; auto; discriminate.
  Qed.
End Obj.

(* one NULL call per waiting handler: as many calls as slots in use, all with NULL *)
Lemma clear_calls_spec c :
  length (clear_calls c) = length (tactive (ctab c)) /\ Forall (fun x => snd x = None) (clear_calls c) /\
  map fst (clear_calls c) = map (fun e => match wetag e with Some t => t | None => 0 end) (tactive (ctab c)).
Proof.
  unfold clear_calls. rewrite map_length, map_map. split; [reflexivity|]. split; [|reflexivity].
  apply Forall_forall. intros x Hx. apply in_map_iff in Hx. destruct Hx as (e & <- & _). reflexivity.
Qed.

(* ---------- the end of mpt_stream_sync after a failing handler: no waiter is lost ---------- *)
Lemma sync_end_keeps_ids c n wc : act_ids (ctab (fst (fst (sync_end c n wc)))) = act_ids (ctab c).
Proof. unfold sync_end. destruct (_ <? _); cbn [fst set_tab ctab]; [reflexivity|apply act_ids_active]. Qed.

Lemma sync_end_result c n wc :
  snd (sync_end c n wc) = wc /\
  (Nat.div2 (length (ctab c)) < n -> sync_end c n wc = (c, Z.of_nat n, wc)) /\
  (n <= Nat.div2 (length (ctab c)) ->
   sync_end c n wc = (set_tab c (tactive (ctab c)), Z.of_nat (length (tactive (ctab c))), wc)).
Proof.
  unfold sync_end. destruct (Nat.ltb_spec (Nat.div2 (length (ctab c))) n); cbn; repeat split; auto; intros; lia.
Qed.

(* ---------- a log message is one outgoing message ---------- *)
(* with no id pending and nothing being composed, on a backend that takes it: exactly one message, the id bytes
   mpt_message_id2buf gives for 0 followed by the log bytes; the requests in flight are not touched *)
Lemma log_is_one_message (RW : Type) rstep rarmed rserial (r : RW) c msg bs u :
  cclosed c = false -> cgone c = false -> push_blocked c = false -> cact c = false -> 0 < cidl c ->
  id2buf (ccid c) (cidl c) = Ok (bs, u) ->
  cstep RW rstep rarmed rserial (r, c) (CLg msg) =
    ((r, set_out c 0%N false []),
     mkcr (RLg 1%Z) [] [cout c ++ bs ++ msg] false).
Proof.
  intros Hc Hg Hb Ha Hi Hid. unfold cstep. rewrite Hc. unfold do_push. rewrite Hg, Hb, Ha.
  assert (Hn : (cidl c =? 0) = false) by (apply Nat.eqb_neq; lia). rewrite Hn. cbn [negb andb]. rewrite Hid.
  assert (Hlt : (Z.of_nat (length msg) <? 0)%Z = false) by (apply Z.ltb_ge; lia). rewrite Hlt.
  assert (Hb' : forall a b d, push_blocked (set_out c a b d) = push_blocked c) by reflexivity.
  unfold do_finish, push_calls. rewrite !Hb', Hb. cbn [cgone set_out cact negb andb cout cdg]. rewrite Hg.
  cbn [orb]. destruct (cdg c); reflexivity.
Qed.
