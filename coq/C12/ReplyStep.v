(* C12/ReplyStep.v — every operation preserves the invariant and never faults. *)
From MptV Require Import Base.Mem C12.ReplyModel C12.ReplySpec C12.ReplyInv.
Local Open Scope nat_scope.

Ltac split6 := refine (conj _ (conj _ (conj _ (conj _ (conj _ _))))).

Lemma firstn_nil_inv {A} n (l : list A) : firstn n l = [] -> n = 0 \/ l = [].
Proof. destruct n; [auto|]. destruct l; [auto|discriminate]. Qed.

Lemma set_data_same c : set_data c (cdata c) = c.
Proof. destruct c; reflexivity. Qed.

Lemma held_rq_pos d : 0 < dlen d -> held_rq d = [drq d].
Proof. intros H. unfold held_rq. destruct (Nat.eqb_spec (dlen d) 0); [lia|reflexivity]. Qed.
Lemma held_rq_zero d : dlen d = 0 -> held_rq d = [].
Proof. intros H. unfold held_rq. rewrite H. reflexivity. Qed.

Lemma cleared_ok d d' : rd_ok d -> cleared d d' -> rd_ok d'.
Proof. intros [H1 H2] (C1 & C2 & C3 & C4). split; [rewrite C3, C2; assumption | lia]. Qed.

Lemma cleared_armed H d d' : cleared d d' -> armed_ok H d'.
Proof. intros (C1 & _) Hp. lia. Qed.

Lemma armed_entry H d p : rd_ok d -> armed_ok H d -> 0 < dlen d ->
  log_ok H (mkent (drq d) (mark (firstn (dlen d) (dval d))) p).
Proof.
  intros [Hl Hle] Ha Hp. destruct (Ha Hp) as (bs & Hat & Hf & Hh).
  exists bs. cbn [erq eid]. repeat split; [assumption| |congruence].
  intros ->. apply firstn_nil_inv in Hf. destruct Hf as [|Hf]; [lia|].
  rewrite Hf in Hl. cbn [length] in Hl. lia.
Qed.

(* worlds that differ only in script position / counter *)
Lemma ginv_ext H n m w w' :
  wctx w' = wctx w -> whs w' = whs w -> wown w' = wown w -> wlog w' = wlog w ->
  n <= m -> ginv H n w -> ginv H m w'.
Proof.
  intros E1 E2 E3 E4 Hnm [Hc Hh Hl Hs].
  constructor; unfold all_ser in *; rewrite ?E1, ?E2, ?E3, ?E4; auto.
  intros i. destruct (Hs i) as [A B]. split; [assumption|]. intros Hi. apply B. lia.
Qed.

(* ---------- reply on the context's own data ---------- *)
Lemma inv_ctx_sent H n w c p s own' :
  ginv H n w -> wctx w = Some c -> send_outcome c (cdata c) p (worc w) s -> own' = wown w ->
  ginv H (S n) (w_sent w (Some (set_data c (srd s))) (whs w) own' s).
Proof.
  intros [Hc Hh Hl Hs] Hctx Ho ->. rewrite Hctx in Hc.
  destruct Hc as (Hr & Hr64 & Hpos & Hdet & Hok & Harm).
  apply send_outcome_shape in Ho. destruct Ho as [[E1 E2] | (Hp & Hcl & _ & Hlg)].
  - unfold w_sent. rewrite E1, E2, set_data_same.
    apply (ginv_ext H n (S n) w); cbn; rewrite ?app_nil_r; auto.
    constructor; auto. rewrite Hctx. auto 10.
  - constructor; unfold w_sent; cbn [wctx whs wown wlog cdata set_data csend cref].
    + split6; auto. eapply cleared_ok; eauto. eapply cleared_armed; eauto.
    + assumption.
    + intros e He. apply in_app_or in He. destruct He as [He|He]; [auto|].
      destruct Hlg as [Hlg|Hlg]; rewrite Hlg in He; [destruct He|].
      destruct He as [<-|[]]. apply armed_entry; assumption.
    + intros i. destruct (Hs i) as [A B]. destruct Hcl as (C1 & _).
      unfold all_ser in *. cbn [wctx whs wlog cpart cdata set_data] in *. rewrite Hctx in *.
      cbn [cpart] in *. rewrite (held_rq_zero _ C1). rewrite (held_rq_pos _ Hp) in *.
      rewrite map_app, !cnt_app in *. cbn [app] in *.
      destruct Hlg as [-> | ->]; cbn [map erq]; rewrite ?cnt_nil, ?cnt_cons in *; lia.
Qed.

(* ---------- arm ---------- *)
Lemma inv_arm H n w c bs :
  ginv H n w -> wctx w = Some c -> arm_at H n = Some bs -> (hd 0 bs < 128)%N ->
  length bs <= dmax (cdata c) ->
  exists v, wr (dval (cdata c)) 0 bs = Ok v /\
    firstn (length bs) v = bs /\ length v = length (dval (cdata c)) /\
    skipn (length bs) v = skipn (length bs) (dval (cdata c)) /\
    ginv H (S n) (w_ctx w (Some (set_data c (mkrd (dmax (cdata c)) (length bs) v n)))).
Proof.
  intros [Hc Hh Hl Hs] Hctx Hat Hhd Hle. rewrite Hctx in Hc.
  destruct Hc as (Hr & Hr64 & Hpos & Hdet & [Hlen Hdl] & Harm).
  assert (Hfit : 0 + length bs <= length (dval (cdata c))) by lia.
  rewrite (wr_ok _ _ _ Hfit). eexists. split; [reflexivity|]. cbn [firstn app plus].
  split; [apply firstn_exact|].
  split; [rewrite app_length, skipn_length; lia|].
  split; [rewrite skipn_app, skipn_all, Nat.sub_diag; reflexivity|].
  constructor; unfold w_ctx; cbn [wctx whs wown wlog cdata set_data csend cref].
  - split6; auto; cbn [dval dmax dlen drq].
    + split; cbn [dval dmax dlen]; [rewrite app_length, skipn_length; lia|assumption].
    + intros _. exists bs. cbn [dval dmax dlen drq]. split; [assumption|]. split; [apply firstn_exact|assumption].
  - assumption.
  - assumption.
  - intros i. destruct (Hs i) as [A B].
    unfold all_ser in *. cbn [wctx whs wlog cpart cdata set_data] in *. rewrite Hctx in *.
    cbn [cpart] in *. rewrite !cnt_app in *.
    assert (Hn : cnt (held_rq (cdata c)) n + (cnt (flat_map hpart (whs w)) n + cnt (map erq (wlog w)) n) = 0)
      by (specialize (Hs n); rewrite !cnt_app in Hs; destruct Hs as [_ B']; apply B'; lia).
    unfold held_rq at 1 2. cbn [dlen drq].
    destruct (Nat.eqb_spec (length bs) 0); rewrite ?cnt_nil, ?cnt_cons, ?cnt_nil.
    + lia.
    + destruct (Nat.eq_dec n i); [subst i|]; lia.
Qed.

(* ---------- defer ---------- *)
Lemma inv_defer H n w c r :
  ginv H n w -> wctx w = Some c -> 0 < dlen (cdata c) -> refcount_raise (cref c) = Some r ->
  ginv H (S n) (mkw (Some (mkctx (csend c) (cptr c) r (set_dlen (cdata c) 0))) (whs w ++ [Some (cdata c)])
                    (wown w) (wlog w) (wstep w) (worc w)).
Proof.
  intros [Hc Hh Hl Hs] Hctx Hp Hraise. rewrite Hctx in Hc.
  destruct Hc as (Hr & Hr64 & Hpos & Hdet & Hok & Harm).
  rewrite raise_spec in Hraise by lia.
  destruct (N.ltb_spec (cref c + 1) two64) as [Hlt|]; [|discriminate]. inversion Hraise; subst r.
  constructor; cbn [wctx whs wown wlog cdata csend cref].
  - rewrite live_app, live_cons. cbn [is_some live filter length].
    split6; auto; try lia.
    + destruct Hok; split; cbn; [assumption|lia].
    + intros Hx. cbn in Hx. lia.
  - intros d Hd. apply in_app_or in Hd. destruct Hd as [Hd|[Hd|[]]]; [auto|].
    inversion Hd; subst d. auto.
  - assumption.
  - intros i. destruct (Hs i) as [A B].
    unfold all_ser in *. cbn [wctx whs wlog cpart cdata set_dlen] in *. rewrite Hctx in *.
    cbn [cpart] in *. rewrite flat_map_app, !cnt_app in *. cbn [flat_map hpart].
    rewrite (held_rq_zero (set_dlen (cdata c) 0)) by reflexivity.
    rewrite (held_rq_pos _ Hp) in *. rewrite app_nil_r, ?cnt_nil in *. lia.
Qed.

(* ---------- deferred handle ---------- *)
Lemma inv_handle_keep H n w c l1 l2 d p s :
  ginv H n w -> wctx w = Some c -> whs w = l1 ++ Some d :: l2 ->
  send_outcome c d p (worc w) s -> (sret s < 0)%Z ->
  ginv H (S n) (w_sent w (Some c) (l1 ++ Some (srd s) :: l2) (wown w) s).
Proof.
  intros Hinv Hctx Hhs Ho Hneg.
  apply send_outcome_shape in Ho. destruct Ho as [[E1 E2] | (_ & _ & Hr & _)]; [|lia].
  rewrite E1. apply (ginv_ext H n (S n) w); unfold w_sent; cbn; rewrite ?E2, ?app_nil_r; auto.
Qed.

Lemma inv_handle_done H n w c l1 l2 d p s :
  ginv H n w -> wctx w = Some c -> whs w = l1 ++ Some d :: l2 ->
  send_outcome c d p (worc w) s ->
  ginv H (S n)
    (w_sent w (match refcount_lower (cref c) with
               | None => Some c
               | Some r => if (r =? 0)%N then None else Some (set_ref c r)
               end) (l1 ++ None :: l2) (wown w) s).
Proof.
  intros [Hc Hh Hl Hs] Hctx Hhs Ho. rewrite Hctx, Hhs in Hc.
  destruct Hc as (Hr & Hr64 & Hpos & Hdet & Hok & Harm).
  rewrite live_app, live_cons in *. cbn [is_some] in *.
  assert (Hd : rd_ok d /\ 0 < dlen d /\ armed_ok H d)
    by (apply Hh; rewrite Hhs; apply in_or_app; right; left; reflexivity).
  destruct Hd as (Hdok & Hdp & Hda).
  rewrite lower_spec by lia.
  assert (Hlogs : forall e, In e (wlog w ++ slogged s) -> log_ok H e).
  { intros e He. apply in_app_or in He. destruct He as [He|He]; [auto|].
    apply send_outcome_shape in Ho. destruct Ho as [[_ E2] | (_ & _ & _ & [E2|E2])]; rewrite E2 in He;
      try destruct He as [<-|[]]; try destruct He. apply armed_entry; assumption. }
  assert (Hhs' : forall d0, In (Some d0) (l1 ++ None :: l2) -> rd_ok d0 /\ 0 < dlen d0 /\ armed_ok H d0).
  { intros d0 Hin. apply Hh. rewrite Hhs. apply in_app_or in Hin. apply in_or_app.
    destruct Hin as [|[Hx|]]; [left; assumption|discriminate|right; right; assumption]. }
  assert (Hcount : forall i,
     cnt (flat_map hpart (l1 ++ None :: l2) ++ map erq (wlog w ++ slogged s)) i
       <= cnt (flat_map hpart (whs w) ++ map erq (wlog w)) i).
  { intros i. rewrite Hhs, !flat_map_app, map_app, !cnt_app. cbn [flat_map hpart].
    rewrite !cnt_app, (held_rq_pos _ Hdp), cnt_nil.
    apply send_outcome_shape in Ho. destruct Ho as [[_ E2] | (_ & _ & _ & [E2|E2])]; rewrite E2;
      cbn [map erq]; rewrite ?cnt_nil, ?cnt_cons, ?cnt_nil; lia. }
  destruct (N.eqb_spec (cref c - 1) 0) as [Hz|Hz].
  - (* last holder: context freed *)
    constructor; unfold w_sent; cbn [wctx whs wown wlog].
    + rewrite live_app, live_cons. cbn [is_some]. lia.
    + assumption.
    + assumption.
    + intros i. destruct (Hs i) as [A B]. specialize (Hcount i).
      unfold all_ser in *. cbn [wctx whs wlog cpart] in *. rewrite Hctx in *. cbn [cpart app] in *.
      rewrite cnt_app in A, B. split; [lia|]. intros Hi. specialize (B ltac:(lia)). lia.
  - constructor; unfold w_sent; cbn [wctx whs wown wlog set_ref cref csend cdata].
    + rewrite live_app, live_cons. cbn [is_some]. split6; auto; lia.
    + assumption.
    + assumption.
    + intros i. destruct (Hs i) as [A B]. specialize (Hcount i).
      unfold all_ser in *. cbn [wctx whs wlog cpart set_ref cdata] in *. rewrite Hctx in *. cbn [cpart] in *.
      rewrite (cnt_app (held_rq (cdata c))) in *. split; [lia|]. intros Hi. specialize (B ltac:(lia)). lia.
Qed.

(* ---------- addref / unref ---------- *)
Lemma inv_ref H n w c r :
  ginv H n w -> wctx w = Some c -> refcount_raise (cref c) = Some r ->
  ginv H (S n) (mkw (Some (set_ref c r)) (whs w) (S (wown w)) (wlog w) (wstep w) (worc w)).
Proof.
  intros [Hc Hh Hl Hs] Hctx Hraise. rewrite Hctx in Hc.
  destruct Hc as (Hr & Hr64 & Hpos & Hdet & Hok & Harm).
  rewrite raise_spec in Hraise by lia.
  destruct (N.ltb_spec (cref c + 1) two64) as [Hlt|]; [|discriminate]. inversion Hraise; subst r.
  constructor; cbn [wctx whs wown wlog set_ref cdata csend cref]; auto.
  - split6; auto; try lia.
  - intros i. destruct (Hs i) as [A B]. unfold all_ser in *. cbn [wctx whs wlog cpart set_ref cdata] in *.
    rewrite Hctx in *. cbn [cpart] in *. split; [assumption|]. intros Hi. apply B. lia.
Qed.

Lemma inv_unref_shared H n w c r :
  ginv H n w -> wctx w = Some c -> 0 < wown w -> refcount_lower (cref c) = Some r -> r <> 0%N ->
  ginv H (S n) (mkw (Some (set_send (set_ref c r) false)) (whs w) (wown w - 1) (wlog w) (wstep w) (worc w)).
Proof.
  intros [Hc Hh Hl Hs] Hctx Hown Hlow Hnz. rewrite Hctx in Hc.
  destruct Hc as (Hr & Hr64 & Hpos & Hdet & Hok & Harm).
  rewrite lower_spec in Hlow by lia. inversion Hlow; subst r.
  constructor; cbn [wctx whs wown wlog set_ref set_send cdata csend cref]; auto.
  - split6; auto; lia.
  - intros i. destruct (Hs i) as [A B]. unfold all_ser in *. cbn [wctx whs wlog cpart set_ref set_send cdata] in *.
    rewrite Hctx in *. cbn [cpart] in *. split; [assumption|]. intros Hi. apply B. lia.
Qed.

Lemma inv_unref_last H n w c lg orc' :
  ginv H n w -> wctx w = Some c -> 0 < wown w -> refcount_lower (cref c) = Some 0%N ->
  (lg = [] \/ (0 < dlen (cdata c) /\ exists p, lg = [mkent (drq (cdata c)) (mark (firstn (dlen (cdata c)) (dval (cdata c)))) p])) ->
  ginv H (S n) (mkw None (whs w) (wown w - 1) (wlog w ++ lg) (wstep w) orc').
Proof.
  intros [Hc Hh Hl Hs] Hctx Hown Hlow Hlg. rewrite Hctx in Hc.
  destruct Hc as (Hr & Hr64 & Hpos & Hdet & Hok & Harm).
  rewrite lower_spec in Hlow by lia. inversion Hlow as [Hz].
  constructor; cbn [wctx whs wown wlog].
  - lia.
  - assumption.
  - intros e He. apply in_app_or in He. destruct He as [He|He]; [auto|].
    destruct Hlg as [->|(Hp & p & ->)]; [destruct He|]. destruct He as [<-|[]]. apply armed_entry; assumption.
  - intros i. destruct (Hs i) as [A B]. unfold all_ser in *. cbn [wctx whs wlog cpart] in *.
    rewrite Hctx in *. cbn [cpart app] in *. rewrite map_app, !cnt_app in *.
    destruct Hlg as [->|(Hp & p & ->)]; cbn [map erq]; rewrite ?cnt_nil, ?cnt_cons, ?cnt_nil.
    + split; [lia|]. intros Hi. specialize (B ltac:(lia)). lia.
    + rewrite (held_rq_pos _ Hp), cnt_cons, cnt_nil in *. split; [lia|]. intros Hi. specialize (B ltac:(lia)). lia.
Qed.

(* ---------- one operation ---------- *)
Definition good (H : list op) (w : world) (r : world * obs) : Prop :=
  ginv H (S (wstep w)) (fst r) /\ wstep (fst r) = wstep w /\ oret (snd r) <> RFault.

Lemma good_same H w w' ob :
  ginv H (wstep w) w -> wctx w' = wctx w -> whs w' = whs w -> wown w' = wown w -> wlog w' = wlog w ->
  wstep w' = wstep w -> oret ob <> RFault -> good H w (w', ob).
Proof.
  intros Hinv E1 E2 E3 E4 E5 Hr. split; [|split]; cbn [fst snd]; auto.
  apply (ginv_ext H (wstep w) (S (wstep w)) w); auto.
Qed.

Lemma with_ctx_good H w f :
  ginv H (wstep w) w ->
  (forall c, wctx w = Some c -> 0 < wown w -> exists r, f c = Ok r /\ good H w r) ->
  good H w (with_ctx w f).
Proof.
  intros Hinv Hf. unfold with_ctx. destruct (wown w) eqn:Hown.
  - apply good_same; auto. discriminate.
  - destruct (wctx w) as [c|] eqn:Hctx.
    + destruct (Hf c eq_refl ltac:(lia)) as (r & -> & Hg). exact Hg.
    + destruct Hinv as [Hc _ _ _]. rewrite Hctx in Hc. lia.
Qed.

Lemma ginv_ctx_facts H n w c :
  ginv H n w -> wctx w = Some c ->
  rd_ok (cdata c) /\ (0 < dlen (cdata c) -> (hd 0 (dval (cdata c)) < 128)%N).
Proof.
  intros [Hc _ _ _] Hctx. rewrite Hctx in Hc. destruct Hc as (_ & _ & _ & _ & Hok & Harm).
  split; [assumption|]. apply (armed_hd H); assumption.
Qed.

Lemma ginv_handle_facts H n w d :
  ginv H n w -> In (Some d) (whs w) ->
  rd_ok d /\ (0 < dlen d -> (hd 0 (dval d) < 128)%N).
Proof.
  intros [_ Hh _ _] Hin. destruct (Hh d Hin) as (Hok & _ & Harm).
  split; [assumption|]. apply (armed_hd H); assumption.
Qed.

Lemma arm_good H w c bs o :
  ginv H (wstep w) w -> wctx w = Some c -> nth_error H (wstep w) = Some o -> arm_bytes o = Some bs ->
  (hd 0 bs < 128)%N ->
  exists r, do_arm w c bs = Ok r /\ good H w r.
Proof.
  intros Hinv Hctx Hnth Hab Hhd. unfold do_arm.
  change (snd (ctx_conv TypeReplyDataPtr)) with (Some PData).
  unfold reply_set. destruct (Nat.ltb_spec (dmax (cdata c)) (length bs)) as [Hgt|Hle].
  - cbn [bind]. eexists; split; [reflexivity|]. apply good_same; auto; cbn; try discriminate.
    rewrite set_data_same. auto.
  - assert (Hat : arm_at H (wstep w) = Some bs) by (unfold arm_at; rewrite Hnth; assumption).
    destruct (inv_arm H (wstep w) w c bs Hinv Hctx Hat Hhd Hle) as (v & Hwr & _ & _ & _ & Hg).
    rewrite Hwr. cbn [bind]. eexists; split; [reflexivity|].
    split; [|split]; cbn [fst snd]; [exact Hg|reflexivity|discriminate].
Qed.

Lemma reply_good H w c p :
  ginv H (wstep w) w -> wctx w = Some c ->
  exists w' s, do_reply w c p = Ok (w', s) /\ send_outcome c (cdata c) p (worc w) s /\
    ginv H (S (wstep w)) w' /\ wstep w' = wstep w.
Proof.
  intros Hinv Hctx. destruct (ginv_ctx_facts _ _ _ _ Hinv Hctx) as [Hok Hhd].
  destruct (ctx_send_outcome c (cdata c) p (worc w) Hok Hhd) as (s & Hs & Ho).
  unfold do_reply. rewrite Hs. cbn [bind]. eexists _, s. split; [reflexivity|]. split; [assumption|].
  split; [|reflexivity]. eapply inv_ctx_sent; eauto.
Qed.

Lemma step0_good H w o :
  ginv H (wstep w) w -> nth_error H (wstep w) = Some o -> wf_op o = true ->
  good H w (step0 w o).
Proof.
  intros Hinv Hnth Hwf. destruct o; cbn [step0].
  - (* conv *)
    apply with_ctx_good; [assumption|]. intros c Hctx Hown.
    destruct (ctx_conv t) as [r p]. eexists; split; [reflexivity|].
    apply good_same; auto. discriminate.
  - (* arm *)
    apply with_ctx_good; [assumption|]. intros c Hctx Hown.
    apply (arm_good H w c bs (OArm bs)); auto.
    cbn in Hwf. unfold wf_id in Hwf. apply N.ltb_lt in Hwf. assumption.
  - (* armz *)
    apply with_ctx_good; [assumption|]. intros c Hctx Hown.
    apply (arm_good H w c (repeat 0%N n) (OArmZ n)); auto.
    destruct n; cbn; lia.
  - (* reply *)
    apply with_ctx_good; [assumption|]. intros c Hctx Hown.
    destruct (reply_good H w c p Hinv Hctx) as (w' & s & Hr & _ & Hg & Hst).
    rewrite Hr. cbn [bind]. eexists; split; [reflexivity|].
    split; [|split]; cbn [fst snd]; [assumption|assumption|discriminate].
  - (* context reply *)
    apply with_ctx_good; [assumption|]. intros c Hctx Hown.
    destruct ((code <? -128)%Z || (127 <? code)%Z).
    + eexists; split; [reflexivity|]. apply good_same; auto. discriminate.
    + destruct (reply_good H w c (Some (ctx_reply_payload code text)) Hinv Hctx) as (w' & s & Hr & _ & Hg & Hst).
      rewrite Hr. cbn [bind]. eexists; split; [reflexivity|].
      split; [|split]; cbn [fst snd]; [assumption|assumption|discriminate].
  - (* defer *)
    apply with_ctx_good; [assumption|]. intros c Hctx Hown.
    destruct (Nat.eqb_spec (dlen (cdata c)) 0) as [Hz|Hz].
    + eexists; split; [reflexivity|]. apply good_same; auto. discriminate.
    + destruct (refcount_raise (cref c)) as [r|] eqn:Hraise.
      * eexists; split; [reflexivity|].
        split; [|split]; cbn [fst snd]; [|reflexivity|discriminate].
        apply inv_defer; auto. lia.
      * eexists; split; [reflexivity|]. apply good_same; auto. discriminate.
  - (* deferred reply *)
    destruct (nth_error (whs w) k) as [[d|]|] eqn:Hk;
      [| apply good_same; auto; discriminate | apply good_same; auto; discriminate].
    destruct (nth_error_split _ _ Hk) as (l1 & l2 & Hhs & Hlen).
    assert (Hin : In (Some d) (whs w)) by (rewrite Hhs; apply in_or_app; right; left; reflexivity).
    destruct (wctx w) as [c|] eqn:Hctx.
    2:{ exfalso. destruct Hinv as [Hc _ _ _]. rewrite Hctx, Hhs, live_app, live_cons in Hc. cbn in Hc. lia. }
    destruct (ginv_handle_facts _ _ _ _ Hinv Hin) as [Hok Hhd].
    destruct (ctx_send_outcome c d p (worc w) Hok Hhd) as (s & Hs & Ho).
    rewrite Hs.
    replace (upd_h (whs w) k (Some (srd s))) with (l1 ++ Some (srd s) :: l2)
      by (rewrite Hhs, <- Hlen, upd_h_split; reflexivity).
    replace (upd_h (whs w) k None) with (l1 ++ None :: l2)
      by (rewrite Hhs, <- Hlen, upd_h_split; reflexivity).
    destruct ((sret s <? 0)%Z && is_some p) eqn:Hb.
    + apply andb_true_iff in Hb. destruct Hb as [Hneg _]. apply Z.ltb_lt in Hneg.
      split; [|split]; cbn [fst snd]; [|reflexivity|discriminate].
      eapply inv_handle_keep; eauto.
    + split; [|split]; cbn [fst snd]; [|reflexivity|discriminate].
      eapply inv_handle_done; eauto.
  - (* addref *)
    apply with_ctx_good; [assumption|]. intros c Hctx Hown.
    destruct (refcount_raise (cref c)) as [r|] eqn:Hraise.
    + eexists; split; [reflexivity|].
      split; [|split]; cbn [fst snd]; [|reflexivity|discriminate].
      apply inv_ref; auto.
    + eexists; split; [reflexivity|]. apply good_same; auto. discriminate.
  - (* unref *)
    apply with_ctx_good; [assumption|]. intros c Hctx Hown.
    assert (Hrpos : (0 < cref c)%N).
    { destruct Hinv as [Hc _ _ _]. rewrite Hctx in Hc. destruct Hc as (Hr & _ & Hpos & _). lia. }
    rewrite (lower_spec _ Hrpos).
    destruct (N.eqb_spec (cref c - 1) 0) as [Hz|Hz].
    + destruct (csend c && negb (dlen (cdata c) =? 0)) eqn:Hb.
      * destruct (ginv_ctx_facts _ _ _ _ Hinv Hctx) as [Hok Hhd].
        destruct (ctx_send_outcome c (cdata c) None (worc w) Hok Hhd) as (s & Hs & Ho).
        rewrite Hs. cbn [bind]. eexists; split; [reflexivity|].
        split; [|split]; cbn [fst snd]; [|reflexivity|discriminate].
        unfold w_sent. apply inv_unref_last with (c := c); auto.
        { rewrite lower_spec, Hz by assumption. reflexivity. }
        apply send_outcome_shape in Ho. destruct Ho as [[_ E]|(Hp & _ & _ & [E|E])]; rewrite E; auto.
        right. split; [assumption|]. eexists; reflexivity.
      * eexists; split; [reflexivity|].
        split; [|split]; cbn [fst snd]; [|reflexivity|discriminate].
        rewrite <- (app_nil_r (wlog w)). apply inv_unref_last with (c := c); auto.
        rewrite lower_spec, Hz by assumption. reflexivity.
    + eexists; split; [reflexivity|].
      split; [|split]; cbn [fst snd]; [|reflexivity|discriminate].
      apply inv_unref_shared; auto. apply lower_spec. assumption.
Qed.

Lemma ginv_bump H n w : ginv H n w -> ginv H n (bump w).
Proof. intros Hinv. apply (ginv_ext H n n w); auto. Qed.

Lemma step_good H w o :
  ginv H (wstep w) w -> nth_error H (wstep w) = Some o -> wf_op o = true ->
  ginv H (wstep (fst (step w o))) (fst (step w o)) /\ wstep (fst (step w o)) = S (wstep w)
  /\ oret (snd (step w o)) <> RFault.
Proof.
  intros Hinv Hnth Hwf. destruct (step0_good H w o Hinv Hnth Hwf) as (Hg & Hst & Hr).
  unfold step. destruct (step0 w o) as [w' ob]. cbn [fst snd] in *.
  cbn [wstep bump]. rewrite Hst. split; [|split]; auto. apply ginv_bump. assumption.
Qed.

(* ---------- histories ---------- *)
Definition all_wf (ops : list op) : Prop := Forall (fun o => wf_op o = true) ops.

Lemma exec_good ops : forall pre w,
  ginv (pre ++ ops) (wstep w) w -> wstep w = length pre -> all_wf ops ->
  ginv (pre ++ ops) (wstep (exec w ops)) (exec w ops) /\ wstep (exec w ops) = length (pre ++ ops).
Proof.
  induction ops as [|o ops IH]; intros pre w Hinv Hst Hwf.
  - cbn [exec]. rewrite app_nil_r in *. auto.
  - inversion Hwf as [|? ? Ho Hwf']; subst.
    assert (Hnth : nth_error (pre ++ o :: ops) (wstep w) = Some o).
    { rewrite Hst, nth_error_app2, Nat.sub_diag by lia. reflexivity. }
    destruct (step_good _ w o Hinv Hnth Ho) as (Hg & Hs' & _).
    cbn [exec].
    replace (pre ++ o :: ops) with ((pre ++ [o]) ++ ops) in * by (rewrite <- app_assoc; reflexivity).
    apply IH; auto. rewrite Hs', Hst, app_length. cbn. lia.
Qed.

Lemma run_no_fault ops : forall pre w,
  ginv (pre ++ ops) (wstep w) w -> wstep w = length pre -> all_wf ops ->
  Forall (fun r => oret (fst r) <> RFault) (run w ops).
Proof.
  induction ops as [|o ops IH]; intros pre w Hinv Hst Hwf.
  - constructor.
  - inversion Hwf as [|? ? Ho Hwf']; subst.
    assert (Hnth : nth_error (pre ++ o :: ops) (wstep w) = Some o).
    { rewrite Hst, nth_error_app2, Nat.sub_diag by lia. reflexivity. }
    destruct (step_good _ w o Hinv Hnth Ho) as (Hg & Hs' & Hr).
    cbn [run]. destruct (step w o) as [w' ob] eqn:Hstep. cbn [fst snd] in *.
    constructor; [exact Hr|].
    replace (pre ++ o :: ops) with ((pre ++ [o]) ++ ops) in * by (rewrite <- app_assoc; reflexivity).
    apply (IH (pre ++ [o])); auto. rewrite Hs', Hst, app_length. cbn. lia.
Qed.

Lemma init_inv H max send ptr orc : ginv H 0 (init max send ptr orc).
Proof.
  unfold init. destruct (65535 <? N.of_nat max)%N.
  - constructor; cbn; auto; try contradiction.
  - constructor; cbn [wctx whs wown wlog cref csend cdata live filter length].
    + split6; auto; try lia; try reflexivity.
      * split; cbn [dval dmax dlen]; [apply repeat_length|lia].
      * intros Hx. cbn in Hx. lia.
    + intros d [].
    + intros e [].
    + intros i. cbn. split; [lia|reflexivity].
Qed.

Lemma init_step max send ptr orc : wstep (init max send ptr orc) = 0.
Proof. unfold init. destruct (65535 <? N.of_nat max)%N; reflexivity. Qed.

(* the invariant holds after every history *)
Lemma reach_inv max send ptr orc ops :
  all_wf ops ->
  let w := exec (init max send ptr orc) ops in
  ginv ops (wstep w) w /\ wstep w = length ops.
Proof.
  intros Hwf. apply (exec_good ops [] (init max send ptr orc)); auto.
  - rewrite init_step. apply init_inv.
  - apply init_step.
Qed.

Lemma reach_inv_prefix max send ptr orc pre post :
  all_wf (pre ++ post) ->
  let w := exec (init max send ptr orc) pre in
  ginv (pre ++ post) (wstep w) w /\ wstep w = length pre.
Proof.
  intros Hwf w.
  assert (Hpre : all_wf pre) by (apply Forall_app in Hwf; tauto).
  (* run the prefix inside the longer history *)
  assert (Hgen : forall ops pre0 w0, ginv (pre0 ++ ops ++ post) (wstep w0) w0 -> wstep w0 = length pre0 ->
            all_wf ops ->
            ginv (pre0 ++ ops ++ post) (wstep (exec w0 ops)) (exec w0 ops) /\ wstep (exec w0 ops) = length (pre0 ++ ops)).
  { induction ops as [|o ops IH]; intros pre0 w0 Hinv Hst Hw.
    - cbn [exec app] in *. rewrite app_nil_r. auto.
    - inversion Hw as [|? ? Ho Hw']; subst.
      assert (Hnth : nth_error (pre0 ++ (o :: ops) ++ post) (wstep w0) = Some o).
      { rewrite Hst, nth_error_app2, Nat.sub_diag by lia. reflexivity. }
      destruct (step_good _ w0 o Hinv Hnth Ho) as (Hg & Hs' & _).
      cbn [exec].
      replace (pre0 ++ (o :: ops) ++ post) with ((pre0 ++ [o]) ++ ops ++ post) in * by (rewrite <- !app_assoc; reflexivity).
      replace (pre0 ++ o :: ops) with ((pre0 ++ [o]) ++ ops) by (rewrite <- app_assoc; reflexivity).
      apply IH; auto. rewrite Hs', Hst, app_length. cbn. lia. }
  destruct (Hgen pre [] (init max send ptr orc)) as [A B]; auto.
  - rewrite init_step. apply init_inv.
  - apply init_step.
Qed.
