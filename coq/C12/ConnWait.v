(* C12/ConnWait.v — the requester side: answers are routed by id to the handler registered for it, once. *)
From MptV Require Import Base.Mem C12.ReplyModel C12.ReplySpec C12.ConnModel.
Local Open Scope nat_scope.

Definition act_ids (tab : list went) : list N := map weid (tactive tab).

Lemma tfind_some tab id k tg : tfind tab id = Some (k, tg) ->
  nth_error tab k = Some (mkwe id (Some tg)) /\
  forall j e, j < k -> nth_error tab j = Some e -> we_free e = true \/ weid e <> id.
Proof.
  revert k. induction tab as [|e tab IH]; intros k; cbn [tfind]; [discriminate|].
  destruct e as [eid [t|]]; cbn [wetag weid].
  - destruct (N.eqb_spec eid id) as [->|Hne].
    + intros E; inversion E; subst. split; [reflexivity|]. intros j e Hj. lia.
    + destruct (tfind tab id) as [[k' g]|] eqn:Hf; [|discriminate].
      intros E; inversion E; subst. destruct (IH k' eq_refl) as [A B]. split; [exact A|].
      intros j e Hj. destruct j; cbn [nth_error].
      * intros E'; inversion E'; subst. right. exact Hne.
      * apply B. lia.
  - destruct (tfind tab id) as [[k' g]|] eqn:Hf; [|discriminate].
    intros E; inversion E; subst. destruct (IH k' eq_refl) as [A B]. split; [exact A|].
    intros j e Hj. destruct j; cbn [nth_error].
    + intros E'; inversion E'; subst. left. reflexivity.
    + apply B. lia.
Qed.

Lemma tfind_none tab id : tfind tab id = None <-> ~ In id (act_ids tab).
Proof.
  unfold act_ids. induction tab as [|e tab IH]; cbn [tfind tactive filter map]; [tauto|].
  destruct e as [eid [t|]]; cbn [wetag weid we_free negb map].
  - destruct (N.eqb_spec eid id) as [->|Hne].
    + split; [discriminate|]. intros H; exfalso; apply H; left; reflexivity.
    + destruct (tfind tab id) as [[k g]|].
      * split; [discriminate|]. intros H. exfalso. apply H. right.
        destruct IH as [_ IH']. destruct (in_dec N.eq_dec id (map weid (filter (fun e => negb (we_free e)) tab))); [assumption|].
        specialize (IH' n). discriminate.
      * split; [|reflexivity]. intros _ [H|H]; [congruence|]. destruct IH as [IH' _]. apply (IH' eq_refl H).
  - destruct (tfind tab id) as [[k g]|].
    + split; [discriminate|]. intros H. destruct IH as [_ IH']. specialize (IH' H). discriminate.
    + split; [|reflexivity]. intros _. apply IH. reflexivity.
Qed.

(* releasing slot k removes exactly its id from the ids in use *)
Lemma release_ids tab k id tg : nth_error tab k = Some (mkwe id (Some tg)) ->
  exists l1 l2, act_ids tab = l1 ++ id :: l2 /\ act_ids (trelease tab k) = l1 ++ l2.
Proof.
  intros Hk. unfold trelease. rewrite Hk. cbn [weid].
  destruct (nth_error_split _ _ Hk) as (t1 & t2 & -> & <-).
  unfold tupd. rewrite firstn_app, firstn_all, Nat.sub_diag. cbn [firstn]. rewrite app_nil_r.
  replace (skipn (S (length t1)) (t1 ++ mkwe id (Some tg) :: t2)) with t2.
  2:{ replace (S (length t1)) with (length (t1 ++ [mkwe id (Some tg)])) by (rewrite app_length; cbn; lia).
      replace (t1 ++ mkwe id (Some tg) :: t2) with ((t1 ++ [mkwe id (Some tg)]) ++ t2) by (rewrite <- app_assoc; reflexivity).
      rewrite skipn_app, skipn_all, Nat.sub_diag. reflexivity. }
  unfold act_ids, tactive. rewrite !filter_app, !map_app. cbn [filter we_free wetag negb map weid].
  eexists _, _. split; reflexivity.
Qed.

(* an answered request is not answered again: with distinct ids in use, the id is gone after the release *)
Lemma answered_once tab v k tg : NoDup (act_ids tab) -> tfind tab v = Some (k, tg) ->
  tfind (trelease tab k) v = None /\ NoDup (act_ids (trelease tab k)).
Proof.
  intros Hnd Hf. destruct (tfind_some _ _ _ _ Hf) as [Hk _].
  destruct (release_ids tab k v tg Hk) as (l1 & l2 & E1 & E2).
  rewrite E1 in Hnd. split.
  - apply tfind_none. rewrite E2. apply NoDup_remove_2 in Hnd. exact Hnd.
  - rewrite E2. apply NoDup_remove_1 in Hnd. exact Hnd.
Qed.

(* what the dispatcher does with a reply-marked message: the handler registered under the value of the
   id bytes (mark removed) gets the payload and is released; an id nobody waits for reaches no handler *)
Lemma dispatch_answer_spec c m e1 e2 :
  let id := unmark (firstn (cidl c) m) in
  match buf2id id with
  | Ok (v, _) =>
    match tfind (ctab c) v with
    | Some (k, tg) =>
      dispatch_answer c m e1 e2 = (set_tab c (trelease (ctab c) k), answer_ret c tg (skipn (cidl c) m),
                                   [(tg, Some (skipn (cidl c) m))]) /\
      nth_error (ctab c) k = Some (mkwe v (Some tg))
    | None => dispatch_answer c m e1 e2 = (c, e2, []) /\ ~ In v (act_ids (ctab c))
    end
  | _ => dispatch_answer c m e1 e2 = (c, e1, [])
  end.
Proof.
  intros id. unfold dispatch_answer. fold id.
  destruct (buf2id id) as [[v u]| |]; try reflexivity.
  destruct (tfind (ctab c) v) as [[k tg]|] eqn:Hf.
  - split; [reflexivity|]. apply (tfind_some _ _ _ _ Hf).
  - split; [reflexivity|]. apply tfind_none. exact Hf.
Qed.
