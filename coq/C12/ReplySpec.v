(* C12/ReplySpec.v — the abstract specification of C12.  It knows nothing about
   len fields, the mark bit being toggled in place, reference counts or storage:

   ids.      A header of n bytes can carry exactly the ids below 2^(8n-1) (the top
             bit of the first byte is the reply mark); the bytes are the big-endian
             digits; reading back yields the value, more than 8 significant bytes
             are refused.
   replies.  The context holds at most one open request ([s_cur]); a deferred handle
             holds the request that was moved into it.  A request is a pair (number
             of the arm operation, id bytes).  A reply attempt on a holder without
             open request is refused; otherwise the transport is asked once with
             the request's id marked as reply: accepted -> logged, request closed;
             rejected -> request stays open (retry allowed).  Releasing the last
             holder of a context with an open request asks the transport once with
             a NULL message (default reply).  A non-final release of a context
             reference detaches the transport: requests answered later are dropped
             silently.  Arming touches nothing but the open request. *)
From MptV Require Import Base.Mem C12.ReplyModel.
Local Open Scope nat_scope.

(* ---------------- ids ---------------- *)
Definition p256 (n : nat) : N := (256 ^ N.of_nat n)%N.

(* id fits a header of n bytes *)
Definition fits (id : N) (n : nat) : bool :=
  match n with
  | 0 => (id =? 0)%N
  | S m => (id <? 128 * p256 m)%N
  end.

(* big-endian digits: repeatedly put the low byte in front *)
Fixpoint be_acc (n : nat) (id : N) (acc : list byte) : list byte :=
  match n with
  | 0 => acc
  | S m => be_acc m (id / 256)%N ((id mod 256)%N :: acc)
  end.
Definition be (n : nat) (id : N) : list byte := be_acc n id [].

Definition valf (h : N) (bs : list byte) : N := fold_left (fun a b => (a * 256 + b)%N) bs h.
Definition value (bs : list byte) : N := valf 0%N bs.

(* number of bytes left after the leading zero bytes *)
Fixpoint sig_bytes (bs : list byte) : nat :=
  match bs with
  | [] => 0
  | b :: t => if (b =? 0)%N then sig_bytes t else length bs
  end.

Definition s_id2buf (id : N) (n : nat) : option (list byte) :=
  if fits id n then Some (be n id) else None.

Definition s_buf2id (bs : list byte) : option N :=
  if 8 <? sig_bytes bs then None else Some (value bs).

(* ---------------- replies ---------------- *)
Record sreq := mkq { qser : nat; qid : list byte }.

Record sworld := mks {
  s_own : nat;                    (* context references held by the caller *)
  s_att : bool;                   (* transport attached *)
  s_ptr : bool;                   (* reply target present *)
  s_max : nat;                    (* id width of the context *)
  s_cur : option sreq;            (* open request of the context *)
  s_hs : list (option sreq);      (* deferred handles; None: consumed *)
  s_log : list entry;
  s_step : nat;
  s_orc : list Z
}.

Definition mark (bs : list byte) : list byte :=
  match bs with [] => [] | b :: t => N.lor b 128 :: t end.

Definition slive (hs : list (option sreq)) : nat := length (filter is_some hs).
Definition holders (s : sworld) : nat := s_own s + slive (s_hs s).
Definition supd (hs : list (option sreq)) (k : nat) (v : option sreq) :=
  firstn k hs ++ v :: skipn (S k) hs.

(* one reply attempt for request q with message p:
   (request still open?, result, transport calls, log additions, remaining script) *)
Definition s_answer (s : sworld) (q : sreq) (p : option (list byte))
  : bool * Z * list call * list entry * list Z :=
  if negb (s_att s) then (false, 0%Z, [], [], s_orc s)          (* dropped *)
  else if negb (s_ptr s) then (true, 0%Z, [], [], s_orc s)      (* no target: nothing happens *)
  else
    let r := hd 0%Z (s_orc s) in
    let c := mkcall (mark (qid q)) p r in
    if (0 <=? r)%Z then (false, r, [c], [mkent (qser q) (mark (qid q)) p], tl (s_orc s))
    else (true, r, [c], [], tl (s_orc s)).

Definition s_set (s : sworld) own att cur hs log orc :=
  mks own att (s_ptr s) (s_max s) cur hs log (s_step s) orc.

(* reply on the context itself *)
Definition s_reply (s : sworld) (p : option (list byte)) : sworld * Z * list call :=
  match s_cur s with
  | None => (s, EBadArgument, [])
  | Some q =>
    let '(open, r, cs, lg, orc) := s_answer s q p in
    (s_set s (s_own s) (s_att s) (if open then Some q else None) (s_hs s) (s_log s ++ lg) orc, r, cs)
  end.

Definition sstep0 (s : sworld) (o : op) : sworld * obs :=
  let held := negb (s_own s =? 0) in
  match o with
  | OConv t =>
    if held then let '(r, p) := ctx_conv t in (s, mkobs (RConv r p) []) else (s, mkobs RSkip [])
  | OArm _ | OArmZ _ =>
    let bs := match o with OArm bs => bs | OArmZ n => repeat 0%N n | _ => [] end in
    if held then
      if s_max s <? length bs then (s, mkobs (RInt EBadValue) [])
      else
        (s_set s (s_own s) (s_att s)
               (if length bs =? 0 then None else Some (mkq (s_step s) bs))
               (s_hs s) (s_log s) (s_orc s),
         mkobs (RInt (Z.of_nat (s_max s - length bs))) [])
    else (s, mkobs RSkip [])
  | OReply p =>
    if held then let '(s', r, cs) := s_reply s p in (s', mkobs (RInt r) cs) else (s, mkobs RSkip [])
  | OCtxReply code text =>
    if held then
      if (code <? -128)%Z || (127 <? code)%Z then (s, mkobs (RInt EBadArgument) [])
      else
        let '(s', r, cs) := s_reply s (Some (ctx_reply_payload code text)) in
        (s', mkobs (RInt (if (r <? 0)%Z then r else 0%Z)) cs)
    else (s, mkobs RSkip [])
  | ODefer =>
    if held then
      match s_cur s with
      | None => (s, mkobs (RHandle None) [])
      | Some q =>
        if (N.of_nat (holders s) + 1 <? two64)%N then
          (s_set s (s_own s) (s_att s) None (s_hs s ++ [Some q]) (s_log s) (s_orc s),
           mkobs (RHandle (Some (length (s_hs s)))) [])
        else (s, mkobs (RHandle None) [])
      end
    else (s, mkobs RSkip [])
  | OHReply k p =>
    match nth_error (s_hs s) k with
    | Some (Some q) =>
      let '(open, r, cs, lg, orc) := s_answer s q p in
      if (r <? 0)%Z && is_some p then
        (* rejected: the handle stays, the request stays open *)
        (s_set s (s_own s) (s_att s) (s_cur s) (s_hs s) (s_log s ++ lg) orc, mkobs (RInt r) cs)
      else
        (* the handle is consumed whatever happened to the request *)
        (s_set s (s_own s) (s_att s) (s_cur s) (supd (s_hs s) k None) (s_log s ++ lg) orc,
         mkobs (RInt (if (r <? 0)%Z then 0%Z else r)) cs)
    | _ => (s, mkobs RSkip [])
    end
  | ORef =>
    if held then
      if (N.of_nat (holders s) + 1 <? two64)%N then
        (s_set s (S (s_own s)) (s_att s) (s_cur s) (s_hs s) (s_log s) (s_orc s),
         mkobs (RCount (N.of_nat (holders s) + 1)) [])
      else (s, mkobs (RCount 0) [])
    else (s, mkobs RSkip [])
  | OUnref =>
    if held then
      if holders s =? 1 then
        (* last holder: default reply for an open request while the transport is attached *)
        match s_cur s with
        | Some q =>
          if s_att s then
            let '(_, _, cs, lg, orc) := s_answer s q None in
            (s_set s 0 false None (s_hs s) (s_log s ++ lg) orc, mkobs RDone cs)
          else (s_set s 0 false None (s_hs s) (s_log s) (s_orc s), mkobs RDone [])
        | None => (s_set s 0 false None (s_hs s) (s_log s) (s_orc s), mkobs RDone [])
        end
      else
        (* other holders remain: the transport is detached *)
        (s_set s (s_own s - 1) false (s_cur s) (s_hs s) (s_log s) (s_orc s), mkobs RDone [])
    else (s, mkobs RSkip [])
  end.

Definition sbump (s : sworld) :=
  mks (s_own s) (s_att s) (s_ptr s) (s_max s) (s_cur s) (s_hs s) (s_log s) (S (s_step s)) (s_orc s).
Definition sstep (s : sworld) (o : op) : sworld * obs :=
  let '(s', ob) := sstep0 s o in (sbump s', ob).

Definition sinit (max : nat) (send ptr : bool) (orc : list Z) : sworld :=
  if (65535 <? N.of_nat max)%N then mks 0 false false 0 None [] [] 0 orc
  else mks 1 send ptr max None [] [] 0 orc.

(* what an observer sees of the state: open request of the context (None: the caller holds no
   reference), open request per handle, the log of accepted replies *)
Record view := mkview { v_ctx : option (option (list byte)); v_hs : list (option (list byte)); v_log : list entry }.

Definition sview (s : sworld) : view :=
  mkview (if s_own s =? 0 then None else Some (option_map qid (s_cur s)))
         (map (option_map qid) (s_hs s)) (s_log s).

Definition armed_id (d : rdata) : option (list byte) :=
  if dlen d =? 0 then None else Some (firstn (dlen d) (dval d)).

Definition mview (w : world) : view :=
  mkview (if wown w =? 0 then None
          else Some (match wctx w with Some c => armed_id (cdata c) | None => None end))
         (map (fun h => match h with Some d => Some (firstn (dlen d) (dval d)) | None => None end) (whs w))
         (wlog w).

Fixpoint srun (s : sworld) (ops : list op) : list (obs * view) :=
  match ops with
  | [] => []
  | o :: ops => let '(s', ob) := sstep s o in (ob, sview s') :: srun s' ops
  end.

Definition mrun (w : world) (ops : list op) : list (obs * view) :=
  map (fun r => (fst r, mview (snd r))) (run w ops).

(* well-formed request id: the reply mark bit is not part of an id *)
Definition wf_id (bs : list byte) : bool := (hd 0%N bs <? 128)%N.
Definition wf_op (o : op) : bool :=
  match o with OArm bs => wf_id bs | _ => true end.
