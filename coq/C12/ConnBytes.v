(* C12/ConnBytes.v — the two places of the connection layer that work on single bytes / single slots:
   (1) "the id is all zero" (streamWrapper / datagram branch of mpt_connection_dispatch: for (i..) if (!id[i]) continue)
       is a test on every byte for the VALUE zero: any byte different from 0 (0x80 and 0xff included, in any position)
       makes the message a request that gets a reply context; only ids whose bytes are all 0 are notifications;
   (2) mpt_command_reserve: the table after the compaction loop is exactly the list of slots in use, in their order,
       followed by the new slot (nothing lost, nothing doubled, nothing reordered). *)
From MptV Require Import Base.Mem C12.ReplyModel C12.ReplySpec C12.ConnModel C12.ConnSpecProps C12.ConnWait
  C12.ConnReserve C12.ConnProofs.
Local Open Scope nat_scope.

Lemma all_zero_true_iff bs : all_zero bs = true <-> (forall b, In b bs -> b = 0%N).
Proof.
  unfold all_zero. rewrite forallb_forall. split; intros H b Hb.
  - apply N.eqb_eq. apply H. exact Hb.
  - apply N.eqb_eq. apply H. exact Hb.
Qed.

Lemma all_zero_false_iff bs : all_zero bs = false <-> (exists b, In b bs /\ b <> 0%N).
Proof.
  unfold all_zero. induction bs as [|x bs IH]; cbn [forallb].
  - split; [discriminate|]. intros (b & [] & _).
  - destruct (N.eqb_spec x 0) as [->|Hne]; cbn [andb].
    + rewrite IH. split.
      * intros (b & Hb & Hn). exists b. split; [right; exact Hb|exact Hn].
      * intros (b & [<-|Hb] & Hn); [congruence|]. exists b. split; assumption.
    + split; [|reflexivity]. intros _. exists x. split; [left; reflexivity|exact Hne].
Qed.

(* bit 7 of a byte behind the first one is id content: such an id is a request *)
Lemma all_zero_high_bit pre post : all_zero (pre ++ 128%N :: post) = false.
Proof. apply all_zero_false_iff. exists 128%N. split; [apply in_elt|discriminate]. Qed.

(* C12_conn_request_answered_once with the byte-level hypothesis *)
Lemma conn_request_nonzero_byte dg idl ops m acts code :
  let w := fst (mcexec (minit dg idl) ops) in
  let c := snd (mcexec (minit dg idl) ops) in
  wown w = 1 -> cclosed c = false -> cgone c = false -> (cdg c = true \/ cact c = false) ->
  0 < cidl c -> cidl c <= length m -> (hd 0 m < 128)%N ->
  (exists b, In b (firstn (cidl c) m) /\ b <> 0%N) ->
  forallb is_reply_act acts = true ->
  let id := firstn (cidl c) m in
  let p0 := first_reply acts code in
  exists w',
    dispatch_request world mstep marmed wstep w c m (Some (acts, code)) =
      (w', set_req c (wstep w) id, code, Some (true, skipn (cidl c) m),
       match acts with [] => [] | _ :: rest => HInt (tans c p0) :: map (fun _ => HInt EBadArgument) rest end,
       [mark id ++ paybytes p0], false) /\
    marmed w' = false /\ wown w' = 1 /\ wlog w' = wlog w ++ [mkent (wstep w) (mark id) p0].
Proof.
  intros w c H1 H2 H2' H3 H4 H5 H6 H7 H8. apply conn_request_answered_once; try assumption.
  apply all_zero_false_iff. exact H7.
Qed.

(* only an id whose bytes are all 0 is a notification: no reply context is touched, nothing goes out *)
Lemma conn_notification_silent (w : world) c m h :
  (forall b, In b (firstn (cidl c) m) -> b = 0%N) ->
  dispatch_request world mstep marmed wstep w c m h =
    (w, c, match h with None => 0%Z | Some (_, code) => code end,
     match h with None => None | Some _ => Some (false, skipn (cidl c) m) end, [], [], false).
Proof.
  intros H. apply all_zero_true_iff in H. unfold dispatch_request. rewrite H.
  destruct h as [[acts code]|]; reflexivity.
Qed.

(* mpt_command_reserve on an existing table *)
Lemma reserve_max_table tab mxv tag tab' k id :
  reserve_max true tab mxv tag = Some (tab', k, id) ->
  tab' = tactive tab ++ [mkwe id (Some tag)] /\ k = length (tactive tab).
Proof.
  unfold reserve_max. destruct (N.eqb_spec (mxv) 0) as [|Hmx]; [discriminate|]. cbn [negb].
  destruct (compact_all tab) as (tab1 & used & -> & Hbase & Hused). rewrite Hbase.
  destruct (if (mxv <=? _)%N then _ else _) as [id0|]; [|discriminate].
  intros E; inversion E; subst. split; reflexivity.
Qed.

Lemma reserve_table tab idl tag tab' k id :
  reserve true tab idl tag = Some (tab', k, id) ->
  tab' = tactive tab ++ [mkwe id (Some tag)] /\ k = length (tactive tab).
Proof. unfold reserve. apply reserve_max_table. Qed.

(* the layout that breaks a compaction which forgets to clear the slot it moved from: two free slots in front of
   three used ones *)
Example reserve_two_free_three_used :
  reserve true [mkwe 1 None; mkwe 2 None; mkwe 3 (Some 3); mkwe 4 (Some 4); mkwe 5 (Some 5)] 2 6 =
  Some ([mkwe 3 (Some 3); mkwe 4 (Some 4); mkwe 5 (Some 5); mkwe 6 (Some 6)], 3, 6%N).
Proof. vm_compute. reflexivity. Qed.
