(* C12/IdProofs.v — mpt_message_id2buf / mpt_message_buf2id against the id specification. *)
From MptV Require Import Base.Mem C12.ReplyModel C12.ReplySpec.
Local Open Scope N_scope.

(* ---------- powers of 256 ---------- *)
Lemma p256_0 : p256 0 = 1.
Proof. reflexivity. Qed.

Lemma p256_S n : p256 (S n) = 256 * p256 n.
Proof. unfold p256. rewrite Nat2N.inj_succ, N.pow_succ_r'. reflexivity. Qed.

Lemma p256_pos n : 0 < p256 n.
Proof. unfold p256. apply N.neq_0_lt_0, N.pow_nonzero. discriminate. Qed.

Lemma p256_lt n m : (n < m)%nat -> p256 n < p256 m.
Proof. intros H. unfold p256. apply N.pow_lt_mono_r; lia. Qed.

Lemma p256_le n m : (n <= m)%nat -> p256 n <= p256 m.
Proof. intros H. unfold p256. apply N.pow_le_mono_r; lia. Qed.

Lemma p256_8 : p256 8 = two64.
Proof. reflexivity. Qed.

Lemma div_p256_S id n : id / 256 / p256 n = id / p256 (S n).
Proof. rewrite p256_S, N.div_div; [reflexivity| discriminate | pose proof (p256_pos n); lia]. Qed.

(* ---------- id2buf ---------- *)
Lemma id2buf_loop_bytes len : forall id used acc,
  snd (id2buf_loop len id used (id mod 256 :: acc)) = be_acc (S len) id acc.
Proof.
  induction len as [|len IH]; intros id used acc.
  - reflexivity.
  - cbn [id2buf_loop]. rewrite IH. reflexivity.
Qed.

Lemma id2buf_loop_id len : forall id used acc,
  fst (fst (id2buf_loop len id used acc)) = id / p256 len.
Proof.
  induction len as [|len IH]; intros id used acc.
  - cbn. rewrite N.div_1_r. reflexivity.
  - cbn [id2buf_loop]. rewrite IH. apply div_p256_S.
Qed.

Lemma hd_be_acc m : forall id acc, hd 0 (be_acc (S m) id acc) = (id / p256 m) mod 256.
Proof.
  induction m as [|m IH]; intros id acc.
  - cbn. rewrite N.div_1_r. reflexivity.
  - change (be_acc (S (S m)) id acc) with (be_acc (S m) (id / 256) (id mod 256 :: acc)).
    rewrite IH, div_p256_S. reflexivity.
Qed.

Lemma be_acc_length n : forall id acc, length (be_acc n id acc) = (n + length acc)%nat.
Proof.
  induction n as [|n IH]; intros id acc; [reflexivity|].
  cbn [be_acc]. rewrite IH. cbn [length]. lia.
Qed.

Lemma be_length n id : length (be n id) = n.
Proof. unfold be. rewrite be_acc_length. cbn. lia. Qed.

Definition bytes_ok (bs : list N) := Forall (fun b => b < 256) bs.

Lemma be_acc_bytes n : forall id acc, bytes_ok acc -> bytes_ok (be_acc n id acc).
Proof.
  induction n as [|n IH]; intros id acc H; [exact H|].
  cbn [be_acc]. apply IH. constructor; [|exact H]. apply N.mod_lt. discriminate.
Qed.

Lemma be_bytes n id : bytes_ok (be n id).
Proof. apply be_acc_bytes. constructor. Qed.

Lemma valf_be_acc n : forall id acc, valf (id / p256 n) (be_acc n id acc) = valf id acc.
Proof.
  induction n as [|n IH]; intros id acc.
  - cbn [be_acc]. rewrite p256_0, N.div_1_r. reflexivity.
  - cbn [be_acc]. rewrite <- div_p256_S, IH.
    unfold valf. cbn [fold_left]. f_equal.
    pose proof (N.div_mod id 256). lia.
Qed.

Lemma value_be n id : id < p256 n -> value (be n id) = id.
Proof.
  intros H. unfold value, be.
  rewrite <- (N.div_small id (p256 n)) at 1 by assumption.
  rewrite valf_be_acc. reflexivity.
Qed.

Lemma fits_bound id n : fits id n = true -> id < p256 n.
Proof.
  destruct n as [|m]; cbn [fits].
  - intros H. apply N.eqb_eq in H. subst. reflexivity.
  - intros H. apply N.ltb_lt in H. rewrite p256_S. pose proof (p256_pos m). lia.
Qed.

(* the two tests after the loop amount to: the byte that lands in buf[0] is below 0x80 *)
Lemma id2buf_S id m :
  id < two64 ->
  id2buf id (S m) =
    if 255 <? id / p256 m then Err MissingBuffer
    else if 128 <=? (id / p256 m) mod 256 then Err BadValue
    else Ok (be (S m) id, snd (fst (id2buf_loop m id 1 [id mod 256]))).
Proof.
  intros Hid. unfold id2buf. rewrite (N.mod_small id two64) by assumption.
  pose proof (id2buf_loop_bytes m id 1%nat []) as Hb.
  pose proof (id2buf_loop_id m id 1%nat [id mod 256]) as Hi.
  destruct (id2buf_loop m id 1 [id mod 256]) as [[idr used] bs].
  cbn [fst snd] in *. subst idr bs.
  fold (be (S m) id). unfold be at 1. rewrite hd_be_acc. reflexivity.
Qed.

Lemma top_byte_small x : x < 128 <-> (255 <? x = false /\ 128 <=? x mod 256 = false).
Proof.
  split.
  - intros H. split; [apply N.ltb_ge; lia|].
    apply N.leb_gt. rewrite N.mod_small by lia. assumption.
  - intros [H1 H2]. apply N.ltb_ge in H1. apply N.leb_gt in H2.
    rewrite N.mod_small in H2 by lia. assumption.
Qed.

Lemma fits_S id m : fits id (S m) = true <-> id / p256 m < 128.
Proof.
  cbn [fits]. rewrite N.ltb_lt. pose proof (p256_pos m).
  split; intros Hx.
  - apply N.div_lt_upper_bound; lia.
  - destruct (N.lt_ge_cases id (128 * p256 m)) as [|Hge]; [assumption|].
    exfalso. assert (Hge' : p256 m * 128 <= id) by lia.
    apply (N.div_le_lower_bound id (p256 m) 128) in Hge'; lia.
Qed.

Lemma id2buf_fits id n :
  id < two64 -> fits id n = true -> exists u, id2buf id n = Ok (be n id, u).
Proof.
  intros Hid Hf. destruct n as [|m].
  - cbn [fits] in Hf. apply N.eqb_eq in Hf. subst. exists 0%nat. reflexivity.
  - rewrite id2buf_S by assumption.
    apply fits_S, top_byte_small in Hf. destruct Hf as [H1 H2]. rewrite H1, H2.
    eexists. reflexivity.
Qed.

Lemma id2buf_unfit id n :
  id < two64 -> fits id n = false -> exists e, id2buf id n = Err e.
Proof.
  intros Hid Hf. destruct n as [|m].
  - cbn [fits] in Hf. unfold id2buf. rewrite N.mod_small by assumption. rewrite Hf. eexists. reflexivity.
  - rewrite id2buf_S by assumption.
    destruct (255 <? id / p256 m) eqn:H1; [eexists; reflexivity|].
    destruct (128 <=? (id / p256 m) mod 256) eqn:H2; [eexists; reflexivity|].
    exfalso. assert (fits id (S m) = true) by (apply fits_S, top_byte_small; auto). congruence.
Qed.

Lemma id2buf_ok_inv id n bs u :
  id < two64 -> id2buf id n = Ok (bs, u) -> fits id n = true /\ bs = be n id.
Proof.
  intros Hid H. destruct (fits id n) eqn:Hf.
  - destruct (id2buf_fits id n Hid Hf) as [u' H']. rewrite H' in H. inversion H. auto.
  - destruct (id2buf_unfit id n Hid Hf) as [e H']. rewrite H' in H. discriminate.
Qed.

(* ---------- buf2id ---------- *)
Lemma land_shift_low a v : v < 256 -> N.land (a * 256) v = 0.
Proof.
  intros Hv. apply N.bits_inj_0. intros n. rewrite N.land_spec.
  change 256 with (2 ^ 8). rewrite <- N.shiftl_mul_pow2.
  destruct (N.lt_ge_cases n 8) as [Hn|Hn].
  - rewrite N.shiftl_spec_low by assumption. reflexivity.
  - rewrite <- (N.mod_small v (2 ^ 8)) by exact Hv.
    rewrite N.mod_pow2_bits_high by assumption. apply andb_false_r.
Qed.

Lemma lor_shift a v : v < 256 -> N.lor (a * 256) v = a * 256 + v.
Proof.
  intros Hv. pose proof (land_shift_low a v Hv) as H.
  rewrite <- N.lxor_lor by assumption. symmetry. apply N.add_nocarry_lxor. assumption.
Qed.

Definition sig_acc (used : nat) (bs : list N) : nat :=
  if (used =? 0)%nat then sig_bytes bs else (used + length bs)%nat.

Ltac side := first [assumption | lia | reflexivity | (intros; reflexivity) | (intros; lia)
                   | (rewrite ?p256_S, ?p256_0; lia)].

Lemma buf2id_loop_spec bs : forall id used,
  bytes_ok bs -> (used = 0%nat -> id = 0) -> id < p256 used -> (used <= 8)%nat ->
  buf2id_loop bs id used =
    if (8 <? sig_acc used bs)%nat then Err BadValue else Ok (valf id bs, sig_acc used bs).
Proof.
  induction bs as [|v bs IH]; intros id used Hb H0 Hlt H8.
  - unfold sig_acc. cbn [buf2id_loop sig_bytes length valf fold_left].
    destruct (Nat.eqb_spec used 0).
    + subst. reflexivity.
    + rewrite Nat.add_0_r. destruct (Nat.ltb_spec 8 used); [lia|reflexivity].
  - inversion Hb as [|? ? Hv Hb']; subst.
    cbn [buf2id_loop].
    destruct (N.eqb_spec v 0) as [Hv0|Hv0]; destruct (Nat.eqb_spec used 0) as [Hu|Hu]; cbn [negb orb].
    + (* leading zero byte *)
      subst. rewrite (H0 eq_refl). change (N.lor ((0 * 256) mod two64) 0) with 0.
      rewrite IH by side.
      unfold sig_acc. cbn [Nat.eqb sig_bytes N.eqb]. unfold valf. cbn [fold_left]. reflexivity.
    + (* zero byte after the first significant one *)
      destruct (Nat.ltb_spec 8 (S used)) as [H9|H9].
      * unfold sig_acc. rewrite (proj2 (Nat.eqb_neq used 0)) by assumption. cbn [length].
        destruct (Nat.ltb_spec 8 (used + S (length bs))); [reflexivity|lia].
      * assert (Hm : id * 256 < two64).
        { rewrite <- p256_8. pose proof (p256_le (S used) 8 ltac:(lia)) as Hle. rewrite p256_S in Hle. lia. }
        rewrite (N.mod_small _ _ Hm), lor_shift by assumption.
        rewrite IH by side.
        unfold sig_acc. cbn [Nat.eqb length]. rewrite (proj2 (Nat.eqb_neq used 0)) by assumption.
        replace (used + S (length bs))%nat with (S used + length bs)%nat by lia.
        unfold valf. cbn [fold_left]. reflexivity.
    + (* first significant byte *)
      subst used. rewrite (H0 eq_refl). cbn [Nat.ltb Nat.leb].
      change ((0 * 256) mod two64) with 0. change (N.lor 0 v) with v.
      rewrite IH by side.
      unfold sig_acc. cbn [Nat.eqb sig_bytes length]. rewrite (proj2 (N.eqb_neq v 0)) by assumption.
      unfold valf. cbn [fold_left]. reflexivity.
    + destruct (Nat.ltb_spec 8 (S used)) as [H9|H9].
      * unfold sig_acc. rewrite (proj2 (Nat.eqb_neq used 0)) by assumption. cbn [length].
        destruct (Nat.ltb_spec 8 (used + S (length bs))); [reflexivity|lia].
      * assert (Hm : id * 256 < two64).
        { rewrite <- p256_8. pose proof (p256_le (S used) 8 ltac:(lia)) as Hle. rewrite p256_S in Hle. lia. }
        rewrite (N.mod_small _ _ Hm), lor_shift by assumption.
        rewrite IH by side.
        unfold sig_acc. cbn [Nat.eqb length]. rewrite (proj2 (Nat.eqb_neq used 0)) by assumption.
        replace (used + S (length bs))%nat with (S used + length bs)%nat by lia.
        unfold valf. cbn [fold_left]. reflexivity.
Qed.

Lemma buf2id_spec bs :
  bytes_ok bs ->
  buf2id bs = if (8 <? sig_bytes bs)%nat then Err BadValue else Ok (value bs, sig_bytes bs).
Proof.
  intros Hb. destruct bs as [|b t]; [reflexivity|].
  inversion Hb as [|? ? Hv Hb']; subst.
  unfold buf2id. destruct (N.eqb_spec b 0) as [Hb0|Hb0].
  - subst. rewrite buf2id_loop_spec by side.
    unfold sig_acc. cbn [Nat.eqb sig_bytes N.eqb]. unfold value, valf. cbn [fold_left]. reflexivity.
  - rewrite buf2id_loop_spec by side.
    unfold sig_acc. cbn [Nat.eqb sig_bytes length]. rewrite (proj2 (N.eqb_neq b 0)) by assumption.
    unfold value, valf. cbn [fold_left]. reflexivity.
Qed.

Lemma valf_lower bs : forall h, h * p256 (length bs) <= valf h bs.
Proof.
  induction bs as [|b t IH]; intros h.
  - cbn. lia.
  - unfold valf. cbn [fold_left length]. fold (valf (h * 256 + b) t).
    specialize (IH (h * 256 + b)). rewrite p256_S. nia.
Qed.

Lemma value_lower bs : (0 < sig_bytes bs)%nat -> p256 (sig_bytes bs - 1) <= value bs.
Proof.
  induction bs as [|b t IH]; cbn [sig_bytes]; [lia|].
  destruct (N.eqb_spec b 0) as [Hb|Hb].
  - subst. intros H. unfold value, valf. cbn [fold_left]. apply IH. assumption.
  - intros _. cbn [length]. replace (S (length t) - 1)%nat with (length t) by lia.
    unfold value, valf. cbn [fold_left]. change (0 * 256 + b) with b. fold (valf b t).
    pose proof (valf_lower t b). pose proof (p256_pos (length t)). nia.
Qed.

Lemma sig_bytes_bound bs : value bs < two64 -> (sig_bytes bs <= 8)%nat.
Proof.
  intros H. destruct (Nat.eq_dec (sig_bytes bs) 0) as [|Hn]; [lia|].
  pose proof (value_lower bs ltac:(lia)) as Hl.
  destruct (le_lt_dec (sig_bytes bs) 8) as [|Hgt]; [assumption|].
  exfalso. pose proof (p256_le 8 (sig_bytes bs - 1) ltac:(lia)) as Hp. rewrite p256_8 in Hp. lia.
Qed.

(* ---------- the property-level statements ---------- *)
Lemma id_roundtrip id n bs u :
  id < two64 -> id2buf id n = Ok (bs, u) -> exists u', buf2id bs = Ok (id, u').
Proof.
  intros Hid H. destruct (id2buf_ok_inv id n bs u Hid H) as [Hf ->].
  pose proof (value_be n id (fits_bound id n Hf)) as Hv.
  rewrite buf2id_spec by apply be_bytes.
  assert (Hs : (sig_bytes (be n id) <= 8)%nat) by (apply sig_bytes_bound; rewrite Hv; assumption).
  destruct (Nat.ltb_spec 8 (sig_bytes (be n id))); [lia|].
  rewrite Hv. eexists. reflexivity.
Qed.

Lemma id2buf_refines id n :
  id < two64 ->
  match id2buf id n with
  | Ok (bs, _) => s_id2buf id n = Some bs
  | Err _ => s_id2buf id n = None
  | Fault => False
  end.
Proof.
  intros Hid. unfold s_id2buf. destruct (fits id n) eqn:Hf.
  - destruct (id2buf_fits id n Hid Hf) as [u ->]. reflexivity.
  - destruct (id2buf_unfit id n Hid Hf) as [e ->]. reflexivity.
Qed.

Lemma buf2id_refines bs :
  bytes_ok bs ->
  match buf2id bs with
  | Ok (v, _) => s_buf2id bs = Some v
  | Err _ => s_buf2id bs = None
  | Fault => False
  end.
Proof.
  intros Hb. rewrite buf2id_spec by assumption. unfold s_buf2id.
  destruct (8 <? sig_bytes bs)%nat; reflexivity.
Qed.

(* the reply-mark bit of a written header is clear *)
Lemma id2buf_mark_clear id n bs u :
  id < two64 -> id2buf id n = Ok (bs, u) -> hd 0 bs < 128.
Proof.
  intros Hid H. destruct (id2buf_ok_inv id n bs u Hid H) as [Hf ->].
  destruct n as [|m]; [cbn; lia|].
  unfold be. rewrite hd_be_acc. apply fits_S in Hf. rewrite N.mod_small by lia. assumption.
Qed.

(* [fits] in closed form: an n-byte header carries exactly the ids below 2^(8n-1) *)
Lemma fits_pow2 id m : fits id (S m) = true <-> id < 2 ^ (8 * N.of_nat m + 7).
Proof.
  cbn [fits]. rewrite N.ltb_lt.
  replace (2 ^ (8 * N.of_nat m + 7)) with (128 * p256 m); [reflexivity|].
  unfold p256. rewrite N.pow_add_r, N.pow_mul_r. change (2 ^ 8) with 256. change (2 ^ 7) with 128. lia.
Qed.
