(* C12/ReplyModel.v — mechanism-level model of
     mptcore/message/message_id.c     (mpt_message_id2buf, mpt_message_buf2id)
     mptcore/event/reply_set.c        (mpt_reply_set)
     mptcore/event/reply_deferrable.c (contextSend/Set/Defer/Unref/Ref/Conv/Detach, deferReply,
                                       mpt_reply_deferrable)
     mptcore/event/context_reply.c    (mpt_context_reply, the branch with a reply context)
   Executable, no proofs.  The model is the code AS IT IS after the fix: commits
   of the C12 worktree (see docs/notes_C12.md).

   Ghost state (never read by the mechanism, only carried along): [drq] = number of
   the operation that armed the request currently held in a reply_data, [wlog] =
   every send the transport accepted, [wstep] = operation counter, [wown] = number
   of metatype references the caller still holds (the caller's own bookkeeping:
   an operation on an object the caller no longer holds is not performed). *)
From MptV Require Export Base.Mem.
Local Open Scope nat_scope.

Definition two64 : N := 18446744073709551616%N.

(* ------------------------------------------------------------------ *)
(* message_id.c                                                        *)

(* while (len--) { id /= 0x100; if (id) ++used; buf[len] = 0xff & id; }
   the buffer is filled from its last byte towards the first: [acc] is buf[len..] *)
Fixpoint id2buf_loop (len : nat) (id : N) (used : nat) (acc : list byte) : N * nat * list byte :=
  match len with
  | O => (id, used, acc)
  | S len' =>
    let id' := (id / 256)%N in
    id2buf_loop len' id' (if (id' =? 0)%N then used else S used) ((id' mod 256)%N :: acc)
  end.

(* int mpt_message_id2buf(uint64_t id, void *ptr, size_t len): (bytes written, return value) *)
Definition id2buf (id0 : N) (len : nat) : res (list byte * nat) :=
  let id := (id0 mod two64)%N in              (* the parameter is a uint64_t *)
  match len with
  | O => if (id =? 0)%N then Ok ([], 0) else Err MissingBuffer
  | S len' =>
    let '(idr, used, bs) := id2buf_loop len' id 1 [(id mod 256)%N] in
    if (255 <? idr)%N then Err MissingBuffer        (* if (id > 0xff) *)
    else if (128 <=? hd 0%N bs)%N then Err BadValue (* if (buf[0] & 0x80) *)
    else Ok (bs, used)
  end.

(* while (--len) { val = *buf++; id *= 0x100; if ((val || used) && ++used > sizeof(id)) return BadValue; id |= val; } *)
Fixpoint buf2id_loop (bs : list byte) (id : N) (used : nat) : res (N * nat) :=
  match bs with
  | [] => Ok (id, used)
  | v :: bs' =>
    let id1 := ((id * 256) mod two64)%N in
    if negb (v =? 0)%N || negb (used =? 0) then
      if 8 <? S used then Err BadValue
      else buf2id_loop bs' (N.lor id1 v) (S used)
    else buf2id_loop bs' (N.lor id1 v) used
  end.

(* int mpt_message_buf2id(const void *ptr, size_t len, uint64_t *iptr): (value stored in *iptr, return value) *)
Definition buf2id (bs : list byte) : res (N * nat) :=
  match bs with
  | [] => Ok (0%N, 0)
  | b :: bs' => buf2id_loop bs' b (if (b =? 0)%N then 0 else 1)
  end.

(* ------------------------------------------------------------------ *)
(* reply data / reply context                                          *)

(* MPT_STRUCT(reply_data) { uint16_t _max, len; uint8_t val[4 + post]; }  + ghost request number *)
Record rdata := mkrd { dmax : nat; dlen : nat; dval : mem; drq : nat }.

(* MPT_STRUCT(reply_context_defer): reply.send != 0, reply.ptr != 0, ref._val, data *)
Record ctx := mkctx { csend : bool; cptr : bool; cref : N; cdata : rdata }.

(* ghost log entry: a send the transport accepted *)
Record entry := mkent { erq : nat; eid : list byte; epay : option (list byte) }.
(* any call of the transport's send: id bytes it saw, flattened message (None = NULL), its answer *)
Record call := mkcall { kid : list byte; kpay : option (list byte); kres : Z }.

Record world := mkw {
  wctx : option ctx;              (* None: freed / never created *)
  whs : list (option rdata);      (* deferred handles by number; None: freed *)
  wown : nat;                     (* metatype references held by the caller *)
  wlog : list entry;
  wstep : nat;
  worc : list Z                   (* transport script: answers of the coming send calls; exhausted = 0 *)
}.

Definition set_dlen (d : rdata) (n : nat) := mkrd (dmax d) n (dval d) (drq d).
Definition set_data (c : ctx) (d : rdata) := mkctx (csend c) (cptr c) (cref c) d.
Definition set_ref (c : ctx) (r : N) := mkctx (csend c) (cptr c) r (cdata c).
Definition set_send (c : ctx) (s : bool) := mkctx s (cptr c) (cref c) (cdata c).

(* checked access to val[0] *)
Definition val0 (v : mem) (f : byte -> byte) : res mem :=
  match v with [] => Fault | b :: t => Ok (f b :: t) end.

Definition EBadArgument : Z := (-1)%Z.
Definition EBadValue : Z := (-2)%Z.
Definition EBadType : Z := (-3)%Z.

(* mptcore/misc/refcount.c *)
Definition refcount_raise (r : N) : option N :=      (* new count; None: refused (returns 0) *)
  if (r =? 0)%N then None
  else let r' := ((r + 1) mod two64)%N in if (r' =? 0)%N then None else Some r'.
Definition refcount_lower (r : N) : option N :=      (* new count; None: was 0 (returns (uintptr_t) -1) *)
  if (r =? 0)%N then None else Some (r - 1)%N.

(* reply_set.c: mpt_reply_set(rd, len, data); [bs] = the len bytes copied (data) or len zeros
   (data = NULL); [rq] ghost *)
Definition reply_set (d : rdata) (bs : list byte) (rq : nat) : res (Z * rdata) :=
  let len := length bs in
  if dmax d <? len then Ok (EBadValue, d)
  else
    do v <- wr (dval d) 0 bs;
    Ok (Z.of_nat (dmax d - len), mkrd (dmax d) len v rq).

(* reply_deferrable.c: contextSend(ctx, rd, msg) *)
Record sres := mksr { sret : Z; srd : rdata; scalls : list call; slogged : list entry; sorc : list Z }.

Definition ctx_send (c : ctx) (d : rdata) (msg : option (list byte)) (orc : list Z) : res sres :=
  if dlen d =? 0 then Ok (mksr EBadArgument d [] [] orc)           (* reply already sent *)
  else if negb (csend c) then Ok (mksr 0 (set_dlen d 0) [] [] orc) (* transport detached: dropped *)
  else if negb (cptr c) then Ok (mksr 0 d [] [] orc)               (* no reply target *)
  else
    do v1 <- val0 (dval d) (fun b => N.lor b 128);                 (* rd->val[0] |= 0x80 *)
    do seen <- rd v1 0 (dlen d);                                   (* what send() reads: val[0..len) *)
    let r := hd 0%Z orc in
    if (0 <=? r)%Z then
      Ok (mksr r (mkrd (dmax d) 0 v1 (drq d)) [mkcall seen msg r] [mkent (drq d) seen msg] (tl orc))
    else
      do v2 <- val0 v1 (fun b => N.land b 127);                    (* rd->val[0] &= 0x7f *)
      Ok (mksr r (mkrd (dmax d) (dlen d) v2 (drq d)) [mkcall seen msg r] [] (tl orc)).

(* contextConv: which part of the object a conversion hands out *)
Inductive part := PFmt | PCtx | PData.
Definition TypeReplyDataPtr := 8.
Definition TypeReplyPtr := 130.
Definition ctx_conv (t : nat) : Z * option part :=
  if t =? 0 then (0%Z, Some PFmt)
  else if t =? TypeReplyPtr then (Z.of_nat TypeReplyDataPtr, Some PCtx)
  else if t =? TypeReplyDataPtr then (Z.of_nat TypeReplyPtr, Some PData)
  else (EBadType, None).

(* context_reply.c: message handed to rc->reply(): msgtype{Answer, code} + formatted text (buf[256]) *)
Definition ctx_reply_payload (code : Z) (text : option (list byte)) : list byte :=
  let t := match text with None => [] | Some t => t end in
  [1%N; Z.to_N (code mod 256)] ++ (if length t <=? 255 then t else firstn 255 t ++ [0%N]).

(* context_reply.c, the branch without reply context (rc == NULL): nothing can be sent; BadArgument for a code
   outside char, 0 without format, else 1 and "[<level>>] <text>\n" on stderr (not a terminal: no colour codes),
   level = debug / info / error for code 0 / > 0 / < 0 (mpt_log_identifier of LogDebug / LogInfo / LogError);
   [text] is printed with "%s": up to its first zero byte.  Result and what appears on stderr. *)
Fixpoint until0 (t : list byte) : list byte :=
  match t with [] => [] | b :: r => if (b =? 0)%N then [] else b :: until0 r end.
Definition level_name (code : Z) : list byte :=
  if (code =? 0)%Z then [100; 101; 98; 117; 103]%N             (* "debug" *)
  else if (0 <? code)%Z then [105; 110; 102; 111]%N            (* "info" *)
  else [101; 114; 114; 111; 114]%N.                            (* "error" *)
Definition ctx_reply_none (code : Z) (text : option (list byte)) : Z * list byte :=
  if (code <? -128)%Z || (127 <? code)%Z then (EBadArgument, [])
  else match text with
       | None => (0%Z, [])
       | Some t => (1%Z, [91%N] ++ level_name code ++ [62; 93; 32]%N ++ until0 t ++ [10%N])
       end.

(* ------------------------------------------------------------------ *)
(* operations                                                          *)

Inductive op :=
| OConv (t : nat)                              (* MPT_metatype_convert(mt, t, &p) *)
| OArm (bs : list byte)                        (* convert(TypeReplyDataPtr, &rd); mpt_reply_set(rd, |bs|, bs) *)
| OArmZ (n : nat)                              (* ... mpt_reply_set(rd, n, NULL) *)
| OReply (p : option (list byte))              (* rc->_vptr->reply(rc, msg)   (None: msg = NULL) *)
| OCtxReply (code : Z) (text : option (list byte))  (* mpt_context_reply(rc, code, "%s", text) / fmt = NULL *)
| ODefer                                       (* rc->_vptr->defer(rc) *)
| OHReply (k : nat) (p : option (list byte))   (* handle k: def->_vptr->reply(def, msg) *)
| ORef                                         (* mt->_vptr->addref(mt) *)
| OUnref.                                      (* mt->_vptr->unref(mt) *)

Inductive rout :=
| RSkip                         (* object not held by the caller any more: nothing called *)
| RInt (z : Z)
| RConv (z : Z) (p : option part)
| RHandle (k : option nat)      (* defer: number of the new handle, None = NULL *)
| RCount (n : N)                (* addref result, 0 = refused *)
| RDone
| RFault.
Record obs := mkobs { oret : rout; ocalls : list call }.

Definition is_some {A} (o : option A) : bool := match o with Some _ => true | None => false end.
Definition live (hs : list (option rdata)) : nat := length (filter is_some hs).
Definition upd_h (hs : list (option rdata)) (k : nat) (v : option rdata) :=
  firstn k hs ++ v :: skipn (S k) hs.

Definition w_ctx (w : world) (c : option ctx) := mkw c (whs w) (wown w) (wlog w) (wstep w) (worc w).
Definition w_sent (w : world) (c : option ctx) (hs : list (option rdata)) (own : nat) (s : sres) :=
  mkw c hs own (wlog w ++ slogged s) (wstep w) (sorc s).

(* the caller uses the context only while it holds a reference to it *)
Definition with_ctx (w : world) (f : ctx -> res (world * obs)) : world * obs :=
  match wown w with
  | 0 => (w, mkobs RSkip [])
  | S _ =>
    match wctx w with
    | None => (w, mkobs RFault [])                 (* reference into freed memory *)
    | Some c => match f c with Ok r => r | _ => (w, mkobs RFault []) end
    end
  end.

Definition do_arm (w : world) (c : ctx) (bs : list byte) : res (world * obs) :=
  match snd (ctx_conv TypeReplyDataPtr) with
  | Some PData =>
    do '(r, d) <- reply_set (cdata c) bs (wstep w);
    Ok (w_ctx w (Some (set_data c d)), mkobs (RInt r) [])
  | _ => Fault      (* mpt_reply_set on something that is not the reply data *)
  end.

Definition do_reply (w : world) (c : ctx) (p : option (list byte)) : res (world * sres) :=
  do s <- ctx_send c (cdata c) p (worc w);
  Ok (w_sent w (Some (set_data c (srd s))) (whs w) (wown w) s, s).

Definition step0 (w : world) (o : op) : world * obs :=
  match o with
  | OConv t => with_ctx w (fun c => let '(r, p) := ctx_conv t in Ok (w, mkobs (RConv r p) []))
  | OArm bs => with_ctx w (fun c => do_arm w c bs)
  | OArmZ n => with_ctx w (fun c => do_arm w c (repeat 0%N n))
  | OReply p =>
    with_ctx w (fun c => do '(w', s) <- do_reply w c p; Ok (w', mkobs (RInt (sret s)) (scalls s)))
  | OCtxReply code text =>
    with_ctx w (fun c =>
      if (code <? -128)%Z || (127 <? code)%Z then Ok (w, mkobs (RInt EBadArgument) [])
      else
        do '(w', s) <- do_reply w c (Some (ctx_reply_payload code text));
        Ok (w', mkobs (RInt (if (sret s <? 0)%Z then sret s else 0%Z)) (scalls s)))
  | ODefer =>
    with_ctx w (fun c =>
      let d := cdata c in
      if dlen d =? 0 then Ok (w, mkobs (RHandle None) [])
      else match refcount_raise (cref c) with
           | None => Ok (w, mkobs (RHandle None) [])
           | Some r =>
             (* memcpy(&def->data, &ctx->data, ...); ctx->data.len = 0 *)
             Ok (mkw (Some (mkctx (csend c) (cptr c) r (set_dlen d 0))) (whs w ++ [Some d])
                     (wown w) (wlog w) (wstep w) (worc w),
                 mkobs (RHandle (Some (length (whs w)))) [])
           end)
  | OHReply k p =>
    match nth_error (whs w) k with
    | Some (Some d) =>
      match wctx w with
      | None => (w, mkobs RFault [])             (* rd->base freed *)
      | Some c =>
        match ctx_send c d p (worc w) with
        | Ok s =>
          if (sret s <? 0)%Z && is_some p then
            (* send failed with a message: handle stays valid, may be retried *)
            (w_sent w (Some c) (upd_h (whs w) k (Some (srd s))) (wown w) s,
             mkobs (RInt (sret s)) (scalls s))
          else
            (* contextDetach(rd->base); free(def) *)
            let c' := match refcount_lower (cref c) with
                      | None => Some c
                      | Some r => if (r =? 0)%N then None else Some (set_ref c r)
                      end in
            (w_sent w c' (upd_h (whs w) k None) (wown w) s,
             mkobs (RInt (if (sret s <? 0)%Z then 0%Z else sret s)) (scalls s))
        | _ => (w, mkobs RFault [])
        end
      end
    | _ => (w, mkobs RSkip [])
    end
  | ORef =>
    with_ctx w (fun c =>
      match refcount_raise (cref c) with
      | None => Ok (w, mkobs (RCount 0) [])
      | Some r => Ok (mkw (Some (set_ref c r)) (whs w) (S (wown w)) (wlog w) (wstep w) (worc w),
                      mkobs (RCount r) [])
      end)
  | OUnref =>
    with_ctx w (fun c =>
      let own' := wown w - 1 in
      match refcount_lower (cref c) with
      | None =>      (* count was 0: lower() returns -1, treated as "still referenced" *)
        Ok (mkw (Some (set_send c false)) (whs w) own' (wlog w) (wstep w) (worc w), mkobs RDone [])
      | Some r =>
        if (r =? 0)%N then
          if csend c && negb (dlen (cdata c) =? 0) then
            (* default reply, result ignored; then free(ctx) *)
            do s <- ctx_send c (cdata c) None (worc w);
            Ok (w_sent w None (whs w) own' s, mkobs RDone (scalls s))
          else Ok (mkw None (whs w) own' (wlog w) (wstep w) (worc w), mkobs RDone [])
        else
          (* other references remain: the transport is detached *)
          Ok (mkw (Some (set_send (set_ref c r) false)) (whs w) own' (wlog w) (wstep w) (worc w),
              mkobs RDone [])
      end)
  end.

Definition bump (w : world) := mkw (wctx w) (whs w) (wown w) (wlog w) (S (wstep w)) (worc w).
Definition step (w : world) (o : op) : world * obs :=
  let '(w', ob) := step0 w o in (bump w', ob).

(* mpt_reply_deferrable(len, send, ptr); the harness fills val with 0xee *)
Definition init (max : nat) (send ptr : bool) (orc : list Z) : world :=
  if (65535 <? N.of_nat max)%N then mkw None [] 0 [] 0 orc
  else mkw (Some (mkctx send ptr 1 (mkrd max 0 (repeat 238%N (Nat.max 4 max)) 0))) [] 1 [] 0 orc.

(* a history: observation and world after every operation *)
Fixpoint run (w : world) (ops : list op) : list (obs * world) :=
  match ops with
  | [] => []
  | o :: ops => let '(w', ob) := step w o in (ob, w') :: run w' ops
  end.

Fixpoint exec (w : world) (ops : list op) : world :=
  match ops with
  | [] => w
  | o :: ops => exec (fst (step w o)) ops
  end.

(* ------------------------------------------------------------------ *)
(* mptio/stream/stream_input.c — correspondence level only (no theorem refers to this part).
   One request message (already decoded from the wire: id bytes followed by the payload)
   dispatched by streamDispatch/streamMessage to a handler that replies with the messages
   [reps] through ev->reply (when it got a reply context) and returns [code].
   Result: value returned by dispatch, what the handler saw (ev.id, reply context present,
   payload), the results of its reply calls, the messages put on the wire (decoded).
   mpt_stream_reply is assumed to succeed (socket writable, no message in progress). *)
Record sin_res := mksin {
  si_ret : Z;
  si_seen : option (N * bool * list byte);
  si_reps : list Z;
  si_wire : list (list byte)
}.

Definition EventCtlError : Z := 131072%Z.
Definition dispatch_flags (code : Z) : Z :=
  if (code <? 0)%Z then EventCtlError else Z.land code 65535.

Definition unmark (bs : list byte) : list byte :=
  match bs with [] => [] | b :: t => N.land b 127 :: t end.
Definition markb (bs : list byte) : list byte :=
  match bs with [] => [] | b :: t => N.lor b 128 :: t end.

(* replies of the handler on an armed stream reply context: the first is sent, later ones refused *)
Fixpoint sin_replies (id : list byte) (armed : bool) (reps : list (option (list byte)))
  : list Z * list (list byte) * bool :=
  match reps with
  | [] => ([], [], armed)
  | p :: reps' =>
    if armed then
      let '(rs, ws, a) := sin_replies id false reps' in
      (0%Z :: rs, (markb id ++ match p with Some m => m | None => [] end) :: ws, a)
    else
      let '(rs, ws, a) := sin_replies id false reps' in
      (EBadArgument :: rs, ws, a)
  end.

Definition sin_request (idlen : nat) (writable : bool) (frame : list byte)
           (reps : list (option (list byte))) (code : Z) : sin_res :=
  if idlen =? 0 then mksin (dispatch_flags code) (Some (0%N, false, frame)) [] []
  else if length frame <? idlen then mksin EventCtlError None [] []     (* message id incomplete *)
  else
    let id := firstn idlen frame in
    let pay := skipn idlen frame in
    if (128 <=? hd 0%N id)%N then
      (* reply indicated: srm->rd.val[0] &= 0x7f; mpt_message_buf2id *)
      match buf2id (unmark id) with
      | Ok (v, _) => mksin (dispatch_flags code) (Some (v, false, pay)) [] []
      | _ => mksin EventCtlError None [] []
      end
    else if negb writable then mksin (dispatch_flags code) (Some (0%N, false, pay)) [] []
    else if forallb (fun b => (b =? 0)%N) id then mksin (dispatch_flags code) (Some (0%N, false, pay)) [] []
    else
      let '(rs, ws, armed) := sin_replies id true reps in
      (* generic reply to a request the handler did not answer: msgtype{Answer, ret < 0 ? ret : 0} *)
      let dflt := if armed
                  then [markb id ++ [1%N; Z.to_N ((if (code <? 0)%Z then code else 0%Z) mod 256)]]
                  else [] in
      mksin (dispatch_flags code) (Some (0%N, true, pay)) rs (ws ++ dflt).
