(* C12/ConnSim.v — the connection layer of ConnModel.v preserves any relation between two reply
   machines that their primitive steps preserve.  Instantiated twice in ConnProofs.v:
   mechanism against specification (refinement) and mechanism against itself (invariant). *)
From MptV Require Import Base.Mem C12.ReplyModel C12.ReplySpec C12.ConnModel.
Local Open Scope nat_scope.

Section Sim.
  Variables A B : Type.
  Variable sa : A -> list Z -> op -> A * obs.
  Variable sb : B -> list Z -> op -> B * obs.
  Variable aa : A -> bool.
  Variable ab : B -> bool.
  Variable na : A -> nat.
  Variable nb : B -> nat.
  Variable R : A -> B -> Prop.

  Hypothesis Hstep : forall a b orc o, R a b -> cop_ok o = true ->
    snd (sa a orc o) = snd (sb b orc o) /\ R (fst (sa a orc o)) (fst (sb b orc o)) /\
    oret (snd (sa a orc o)) <> RFault.
  Hypothesis Harm : forall a b, R a b -> aa a = ab b.
  Hypothesis Hser : forall a b, R a b -> na a = nb b.

  Lemma fault_false ob : oret ob <> RFault -> is_fault ob = false.
  Proof. unfold is_fault. destruct (oret ob); congruence. Qed.

  Lemma prim_sim a b c o p : R a b -> cop_ok o = true ->
    exists a' b' ob, prim A sa a c o p = (a', ob) /\ prim B sb b c o p = (b', ob) /\ R a' b' /\ is_fault ob = false.
  Proof.
    intros HR Hwf. unfold prim.
    destruct (Hstep a b [tans c p] o HR Hwf) as (E & HR' & Hnf).
    destruct (sa a [tans c p] o) as [a' ob]. destruct (sb b [tans c p] o) as [b' ob'].
    cbn [fst snd] in *. subst ob'. exists a', b', ob. repeat split; auto. apply fault_false; assumption.
  Qed.

  Lemma act_wf x : cop_ok (fst (act_op x)) = true.
  Proof. destruct x; reflexivity. Qed.

  Lemma run_acts_sim c acts : forall a b, R a b ->
    exists a' b' rs ws, run_acts A sa a c acts = (a', rs, ws, false) /\
                        run_acts B sb b c acts = (b', rs, ws, false) /\ R a' b'.
  Proof.
    induction acts as [|x acts IH]; intros a b HR.
    - exists a, b, [], []. auto.
    - cbn [run_acts].
      destruct (prim_sim a b c (fst (act_op x)) (snd (act_op x)) HR (act_wf x)) as (a1 & b1 & ob & -> & -> & HR1 & Hf).
      destruct (IH a1 b1 HR1) as (a2 & b2 & rs & ws & -> & -> & HR2).
      rewrite Hf. exists a2, b2, (act_res ob :: rs), (call_wire (ocalls ob) ++ ws). auto.
  Qed.

  Definition req_wf (c : conn) (m : list byte) : Prop := (hd 0%N (firstn (cidl c) m) < 128)%N.

  Lemma arm_wf c m : req_wf c m -> cop_ok (OArm (firstn (cidl c) m)) = true.
  Proof. intros H. cbn. unfold wf_id. apply N.ltb_lt. exact H. Qed.

  Lemma set_req_cidl c n id : cidl (set_req c n id) = cidl c.
  Proof. reflexivity. Qed.

  Lemma dispatch_request_sim a b c m h : R a b -> req_wf c m ->
    exists a' b' c' z seen rs ws,
      dispatch_request A sa aa na a c m h = (a', c', z, seen, rs, ws, false) /\
      dispatch_request B sb ab nb b c m h = (b', c', z, seen, rs, ws, false) /\ R a' b'.
  Proof.
    intros HR Hwf. unfold dispatch_request.
    destruct (all_zero (firstn (cidl c) m)).
    { destruct h as [[acts code]|]; do 7 eexists; eauto. }
    rewrite <- (Hser a b HR).
    set (c1 := set_req c (na a) (firstn (cidl c) m)).
    destruct (prim_sim a b c1 (OArm (firstn (cidl c) m)) None HR (arm_wf c m Hwf)) as (a1 & b1 & oba & -> & -> & HR1 & Hfa).
    rewrite Hfa.
    destruct (oret oba) as [ | z | | | | | ]; try (do 7 eexists; eauto; fail).
    destruct (z <? 0)%Z; [do 7 eexists; eauto|].
    destruct h as [[acts code]|].
    - destruct (run_acts_sim c1 acts a1 b1 HR1) as (a2 & b2 & rs & ws & -> & -> & HR2).
      rewrite <- (Harm a2 b2 HR2).
      destruct (aa a2).
      + destruct (prim_sim a2 b2 c1 (OReply (Some (answer_hdr code))) (Some (answer_hdr code)) HR2 eq_refl)
          as (a3 & b3 & ob & -> & -> & HR3 & Hf).
        rewrite Hf. cbn [orb]. do 7 eexists; eauto.
      + cbn [orb]. do 7 eexists; eauto.
    - destruct (prim_sim a1 b1 c1 (OReply None) None HR1 eq_refl) as (a2 & b2 & ob & -> & -> & HR2 & Hf).
      rewrite Hf. cbn [orb]. do 7 eexists; eauto.
  Qed.

  Lemma hd_firstn (m : list byte) n : 0 < n -> hd 0%N (firstn n m) = hd 0%N m.
  Proof. destruct n; [lia|]. destruct m; reflexivity. Qed.

  Lemma dispatch_msg_sim a b c m h e1 e2 e3 : R a b ->
    exists a' b' c' z seen rs wc ws,
      dispatch_msg A sa aa na a c m h e1 e2 e3 = (a', c', z, seen, rs, wc, ws, false) /\
      dispatch_msg B sb ab nb b c m h e1 e2 e3 = (b', c', z, seen, rs, wc, ws, false) /\ R a' b'.
  Proof.
    intros HR. unfold dispatch_msg.
    destruct (Nat.eqb_spec (cidl c) 0) as [Hz|Hz].
    { destruct h as [[acts code]|]; do 8 eexists; eauto. }
    destruct (length m <? cidl c); [do 8 eexists; eauto|].
    destruct (N.leb_spec 128 (hd 0%N m)) as [Hm|Hm].
    { destruct (dispatch_answer c m e2 e3) as [[c1 z] wc]. do 8 eexists; eauto. }
    assert (Hwf : req_wf c m) by (unfold req_wf; rewrite hd_firstn by lia; exact Hm).
    destruct (dispatch_request_sim a b c m h HR Hwf) as (a' & b' & c' & z & seen & rs & ws & -> & -> & HR').
    do 8 eexists; eauto.
  Qed.

  Lemma do_dispatch_sim a b c h : R a b ->
    exists a' b' c' res,
      do_dispatch A sa aa na a c h = (a', c', res) /\
      do_dispatch B sb ab nb b c h = (b', c', res) /\ R a' b' /\ r_fault res = false.
  Proof.
    intros HR. unfold do_dispatch.
    destruct (cgone c); [do 4 eexists; eauto|].
    destruct (cdg c).
    - destruct (dg_next c) as [c1 nx].
      destruct (cact c1); [do 4 eexists; eauto|].
      destruct (ccur c1); [|do 4 eexists; eauto].
      destruct (cload c1) as [|m rest]; [do 4 eexists; eauto|].
      destruct (dispatch_msg_sim a b (set_in c1 (csock c1) [] false) m h 0%Z EBadValue EMissingBuffer HR)
        as (a' & b' & c' & z & seen & rs & wc & ws & -> & -> & HR').
      do 4 eexists; eauto.
    - destruct (cact (set_in c [] (cload c ++ csock c) (ccur c))); [do 4 eexists; eauto|].
      destruct (cload (set_in c [] (cload c ++ csock c) (ccur c))) as [|m rest]; [do 4 eexists; eauto|].
      destruct (dispatch_msg_sim a b (set_in c [] (cload c ++ csock c) (ccur c)) m h EBadValue EBadValue EBadValue HR)
        as (a' & b' & c' & z & seen & rs & wc & ws & -> & -> & HR').
      do 4 eexists; eauto.
  Qed.

  (* connection-level faults that do not come from the reply machine: id2buf of the current id *)
  Lemma id2buf_no_fault id n : id2buf id n <> Fault.
  Proof.
    unfold id2buf. destruct n; [destruct (_ =? 0)%N; discriminate|].
    destruct (id2buf_loop n _ 1 _) as [[idr used] bs].
    destruct (255 <? idr)%N; [discriminate|]. destruct (128 <=? hd 0%N bs)%N; discriminate.
  Qed.

  Lemma do_push_nofault c pay : snd (do_push c pay) = false.
  Proof.
    unfold do_push. destruct (cgone c); [reflexivity|]. destruct (push_blocked c); [reflexivity|].
    destruct (negb (cact c) && negb (cidl c =? 0)); [|reflexivity].
    pose proof (id2buf_no_fault (ccid c) (cidl c)) as Hn.
    destruct (id2buf (ccid c) (cidl c)) as [[bs u]| |]; try reflexivity. congruence.
  Qed.

  Lemma do_finish_nofault c : snd (do_finish c) = false.
  Proof.
    unfold do_finish. destruct (cgone c); [reflexivity|]. destruct (push_blocked c); [reflexivity|].
    destruct (negb (cact c) && negb (cidl c =? 0)); [|reflexivity].
    pose proof (id2buf_no_fault (ccid c) (cidl c)) as Hn.
    destruct (id2buf (ccid c) (cidl c)) as [[bs u]| |]; try reflexivity. congruence.
  Qed.

  Lemma await_push_finish_nofault c tag bump pay : r_fault (snd (await_push_finish c tag bump pay)) = false.
  Proof.
    unfold await_push_finish.
    destruct (do_await c tag) as [c1 ra].
    set (c1' := if bump then set_ntag c1 (S (cntag c1)) else c1).
    assert (Hp : exists c2 p1, (if is_nil pay then (c1', 0%Z, false) else do_push c1' pay) = (c2, p1, false)).
    { destruct (is_nil pay); [eauto|]. pose proof (do_push_nofault c1' pay) as Hn.
      destruct (do_push c1' pay) as [[c2 p1] f]. cbn in Hn. subst f. eauto. }
    destruct Hp as (c2 & p1 & ->).
    pose proof (do_finish_nofault c2) as Hn. destruct (do_finish c2) as [[[c3 p2] ws] f]. cbn in Hn. subst f.
    reflexivity.
  Qed.

  Lemma cstep_sim a b c o : R a b ->
    exists a' b' c' res,
      cstep A sa aa na (a, c) o = ((a', c'), res) /\
      cstep B sb ab nb (b, c) o = ((b', c'), res) /\ R a' b' /\ r_fault res = false.
  Proof.
    intros HR. unfold cstep.
    destruct o as [m|acts code| |k p|pay|pay| | | |pay| | | |msg|rk rh|t|color].
    - do 4 eexists; eauto.
    - destruct (cclosed c); [do 4 eexists; eauto|].
      destruct (do_dispatch_sim a b c (Some (acts, code)) HR) as (a' & b' & c' & res & -> & -> & HR' & Hf).
      do 4 eexists; eauto.
    - destruct (cclosed c); [do 4 eexists; eauto|].
      destruct (do_dispatch_sim a b c None HR) as (a' & b' & c' & res & -> & -> & HR' & Hf).
      do 4 eexists; eauto.
    - destruct (prim_sim a b c (OHReply k p) p HR eq_refl) as (a' & b' & ob & -> & -> & HR' & Hf).
      do 4 eexists; eauto.
    - destruct (cclosed c); [do 4 eexists; eauto|].
      pose proof (await_push_finish_nofault c (S (cntag c)) true pay) as Hn.
      destruct (await_push_finish c (S (cntag c)) true pay) as [c3 res]. do 4 eexists; eauto.
    - destruct (cclosed c); [do 4 eexists; eauto|].
      destruct (do_await c (S (cntag c))) as [c1 ra].
      pose proof (do_push_nofault (set_ntag c1 (S (cntag c1))) pay) as Hn.
      destruct (do_push (set_ntag c1 (S (cntag c1))) pay) as [[c2 p1] f]. cbn in Hn. subst f.
      do 4 eexists; eauto.
    - destruct (cclosed c); [do 4 eexists; eauto|].
      pose proof (do_finish_nofault c) as Hn. destruct (do_finish c) as [[[c3 p2] ws] f]. cbn in Hn. subst f.
      do 4 eexists; eauto.
    - destruct (cclosed c); [do 4 eexists; eauto|].
      destruct (do_sync c) as [[c1 z] wc]. do 4 eexists; eauto.
    - destruct (cclosed c); [do 4 eexists; eauto|].
      destruct (0 <? crefs c); [do 4 eexists; eauto|].
      destruct (close_conn c) as [c0 wc].
      destruct (chas c); [|do 4 eexists; eauto].
      destruct (prim_sim a b c0 OUnref None HR eq_refl) as (a' & b' & ob & -> & -> & HR' & Hf).
      do 4 eexists; eauto.
    - destruct (cclosed c); [do 4 eexists; eauto|].
      pose proof (await_push_finish_nofault c 0 false pay) as Hn.
      destruct (await_push_finish c 0 false pay) as [c3 res]. do 4 eexists; eauto.
    - destruct (cclosed c); do 4 eexists; eauto.
    - destruct (cclosed c); do 4 eexists; eauto.
    - destruct (cclosed c); do 4 eexists; eauto.
    - destruct (cclosed c); [do 4 eexists; eauto|].
      pose proof (do_push_nofault c msg) as Hn. destruct (do_push c msg) as [[c1 p1] f1]. cbn in Hn. subst f1.
      destruct (p1 <? 0)%Z; [do 4 eexists; eauto|].
      pose proof (do_finish_nofault c1) as Hn. destruct (do_finish c1) as [[[c2 p2] ws] f]. cbn in Hn. subst f.
      do 4 eexists; eauto.
    - destruct (cclosed c); [do 4 eexists; eauto|].
      destruct (cact c && negb (is_assign_null rk rh)); [do 4 eexists; eauto|].
      destruct (is_reopen c rk rh); [destruct rh; do 4 eexists; eauto|].
      destruct (chas c); [|do 4 eexists; eauto].
      destruct (prim_sim a b (hup_conn c) OUnref None HR eq_refl) as (a' & b' & ob & -> & -> & HR' & Hf).
      do 4 eexists; eauto.
    - destruct (cclosed c); do 4 eexists; eauto.
    - destruct (cclosed c); do 4 eexists; eauto.
  Qed.

  (* histories: same results, same connection state, related machines after every operation *)
  Lemma crun_sim ops : forall a b c, R a b ->
    Forall2 (fun x y => fst x = fst y /\ snd (snd x) = snd (snd y) /\ R (fst (snd x)) (fst (snd y)) /\
                        r_fault (fst x) = false)
            (crun A sa aa na (a, c) ops) (crun B sb ab nb (b, c) ops).
  Proof.
    induction ops as [|o ops IH]; intros a b c HR; cbn [crun]; [constructor|].
    destruct (cstep_sim a b c o HR) as (a' & b' & c' & res & -> & -> & HR' & Hf).
    constructor; [cbn; auto|]. apply IH. assumption.
  Qed.

  Lemma cexec_sim ops : forall a b c, R a b ->
    R (fst (cexec A sa aa na (a, c) ops)) (fst (cexec B sb ab nb (b, c) ops)) /\
    snd (cexec A sa aa na (a, c) ops) = snd (cexec B sb ab nb (b, c) ops).
  Proof.
    induction ops as [|o ops IH]; intros a b c HR; cbn [cexec]; [auto|].
    destruct (cstep_sim a b c o HR) as (a' & b' & c' & res & -> & -> & HR' & Hf).
    cbn [fst]. apply IH. assumption.
  Qed.
End Sim.
