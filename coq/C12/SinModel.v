(* C12/SinModel.v — mptio/stream/stream_input.c, round 3 (correspondence level, no theorem refers to it):
   the remaining paths of streamReply / streamDefer / streamDispatch on top of [sin_request] of ReplyModel.v.
     mode 0  read-only stream            (no reply context is offered)
     mode 1  bidirectional, buffered     ([sin_request])
     mode 2  bidirectional, the write side has no queue: mpt_stream_reply fails at its first push, streamReply
             returns BadArgument, the request stays open, the generic answer fails the same way, nothing is sent
   streamDefer always returns NULL (a stream input cannot defer).
   dispatch(NULL): the message is consumed (AS PATCHED by docs/C12_stream_input_skip.diff), nobody sees it. *)
From MptV Require Export Base.Mem C12.ReplyModel.
Local Open Scope nat_scope.

Definition sin_got_context (r : sin_res) : bool :=
  match si_seen r with Some (_, rc, _) => rc | None => false end.

Definition sin_request2 (idlen mode : nat) (frame : list byte) (reps : list (option (list byte))) (code : Z) : sin_res :=
  let r := sin_request idlen (0 <? mode) frame reps code in
  if (mode =? 2) && sin_got_context r
  then mksin (si_ret r) (si_seen r) (map (fun _ => EBadArgument) reps) []
  else r.

(* streamDispatch without handler *)
Definition sin_skip : sin_res := mksin 0%Z None [] [].

(* streamConv: 0 own type id / 1 TypeUnixSocket / error; part 0 none 1 in 5 fmt 6 fd *)
Inductive sin_ctype := SIn | SFmt | SMeta | SSock | SBad.
Definition sin_conv (t : sin_ctype) : option Z * nat :=
  match t with
  | SIn | SMeta => (Some 1%Z, 1)
  | SFmt => (None, 5)
  | SSock => (None, 6)
  | SBad => (Some EBadType, 0)
  end.

(* mpt_stream_input(from, mode, code, idlen): created? (mode bits: 1 Write, 2 RdWr) *)
Definition sin_create_ok (idlen : nat) (mode : N) (code : nat) (fd_ok : bool) : bool :=
  (idlen <=? 255) && negb (code =? 0)
  && (negb (N.testbit mode 0) || N.testbit mode 1)
  && fd_ok.                                         (* code: 0 or MPT_ENUM(EncodingCobs) in the cases generated *)
