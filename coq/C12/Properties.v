(* C12 — Each request is answered at most once, to the right requester.
   This file holds only the property theorems (each closed by [exact] of a lemma proved in
   IdProofs / ReplyInv / ReplyStep / ReplyProps / ReplyRefine / ConnProofs / ConnWait / ConnReserve / ConnBytes), non-vacuity examples and
   Print Assumptions.

   Reading guide.
   ids.   [id2buf id n] / [buf2id bs] transcribe mpt_message_id2buf / mpt_message_buf2id
          (result: bytes written resp. value stored, and the int returned).  [fits id n] says the id
          fits an n-byte header with the top bit of the first byte left free ([C12_fits_closed_form]);
          [be n id] are the big-endian digits, [value bs] the number a byte string denotes,
          [sig_bytes bs] its length without leading zero bytes.
   reply. [world] is the state of one reply context created by mpt_reply_deferrable plus its
          deferred handles, the transport script and the ghost log [wlog] of accepted sends;
          [step w o] performs one operation [o] (conv / arm / reply / mpt_context_reply / defer /
          deferred reply / addref / unref) and yields the new world and the observation
          (result, transport calls made).  [exec]/[run] iterate it.  [init max send ptr script] is
          a fresh context.  A request is identified by the number of the arm operation ([erq] of a
          log entry, [arm_at ops i] = the bytes armed by operation i).  [mark bs] sets the reply
          bit.  [all_wf ops]: ids handed to arm have the reply bit clear.  [reachable w]: w is
          the result of some well-formed history on some fresh context.
   conn.  The mptio users of all this (ConnModel.v: mpt_connection_dispatch / streamWrapper /
          replyConnection, the object of mpt_output_remote, mpt_stream_sync, with the patches
          docs/C12_*.diff).  A connection state is a pair (w, c): w the [world] of its reply context
          (driven only through [step], the transport answer being computed from c), c : [conn] the
          rest (id width [cidl], backend [cdg], wait table [ctab], outgoing message, input queues).
          [mcstep]/[mcrun]/[mcexec] run connection operations [cop] (peer writes a message,
          dispatch to a handler that replies/defers, dispatch without handler, reply through a
          deferred handle, await+push, sync, release); [scrun] is the same text over the abstract
          specification [sworld].  [minit dg idl] is a fresh connection.
   round 3. [cop] also has: await without handler ([CAw0]: the slot keeps the default handler of
          mpt_command_reserve, tag 0), addref ([CRf]; [CCl] releases one reference, the last one ends the
          connection), next(POLLOUT) / next(POLLHUP) ([CNo], [CNh]), a log message through the logger
          interface ([CLg]), another backend ([CRs k h]: mpt_connection_assign / mpt_connection_open / the
          property "" of the object; k = datagram socket, stream, none), convert() and property()
          ([CCv], [CGp]).  [cgone c]: the connection has no backend (datagram socket hung up, assign(NULL)).
          An answer handler may fail ([wret]: the harness' waiter returns -3 for an answer that starts with ff).
          All history theorems below ([C12_conn_*] over [mcexec]/[mcrun]) quantify over these operations too. *)
From MptV Require Import Base.Mem C12.ReplyModel C12.ReplySpec C12.IdProofs
  C12.ReplyInv C12.ReplyStep C12.ReplyProps C12.ReplyRefine
  C12.ConnModel C12.ConnSim C12.ConnKeep C12.ConnSpecProps C12.ConnWait C12.ConnReserve C12.ConnProofs C12.ConnBytes C12.ConnObj
  C12.SrmModel C12.SrmProofs.
Local Open Scope nat_scope.

(* ------------------------------------------------------------------ ids *)

(* every id that id2buf writes into a header of any width is read back by buf2id *)
Theorem C12_id_roundtrip :
  forall id n bs u, (id < two64)%N -> id2buf id n = Ok (bs, u) -> exists u', buf2id bs = Ok (id, u').
Proof. exact id_roundtrip. Qed.

(* an id that fits is accepted and written as its big-endian digits ... *)
Theorem C12_id_accepted_when_fits :
  forall id n, (id < two64)%N -> fits id n = true -> exists u, id2buf id n = Ok (be n id, u).
Proof. exact id2buf_fits. Qed.

(* ... one that does not fit is refused *)
Theorem C12_id_refused_when_unfit :
  forall id n, (id < two64)%N -> fits id n = false -> exists e, id2buf id n = Err e.
Proof. exact id2buf_unfit. Qed.

Theorem C12_fits_closed_form :
  forall id m, fits id (S m) = true <-> (id < 2 ^ (8 * N.of_nat m + 7))%N.
Proof. exact fits_pow2. Qed.

(* the reply mark of a written header is clear *)
Theorem C12_id_mark_bit_clear :
  forall id n bs u, (id < two64)%N -> id2buf id n = Ok (bs, u) -> (hd 0 bs < 128)%N.
Proof. exact id2buf_mark_clear. Qed.

(* buf2id on arbitrary bytes: the denoted value and the number of significant bytes, refused
   beyond 8 significant bytes *)
Theorem C12_buf2id_value :
  forall bs, bytes_ok bs ->
    buf2id bs = if 8 <? sig_bytes bs then Err BadValue else Ok (value bs, sig_bytes bs).
Proof. exact buf2id_spec. Qed.

Theorem C12_value_of_digits : forall n id, (id < p256 n)%N -> value (be n id) = id.
Proof. exact value_be. Qed.

(* ------------------------------------------------------------------ replies *)

(* no operation of any history leaves the storage of a reply_data or touches freed memory *)
Theorem C12_no_fault :
  forall max send ptr orc ops, all_wf ops ->
    Forall (fun r => oret (fst r) <> RFault) (run (init max send ptr orc) ops).
Proof. exact no_fault. Qed.

(* the reference count is the number of holders; a context nobody holds a reference to is detached *)
Theorem C12_refcount_is_holders :
  forall w, reachable w ->
    match wctx w with
    | Some c => cref c = N.of_nat (wown w + live (whs w)) /\ 0 < wown w + live (whs w)
                /\ (wown w = 0 -> csend c = false)
    | None => wown w = 0 /\ live (whs w) = 0
    end.
Proof. exact reachable_shape. Qed.

(* the ghost log is exactly the sequence of sends the transport accepted *)
Theorem C12_log_is_accepted_calls :
  forall max send ptr orc ops,
    log_view (wlog (exec (init max send ptr orc) ops)) =
    accepted_calls (concat (map (fun r => ocalls (fst r)) (run (init max send ptr orc) ops))).
Proof. exact log_is_accepted_calls_init. Qed.

(* at most one accepted reply per armed request: the request numbers of the accepted sends are
   pairwise distinct *)
Theorem C12_at_most_one_reply :
  forall max send ptr orc ops, all_wf ops ->
    NoDup (map erq (wlog (exec (init max send ptr orc) ops))).
Proof. exact at_most_one_reply. Qed.

(* every accepted send carries the id bytes of the arm operation it answers, marked as reply *)
Theorem C12_reply_carries_id :
  forall max send ptr orc ops e, all_wf ops ->
    In e (wlog (exec (init max send ptr orc) ops)) ->
    exists bs, arm_at ops (erq e) = Some bs /\ bs <> [] /\ eid e = mark bs.
Proof. exact reply_carries_id. Qed.

(* after an accepted reply every further reply attempt on the context is refused without a
   transport call, until the context is armed again *)
Theorem C12_later_replies_refused :
  forall w p mid o, reachable w ->
    (exists c, In c (ocalls (snd (step w (OReply p)))) /\ (0 <= kres c)%Z) ->
    all_wf mid -> Forall (fun o => is_arm o = false) mid -> is_reply o = true ->
    let w2 := exec (fst (step w (OReply p))) mid in
    ocalls (snd (step w2 o)) = [] /\
    (oret (snd (step w2 o)) = RSkip \/ oret (snd (step w2 o)) = RInt EBadArgument).
Proof. exact later_replies_refused. Qed.

(* a send the transport rejected is reported, logs nothing, and the retry carries the same id *)
Theorem C12_retry_after_reject :
  forall w p c1 q, reachable w ->
    ocalls (snd (step w (OReply p))) = [c1] -> (kres c1 < 0)%Z ->
    let w1 := fst (step w (OReply p)) in
    oret (snd (step w (OReply p))) = RInt (kres c1) /\ wlog w1 = wlog w /\
    ((0 <= hd 0 (worc w1))%Z ->
     snd (step w1 (OReply q)) = mkobs (RInt (hd 0%Z (worc w1))) [mkcall (kid c1) q (hd 0%Z (worc w1))] /\
     exists e, wlog (fst (step w1 (OReply q))) = wlog w ++ [e] /\ eid e = kid c1 /\ epay e = q).
Proof. exact retry_after_reject_r. Qed.

(* releasing the last reference of a context: exactly one default reply (NULL message) for an
   open request while the transport is attached, none otherwise *)
Theorem C12_released_context_default_reply :
  forall w c, reachable w -> wown w = 1 -> live (whs w) = 0 -> wctx w = Some c ->
    let w' := fst (step w OUnref) in
    let ob := snd (step w OUnref) in
    let id := mark (firstn (dlen (cdata c)) (dval (cdata c))) in
    let r := hd 0%Z (worc w) in
    wctx w' = None /\ wown w' = 0 /\ oret ob = RDone /\
    if csend c && cptr c && negb (dlen (cdata c) =? 0)
    then ocalls ob = [mkcall id None r] /\
         wlog w' = wlog w ++ (if (0 <=? r)%Z then [mkent (drq (cdata c)) id None] else [])
    else ocalls ob = [] /\ wlog w' = wlog w.
Proof. exact released_context_default_reply_r. Qed.

(* releasing a deferred handle (reply with NULL message): the handle is consumed and its request
   gets exactly one default reply while the transport is attached *)
Theorem C12_released_handle_default_reply :
  forall w c k d, reachable w -> nth_error (whs w) k = Some (Some d) -> wctx w = Some c ->
    let w' := fst (step w (OHReply k None)) in
    let ob := snd (step w (OHReply k None)) in
    let id := mark (firstn (dlen d) (dval d)) in
    let r := hd 0%Z (worc w) in
    nth_error (whs w') k = Some None /\ 0 < dlen d /\
    if csend c && cptr c
    then ocalls ob = [mkcall id None r] /\
         wlog w' = wlog w ++ (if (0 <=? r)%Z then [mkent (drq d) id None] else [])
    else ocalls ob = [] /\ wlog w' = wlog w.
Proof. exact released_handle_default_reply_r. Qed.

(* arming writes only the data part: len and val[0..len) *)
Theorem C12_arm_preserves_context :
  forall w c o bs, reachable w -> 0 < wown w -> wctx w = Some c -> arm_bytes o = Some bs ->
    let w' := fst (step w o) in
    let ob := snd (step w o) in
    exists c', wctx w' = Some c' /\
      csend c' = csend c /\ cptr c' = cptr c /\ cref c' = cref c /\ dmax (cdata c') = dmax (cdata c) /\
      whs w' = whs w /\ wown w' = wown w /\ wlog w' = wlog w /\ worc w' = worc w /\ ocalls ob = [] /\
      if dmax (cdata c) <? length bs
      then oret ob = RInt EBadValue /\ cdata c' = cdata c
      else oret ob = RInt (Z.of_nat (dmax (cdata c) - length bs)) /\
           dlen (cdata c') = length bs /\ firstn (length bs) (dval (cdata c')) = bs /\
           skipn (length bs) (dval (cdata c')) = skipn (length bs) (dval (cdata c)) /\
           length (dval (cdata c')) = length (dval (cdata c)).
Proof. exact arm_preserves_context_r. Qed.

(* the mechanism refines the per-request specification (ReplySpec.v): results, transport calls,
   open requests of context and handles and the log agree after every operation of every history *)
Theorem C12_history_refines_spec :
  forall max send ptr orc ops, all_wf ops ->
    mrun (init max send ptr orc) ops = srun (sinit max send ptr orc) ops.
Proof. exact history_refines_spec. Qed.

(* ------------------------------------------------------------------ non-vacuity *)
Example C12_ex_id_fits : id2buf 4660 3 = Ok ([0; 18; 52]%N, 2) /\ buf2id [0; 18; 52]%N = Ok (4660%N, 2).
Proof. vm_compute. auto. Qed.

Example C12_ex_id_full_width :
  id2buf 18446744073709551615 9 = Ok ([0; 255; 255; 255; 255; 255; 255; 255; 255]%N, 8)
  /\ fits 18446744073709551615 9 = true /\ fits 18446744073709551615 8 = false.
Proof. vm_compute. auto. Qed.

Example C12_ex_id_refusals :
  id2buf 128 1 = Err BadValue /\ id2buf 256 1 = Err MissingBuffer /\ id2buf 127 1 = Ok ([127]%N, 1)
  /\ id2buf 1 0 = Err MissingBuffer /\ id2buf 0 0 = Ok ([], 0).
Proof. vm_compute. auto 6. Qed.

Example C12_ex_buf2id_nine_bytes :
  buf2id [1; 0; 0; 0; 0; 0; 0; 0; 0]%N = Err BadValue /\ buf2id [0; 0; 1; 0; 0; 0; 0; 0; 0; 0]%N = Ok (72057594037927936%N, 8).
Proof. vm_compute. auto. Qed.

(* two outstanding requests, a rejecting transport, release of handle and context *)
Definition ex_ops : list op :=
  [OArm [1; 2]%N; ODefer; OArm [3; 4]%N; OReply (Some [65]%N); OReply (Some [66]%N); OReply (Some [67]%N);
   OHReply 0 None; OArm [5]%N; OUnref].
Definition ex_script : list Z := [(-1)%Z; 0%Z; 7%Z].

Example C12_ex_wf : all_wf ex_ops.
Proof. repeat constructor. Qed.

Example C12_ex_history_log :
  wlog (exec (init 2 true true ex_script) ex_ops)
  = [mkent 2 [131; 4]%N (Some [66]%N); mkent 0 [129; 2]%N None; mkent 7 [133]%N None].
Proof. vm_compute. reflexivity. Qed.

Example C12_ex_history_results :
  map (fun r => oret (fst r)) (run (init 2 true true ex_script) ex_ops)
  = [RInt 0; RHandle (Some 0); RInt 0; RInt (-1); RInt 0; RInt EBadArgument; RInt 7; RInt 1; RDone].
Proof. vm_compute. reflexivity. Qed.

(* the hypotheses of C12_retry_after_reject / C12_later_replies_refused are met by a reachable world *)
Example C12_ex_reject_world :
  let w := exec (init 2 true true ex_script) (firstn 3 ex_ops) in
  reachable w /\
  ocalls (snd (step w (OReply (Some [65]%N)))) = [mkcall [131; 4]%N (Some [65]%N) (-1)] /\
  (0 <= hd 0 (worc (fst (step w (OReply (Some [65]%N))))))%Z.
Proof.
  split.
  - exists 2, true, true, ex_script, (firstn 3 ex_ops). split; [repeat constructor|reflexivity].
  - vm_compute. split; [reflexivity|discriminate].
Qed.

Example C12_ex_accept_world :
  let w := exec (init 2 true true ex_script) (firstn 4 ex_ops) in
  reachable w /\
  exists c, In c (ocalls (snd (step w (OReply (Some [66]%N))))) /\ (0 <= kres c)%Z.
Proof.
  split.
  - exists 2, true, true, ex_script, (firstn 4 ex_ops). split; [repeat constructor|reflexivity].
  - eexists. split; [vm_compute; left; reflexivity|]. vm_compute. discriminate.
Qed.

(* hypotheses of the release theorems: a context with an open request whose last reference goes *)
Example C12_ex_release_world :
  let w := exec (init 2 true true ex_script) (firstn 8 ex_ops) in
  reachable w /\ wown w = 1 /\ live (whs w) = 0 /\
  exists c, wctx w = Some c /\ csend c && cptr c && negb (dlen (cdata c) =? 0) = true.
Proof.
  split; [|split; [|split]].
  - exists 2, true, true, ex_script, (firstn 8 ex_ops). split; [repeat constructor|reflexivity].
  - reflexivity.
  - reflexivity.
  - eexists. split; [vm_compute; reflexivity|]. reflexivity.
Qed.

(* ------------------------------------------------------------------ connections (mptio) *)

(* no connection history makes the reply mechanism fault (no access outside val[], no use of a freed
   context or handle), nor the id encoding of an outgoing request *)
Theorem C12_conn_no_fault :
  forall dg idl ops, Forall (fun x => r_fault (fst x) = false) (mcrun (minit dg idl) ops).
Proof. exact conn_no_fault. Qed.

(* whatever the peer sends, the handlers do and the requester side does: the transport accepted at most
   one reply per request that was handed to the reply context *)
Theorem C12_conn_at_most_one_reply :
  forall dg idl ops, NoDup (map erq (wlog (fst (mcexec (minit dg idl) ops)))).
Proof. exact conn_at_most_one_reply. Qed.

(* reference count = holders; a context without a reference of the connection has no transport, so a
   deferred handle that outlives the connection never reaches the freed connection *)
Theorem C12_conn_refcount :
  forall dg idl ops,
  let w := fst (mcexec (minit dg idl) ops) in
  match wctx w with
  | Some c => cref c = N.of_nat (wown w + live (whs w)) /\ (wown w = 0 -> csend c = false)
  | None => wown w = 0 /\ live (whs w) = 0
  end.
Proof. exact conn_refcount. Qed.

(* a request dispatched to a handler that does not defer is answered exactly once: see the comment at
   conn_request_answered_once (ConnProofs.v) *)
Theorem C12_conn_request_answered_once :
  forall dg idl ops m acts code,
  let w := fst (mcexec (minit dg idl) ops) in
  let c := snd (mcexec (minit dg idl) ops) in
  wown w = 1 -> cclosed c = false -> cgone c = false -> (cdg c = true \/ cact c = false) ->
  0 < cidl c -> cidl c <= length m -> (hd 0 m < 128)%N -> all_zero (firstn (cidl c) m) = false ->
  forallb is_reply_act acts = true ->
  let id := firstn (cidl c) m in
  let p0 := first_reply acts code in
  exists w',
    dispatch_request world mstep marmed wstep w c m (Some (acts, code)) =
      (w', set_req c (wstep w) id, code, Some (true, skipn (cidl c) m),
       match acts with [] => [] | _ :: rest => HInt (tans c p0) :: map (fun _ => HInt EBadArgument) rest end,
       [mark id ++ paybytes p0], false) /\
    marmed w' = false /\ wown w' = 1 /\ wlog w' = wlog w ++ [mkent (wstep w) (mark id) p0].
Proof. exact conn_request_answered_once. Qed.

(* a reply through a deferred handle, also after the connection is gone, puts nothing on the wire but
   the id the handle holds, marked as reply, followed by the message *)
Theorem C12_conn_handle_reply_id :
  forall dg idl ops k p f,
  let w := fst (mcexec (minit dg idl) ops) in
  let c := snd (mcexec (minit dg idl) ops) in
  In f (r_wire (snd (mcstep (w, c) (CHr k p)))) ->
  exists id, nth_error (v_hs (mview w)) k = Some (Some id) /\ f = mark id ++ paybytes p.
Proof. exact conn_handle_reply_id. Qed.

(* requester side: a reply-marked message reaches the handler registered under its id, which is released
   with it; an id nobody waits for (or an unusable one) reaches no handler *)
Theorem C12_conn_answer_routing :
  forall c m e1 e2,
  let id := unmark (firstn (cidl c) m) in
  match buf2id id with
  | Ok (v, _) =>
    match tfind (ctab c) v with
    | Some (k, tg) =>
      dispatch_answer c m e1 e2 = (set_tab c (trelease (ctab c) k), answer_ret c tg (skipn (cidl c) m),
                                   [(tg, Some (skipn (cidl c) m))]) /\
      nth_error (ctab c) k = Some (mkwe v (Some tg))
    | None => dispatch_answer c m e1 e2 = (c, e2, []) /\ ~ In v (act_ids (ctab c))
    end
  | _ => dispatch_answer c m e1 e2 = (c, e1, [])
  end.
Proof. exact dispatch_answer_spec. Qed.

(* ... and with distinct ids in use a second answer with the same id finds nobody *)
Theorem C12_conn_answered_once :
  forall tab v k tg, NoDup (act_ids tab) -> tfind tab v = Some (k, tg) ->
  tfind (trelease tab k) v = None /\ NoDup (act_ids (trelease tab k)).
Proof. exact answered_once. Qed.

(* mpt_command_reserve (with its compaction loop): the slot handed out carries an id between 1 and the
   maximum of the header width that no slot in use has; the slots in use stay what they were, in order *)
Theorem C12_conn_reserve_fresh :
  forall hasbuf tab idl tag tab' k id,
  reserve hasbuf tab idl tag = Some (tab', k, id) ->
  nth_error tab' k = Some (mkwe id (Some tag)) /\
  act_ids tab' = (if hasbuf then act_ids tab else []) ++ [id] /\
  (hasbuf = true -> ~ In id (act_ids tab)) /\ (1 <= id <= maxid idl)%N.
Proof. exact reserve_fresh. Qed.

(* hence: the ids a reachable connection waits for are pairwise distinct (the hypothesis of
   C12_conn_answered_once holds on every reachable connection) *)
Theorem C12_conn_wait_ids_distinct :
  forall dg idl ops, NoDup (act_ids (ctab (snd (mcexec (minit dg idl) ops)))).
Proof. exact conn_wait_ids_distinct. Qed.

(* byte level of the dispatchers.  The test "the id is zero: notification, no reply context" looks at the VALUE of
   every id byte: a message is a request as soon as one id byte, in any position, differs from 0 (0x80 or 0xff behind
   the first byte are id content, not a mark) ... *)
Theorem C12_conn_zero_test_per_byte :
  forall bs, all_zero bs = false <-> (exists b, In b bs /\ b <> 0%N).
Proof. exact all_zero_false_iff. Qed.

(* ... so C12_conn_request_answered_once holds for every id that has a byte different from 0 ... *)
Theorem C12_conn_request_any_nonzero_byte :
  forall dg idl ops m acts code,
  let w := fst (mcexec (minit dg idl) ops) in
  let c := snd (mcexec (minit dg idl) ops) in
  wown w = 1 -> cclosed c = false -> cgone c = false -> (cdg c = true \/ cact c = false) ->
  0 < cidl c -> cidl c <= length m -> (hd 0 m < 128)%N ->
  (exists b, In b (firstn (cidl c) m) /\ b <> 0%N) ->
  forallb is_reply_act acts = true ->
  let id := firstn (cidl c) m in
  let p0 := first_reply acts code in
  exists w',
    dispatch_request world mstep marmed wstep w c m (Some (acts, code)) =
      (w', set_req c (wstep w) id, code, Some (true, skipn (cidl c) m),
       match acts with [] => [] | _ :: rest => HInt (tans c p0) :: map (fun _ => HInt EBadArgument) rest end,
       [mark id ++ paybytes p0], false) /\
    marmed w' = false /\ wown w' = 1 /\ wlog w' = wlog w ++ [mkent (wstep w) (mark id) p0].
Proof. exact conn_request_nonzero_byte. Qed.

(* ... and only an id whose bytes are all 0 is handled as a notification (context untouched, nothing sent) *)
Theorem C12_conn_notification_all_zero :
  forall (w : world) c m h,
  (forall b, In b (firstn (cidl c) m) -> b = 0%N) ->
  dispatch_request world mstep marmed wstep w c m h =
    (w, c, match h with None => 0%Z | Some (_, code) => code end,
     match h with None => None | Some _ => Some (false, skipn (cidl c) m) end, [], [], false).
Proof. exact conn_notification_silent. Qed.

(* slot level of mpt_command_reserve: after the compaction loop the table is exactly the slots that were in use, in
   their order, followed by the new slot: no waiter is lost, doubled or moved behind another *)
Theorem C12_conn_reserve_table :
  forall tab idl tag tab' k id,
  reserve true tab idl tag = Some (tab', k, id) ->
  tab' = tactive tab ++ [mkwe id (Some tag)] /\ k = length (tactive tab).
Proof. exact reserve_table. Qed.

(* the connection over the mechanism refines the connection over the abstract specification:
   same results, waiter calls, wire messages, connection state and views after every operation *)
Theorem C12_conn_refines_spec :
  forall dg idl ops,
  Forall2 (fun x y => fst x = fst y /\ snd (snd x) = snd (snd y) /\ mview (fst (snd x)) = sview (fst (snd y)))
          (mcrun (minit dg idl) ops) (scrun (sinit_c dg idl) ops).
Proof. exact conn_refines_spec. Qed.

(* non-vacuity: a stream connection with two-byte ids; the peer sends request 0001 "AB", the handler defers;
   request 0002 "CD" is answered by the handler; then the deferred handle answers; an awaited request is
   sent with id 0001 and its answer reaches waiter 1 *)
Definition ex_cops : list cop :=
  [CTx [0; 1; 65; 66]%N; CDp [HDefer] 0; CTx [0; 2; 67; 68]%N; CDp [HReply (Some [111; 107]%N); HReply None] 0;
   CHr 0 (Some [33]%N); CAw [81]%N; CTx [128; 1; 113]%N; CDp [] 0].

Example C12_ex_conn_wire :
  map (fun x => r_wire (fst x)) (mcrun (minit false 2) ex_cops)
  = [[]; []; []; [[128; 2; 111; 107]%N]; [[128; 1; 33]%N]; [[0; 1; 81]%N]; []; []].
Proof. vm_compute. reflexivity. Qed.

Example C12_ex_conn_waiters :
  map (fun x => r_wcalls (fst x)) (mcrun (minit false 2) ex_cops)
  = [[]; []; []; []; []; []; []; [(1, Some [113]%N)]].
Proof. vm_compute. reflexivity. Qed.

Example C12_ex_conn_log :
  map erq (wlog (fst (mcexec (minit false 2) ex_cops))) = [2; 0].
Proof. vm_compute. reflexivity. Qed.

(* the hypotheses of C12_conn_request_answered_once are met by a reachable connection *)
Example C12_ex_conn_request :
  let w := fst (mcexec (minit true 2) (firstn 5 ex_cops)) in
  let c := snd (mcexec (minit true 2) (firstn 5 ex_cops)) in
  wown w = 1 /\ cclosed c = false /\ cdg c = true /\ cidl c = 2 /\
  all_zero (firstn (cidl c) [0; 3; 69]%N) = false.
Proof. vm_compute. repeat split. Qed.

Example C12_ex_conn_routing :
  let c := snd (mcexec (minit false 2) (firstn 7 ex_cops)) in
  act_ids (ctab c) = [1%N] /\ tfind (ctab c) 1%N = Some (0, 1).
Proof. vm_compute. split; reflexivity. Qed.

(* byte level: request 00 80 "A" on a stream connection with two-byte ids (the 128th id a requester hands out) is a
   request: the generic answer goes out under 80 80; two free slots in front of three used ones are compacted *)
Example C12_ex_conn_id_0080 :
  map (fun x => r_wire (fst x)) (mcrun (minit false 2) [CTx [0; 128; 65]%N; CDp [] 0]) = [[]; [[128; 128; 1; 0]%N]].
Proof. vm_compute. reflexivity. Qed.

Example C12_ex_reserve_two_free_three_used :
  reserve true [mkwe 1 None; mkwe 2 None; mkwe 3 (Some 3); mkwe 4 (Some 4); mkwe 5 (Some 5)] 2 6 =
  Some ([mkwe 3 (Some 3); mkwe 4 (Some 4); mkwe 5 (Some 5); mkwe 6 (Some 6)], 3, 6%N).
Proof. vm_compute. reflexivity. Qed.


(* mpt_command_reserve for ANY id limit (every arm of its switch: header widths 0..8 and more, as called directly):
   the slot handed out carries an id in 1..limit that no slot in use has; the table is the slots in use, in order, + the new one *)
Theorem C12_reserve_any_limit :
  forall hasbuf tab mxv tag tab' k id,
  reserve_max hasbuf tab mxv tag = Some (tab', k, id) ->
  nth_error tab' k = Some (mkwe id (Some tag)) /\
  act_ids tab' = (if hasbuf then act_ids tab else []) ++ [id] /\
  (hasbuf = true -> ~ In id (act_ids tab)) /\ (1 <= id <= mxv)%N.
Proof. exact reserve_max_fresh. Qed.

Theorem C12_reserve_any_limit_table :
  forall tab mxv tag tab' k id,
  reserve_max true tab mxv tag = Some (tab', k, id) ->
  tab' = tactive tab ++ [mkwe id (Some tag)] /\ k = length (tactive tab).
Proof. exact reserve_max_table. Qed.

(* six-byte headers, called directly: three requests, the first released, a fourth: ids 1 2 3 4, slot 0 is re-used by the compaction *)
Example C12_ex_reserve_run :
  map fst (reserve_run false [] 6 0 [None; None; None; Some 0; None]) = [Some (0, 1%N); Some (1, 2%N); Some (2, 3%N); None; Some (2, 4%N)] /\
  maxid_raw 6 = (2 ^ 47 - 1)%N /\ maxid_raw 9 = (2 ^ 63 - 1)%N.
Proof. vm_compute. repeat split. Qed.

(* ------------------------------------------------------------------ round 3: the rest of the object of mpt_output_remote() *)

(* a connection that lost its backend (POLLHUP on the datagram socket, mpt_connection_assign(con, NULL)), reached by
   any history: a reply through a deferred handle puts nothing on any wire *)
Theorem C12_conn_gone_handle_silent :
  forall dg idl ops k p,
  let w := fst (mcexec (minit dg idl) ops) in
  let c := snd (mcexec (minit dg idl) ops) in
  cgone c = true -> r_wire (snd (mcstep (w, c) (CHr k p))) = [].
Proof. exact conn_gone_handle_silent. Qed.

(* ... no request can be registered and nothing can be pushed *)
Theorem C12_conn_gone_refuses :
  forall c tag pay, cgone c = true ->
  do_await c tag = (c, EBadArgument) /\ do_push c pay = (c, EBadArgument, false) /\ do_finish c = (c, EBadArgument, [], false).
Proof. exact gone_refuses. Qed.

(* releasing a reference that is not the last one changes nothing but the count *)
Theorem C12_conn_unref_not_last :
  forall (w : world) c, cclosed c = false -> 0 < crefs c ->
  mcstep (w, c) CCl = ((w, set_refs c (crefs c - 1)), nofault RCl [] []).
Proof. exact (unref_not_last world mstep marmed wstep). Qed.

(* next(POLLOUT) (as patched by docs/C12_dgram_next_pollout.diff): nothing is sent, nothing changes *)
Theorem C12_conn_pollout_silent :
  forall (w : world) c, fst (mcstep (w, c) CNo) = (w, c) /\ r_wire (snd (mcstep (w, c) CNo)) = [] /\
                        r_wcalls (snd (mcstep (w, c) CNo)) = [].
Proof. exact (pollout_is_silent world mstep marmed wstep). Qed.

(* next(POLLHUP): the requests in flight stay registered, the reply context is kept; a datagram backend is gone *)
Theorem C12_conn_hup_keeps_waiters :
  forall (w : world) c, cclosed c = false ->
  let c' := snd (fst (mcstep (w, c) CNh)) in
  ctab c' = ctab c /\ chas c' = chas c /\ ccid c' = ccid c /\ fst (fst (mcstep (w, c) CNh)) = w /\
  (cdg c = true -> cgone c' = true) /\ r_wcalls (snd (mcstep (w, c) CNh)) = [].
Proof. exact (hup_keeps_waiters world mstep marmed wstep). Qed.

(* another backend through mpt_connection_close: every handler waiting for an answer gets NULL exactly once, the table
   is empty, no id is pending, the connection has no reply context any more (deferred handles of the old one are
   detached: C12_conn_refcount), nothing is sent *)
Theorem C12_conn_reset_releases_waiters :
  forall (w : world) c k h, cclosed c = false -> (cact c && negb (is_assign_null k h)) = false ->
  is_reopen c k h = false ->
  let c' := snd (fst (mcstep (w, c) (CRs k h))) in
  let res := snd (mcstep (w, c) (CRs k h)) in
  ctab c' = [] /\ ccid c' = 0%N /\ chas c' = false /\ r_wire res = [] /\
  r_wcalls res = clear_calls c /\ r_ret res = RRs (reset_ret k h) /\
  cgone c' = (match k with KNone => true | _ => false end).
Proof. exact (reset_releases_waiters world mstep marmed wstep). Qed.

Theorem C12_conn_clear_calls :
  forall c,
  length (clear_calls c) = length (tactive (ctab c)) /\ Forall (fun x => snd x = None) (clear_calls c) /\
  map fst (clear_calls c) = map (fun e => match wetag e with Some t => t | None => 0 end) (tactive (ctab c)).
Proof. exact clear_calls_spec. Qed.

(* a stream socket for an open stream re-opens the stream: reply context and pending id are kept; the wait table is
   kept (mpt_connection_assign) or released with NULL calls (property "") *)
Theorem C12_conn_reopen_keeps_context :
  forall (w : world) c h, cclosed c = false -> cact c = false -> is_reopen c KStream h = true ->
  let c' := snd (fst (mcstep (w, c) (CRs KStream h))) in
  fst (fst (mcstep (w, c) (CRs KStream h))) = w /\ chas c' = chas c /\ ccid c' = ccid c /\ cgone c' = false /\
  (h = HAssign -> ctab c' = ctab c /\ r_wcalls (snd (mcstep (w, c) (CRs KStream h))) = []) /\
  (h = HPropSock -> ctab c' = [] /\ r_wcalls (snd (mcstep (w, c) (CRs KStream h))) = clear_calls c).
Proof. exact (reopen_keeps_context world mstep marmed wstep). Qed.

(* the end of mpt_stream_sync (also after an answer handler failed): the ids waited for are the same, the table is
   compressed unless more than half of its slots still wait *)
Theorem C12_conn_sync_end_keeps_ids :
  forall c n wc, act_ids (ctab (fst (fst (sync_end c n wc)))) = act_ids (ctab c).
Proof. exact sync_end_keeps_ids. Qed.

(* a log message with nothing pending: exactly one outgoing message, the id bytes of the pending id (0: a notification)
   followed by the log bytes *)
Theorem C12_conn_log_is_one_message :
  forall (w : world) c msg bs u,
  cclosed c = false -> cgone c = false -> push_blocked c = false -> cact c = false -> 0 < cidl c ->
  id2buf (ccid c) (cidl c) = Ok (bs, u) ->
  mcstep (w, c) (CLg msg) = ((w, set_out c 0%N false []), mkcr (RLg 1%Z) [] [cout c ++ bs ++ msg] false).
Proof. exact (log_is_one_message world mstep marmed wstep). Qed.

(* non-vacuity: a datagram connection; a request is deferred, a request without handler is awaited (default handler)
   and one with handler; the answer ff.. makes waiter 2 fail; POLLOUT; a log message; one more reference; POLLHUP;
   the deferred reply finds no backend; a stream is assigned: the waiting default handler gets NULL (not observable),
   the context is released; the first unref is not the last *)
Definition ex_cops3 : list cop :=
  [CTx [0; 1; 65]%N; CDp [HDefer] 0; CAw0 [81]%N; CAw [82]%N; CTx [128; 2; 255]%N; CDp [] 0; CNo; CLg [0; 131; 1; 104; 2; 65; 3]%N;
   CRf; CNh; CHr 0 (Some [33]%N); CAw [83]%N; CRs KStream HAssign; CAw [84]%N; CCl; CCl].

Example C12_ex_obj_results :
  map (fun x => r_ret (fst x)) (mcrun (minit true 2) ex_cops3)
  = [RTx 3; RDp (Some (Some 1%Z)) 0 (Some (true, [65%N])) [HHandle (Some 0)]; RAw 1 1 1 (Some 3%Z); RAw 2 2 1 (Some 3%Z); RTx 3;
     RDp (Some (Some 1%Z)) (-17) None []; RNx (Some 0%Z); RLg 1; RRf 2; RNx (Some (-2)%Z); RHr (Some (-1)%Z);
     RAw (-1) 0 (-1) (Some (-1)%Z); RRs 1; RAw 1 1 1 (Some 0%Z); RCl; RCl].
Proof. vm_compute. reflexivity. Qed.

Example C12_ex_obj_wire :
  map (fun x => r_wire (fst x)) (mcrun (minit true 2) ex_cops3)
  = [[]; []; [[0; 1; 81]%N]; [[0; 2; 82]%N]; []; []; []; [[0; 0; 0; 131; 1; 104; 2; 65; 3]%N]; []; []; []; []; []; [[0; 1; 84]%N]; []; []].
Proof. vm_compute. reflexivity. Qed.

Example C12_ex_obj_waiters :
  map (fun x => r_wcalls (fst x)) (mcrun (minit true 2) ex_cops3)
  = [[]; []; []; []; []; [(1, Some [255%N])]; []; []; []; []; []; []; [(0, None)]; []; []; [(3, None)]].
Proof. vm_compute. reflexivity. Qed.

(* the hypotheses of C12_conn_gone_handle_silent / C12_conn_reset_releases_waiters on reachable states *)
Example C12_ex_obj_gone :
  let c := snd (mcexec (minit true 2) (firstn 10 ex_cops3)) in
  cgone c = true /\ act_ids (ctab c) = [1%N] /\ chas c = true /\ crefs c = 1 /\
  is_reopen c KStream HAssign = false /\ (cact c && negb (is_assign_null KStream HAssign)) = false.
Proof. vm_compute. repeat split. Qed.

(* the end of mpt_stream_sync: 3 of 4 slots wait, a handler fails: 2 > 4/2 is false -> the table is compressed *)
Example C12_ex_sync_break :
  let '(c, z, wc) := do_sync (snd (mcexec (minit false 2)
      [CAw [81]%N; CAw [82]%N; CAw [83]%N; CAw [84]%N; CTx [128; 4; 113]%N; CDp [] 0; CTx [128; 1; 255]%N; CTx [128; 2; 114]%N])) in
  z = 2%Z /\ wc = [(1, Some [255%N])] /\ act_ids (ctab c) = [2; 3]%N /\ length (ctab c) = 2 /\ length (csock c) + length (cload c) = 1.
Proof. vm_compute. repeat split. Qed.

(* ------------------------------------------------------------------ the stream as transport of a reply
   (mptio/stream/stream_reply.c + stream_append.c + the data / end / delete uses of stream_push.c, AS PATCHED by
   docs/C12_reply_rollback_active.diff, C12_reply_rollback_blocks.diff, C12_reply_id_partial.diff; SrmModel.v).
   [wq] = the write queue as the complete messages it holds ([wfin]), the message in progress ([wcur]) and
   MPT_STREAMFLAG(MesgActive) ([wact]); [wq_idle] = nothing in progress.  [take] / [term_ok] say how much of a push the
   queue accepts - ANY such behaviour (any pattern of failing reallocs) is covered by the first three theorems;
   [srm_reply_cap cap] is the instance "COBS queue of cap bytes that cannot grow". *)

(* a reply is all or nothing: either exactly one complete message id ++ message is queued behind what was there, or the
   result is negative and the queue is what it was (no partial frame, no id without message, nothing left in progress) *)
Theorem C12_stream_reply_atomic :
  forall (take : wq -> list byte -> nat) (term_ok : wq -> bool) (efull : Z), (efull < 0)%Z ->
  forall q id msg r q1, wq_idle q -> id <> [] ->
  srm_reply take term_ok efull q id msg = (r, q1) ->
  (r = 0%Z /\ q1 = mkwq (wfin q ++ [id ++ msg_bytes msg]) [] false /\
   exists q2, wfin q2 = wfin q /\ wcur q2 = id ++ msg_bytes msg /\ term_ok q2 = true) \/
  ((r < 0)%Z /\ q1 = q).
Proof. exact srm_reply_atomic. Qed.

(* refused without effect while another message is being composed on the stream *)
Theorem C12_stream_reply_busy :
  forall take term_ok efull q id msg, wact q = true -> srm_reply take term_ok efull q id msg = (EBadArgument, q).
Proof. exact srm_reply_busy. Qed.

(* a refused reply does not block the next one *)
Theorem C12_stream_reply_stays_idle :
  forall take term_ok efull, (efull < 0)%Z -> forall q id msg r q1,
  wq_idle q -> id <> [] -> srm_reply take term_ok efull q id msg = (r, q1) -> wq_idle q1.
Proof. exact srm_reply_idle. Qed.

(* queue of cap bytes: what is accepted is a complete frame that fits behind the frames already queued *)
Theorem C12_stream_reply_accepted_fits :
  forall cap q id msg r q1, wq_idle q -> id <> [] ->
  srm_reply_cap cap q id msg = (r, q1) ->
  (r = 0%Z /\ q1 = mkwq (wfin q ++ [id ++ msg_bytes msg]) [] false /\ s_fits cap (wfin q) (id ++ msg_bytes msg) = true)
  \/ ((r < 0)%Z /\ q1 = q).
Proof. exact srm_reply_cap_sound. Qed.

(* any sequence of replies (retries included) on one stream: the queue holds exactly the accepted ones, each complete
   and with its own id in front, in order; every result is 0 or an error *)
Theorem C12_stream_replies_wire :
  forall cap reqs q rs q1, wq_idle q -> Forall (fun x => fst x <> []) reqs ->
  srm_run cap q reqs = (rs, q1) ->
  wq_idle q1 /\ wfin q1 = wfin q ++ accepted rs reqs /\ Forall (fun r => (r <= 0)%Z) rs.
Proof. exact srm_run_wire. Qed.

(* queue of 8 bytes: a reply of 8 bytes under id 81 01 is refused after the id and 5 bytes were pushed (BadOperation, rolled
   back); the retry with 2 bytes is queued under the same id (frame of 6 bytes); a null reply under id 81 02 (frame of 4
   bytes) does not fit behind it: its id is pushed in part and rolled back (MissingBuffer) *)
Example C12_ex_stream_replies :
  srm_run 8 (mkwq [] [] false)
    [([129; 1]%N, Some [[65; 65]%N; [65; 65; 65; 65; 65; 65]%N]); ([129; 1]%N, Some [[111; 107]%N]); ([129; 2]%N, None)]
  = ([(-4)%Z; 0%Z; (-17)%Z], mkwq [[129; 1; 111; 107]%N] [] false).
Proof. vm_compute. reflexivity. Qed.

(* frame sizes at the block length: 253 / 254 bytes without zero *)
Example C12_ex_frame_sizes :
  frame_size [] = 2 /\ frame_size [0%N] = 3 /\ frame_size (repeat 1%N 253) = 255 /\ frame_size (repeat 1%N 254) = 257
  /\ fst (srm_reply_cap 256 (mkwq [] [] false) (repeat 1%N 254) None) = EBadOperation
  /\ fst (srm_reply_cap 257 (mkwq [] [] false) (repeat 1%N 254) None) = 0%Z.
Proof. vm_compute. repeat split. Qed.


Print Assumptions C12_id_roundtrip.
Print Assumptions C12_id_accepted_when_fits.
Print Assumptions C12_id_refused_when_unfit.
Print Assumptions C12_fits_closed_form.
Print Assumptions C12_id_mark_bit_clear.
Print Assumptions C12_buf2id_value.
Print Assumptions C12_value_of_digits.
Print Assumptions C12_no_fault.
Print Assumptions C12_refcount_is_holders.
Print Assumptions C12_log_is_accepted_calls.
Print Assumptions C12_at_most_one_reply.
Print Assumptions C12_reply_carries_id.
Print Assumptions C12_later_replies_refused.
Print Assumptions C12_retry_after_reject.
Print Assumptions C12_released_context_default_reply.
Print Assumptions C12_released_handle_default_reply.
Print Assumptions C12_arm_preserves_context.
Print Assumptions C12_history_refines_spec.
Print Assumptions C12_conn_no_fault.
Print Assumptions C12_conn_at_most_one_reply.
Print Assumptions C12_conn_refcount.
Print Assumptions C12_conn_request_answered_once.
Print Assumptions C12_conn_handle_reply_id.
Print Assumptions C12_conn_answer_routing.
Print Assumptions C12_conn_answered_once.
Print Assumptions C12_conn_reserve_fresh.
Print Assumptions C12_conn_wait_ids_distinct.
Print Assumptions C12_conn_refines_spec.
Print Assumptions C12_conn_zero_test_per_byte.
Print Assumptions C12_conn_request_any_nonzero_byte.
Print Assumptions C12_conn_notification_all_zero.
Print Assumptions C12_conn_reserve_table.
Print Assumptions C12_conn_gone_handle_silent.
Print Assumptions C12_conn_gone_refuses.
Print Assumptions C12_conn_unref_not_last.
Print Assumptions C12_conn_pollout_silent.
Print Assumptions C12_conn_hup_keeps_waiters.
Print Assumptions C12_conn_reset_releases_waiters.
Print Assumptions C12_conn_clear_calls.
Print Assumptions C12_conn_reopen_keeps_context.
Print Assumptions C12_conn_sync_end_keeps_ids.
Print Assumptions C12_conn_log_is_one_message.
Print Assumptions C12_reserve_any_limit.
Print Assumptions C12_reserve_any_limit_table.
Print Assumptions C12_stream_reply_atomic.
Print Assumptions C12_stream_reply_busy.
Print Assumptions C12_stream_reply_stays_idle.
Print Assumptions C12_stream_reply_accepted_fits.
Print Assumptions C12_stream_replies_wire.
