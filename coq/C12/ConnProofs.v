(* C12/ConnProofs.v — the connection layer (ConnModel.v) over the mechanism model:
   invariant of the reply mechanism after every connection history, no fault,
   refinement of the connection over the abstract specification. *)
From MptV Require Import Base.Mem C12.ReplyModel C12.ReplySpec C12.ReplyInv C12.ReplyStep C12.ReplyProps
  C12.ReplyRefine C12.ConnModel C12.ConnSim C12.ConnKeep C12.ConnSpecProps C12.ConnWait C12.ConnReserve.
From MptV Require C12.ConnWaitInv.
Local Open Scope nat_scope.

(* the invariant with the history of primitive operations performed so far *)
Definition hsound (w : world) : Prop := exists H, length H = wstep w /\ ginv H (wstep w) w.

Lemma arm_at_app H X i bs : arm_at H i = Some bs -> arm_at (H ++ X) i = Some bs.
Proof.
  unfold arm_at. destruct (nth_error H i) as [o|] eqn:E; [|discriminate].
  rewrite nth_error_app1 by (apply nth_error_Some; congruence). rewrite E. auto.
Qed.

Lemma armed_ok_app H X d : armed_ok H d -> armed_ok (H ++ X) d.
Proof.
  intros F Hp. destruct (F Hp) as (bs & Ha & Hb). exists bs. split; [apply arm_at_app; assumption|assumption].
Qed.

Lemma ginv_app H X n w : ginv H n w -> ginv (H ++ X) n w.
Proof.
  intros [Hc Hh Hl Hs]. constructor; auto.
  - destruct (wctx w) as [c|]; [|assumption].
    destruct Hc as (A & B & C & D & E & F).
    split; [exact A|]. split; [exact B|]. split; [exact C|]. split; [exact D|]. split; [exact E|].
    apply armed_ok_app; assumption.
  - intros d Hd. destruct (Hh d Hd) as (A & B & C).
    split; [exact A|]. split; [exact B|]. apply armed_ok_app; assumption.
  - intros e He. destruct (Hl e He) as (bs & Ha & Hb). exists bs. split; [apply arm_at_app; assumption|assumption].
Qed.

Lemma ginv_set_orc H n w orc : ginv H n w -> ginv H n (set_orc w orc).
Proof. intros Hi. apply (ginv_ext H n n w); auto. Qed.

Lemma hsound_init max send ptr orc : hsound (init max send ptr orc).
Proof. exists []. rewrite init_step. split; [reflexivity|apply init_inv]. Qed.

(* one primitive operation with any script *)
Lemma mstep_good w orc o : hsound w -> wf_op o = true ->
  hsound (fst (mstep w orc o)) /\ oret (snd (mstep w orc o)) <> RFault /\
  wstep (fst (mstep w orc o)) = S (wstep w).
Proof.
  intros (H & Hlen & Hinv) Hwf. unfold mstep.
  assert (Hinv' : ginv (H ++ [o]) (wstep (set_orc w orc)) (set_orc w orc))
    by (apply ginv_set_orc, ginv_app; exact Hinv).
  assert (Hnth : nth_error (H ++ [o]) (wstep (set_orc w orc)) = Some o).
  { cbn [wstep set_orc]. rewrite <- Hlen, nth_error_app2, Nat.sub_diag by lia. reflexivity. }
  destruct (step_good _ _ o Hinv' Hnth Hwf) as (Hg & Hs & Hr).
  split; [|split]; [|exact Hr|exact Hs].
  exists (H ++ [o]). rewrite Hs. cbn [wstep set_orc]. split; [rewrite app_length; cbn; lia|].
  rewrite Hs in Hg. exact Hg.
Qed.

Lemma simrel_set_orc w s orc : simrel w s -> simrel (set_orc w orc) (sset_orc s orc).
Proof. intros [Ro Rh Rl Rs Rorc Rc]. constructor; cbn; auto. Qed.

Lemma mstep_sim w s orc o : simrel w s -> hsound w -> wf_op o = true ->
  snd (mstep w orc o) = snd (sstepo s orc o) /\
  simrel (fst (mstep w orc o)) (fst (sstepo s orc o)).
Proof.
  intros Hsim (H & Hlen & Hinv) Hwf. unfold mstep, sstepo.
  assert (Hinv' : ginv (H ++ [o]) (wstep (set_orc w orc)) (set_orc w orc))
    by (apply ginv_set_orc, ginv_app; exact Hinv).
  assert (Hnth : nth_error (H ++ [o]) (wstep (set_orc w orc)) = Some o).
  { cbn [wstep set_orc]. rewrite <- Hlen, nth_error_app2, Nat.sub_diag by lia. reflexivity. }
  destruct (step0_sim _ _ _ o (simrel_set_orc w s orc Hsim) Hinv' Hnth Hwf) as (Hob & Hsim').
  unfold step, sstep.
  destruct (step0 (set_orc w orc) o) as [w' ob]. destruct (sstep0 (sset_orc s orc) o) as [s' ob'].
  cbn [fst snd] in *. split; [congruence|]. apply sim_bump. assumption.
Qed.

(* ---------- instance 1: mechanism against specification ---------- *)
Definition R1 (w : world) (s : sworld) : Prop := simrel w s /\ hsound w.

Lemma cop_ok_wf o : cop_ok o = true -> wf_op o = true.
Proof. destruct o; cbn; auto. Qed.

Lemma R1_step w s orc o : R1 w s -> cop_ok o = true ->
  snd (mstep w orc o) = snd (sstepo s orc o) /\ R1 (fst (mstep w orc o)) (fst (sstepo s orc o)) /\
  oret (snd (mstep w orc o)) <> RFault.
Proof.
  intros [Hsim Hs] Hwf. apply cop_ok_wf in Hwf.
  destruct (mstep_sim w s orc o Hsim Hs Hwf) as (A & B).
  destruct (mstep_good w orc o Hs Hwf) as (C & D & _).
  split; [exact A|]. split; [split; assumption|exact D].
Qed.

Lemma R1_view w s : R1 w s -> mview w = sview s.
Proof. intros [Hsim (H & _ & Hinv)]. eapply view_sim; eauto. Qed.

Lemma R1_arm w s : R1 w s -> marmed w = sarmed s.
Proof. intros HR. unfold marmed, sarmed. rewrite (R1_view w s HR). reflexivity. Qed.

Lemma R1_ser w s : R1 w s -> wstep w = s_step s.
Proof. intros [[_ _ _ Rs _ _] _]. symmetry. exact Rs. Qed.

Lemma R1_init idl : R1 (init idl true true []) (sinit idl true true []).
Proof. split; [apply init_sim|apply hsound_init]. Qed.

(* every connection history: the mechanism and the specification give the same results, leave the same
   connection state, and show the same open requests / handles / log *)
Lemma conn_refines_spec dg idl ops :
  Forall2 (fun x y => fst x = fst y /\ snd (snd x) = snd (snd y) /\ mview (fst (snd x)) = sview (fst (snd y)))
          (mcrun (minit dg idl) ops) (scrun (sinit_c dg idl) ops).
Proof.
  unfold mcrun, scrun, minit, sinit_c.
  pose proof (crun_sim world sworld mstep sstepo marmed sarmed wstep s_step R1 R1_step R1_arm R1_ser
                       ops _ _ (conn_init dg idl) (R1_init idl)) as HF.
  induction HF as [|x y l l' (A & B & C & D) _ IH]; constructor; auto.
  repeat split; auto. apply R1_view. assumption.
Qed.

Lemma conn_no_fault dg idl ops :
  Forall (fun x => r_fault (fst x) = false) (mcrun (minit dg idl) ops).
Proof.
  unfold mcrun, minit.
  pose proof (crun_sim world sworld mstep sstepo marmed sarmed wstep s_step R1 R1_step R1_arm R1_ser
                       ops _ _ (conn_init dg idl) (R1_init idl)) as HF.
  induction HF as [|x y l l' (A & B & C & D) _ IH]; constructor; auto.
Qed.

Lemma conn_sound dg idl ops : hsound (fst (mcexec (minit dg idl) ops)).
Proof.
  unfold mcexec, minit.
  destruct (cexec_sim world sworld mstep sstepo marmed sarmed wstep s_step R1 R1_step R1_arm R1_ser
                      ops _ _ (conn_init dg idl) (R1_init idl)) as [[_ Hs] _].
  exact Hs.
Qed.

(* at most one accepted reply per request handed to the reply context, whatever the peer, the handlers
   and the requester side of the connection do *)
Lemma conn_at_most_one_reply dg idl ops :
  NoDup (map erq (wlog (fst (mcexec (minit dg idl) ops)))).
Proof.
  destruct (conn_sound dg idl ops) as (H & _ & [_ _ _ Hs]).
  apply nodup_cnt. intros i. destruct (Hs i) as [A _].
  unfold all_ser in A. rewrite !cnt_app in A. lia.
Qed.

(* the reference count of the connection's reply context is the number of its holders; a context
   nobody holds a reference to has no transport (a deferred handle that outlives the connection
   can not reach the freed connection) *)
Lemma conn_refcount dg idl ops :
  let w := fst (mcexec (minit dg idl) ops) in
  match wctx w with
  | Some c => cref c = N.of_nat (wown w + live (whs w)) /\ (wown w = 0 -> csend c = false)
  | None => wown w = 0 /\ live (whs w) = 0
  end.
Proof.
  intros w. destruct (conn_sound dg idl ops) as (H & _ & [Hc _ _ _]). fold w in Hc.
  destruct (wctx w); [|assumption]. destruct Hc as (A & _ & _ & B & _). auto.
Qed.

(* ---------- instance 2: the specification against itself (what the connection keeps of its context) ---------- *)
Definition R2 (idl : nat) (s s' : sworld) : Prop := s = s' /\ sopen idl s.

Lemma R2_step idl s s' orc o : R2 idl s s' -> cop_ok o = true ->
  snd (sstepo s orc o) = snd (sstepo s' orc o) /\ R2 idl (fst (sstepo s orc o)) (fst (sstepo s' orc o)) /\
  oret (snd (sstepo s orc o)) <> RFault.
Proof.
  intros [<- Ho] Hok. split; [reflexivity|]. split; [|apply sstepo_no_fault].
  split; [reflexivity|]. apply sopen_step; assumption.
Qed.

Lemma sopen_init idl : sopen idl (sinit idl true true []).
Proof.
  unfold sinit, sopen. destruct (65535 <? N.of_nat idl)%N; cbn; [split; [lia|intros; lia]|].
  split; [lia|]. auto.
Qed.

Lemma spec_conn_open dg idl ops : sopen idl (fst (scexec (sinit_c dg idl) ops)).
Proof.
  unfold scexec, sinit_c.
  destruct (cexec_sim sworld sworld sstepo sstepo sarmed sarmed s_step s_step (R2 idl) (R2_step idl)
                      (fun a b H => f_equal sarmed (proj1 H)) (fun a b H => f_equal s_step (proj1 H))
                      ops _ _ (conn_init dg idl) (conj eq_refl (sopen_init idl))) as [[_ Ho] _].
  exact Ho.
Qed.

(* the mechanism and the specification after the same connection history *)
Lemma conn_related dg idl ops :
  R1 (fst (mcexec (minit dg idl) ops)) (fst (scexec (sinit_c dg idl) ops)) /\
  snd (mcexec (minit dg idl) ops) = snd (scexec (sinit_c dg idl) ops).
Proof.
  unfold mcexec, scexec, minit, sinit_c.
  apply (cexec_sim world sworld mstep sstepo marmed sarmed wstep s_step R1 R1_step R1_arm R1_ser). apply R1_init.
Qed.

Lemma conn_cidl dg idl ops : cidl (snd (mcexec (minit dg idl) ops)) = idl.
Proof.
  unfold mcexec, minit. rewrite (keep_cexec world mstep marmed wstep ops (init idl true true []) (conn_init dg idl)).
  reflexivity.
Qed.

(* A request (nonzero id without reply mark) dispatched to a handler that does not defer, on a reachable
   connection that still holds its reply context and whose transport accepts (datagram, or stream with no
   outgoing message being composed): exactly one message goes out, the request's id marked as reply followed
   by the handler's first reply (or by the generic answer {Answer, code} when the handler did not reply);
   further replies of the handler are refused with BadArgument; afterwards the context holds no open request
   and the log of accepted replies has exactly one new entry, for this request. *)
Lemma conn_request_answered_once dg idl ops m acts code :
  let w := fst (mcexec (minit dg idl) ops) in
  let c := snd (mcexec (minit dg idl) ops) in
  wown w = 1 -> cclosed c = false -> cgone c = false -> (cdg c = true \/ cact c = false) ->
  0 < cidl c -> cidl c <= length m -> (hd 0 m < 128)%N -> all_zero (firstn (cidl c) m) = false ->
  forallb is_reply_act acts = true ->
  let id := firstn (cidl c) m in
  let p0 := first_reply acts code in
  exists w',
    dispatch_request world mstep marmed wstep w c m (Some (acts, code)) =
      (w', set_req c (wstep w) id, code, Some (true, skipn (cidl c) m),
       match acts with [] => [] | _ :: rest => HInt (tans c p0) :: map (fun _ => HInt EBadArgument) rest end,
       [mark id ++ paybytes p0], false) /\
    marmed w' = false /\ wown w' = 1 /\ wlog w' = wlog w ++ [mkent (wstep w) (mark id) p0].
Proof.
  intros w c Hown Hcl Hgn Hacc Hpos Hlen Hhd Hnz Hall id p0.
  destruct (conn_related dg idl ops) as [HR Hc]. fold w in HR. fold c in Hc.
  set (s := fst (scexec (sinit_c dg idl) ops)) in *.
  pose proof (spec_conn_open dg idl ops) as [_ Ho]. fold s in Ho.
  pose proof (conn_cidl dg idl ops) as Hidl. fold c in Hidl.
  clearbody s. clearbody w c.
  pose proof HR as [[Ro Rh Rl Rs Rorc Rc] Hs].
  assert (Hsown : s_own s = 1) by congruence.
  destruct (Ho Hsown) as (Hatt & Hptr & Hmax).
  assert (Hmax' : s_max s = cidl c) by congruence.
  destruct (spec_request_answered_once s c m acts code Hsown Hatt Hptr Hmax' Hcl Hgn Hacc Hpos Hlen Hnz Hall)
    as (s' & Hd & Hcur & Hsame & Hlog).
  assert (Hwf : req_wf c m) by (unfold req_wf; rewrite hd_firstn by lia; exact Hhd).
  destruct (dispatch_request_sim world sworld mstep sstepo marmed sarmed wstep s_step R1 R1_step R1_arm R1_ser
                                 w s c m (Some (acts, code)) HR Hwf)
    as (w' & s2 & c' & z & seen & rs & ws & Hm & Hsd & HR').
  rewrite Hd in Hsd. injection Hsd as E1 E2 E3 E4 E5 E6. subst s2 c' z seen rs ws.
  exists w'. fold id p0 in Hm. rewrite Hm. rewrite <- Rs.
  split; [reflexivity|].
  pose proof HR' as [[Ro' Rh' Rl' Rs' Rorc' Rc'] Hs'].
  destruct Hsame as (So & _).
  assert (Hsown' : s_own s' = 1) by congruence.
  split; [rewrite (R1_arm w' s' HR'), (sarmed_spec s' Hsown'), Hcur; reflexivity|].
  split; [congruence|]. rewrite <- Rl', Hlog, Rl, Rs. reflexivity.
Qed.

(* a reply through a deferred handle (also after the connection is gone): whatever goes on the wire is the
   id the handle shows, marked as reply, followed by the message *)
Lemma conn_handle_reply_id dg idl ops k p f :
  let w := fst (mcexec (minit dg idl) ops) in
  let c := snd (mcexec (minit dg idl) ops) in
  In f (r_wire (snd (mcstep (w, c) (CHr k p)))) ->
  exists id, nth_error (v_hs (mview w)) k = Some (Some id) /\ f = mark id ++ paybytes p.
Proof.
  intros w c. destruct (conn_related dg idl ops) as [HR _]. fold w in HR.
  set (s := fst (scexec (sinit_c dg idl) ops)) in *. clearbody s. clearbody w c.
  unfold mcstep, cstep, prim.
  destruct (R1_step w s [tans c p] (OHReply k p) HR eq_refl) as (Hob & _ & _).
  destruct (mstep w [tans c p] (OHReply k p)) as [w' ob]. cbn [fst snd r_wire] in *.
  destruct (cclosed c); [intros []|]. intros Hin.
  apply in_call_wire in Hin. destruct Hin as (cl & Hcl & ->).
  rewrite Hob in Hcl. apply spec_handle_calls in Hcl. destruct Hcl as (q & Hk & Hid & Hp).
  exists (qid q). rewrite (R1_view w s HR). unfold sview. cbn [v_hs].
  rewrite nth_error_map, Hk, Hid, Hp. auto.
Qed.

(* the ids a reachable connection waits for are pairwise distinct *)
Lemma conn_wait_ids_distinct dg idl ops : NoDup (act_ids (ctab (snd (mcexec (minit dg idl) ops)))).
Proof.
  unfold mcexec, minit.
  apply (ConnWaitInv.keep_cexec world mstep marmed wstep ops (init idl true true []) (conn_init dg idl)).
  apply ConnWaitInv.winv_init.
Qed.
