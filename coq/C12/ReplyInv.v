(* C12/ReplyInv.v — the invariant of the reply mechanism and its preservation by every operation.

   [ginv H n w]: H is the complete history (fixed), n the number of operations already
   performed.  It says: the reference count equals the number of holders (caller references +
   live deferred handles); a context without caller reference has its transport detached; every
   reply_data has its storage and len <= max; an armed reply_data holds exactly the bytes of the
   arm operation whose number it carries (ghost [drq]); every log entry carries the marked bytes of
   the arm operation whose number it carries; all request numbers that are open (context, handles)
   or logged are pairwise distinct and below n. *)
From MptV Require Import Base.Mem C12.ReplyModel C12.ReplySpec.
Local Open Scope nat_scope.

(* ---------- list helpers ---------- *)
Lemma firstn_exact {A} (l l' : list A) : firstn (length l) (l ++ l') = l.
Proof. induction l as [|x l IH]; [destruct l'; reflexivity|]. cbn. rewrite IH. reflexivity. Qed.

Lemma upd_h_split (l1 l2 : list (option rdata)) x v :
  upd_h (l1 ++ x :: l2) (length l1) v = l1 ++ v :: l2.
Proof.
  unfold upd_h. rewrite firstn_app, firstn_all, Nat.sub_diag. cbn [firstn]. rewrite app_nil_r.
  f_equal. f_equal.
  replace (S (length l1)) with (length (l1 ++ [x])) by (rewrite app_length; cbn; lia).
  replace (l1 ++ x :: l2) with ((l1 ++ [x]) ++ l2) by (rewrite <- app_assoc; reflexivity).
  rewrite skipn_app, skipn_all, Nat.sub_diag. reflexivity.
Qed.

Lemma live_app l1 l2 : live (l1 ++ l2) = live l1 + live l2.
Proof. unfold live. rewrite filter_app, app_length. reflexivity. Qed.

Lemma live_cons x l : live (x :: l) = (if is_some x then 1 else 0) + live l.
Proof. unfold live. cbn [filter]. destruct (is_some x); reflexivity. Qed.

(* counting occurrences *)
Definition cnt (l : list nat) (i : nat) : nat := count_occ Nat.eq_dec l i.

Lemma cnt_app l1 l2 i : cnt (l1 ++ l2) i = cnt l1 i + cnt l2 i.
Proof. apply count_occ_app. Qed.
Lemma cnt_nil i : cnt [] i = 0.
Proof. reflexivity. Qed.
Lemma cnt_cons x l i : cnt (x :: l) i = (if Nat.eq_dec x i then 1 else 0) + cnt l i.
Proof. unfold cnt. cbn [count_occ]. destruct (Nat.eq_dec x i); reflexivity. Qed.

Lemma nodup_cnt l : NoDup l <-> forall i, cnt l i <= 1.
Proof. apply NoDup_count_occ. Qed.

(* ---------- ghost lookups ---------- *)
Definition arm_bytes (o : op) : option (list byte) :=
  match o with OArm bs => Some bs | OArmZ n => Some (repeat 0%N n) | _ => None end.
Definition arm_at (H : list op) (i : nat) : option (list byte) :=
  match nth_error H i with Some o => arm_bytes o | None => None end.

Definition rd_ok (d : rdata) : Prop := length (dval d) = Nat.max 4 (dmax d) /\ dlen d <= dmax d.
Definition armed_ok (H : list op) (d : rdata) : Prop :=
  0 < dlen d ->
  exists bs, arm_at H (drq d) = Some bs /\ firstn (dlen d) (dval d) = bs /\ (hd 0 bs < 128)%N.
Definition log_ok (H : list op) (e : entry) : Prop :=
  exists bs, arm_at H (erq e) = Some bs /\ bs <> [] /\ eid e = mark bs.

Definition held_rq (d : rdata) : list nat := if dlen d =? 0 then [] else [drq d].
Definition cpart (c : option ctx) : list nat := match c with Some c => held_rq (cdata c) | None => [] end.
Definition hpart (h : option rdata) : list nat := match h with Some d => held_rq d | None => [] end.
Definition all_ser (w : world) : list nat :=
  cpart (wctx w) ++ flat_map hpart (whs w) ++ map erq (wlog w).

Record ginv (H : list op) (n : nat) (w : world) : Prop := mkginv {
  g_ctx : match wctx w with
          | Some c => cref c = N.of_nat (wown w + live (whs w))
                      /\ (N.of_nat (wown w + live (whs w)) < two64)%N
                      /\ 0 < wown w + live (whs w)
                      /\ (wown w = 0 -> csend c = false)
                      /\ rd_ok (cdata c) /\ armed_ok H (cdata c)
          | None => wown w = 0 /\ live (whs w) = 0
          end;
  g_hs : forall d, In (Some d) (whs w) -> rd_ok d /\ 0 < dlen d /\ armed_ok H d;
  g_log : forall e, In e (wlog w) -> log_ok H e;
  g_ser : forall i, cnt (all_ser w) i <= 1 /\ (n <= i -> cnt (all_ser w) i = 0)
}.

(* ---------- contextSend ---------- *)
Definition cleared (d d' : rdata) : Prop :=
  dlen d' = 0 /\ dmax d' = dmax d /\ length (dval d') = length (dval d) /\ drq d' = drq d.

Lemma mark_firstn n v : 0 < n -> firstn n (mark v) = mark (firstn n v).
Proof. destruct n; [lia|]. destruct v; reflexivity. Qed.

Lemma mark_length v : length (mark v) = length v.
Proof. destruct v; reflexivity. Qed.

Lemma unmark_byte b : (b < 128)%N -> N.land (N.lor b 128) 127 = b.
Proof.
  intros Hb. apply N.bits_inj. intros n.
  rewrite N.land_spec, N.lor_spec.
  destruct (N.lt_ge_cases n 7) as [Hn|Hn].
  - change 127%N with (N.ones 7). rewrite N.ones_spec_low by assumption.
    change 128%N with (2 ^ 7)%N. rewrite N.pow2_bits_false by lia.
    rewrite orb_false_r, andb_true_r. reflexivity.
  - change 127%N with (N.ones 7). rewrite N.ones_spec_high by assumption.
    rewrite andb_false_r. symmetry.
    rewrite <- (N.mod_small b (2 ^ 7)) by exact Hb.
    apply N.mod_pow2_bits_high. assumption.
Qed.

(* the five outcomes of contextSend *)
Inductive send_outcome (c : ctx) (d : rdata) (p : option (list byte)) (orc : list Z) : sres -> Prop :=
| SoRefused : dlen d = 0 -> send_outcome c d p orc (mksr EBadArgument d [] [] orc)
| SoDropped : 0 < dlen d -> csend c = false ->
    send_outcome c d p orc (mksr 0 (set_dlen d 0) [] [] orc)
| SoNoTarget : 0 < dlen d -> csend c = true -> cptr c = false ->
    send_outcome c d p orc (mksr 0 d [] [] orc)
| SoAccepted : 0 < dlen d -> csend c = true -> cptr c = true -> (0 <= hd 0 orc)%Z ->
    send_outcome c d p orc
      (mksr (hd 0%Z orc) (mkrd (dmax d) 0 (mark (dval d)) (drq d))
            [mkcall (mark (firstn (dlen d) (dval d))) p (hd 0%Z orc)]
            [mkent (drq d) (mark (firstn (dlen d) (dval d))) p] (tl orc))
| SoRejected : 0 < dlen d -> csend c = true -> cptr c = true -> (hd 0 orc < 0)%Z ->
    send_outcome c d p orc
      (mksr (hd 0%Z orc) d [mkcall (mark (firstn (dlen d) (dval d))) p (hd 0%Z orc)] [] (tl orc)).

Lemma ctx_send_outcome c d p orc :
  rd_ok d -> (0 < dlen d -> (hd 0 (dval d) < 128)%N) ->
  exists s, ctx_send c d p orc = Ok s /\ send_outcome c d p orc s.
Proof.
  intros [Hlen Hle] Hhd. unfold ctx_send.
  destruct (Nat.eqb_spec (dlen d) 0) as [H0|H0].
  { eexists; split; [reflexivity|]. constructor; assumption. }
  assert (Hpos : 0 < dlen d) by lia.
  destruct (csend c) eqn:Hs; cbn [negb].
  2:{ eexists; split; [reflexivity|]. apply SoDropped; assumption. }
  destruct (cptr c) eqn:Hp; cbn [negb].
  2:{ eexists; split; [reflexivity|]. apply SoNoTarget; assumption. }
  destruct (dval d) as [|b t] eqn:Hv.
  { cbn [length] in Hlen. lia. }
  cbn [val0 bind].
  assert (Hrd : rd (N.lor b 128 :: t) 0 (dlen d) = Ok (firstn (dlen d) (N.lor b 128 :: t))).
  { unfold rd. cbn [length] in *. destruct (Nat.leb_spec (0 + dlen d) (S (length t))); [reflexivity|lia]. }
  rewrite Hrd. cbn [bind].
  change (N.lor b 128 :: t) with (mark (b :: t)).
  rewrite mark_firstn by assumption.
  destruct (Z.leb_spec 0 (hd 0%Z orc)) as [Hr|Hr].
  - eexists; split; [reflexivity|]. rewrite <- Hv. apply SoAccepted; assumption.
  - cbn [mark val0 bind]. rewrite unmark_byte by (apply (Hhd Hpos)).
    eexists; split; [reflexivity|].
    replace (mkrd (dmax d) (dlen d) (b :: t) (drq d)) with d by (destruct d; cbn in *; subst; reflexivity).
    rewrite <- Hv. apply SoRejected; assumption.
Qed.

(* what the invariant proof needs of it *)
Lemma send_outcome_shape c d p orc s :
  send_outcome c d p orc s ->
  (srd s = d /\ slogged s = []) \/
  (0 < dlen d /\ cleared d (srd s) /\ (0 <= sret s)%Z /\
   (slogged s = [] \/ slogged s = [mkent (drq d) (mark (firstn (dlen d) (dval d))) p])).
Proof.
  intros Ho. destruct Ho; cbn [srd slogged sret].
  - left; auto.
  - right. repeat split; auto; try reflexivity; lia.
  - left; auto.
  - right. repeat split; auto; cbn; try reflexivity; try apply mark_length.
  - left; auto.
Qed.

Lemma armed_hd H d : rd_ok d -> armed_ok H d -> 0 < dlen d -> (hd 0 (dval d) < 128)%N.
Proof.
  intros _ Ha Hp. destruct (Ha Hp) as (bs & _ & Hf & Hh). subst bs.
  destruct (dlen d); [lia|]. destruct (dval d); exact Hh.
Qed.

(* ---------- reference counts ---------- *)
Lemma raise_spec r : (0 < r)%N -> (r < two64)%N ->
  refcount_raise r = (if (r + 1 <? two64)%N then Some (r + 1)%N else None).
Proof.
  intros H0 H1. unfold refcount_raise.
  destruct (N.eqb_spec r 0); [lia|].
  destruct (N.ltb_spec (r + 1) two64) as [Hlt|Hge].
  - rewrite N.mod_small by assumption. destruct (N.eqb_spec (r + 1) 0); [lia|reflexivity].
  - assert (r + 1 = two64)%N as -> by lia. rewrite N.mod_same by discriminate. reflexivity.
Qed.

Lemma lower_spec r : (0 < r)%N -> refcount_lower r = Some (r - 1)%N.
Proof. intros H. unfold refcount_lower. destruct (N.eqb_spec r 0); [lia|reflexivity]. Qed.

(* ---------- tactics for the counting part ---------- *)
Ltac ser_norm :=
  unfold all_ser in *; cbn [wctx whs wlog cpart hpart cdata set_data set_ref set_send set_dlen
                            w_ctx w_sent bump dlen drq] in *;
  repeat (rewrite ?flat_map_app, ?map_app, ?cnt_app, ?cnt_nil in *; cbn [flat_map map erq] in * );
  rewrite ?cnt_app, ?cnt_nil in *.
