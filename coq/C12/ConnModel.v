(* C12/ConnModel.v — the mptio users of message ids and of the reply context:
     mptio/connection/connection_dispatch.c  (mpt_connection_dispatch, streamWrapper, replyConnection)
     mptio/output_remote.c                   (remoteNext / remoteDispatch / remotePush / remoteSync / remoteAwait / remoteUnref)
     mptio/stream/stream_sync.c              (mpt_stream_sync)
     mptio/stream/stream_reply.c             (mpt_stream_reply: accepted unless a message is being composed)
   together with what they call in mptio/connection (connection_await.c, connection_push.c,
   connection_fini.c) and mptcore/event (command_reserve.c, command_get.c).
   Executable, no proofs.  The code is modelled AS PATCHED by docs/C12_*.diff (see docs/notes_C12.md).

   The reply context itself is NOT modelled again: the connection drives a "reply machine"
   through the primitive operations of ReplyModel.v (arm / reply / defer / deferred reply /
   unref).  The section below is parametric in that machine so that the very same text runs
   on the mechanism model (world, step) and on the abstract specification (sworld, sstep).

   Transport.  The answer of the transport to a reply is a function of the connection state:
   datagram backend: sendto() returns id length + message length; stream backend:
   mpt_stream_reply returns 0, or BadArgument while an outgoing message is being composed.
   It is installed as the one-element script of the reply machine before each primitive step.

   The state is a pair (reply machine, [conn]); everything that does not touch the reply context is a
   function of [conn] alone and therefore literally the same on both sides.

   The kernel objects are abstracted: [csock] = complete messages the peer has written and the
   library has not read yet, [cload] = (stream) messages already in the read queue,
   [ccur] = head of [cload] is decoded (stream: _rd._state.data.msg >= 0; datagram: flag
   Received, [cload] has exactly this one message). *)
From MptV Require Export Base.Mem C12.ReplyModel C12.ReplySpec.
Local Open Scope nat_scope.

Inductive hact := HReply (p : option (list byte)) | HDefer.

(* a new backend: datagram socket, stream, none (assign(NULL) / set_property("", NULL)) *)
Inductive rkind := KDgram | KStream | KNone.
(* through mpt_connection_assign (socket descriptor), mpt_connection_open (target string), or the property "" of the object
   (value converts to a socket descriptor -> assign, to a string -> open) *)
Inductive rhow := HAssign | HOpen | HPropSock | HPropStr.
(* what convert() of the object is asked for *)
Inductive ctype := TIn | TFmt | TMeta | TSock | TObj | TOut | TLog | TBad.

Inductive cop :=
| CTx (m : list byte)                      (* the peer writes one message *)
| CDp (acts : list hact) (code : Z)        (* next(POLLIN)..., dispatch(handler): the handler performs acts, returns code *)
| CDp0                                     (* next(POLLIN)..., dispatch(NULL) *)
| CHr (k : nat) (p : option (list byte))   (* deferred handle k: reply *)
| CAw (pay : list byte)                    (* await + push(pay) + push(0,0) *)
| CPs (pay : list byte)                    (* await + push(pay) *)
| CPe                                      (* push(0,0) *)
| CSy                                      (* sync(0) *)
| CCl                                      (* unref (the last reference: mpt_connection_fini) *)
(* round 3: the rest of the object of mpt_output_remote() *)
| CAw0 (pay : list byte)                   (* await(NULL, 0) + push(pay) + push(0,0): the default handler of mpt_command_reserve *)
| CRf                                      (* addref *)
| CNo                                      (* next(POLLOUT) *)
| CNh                                      (* next(POLLHUP) *)
| CLg (msg : list byte)                    (* remoteLog = mpt_output_vlog: push(header), push(text)..., push(0,0); msg = all pushed bytes *)
| CRs (k : rkind) (h : rhow)               (* the connection gets another backend: mpt_connection_assign / _open / set_property("") *)
| CCv (t : ctype)                          (* remoteConv *)
| CGp (color : bool).                      (* remoteProperty: "" / "color" *)

(* MPT_STRUCT(command): id, handler registered (the harness' waiter with this tag); None = slot free *)
Record went := mkwe { weid : N; wetag : option nat }.

Inductive hres := HInt (z : Z) | HHandle (k : option nat).

Inductive cret :=
| RTx (n : nat)
| RDp (nx : option (option Z)) (d : Z) (seen : option (bool * list byte)) (res : list hres)
      (* nx: None = stream (value of next not compared), Some None = next not called *)
| RHr (r : option Z)
| RAw (ra : Z) (cid : N) (p1 : Z) (p2 : option Z)
| RPe (p2 : Z)
| RSy (r : Z)
| RCl
| RRf (n : nat)
| RNx (v : option Z)          (* value of next(POLLOUT / POLLHUP); None = open stream: mpt_stream_poll, not compared *)
| RLg (z : Z)
| RRs (z : Z)
| RCv (ret : option Z) (part : nat)   (* ret: None = own type id, Some 1 = TypeUnixSocket, Some e = error; part: 0 none 1 in 2 obj 3 out 4 log 5 fmt 6 fd 7 no fd *)
| RGp (z : Z) (name : nat)    (* 0 "output", 1 "color" *)
| RX.

Record cres := mkcr {
  r_ret : cret;
  r_wcalls : list (nat * option (list byte));   (* calls of answer handlers: tag, message (None = NULL) *)
  r_wire : list (list byte);                    (* messages put on the wire *)
  r_fault : bool                                (* a primitive step of the reply machine faulted *)
}.

(* ---------------- wait table: mptcore/event/command_reserve.c, command_get.c ---------------- *)
Definition we_free (e : went) : bool := match wetag e with None => true | Some _ => false end.

Definition tupd (tab : list went) (k : nat) (e : went) : list went :=
  firstn k tab ++ e :: skipn (S k) tab.

(* mpt_command_find: first slot in use with this id *)
Fixpoint tfind (tab : list went) (id : N) : option (nat * nat) :=   (* index, tag *)
  match tab with
  | [] => None
  | e :: t =>
    match wetag e with
    | Some tg => if (weid e =? id)%N then Some (0, tg)
                 else match tfind t id with Some (k, g) => Some (S k, g) | None => None end
    | None => match tfind t id with Some (k, g) => Some (S k, g) | None => None end
    end
  end.

Definition trelease (tab : list went) (k : nat) : list went :=
  match nth_error tab k with Some e => tupd tab k (mkwe (weid e) None) | None => tab end.

Definition tactive (tab : list went) : list went := filter (fun e => negb (we_free e)) tab.

(* first free index in [j, j+n), else j+n *)
Fixpoint scan_free (tab : list went) (j n : nat) : nat :=
  match n with
  | 0 => j
  | S n' => match nth_error tab j with
            | Some e => if we_free e then j else scan_free tab (S j) n'
            | None => j
            end
  end.

(* the compaction loop of mpt_command_reserve: i = index, n = entries left, free = first free slot *)
Fixpoint compact (tab : list went) (i n : nat) (free : option nat) (used : nat) (mid : N)
  : list went * nat * N :=
  match n with
  | 0 => (tab, used, mid)
  | S n' =>
    match nth_error tab i with
    | None => (tab, used, mid)
    | Some e =>
      let mid' := N.max mid (weid e) in
      if we_free e then
        compact tab (S i) n' (match free with None => Some i | Some c => Some c end) used mid'
      else
        match free with
        | None => compact tab (S i) n' None (S used) mid'
        | Some c =>
          let tab2 := tupd (tupd tab c e) i (mkwe (weid e) None) in
          compact tab2 (S i) n' (Some (scan_free tab2 (S c) (i - S c))) (S used) mid'
        end
    end
  end.

Definition maxid (idl : nat) : N :=
  match Nat.min idl 4 with
  | 0 => 0%N | 1 => 127%N | 2 => 32767%N | 3 => 8388607%N | _ => 2147483647%N
  end.

(* for (i = 1; i <= max; ++i) if (!mpt_command_find(base, used, i)) ...: the first id in 1..max not in use.
   Among 1..used+1 one id is not in use, so the search is cut there (same result). *)
Fixpoint low_id (tab : list went) (i : N) (max : N) (fuel : nat) : option N :=
  match fuel with
  | 0 => None
  | S f => if (max <? i)%N then None
           else match tfind tab i with
                | None => Some i
                | Some _ => low_id tab (i + 1)%N max f
                end
  end.

(* the switch of mpt_command_reserve(arr, max): the largest id for a header of max bytes (uintptr_t of 64 bit) *)
Definition maxid_raw (mx : nat) : N :=
  match mx with
  | 0 => 0%N | 1 => 127%N | 2 => 32767%N | 3 => 8388607%N | 4 => 2147483647%N
  | 5 => 549755813887%N | 6 => 140737488355327%N | 7 => 36028797018963967%N | _ => 9223372036854775807%N
  end.

(* mpt_command_reserve with the id limit mxv, then cmd->cmd = ctl, cmd->arg = tag: new table, index of the slot, its id *)
Definition reserve_max (hasbuf : bool) (tab : list went) (mxv : N) (tag : nat) : option (list went * nat * N) :=
  if (mxv =? 0)%N then None
  else if negb hasbuf then
    Some (mkwe 1 (Some tag) :: repeat (mkwe 0 None) 7, 0, 1%N)
  else
    let '(tab1, used, mid) := compact tab 0 (length tab) None 0 0%N in
    let base := firstn used tab1 in
    let oid := if (mxv <=? mid)%N then low_id base 1 mxv (S used) else Some (mid + 1)%N in
    match oid with
    | None => None
    | Some id => Some (base ++ [mkwe id (Some tag)], used, id)
    end.

(* mpt_connection_await: mpt_command_reserve(&con->_wait, min(idlen, sizeof(con->cid) = 4)) *)
Definition reserve (hasbuf : bool) (tab : list went) (idl : nat) (tag : nat) : option (list went * nat * N) :=
  reserve_max hasbuf tab (maxid idl) tag.

(* direct calls of mpt_command_reserve(arr, mx) on a private array: [None] = reserve (tag = number of the call),
   [Some k] = the caller releases slot k (cmd = 0) *)
Fixpoint reserve_run (hasbuf : bool) (tab : list went) (mx : nat) (n : nat) (ops : list (option nat))
  : list (option (nat * N) * list went) :=
  match ops with
  | [] => []
  | None :: ops' =>
    match reserve_max hasbuf tab (maxid_raw mx) (S n) with
    | Some (tab', k, id) => (Some (k, id), tab') :: reserve_run true tab' mx (S n) ops'
    | None => (None, tab) :: reserve_run hasbuf tab mx (S n) ops'
    end
  | Some k :: ops' => let tab' := trelease tab k in (None, tab') :: reserve_run hasbuf tab' mx n ops'
  end.

(* ---------------- the connection over a reply machine ---------------- *)
Definition EventRetry : Z := 65536%Z.
Definition EMissingData : Z := (-16)%Z.
Definition EMissingBuffer : Z := (-17)%Z.
Definition EBadOperation : Z := (-4)%Z.
Definition EActiveInput : Z := (-32)%Z.

(* connection state apart from the reply machine *)
Record conn := mkcn {
  chas : bool;                    (* con->_rctx exists *)
  cdg : bool;                     (* datagram backend *)
  cidl : nat;                     (* out._idlen *)
  ctab : list went;               (* con->_wait within _used *)
  ctbuf : bool;                   (* con->_wait has a buffer *)
  ccid : N;                       (* con->cid *)
  cact : bool;                    (* out.state & Active: an outgoing message is being composed *)
  cout : list byte;               (* bytes of the outgoing message so far *)
  csock : list (list byte);
  cload : list (list byte);
  ccur : bool;
  cntag : nat;
  cclosed : bool;
  creqs : list (nat * list byte); (* ghost: (request number, id bytes) of every request handed to the reply context *)
  crefs : nat;                    (* references of the object beyond the first *)
  cgone : bool                    (* no backend: datagram socket hung up (next(POLLHUP)), assign(NULL) *)
}.

Definition set_tab (c : conn) (t : list went) : conn :=
  mkcn (chas c) (cdg c) (cidl c) t (ctbuf c) (ccid c) (cact c) (cout c) (csock c) (cload c) (ccur c)
       (cntag c) (cclosed c) (creqs c) (crefs c) (cgone c).
Definition set_in (c : conn) (sock load : list (list byte)) (cur : bool) : conn :=
  mkcn (chas c) (cdg c) (cidl c) (ctab c) (ctbuf c) (ccid c) (cact c) (cout c) sock load cur
       (cntag c) (cclosed c) (creqs c) (crefs c) (cgone c).
Definition set_out (c : conn) (cid : N) (act : bool) (out : list byte) : conn :=
  mkcn (chas c) (cdg c) (cidl c) (ctab c) (ctbuf c) cid act out (csock c) (cload c) (ccur c)
       (cntag c) (cclosed c) (creqs c) (crefs c) (cgone c).
Definition set_ntag (c : conn) (n : nat) : conn :=
  mkcn (chas c) (cdg c) (cidl c) (ctab c) (ctbuf c) (ccid c) (cact c) (cout c) (csock c) (cload c) (ccur c)
       n (cclosed c) (creqs c) (crefs c) (cgone c).
(* con->_rctx exists now; ghost: request (n, id) goes to the reply context *)
Definition set_req (c : conn) (n : nat) (id : list byte) : conn :=
  mkcn true (cdg c) (cidl c) (ctab c) (ctbuf c) (ccid c) (cact c) (cout c) (csock c) (cload c) (ccur c)
       (cntag c) (cclosed c) (creqs c ++ [(n, id)]) (crefs c) (cgone c).

Definition paylen (p : option (list byte)) : nat := match p with Some b => length b | None => 0 end.
Definition paybytes (p : option (list byte)) : list byte := match p with Some b => b | None => [] end.

(* replyConnection: mpt_outdata_reply (sendto) / mpt_stream_reply *)
Definition tans (c : conn) (p : option (list byte)) : Z :=
  if cclosed c || cgone c then EBadArgument
  else if cdg c then Z.of_nat (cidl c + paylen p)
  else if cact c then EBadArgument else 0%Z.

(* messages put on the wire by the transport calls of one primitive step *)
Definition call_wire (cs : list call) : list (list byte) :=
  map (fun k => kid k ++ paybytes (kpay k)) (filter (fun k => (0 <=? kres k)%Z) cs).

Definition is_fault (ob : obs) : bool := match oret ob with RFault => true | _ => false end.
Definition all_zero (bs : list byte) : bool := forallb (fun b => (b =? 0)%N) bs.
Definition answer_hdr (code : Z) : list byte := [1%N; Z.to_N (code mod 256)].
Definition stream_flags (r : Z) : Z := if (r <? 0)%Z then 131072%Z else Z.land r 65535.
Definition is_nil {A} (l : list A) : bool := match l with [] => true | _ => false end.

(* the primitive operations the connection performs on its reply context *)
Definition cop_ok (o : op) : bool :=
  match o with
  | OArm bs => wf_id bs
  | OReply _ | ODefer | OHReply _ _ | OUnref => true
  | _ => false
  end.

Definition wcall := (nat * option (list byte))%type.

(* what an answer handler returns: the harness' waiter (tag > 0) returns -3 for an answer that starts with ff,
   0 otherwise; the default handler of mpt_command_reserve (log_reply, tag 0) returns 0 *)
Definition wret (tg : nat) (pay : list byte) : Z :=
  if tg =? 0 then 0%Z else if (hd 0%N pay =? 255)%N then (-3)%Z else 0%Z.

(* what the dispatcher returns after the answer handler ran: its return value (streamWrapper) / MissingBuffer for a
   negative one, else 0 (datagram branch) *)
Definition answer_ret (c : conn) (tg : nat) (pay : list byte) : Z :=
  let z := wret tg pay in
  if cdg c then (if (z <? 0)%Z then EMissingBuffer else 0%Z) else z.

(* a reply-marked message: the answer handler registered under the id gets the payload, once *)
Definition dispatch_answer (c : conn) (m : list byte) (e_invalid e_unknown : Z) : conn * Z * list wcall :=
  let id := unmark (firstn (cidl c) m) in
  match buf2id id with
  | Ok (v, _) =>
    match tfind (ctab c) v with
    | Some (k, tg) =>
      let pay := skipn (cidl c) m in
      (set_tab c (trelease (ctab c) k), answer_ret c tg pay, [(tg, Some pay)])
    | None => (c, e_unknown, [])
    end
  | _ => (c, e_invalid, [])
  end.

(* mpt_connection_await(con, ctl, arg): tag = the harness' waiter with this number, 0 = no handler given (the slot keeps
   the default handler of mpt_command_reserve) *)
Definition do_await (c : conn) (tag : nat) : conn * Z :=
  if cgone c then (c, EBadArgument)
  else if negb (ccid c =? 0)%N || cact c then (c, EBadOperation)
  else
    match reserve (ctbuf c) (ctab c) (cidl c) tag with
    | None => (c, EBadValue)
    | Some (tab, k, id) =>
      (mkcn (chas c) (cdg c) (cidl c) tab true id (cact c) (cout c) (csock c) (cload c) (ccur c)
            (cntag c) (cclosed c) (creqs c) (crefs c) (cgone c), Z.of_nat (S k))
    end.

(* mpt_outdata_push (datagram backend) refuses while a received datagram waits for its dispatch
   (MPT_OUTFLAG(Received)): MPT_MESGERR(ActiveInput), nothing changes *)
Definition push_blocked (c : conn) : bool := cdg c && ccur c && negb (cgone c).
(* deregisterCommand in mpt_connection_push after a failed push: the answer handler registered under con->cid
   is called with NULL; it stays registered and con->cid stays *)
Definition push_fail_calls (c : conn) : list (nat * option (list byte)) :=
  if (ccid c =? 0)%N then []
  else match tfind (ctab c) (ccid c) with Some (_, tg) => [(tg, None)] | None => [] end.
Definition push_calls (c : conn) : list (nat * option (list byte)) :=
  if push_blocked c then push_fail_calls c else [].

(* mpt_connection_push(con, len, src) with len > 0 *)
Definition do_push (c : conn) (pay : list byte) : conn * Z * bool :=
  if cgone c then (c, EBadArgument, false)
  else if push_blocked c then (c, EActiveInput, false)
  else if negb (cact c) && negb (cidl c =? 0) then
    match id2buf (ccid c) (cidl c) with
    | Ok (bs, _) => (set_out c (ccid c) true (cout c ++ bs ++ pay), Z.of_nat (length pay), false)
    | Err _ => (c, EMissingBuffer, false)
    | Fault => (c, 0%Z, true)
    end
  else (set_out c (ccid c) true (cout c ++ pay), Z.of_nat (length pay), false).

(* mpt_connection_push(con, 0, 0): the message is complete *)
Definition do_finish (c : conn) : conn * Z * list (list byte) * bool :=
  if cgone c then (c, EBadArgument, [], false) else
  if push_blocked c then (c, EActiveInput, [], false) else
  let '(c1, f) :=
    if negb (cact c) && negb (cidl c =? 0) then
      match id2buf (ccid c) (cidl c) with
      | Ok (bs, _) => (set_out c (ccid c) true (cout c ++ bs), false)
      | Err _ => (c, false)
      | Fault => (c, true)
      end
    else (c, false) in
  (set_out c1 0%N false [], if cdg c then Z.of_nat (length (cout c1)) else 0%Z, [cout c1], f).

(* the end of mpt_stream_sync: more than half of the slots still wait -> their number; else compress the table *)
Definition sync_end (c : conn) (count : nat) (wc : list wcall) : conn * Z * list wcall :=
  if Nat.div2 (length (ctab c)) <? count then (c, Z.of_nat count, wc)
  else let t := tactive (ctab c) in (set_tab c t, Z.of_nat (length t), wc).

(* mpt_stream_sync (idlen > 0): messages are processed while handlers are waiting; a handler that returns a
   negative value ends the loop *)
Fixpoint sync_loop (fuel : nat) (c : conn) (count : nat) (wc : list wcall) : conn * Z * list wcall :=
  match fuel with
  | 0 => (c, 0%Z, wc)
  | S fuel' =>
    if count =? 0 then sync_end c 0 wc
    else
      (* message data: current, or poll + receive *)
      let oc := if ccur c then Some c
                else if is_nil (csock c) then None
                else Some (set_in c [] (cload c ++ csock c) true) in
      match oc with
      | None => (c, EBadOperation, wc)
      | Some c1 =>
        match cload c1 with
        | [] => (c1, EBadOperation, wc)
        | m :: rest =>
          if (length m <? cidl c1) || negb (128 <=? hd 0%N m)%N then (c1, EActiveInput, wc)
          else
            match buf2id (unmark (firstn (cidl c1) m)) with
            | Ok (v, _) =>
              let c2 := set_in c1 (csock c1) rest (negb (is_nil rest)) in
              match tfind (ctab c1) v with
              | Some (k, tg) =>
                let c3 := set_tab c2 (trelease (ctab c2) k) in
                let wc' := wc ++ [(tg, Some (skipn (cidl c1) m))] in
                if (wret tg (skipn (cidl c1) m) <? 0)%Z then sync_end c3 (count - 1) wc'
                else sync_loop fuel' c3 (count - 1) wc'
              | None =>
                match tfind (ctab c1) 0%N with
                | Some (_, tg) =>
                  let wc' := wc ++ [(tg, Some (skipn (cidl c1) m))] in
                  if (wret tg (skipn (cidl c1) m) <? 0)%Z then sync_end c2 count wc'
                  else sync_loop fuel' c2 count wc'
                | None => sync_loop fuel' c2 count wc
                end
              end
            | _ => (c1, EBadValue, wc)
            end
        end
      end
  end.

(* remoteSync, datagram backend *)
Fixpoint dsync_loop (fuel : nat) (c : conn) (wc : list wcall) : conn * Z * list wcall :=
  match fuel with
  | 0 => (c, 0%Z, wc)
  | S fuel' =>
    let oc := if ccur c then Some (Some c)
              else match csock c with
                   | [] => None
                   | m :: rest =>
                     if cact c then Some None
                     else if length m <? cidl c then Some None
                     else Some (Some (set_in c rest [m] true))
                   end in
    match oc with
    | None => (c, 0%Z, wc)
    | Some None =>
      (* mpt_outdata_recv failed; a short datagram is consumed by it *)
      ((if cact c then c else set_in c (tl (csock c)) [] false), EBadOperation, wc)
    | Some (Some c1) =>
      match cload c1 with
      | [] => (c1, EBadValue, wc)
      | m :: _ =>
        if negb (128 <=? hd 0%N m)%N then
          (c1, if ctbuf c1 then Z.of_nat (length (tactive (ctab c1))) else 0%Z, wc)
        else
          let c2 := set_in c1 (csock c1) [] false in
          match buf2id (unmark (firstn (cidl c1) m)) with
          | Ok (v, _) =>
            match tfind (ctab c2) v with
            | Some (k, tg) =>
              let c3 := set_tab c2 (trelease (ctab c2) k) in
              let wc' := wc ++ [(tg, Some (skipn (cidl c1) m))] in
              if (wret tg (skipn (cidl c1) m) <? 0)%Z then (c3, 0%Z, wc')
              else dsync_loop fuel' c3 wc'
            | None => (c2, EBadValue, wc)
            end
          | _ => (c2, EBadValue, wc)
          end
      end
    end
  end.

Definition do_sync (c : conn) : conn * Z * list wcall :=
  if cidl c =? 0 then (c, 0%Z, [])
  else if cgone c then (c, EBadArgument, [])
  else if cdg c then dsync_loop (S (S (length (csock c)))) c []
  else if is_nil (ctab c) then (c, 0%Z, [])
  else sync_loop (S (S (length (cload c) + length (csock c)))) c (length (tactive (ctab c))) [].

(* remoteNext(POLLIN) of the datagram backend, called when the socket is readable *)
Definition dg_next (c : conn) : conn * option Z :=
  if is_nil (csock c) then (c, None)
  else if ccur c then (c, Some 1%Z)
  else if cact c then (c, Some 0%Z)
  else match csock c with
       | m :: rest =>
         if length m <? cidl c then (set_in c rest [] false, Some 0%Z)
         else (set_in c rest [m] true, Some 1%Z)
       | [] => (c, None)
       end.

Definition nofault (r : cret) wc ws : cres := mkcr r wc ws false.

(* mpt_connection_fini before the reply context is released: backend closed, mpt_command_clear *)
Definition close_conn (c : conn) : conn * list wcall :=
  (mkcn (chas c) (cdg c) (cidl c) [] (ctbuf c) 0%N false [] (csock c) (cload c) (ccur c) (cntag c) true (creqs c) (crefs c) (cgone c),
   map (fun e => (match wetag e with Some t => t | None => 0 end, @None (list byte))) (tactive (ctab c))).

Definition set_refs (c : conn) (n : nat) : conn :=
  mkcn (chas c) (cdg c) (cidl c) (ctab c) (ctbuf c) (ccid c) (cact c) (cout c) (csock c) (cload c) (ccur c)
       (cntag c) (cclosed c) (creqs c) n (cgone c).

(* await(ctl, tag) + push(pay) + push(0, 0): one outgoing request in one piece; bump = the harness used a new tag *)
Definition await_push_finish (c : conn) (tag : nat) (bump : bool) (pay : list byte) : conn * cres :=
  let '(c1, ra) := do_await c tag in
  let c1 := if bump then set_ntag c1 (S (cntag c1)) else c1 in
  let cid := ccid c1 in
  let '(c2, p1, f1) := if is_nil pay then (c1, 0%Z, false) else do_push c1 pay in
  let '(c3, p2, ws, f2) := do_finish c2 in
  (c3, mkcr (RAw ra cid p1 (Some p2)) ((if is_nil pay then [] else push_calls c1) ++ push_calls c2) ws (f1 || f2)).

(* calls of mpt_command_clear: every waiting handler gets NULL *)
Definition clear_calls (c : conn) : list wcall :=
  map (fun e => (match wetag e with Some t => t | None => 0 end, @None (list byte))) (tactive (ctab c)).

(* next(POLLHUP) on the datagram backend: mpt_outdata_close (socket closed, buffer released, state flags cleared);
   wait table, current id and reply context stay *)
Definition hup_conn (c : conn) : conn :=
  mkcn (chas c) (cdg c) (cidl c) (ctab c) (ctbuf c) (ccid c) false [] (csock c) [] false
       (cntag c) (cclosed c) (creqs c) (crefs c) true.

(* mpt_stream_dopen on the stream the connection already has (second mpt_connection_assign of a stream socket):
   the read queue is dropped with the old descriptor; wait table, current id and reply context stay *)
Definition reopen_conn (c : conn) : conn := set_in c [] [] false.

(* mpt_connection_close + the new backend (AS PATCHED by docs/C12_close_stream_dangling.diff: a closed stream is released).
   The reply context is released by the caller of this function (cstep).
   MPT_OUTFLAG(Active) is cleared by mpt_outdata_close only (an open datagram socket): closing a STREAM in the middle of an
   outgoing message (possible through mpt_connection_assign(con, NULL) alone) leaves the flag set - as is: every later
   assign / open is refused, dispatch answers Retry *)
Definition reset_conn (c : conn) (k : rkind) : conn :=
  mkcn false (match k with KDgram => true | KStream => false | KNone => cdg c end) (cidl c) [] (ctbuf c) 0%N
       (cact c && negb (cdg c && negb (cgone c))) []
       [] [] false (cntag c) (cclosed c) (creqs c) (crefs c) (match k with KNone => true | _ => false end).

Definition reset_ret (k : rkind) (h : rhow) : Z :=
  match h, k with
  | HPropSock, _ | HPropStr, _ => 0%Z
  | HAssign, KNone => 0%Z
  | HAssign, _ => 1%Z
  | HOpen, KStream => 7%Z      (* socket flags Read | Write | Stream *)
  | HOpen, KDgram => 3%Z
  | HOpen, KNone => 0%Z
  end.

Definition is_assign_null (k : rkind) (h : rhow) : bool :=
  match k, h with KNone, HAssign => true | _, _ => false end.

(* a stream socket for a connection that has an open stream: the stream is re-opened, nothing else is touched *)
Definition is_reopen (c : conn) (k : rkind) (h : rhow) : bool :=
  match k, h with
  | KStream, HAssign | KStream, HPropSock => negb (cdg c) && negb (cgone c)
  | _, _ => false
  end.

(* remoteConv / remote_infile *)
Definition conv_res (c : conn) (t : ctype) : cret :=
  match t with
  | TIn | TMeta => RCv (Some 1%Z) 1
  | TFmt => RCv None 5
  | TSock => RCv None (if cgone c then 7 else 6)
  | TObj => RCv None 2
  | TOut => RCv None 3
  | TLog => RCv None 4
  | TBad => RCv (Some EBadType) 0
  end.

(* remoteProperty: "" = the socket (1 iff a datagram socket is active), "color" (set at creation, never changed here) *)
Definition prop_res (c : conn) (color : bool) : cret :=
  if color then RGp 1%Z 1 else RGp (if cdg c && negb (cgone c) then 1%Z else 0%Z) 0.

(* value of next(POLLOUT) / next(POLLHUP) *)
Definition next_val (c : conn) (hup : bool) : option Z :=
  if cgone c then Some (-3)%Z
  else if cdg c then Some (if hup then (-2)%Z else 0%Z)
  else None.

Section Conn.
  Variable RW : Type.
  Variable rstep : RW -> list Z -> op -> RW * obs.      (* install the script, perform one primitive operation *)
  Variable rarmed : RW -> bool.                         (* the context holds an open request: rd->len != 0 *)
  Variable rserial : RW -> nat.                         (* ghost: number of the next primitive operation *)

  (* one primitive operation with message p (for the transport answer) *)
  Definition prim (r : RW) (c : conn) (o : op) (p : option (list byte)) : RW * obs :=
    rstep r [tans c p] o.

  Definition act_op (a : hact) : op * option (list byte) :=
    match a with HReply p => (OReply p, p) | HDefer => (ODefer, None) end.
  Definition act_res (ob : obs) : hres :=
    match oret ob with RInt z => HInt z | RHandle k => HHandle k | _ => HInt 0 end.

  (* the handler: its actions through ev->reply *)
  Fixpoint run_acts (r : RW) (c : conn) (acts : list hact) : RW * list hres * list (list byte) * bool :=
    match acts with
    | [] => (r, [], [], false)
    | a :: acts' =>
      let '(r1, ob) := prim r c (fst (act_op a)) (snd (act_op a)) in
      let '(r2, rs, ws, f) := run_acts r1 c acts' in
      (r2, act_res ob :: rs, call_wire (ocalls ob) ++ ws, is_fault ob || f)
    end.

  (* streamWrapper / the datagram branch of mpt_connection_dispatch on one message m (length >= idlen > 0,
     id not marked): result of the handler level, before the translation by mpt_stream_dispatch *)
  Definition dispatch_request (r : RW) (c : conn) (m : list byte) (h : option (list hact * Z))
    : RW * conn * Z * option (bool * list byte) * list hres * list (list byte) * bool :=
    let id := firstn (cidl c) m in
    let pay := skipn (cidl c) m in
    if all_zero id then
      (* no reply expected *)
      match h with
      | None => (r, c, 0%Z, None, [], [], false)
      | Some (_, code) => (r, c, code, Some (false, pay), [], [], false)
      end
    else
      (* con->_rctx (created on demand), mpt_reply_set(rd, idlen, id) *)
      let c1 := set_req c (rserial r) id in
      let '(r1, oba) := prim r c1 (OArm id) None in
      let fa := is_fault oba in
      match oret oba with
      | RInt z =>
        if (z <? 0)%Z then (r1, c1, EBadOperation, None, [], [], fa)      (* context not ready *)
        else
          match h with
          | None =>
            (* no handler: default reply *)
            let '(r2, ob) := prim r1 c1 (OReply None) None in
            (r2, c1, 0%Z, None, [], call_wire (ocalls ob), fa || is_fault ob)
          | Some (acts, code) =>
            let '(r2, rs, ws, f) := run_acts r1 c1 acts in
            (* generic reply to a request the handler left open *)
            if rarmed r2 then
              let p := Some (answer_hdr code) in
              let '(r3, ob) := prim r2 c1 (OReply p) p in
              (r3, c1, code, Some (true, pay), rs, ws ++ call_wire (ocalls ob), fa || f || is_fault ob)
            else (r2, c1, code, Some (true, pay), rs, ws, fa || f)
          end
      | _ => (r1, c1, EBadOperation, None, [], [], fa)     (* not reached: the connection holds its context *)
      end.

  (* handler level for one complete message *)
  Definition dispatch_msg (r : RW) (c : conn) (m : list byte) (h : option (list hact * Z)) (e_short e_invalid e_unknown : Z)
    : RW * conn * Z * option (bool * list byte) * list hres * list wcall * list (list byte) * bool :=
    if cidl c =? 0 then
      match h with
      | None => (r, c, 0%Z, None, [], [], [], false)
      | Some (_, code) => (r, c, code, Some (false, m), [], [], [], false)
      end
    else if length m <? cidl c then (r, c, e_short, None, [], [], [], false)
    else if (128 <=? hd 0%N m)%N then
      let '(c1, z, wc) := dispatch_answer c m e_invalid e_unknown in (r, c1, z, None, [], wc, [], false)
    else
      let '(r1, c1, z, seen, rs, ws, f) := dispatch_request r c m h in (r1, c1, z, seen, rs, [], ws, f).

  (* next(POLLIN) while readable + dispatch *)
  Definition do_dispatch (r : RW) (c : conn) (h : option (list hact * Z)) : RW * conn * cres :=
    if cgone c then
      (* no backend: next() = -3 (called by the harness when its end is readable), dispatch = BadArgument
         (Retry if the flag of an outgoing message is still set) *)
      (r, c, mkcr (RDp (Some (if is_nil (csock c) then None else Some (-3)%Z)) (if cact c then EventRetry else EBadArgument) None [])
                  [] [] false)
    else if cdg c then
      (* remoteNext: one datagram, unless one is waiting (Received) or a message is being composed *)
      let '(c1, nx) := dg_next c in
      if cact c1 then (r, c1, mkcr (RDp (Some nx) EventRetry None []) [] [] false)
      else
        match ccur c1, cload c1 with
        | true, m :: _ =>
          let c2 := set_in c1 (csock c1) [] false in
          let '(r3, c3, z, seen, rs, wc, ws, f) := dispatch_msg r c2 m h 0%Z EBadValue EMissingBuffer in
          (r3, c3, mkcr (RDp (Some nx) z seen rs) wc ws f)
        | _, _ => (r, c1, mkcr (RDp (Some nx) EventRetry None []) [] [] false)
        end
    else
      let c1 := set_in c [] (cload c ++ csock c) (ccur c) in
      if cact c1 then (r, c1, mkcr (RDp None EventRetry None []) [] [] false)
      else
        match cload c1 with
        | [] => (r, c1, mkcr (RDp None 0%Z None []) [] [] false)   (* MissingData or 0: the harness reports both as 0 *)
        | m :: rest =>
          let '(r3, c3, z, seen, rs, wc, ws, f) := dispatch_msg r c1 m h EBadValue EBadValue EBadValue in
          let more := negb (is_nil rest) in
          let c4 := set_in c3 (csock c3) rest more in
          let fl := stream_flags z in
          (r3, c4, mkcr (RDp None (if more then Z.lor fl EventRetry else fl) seen rs) wc ws f)
        end.

  Definition cstep (rc : RW * conn) (o : cop) : (RW * conn) * cres :=
    let '(r, c) := rc in
    match o with
    | CTx m => ((r, set_in c (csock c ++ [m]) (cload c) (ccur c)), nofault (RTx (length m)) [] [])
    | CHr k p =>
      (* the handle outlives the connection *)
      let '(r1, ob) := prim r c (OHReply k p) p in
      ((r1, c), mkcr (RHr (match oret ob with RInt z => Some z | _ => None end)) []
                     (if cclosed c then [] else call_wire (ocalls ob)) (is_fault ob))
    | _ =>
      if cclosed c then (rc, nofault RX [] [])
      else
        match o with
        | CDp acts code => let '(r1, c1, res) := do_dispatch r c (Some (acts, code)) in ((r1, c1), res)
        | CDp0 => let '(r1, c1, res) := do_dispatch r c None in ((r1, c1), res)
        | CAw pay => let '(c3, res) := await_push_finish c (S (cntag c)) true pay in ((r, c3), res)
        | CAw0 pay => let '(c3, res) := await_push_finish c 0 false pay in ((r, c3), res)
        | CPs pay =>
          let '(c1, ra) := do_await c (S (cntag c)) in
          let c1 := set_ntag c1 (S (cntag c1)) in
          let cid := ccid c1 in
          let '(c2, p1, f1) := do_push c1 pay in
          ((r, c2), mkcr (RAw ra cid p1 None) (push_calls c1) [] f1)
        | CPe =>
          let '(c1, p2, ws, f) := do_finish c in ((r, c1), mkcr (RPe p2) (push_calls c) ws f)
        | CSy => let '(c1, z, wc) := do_sync c in ((r, c1), nofault (RSy z) wc [])
        | CCl =>
          if 0 <? crefs c then ((r, set_refs c (crefs c - 1)), nofault RCl [] [])
          else
          (* mpt_connection_fini: close the backend, mpt_command_clear, release the reply context *)
          let '(c0, wc) := close_conn c in
          if chas c then
            let '(r1, ob) := prim r c0 OUnref None in
            ((r1, c0), mkcr RCl wc [] (is_fault ob))
          else ((r, c0), nofault RCl wc [])
        | CRf => ((r, set_refs c (S (crefs c))), nofault (RRf (S (S (crefs c)))) [] [])
        | CNo => (rc, nofault (RNx (next_val c false)) [] [])
        | CNh =>
          ((r, if cdg c && negb (cgone c) then hup_conn c else c), nofault (RNx (next_val c true)) [] [])
        | CLg msg =>
          (* the first push decides (an error is returned), the last one completes the message *)
          let '(c1, p1, f1) := do_push c msg in
          if (p1 <? 0)%Z then ((r, c1), mkcr (RLg p1) (push_calls c) [] f1)
          else let '(c2, p2, ws, f2) := do_finish c1 in ((r, c2), mkcr (RLg 1%Z) (push_calls c1) ws (f1 || f2))
        | CRs k h =>
          (* refused while a message is being composed - except mpt_connection_assign(con, NULL), which closes first *)
          if cact c && negb (is_assign_null k h) then (rc, nofault (RRs EBadOperation) [] [])
          else if is_reopen c k h then
            match h with
            | HPropSock | HPropStr =>
              (* mpt_connection_set: mpt_command_clear after the successful assignment *)
              ((r, set_tab (reopen_conn c) []), nofault (RRs 0%Z) (clear_calls c) [])
            | _ => ((r, reopen_conn c), nofault (RRs 2%Z) [] [])
            end
          else
            (* mpt_connection_close: backend closed, waiting handlers get NULL, the reply context is released
               (its default reply finds no backend) *)
            let c0 := reset_conn c k in
            if chas c then
              let '(r1, ob) := prim r (hup_conn c) OUnref None in
              ((r1, c0), mkcr (RRs (reset_ret k h)) (clear_calls c) [] (is_fault ob))
            else ((r, c0), nofault (RRs (reset_ret k h)) (clear_calls c) [])
        | CCv t => (rc, nofault (conv_res c t) [] [])
        | CGp color => (rc, nofault (prop_res c color) [] [])
        | _ => (rc, nofault RX [] [])
        end
    end.

  Fixpoint crun (rc : RW * conn) (ops : list cop) : list (cres * (RW * conn)) :=
    match ops with
    | [] => []
    | o :: ops' => let '(rc1, res) := cstep rc o in (res, rc1) :: crun rc1 ops'
    end.

  Fixpoint cexec (rc : RW * conn) (ops : list cop) : RW * conn :=
    match ops with
    | [] => rc
    | o :: ops' => cexec (fst (cstep rc o)) ops'
    end.
End Conn.

Definition conn_init (dg : bool) (idl : nat) : conn :=
  mkcn false dg idl [] false 0%N false [] [] [] false 0 false [] 0 false.

(* ---------------- the two instances ---------------- *)
Definition set_orc (w : world) (orc : list Z) : world :=
  mkw (wctx w) (whs w) (wown w) (wlog w) (wstep w) orc.
Definition mstep (w : world) (orc : list Z) (o : op) : world * obs := step (set_orc w orc) o.
(* rd->len != 0 of the context the connection holds (read through the observer's view) *)
Definition view_armed (v : view) : bool := match v_ctx v with Some (Some _) => true | _ => false end.
Definition marmed (w : world) : bool := view_armed (mview w).

Definition sset_orc (s : sworld) (orc : list Z) : sworld :=
  mks (s_own s) (s_att s) (s_ptr s) (s_max s) (s_cur s) (s_hs s) (s_log s) (s_step s) orc.
Definition sstepo (s : sworld) (orc : list Z) (o : op) : sworld * obs := sstep (sset_orc s orc) o.
Definition sarmed (s : sworld) : bool := view_armed (sview s).

(* mpt_reply_deferrable(idlen, replyConnection, con): created with the first request; until then
   (and for idlen = 0, where none is ever created) it is not visible ([chas] = false) *)
Definition minit (dg : bool) (idl : nat) : world * conn := (init idl true true [], conn_init dg idl).
Definition sinit_c (dg : bool) (idl : nat) : sworld * conn := (sinit idl true true [], conn_init dg idl).

Definition mcstep := cstep world mstep marmed wstep.
Definition scstep := cstep sworld sstepo sarmed s_step.
Definition mcrun := crun world mstep marmed wstep.
Definition scrun := crun sworld sstepo sarmed s_step.
Definition mcexec := cexec world mstep marmed wstep.
Definition scexec := cexec sworld sstepo sarmed s_step.
