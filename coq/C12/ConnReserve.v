(* C12/ConnReserve.v — mpt_command_reserve: the compaction loop keeps the slots in use (in order) and the
   id of the new slot differs from every id in use. *)
From MptV Require Import Base.Mem C12.ReplyModel C12.ReplySpec C12.ConnModel C12.ConnWait.
Local Open Scope nat_scope.

(* ---------- tupd ---------- *)
Lemma tupd_length tab k e : k < length tab -> length (tupd tab k e) = length tab.
Proof.
  intros H. unfold tupd. rewrite app_length, firstn_length. cbn [length]. rewrite skipn_length. lia.
Qed.

Lemma tupd_nth tab k e j : k < length tab ->
  nth_error (tupd tab k e) j = if j =? k then Some e else nth_error tab j.
Proof.
  intros H. unfold tupd. destruct (Nat.eqb_spec j k) as [->|Hne].
  - rewrite nth_error_app2 by (rewrite firstn_length; lia). rewrite firstn_length.
    replace (k - Nat.min k (length tab)) with 0 by lia. reflexivity.
  - destruct (Nat.lt_ge_cases j k) as [Hlt|Hge].
    + rewrite nth_error_app1 by (rewrite firstn_length; lia).
      rewrite <- (firstn_skipn k tab) at 2. rewrite nth_error_app1 by (rewrite firstn_length; lia). reflexivity.
    + rewrite nth_error_app2 by (rewrite firstn_length; lia). rewrite firstn_length.
      replace (j - Nat.min k (length tab)) with (S (j - S k)) by lia. cbn [nth_error].
      rewrite <- (firstn_skipn (S k) tab) at 2.
      rewrite nth_error_app2 by (rewrite firstn_length; lia). rewrite firstn_length.
      f_equal. lia.
Qed.

Lemma nth_error_ext {A} (l l' : list A) : (forall j, nth_error l j = nth_error l' j) -> l = l'.
Proof.
  revert l'. induction l as [|x l IH]; intros [|y l'] H; auto.
  - specialize (H 0). discriminate.
  - specialize (H 0). discriminate.
  - pose proof (H 0) as H0. cbn in H0. inversion H0; subst. f_equal. apply IH. intros j. apply (H (S j)).
Qed.

Lemma nth_error_firstn {A} (l : list A) n j : nth_error (firstn n l) j = if j <? n then nth_error l j else None.
Proof.
  revert n j. induction l as [|x l IH]; intros n j.
  - rewrite firstn_nil. destruct j; destruct (_ <? _); reflexivity.
  - destruct n; [destruct j; reflexivity|]. destruct j; [reflexivity|]. cbn [firstn nth_error]. rewrite IH.
    reflexivity.
Qed.

Lemma nth_error_skipn {A} (l : list A) n j : nth_error (skipn n l) j = nth_error l (n + j).
Proof.
  revert l. induction n as [|n IH]; intros l; [reflexivity|]. destruct l as [|x l]; [destruct j; reflexivity|].
  cbn [skipn plus nth_error]. apply IH.
Qed.

Lemma firstn_tupd tab k e n : k < length tab -> n <= k -> firstn n (tupd tab k e) = firstn n tab.
Proof.
  intros Hk Hn. apply nth_error_ext. intros j. rewrite !nth_error_firstn.
  destruct (Nat.ltb_spec j n); [|reflexivity]. rewrite tupd_nth by assumption.
  destruct (Nat.eqb_spec j k); [lia|reflexivity].
Qed.

Lemma skipn_tupd tab k e n : k < length tab -> k < n -> skipn n (tupd tab k e) = skipn n tab.
Proof.
  intros Hk Hn. apply nth_error_ext. intros j. rewrite !nth_error_skipn, tupd_nth by assumption.
  destruct (Nat.eqb_spec (n + j) k); [lia|reflexivity].
Qed.

Lemma firstn_snoc {A} (l : list A) n x : nth_error l n = Some x -> firstn (S n) l = firstn n l ++ [x].
Proof.
  revert l. induction n as [|n IH]; intros [|y l] H; try discriminate.
  - cbn in H. inversion H; subst. reflexivity.
  - cbn [firstn app]. f_equal. apply IH. exact H.
Qed.

Lemma skipn_cons_nth {A} (l : list A) n x : nth_error l n = Some x -> skipn n l = x :: skipn (S n) l.
Proof.
  revert l. induction n as [|n IH]; intros [|y l] H; try discriminate.
  - cbn in H. inversion H; subst. reflexivity.
  - cbn [skipn]. apply IH. exact H.
Qed.

(* ---------- the loop ---------- *)
Definition maxids (l : list went) (m : N) : N := fold_left (fun a e => N.max a (weid e)) l m.

Lemma scan_free_here tab j n :
  (0 < n -> exists e, nth_error tab j = Some e /\ we_free e = true) -> scan_free tab j n = j.
Proof.
  destruct n; [reflexivity|]. intros H. destruct (H ltac:(lia)) as (e & He & Hf). cbn [scan_free]. rewrite He, Hf.
  reflexivity.
Qed.

Lemma compact_spec n : forall tab i free used mid,
  i + n = length tab -> used <= i ->
  Forall (fun e => we_free e = false) (firstn used tab) ->
  (forall j, used <= j < i -> exists e, nth_error tab j = Some e /\ we_free e = true) ->
  free = (if used =? i then None else Some used) ->
  exists tab' used', compact tab i n free used mid = (tab', used', maxids (skipn i tab) mid) /\
    firstn used' tab' = firstn used tab ++ tactive (skipn i tab) /\
    used' = used + length (tactive (skipn i tab)).
Proof.
  induction n as [|n IH]; intros tab i free used mid Hlen Hle Hact Hfree Hf.
  - cbn [compact]. replace i with (length tab) by lia. rewrite skipn_all. cbn.
    exists tab, used. rewrite app_nil_r. auto.
  - cbn [compact]. destruct (nth_error tab i) as [e|] eqn:He.
    2:{ apply nth_error_None in He. lia. }
    rewrite (skipn_cons_nth _ _ _ He). cbn [maxids fold_left tactive filter].
    destruct (we_free e) eqn:Hfe; cbn [negb].
    + (* free slot *)
      set (free' := match free with None => Some i | Some c => Some c end).
      assert (P1 : S i + n = length tab) by lia.
      assert (P2 : used <= S i) by lia.
      assert (P4 : forall j, used <= j < S i -> exists e, nth_error tab j = Some e /\ we_free e = true).
      { intros j Hj. destruct (Nat.eq_dec j i) as [->|]; [eauto|]. apply Hfree. lia. }
      assert (P5 : free' = (if used =? S i then None else Some used)).
      { unfold free'. rewrite Hf. destruct (Nat.eqb_spec used i) as [->|Hne].
        - destruct (Nat.eqb_spec i (S i)); [lia|reflexivity].
        - destruct (Nat.eqb_spec used (S i)); [lia|reflexivity]. }
      destruct (IH tab (S i) free' used (N.max mid (weid e)) P1 P2 Hact P4 P5) as (tab' & used' & Hc & Hfst & Hu).
      exists tab', used'. auto.
    + (* slot in use *)
      rewrite Hf. destruct (Nat.eqb_spec used i) as [->|Hne].
      * (* nothing free so far *)
        assert (P1 : S i + n = length tab) by lia.
        assert (P3 : Forall (fun e => we_free e = false) (firstn (S i) tab)).
        { rewrite (firstn_snoc _ _ _ He). apply Forall_app. split; [assumption|]. repeat constructor. assumption. }
        assert (P4 : forall j, S i <= j < S i -> exists e, nth_error tab j = Some e /\ we_free e = true)
          by (intros j Hj; lia).
        assert (P5 : @None nat = (if S i =? S i then None else Some (S i))) by (rewrite Nat.eqb_refl; reflexivity).
        destruct (IH tab (S i) None (S i) (N.max mid (weid e)) P1 (le_n _) P3 P4 P5) as (tab' & used' & Hc & Hfst & Hu).
        exists tab', used'. split; [exact Hc|]. rewrite (firstn_snoc _ _ _ He), <- app_assoc in Hfst.
        split; [exact Hfst|]. unfold tactive in *. cbn [length]. lia.
      * (* move to the first free slot *)
        assert (Hui : used < i) by lia.
        assert (Hl1 : used < length tab) by lia.
        assert (Hil : i < length tab) by lia.
        set (tab1 := tupd tab used e).
        assert (Hl1' : length tab1 = length tab) by (apply tupd_length; assumption).
        set (tab2 := tupd tab1 i (mkwe (weid e) None)).
        assert (Hl2 : length tab2 = length tab) by (unfold tab2; rewrite tupd_length; lia).
        assert (Hn2 : forall j, nth_error tab2 j =
                   if j =? i then Some (mkwe (weid e) None) else if j =? used then Some e else nth_error tab j).
        { intros j. unfold tab2. rewrite (tupd_nth tab1) by lia. unfold tab1. rewrite tupd_nth by lia. reflexivity. }
        assert (Hscan : scan_free tab2 (S used) (i - S used) = S used).
        { apply scan_free_here. intros Hp. rewrite Hn2.
          destruct (Nat.eqb_spec (S used) i); [lia|]. destruct (Nat.eqb_spec (S used) used); [lia|].
          apply Hfree. lia. }
        rewrite Hscan.
        assert (Hu2 : nth_error tab2 used = Some e).
        { rewrite Hn2. destruct (Nat.eqb_spec used i); [lia|]. rewrite Nat.eqb_refl. reflexivity. }
        assert (Hf2 : firstn used tab2 = firstn used tab).
        { unfold tab2. rewrite (firstn_tupd tab1) by lia. unfold tab1. rewrite firstn_tupd by lia. reflexivity. }
        assert (P1 : S i + n = length tab2) by lia.
        assert (P2 : S used <= S i) by lia.
        assert (P3 : Forall (fun e => we_free e = false) (firstn (S used) tab2)).
        { rewrite (firstn_snoc _ _ _ Hu2), Hf2. apply Forall_app. split; [assumption|repeat constructor; assumption]. }
        assert (P4 : forall j, S used <= j < S i -> exists e, nth_error tab2 j = Some e /\ we_free e = true).
        { intros j Hj. rewrite Hn2. destruct (Nat.eqb_spec j i); [eauto|].
          destruct (Nat.eqb_spec j used); [lia|]. apply Hfree. lia. }
        assert (P5 : Some (S used) = (if S used =? S i then None else Some (S used))).
        { destruct (Nat.eqb_spec (S used) (S i)); [lia|reflexivity]. }
        destruct (IH tab2 (S i) (Some (S used)) (S used) (N.max mid (weid e)) P1 P2 P3 P4 P5)
          as (tab' & used' & Hc & Hfst & Hu).
        assert (Hsk : skipn (S i) tab2 = skipn (S i) tab).
        { unfold tab2. rewrite (skipn_tupd tab1) by lia. unfold tab1. rewrite skipn_tupd by lia. reflexivity. }
        rewrite Hsk in *.
        exists tab', used'. split; [exact Hc|].
        rewrite (firstn_snoc _ _ _ Hu2), Hf2, <- app_assoc in Hfst.
        split; [exact Hfst|]. unfold tactive in *. cbn [length]. lia.
Qed.

Lemma compact_all tab :
  exists tab' used, compact tab 0 (length tab) None 0 0%N = (tab', used, maxids tab 0%N) /\
                    firstn used tab' = tactive tab /\ used = length (tactive tab).
Proof.
  assert (P3 : Forall (fun e => we_free e = false) (firstn 0 tab)) by constructor.
  assert (P4 : forall j, 0 <= j < 0 -> exists e, nth_error tab j = Some e /\ we_free e = true) by (intros j Hj; lia).
  destruct (compact_spec (length tab) tab 0 None 0 0%N eq_refl (le_n _) P3 P4 eq_refl) as (tab' & used' & Hc & Hf & Hu).
  exists tab', used'. cbn [skipn firstn app plus] in *. auto.
Qed.

(* ---------- ids ---------- *)
Lemma maxids_le l : forall m, (m <= maxids l m)%N.
Proof.
  induction l as [|y l IH]; intros m; cbn [maxids fold_left]; [lia|].
  etransitivity; [|apply IH]. lia.
Qed.

Lemma maxids_ge l : forall m e, In e l -> (weid e <= maxids l m)%N.
Proof.
  induction l as [|x l IH]; intros m e Hin; [destruct Hin|].
  destruct Hin as [->|Hin]; cbn [maxids fold_left].
  - etransitivity; [|apply maxids_le]. lia.
  - apply IH. exact Hin.
Qed.

Lemma tactive_idem tab : tactive (tactive tab) = tactive tab.
Proof.
  unfold tactive. induction tab as [|e tab IH]; [reflexivity|]. cbn [filter].
  destruct (negb (we_free e)) eqn:E; cbn [filter]; rewrite ?E, IH; reflexivity.
Qed.

Lemma act_ids_active tab : act_ids (tactive tab) = act_ids tab.
Proof. unfold act_ids. rewrite tactive_idem. reflexivity. Qed.

Lemma low_id_free tab fuel : forall i mx id, low_id tab i mx fuel = Some id -> ~ In id (act_ids tab) /\ (i <= id <= mx)%N.
Proof.
  induction fuel as [|f IH]; intros i mx id; cbn [low_id]; [discriminate|].
  destruct (N.ltb_spec mx i) as [Hlt|Hge]; [discriminate|].
  destruct (tfind tab i) as [[k g]|] eqn:Hf.
  - intros Hl. destruct (IH _ _ _ Hl) as [A B]. split; [exact A|lia].
  - intros E; inversion E; subst. split; [apply tfind_none; exact Hf|lia].
Qed.

Lemma nodup_snoc {A} (l : list A) x : NoDup l -> ~ In x l -> NoDup (l ++ [x]).
Proof.
  induction l as [|y l IH]; intros Hn Hx; cbn [app]; [repeat constructor; auto|].
  inversion Hn; subst. constructor.
  - intros Hin. apply in_app_or in Hin. destruct Hin as [Hin|[->|[]]]; [auto|]. apply Hx. left. reflexivity.
  - apply IH; [assumption|]. intros Hin. apply Hx. right. exact Hin.
Qed.

Lemma act_ids_snoc l id tg : act_ids (l ++ [mkwe id (Some tg)]) = act_ids l ++ [id].
Proof. unfold act_ids, tactive. rewrite filter_app, map_app. reflexivity. Qed.

Lemma act_ids_bound tab id : In id (act_ids tab) -> (id <= maxids tab 0)%N.
Proof.
  unfold act_ids, tactive. intros H. apply in_map_iff in H. destruct H as (e & <- & He).
  apply filter_In in He. destruct He as [He _]. apply maxids_ge. exact He.
Qed.

(* the slot handed out carries an id between 1 and the maximum of the header width that no slot in use has;
   the slots in use stay what they were (and in their order) *)
Lemma reserve_max_fresh hasbuf tab mxv tag tab' k id :
  reserve_max hasbuf tab mxv tag = Some (tab', k, id) ->
  nth_error tab' k = Some (mkwe id (Some tag)) /\
  act_ids tab' = (if hasbuf then act_ids tab else []) ++ [id] /\
  (hasbuf = true -> ~ In id (act_ids tab)) /\ (1 <= id <= mxv)%N.
Proof.
  unfold reserve_max. destruct (N.eqb_spec (mxv) 0) as [|Hmx]; [discriminate|].
  destruct hasbuf; cbn [negb].
  2:{ intros E; inversion E; subst. repeat split; try discriminate; lia. }
  destruct (compact_all tab) as (tab1 & used & -> & Hbase & Hused). rewrite Hbase.
  set (mid := maxids tab 0%N).
  assert (Hid : forall id0,
    (if (mxv <=? mid)%N then low_id (tactive tab) 1 (mxv) (S used) else Some (mid + 1)%N) = Some id0 ->
    ~ In id0 (act_ids tab) /\ (1 <= id0 <= mxv)%N).
  { intros id0. destruct (N.leb_spec (mxv) mid) as [Hle|Hlt].
    - intros H. apply low_id_free in H. rewrite act_ids_active in H. exact H.
    - intros E; inversion E; subst. split; [|lia].
      intros Hin. apply act_ids_bound in Hin. fold mid in Hin. lia. }
  destruct (if (mxv <=? mid)%N then _ else _) as [id0|]; [|discriminate].
  destruct (Hid id0 eq_refl) as [Hfresh Hrange].
  intros E; inversion E; subst. split; [|split; [|split]].
  - rewrite nth_error_app2, Nat.sub_diag by lia. reflexivity.
  - rewrite act_ids_snoc, act_ids_active. reflexivity.
  - intros _. exact Hfresh.
  - exact Hrange.
Qed.

Lemma reserve_fresh hasbuf tab idl tag tab' k id :
  reserve hasbuf tab idl tag = Some (tab', k, id) ->
  nth_error tab' k = Some (mkwe id (Some tag)) /\
  act_ids tab' = (if hasbuf then act_ids tab else []) ++ [id] /\
  (hasbuf = true -> ~ In id (act_ids tab)) /\ (1 <= id <= maxid idl)%N.
Proof. unfold reserve. apply reserve_max_fresh. Qed.

Lemma reserve_nodup hasbuf tab idl tag tab' k id :
  reserve hasbuf tab idl tag = Some (tab', k, id) -> (hasbuf = false -> tab = []) ->
  NoDup (act_ids tab) -> NoDup (act_ids tab').
Proof.
  intros Hr Hb Hn. destruct (reserve_fresh _ _ _ _ _ _ _ Hr) as (_ & -> & Hf & _).
  destruct hasbuf.
  - apply nodup_snoc; auto.
  - repeat constructor. intros [].
Qed.
