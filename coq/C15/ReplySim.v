(* C15/ReplySim.v — the deferrable reply context: the mechanism model (ReplyModel.v: counter, destruction flag, reply data
   with a length field) refines the handle specification (ReplySpec.v) — a commuting square with the abstraction function
   [pabs] for every operation from every state that satisfies the invariant "counter = number of handles (metatype slots +
   detached replies); destroyed = no handle", histories, observation, corollaries. *)
From MptV Require Import Base.Mem C15.RefcountModel C15.RefcountSpec C15.RefcountCounter C15.RefcountInv
  C15.ReplyModel C15.ReplySpec.
Local Open Scope nat_scope.

(* ---------- abstraction ---------- *)
Definition absx (x : pobj) : sctx := mksctx (pmax x) (psend x) (abs_data (pdata x)).
Definition absd (h : dh) : sdh := mksdh (dbase h) (abs_data (ddata h)).
Definition pabs (s : pst) : psst := mkpsst (map absx (pobjs s)) (pms s) (map (option_map absd) (pds s)) (pfail s).

(* number of handles on o *)
Definition PH (s : pst) (o : nat) : nat := cnt (flat_map o2l (pms s)) o + cnt (flat_map dbm (pds s)) o.

Definition pobj_ok (s : pst) (o : nat) (x : pobj) : Prop :=
  if pdead x then PH s o = 0 else pcnt x = N.of_nat (PH s o) /\ 0 < PH s o /\ (pcnt x < W)%N.

Record PInv (s : pst) : Prop := mkPInv {
  pinv_rng : forall o, 0 < PH s o -> o < length (pobjs s);
  pinv_obj : forall o x, nth_error (pobjs s) o = Some x -> pobj_ok s o x
}.

(* ---------- lists ---------- *)
Lemma set_nth_same {A} (l : list A) i x : nth_error l i = Some x -> set_nth i x l = l.
Proof.
  revert i; induction l as [|h t IH]; intros [|i] H; cbn in *; try discriminate.
  - inversion H; reflexivity.
  - f_equal; auto.
Qed.

Lemma map_set_nth {A B} (f : A -> B) i v l : map f (set_nth i v l) = set_nth i (f v) (map f l).
Proof. revert i; induction l as [|h t IH]; intros [|i]; cbn; try reflexivity. f_equal; apply IH. Qed.

Lemma nth_error_map' {A B} (f : A -> B) l i : nth_error (map f l) i = option_map f (nth_error l i).
Proof. revert i; induction l as [|h t IH]; intros [|i]; cbn; auto. Qed.

Lemma nth_map_opt {A B} (f : A -> B) (l : list (option A)) i :
  nth i (map (option_map f) l) None = option_map f (nth i l None).
Proof. revert i; induction l as [|h t IH]; intros [|i]; cbn; auto. Qed.

Lemma nth_some_error {A} (l : list (option A)) d v : nth d l None = Some v -> nth_error l d = Some (Some v).
Proof.
  intros E. assert (Hd : d < length l).
  { destruct (Nat.ltb_spec d (length l)); [assumption|]. rewrite nth_overflow in E by assumption. discriminate. }
  rewrite (nth_error_nth' l d None Hd), E. reflexivity.
Qed.

Lemma nth_none_error {A} (l : list (option A)) d :
  d < length l -> is_none (nth d l None) = true -> nth_error l d = Some None.
Proof.
  intros Hd E. rewrite (nth_error_nth' l d None Hd). destruct (nth d l None); [discriminate|reflexivity].
Qed.

Lemma flat_dbl_abs l : flat_map dbl (map (option_map absd) l) = flat_map dbm l.
Proof. induction l as [|[h|] t IH]; cbn; [reflexivity| f_equal; exact IH | exact IH]. Qed.

Lemma ptotal_abs s o : ptotal (pabs s) o = PH s o.
Proof. unfold ptotal, PH, pabs. cbn [sms sds]. rewrite flat_dbl_abs. reflexivity. Qed.

Lemma pheld_PH s o : pheld s o = PH s o.
Proof. reflexivity. Qed.

(* ---------- handle counts under the stores ---------- *)
Lemma PH_set_ms s d v o' old : nth_error (pms s) d = Some old ->
  PH (pset_ms s d v) o' + ind old o' = PH s o' + ind v o'.
Proof.
  intros E. unfold PH, pset_ms. cbn [pms pds].
  pose proof (cnt_flat_set_nth o2l (pms s) d v old o' E). unfold ind. lia.
Qed.

Lemma PH_set_ds s d v o' old : nth_error (pds s) d = Some old ->
  PH (pset_ds s d v) o' + cnt (dbm old) o' = PH s o' + cnt (dbm v) o'.
Proof.
  intros E. unfold PH, pset_ds. cbn [pms pds].
  pose proof (cnt_flat_set_nth dbm (pds s) d v old o' E). lia.
Qed.

Lemma PH_mslot s i o : mslot s i = Some o -> 0 < PH s o.
Proof.
  intros E. apply nth_some_error in E.
  pose proof (PH_set_ms s i None o (Some o) E) as C. rewrite ind_some, Nat.eqb_refl, ind_none in C. lia.
Qed.

Lemma PH_dslot s d h : dslot s d = Some h -> 0 < PH s (dbase h).
Proof.
  intros E. apply nth_some_error in E.
  pose proof (PH_set_ds s d None (dbase h) (Some h) E) as C. cbn [dbm] in C.
  rewrite cnt_cons, Nat.eqb_refl, !cnt_nil in C. lia.
Qed.

Lemma plive_ok s o x : nth_error (pobjs s) o = Some x -> pdead x = false -> plive s o = Ok x.
Proof. intros E D. unfold plive. rewrite E, D. reflexivity. Qed.

Lemma pinv_live s o : PInv s -> 0 < PH s o ->
  exists x, nth_error (pobjs s) o = Some x /\ pdead x = false /\ pcnt x = N.of_nat (PH s o) /\ (pcnt x < W)%N.
Proof.
  intros I H. pose proof (pinv_rng s I o H) as Hl.
  destruct (nth_error (pobjs s) o) as [x|] eqn:E; [|apply nth_error_None in E; lia].
  exists x. pose proof (pinv_obj s I o x E) as B. unfold pobj_ok in B.
  destruct (pdead x); [lia|]. destruct B as (B1 & B2 & B3). auto.
Qed.

(* one object changes *)
Lemma PInv_upd s s' o x x' :
  PInv s -> nth_error (pobjs s) o = Some x -> pobjs s' = set_nth o x' (pobjs s) ->
  (forall o', o' <> o -> PH s' o' = PH s o') -> pobj_ok s' o x' -> PInv s'.
Proof.
  intros I E Eo HH C. assert (Ho : o < length (pobjs s)) by (apply nth_error_Some; congruence).
  constructor.
  - intros o' Hp. rewrite Eo, length_set_nth. destruct (Nat.eq_dec o' o) as [->|n]; [assumption|].
    rewrite (HH o' n) in Hp. apply (pinv_rng s I o' Hp).
  - intros o' x0. rewrite Eo, nth_error_set_nth. destruct (Nat.eqb_spec o o') as [<-|n].
    + rewrite E. intros X; inversion X; subst x0. assumption.
    + intros E0. pose proof (pinv_obj s I o' x0 E0) as B. unfold pobj_ok in *.
      rewrite (HH o' (not_eq_sym n)). assumption.
Qed.

(* only the data / the target of one object change *)
Lemma PInv_fields s o x x' :
  PInv s -> nth_error (pobjs s) o = Some x -> pcnt x' = pcnt x -> pdead x' = pdead x -> PInv (pset_obj s o x').
Proof.
  intros I E Ec Ed. apply (PInv_upd s (pset_obj s o x') o x x' I E); [reflexivity|reflexivity|].
  pose proof (pinv_obj s I o x E) as B. unfold pobj_ok in *. rewrite Ec, Ed. exact B.
Qed.

(* ---------- the send step ---------- *)
Lemma send_abs x o f rd m :
  s_send (absx x) o f (abs_data rd) m =
  (abs_data (fst (fst (ctx_send x o f rd m))), snd (fst (ctx_send x o f rd m)), snd (ctx_send x o f rd m)).
Proof.
  unfold ctx_send, s_send, abs_data, absx. cbn [ssend].
  destruct (rlen rd =? 0)%N eqn:L; cbn [fst snd]; [rewrite L; reflexivity|].
  destruct (psend x); cbn [negb fst snd rlen]; [|reflexivity].
  destruct f; cbn [fst snd rlen]; [rewrite L|]; reflexivity.
Qed.

Lemma pabs_set_obj s o x : pabs (pset_obj s o x) = sset_ctx (pabs s) o (absx x).
Proof. unfold pabs, pset_obj, sset_ctx. cbn [pobjs pms pds pfail sctxs sms sds sfail]. rewrite map_set_nth. reflexivity. Qed.
Lemma pabs_set_ms s d v : pabs (pset_ms s d v) = sset_ms (pabs s) d v.
Proof. reflexivity. Qed.
Lemma pabs_set_ds s d v : pabs (pset_ds s d v) = sset_ds (pabs s) d (option_map absd v).
Proof. unfold pabs, pset_ds, sset_ds. cbn [pobjs pms pds pfail sctxs sms sds sfail]. rewrite map_set_nth. reflexivity. Qed.
Lemma pabs_ctx s o : nth_error (sctxs (pabs s)) o = option_map absx (nth_error (pobjs s) o).
Proof. unfold pabs. cbn [sctxs]. apply nth_error_map'. Qed.
Lemma pabs_dslot s d : sdslot (pabs s) d = option_map absd (dslot s d).
Proof. unfold sdslot, dslot, pabs. cbn [sds]. apply nth_map_opt. Qed.
Lemma pabs_mslot s i : smslot (pabs s) i = mslot s i.
Proof. reflexivity. Qed.
Lemma pabs_dlen s : length (sds (pabs s)) = length (pds s).
Proof. unfold pabs. cbn [sds]. apply map_length. Qed.
Lemma pabs_unchanged s o x x' : nth_error (pobjs s) o = Some x -> absx x' = absx x -> pabs (pset_obj s o x') = pabs s.
Proof.
  intros E A. rewrite pabs_set_obj, A. unfold sset_ctx, pabs. cbn [sctxs sms sds sfail].
  rewrite (set_nth_same (map absx (pobjs s)) o (absx x)); [reflexivity|]. rewrite nth_error_map', E. reflexivity.
Qed.

(* ---------- the commuting square, operation by operation ---------- *)
Definition sim_ok (s : pst) (op : pop) : Prop :=
  PInv s -> exists s' out evs, pstep s op = Ok (s', out, evs) /\ psstep (pabs s) op = (pabs s', out, evs) /\ PInv s'.

Ltac skip_x s := exists s, PX, (@nil sendev); split; [reflexivity|split; [reflexivity|assumption]].

Lemma is_none_map {A B} (f : A -> B) v : is_none (option_map f v) = is_none v.
Proof. destruct v; reflexivity. Qed.

Lemma sim_new s d max : sim_ok s (PNew d max).
Proof.
  intros I. unfold pstep. cbn [psstep]. rewrite pabs_mslot. change (sms (pabs s)) with (pms s).
  destruct ((d <? length (pms s)) && is_none (mslot s d)) eqn:G; [|skip_x s].
  apply andb_prop in G as [Gd Gn]. apply Nat.ltb_lt in Gd.
  unfold p_new. destruct (65535 <? max)%N.
  { exists s, PE, []. auto. }
  eexists _, PD, []. split; [reflexivity|]. split.
  { unfold pabs. cbn [pobjs pms pds pfail sctxs sms sds sfail]. rewrite map_app, map_length. reflexivity. }
  set (id := length (pobjs s)).
  pose proof (nth_none_error (pms s) d Gd Gn) as En.
  assert (HP : forall o', PH (mkpst (pobjs s ++ [mkpobj 1 false true max (mkrd 0 0)]) (set_nth d (Some id) (pms s)) (pds s) (pfail s)) o'
                          = PH s o' + (if Nat.eqb id o' then 1 else 0)).
  { intros o'. pose proof (PH_set_ms s d (Some id) o' None En) as C. rewrite ind_some, ind_none in C.
    unfold PH, pset_ms in *. cbn [pms pds] in *. lia. }
  assert (Z : PH s id = 0).
  { destruct (Nat.eq_dec (PH s id) 0) as [e|n]; [assumption|]. assert (0 < PH s id) as P by lia.
    apply (pinv_rng s I) in P. unfold id in P. lia. }
  constructor.
  - intros o' Hp. cbn [pobjs]. rewrite app_length. cbn [length]. rewrite HP in Hp.
    destruct (Nat.eqb_spec id o') as [e|n]; [unfold id in e; lia|].
    assert (0 < PH s o') as P by lia. apply (pinv_rng s I) in P. lia.
  - intros o' x0. cbn [pobjs]. intros E0. unfold pobj_ok. rewrite HP.
    destruct (Nat.eqb_spec id o') as [e|n].
    + subst o'. unfold id in E0. rewrite nth_error_app_last in E0. inversion E0; subst x0. cbn [pdead pcnt].
      rewrite Z. unfold W. repeat split; lia.
    + assert (Hlt : o' < length (pobjs s)).
      { assert (o' < length (pobjs s ++ [mkpobj 1 false true max (mkrd 0 0)])) as Q by (apply nth_error_Some; congruence).
        rewrite app_length in Q. cbn [length] in Q. unfold id in n. lia. }
      rewrite nth_error_app1 in E0 by assumption. pose proof (pinv_obj s I o' x0 E0) as B. unfold pobj_ok in B.
      rewrite Nat.add_0_r. exact B.
Qed.

Lemma sim_set s i len id : sim_ok s (PSet i len id).
Proof.
  intros I. unfold pstep. cbn [psstep]. rewrite pabs_mslot.
  destruct (mslot s i) as [o|] eqn:Ei; [|skip_x s].
  destruct (pinv_live s o I (PH_mslot s i o Ei)) as (x & Ex & Dx & Cx & Wx).
  unfold p_set. rewrite (plive_ok s o x Ex Dx). cbn [bind]. rewrite pabs_ctx, Ex. cbn [option_map absx smax ssend].
  destruct (pmax x <? len)%N.
  { exists s, PE, []. auto. }
  eexists _, _, []. split; [reflexivity|]. split.
  - rewrite pabs_set_obj. unfold absx, with_data, abs_data. cbn [pmax psend pdata rlen rid]. reflexivity.
  - apply (PInv_fields s o x _ I Ex); reflexivity.
Qed.

Lemma sim_send s i msg : sim_ok s (PSend i msg).
Proof.
  intros I. unfold pstep. cbn [psstep]. rewrite pabs_mslot.
  destruct (mslot s i) as [o|] eqn:Ei; [|skip_x s].
  destruct (pinv_live s o I (PH_mslot s i o Ei)) as (x & Ex & Dx & Cx & Wx).
  unfold p_send. rewrite (plive_ok s o x Ex Dx). cbn [bind]. rewrite pabs_ctx, Ex. cbn [option_map].
  change (spend (absx x)) with (abs_data (pdata x)). change (sfail (pabs s)) with (pfail s).
  rewrite send_abs. destruct (ctx_send x o (pfail s) (pdata x) msg) as [[rd ret] evs]. cbn [fst snd].
  eexists _, _, _. split; [reflexivity|]. split.
  - rewrite pabs_set_obj. reflexivity.
  - apply (PInv_fields s o x _ I Ex); reflexivity.
Qed.

Lemma raise_live c : (0 < c)%N -> (c < W)%N ->
  raise c = if (c <? CMAX)%N then ((c + 1)%N, (c + 1)%N) else (c, 0%N).
Proof.
  intros P Hw. rewrite raise_spec by assumption. unfold sraise.
  destruct (N.ltb_spec 0 c) as [_|]; [|lia]. reflexivity.
Qed.

Lemma lower_live c : (0 < c)%N -> (c < W)%N -> lower c = ((c - 1)%N, (c - 1)%N).
Proof.
  intros P Hw. rewrite lower_spec by assumption. unfold slower.
  destruct (N.ltb_spec 0 c) as [_|]; [|lia]. reflexivity.
Qed.

Lemma pobj_same x : mkpobj (pcnt x) (pdead x) (psend x) (pmax x) (pdata x) = x.
Proof. destruct x; reflexivity. Qed.

Lemma sim_defer s i d : sim_ok s (PDefer i d).
Proof.
  intros I. unfold pstep. cbn [psstep]. rewrite pabs_mslot.
  destruct (mslot s i) as [o|] eqn:Ei; [|skip_x s].
  rewrite pabs_dlen, pabs_dslot, is_none_map.
  destruct ((d <? length (pds s)) && is_none (dslot s d)) eqn:G; [|skip_x s].
  apply andb_prop in G as [Gd Gn]. apply Nat.ltb_lt in Gd.
  pose proof (nth_none_error (pds s) d Gd Gn) as En.
  pose proof (PH_mslot s i o Ei) as Hp.
  destruct (pinv_live s o I Hp) as (x & Ex & Dx & Cx & Wx).
  unfold p_defer. rewrite (plive_ok s o x Ex Dx). cbn [bind]. rewrite pabs_ctx, Ex. cbn [option_map].
  change (spend (absx x)) with (abs_data (pdata x)). unfold abs_data at 1.
  destruct (rlen (pdata x) =? 0)%N eqn:L.
  { exists s, PE, []. auto. }
  rewrite raise_live by (try assumption; lia).
  unfold pshareable. rewrite ptotal_abs, <- Cx.
  destruct (pcnt x <? CMAX)%N eqn:Hc.
  - assert (Hz : (pcnt x + 1 =? 0)%N = false) by (apply N.eqb_neq; lia). rewrite Hz.
    eexists _, PD, []. split; [reflexivity|]. split.
    + rewrite pabs_set_ds, pabs_set_obj. unfold absx, absd, abs_data. cbn [option_map pmax psend pdata rlen rid dbase ddata].
      rewrite L. reflexivity.
    + set (x' := mkpobj (pcnt x + 1) (pdead x) (psend x) (pmax x) (mkrd 0 (rid (pdata x)))).
      set (s1 := pset_obj s o x').
      assert (HP : forall o', PH (pset_ds s1 d (Some (mkdh o (pdata x)))) o' = PH s o' + (if Nat.eqb o o' then 1 else 0)).
      { intros o'. pose proof (PH_set_ds s1 d (Some (mkdh o (pdata x))) o' None En) as C. cbn [dbm dbase] in C.
        rewrite cnt_cons, !cnt_nil in C. change (PH s1 o') with (PH s o') in C. lia. }
      apply (PInv_upd s _ o x x' I Ex); [reflexivity| |].
      * intros o' n. rewrite HP. destruct (Nat.eqb_spec o o'); [congruence|lia].
      * unfold pobj_ok. rewrite HP, Nat.eqb_refl. unfold x'. cbn [pdead pcnt]. rewrite Dx.
        apply N.ltb_lt in Hc. unfold CMAX, W in *. repeat split; lia.
  - assert (Hz : (0 =? 0)%N = true) by reflexivity. rewrite Hz, pobj_same.
    exists s, PE, []. split; [|auto].
    unfold pset_obj. rewrite (set_nth_same (pobjs s) o x Ex). destruct s; reflexivity.
Qed.

Lemma sim_addref s i d : sim_ok s (PAddref i d).
Proof.
  intros I. unfold pstep. cbn [psstep]. rewrite !pabs_mslot. change (sms (pabs s)) with (pms s).
  destruct (mslot s i) as [o|] eqn:Ei; [|skip_x s].
  destruct ((d <? length (pms s)) && is_none (mslot s d)) eqn:G; [|skip_x s].
  apply andb_prop in G as [Gd Gn]. apply Nat.ltb_lt in Gd.
  pose proof (nth_none_error (pms s) d Gd Gn) as En.
  pose proof (PH_mslot s i o Ei) as Hp.
  destruct (pinv_live s o I Hp) as (x & Ex & Dx & Cx & Wx).
  unfold p_addref. rewrite (plive_ok s o x Ex Dx). cbn [bind].
  rewrite raise_live by (try assumption; lia).
  unfold pshareable. rewrite ptotal_abs, <- Cx.
  destruct (pcnt x <? CMAX)%N eqn:Hc.
  - assert (Hz : (pcnt x + 1 =? 0)%N = false) by (apply N.eqb_neq; lia). rewrite Hz.
    eexists _, _, []. split; [reflexivity|]. split.
    + rewrite pabs_set_ms. rewrite (pabs_unchanged s o x _ Ex) by reflexivity. reflexivity.
    + set (x' := mkpobj (pcnt x + 1) (pdead x) (psend x) (pmax x) (pdata x)).
      set (s1 := pset_obj s o x').
      assert (HP : forall o', PH (pset_ms s1 d (Some o)) o' = PH s o' + (if Nat.eqb o o' then 1 else 0)).
      { intros o'. pose proof (PH_set_ms s1 d (Some o) o' None En) as C. rewrite ind_some, ind_none in C.
        change (PH s1 o') with (PH s o') in C. lia. }
      apply (PInv_upd s _ o x x' I Ex); [reflexivity| |].
      * intros o' n. rewrite HP. destruct (Nat.eqb_spec o o'); [congruence|lia].
      * unfold pobj_ok. rewrite HP, Nat.eqb_refl. unfold x'. cbn [pdead pcnt]. rewrite Dx.
        apply N.ltb_lt in Hc. unfold CMAX, W in *. repeat split; lia.
  - assert (Hz : (0 =? 0)%N = true) by reflexivity. rewrite Hz, pobj_same.
    exists s, (PR 0), []. split; [|auto].
    unfold pset_obj. rewrite (set_nth_same (pobjs s) o x Ex). destruct s; reflexivity.
Qed.

(* dropping one handle on o (slot already cleared): the counter follows *)
Lemma drop_ok s s1 o x dead' x' :
  PInv s -> nth_error (pobjs s) o = Some x -> pdead x = false ->
  pobjs s1 = pobjs s ->
  (forall o', PH s1 o' + (if Nat.eqb o o' then 1 else 0) = PH s o') ->
  pcnt x' = (pcnt x - 1)%N -> pdead x' = dead' -> dead' = (pcnt x - 1 =? 0)%N ->
  PInv (pset_obj s1 o x').
Proof.
  intros I Ex Dx Eo HP Ec Ed Edd.
  pose proof (pinv_obj s I o x Ex) as B. unfold pobj_ok in B. rewrite Dx in B. destruct B as (B1 & B2 & B3).
  assert (I1 : forall o', o' <> o -> PH (pset_obj s1 o x') o' = PH s o').
  { intros o' n. change (PH (pset_obj s1 o x') o') with (PH s1 o'). specialize (HP o').
    destruct (Nat.eqb_spec o o'); [congruence|lia]. }
  assert (Eo' : pobjs (pset_obj s1 o x') = set_nth o x' (pobjs s)) by (cbn [pset_obj pobjs]; rewrite Eo; reflexivity).
  apply (PInv_upd s _ o x x' I Ex Eo' I1).
  unfold pobj_ok. change (PH (pset_obj s1 o x') o) with (PH s1 o). specialize (HP o). rewrite Nat.eqb_refl in HP.
  rewrite Ed, Edd, Ec. destruct (N.eqb_spec (pcnt x - 1) 0) as [e|n]; [lia|].
  unfold W in *. repeat split; lia.
Qed.

Lemma sim_unref s i : sim_ok s (PUnref i).
Proof.
  intros I. unfold pstep. cbn [psstep]. rewrite pabs_mslot.
  destruct (mslot s i) as [o|] eqn:Ei; [|skip_x s].
  pose proof (PH_mslot s i o Ei) as Hp.
  destruct (pinv_live s o I Hp) as (x & Ex & Dx & Cx & Wx).
  pose proof (nth_some_error _ _ _ Ei) as En.
  set (s1 := pset_ms s i None).
  assert (HP : forall o', PH s1 o' + (if Nat.eqb o o' then 1 else 0) = PH s o').
  { intros o'. pose proof (PH_set_ms s i None o' (Some o) En) as C. rewrite ind_some, ind_none in C.
    fold s1 in C. lia. }
  unfold p_unref, ctx_unref. fold s1. change (plive s1 o) with (plive s o).
  rewrite (plive_ok s o x Ex Dx). cbn [bind]. rewrite pabs_ctx, Ex. cbn [option_map].
  rewrite lower_live by (try assumption; lia).
  change (sset_ms (pabs s) i None) with (pabs s1). unfold palive. rewrite ptotal_abs.
  assert (Hc : (pcnt x - 1)%N = N.of_nat (PH s1 o)).
  { specialize (HP o). rewrite Nat.eqb_refl in HP. lia. }
  destruct (N.eqb_spec (pcnt x - 1) 0) as [e|n]; cbn [negb].
  - assert (Z : PH s1 o = 0) by lia. rewrite Z. cbn [Nat.ltb Nat.leb].
    eexists _, PD, _. split; [reflexivity|]. split.
    + rewrite (pabs_unchanged s1 o x _ Ex) by reflexivity. f_equal.
      unfold absx, abs_data, ctx_send. cbn [spend ssend]. change (pfail s1) with (pfail s).
      destruct (rlen (pdata x) =? 0)%N eqn:L; [rewrite andb_false_r; reflexivity|].
      destruct (psend x); cbn [andb negb]; [|reflexivity]. destruct (pfail s); reflexivity.
    + apply (drop_ok s s1 o x true _ I Ex Dx eq_refl HP); [reflexivity|reflexivity|].
      symmetry. apply N.eqb_eq. assumption.
  - assert (Z : 0 < PH s1 o) by lia. apply Nat.ltb_lt in Z. rewrite Z.
    eexists _, PD, []. split; [reflexivity|]. split.
    + rewrite pabs_set_obj. reflexivity.
    + apply (drop_ok s s1 o x false _ I Ex Dx eq_refl HP); [reflexivity|reflexivity|].
      symmetry. apply N.eqb_neq. assumption.
Qed.

Lemma sim_reply s d msg : sim_ok s (PReply d msg).
Proof.
  intros I. unfold pstep. cbn [psstep]. rewrite pabs_dslot.
  destruct (dslot s d) as [h|] eqn:Ed; [|skip_x s]. cbn [option_map].
  pose proof (PH_dslot s d h Ed) as Hp.
  destruct (pinv_live s (dbase h) I Hp) as (x & Ex & Dx & Cx & Wx).
  pose proof (nth_some_error _ _ _ Ed) as En.
  unfold p_reply. rewrite (plive_ok s _ x Ex Dx). cbn [bind].
  change (sbase (absd h)) with (dbase h). rewrite pabs_ctx, Ex. cbn [option_map].
  change (sdata (absd h)) with (abs_data (ddata h)). change (sfail (pabs s)) with (pfail s).
  rewrite send_abs. destruct (ctx_send x (dbase h) (pfail s) (ddata h) msg) as [[rd ret] evs]. cbn [fst snd].
  destruct (is_neg ret && msg).
  - eexists _, _, _. split; [reflexivity|]. split.
    + rewrite pabs_set_ds. reflexivity.
    + assert (HP : forall o', PH (pset_ds s d (Some (mkdh (dbase h) rd))) o' = PH s o').
      { intros o'. pose proof (PH_set_ds s d (Some (mkdh (dbase h) rd)) o' (Some h) En) as C. cbn [dbm dbase] in C. lia. }
      constructor.
      * intros o' P. rewrite HP in P. apply (pinv_rng s I o' P).
      * intros o' x0 E0. pose proof (pinv_obj s I o' x0 E0) as B. unfold pobj_ok in *. rewrite HP. exact B.
  - unfold ctx_detach. rewrite (plive_ok s _ x Ex Dx). cbn [bind].
    rewrite lower_live by (try assumption; lia).
    eexists _, _, _. split; [reflexivity|]. split.
    + rewrite pabs_set_ds. rewrite (pabs_unchanged s _ x _ Ex) by reflexivity. reflexivity.
    + set (x' := mkpobj (pcnt x - 1) (pcnt x - 1 =? 0)%N (psend x) (pmax x) (pdata x)).
      assert (HP : forall o', PH (pset_ds s d None) o' + (if Nat.eqb (dbase h) o' then 1 else 0) = PH s o').
      { intros o'. pose proof (PH_set_ds s d None o' (Some h) En) as C. cbn [dbm] in C.
        rewrite cnt_cons, !cnt_nil in C. lia. }
      pose proof (drop_ok s (pset_ds s d None) (dbase h) x (pcnt x - 1 =? 0)%N x' I Ex Dx eq_refl HP eq_refl eq_refl eq_refl) as R.
      exact R.
Qed.

Lemma sim_fail s b : sim_ok s (PFail b).
Proof.
  intros I. eexists _, PD, []. split; [reflexivity|]. split; [reflexivity|].
  constructor; [apply (pinv_rng s I)|apply (pinv_obj s I)].
Qed.

Theorem psim_step s op : sim_ok s op.
Proof.
  destruct op; [apply sim_new|apply sim_set|apply sim_defer|apply sim_send|apply sim_reply|apply sim_addref|apply sim_unref|apply sim_fail].
Qed.

(* ---------- observation ---------- *)
Lemma psdisp_abs s : forall l i, (forall k x, nth_error l k = Some x -> nth_error (pobjs s) (i + k) = Some x) -> PInv s ->
  psdisp_from (pabs s) (map absx l) i = map pdisp_obj l.
Proof.
  induction l as [|x t IH]; intros i H I; [reflexivity|].
  cbn [map psdisp_from]. f_equal.
  - pose proof (H 0 x eq_refl) as E. rewrite Nat.add_0_r in E.
    pose proof (pinv_obj s I i x E) as B. unfold pobj_ok in B. unfold palive, pdisp_obj. rewrite ptotal_abs.
    destruct (pdead x).
    + rewrite B. reflexivity.
    + destruct B as (B1 & B2 & B3). apply Nat.ltb_lt in B2. rewrite B2, B1. reflexivity.
  - apply IH; [|assumption]. intros k y E. rewrite Nat.add_succ_comm. apply (H (S k) y E).
Qed.

Theorem pobserve_abs s r e : PInv s -> psobserve (pabs s) r e = pobserve s r e.
Proof.
  intros I. unfold psobserve, pobserve. f_equal.
  - change (sctxs (pabs s)) with (map absx (pobjs s)). apply psdisp_abs; [|assumption]. intros k x E. exact E.
  - change (sds (pabs s)) with (map (option_map absd) (pds s)). rewrite map_map. apply map_ext.
    intros [h|]; reflexivity.
Qed.

Lemma pleak_none s : PInv s -> forall l i, (forall k x, nth_error l k = Some x -> nth_error (pobjs s) (i + k) = Some x) ->
  pleak_from s l i = false.
Proof.
  intros I. induction l as [|x t IH]; intros i H; [reflexivity|].
  cbn [pleak_from]. rewrite IH by (intros k y E; rewrite Nat.add_succ_comm; apply (H (S k) y E)).
  rewrite orb_false_r. pose proof (H 0 x eq_refl) as E. rewrite Nat.add_0_r in E.
  pose proof (pinv_obj s I i x E) as B. unfold pobj_ok in B. rewrite pheld_PH.
  destruct (pdead x); [reflexivity|]. destruct B as (B1 & B2 & B3). cbn [negb andb].
  apply Nat.eqb_neq. lia.
Qed.

Theorem pleaked_never s : PInv s -> pleaked s = false.
Proof. intros I. apply (pleak_none s I (pobjs s) 0). intros k x E. exact E. Qed.

(* ---------- histories ---------- *)
Theorem psim_run : forall ops s, PInv s ->
  exists f, prun s ops = (fst (psrun (pabs s) ops), Some f) /\ snd (psrun (pabs s) ops) = pabs f /\ PInv f.
Proof.
  induction ops as [|o r IH]; intros s I.
  - exists s. auto.
  - destruct (psim_step s o I) as (s' & out & evs & E1 & E2 & I').
    destruct (IH s' I') as (f & R1 & R2 & If).
    exists f. cbn [prun psrun]. rewrite E1, E2, R1.
    destruct (psrun (pabs s') r) as [l g] eqn:Er. cbn [fst snd] in *.
    rewrite (pobserve_abs s' out evs I'). auto.
Qed.

Lemma PInv_init : PInv pinit.
Proof. constructor; [intros o H; cbn in H; lia|intros o x E; destruct o; discriminate]. Qed.

Lemma pabs_init : pabs pinit = psinit.
Proof. reflexivity. Qed.

Theorem preply_history_refines ops :
  exists f, prun pinit ops = (fst (psrun psinit ops), Some f) /\ snd (psrun psinit ops) = pabs f /\ PInv f /\
            pleaked f = psleaked (snd (psrun psinit ops)).
Proof.
  destruct (psim_run ops pinit PInv_init) as (f & R1 & R2 & If). rewrite pabs_init in *.
  exists f. split; [assumption|]. split; [assumption|]. split; [assumption|]. rewrite (pleaked_never f If). reflexivity.
Qed.

(* destroyed exactly when the specification's own run has no handle left; a live counter is the handle count *)
Theorem preply_destroyed_iff_last ops f :
  prun pinit ops = (fst (psrun psinit ops), Some f) -> snd (psrun psinit ops) = pabs f -> PInv f ->
  forall o x, nth_error (pobjs f) o = Some x ->
    pdead x = negb (palive (snd (psrun psinit ops)) o) /\
    (pdead x = false -> pcnt x = N.of_nat (ptotal (snd (psrun psinit ops)) o)).
Proof.
  intros _ R2 If o x E. rewrite R2. unfold palive. rewrite ptotal_abs.
  pose proof (pinv_obj f If o x E) as B. unfold pobj_ok in B. destruct (pdead x).
  - rewrite B. split; [reflexivity|discriminate].
  - destruct B as (B1 & B2 & B3). apply Nat.ltb_lt in B2. rewrite B2. split; [reflexivity|auto].
Qed.

(* ---------- corollaries ---------- *)
(* a defer() while nothing is pending hands out nothing and changes NOTHING: state, counter, handles *)
Theorem preply_refused_defer_unchanged s i d o x :
  PInv s -> mslot s i = Some o -> nth_error (pobjs s) o = Some x -> rlen (pdata x) = 0%N ->
  exists r, pstep s (PDefer i d) = Ok (s, r, []) /\ (r = PE \/ r = PX) /\
            psstep (pabs s) (PDefer i d) = (pabs s, r, []).
Proof.
  intros I Ei Ex L. pose proof (PH_mslot s i o Ei) as Hp.
  destruct (pinv_live s o I Hp) as (x0 & Ex0 & Dx & _). rewrite Ex in Ex0. inversion Ex0; subst x0.
  unfold pstep. cbn [psstep]. rewrite pabs_mslot, Ei, pabs_dlen, pabs_dslot, is_none_map.
  destruct ((d <? length (pds s)) && is_none (dslot s d)).
  - exists PE. unfold p_defer. rewrite (plive_ok s o x Ex Dx). cbn [bind]. rewrite L. cbn [N.eqb].
    rewrite pabs_ctx, Ex. cbn [option_map]. change (spend (absx x)) with (abs_data (pdata x)). unfold abs_data. rewrite L.
    cbn [N.eqb]. auto.
  - exists PX. auto.
Qed.

(* dropping the LAST handle (a metatype handle) of a context that still has a reply target and a pending id: the default
   reply for exactly that id, once, and the context is destroyed *)
Theorem preply_last_unref_default_reply s i o x l id :
  PInv s -> mslot s i = Some o -> PH s o = 1 -> nth_error (pobjs s) o = Some x ->
  psend x = true -> abs_data (pdata x) = Some (l, id) ->
  exists s', pstep s (PUnref i) = Ok (s', PD, [mksend o l id false]) /\ PInv s' /\ PH s' o = 0 /\
             exists x', nth_error (pobjs s') o = Some x' /\ pdead x' = true.
Proof.
  intros I Ei H1 Ex Es Ep.
  destruct (psim_step s (PUnref i) I) as (s' & out & evs & E1 & E2 & I').
  cbn [psstep] in E2. rewrite pabs_mslot, Ei, pabs_ctx, Ex in E2. cbn [option_map] in E2.
  change (sset_ms (pabs s) i None) with (pabs (pset_ms s i None)) in E2. unfold palive in E2. rewrite ptotal_abs in E2.
  pose proof (PH_set_ms s i None o (Some o) (nth_some_error _ _ _ Ei)) as C. rewrite ind_some, Nat.eqb_refl, ind_none in C.
  assert (Z : PH (pset_ms s i None) o = 0) by lia. rewrite Z in E2. cbn [Nat.ltb Nat.leb] in E2.
  change (spend (absx x)) with (abs_data (pdata x)) in E2. change (ssend (absx x)) with (psend x) in E2.
  rewrite Ep, Es in E2. injection E2 as A B D F. subst out evs.
  exists s'. split; [assumption|]. split; [assumption|].
  assert (Z' : PH s' o = 0).
  { unfold PH in *. cbn [pset_ms pms pds] in Z. rewrite <- B, <- (flat_dbl_abs (pds s')), <- D, flat_dbl_abs. exact Z. }
  split; [assumption|].
  assert (L : length (pobjs s') = length (pobjs s)).
  { apply (f_equal (@length _)) in A. rewrite !map_length in A. symmetry. exact A. }
  destruct (nth_error (pobjs s') o) as [x'|] eqn:E'.
  - exists x'. split; [reflexivity|]. pose proof (pinv_obj s' I' o x' E') as Bk. unfold pobj_ok in Bk.
    destruct (pdead x'); [reflexivity|]. lia.
  - apply nth_error_None in E'. assert (o < length (pobjs s)) by (apply nth_error_Some; congruence). lia.
Qed.
