(* C15/RefcountCounter.v — the counter of refcount.c: no wrap, remaining count. *)
From MptV Require Import Base.Mem C15.RefcountModel C15.RefcountSpec.
Local Open Scope N_scope.

Lemma W_val : W = CMAX + 1.
Proof. reflexivity. Qed.

Lemma raise_spec c : c < W -> raise c = sraise c.
Proof.
  intros H. unfold raise, sraise. rewrite W_val in *.
  destruct (N.eqb_spec c 0) as [->|Hz]; [reflexivity|].
  replace (0 <? c) with true by (symmetry; apply N.ltb_lt; lia). cbn [andb].
  destruct (N.ltb_spec c CMAX) as [Hm|Hm].
  - rewrite N.mod_small by lia.
    destruct (N.eqb_spec (c + 1) 0); [lia|]. reflexivity.
  - assert (c = CMAX) by lia. subst c. vm_compute. reflexivity.
Qed.

Lemma lower_spec c : c < W -> lower c = slower c.
Proof.
  intros H. unfold lower, slower. rewrite W_val in *.
  destruct (N.eqb_spec c 0) as [->|Hz]; [reflexivity|].
  replace (0 <? c) with true by (symmetry; apply N.ltb_lt; lia).
  replace (c + (CMAX + 1) - 1) with ((c - 1) + 1 * (CMAX + 1)) by lia.
  rewrite N.mod_add by (vm_compute; discriminate).
  rewrite N.mod_small by lia. reflexivity.
Qed.

Lemma raise_refuses c : c < W ->
  (c = 0 \/ c = CMAX -> raise c = (c, 0)) /\ (0 < c < CMAX -> raise c = (c + 1, c + 1)).
Proof.
  intros H. rewrite (raise_spec c H). unfold sraise. split.
  - intros [->| ->]; reflexivity.
  - intros [H1 H2].
    replace (0 <? c) with true by (symmetry; apply N.ltb_lt; lia).
    replace (c <? CMAX) with true by (symmetry; apply N.ltb_lt; lia). reflexivity.
Qed.

Lemma lower_remaining c : c < W ->
  (0 < c -> lower c = (c - 1, c - 1)) /\ (c = 0 -> lower c = (0, CMAX)).
Proof.
  intros H. rewrite (lower_spec c H). unfold slower. split.
  - intros H1. replace (0 <? c) with true by (symmetry; apply N.ltb_lt; lia). reflexivity.
  - intros ->. reflexivity.
Qed.

(* the field stays a uintptr_t *)
Lemma raise_range c : c < W -> fst (raise c) < W.
Proof.
  intros H. rewrite (raise_spec c H). unfold sraise.
  destruct (N.ltb_spec 0 c); cbn [andb fst]; [|assumption].
  destruct (N.ltb_spec c CMAX); cbn [fst]; [rewrite W_val; lia|assumption].
Qed.
Lemma lower_range c : c < W -> fst (lower c) < W.
Proof.
  intros H. rewrite (lower_spec c H). unfold slower.
  destruct (N.ltb_spec 0 c); cbn [fst]; lia.
Qed.

Lemma cstep_range c o : c < W -> (match o with CSet v => v < W | _ => True end) -> fst (cstep c o) < W.
Proof.
  destruct o; cbn [cstep fst]; intros; auto using raise_range, lower_range.
Qed.

(* every history on the bare counter: the transcribed code is the mathematical counter *)
Lemma crun_spec ops : forall c, c < W ->
  Forall (fun o => match o with CSet v => v < W | _ => True end) ops ->
  crun c ops = scrun c ops.
Proof.
  induction ops as [|o ops IH]; intros c Hc Hall; [reflexivity|].
  inversion Hall as [|? ? Ho Hr]; subst.
  cbn [crun scrun].
  assert (E : cstep c o = scstep c o).
  { destruct o; cbn [cstep scstep]; auto using raise_spec, lower_spec. }
  rewrite <- E.
  pose proof (cstep_range c o Hc Ho) as Hr'.
  destruct (cstep c o) as [c1 ret]. cbn [fst] in Hr'.
  f_equal. apply IH; assumption.
Qed.
