(* C15/RefcountAbs.v — the observation the specification DERIVES from the handles of a model state
   (RefcountSpec: salive / stotal, no counter) is the observation the model reads from its counters. *)
From MptV Require Import Base.Mem C15.RefcountModel C15.RefcountSpec C15.RefcountCounter C15.RefcountInv
  C15.RefcountSteps C15.RefcountOps C15.RefcountRun.
Local Open Scope nat_scope.

Definition abs_obj (x : obj) : sobj := mksobj (okind x) (oext x) (oinner x).
(* forget counters, destruction flags, locals, log: keep kinds, forced handles, owned handles, slots *)
Definition abs (s : st) : sst := mksst (map abs_obj (objs s)) (hs s).

Lemma in_slots_abs s o : in_slots (abs s) o = cnt (flat_map o2l (hs s)) o.
Proof. reflexivity. Qed.

(* a handle owned by an object never refers to an object that itself owns a handle *)
Lemma owner_not_owned s c x b : Inv s -> nth_error (objs s) c = Some x -> oinner x = Some b ->
  cnt (flat_map oin (objs s)) c = 0.
Proof.
  intros I E Hi. destruct (cnt (flat_map oin (objs s)) c) eqn:Z; [reflexivity|].
  assert (Hin : In c (flat_map oin (objs s))) by (apply cnt_pos_in; lia).
  apply in_flat_map in Hin. destruct Hin as (x' & Hx' & Hc).
  apply In_nth_error in Hx'. destruct Hx' as (c' & E').
  unfold oin in Hc. destruct (oinner x') as [c0|] eqn:Hi'; [|destruct Hc].
  destruct Hc as [->|[]].
  pose proof (inv_obj s I c' x' E') as (_ & C2 & _). destruct (C2 c Hi') as (y & Ey & By).
  rewrite E in Ey. inversion Ey; subst y.
  pose proof (inv_obj s I c x E) as (C1 & _ & _). rewrite (C1 By) in Hi. discriminate.
Qed.

Lemma owner_alive_abs s c x b : Good s -> nth_error (objs s) c = Some x -> oinner x = Some b ->
  owner_alive (abs s) c (abs_obj x) = true.
Proof.
  intros [I P] E Hi. unfold owner_alive. cbn [abs_obj skind sext].
  pose proof (inv_obj s I c x E) as (_ & _ & C3).
  destruct (odead x) eqn:D; [destruct C3 as (F & _); congruence|].
  pose proof (owner_not_owned s c x b I E Hi) as Z.
  assert (HH : H3 s c = in_slots (abs s) c) by (unfold H3; rewrite P, Z, in_slots_abs; cbn [cnt count_occ]; lia).
  unfold is_static. destruct (cls_of (okind x)); cbn [orb].
  - destruct C3 as (Hc & H0 & _). apply N.ltb_lt. rewrite <- HH. lia.
  - destruct C3 as (H1 & _). apply N.ltb_lt. rewrite <- HH. lia.
  - reflexivity.
Qed.

Lemma owned_from_abs s o : Good s ->
  forall l i, (forall j x, nth_error l j = Some x -> nth_error (objs s) (i + j) = Some x) ->
  owned_from (abs s) (map abs_obj l) i o = cnt (flat_map oin l) o.
Proof.
  intros G. induction l as [|x t IH]; intros i Hl; [reflexivity|].
  cbn [map owned_from flat_map]. rewrite cnt_app, (IH (S i)).
  2:{ intros j x0 Ej. replace (S i + j) with (i + S j) by lia. apply Hl. exact Ej. }
  f_equal. unfold oin. cbn [abs_obj sinner].
  destruct (oinner x) as [b|] eqn:Hi.
  - rewrite (owner_alive_abs s i x b G); [reflexivity| |assumption].
    specialize (Hl 0 x eq_refl). rewrite Nat.add_0_r in Hl. exact Hl.
  - destruct (owner_alive (abs s) i (abs_obj x)); reflexivity.
Qed.

Lemma sheld_abs s o : Good s -> sheld (abs s) o = N.of_nat (H3 s o).
Proof.
  intros G. pose proof G as [I P]. unfold sheld. cbn [abs sobjs].
  rewrite (owned_from_abs s o G (objs s) 0) by (intros j x E; exact E).
  unfold H3. rewrite P, in_slots_abs. cbn [cnt count_occ]. f_equal.
Qed.

Lemma held_abs s o : Good s -> sheld (abs s) o = held s o.
Proof. intros G. rewrite held_H3. apply sheld_abs, G. Qed.

Lemma stotal_abs s o x : Good s -> nth_error (objs s) o = Some x ->
  stotal (abs s) o = (N.of_nat (H3 s o) + oext x)%N.
Proof.
  intros G E. unfold stotal. rewrite (sheld_abs s o G). cbn [abs sobjs].
  rewrite nth_error_map, E. reflexivity.
Qed.

(* pointwise: what the specification shows for object o is what the model shows *)
Lemma disp_abs s o x : Good s -> nth_error (objs s) o = Some x ->
  (if salive (abs s) o
   then match cls_of (okind x) with Counted => DCnt (stotal (abs s) o) | Unique => DUni | Static => DSta end
   else DDead) = disp_obj x.
Proof.
  intros G E. pose proof G as [I P].
  pose proof (inv_obj s I o x E) as (_ & _ & C3).
  unfold salive, disp_obj. cbn [abs sobjs]. rewrite nth_error_map, E. cbn [option_map abs_obj skind].
  rewrite (stotal_abs s o x G E).
  destruct (odead x).
  - destruct C3 as (_ & Z & Ze & NS). rewrite NS, Z, Ze. reflexivity.
  - unfold is_static. destruct (cls_of (okind x)); cbn [orb].
    + destruct C3 as (Hc & H0 & _). rewrite <- Hc. replace (0 <? ocnt x)%N with true by (symmetry; apply N.ltb_lt; assumption). reflexivity.
    + destruct C3 as (H1 & He). rewrite H1, He. reflexivity.
    + reflexivity.
Qed.

Lemma sdisp_from_abs s : Good s ->
  forall l i, (forall j x, nth_error l j = Some x -> nth_error (objs s) (i + j) = Some x) ->
  sdisp_from (abs s) (map abs_obj l) i = map disp_obj l.
Proof.
  intros G. induction l as [|x t IH]; intros i Hl; [reflexivity|].
  cbn [map sdisp_from abs_obj skind]. f_equal.
  - apply (disp_abs s i x G). specialize (Hl 0 x eq_refl). rewrite Nat.add_0_r in Hl. exact Hl.
  - apply IH. intros j x0 Ej. replace (S i + j) with (i + S j) by lia. apply Hl. exact Ej.
Qed.

(* the whole observation, events aside *)
Lemma observe_abs s t : Good s ->
  sobserve (abs s) t = match observe s t with Obs o d h _ => Obs o d h [] | ObsFault => ObsFault end.
Proof.
  intros G. unfold sobserve, observe. cbn [abs sobjs shs].
  rewrite (sdisp_from_abs s G (objs s) 0) by (intros j x E; exact E). reflexivity.
Qed.

Lemma leak_from_abs s : Good s ->
  forall l i, (forall j x, nth_error l j = Some x -> nth_error (objs s) (i + j) = Some x) ->
  sleak_from (abs s) (map abs_obj l) i = leak_from s l i.
Proof.
  intros G. pose proof G as [I P]. induction l as [|x t IH]; intros i Hl; [reflexivity|].
  cbn [map sleak_from leak_from abs_obj skind].
  assert (E : nth_error (objs s) i = Some x) by (specialize (Hl 0 x eq_refl); rewrite Nat.add_0_r in Hl; exact Hl).
  rewrite (IH (S i)) by (intros j x0 Ej; replace (S i + j) with (i + S j) by lia; apply Hl; exact Ej).
  f_equal. rewrite (held_abs s i G). f_equal. f_equal.
  pose proof (disp_abs s i x G E) as D. unfold disp_obj in D.
  destruct (salive (abs s) i), (odead x); try reflexivity; destruct (cls_of (okind x)); discriminate.
Qed.

Lemma leaked_abs s : Good s -> sleaked (abs s) = leaked s.
Proof. intros G. unfold sleaked, leaked. cbn [abs sobjs]. apply (leak_from_abs s G (objs s) 0). intros j x E; exact E. Qed.

(* every state a history reaches: specification observation of its handles = model observation *)
Lemma history_observation_l : forall ops s, final init ops = Some s ->
  forall t, sobserve (abs s) t = match observe s t with Obs o d h _ => Obs o d h [] | ObsFault => ObsFault end.
Proof.
  intros ops s F t. destruct (mrun_ok ops init Good_init) as (s' & F' & G & _).
  rewrite F in F'. inversion F'; subst s'. apply observe_abs, G.
Qed.
Lemma history_leak_l : forall ops s, final init ops = Some s -> sleaked (abs s) = leaked s.
Proof.
  intros ops s F. destruct (mrun_ok ops init Good_init) as (s' & F' & G & _).
  rewrite F in F'. inversion F'; subst s'. apply leaked_abs, G.
Qed.
