(* C15/ChainModel.v — executable mechanism model of mpt++ reference<T> (mptcore/core.h) for objects that OWN
   a reference to another object of the same family (linked nodes: member  reference<node> next).
   NO proofs in this file.

   Transcribed from mptcore/core.h:
     reference<T>::type::addref()       return _ref.raise();
     reference<T>::type::unref()        if (_ref.lower()) return;  delete this;
                                        (delete: ~node body, then the MEMBER next is destroyed:
                                         ~reference(): if (_ref) _ref->unref();  — the destruction cascade)
     reference<T>::set_instance(p)      if (_ref) _ref->unref();  _ref = p;
     reference<T>::operator=(const &)   r = ref._ref; if (r == _ref) return; if (r && !r->addref()) r = 0;
                                        if (_ref) _ref->unref();  _ref = r;          RETAIN FIRST, THEN RELEASE
     reference<T>::operator=(&&)        r = ref._ref; ref._ref = 0; set_instance(r);
     reference<T>::detach()             r = _ref; _ref = 0; return r;
   The counter is the one of RefcountModel.v ([raise]/[lower] of refcount.c, through mpt++/refcount_wrap.cpp).

   A pointer is an object id; [npend] = handles in local variables of the running function (between the addref and
   the store, between the load and the unref), empty between operations.  A destroyed object that is dereferenced
   is a [Fault] (use after free).  The cascade of [n_unref] runs on fuel (number of objects): running out of fuel
   is a [Fault] as well — ChainProofs.v shows that neither happens. *)
From MptV Require Import Base.Mem C15.RefcountModel.
Local Open Scope nat_scope.

Record nobj := mknobj { ncnt : N; ndead : bool; nnext : option nat }.
Record nst := mknst { nobjs : list nobj; nhs : list (option nat); npend : list nat; nlog : list ev }.

Definition nin (x : nobj) : list nat := o2l (nnext x).
Definition nhandles (s : nst) : list nat := npend s ++ flat_map o2l (nhs s) ++ flat_map nin (nobjs s).
Definition nheld (s : nst) (o : nat) : N := N.of_nat (count_occ Nat.eq_dec (nhandles s) o).
Definition nslot (s : nst) (i : nat) : option nat := nth i (nhs s) None.

Definition nlive (s : nst) (o : nat) : res nobj :=
  match nth_error (nobjs s) o with
  | Some x => if ndead x then Fault else Ok x
  | None => Fault
  end.

Definition nset (s : nst) (o : nat) (x : nobj) : nst := mknst (set_nth o x (nobjs s)) (nhs s) (npend s) (nlog s).
Definition nadd_pend (s : nst) (o : nat) : nst := mknst (nobjs s) (nhs s) (o :: npend s) (nlog s).
Definition ndel_pend (s : nst) (o : nat) : nst := mknst (nobjs s) (nhs s) (remove_one o (npend s)) (nlog s).
Definition nlogev (s : nst) (e : ev) : nst := mknst (nobjs s) (nhs s) (npend s) (e :: nlog s).
Definition nclear_log (s : nst) : nst := mknst (nobjs s) (nhs s) (npend s) [].

(* type::addref(): a non-zero result leaves one more handle in a local *)
Definition n_addref (s : nst) (o : nat) : res (nst * N) :=
  do x <- nlive s o;
  let '(c, r) := raise (ncnt x) in
  let s1 := nlogev (nset s o (mknobj c (ndead x) (nnext x))) (EAdd o) in
  Ok (if (r =? 0)%N then s1 else nadd_pend s1 o, r).

(* type::unref() of a handle held in a local.  At zero: delete this — the destructor body runs (EDel), then the
   member [next] is destroyed, which releases the handle it holds: the cascade *)
Fixpoint n_unref (fuel : nat) (s : nst) (o : nat) : res nst :=
  match fuel with
  | O => Fault
  | S f =>
    let s0 := ndel_pend s o in
    do x <- nlive s0 o;
    let '(c, r) := lower (ncnt x) in
    let s1 := nlogev s0 (EUnr o) in
    if (r =? 0)%N then
      let s2 := nlogev (nset s1 o (mknobj c true None)) (EDel o) in
      match nnext x with
      | Some b => n_unref f (nadd_pend s2 b) b      (* ~reference(): if (_ref) _ref->unref() *)
      | None => Ok s2
      end
    else Ok (nset s1 o (mknobj c false (nnext x)))
  end.

Definition nfuel (s : nst) : nat := length (nobjs s).
Definition n_unref_opt (s : nst) (v : option nat) : res nst :=
  match v with Some a => n_unref (nfuel s) s a | None => Ok s end.

Definition n_retain (s : nst) (v : option nat) : res (nst * bool) :=
  match v with
  | None => Ok (s, true)
  | Some o => do '(s1, r) <- n_addref s o; Ok (s1, negb (r =? 0)%N)
  end.

(* new type: counter 1, the pointer is in a local *)
Definition n_new (s : nst) : nst * nat :=
  let id := length (nobjs s) in
  (mknst (nobjs s ++ [mknobj 1%N false None]) (nhs s) (id :: npend s) (nlog s), id).

(* local := slot; slot := 0 *)
Definition n_take (s : nst) (d : nat) : nst * option nat :=
  let v := nslot s d in (mknst (nobjs s) (set_nth d None (nhs s)) (o2l v ++ npend s) (nlog s), v).
(* slot := local *)
Definition n_put (s : nst) (d : nat) (v : option nat) : nst :=
  mknst (nobjs s) (set_nth d v (nhs s)) (rm_opt v (npend s)) (nlog s).
(* the member [next] of an object used as a slot *)
Definition n_take_next (s : nst) (o : nat) (x : nobj) : nst :=
  mknst (set_nth o (mknobj (ncnt x) (ndead x) None) (nobjs s)) (nhs s) (o2l (nnext x) ++ npend s) (nlog s).
Definition n_put_next (s : nst) (o : nat) (v : option nat) : res nst :=
  do x <- nlive s o;
  Ok (mknst (set_nth o (mknobj (ncnt x) (ndead x) v) (nobjs s)) (nhs s) (rm_opt v (npend s)) (nlog s)).

(* ---------- operations: slots 12..14 reference<node>, 15..17 raw node* (each raw pointer owns one reference) ---------- *)
Inductive nop :=
| NNew (d : nat)            (* r[d].set_instance(new type) *)
| NAssign (s d : nat)       (* r[d] = r[s] *)
| NCopy (s d : nat)         (* r[d].~reference(); new (&r[d]) reference(r[s]) *)
| NMove (s d : nat)         (* r[d] = std::move(r[s]) *)
| NDetach (s d : nat)       (* p[d] = r[s].detach() *)
| NSetInst (s d : nat)      (* r[d].set_instance(p[s]); p[s] = 0 *)
| NDrop (d : nat)           (* r[d].set_instance(0) *)
| NAddref (s d : nat)       (* if (p[s]->addref()) p[d] = p[s] *)
| NUnref (s : nat)          (* p[s]->unref(); p[s] = 0 *)
| NSetNext (s d : nat)      (* r[d].instance()->next = r[s] *)
| NNext (s d : nat).        (* r[d] = r[s].instance()->next     (s = d: step along the chain) *)

(* harness preconditions; they depend on the slots only.  NSetNext: an object only ever owns a handle on an object
   created BEFORE it (ids grow with creation), which keeps the ownership graph acyclic *)
Definition nguard (h : list (option nat)) (o : nop) : bool :=
  let sl i := nth i h None in
  match o with
  | NNew d => bank d =? 3
  | NAssign s d => (bank s =? 3) && (bank d =? 3)
  | NCopy s d => (bank s =? 3) && (bank d =? 3) && negb (s =? d)
  | NMove s d => (bank s =? 3) && (bank d =? 3)
  | NDetach s d => (bank s =? 3) && (bank d =? 4) && is_none (sl d)
  | NSetInst s d => (bank s =? 4) && (bank d =? 3)
  | NDrop d => bank d =? 3
  | NAddref s d => (bank s =? 4) && (bank d =? 4) && negb (is_none (sl s)) && is_none (sl d)
  | NUnref s => (bank s =? 4) && negb (is_none (sl s))
  | NSetNext s d => (bank s =? 3) && (bank d =? 3) &&
                    match sl d with
                    | Some od => match sl s with Some os => os <? od | None => true end
                    | None => false
                    end
  | NNext s d => (bank s =? 3) && (bank d =? 3) && negb (is_none (sl s))
  end.

(* reference::operator=(const reference &ref) on the reference in slot d, r = ref._ref *)
Definition n_assign_ptr (s : nst) (r : option nat) (d : nat) : res nst :=
  if eq_opt r (nslot s d) then Ok s else          (* if (r == _ref) return *this *)
  do '(s1, ok) <- n_retain s r;                   (* if (r && !r->addref()) r = 0 *)
  let r' := if ok then r else None in
  let '(s2, old) := n_take s1 d in
  do s3 <- n_unref_opt s2 old;                    (* if (_ref) _ref->unref() *)
  Ok (n_put s3 d r').                             (* _ref = r *)

(* the same operator on the member [next] of object od *)
Definition n_assign_next (s : nst) (r : option nat) (od : nat) : res nst :=
  do x <- nlive s od;
  if eq_opt r (nnext x) then Ok s else
  do '(s1, ok) <- n_retain s r;
  let r' := if ok then r else None in
  do x1 <- nlive s1 od;
  let s2 := n_take_next s1 od x1 in
  do s3 <- n_unref_opt s2 (nnext x1);
  n_put_next s3 od r'.

Definition n_drop (s : nst) (d : nat) : res nst :=
  let '(s1, old) := n_take s d in n_unref_opt s1 old.

Definition nexec (s : nst) (o : nop) : res (nst * out) :=
  match o with
  | NNew d =>
      let '(s1, n) := n_new s in                  (* new type: evaluated before the call *)
      let '(s2, old) := n_take s1 d in            (* set_instance: if (_ref) _ref->unref(); _ref = ref *)
      do s3 <- n_unref_opt s2 old;
      Ok (n_put s3 d (Some n), OD)
  | NAssign si d => do s1 <- n_assign_ptr s (nslot s si) d; Ok (s1, OD)
  | NCopy si d =>
      do s1 <- n_drop s d;                        (* ~reference() *)
      do s2 <- n_assign_ptr s1 (nslot s1 si) d;   (* reference(const reference &): _ref(0); *this = ref *)
      Ok (s2, OD)
  | NMove si d | NSetInst si d =>
      let '(s1, r) := n_take s si in              (* r = ref._ref; ref._ref = 0 *)
      let '(s2, old) := n_take s1 d in            (* set_instance(r) *)
      do s3 <- n_unref_opt s2 old;
      Ok (n_put s3 d r, OD)
  | NDetach si d => let '(s1, v) := n_take s si in Ok (n_put s1 d v, OD)
  | NDrop d | NUnref d => do s1 <- n_drop s d; Ok (s1, OD)
  | NAddref si d =>
      match nslot s si with
      | Some o => do '(s1, r) <- n_addref s o; Ok (if (r =? 0)%N then s1 else n_put s1 d (Some o), ORet r)
      | None => Ok (s, OX)
      end
  | NSetNext si d =>
      match nslot s d with
      | Some od => do s1 <- n_assign_next s (nslot s si) od; Ok (s1, OD)
      | None => Ok (s, OX)
      end
  | NNext si d =>
      match nslot s si with
      | Some o => do x <- nlive s o;              (* r[s].instance()->next *)
                  do s1 <- n_assign_ptr s (nnext x) d; Ok (s1, OD)
      | None => Ok (s, OX)
      end
  end.

Definition nstep (s : nst) (o : nop) : res (nst * out) :=
  let s := nclear_log s in
  if nguard (nhs s) o then nexec s o else Ok (s, OX).

(* ---------- observation ---------- *)
Inductive ndisp := NLive (c : N) (nx : option nat) | NDead.
Definition ndisp_obj (x : nobj) : ndisp := if ndead x then NDead else NLive (ncnt x) (nnext x).

Inductive nobs :=
| NObs (o : out) (d : list ndisp) (h : list (option nat)) (e : list ev)
| NObsFault.

Definition nobserve (s : nst) (o : out) : nobs := NObs o (map ndisp_obj (nobjs s)) (nhs s) (rev (nlog s)).

Fixpoint nrun (s : nst) (ops : list nop) : list nobs * option nst :=
  match ops with
  | [] => ([], Some s)
  | o :: r =>
    match nstep s o with
    | Ok (s1, t) => let '(l, f) := nrun s1 r in (nobserve s1 t :: l, f)
    | _ => ([NObsFault], None)
    end
  end.

Fixpoint nleak_from (s : nst) (l : list nobj) (i : nat) : bool :=
  match l with
  | [] => false
  | x :: t => (negb (ndead x) && (nheld s i =? 0)%N) || nleak_from s t (S i)
  end.
(* an object that is neither freed nor reachable through any handle: what LeakSanitizer reports *)
Definition nleaked (s : nst) : bool := nleak_from s (nobjs s) 0.

Definition ninit : nst := mknst [] (repeat None NSLOT) [] [].
