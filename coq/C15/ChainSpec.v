(* C15/ChainSpec.v — what the property says for objects that own a handle on another object of their family.

   NO counter, NO destruction flag.  The state is: for every object created so far the handle it owns (its
   [next]; the record is never erased) and what every slot holds.  Derived from the handles only:
     - the handles on object i = slots holding i + EXISTING objects that own a handle on i — the owned handle
       is a handle like any other;
     - object i exists exactly as long as that number is not 0: never destroyed earlier, never later;
     - an assignment (slot := slot, slot := next of the object a slot holds, next := slot) makes the target hold
       what the source holds.  Nothing else: what happens to the old referent FOLLOWS from the handles.
   An object owns handles on objects created before it only (the harness guard), so existence is computed from
   the youngest object downwards ([ctab], structural recursion). *)
From MptV Require Import Base.Mem C15.RefcountModel C15.RefcountSpec C15.ChainModel.
Local Open Scope nat_scope.

Record csst := mkcs { cnx : list (option nat); cshs : list (option nat) }.

(* handles on i owned by the objects of [t] that exist ([r] = their handle totals) *)
Fixpoint cowned (t : list (option nat)) (r : list nat) (i : nat) : nat :=
  match t, r with
  | nx :: t', a :: r' => (if 0 <? a then cnt (o2l nx) i else 0) + cowned t' r' i
  | _, _ => 0
  end.

(* [l] = the owned handles of the objects i, i+1, ...; result = the number of handles on each of them *)
Fixpoint ctab (sl : list nat) (i : nat) (l : list (option nat)) : list nat :=
  match l with
  | [] => []
  | _ :: t => let r := ctab sl (S i) t in (cnt sl i + cowned t r i) :: r
  end.

Definition cslots (s : csst) : list nat := flat_map o2l (cshs s).
Definition ctotal (s : csst) (o : nat) : nat := nth o (ctab (cslots s) 0 (cnx s)) 0.
Definition calive (s : csst) (o : nat) : bool := 0 <? ctotal s o.
(* may one more handle be taken: the multiset must stay representable *)
Definition cshareable (s : csst) (o : nat) : bool := (N.of_nat (ctotal s o) <? CMAX)%N.
Definition cshareable_opt (s : csst) (v : option nat) : bool :=
  match v with Some o => cshareable s o | None => true end.

Definition csslot (s : csst) (i : nat) : option nat := nth i (cshs s) None.
Definition csnext (s : csst) (o : nat) : option nat := nth o (cnx s) None.
Definition csput (s : csst) (d : nat) (v : option nat) : csst := mkcs (cnx s) (set_nth d v (cshs s)).

(* slot d := v (a handle that cannot be shared leaves the target empty) *)
Definition cs_assign (s : csst) (v : option nat) (d : nat) : csst :=
  if eq_opt v (csslot s d) then s else csput s d (if cshareable_opt s v then v else None).

Definition csexec (s : csst) (o : nop) : csst * out :=
  match o with
  | NNew d => (csput (mkcs (cnx s ++ [None]) (cshs s)) d (Some (length (cnx s))), OD)
  | NAssign si d => (cs_assign s (csslot s si) d, OD)
  | NCopy si d => let s1 := csput s d None in (cs_assign s1 (csslot s1 si) d, OD)
  | NMove si d | NSetInst si d | NDetach si d => let v := csslot s si in (csput (csput s si None) d v, OD)
  | NDrop d | NUnref d => (csput s d None, OD)
  | NAddref si d =>
      match csslot s si with
      | Some o => if cshareable s o then (csput s d (Some o), ORet (N.of_nat (ctotal s o) + 1)%N) else (s, ORet 0)
      | None => (s, OX)
      end
  | NSetNext si d =>                     (* next of the object slot d holds := what slot si holds *)
      match csslot s d with
      | Some od =>
          let v := csslot s si in
          if eq_opt v (csnext s od) then (s, OD)
          else (mkcs (set_nth od (if cshareable_opt s v then v else None) (cnx s)) (cshs s), OD)
      | None => (s, OX)
      end
  | NNext si d =>                        (* slot d := next of the object slot si holds *)
      match csslot s si with
      | Some o => (cs_assign s (csnext s o) d, OD)
      | None => (s, OX)
      end
  end.

Definition csstep (s : csst) (o : nop) : csst * out :=
  if nguard (cshs s) o then csexec s o else (s, OX).

Fixpoint csdisp_from (s : csst) (l : list (option nat)) (i : nat) : list ndisp :=
  match l with
  | [] => []
  | nx :: t => (if calive s i then NLive (N.of_nat (ctotal s i)) nx else NDead) :: csdisp_from s t (S i)
  end.

Definition csobserve (s : csst) (o : out) : nobs := NObs o (csdisp_from s (cnx s) 0) (cshs s) [].

Fixpoint csrun (s : csst) (ops : list nop) : list nobs * csst :=
  match ops with
  | [] => ([], s)
  | o :: r =>
    let '(s1, t) := csstep s o in
    let '(l, f) := csrun s1 r in (csobserve s1 t :: l, f)
  end.

Definition csinit : csst := mkcs [] (repeat None NSLOT).

(* no handle is ever held outside slots and objects, and ownership is acyclic: an existing object is reachable
   from a slot, LeakSanitizer has nothing to report *)
Definition csleaked (s : csst) : bool := false.
