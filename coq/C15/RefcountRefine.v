(* C15/RefcountRefine.v — the refinement theorems and what follows from them for every history:
   the mechanism model (counters, destruction flags, vtable calls) refines the handle-multiset
   specification (no counter; alive / count / shareable derived from the handles) step by step. *)
From MptV Require Import Base.Mem C15.RefcountModel C15.RefcountSpec C15.RefcountCounter C15.RefcountInv
  C15.RefcountSteps C15.RefcountFr C15.RefcountOps C15.RefcountRun C15.RefcountRel C15.RefcountFrame C15.RefcountSim.
Local Open Scope nat_scope.

(* ---------- the abstraction FUNCTION commutes with the step, up to records of destroyed objects ----------
   The specification never erases anything: a destroyed object keeps its record (kind, owned handle); the
   record just is not counted any more ([owner_alive]).  The model clears the owned handle of a destroyed
   object.  [sclean] erases what the specification does not count. *)
Fixpoint sclean_from (ss : sst) (l : list sobj) (i : nat) : list sobj :=
  match l with
  | [] => []
  | y :: t => (if salive ss i then y else mksobj (skind y) 0%N None) :: sclean_from ss t (S i)
  end.
Definition sclean (ss : sst) : sst := mksst (sclean_from ss (sobjs ss) 0) (shs ss).

Lemma abs_sclean_from s ss : Refines s ss -> forall l l' i, Forall2 orel l l' ->
  (forall j x, nth_error l j = Some x -> nth_error (objs s) (i + j) = Some x) ->
  map abs_obj l = sclean_from ss l' i.
Proof.
  intros RF l l' i F. revert i. induction F as [|x y l l' Hxy F IH]; intros i Hl; [reflexivity|].
  cbn [map sclean_from]. f_equal.
  - assert (E : nth_error (objs s) i = Some x) by (specialize (Hl 0 x eq_refl); rewrite Nat.add_0_r in Hl; exact Hl).
    rewrite (salive_ref s ss RF i x E). destruct Hxy as (Ky & Xy & _ & Iy). unfold abs_obj.
    destruct (odead x) eqn:D; cbn [negb].
    + pose proof (inv_obj s (proj1 (proj1 RF)) i x E) as (_ & _ & C3). rewrite D in C3. destruct C3 as (-> & _ & -> & _).
      rewrite Ky. reflexivity.
    + destruct y as [k e inn]. cbn [skind sext sinner] in *. rewrite Ky, Xy, (Iy eq_refl). reflexivity.
  - apply IH. intros j x0 Ej. replace (S i + j) with (i + S j) by lia. apply Hl. exact Ej.
Qed.

Lemma abs_sclean s ss : Refines s ss -> abs s = sclean ss.
Proof.
  intros RF. pose proof RF as (_ & HS & K). unfold abs, sclean. rewrite HS. f_equal.
  apply (abs_sclean_from s ss RF (objs s) (sobjs ss) 0 K). intros j x E; exact E.
Qed.

(* a model state: invariant, no handle in a local, static instances never forced *)
Definition Wf (s : st) : Prop := Good s /\ static_unforced s.

Lemma Wf_refines s : Wf s -> Refines s (abs s).
Proof. intros [G SU]. apply Refines_abs; assumption. Qed.
Lemma Refines_wf s ss : Refines s ss -> Wf s.
Proof. intros RF. split; [apply RF|apply (Refines_static s ss RF)]. Qed.

(* abs (model step) = clean (spec step (abs state)), same output *)
Lemma step_commutes_l s o : Wf s ->
  exists s', step s o = Ok (s', snd (sstep (abs s) o)) /\ Wf s' /\
    abs s' = sclean (fst (sstep (abs s) o)) /\ Refines s' (fst (sstep (abs s) o)).
Proof.
  intros W. destruct (sim_step s (abs s) o (Wf_refines s W)) as (s' & E & RF').
  exists s'. split; [exact E|]. split; [apply (Refines_wf _ _ RF')|]. split; [apply abs_sclean, RF'|exact RF'].
Qed.

(* ---------- every history ---------- *)
Lemma history_refines_l : forall ops,
  map strip (fst (mrun init ops)) = fst (srun sinit ops) /\
  exists s, final init ops = Some s /\ Refines s (snd (srun sinit ops)).
Proof. intros ops. apply (sim_run ops init sinit Refines_init). Qed.

Lemma reached_refines ops s : final init ops = Some s -> Refines s (snd (srun sinit ops)).
Proof. intros F. destruct (history_refines_l ops) as (_ & s' & F' & RF). rewrite F in F'. injection F' as <-. exact RF. Qed.

Lemma history_observation_l : forall ops s, final init ops = Some s ->
  forall t, sobserve (snd (srun sinit ops)) t = strip (observe s t) /\ sobserve (abs s) t = strip (observe s t).
Proof.
  intros ops s F t. pose proof (reached_refines ops s F) as RF. split; [apply (observe_ref s _ RF)|].
  apply (observe_ref s (abs s) (Wf_refines s (Refines_wf _ _ RF))).
Qed.

Lemma history_leak_l : forall ops s, final init ops = Some s ->
  sleaked (snd (srun sinit ops)) = leaked s /\ sleaked (abs s) = leaked s.
Proof.
  intros ops s F. pose proof (reached_refines ops s F) as RF. split; [apply (sleaked_ref s _ RF)|].
  apply (sleaked_ref s (abs s) (Wf_refines s (Refines_wf _ _ RF))).
Qed.

(* destroyed exactly when the last handle is dropped — "last handle" judged by the specification, which
   got its handles by running its OWN steps over the same history and keeps no counter at all *)
Lemma destroyed_iff_no_handle_l : forall ops, exists s, final init ops = Some s /\
  length (objs s) = length (sobjs (snd (srun sinit ops))) /\
  forall o x, nth_error (objs s) o = Some x ->
    odead x = negb (salive (snd (srun sinit ops)) o) /\
    (is_static (okind x) = false -> (odead x = true <-> stotal (snd (srun sinit ops)) o = 0%N)) /\
    (odead x = false -> cls_of (okind x) = Counted -> ocnt x = stotal (snd (srun sinit ops)) o).
Proof.
  intros ops. destruct (history_refines_l ops) as (_ & s & F & RF). exists s. split; [exact F|].
  pose proof RF as ((I & P) & HS & K). split; [symmetry; apply Sk_len, K|].
  intros o x E. split; [|split].
  - rewrite (salive_ref s _ RF o x E). symmetry. apply negb_involutive.
  - intros NS. rewrite (stotal_ref s _ RF o x E). pose proof (inv_obj s I o x E) as (_ & _ & C3).
    destruct (odead x).
    + destruct C3 as (_ & Z & Ze & _). split; [intros _; lia|reflexivity].
    + split; [discriminate|]. intros Z. unfold is_static in NS.
      destruct (cls_of (okind x)); [destruct C3 as (Hc & H0 & _); lia|destruct C3 as [H1 _]; lia|discriminate].
  - intros D Kc. destruct (stotal_cnt s _ RF o x E D Kc) as (-> & _). reflexivity.
Qed.

(* ---------- a share that cannot be counted is refused and changes nothing observable ---------- *)
Definition share_fail (o : op) : option out :=
  match o with
  | OAddref _ _ => Some (ORet 0)
  | OConv _ _ | ORefInit _ _ _ | ODefer _ _ => Some OE
  | _ => None
  end.
Definition share_src (o : op) : option nat :=
  match o with
  | OAddref si _ | OConv si _ | ORefInit _ si _ | ODefer si _ => Some si
  | _ => None
  end.

Lemma refused_share_l s ss op si b x t :
  Refines s ss -> share_src op = Some si -> share_fail op = Some t ->
  slot s si = Some b -> nth_error (objs s) b = Some x ->
  (cls_of (okind x) = Unique \/ (cls_of (okind x) = Counted /\ ocnt x = CMAX)) ->
  guard (hs s) (kind_at s) (held s) op = true ->
  exists s', step s op = Ok (s', t) /\ Refines s' ss /\ strip (observe s' t) = strip (observe (clear_log s) t).
Proof.
  intros RF Hsrc Hfail S E Hk Hg. pose proof RF as ((I & P) & HS & K).
  destruct (inv_live s b I (H3_slot s si b S)) as (x' & E' & D). rewrite E in E'. injection E' as <-.
  assert (NSh : shareable ss b = false).
  { rewrite (shareable_ref s ss RF b x E D). destruct Hk as [->|[-> ->]]; reflexivity. }
  destruct (sim_step s ss op RF) as (s' & Es & RF').
  assert (Q : sstep ss op = (ss, t)).
  { unfold sstep. rewrite (guard_ref s ss op RF), Hg.
    destruct op; try discriminate; cbn [share_src share_fail] in *; injection Hsrc as ->; injection Hfail as <-;
      cbn [sexec]; unfold s_share; rewrite (sslot_ref s ss RF), S; cbn [shareable_opt]; rewrite NSh; reflexivity. }
  rewrite Q in Es, RF'. cbn [fst snd] in *. exists s'. split; [exact Es|]. split; [exact RF'|].
  rewrite <- (observe_ref s' ss RF' t), <- (observe_ref (clear_log s) ss (Refines_clear s ss RF) t). reflexivity.
Qed.

(* ---------- replacing a held reference: all three assignment forms, all object kinds ----------
   the target slot afterwards holds what the source slot holds, every other slot is unchanged: the old
   referent lost exactly one slot handle, the new one gained exactly one; every counter and destruction
   flag of the resulting state is again what the handles say (refinement) *)
Definition assign_op (o : op) : option (nat * nat) :=
  match o with
  | OConv si d | OArrClone si d | XAssign si d => Some (si, d)
  | _ => None
  end.

Lemma in_slots_set (l : list (option nat)) d v o : d < length l ->
  cnt (flat_map o2l (set_nth d v l)) o + ind (nth d l None) o = cnt (flat_map o2l l) o + ind v o.
Proof.
  intros Hd. pose proof (cnt_flat_set_nth o2l l d v (nth d l None) o (nth_error_nth' l d None Hd)) as C.
  unfold ind. lia.
Qed.

Lemma assign_l s ss op si d :
  Refines s ss -> assign_op op = Some (si, d) ->
  shareable_opt ss (slot s si) = true ->
  tmismatch (kind_at s) (slot s si) (slot s d) = false ->
  guard (hs s) (kind_at s) (held s) op = true ->
  exists s' t, step s op = Ok (s', t) /\ t <> OE /\ Refines s' (sput ss d (slot s si)) /\
    hs s' = set_nth d (slot s si) (hs s) /\
    forall o, cnt (flat_map o2l (hs s')) o + ind (slot s d) o = cnt (flat_map o2l (hs s)) o + ind (slot s si) o.
Proof.
  intros RF Hop Sh Tm Hg. pose proof RF as ((I & P) & HS & K).
  destruct (sim_step s ss op RF) as (s' & Es & RF').
  assert (Hd : d < NSLOT).
  { destruct op; try discriminate; cbn [assign_op] in Hop; injection Hop as -> ->; cbn [guard] in Hg; split_guard Hg;
      eapply eqb_bound; try eassumption; lia. }
  assert (Q : fst (sstep ss op) = sput ss d (slot s si) /\ snd (sstep ss op) <> OE).
  { unfold sstep. rewrite (guard_ref s ss op RF), Hg.
    destruct op; try discriminate; cbn [assign_op] in Hop; injection Hop as -> ->; cbn [sexec]; unfold s_share;
      rewrite !(sslot_ref s ss RF), ?(tmismatch_ref s ss _ _ K), ?Tm, Sh.
    - split; [reflexivity|discriminate].
    - destruct (eq_opt (slot s si) (slot s d)) eqn:Q; cbn [fst snd]; [|split; [reflexivity|discriminate]].
      split; [|discriminate]. assert (slot s si = slot s d).
      { destruct (slot s si), (slot s d); cbn in Q; try discriminate; [apply Nat.eqb_eq in Q; congruence|reflexivity]. }
      rewrite H. unfold sput, slot. rewrite <- HS, set_nth_nth by (rewrite (Refines_len s ss RF); assumption).
      destruct ss; reflexivity.
    - destruct (eq_opt (slot s si) (slot s d)) eqn:Q; cbn [fst snd]; [|split; [reflexivity|discriminate]].
      split; [|discriminate]. assert (slot s si = slot s d).
      { destruct (slot s si), (slot s d); cbn in Q; try discriminate; [apply Nat.eqb_eq in Q; congruence|reflexivity]. }
      rewrite H. unfold sput, slot. rewrite <- HS, set_nth_nth by (rewrite (Refines_len s ss RF); assumption).
      destruct ss; reflexivity. }
  destruct Q as [Q1 Q2]. rewrite Q1 in RF'. exists s', (snd (sstep ss op)). split; [exact Es|]. split; [exact Q2|].
  split; [exact RF'|].
  assert (H' : hs s' = set_nth d (slot s si) (hs s)) by (rewrite <- (Refines_hs _ _ RF'), <- HS; reflexivity).
  split; [exact H'|]. intros o. rewrite H'. apply in_slots_set. rewrite (inv_len s I). exact Hd.
Qed.

(* ---------- the plot data object: modify / advance / reference-free calls never touch a slot ----------
   whoever shares the stage buffer (an array, another rawdata object, a meta buffer) keeps exactly what it held:
   a modify on a shared buffer gives the OBJECT a new buffer (copy on write) *)
Definition raw_local (o : op) : bool :=
  match o with ORawModify _ | ORawAdvance _ | ORawCall _ _ => true | _ => false end.

Lemma shs_sset_inner ss o v : shs (sset_inner ss o v) = shs ss.
Proof. unfold sset_inner. destruct (nth_error (sobjs ss) o); reflexivity. Qed.

Lemma raw_local_slots_spec ss op : raw_local op = true -> shs (fst (sstep ss op)) = shs ss.
Proof.
  intros H. unfold sstep. destruct (guard _ _ _ op); [|reflexivity].
  destruct op; try discriminate; cbn [sexec]; try reflexivity;
    (destruct (sslot ss m) as [o|]; [|reflexivity]); (destruct (nth_error (sobjs ss) o) as [x|]; [|reflexivity]);
    (destruct (sinner x) as [b|]; [try destruct (stotal ss b <? 2)%N|]); try reflexivity;
    unfold snew; cbn [fst]; rewrite shs_sset_inner; reflexivity.
Qed.

Lemma raw_local_l s ss op : Refines s ss -> raw_local op = true ->
  exists s', step s op = Ok (s', snd (sstep ss op)) /\ Refines s' (fst (sstep ss op)) /\ hs s' = hs s.
Proof.
  intros RF H. destruct (sim_step s ss op RF) as (s' & E & RF'). exists s'. split; [exact E|]. split; [exact RF'|].
  rewrite <- (Refines_hs _ _ RF'), (raw_local_slots_spec ss op H). apply (Refines_hs _ _ RF).
Qed.
