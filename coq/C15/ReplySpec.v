(* C15/ReplySpec.v — the deferrable reply context, handles only.

   The specification keeps NO counter and no destruction flag.  Its state: per created context the size of the id it
   can hold, whether it still has a reply target, and the id of the request still waiting for an answer; what every
   metatype slot holds; what every detached-reply slot holds (the context it keeps alive and the id it took over).
   Derived from the handles:
     - the number of handles on a context = metatype slots + detached replies referring to it,
     - a context exists exactly as long as that number is not 0,
     - defer() hands out a handle iff a request is pending (and one more handle can be counted); the pending id MOVES
       to the detached reply; a refused defer() changes nothing,
     - a reply through a detached handle consumes that handle unless the transport refuses a real message,
     - dropping a metatype handle while other handles remain cuts the reply target (the owner is gone: as coded),
       dropping the LAST handle sends the default reply for a pending id, exactly once, iff a target is left. *)
From MptV Require Import Base.Mem C15.RefcountModel C15.RefcountSpec C15.ReplyModel.
Local Open Scope nat_scope.

Record sctx := mksctx { smax : N; ssend : bool; spend : option (N * N) }.
Record sdh := mksdh { sbase : nat; sdata : option (N * N) }.
Record psst := mkpsst { sctxs : list sctx; sms : list (option nat); sds : list (option sdh); sfail : bool }.

Definition dbl (h : option sdh) : list nat := match h with Some h => [sbase h] | None => [] end.
Definition ptotal (s : psst) (o : nat) : nat := cnt (flat_map o2l (sms s)) o + cnt (flat_map dbl (sds s)) o.
Definition palive (s : psst) (o : nat) : bool := 0 <? ptotal s o.
Definition pshareable (s : psst) (o : nat) : bool := (N.of_nat (ptotal s o) <? CMAX)%N.

Definition smslot (s : psst) (i : nat) : option nat := nth i (sms s) None.
Definition sdslot (s : psst) (i : nat) : option sdh := nth i (sds s) None.
Definition sset_ctx (s : psst) (o : nat) (c : sctx) : psst := mkpsst (set_nth o c (sctxs s)) (sms s) (sds s) (sfail s).
Definition sset_ms (s : psst) (d : nat) (v : option nat) : psst := mkpsst (sctxs s) (set_nth d v (sms s)) (sds s) (sfail s).
Definition sset_ds (s : psst) (d : nat) (v : option sdh) : psst := mkpsst (sctxs s) (sms s) (set_nth d v (sds s)) (sfail s).

(* an answer for the pending id [p] through context [c] *)
Definition s_send (c : sctx) (o : nat) (fail : bool) (p : option (N * N)) (msg : bool) : option (N * N) * pres * list sendev :=
  match p with
  | None => (None, PNeg 1, [])                                   (* nothing waits for an answer *)
  | Some (l, i) =>
      if negb (ssend c) then (None, PR 0, [])                    (* no target: the id is dropped *)
      else if fail then (p, PNeg 5, [mksend o l i msg])          (* transport refused: still pending *)
      else (None, PR 7, [mksend o l i msg])
  end.

Definition psstep (s : psst) (op : pop) : psst * pres * list sendev :=
  match op with
  | PNew d max =>
      if (d <? length (sms s)) && is_none (smslot s d) then
        if (65535 <? max)%N then (s, PE, [])
        else (mkpsst (sctxs s ++ [mksctx max true None]) (set_nth d (Some (length (sctxs s))) (sms s)) (sds s) (sfail s), PD, [])
      else (s, PX, [])
  | PSet i len id =>
      match smslot s i with
      | Some o =>
          match nth_error (sctxs s) o with
          | Some c => if (smax c <? len)%N then (s, PE, [])
                      else (sset_ctx s o (mksctx (smax c) (ssend c) (if (len =? 0)%N then None else Some (len, id))),
                            PR (smax c - len), [])
          | None => (s, PX, [])
          end
      | None => (s, PX, [])
      end
  | PDefer i d =>
      match smslot s i with
      | Some o =>
          if (d <? length (sds s)) && is_none (sdslot s d) then
            match nth_error (sctxs s) o with
            | Some c =>
                match spend c with
                | None => (s, PE, [])                              (* nothing pending: refused, nothing changes *)
                | Some p =>
                    if pshareable s o
                    then (sset_ds (sset_ctx s o (mksctx (smax c) (ssend c) None)) d (Some (mksdh o (Some p))), PD, [])
                    else (s, PE, [])
                end
            | None => (s, PX, [])
            end
          else (s, PX, [])
      | None => (s, PX, [])
      end
  | PSend i msg =>
      match smslot s i with
      | Some o =>
          match nth_error (sctxs s) o with
          | Some c => let '(p, ret, evs) := s_send c o (sfail s) (spend c) msg in
                      (sset_ctx s o (mksctx (smax c) (ssend c) p), ret, evs)
          | None => (s, PX, [])
          end
      | None => (s, PX, [])
      end
  | PReply d msg =>
      match sdslot s d with
      | Some h =>
          match nth_error (sctxs s) (sbase h) with
          | Some c =>
              let '(p, ret, evs) := s_send c (sbase h) (sfail s) (sdata h) msg in
              if is_neg ret && msg then (sset_ds s d (Some (mksdh (sbase h) p)), ret, evs)   (* handle kept *)
              else (sset_ds s d None, if is_neg ret then PR 0 else ret, evs)                 (* handle consumed *)
          | None => (s, PX, [])
          end
      | None => (s, PX, [])
      end
  | PAddref i d =>
      match smslot s i with
      | Some o =>
          if (d <? length (sms s)) && is_none (smslot s d) then
            if pshareable s o then (sset_ms s d (Some o), PR (N.of_nat (ptotal s o) + 1), [])
            else (s, PR 0, [])
          else (s, PX, [])
      | None => (s, PX, [])
      end
  | PUnref i =>
      match smslot s i with
      | Some o =>
          match nth_error (sctxs s) o with
          | Some c =>
              let s1 := sset_ms s i None in
              if palive s1 o then (sset_ctx s1 o (mksctx (smax c) false (spend c)), PD, [])   (* other handles remain *)
              else (s1, PD, match spend c with
                            | Some (l, id) => if ssend c then [mksend o l id false] else []   (* default reply *)
                            | None => []
                            end)
          | None => (s, PX, [])
          end
      | None => (s, PX, [])
      end
  | PFail b => (mkpsst (sctxs s) (sms s) (sds s) b, PD, [])
  end.

Fixpoint psdisp_from (s : psst) (l : list sctx) (i : nat) : list pdisp :=
  match l with
  | [] => []
  | c :: t => (if palive s i then PLive (N.of_nat (ptotal s i)) (ssend c) (spend c) else PDead) :: psdisp_from s t (S i)
  end.
Definition show_sdh (h : sdh) : nat * option (N * N) := (sbase h, sdata h).
Definition psobserve (s : psst) (r : pres) (e : list sendev) : pobs :=
  PObs r e (psdisp_from s (sctxs s) 0) (sms s) (map (option_map show_sdh) (sds s)).

Fixpoint psrun (s : psst) (ops : list pop) : list pobs * psst :=
  match ops with
  | [] => ([], s)
  | o :: r =>
    let '(s1, t, e) := psstep s o in
    let '(l, f) := psrun s1 r in (psobserve s1 t e :: l, f)
  end.

(* an object exists iff a handle on it exists: nothing can be left over *)
Definition psleaked (s : psst) : bool := false.

Definition psinit : psst := mkpsst [] (repeat None 6) (repeat None 3) false.
