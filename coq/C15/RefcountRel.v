(* C15/RefcountRel.v — the refinement relation between a state of the mechanism model and a state of the
   handle-multiset specification, and what the specification DERIVES from a related state:
   held / total handle count, alive, shareable, the displayed observation, the leak verdict, the
   harness guard — each equals what the model reads from its counter fields and destruction flags. *)
From MptV Require Import Base.Mem C15.RefcountModel C15.RefcountSpec C15.RefcountCounter C15.RefcountInv
  C15.RefcountSteps C15.RefcountOps C15.RefcountRun.
Local Open Scope nat_scope.

(* object x of the model is recorded as y by the specification: same kind, same handles held by the
   environment; while x exists the same owned handle (the specification never erases the record of a
   destroyed object, it just stops counting what that object owned) *)
Definition orel (x : obj) (y : sobj) : Prop :=
  skind y = okind x /\ sext y = oext x /\ (is_static (okind x) = true -> oext x = 0%N) /\
  (odead x = false -> sinner y = oinner x).

Definition Sk (s : st) (ss : sst) : Prop := Forall2 orel (objs s) (sobjs ss).

(* the model state s refines the specification state ss *)
Definition Refines (s : st) (ss : sst) : Prop := Good s /\ shs ss = hs s /\ Sk s ss.

(* ---------- Forall2, pointwise ---------- *)
Lemma F2_nth_l {A B} (R : A -> B -> Prop) l l' : Forall2 R l l' ->
  forall o x, nth_error l o = Some x -> exists y, nth_error l' o = Some y /\ R x y.
Proof.
  induction 1 as [|a b l l' Hab H IH]; intros o x E; [destruct o; discriminate|].
  destruct o; cbn [nth_error] in *; [inversion E; subst; eauto|apply IH, E].
Qed.
Lemma F2_nth_r {A B} (R : A -> B -> Prop) l l' : Forall2 R l l' ->
  forall o y, nth_error l' o = Some y -> exists x, nth_error l o = Some x /\ R x y.
Proof.
  induction 1 as [|a b l l' Hab H IH]; intros o x E; [destruct o; discriminate|].
  destruct o; cbn [nth_error] in *; [inversion E; subst; eauto|apply IH, E].
Qed.
Lemma F2_length {A B} (R : A -> B -> Prop) l l' : Forall2 R l l' -> length l = length l'.
Proof. induction 1; cbn; congruence. Qed.
Lemma F2_of_nth {A B} (R : A -> B -> Prop) l : forall l', length l = length l' ->
  (forall o x y, nth_error l o = Some x -> nth_error l' o = Some y -> R x y) -> Forall2 R l l'.
Proof.
  induction l as [|a l IH]; intros [|b l'] L H; try discriminate; constructor.
  - apply (H 0); reflexivity.
  - apply IH; [cbn in L; congruence|]. intros o x y E E'. apply (H (S o)); assumption.
Qed.
Lemma F2_none {A B} (R : A -> B -> Prop) l l' o : Forall2 R l l' -> nth_error l o = None -> nth_error l' o = None.
Proof. intros F E. apply nth_error_None. rewrite <- (F2_length R l l' F). apply nth_error_None, E. Qed.

Lemma Sk_l s ss o x : Sk s ss -> nth_error (objs s) o = Some x -> exists y, nth_error (sobjs ss) o = Some y /\ orel x y.
Proof. intros K. apply (F2_nth_l orel _ _ K). Qed.
Lemma Sk_r s ss o y : Sk s ss -> nth_error (sobjs ss) o = Some y -> exists x, nth_error (objs s) o = Some x /\ orel x y.
Proof. intros K. apply (F2_nth_r orel _ _ K). Qed.
Lemma Sk_len s ss : Sk s ss -> length (sobjs ss) = length (objs s).
Proof. intros K. symmetry. apply (F2_length orel _ _ K). Qed.

Lemma kind_at_ref s ss o : Sk s ss -> skind_at ss o = kind_at s o.
Proof.
  intros K. unfold skind_at, kind_at. destruct (nth_error (objs s) o) as [x|] eqn:E.
  - destruct (Sk_l s ss o x K E) as (y & Ey & Ky & _). rewrite Ey, Ky. reflexivity.
  - rewrite (F2_none orel _ _ o K E). reflexivity.
Qed.

(* ---------- the handle counts the specification derives ---------- *)
Section derived.
Variables (s : st) (ss : sst).
Hypothesis RF : Refines s ss.

Let G : Good s := proj1 RF.
Let I : Inv s := proj1 G.
Let P : pend s = [] := proj2 G.
Let HS : shs ss = hs s := proj1 (proj2 RF).
Let K : Sk s ss := proj2 (proj2 RF).

Lemma in_slots_ref o : in_slots ss o = cnt (flat_map o2l (hs s)) o.
Proof. unfold in_slots. rewrite HS. reflexivity. Qed.

Lemma owner_not_owned' c x b : nth_error (objs s) c = Some x -> oinner x = Some b ->
  cnt (flat_map oin (objs s)) c = 0.
Proof.
  intros E Hi. destruct (cnt (flat_map oin (objs s)) c) eqn:Z; [reflexivity|].
  assert (Hin : In c (flat_map oin (objs s))) by (apply cnt_pos_in; lia).
  apply in_flat_map in Hin. destruct Hin as (x' & Hx' & Hc).
  apply In_nth_error in Hx'. destruct Hx' as (c' & E').
  unfold oin in Hc. destruct (oinner x') as [c0|] eqn:Hi'; [|destruct Hc].
  destruct Hc as [->|[]].
  pose proof (inv_obj s I c' x' E') as (_ & C2 & _). destruct (C2 c Hi') as (y & Ey & By).
  rewrite E in Ey. inversion Ey; subst y.
  pose proof (inv_obj s I c x E) as (C1 & _ & _). rewrite (C1 By) in Hi. discriminate.
Qed.

(* an object that exists and owns a handle is counted as an owner; a destroyed one is not *)
Lemma owner_alive_ref c x y : nth_error (objs s) c = Some x -> orel x y ->
  cnt (if owner_alive ss c y then o2l (sinner y) else []) = cnt (oin x).
Proof.
  intros E (Ky & Xy & _ & Iy). unfold owner_alive, oin. rewrite Ky, Xy.
  pose proof (inv_obj s I c x E) as (_ & _ & C3).
  destruct (odead x) eqn:D.
  - destruct C3 as (Hi & Z & Ze & NS). rewrite NS, Ze, Hi. cbn [orb].
    assert (in_slots ss c = 0) by (rewrite in_slots_ref; unfold H3 in Z; lia).
    rewrite H. reflexivity.
  - rewrite (Iy eq_refl). destruct (oinner x) as [b|] eqn:Hi; [|destruct (_ || _); reflexivity].
    pose proof (owner_not_owned' c x b E Hi) as Z.
    assert (HH : H3 s c = in_slots ss c) by (unfold H3; rewrite P, Z, in_slots_ref; cbn [cnt count_occ]; lia).
    unfold is_static. destruct (cls_of (okind x)); cbn [orb].
    + destruct C3 as (Hc & H0 & _). replace (0 <? N.of_nat (in_slots ss c) + oext x)%N with true; [reflexivity|].
      symmetry. apply N.ltb_lt. rewrite <- HH. lia.
    + destruct C3 as (H1 & _). replace (0 <? N.of_nat (in_slots ss c) + oext x)%N with true; [reflexivity|].
      symmetry. apply N.ltb_lt. rewrite <- HH. lia.
    + reflexivity.
Qed.

Lemma owned_from_ref o : forall l l' i, Forall2 orel l l' ->
  (forall j x, nth_error l j = Some x -> nth_error (objs s) (i + j) = Some x) ->
  owned_from ss l' i o = cnt (flat_map oin l) o.
Proof.
  intros l l' i F. revert i. induction F as [|x y l l' Hxy F IH]; intros i Hl; [reflexivity|].
  cbn [owned_from flat_map]. rewrite cnt_app, (IH (S i)).
  2:{ intros j x0 Ej. replace (S i + j) with (i + S j) by lia. apply Hl. exact Ej. }
  f_equal. assert (E : nth_error (objs s) i = Some x) by (specialize (Hl 0 x eq_refl); rewrite Nat.add_0_r in Hl; exact Hl).
  pose proof (owner_alive_ref i x y E Hxy) as Q. destruct (owner_alive ss i y); rewrite <- Q; reflexivity.
Qed.

Lemma sheld_ref o : sheld ss o = N.of_nat (H3 s o).
Proof.
  unfold sheld. rewrite (owned_from_ref o (objs s) (sobjs ss) 0 K) by (intros j x E; exact E).
  unfold H3. rewrite P, in_slots_ref. cbn [cnt count_occ]. f_equal.
Qed.

Lemma held_ref o : sheld ss o = held s o.
Proof. rewrite held_H3. apply sheld_ref. Qed.

Lemma stotal_ref o x : nth_error (objs s) o = Some x -> stotal ss o = (N.of_nat (H3 s o) + oext x)%N.
Proof.
  intros E. unfold stotal. rewrite sheld_ref. destruct (Sk_l s ss o x K E) as (y & Ey & _ & Xy & _).
  rewrite Ey, Xy. reflexivity.
Qed.

(* a counted object that exists: the specification's total is the counter field *)
Lemma stotal_cnt o x : nth_error (objs s) o = Some x -> odead x = false -> cls_of (okind x) = Counted ->
  stotal ss o = ocnt x /\ (0 < ocnt x)%N /\ (ocnt x < W)%N.
Proof.
  intros E D Kc. rewrite (stotal_ref o x E). pose proof (inv_obj s I o x E) as (_ & _ & C3).
  rewrite D, Kc in C3. destruct C3 as (Hc & H0 & Hw). rewrite <- Hc. auto.
Qed.

Lemma salive_ref o x : nth_error (objs s) o = Some x -> salive ss o = negb (odead x).
Proof.
  intros E. unfold salive. destruct (Sk_l s ss o x K E) as (y & Ey & Ky & _). rewrite Ey, Ky.
  rewrite (stotal_ref o x E). pose proof (inv_obj s I o x E) as (_ & _ & C3).
  destruct (odead x).
  - destruct C3 as (_ & Z & Ze & NS). rewrite NS, Z, Ze. reflexivity.
  - unfold is_static. destruct (cls_of (okind x)); cbn [orb negb].
    + destruct C3 as (Hc & H0 & _). apply N.ltb_lt. lia.
    + destruct C3 as (H1 & He). apply N.ltb_lt. lia.
    + reflexivity.
Qed.

Lemma disp_ref o x y : nth_error (objs s) o = Some x -> skind y = okind x ->
  (if salive ss o
   then match cls_of (skind y) with Counted => DCnt (stotal ss o) | Unique => DUni | Static => DSta end
   else DDead) = disp_obj x.
Proof.
  intros E Ky. rewrite (salive_ref o x E), Ky. unfold disp_obj. destruct (odead x) eqn:D; cbn [negb]; [reflexivity|].
  destruct (cls_of (okind x)) eqn:Kc; try reflexivity.
  destruct (stotal_cnt o x E D Kc) as (-> & _). reflexivity.
Qed.

Lemma sdisp_from_ref : forall l l' i, Forall2 orel l l' ->
  (forall j x, nth_error l j = Some x -> nth_error (objs s) (i + j) = Some x) ->
  sdisp_from ss l' i = map disp_obj l.
Proof.
  intros l l' i F. revert i. induction F as [|x y l l' Hxy F IH]; intros i Hl; [reflexivity|].
  cbn [map sdisp_from]. f_equal.
  - apply (disp_ref i x y); [|apply Hxy]. specialize (Hl 0 x eq_refl). rewrite Nat.add_0_r in Hl. exact Hl.
  - apply IH. intros j x0 Ej. replace (S i + j) with (i + S j) by lia. apply Hl. exact Ej.
Qed.

Definition strip (r : obs) : obs := match r with Obs o d h _ => Obs o d h [] | ObsFault => ObsFault end.

(* the observation the specification derives = the observation the model reads (call log aside) *)
Lemma observe_ref t : sobserve ss t = strip (observe s t).
Proof.
  unfold sobserve, observe, strip. rewrite HS.
  rewrite (sdisp_from_ref (objs s) (sobjs ss) 0 K) by (intros j x E; exact E). reflexivity.
Qed.

Lemma sleak_from_ref : forall l l' i, Forall2 orel l l' ->
  (forall j x, nth_error l j = Some x -> nth_error (objs s) (i + j) = Some x) ->
  sleak_from ss l' i = leak_from s l i.
Proof.
  intros l l' i F. revert i. induction F as [|x y l l' Hxy F IH]; intros i Hl; [reflexivity|].
  cbn [sleak_from leak_from].
  assert (E : nth_error (objs s) i = Some x) by (specialize (Hl 0 x eq_refl); rewrite Nat.add_0_r in Hl; exact Hl).
  rewrite (IH (S i)) by (intros j x0 Ej; replace (S i + j) with (i + S j) by lia; apply Hl; exact Ej).
  rewrite (held_ref i), (salive_ref i x E). destruct Hxy as (-> & _). reflexivity.
Qed.

Lemma sleaked_ref : sleaked ss = leaked s.
Proof. unfold sleaked, leaked. apply (sleak_from_ref (objs s) (sobjs ss) 0 K). intros j x E; exact E. Qed.

Lemma sslot_ref i : sslot ss i = slot s i.
Proof. unfold sslot, slot. rewrite HS. reflexivity. Qed.

(* may one more handle be taken: the specification's answer is what addref will answer *)
Lemma shareable_ref o x : nth_error (objs s) o = Some x -> odead x = false ->
  shareable ss o = match cls_of (okind x) with
                   | Counted => (ocnt x <? CMAX)%N | Unique => false | Static => true end.
Proof.
  intros E D. unfold shareable. rewrite (kind_at_ref s ss o K). unfold kind_at. rewrite E.
  destruct (cls_of (okind x)) eqn:Kc; try reflexivity.
  destruct (stotal_cnt o x E D Kc) as (-> & _). reflexivity.
Qed.
End derived.

(* ---------- the harness guard depends on the state only through slots, kinds and held counts ---------- *)
Lemma kind_is_ext kd kd' v p : (forall o, kd o = kd' o) -> kind_is kd v p = kind_is kd' v p.
Proof. intros H. unfold kind_is. destruct v; [rewrite H|]; reflexivity. Qed.

Lemma guard_ext h kd kd' hld hld' o : (forall a, kd a = kd' a) -> (forall a, hld a = hld' a) ->
  guard h kd hld o = guard h kd' hld' o.
Proof.
  intros Hk Hh. destruct o; cbn [guard]; rewrite ?(kind_is_ext kd kd' _ _ Hk); try reflexivity.
  destruct (nth s h None); [rewrite Hh|]; reflexivity.
Qed.

Lemma guard_ref s ss o : Refines s ss -> guard (shs ss) (skind_at ss) (sheld ss) o = guard (hs s) (kind_at s) (held s) o.
Proof.
  intros RF. pose proof RF as (_ & HS & K). rewrite HS. apply guard_ext.
  - intros a. apply kind_at_ref, K.
  - intros a. apply (held_ref s ss RF).
Qed.

(* ---------- the abstraction function is one way to obtain a related state ---------- *)
Definition abs_obj (x : obj) : sobj := mksobj (okind x) (oext x) (oinner x).
(* forget counters, destruction flags, locals, log: keep kinds, forced handles, owned handles, slots *)
Definition abs (s : st) : sst := mksst (map abs_obj (objs s)) (hs s).

Definition static_unforced (s : st) : Prop :=
  forall o x, nth_error (objs s) o = Some x -> is_static (okind x) = true -> oext x = 0%N.

Lemma Refines_abs s : Good s -> static_unforced s -> Refines s (abs s).
Proof.
  intros G SU. split; [assumption|]. split; [reflexivity|]. unfold Sk, abs. cbn [sobjs].
  apply F2_of_nth; [rewrite map_length; reflexivity|].
  intros o x y E Ey. rewrite nth_error_map, E in Ey. inversion Ey; subst y.
  unfold orel, abs_obj. cbn [skind sext sinner]. repeat split. intros; eapply SU; eassumption.
Qed.

Lemma Refines_static s ss : Refines s ss -> static_unforced s.
Proof. intros (_ & _ & K) o x E S. destruct (Sk_l s ss o x K E) as (y & _ & _ & _ & Z & _). auto. Qed.
