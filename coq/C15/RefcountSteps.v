(* C15/RefcountSteps.v — every vtable call and slot move preserves the invariant. *)
From MptV Require Import Base.Mem C15.RefcountModel C15.RefcountSpec C15.RefcountCounter C15.RefcountInv.
Local Open Scope nat_scope.

Lemma set_nth_same {A} (l : list A) i x : nth_error l i = Some x -> set_nth i x l = l.
Proof.
  revert i; induction l as [|h t IH]; intros i H; [destruct i; discriminate|].
  destruct i; cbn in *; [inversion H; reflexivity|]. f_equal. auto.
Qed.

Lemma set_nth_comm {A} (l : list A) i j x y : i <> j -> set_nth i x (set_nth j y l) = set_nth j y (set_nth i x l).
Proof.
  revert i j; induction l as [|h t IH]; intros i j H; [destruct i, j; reflexivity|].
  destruct i, j; cbn; try reflexivity; [lia|]. f_equal. apply IH. lia.
Qed.

Lemma set_nth_twice {A} (l : list A) i x y : set_nth i x (set_nth i y l) = set_nth i x l.
Proof. revert i; induction l as [|h t IH]; intros [|i]; cbn; try reflexivity. f_equal. apply IH. Qed.

Lemma eqb_ind a o : (if Nat.eqb a o then 1 else 0) = ind (Some a) o.
Proof. symmetry. apply ind_some. Qed.

(* ---------- one object changes ---------- *)
Lemma Inv_upd1 s s' o x x' :
  Inv s ->
  nth_error (objs s) o = Some x ->
  objs s' = set_nth o x' (objs s) ->
  length (hs s') = NSLOT ->
  okind x' = okind x ->
  (forall o', o' <> o -> H3 s' o' = H3 s o') ->
  (is_buf (okind x') = true -> oinner x' = None) ->
  (forall b, oinner x' = Some b -> exists y, nth_error (objs s) b = Some y /\ is_buf (okind y) = true) ->
  (if odead x'
   then oinner x' = None /\ H3 s' o = 0 /\ oext x' = 0%N /\ is_static (okind x') = false
   else match cls_of (okind x') with
        | Counted => ocnt x' = (N.of_nat (H3 s' o) + oext x')%N /\ (0 < ocnt x')%N /\ (ocnt x' < W)%N
        | Unique => H3 s' o = 1 /\ oext x' = 0%N
        | Static => True
        end) ->
  Inv s' /\ same_kinds s s'.
Proof.
  intros I E Eo Hl Hk HH C1 C2 C3.
  assert (Ho : o < length (objs s)) by (apply nth_error_Some; congruence).
  assert (Kb : forall b y, nth_error (objs s) b = Some y -> is_buf (okind y) = true ->
               exists y', nth_error (objs s') b = Some y' /\ is_buf (okind y') = true).
  { intros b y Eb Hb. rewrite Eo, nth_error_set_nth. destruct (Nat.eqb_spec o b) as [->|n].
    - rewrite Eb. exists x'. split; [reflexivity|]. rewrite Hk. congruence.
    - exists y. auto. }
  split.
  - constructor.
    + assumption.
    + intros o' Hp. rewrite Eo, length_set_nth. destruct (Nat.eq_dec o' o) as [->|n]; [assumption|].
      rewrite (HH o' n) in Hp. apply (inv_rng s I o' Hp).
    + intros o' x0. rewrite Eo, nth_error_set_nth. destruct (Nat.eqb_spec o o') as [<-|n].
      * rewrite E. intros X; inversion X; subst x0. split; [assumption|]. split; [|assumption].
        intros b Hb. destruct (C2 b Hb) as (y & Ey & By). apply (Kb b y Ey By).
      * intros E0. destruct (inv_obj s I o' x0 E0) as (A & B & C). split; [assumption|]. split.
        -- intros b Hb. destruct (B b Hb) as (y & Ey & By). apply (Kb b y Ey By).
        -- rewrite (HH o' (not_eq_sym n)). assumption.
  - split; [rewrite Eo, length_set_nth; reflexivity|].
    intros o' x0 E0. rewrite Eo, nth_error_set_nth. destruct (Nat.eqb_spec o o') as [<-|n].
    + rewrite E. exists x'. split; [reflexivity|]. congruence.
    + exists x0. auto.
Qed.

(* the handles owned by objects do not change when one object keeps its owned handle *)
Lemma oin_part_same l o x x' o' :
  nth_error l o = Some x -> oinner x' = oinner x ->
  cnt (flat_map oin (set_nth o x' l)) o' = cnt (flat_map oin l) o'.
Proof.
  intros E Hi. pose proof (cnt_flat_set_nth oin l o x' x o' E) as C.
  unfold oin at 2 4 in C. rewrite Hi in C. lia.
Qed.

Lemma H3_add_pend s o o' : H3 (add_pend s o) o' = (if Nat.eqb o o' then 1 else 0) + H3 s o'.
Proof. unfold H3. cbn [add_pend pend hs objs]. rewrite cnt_cons. lia. Qed.

Lemma H3_del_pend s o o' : In o (pend s) -> H3 (del_pend s o) o' + (if Nat.eqb o o' then 1 else 0) = H3 s o'.
Proof. intros H. unfold H3. cbn [del_pend pend hs objs]. pose proof (cnt_remove_one (pend s) o o' H). lia. Qed.

Lemma H3_set_obj s o x x' o' :
  nth_error (objs s) o = Some x -> oinner x' = oinner x -> H3 (set_obj s o x') o' = H3 s o'.
Proof. intros E Hi. unfold H3. cbn [set_obj pend hs objs]. rewrite (oin_part_same _ o x x' o' E Hi). reflexivity. Qed.

Lemma objs_add_pend s o : objs (add_pend s o) = objs s. Proof. reflexivity. Qed.
Lemma pend_add_pend s o : pend (add_pend s o) = o :: pend s. Proof. reflexivity. Qed.
Lemma pend_del_pend s o : pend (del_pend s o) = remove_one o (pend s). Proof. reflexivity. Qed.
Lemma hs_add_pend s o : hs (add_pend s o) = hs s. Proof. reflexivity. Qed.
Lemma objs_set_obj s o x : objs (set_obj s o x) = set_nth o x (objs s). Proof. reflexivity. Qed.
Lemma hs_set_obj s o x : hs (set_obj s o x) = hs s. Proof. reflexivity. Qed.
Lemma pend_set_obj s o x : pend (set_obj s o x) = pend s. Proof. reflexivity. Qed.
Lemma objs_del_pend s o : objs (del_pend s o) = objs s. Proof. reflexivity. Qed.
Lemma hs_del_pend s o : hs (del_pend s o) = hs s. Proof. reflexivity. Qed.

#[global] Hint Rewrite objs_log hs_log pend_log objs_add_pend hs_add_pend objs_set_obj hs_set_obj pend_set_obj
  objs_del_pend hs_del_pend pend_add_pend pend_del_pend : st.
Ltac simp_st := autorewrite with st.
Ltac fin4 R1 R2 := split; [exact R1 | split; [exact R2 | split; [simp_st; try reflexivity | simp_st; try reflexivity]]].

(* ---------- addref ---------- *)
Lemma m_addref_ok s o : Inv s -> 0 < H3 s o ->
  exists s' r, m_addref s o = Ok (s', r) /\ Inv s' /\ same_kinds s s' /\ hs s' = hs s /\
    pend s' = (if (r =? 0)%N then pend s else o :: pend s).
Proof.
  intros I Hp. destruct (inv_live s o I Hp) as (x & E & D).
  pose proof (inv_obj s I o x E) as (C1 & C2 & C3). rewrite D in C3.
  unfold m_addref. rewrite (live_ok s o x E D). cbn [bind].
  destruct (cls_of (okind x)) eqn:K.
  - destruct C3 as (Hc & Hpos & Hw). rewrite (raise_spec _ Hw). unfold sraise.
    replace (0 <? ocnt x)%N with true by (symmetry; apply N.ltb_lt; assumption). cbn [andb].
    destruct (N.ltb_spec (ocnt x) CMAX) as [Hm|Hm].
    + replace (ocnt x + 1 =? 0)%N with false by (symmetry; apply N.eqb_neq; lia).
      eexists _, _. split; [reflexivity|].
      replace (ocnt x + 1 =? 0)%N with false by (symmetry; apply N.eqb_neq; lia).
      assert (R : Inv (add_pend (log (set_obj s o (with_cnt x (ocnt x + 1)%N)) (okind x) (EAdd o)) o)
                  /\ same_kinds s (add_pend (log (set_obj s o (with_cnt x (ocnt x + 1)%N)) (okind x) (EAdd o)) o)).
      { apply (Inv_upd1 s _ o x (with_cnt x (ocnt x + 1)%N) I E); simp_st;
          cbn [with_cnt okind oinner odead oext ocnt]; try reflexivity; try assumption.
        - apply I.
        - intros o' n. rewrite H3_add_pend, H3_log, (H3_set_obj s o x _ o' E) by reflexivity.
          destruct (Nat.eqb_spec o o'); [congruence|lia].
        - rewrite D, K. rewrite H3_add_pend, H3_log, (H3_set_obj s o x _ o E) by reflexivity.
          rewrite Nat.eqb_refl. rewrite W_val. split; [|split]; lia. }
      destruct R as [R1 R2]. fin4 R1 R2.
    + eexists _, _. split; [reflexivity|]. cbn [N.eqb].
      assert (R : Inv (log (set_obj s o (with_cnt x (ocnt x))) (okind x) (EAdd o))
                  /\ same_kinds s (log (set_obj s o (with_cnt x (ocnt x))) (okind x) (EAdd o))).
      { apply (Inv_upd1 s _ o x (with_cnt x (ocnt x)) I E); simp_st;
          cbn [with_cnt okind oinner odead oext ocnt]; try reflexivity; try assumption.
        - apply I.
        - intros o' n. rewrite H3_log, (H3_set_obj s o x _ o' E) by reflexivity. reflexivity.
        - rewrite D, K. rewrite H3_log, (H3_set_obj s o x _ o E) by reflexivity. auto. }
      destruct R as [R1 R2]. fin4 R1 R2.
  - eexists _, _. split; [reflexivity|]. cbn [N.eqb].
    split; [apply Inv_log, I|]. split; [|split; [apply hs_log|apply pend_log]].
    split; [rewrite objs_log; reflexivity|]. intros o' x0 E0. rewrite objs_log. eauto.
  - eexists _, _. split; [reflexivity|]. cbn [N.eqb].
    assert (R : Inv (add_pend s o) /\ same_kinds s (add_pend s o)).
    { apply (Inv_upd1 s _ o x x I E); simp_st; try reflexivity; try assumption.
      - symmetry. apply set_nth_same, E.
      - apply I.
      - intros o' n. rewrite H3_add_pend. destruct (Nat.eqb_spec o o'); [congruence|lia].
      - rewrite D, K. exact Logic.I. }
    destruct R as [R1 R2]. fin4 R1 R2.
Qed.

(* ---------- slot moves: the handle multiset does not change ---------- *)
Lemma Inv_same_H3 s s' :
  objs s' = objs s -> length (hs s') = NSLOT -> (forall o, H3 s' o = H3 s o) -> Inv s -> Inv s' /\ same_kinds s s'.
Proof.
  intros Eo Hl EH I. split.
  - constructor.
    + assumption.
    + intros o. rewrite EH, Eo. apply I.
    + intros o x. rewrite Eo. intros E. pose proof (inv_obj s I o x E) as (A & B & C).
      unfold obj_ok. rewrite Eo, EH. auto.
  - split; [rewrite Eo; reflexivity|]. intros o x E. rewrite Eo. eauto.
Qed.

Lemma slot_beyond s d : length (hs s) <= d -> slot s d = None.
Proof. intros H. unfold slot. apply nth_overflow. assumption. Qed.

Lemma m_take_ok s d : Inv s ->
  Inv (fst (m_take s d)) /\ same_kinds s (fst (m_take s d)) /\ objs (fst (m_take s d)) = objs s /\
  hs (fst (m_take s d)) = set_nth d None (hs s) /\ pend (fst (m_take s d)) = o2l (slot s d) ++ pend s /\
  snd (m_take s d) = slot s d.
Proof.
  intros I. unfold m_take. cbn [fst snd objs hs pend].
  assert (R : Inv (mkst (objs s) (set_nth d None (hs s)) (o2l (slot s d) ++ pend s) (elog s)) /\
              same_kinds s (mkst (objs s) (set_nth d None (hs s)) (o2l (slot s d) ++ pend s) (elog s))).
  { apply Inv_same_H3; cbn [objs hs pend]; try reflexivity; try assumption.
    - rewrite length_set_nth. apply I.
    - intros o. unfold H3. cbn [objs hs pend]. rewrite cnt_app.
      destruct (Nat.ltb_spec d (length (hs s))) as [Hd|Hd].
      + pose proof (cnt_flat_set_nth o2l (hs s) d None (slot s d) o (nth_error_nth' (hs s) d None Hd)) as C.
        cbn [o2l] in C. rewrite cnt_nil in C. lia.
      + rewrite (set_nth_beyond d None (hs s) Hd), (slot_beyond s d Hd). cbn [o2l]. rewrite cnt_nil. lia. }
  destruct R as [R1 R2]. repeat (split; [first [exact R1 | exact R2 | reflexivity]|]). reflexivity.
Qed.

Lemma m_put_ok s d v : Inv s -> slot s d = None -> d < NSLOT ->
  (forall o, v = Some o -> In o (pend s)) ->
  Inv (m_put s d v) /\ same_kinds s (m_put s d v) /\ objs (m_put s d v) = objs s /\
  hs (m_put s d v) = set_nth d v (hs s) /\ pend (m_put s d v) = rm_opt v (pend s).
Proof.
  intros I Hs Hd Hv. unfold m_put.
  assert (R : Inv (mkst (objs s) (set_nth d v (hs s)) (rm_opt v (pend s)) (elog s)) /\
              same_kinds s (mkst (objs s) (set_nth d v (hs s)) (rm_opt v (pend s)) (elog s))).
  { apply Inv_same_H3; cbn [objs hs pend]; try reflexivity; try assumption.
    - rewrite length_set_nth. apply I.
    - intros o. unfold H3. cbn [objs hs pend].
      assert (Hd' : d < length (hs s)) by (rewrite (inv_len s I); assumption).
      pose proof (cnt_flat_set_nth o2l (hs s) d v None o) as C.
      rewrite (nth_error_nth' (hs s) d None Hd') in C. fold (slot s d) in C. rewrite Hs in C.
      specialize (C eq_refl). cbn [o2l] in C. rewrite cnt_nil in C.
      destruct v as [a|]; cbn [rm_opt o2l] in *.
      + pose proof (cnt_remove_one (pend s) a o (Hv a eq_refl)) as C2. rewrite cnt_cons, cnt_nil in C. lia.
      + rewrite cnt_nil in C. lia. }
  destruct R as [R1 R2]. repeat (split; [first [exact R1 | exact R2 | reflexivity]|]). reflexivity.
Qed.

(* ---------- creation ---------- *)
Lemma m_new_ok s k inner : Inv s ->
  (forall b, inner = Some b -> In b (pend s) /\ is_buf k = false /\
             exists y, nth_error (objs s) b = Some y /\ is_buf (okind y) = true) ->
  Inv (fst (m_new s k inner)) /\ same_kinds s (fst (m_new s k inner)) /\
  hs (fst (m_new s k inner)) = hs s /\
  pend (fst (m_new s k inner)) = length (objs s) :: rm_opt inner (pend s) /\
  snd (m_new s k inner) = length (objs s) /\
  nth_error (objs (fst (m_new s k inner))) (length (objs s))
    = Some (mkobj k (match cls_of k with Counted => 1%N | _ => 0%N end) 0%N false inner).
Proof.
  intros I Hin. unfold m_new. cbn [fst snd objs hs pend].
  set (n := length (objs s)).
  set (x := mkobj k (match cls_of k with Counted => 1%N | _ => 0%N end) 0%N false inner).
  set (s' := mkst (objs s ++ [x]) (hs s) (n :: rm_opt inner (pend s)) (elog s)).
  assert (EH : forall o, H3 s' o = H3 s o + (if Nat.eqb n o then 1 else 0)).
  { intros o. unfold H3, s'. cbn [objs hs pend]. rewrite cnt_flat_app, cnt_cons. unfold oin at 2. cbn [oinner x].
    destruct inner as [b|]; cbn [rm_opt o2l].
    - destruct (Hin b eq_refl) as (Hb & _). pose proof (cnt_remove_one (pend s) b o Hb) as C.
      rewrite cnt_cons, cnt_nil. lia.
    - rewrite cnt_nil. lia. }
  assert (Hn : H3 s n = 0).
  { destruct (H3 s n) eqn:Z; [reflexivity|]. assert (0 < H3 s n) by lia. pose proof (inv_rng s I n H). unfold n in *. lia. }
  assert (Kb : forall b y, nth_error (objs s) b = Some y -> nth_error (objs s ++ [x]) b = Some y).
  { intros b y Eb. rewrite nth_error_app1; [assumption|]. apply nth_error_Some. congruence. }
  split; [|split; [|split; [reflexivity|split; [reflexivity|split; [reflexivity|apply nth_error_app_last]]]]].
  - constructor.
    + apply I.
    + intros o Hp. rewrite EH in Hp. unfold s'. cbn [objs]. rewrite app_length. cbn [length].
      destruct (Nat.eqb_spec n o); [subst; fold n; lia|]. assert (0 < H3 s o) by lia. pose proof (inv_rng s I o H). lia.
    + intros o x0 E0. unfold s' in E0. cbn [objs] in E0.
      destruct (Nat.lt_ge_cases o n) as [Ho|Ho].
      * rewrite nth_error_app1 in E0 by assumption.
        destruct (inv_obj s I o x0 E0) as (A & B & C). split; [assumption|]. split.
        -- intros b Hb. destruct (B b Hb) as (y & Ey & By). exists y. split; [apply Kb; assumption|assumption].
        -- rewrite EH. destruct (Nat.eqb_spec n o); [lia|]. rewrite Nat.add_0_r. assumption.
      * assert (o = n).
        { assert (o < length (objs s ++ [x])) by (apply nth_error_Some; congruence).
          rewrite app_length in H. cbn [length] in H. fold n in H. lia. }
        subst o. unfold n in E0. rewrite nth_error_app_last in E0. inversion E0; subst x0.
        split; [|split].
        -- cbn [x okind oinner]. intros Hb. destruct inner as [b|]; [|reflexivity].
           destruct (Hin b eq_refl) as (_ & Hk & _). congruence.
        -- cbn [x oinner]. intros b Hb. destruct (Hin b Hb) as (_ & _ & y & Ey & By). exists y. split; [apply Kb; assumption|assumption].
        -- cbn [x odead okind ocnt oext]. rewrite EH, Hn, Nat.eqb_refl.
           destruct (cls_of k); [|auto|exact Logic.I].
           split; [reflexivity|]. split; [reflexivity|]. reflexivity.
  - split.
    + unfold s'. cbn [objs]. rewrite app_length. lia.
    + intros o x0 E0. exists x0. split; [apply Kb; assumption|reflexivity].
Qed.

(* ---------- unref ---------- *)
Definition after_unref (y : obj) : obj :=
  match cls_of (okind y) with
  | Counted => if (ocnt y - 1 =? 0)%N then freed y (ocnt y - 1)%N else with_cnt y (ocnt y - 1)%N
  | Unique => freed y (ocnt y)
  | Static => y
  end.

Lemma after_kind y : okind (after_unref y) = okind y.
Proof. unfold after_unref. destruct (cls_of (okind y)); [destruct (ocnt y - 1 =? 0)%N|..]; reflexivity. Qed.

(* one object loses a handle held in a local; when it dies, the handle it owns moves to the locals *)
Lemma unref1_inv g o x e :
  Inv g -> In o (pend g) -> nth_error (objs g) o = Some x -> odead x = false ->
  let x' := after_unref x in
  let mv := if odead x' then oinner x else None in
  let g' := mkst (set_nth o x' (objs g)) (hs g) (o2l mv ++ remove_one o (pend g)) e in
  Inv g' /\ same_kinds g g'.
Proof.
  intros I Hp E D x' mv g'.
  pose proof (inv_obj g I o x E) as (C1 & C2 & C3). rewrite D in C3.
  assert (Hpos : 0 < H3 g o) by (apply H3_pend_in; assumption).
  assert (EH : forall o', H3 g' o' + (if Nat.eqb o o' then 1 else 0) = H3 g o').
  { intros o'. unfold H3, g'. cbn [objs hs pend]. rewrite cnt_app.
    pose proof (cnt_remove_one (pend g) o o' Hp) as P.
    pose proof (cnt_flat_set_nth oin (objs g) o x' x o' E) as Q.
    assert (cnt (oin x') o' + cnt (o2l mv) o' = cnt (oin x) o').
    { unfold mv, x', after_unref, oin.
      destruct (cls_of (okind x)); [destruct (ocnt x - 1 =? 0)%N|..];
        cbn [freed with_cnt odead oinner]; rewrite ?D; cbn [o2l]; rewrite ?cnt_nil; lia. }
    lia. }
  apply (Inv_upd1 g g' o x x' I E); try reflexivity.
  - apply I.
  - apply after_kind.
  - intros o' n. specialize (EH o'). destruct (Nat.eqb_spec o o'); [congruence|lia].
  - unfold x'. rewrite after_kind. intros Hb. unfold after_unref.
    destruct (cls_of (okind x)); [destruct (ocnt x - 1 =? 0)%N|..]; cbn [freed with_cnt oinner]; auto.
  - intros b Hb. apply C2. unfold x', after_unref in Hb.
    destruct (cls_of (okind x)); [destruct (ocnt x - 1 =? 0)%N|..]; cbn [freed with_cnt oinner] in Hb; try discriminate; assumption.
  - specialize (EH o). rewrite Nat.eqb_refl in EH. unfold x', after_unref.
    destruct (cls_of (okind x)) eqn:K.
    + destruct C3 as (Hc & Hp0 & Hw).
      destruct (N.eqb_spec (ocnt x - 1) 0) as [Z|Z]; cbn [freed with_cnt odead okind ocnt oext oinner].
      * split; [reflexivity|]. split; [lia|]. split; [lia|]. unfold is_static. rewrite K. reflexivity.
      * rewrite D, K. split; [lia|]. split; lia.
    + cbn [freed odead okind oext oinner]. destruct C3 as (Hu & He). split; [reflexivity|]. split; [lia|]. split; [assumption|].
      unfold is_static. rewrite K. reflexivity.
    + rewrite D, K. exact Logic.I.
Qed.

Lemma lower_pos c : (0 < c)%N -> (c < W)%N -> lower c = ((c - 1)%N, (c - 1)%N).
Proof. intros H1 H2. destruct (lower_remaining c H2) as [A _]. apply A, H1. Qed.

Lemma unref_leaf_objs g b y :
  nth_error (objs g) b = Some y -> odead y = false ->
  (cls_of (okind y) = Counted -> (0 < ocnt y)%N /\ (ocnt y < W)%N) ->
  exists g', unref_leaf g b = Ok g' /\ objs g' = set_nth b (after_unref y) (objs g) /\ hs g' = hs g /\ pend g' = pend g.
Proof.
  intros E D Hc. unfold unref_leaf. rewrite (live_ok g b y E D). cbn [bind]. unfold after_unref.
  destruct (cls_of (okind y)) eqn:K.
  - destruct (Hc eq_refl) as [H1 H2]. rewrite (lower_pos _ H1 H2).
    destruct (ocnt y - 1 =? 0)%N; eexists; (split; [reflexivity|]); simp_st; auto.
  - eexists; (split; [reflexivity|]); simp_st; auto.
  - eexists; (split; [reflexivity|]). rewrite (set_nth_same _ _ _ E). auto.
Qed.

Lemma m_unref_ok s o : Inv s -> In o (pend s) ->
  exists s', m_unref s o = Ok s' /\ Inv s' /\ same_kinds s s' /\ hs s' = hs s /\ pend s' = remove_one o (pend s).
Proof.
  intros I Hp.
  assert (Hpos : 0 < H3 s o) by (apply H3_pend_in; assumption).
  destruct (inv_live s o I Hpos) as (x & E & D).
  pose proof (inv_obj s I o x E) as (C1 & C2 & C3). rewrite D in C3.
  pose proof (unref1_inv s o x [] I Hp E D) as U. cbn zeta in U.
  (* shape of the result *)
  assert (R : exists s', m_unref s o = Ok s' /\ hs s' = hs s /\ pend s' = remove_one o (pend s) /\
     objs s' = match (if odead (after_unref x) then oinner x else None) with
               | None => set_nth o (after_unref x) (objs s)
               | Some b => match nth_error (objs s) b with
                           | Some y => set_nth o (after_unref x) (set_nth b (after_unref y) (objs s))
                           | None => objs s
                           end
               end).
  { unfold m_unref. rewrite (live_ok (del_pend s o) o x E D). cbn [bind].
    assert (DS : forall s1 c, objs s1 = objs s -> hs s1 = hs s -> pend s1 = remove_one o (pend s) ->
              exists s', destroy s1 o x c = Ok s' /\ hs s' = hs s /\ pend s' = remove_one o (pend s) /\
                objs s' = match oinner x with
                          | None => set_nth o (freed x c) (objs s)
                          | Some b => match nth_error (objs s) b with
                                      | Some y => set_nth o (freed x c) (set_nth b (after_unref y) (objs s))
                                      | None => objs s
                                      end
                          end).
    { intros s1 c Eo Eh Ep. unfold destroy. destruct (oinner x) as [b|] eqn:Hi.
      - pose proof (H3_inner s o x b E Hi) as Hb. destruct (inv_live s b I Hb) as (y & Ey & Dy).
        pose proof (inv_obj s I b y Ey) as (_ & _ & Y3). rewrite Dy in Y3.
        rewrite Ey. rewrite <- Eo in Ey.
        destruct (unref_leaf_objs s1 b y Ey Dy) as (g' & Eg & Og & Hg & Pg).
        { intros K. rewrite K in Y3. tauto. }
        rewrite Eg. cbn [bind]. eexists. split; [reflexivity|]. simp_st. rewrite Og, Hg, Pg, Eo. auto.
      - cbn [bind]. eexists. split; [reflexivity|]. simp_st. rewrite Eo. auto. }
    unfold after_unref. destruct (cls_of (okind x)) eqn:K.
    - destruct C3 as (Hc & H1 & H2). rewrite (lower_pos _ H1 H2).
      destruct (ocnt x - 1 =? 0)%N eqn:Z.
      + cbn [freed odead]. apply DS; simp_st; reflexivity.
      + cbn [with_cnt odead]. rewrite D. eexists. split; [reflexivity|]. simp_st. auto.
    - cbn [freed odead]. apply DS; simp_st; reflexivity.
    - rewrite D. eexists. split; [reflexivity|]. simp_st. rewrite (set_nth_same _ _ _ E). auto. }
  destruct R as (s' & Es & Hh & Hq & Ho). exists s'. split; [assumption|].
  destruct (if odead (after_unref x) then oinner x else None) as [b|] eqn:MV.
  - (* the object dies and releases the handle it owns *)
    assert (Hi : oinner x = Some b) by (destruct (odead (after_unref x)); [assumption|discriminate]).
    pose proof (H3_inner s o x b E Hi) as Hb. destruct (inv_live s b I Hb) as (y & Ey & Dy).
    rewrite Ey in Ho.
    destruct (C2 b Hi) as (y0 & Ey0 & By). rewrite Ey in Ey0. inversion Ey0; subst y0.
    assert (Nb : b <> o).
    { intros ->. rewrite E in Ey. inversion Ey; subst y. rewrite (C1 By) in Hi. discriminate. }
    pose proof (inv_obj s I b y Ey) as (Y1 & _ & _).
    destruct U as [U1 U2]. cbn [o2l app] in U1, U2.
    set (g1 := mkst (set_nth o (after_unref x) (objs s)) (hs s) (b :: remove_one o (pend s)) []) in *.
    assert (Ey1 : nth_error (objs g1) b = Some y).
    { unfold g1. cbn [objs]. rewrite nth_error_set_nth. destruct (Nat.eqb_spec o b); [congruence|assumption]. }
    pose proof (unref1_inv g1 b y [] U1 (or_introl eq_refl) Ey1 Dy) as V. cbn zeta in V.
    rewrite (Y1 By) in V. replace (if odead (after_unref y) then None else None) with (@None nat) in V by (destruct (odead (after_unref y)); reflexivity).
    cbn [o2l app g1 objs hs pend] in V. rewrite remove_one_cons in V. destruct V as [V1 V2].
    split; [|split; [|split; assumption]].
    + eapply Inv_ext; [| | |exact V1]; cbn [objs hs pend]; try assumption.
      rewrite Ho. apply set_nth_comm. congruence.
    + apply (same_kinds_trans s g1); [assumption|].
      destruct V2 as [L K]. split.
      * rewrite Ho, !length_set_nth. unfold g1. cbn [objs]. rewrite length_set_nth. reflexivity.
      * intros o' x0 E0. destruct (K o' x0 E0) as (x1 & E1 & K1). exists x1. split; [|assumption].
        rewrite Ho, set_nth_comm by congruence. exact E1.
  - destruct U as [U1 U2]. cbn [o2l app] in U1, U2.
    split; [|split; [|split; assumption]].
    + eapply Inv_ext; [| | |exact U1]; cbn [objs hs pend]; assumption.
    + destruct U2 as [L K]. split.
      * rewrite Ho, length_set_nth. reflexivity.
      * intros o' x0 E0. destruct (K o' x0 E0) as (x1 & E1 & K1). exists x1. split; [|assumption].
        rewrite Ho. exact E1.
Qed.

Lemma unref_opt_ok s v : Inv s -> (forall a, v = Some a -> In a (pend s)) ->
  exists s', unref_opt s v = Ok s' /\ Inv s' /\ same_kinds s s' /\ hs s' = hs s /\ pend s' = rm_opt v (pend s).
Proof.
  intros I H. destruct v as [a|]; cbn [unref_opt rm_opt].
  - apply m_unref_ok; auto.
  - exists s. split; [reflexivity|]. split; [assumption|]. split; [apply same_kinds_refl|]. auto.
Qed.
