(* Extraction of the executable model and specification of C15 (ExtrOcamlBasic only). *)
From MptV Require Import Base.Mem C15.RefcountModel C15.RefcountSpec C15.ChainModel C15.ChainSpec C15.ReplyModel C15.ReplySpec.
Require Import ExtrOcamlBasic.
Extraction "c15_model.ml" mrun srun init sinit leaked sleaked crun scrun
  nrun csrun ninit csinit nleaked csleaked
  prun psrun pinit psinit pleaked psleaked.
