(* C15/ChainSim.v — linked nodes: the mechanism model (ChainModel.v: counters, destruction flags, retain-then-release
   assignment, destruction cascade) REFINES the handle specification (ChainSpec.v: created objects with the handle each
   owns + slots; existence and counts derived from the handles).  Relation, what the specification derives from a
   related state, forward simulation for every operation, all histories, corollaries. *)
From MptV Require Import Base.Mem C15.RefcountModel C15.RefcountSpec C15.RefcountCounter C15.RefcountInv
  C15.RefcountSteps C15.RefcountOps C15.RefcountRel C15.ChainModel C15.ChainSpec C15.ChainInv C15.ChainOps.
Local Open Scope nat_scope.

(* while the object exists the specification records the handle it owns (the record of a destroyed object is
   never erased, it is just not counted any more) *)
Definition crel (x : nobj) (y : option nat) : Prop := ndead x = false -> y = nnext x.

Definition CRef (s : nst) (ss : csst) : Prop := NGood s /\ cshs ss = nhs s /\ Forall2 crel (nobjs s) (cnx ss).

(* ---------- what the specification derives ---------- *)
Lemma low_zero l i : (forall j x b, nth_error l j = Some x -> nnext x = Some b -> b < j) -> length l <= S i ->
  cnt (flat_map nin l) i = 0.
Proof.
  intros H L. destruct (cnt (flat_map nin l) i) eqn:Z; [reflexivity|].
  assert (Hin : In i (flat_map nin l)) by (apply cnt_pos_in; lia).
  apply in_flat_map in Hin. destruct Hin as (x & Hx & Hi).
  apply In_nth_error in Hx. destruct Hx as (j & Ej).
  unfold nin in Hi. destruct (nnext x) as [b|] eqn:Nx; [|destruct Hi]. destruct Hi as [->|[]].
  pose proof (H j x i Ej Nx). assert (j < length l) by (apply nth_error_Some; congruence). lia.
Qed.

Lemma cowned_ref s i : NInv s -> forall t t', Forall2 crel t t' -> forall k,
  (forall j x, nth_error t j = Some x -> nth_error (nobjs s) (k + j) = Some x) ->
  cowned t' (map (NH s) (seq k (length t))) i = cnt (flat_map nin t) i.
Proof.
  intros I t t' F. induction F as [|x y t t' Hxy F IH]; intros k Hl; [reflexivity|].
  cbn [length seq map cowned flat_map]. rewrite cnt_app, (IH (S k)).
  2:{ intros j x0 Ej. replace (S k + j) with (k + S j) by lia. apply Hl. exact Ej. }
  f_equal.
  assert (E : nth_error (nobjs s) k = Some x) by (specialize (Hl 0 x eq_refl); rewrite Nat.add_0_r in Hl; exact Hl).
  pose proof (ninv_obj s I k x E) as (_ & C3). unfold nin.
  destruct (ndead x) eqn:D.
  - destruct C3 as (Nx & Z). rewrite Z, Nx. reflexivity.
  - destruct C3 as (Hc & H0 & _). replace (0 <? NH s k) with true by (symmetry; apply Nat.ltb_lt; lia).
    rewrite (Hxy D). reflexivity.
Qed.

Lemma ctab_ref s : NInv s -> npend s = [] -> forall l l', Forall2 crel l l' -> forall pre, nobjs s = pre ++ l ->
  ctab (flat_map o2l (nhs s)) (length pre) l' = map (NH s) (seq (length pre) (length l)).
Proof.
  intros I P l l' F. induction F as [|x y t t' Hxy F IH]; intros pre E; [reflexivity|].
  cbn [ctab length seq map].
  assert (E' : nobjs s = (pre ++ [x]) ++ t) by (rewrite <- app_assoc; exact E).
  specialize (IH (pre ++ [x]) E'). rewrite app_length in IH. cbn [length] in IH. rewrite Nat.add_1_r in IH.
  rewrite IH. f_equal.
  rewrite (cowned_ref s (length pre) I t t' F (S (length pre))).
  2:{ intros j x0 Ej. rewrite E'. rewrite nth_error_app2 by (rewrite app_length; cbn [length]; lia).
      rewrite app_length. cbn [length]. replace (S (length pre) + j - (length pre + 1)) with j by lia. exact Ej. }
  unfold NH. rewrite P, cnt_nil. rewrite E'. rewrite flat_map_app, cnt_app.
  rewrite (low_zero (pre ++ [x]) (length pre)).
  - lia.
  - intros j x0 b Ej Nx.
    assert (Hj : nth_error (nobjs s) j = Some x0).
    { rewrite E'. rewrite nth_error_app1; [exact Ej|apply nth_error_Some; congruence]. }
    destruct (ninv_obj s I j x0 Hj) as (C1 & _). apply C1, Nx.
  - rewrite app_length. cbn [length]. lia.
Qed.

Section derived.
Variables (s : nst) (ss : csst).
Hypothesis RF : CRef s ss.

Let I : NInv s := proj1 (proj1 RF).
Let P : npend s = [] := proj2 (proj1 RF).
Let HS : cshs ss = nhs s := proj1 (proj2 RF).
Let K : Forall2 crel (nobjs s) (cnx ss) := proj2 (proj2 RF).

(* the number of handles the specification counts on o (slots + existing owners) = all handles of the model *)
Lemma ctotal_ref o : ctotal ss o = NH s o.
Proof.
  unfold ctotal, cslots. rewrite HS.
  pose proof (ctab_ref s I P (nobjs s) (cnx ss) K [] eq_refl) as T. cbn [length] in T. rewrite T.
  destruct (Nat.lt_ge_cases o (length (nobjs s))) as [Ho|Ho].
  - rewrite (nth_indep _ 0 (NH s 0)) by (rewrite map_length, seq_length; exact Ho).
    rewrite map_nth, seq_nth by exact Ho. reflexivity.
  - rewrite nth_overflow by (rewrite map_length, seq_length; exact Ho).
    destruct (NH s o) eqn:Z; [reflexivity|]. assert (H : 0 < NH s o) by lia. pose proof (ninv_rng s I o H). lia.
Qed.

Lemma cshareable_ref v : cshareable_opt ss v = nshare s v.
Proof. destruct v as [o|]; cbn [cshareable_opt nshare]; [|reflexivity]. unfold cshareable. rewrite ctotal_ref. reflexivity. Qed.

Lemma csslot_ref i : csslot ss i = nslot s i.
Proof. unfold csslot, nslot. rewrite HS. reflexivity. Qed.

Lemma csnext_ref o x : nth_error (nobjs s) o = Some x -> ndead x = false -> csnext ss o = nnext x.
Proof.
  intros E D. destruct (F2_nth_l crel _ _ K o x E) as (y & Ey & Hy). unfold csnext.
  rewrite (nth_error_nth (cnx ss) o None Ey). apply Hy, D.
Qed.

(* existence = at least one handle; the counter of an existing object = the number of handles *)
Lemma calive_ref o x : nth_error (nobjs s) o = Some x -> calive ss o = negb (ndead x).
Proof.
  intros E. unfold calive. rewrite ctotal_ref. pose proof (ninv_obj s I o x E) as (_ & C3).
  destruct (ndead x); cbn [negb].
  - destruct C3 as (_ & ->). reflexivity.
  - destruct C3 as (Hc & H0 & _). apply Nat.ltb_lt. lia.
Qed.

Lemma cdisp_ref : forall l l' i, Forall2 crel l l' ->
  (forall j x, nth_error l j = Some x -> nth_error (nobjs s) (i + j) = Some x) ->
  csdisp_from ss l' i = map ndisp_obj l.
Proof.
  intros l l' i F. revert i. induction F as [|x y l l' Hxy F IH]; intros i Hl; [reflexivity|].
  cbn [map csdisp_from]. f_equal.
  - assert (E : nth_error (nobjs s) i = Some x) by (specialize (Hl 0 x eq_refl); rewrite Nat.add_0_r in Hl; exact Hl).
    rewrite (calive_ref i x E). unfold ndisp_obj. destruct (ndead x) eqn:D; cbn [negb]; [reflexivity|].
    rewrite ctotal_ref, (Hxy D). pose proof (ninv_obj s I i x E) as (_ & C3). rewrite D in C3.
    destruct C3 as (-> & _). reflexivity.
  - apply IH. intros j x0 Ej. replace (S i + j) with (i + S j) by lia. apply Hl. exact Ej.
Qed.

Definition nstrip (r : nobs) : nobs := match r with NObs o d h _ => NObs o d h [] | NObsFault => NObsFault end.

Lemma cobserve_ref t : csobserve ss t = nstrip (nobserve s t).
Proof.
  unfold csobserve, nobserve, nstrip. rewrite HS.
  rewrite (cdisp_ref (nobjs s) (cnx ss) 0 K) by (intros j x E; exact E). reflexivity.
Qed.

Lemma nleak_from_false : forall l i, (forall j x, nth_error l j = Some x -> nth_error (nobjs s) (i + j) = Some x) ->
  nleak_from s l i = false.
Proof.
  induction l as [|x l IH]; intros i Hl; [reflexivity|]. cbn [nleak_from].
  rewrite (IH (S i)) by (intros j x0 Ej; replace (S i + j) with (i + S j) by lia; apply Hl; exact Ej).
  assert (E : nth_error (nobjs s) i = Some x) by (specialize (Hl 0 x eq_refl); rewrite Nat.add_0_r in Hl; exact Hl).
  pose proof (ninv_obj s I i x E) as (_ & C3). rewrite nheld_NH.
  destruct (ndead x); cbn [negb andb orb]; [reflexivity|].
  destruct C3 as (Hc & H0 & _). destruct (N.eqb_spec (N.of_nat (NH s i)) 0); [lia|reflexivity].
Qed.

(* every existing object is reachable: nothing for LeakSanitizer *)
Lemma cleaked_ref : csleaked ss = nleaked s.
Proof. unfold csleaked, nleaked. symmetry. apply nleak_from_false. intros j x E; exact E. Qed.
End derived.

(* ---------- the relation survives everything that leaves owned handles of existing objects alone ---------- *)
Lemma crel_frame s s' l : nframe s s' -> Forall2 crel (nobjs s) l -> Forall2 crel (nobjs s') l.
Proof.
  intros [L F] K. apply F2_of_nth; [rewrite L; apply (F2_length crel _ _ K)|].
  intros o x' y E' Ey D'. destruct (F o x' E' D') as (x & E & D & N).
  destruct (F2_nth_l crel _ _ K o x E) as (y0 & Ey0 & Hy). rewrite Ey in Ey0. inversion Ey0; subst y0.
  rewrite N. apply Hy, D.
Qed.

Lemma CRef_frame s ss s' ss' : CRef s ss -> NGood s' -> nframe s s' -> cnx ss' = cnx ss -> cshs ss' = nhs s' -> CRef s' ss'.
Proof.
  intros (_ & _ & K) G F En Eh. split; [assumption|]. split; [assumption|]. rewrite En. exact (crel_frame s s' _ F K).
Qed.

(* the abstraction function is one way to obtain a related state *)
Definition nabs (s : nst) : csst := mkcs (map nnext (nobjs s)) (nhs s).
Lemma CRef_abs s : NGood s -> CRef s (nabs s).
Proof.
  intros G. split; [assumption|]. split; [reflexivity|]. cbn [nabs cnx].
  apply F2_of_nth; [rewrite map_length; reflexivity|].
  intros o x y E Ey _. rewrite nth_error_map, E in Ey. inversion Ey. reflexivity.
Qed.

(* ---------- forward simulation ---------- *)
(* slot d := r, where r is held somewhere (a slot, or the member [next] of an existing object) *)
Lemma sim_assign s ss r d : CRef s ss -> d < NSLOT -> (forall o, r = Some o -> 0 < NH s o) ->
  exists s', n_assign_ptr s r d = Ok s' /\ CRef s' (cs_assign ss r d).
Proof.
  intros RF Hd Hr. pose proof RF as (G & HS & K).
  destruct (n_assign_ptr_ok s r d G Hd Hr) as (s' & E & G' & F & Hh).
  exists s'. split; [exact E|]. unfold cs_assign. rewrite (csslot_ref s ss RF d).
  destruct (eq_opt r (nslot s d)).
  - apply (CRef_frame s ss); try assumption; [reflexivity|congruence].
  - apply (CRef_frame s ss); try assumption; [reflexivity|].
    cbn [csput cshs]. rewrite Hh, HS, (cshareable_ref s ss RF r). reflexivity.
Qed.

Lemma bank3_bound d : (bank d =? 3) = true -> d < NSLOT.
Proof. intros H. apply (bank_eqb_bound d 3 H). lia. Qed.
Lemma bank4_bound d : (bank d =? 4) = true -> d < NSLOT.
Proof. intros H. apply (bank_eqb_bound d 4 H). lia. Qed.

Lemma sim_move s ss si d : CRef s ss -> d < NSLOT ->
  exists s', (let '(s1, r) := n_take s si in let '(s2, old) := n_take s1 d in
              do s3 <- n_unref_opt s2 old; Ok (n_put s3 d r, OD)) = Ok (s', OD) /\
             CRef s' (csput (csput ss si None) d (csslot ss si)).
Proof.
  intros RF Hd. pose proof RF as ([I P] & HS & K).
  destruct (n_take_ok s si I) as (I1 & O1 & H1 & P1 & V1).
  destruct (n_take s si) as [s1 r]. cbn [fst snd] in *. subst r. rewrite P, app_nil_r in P1.
  destruct (n_take_ok s1 d I1) as (I2 & O2 & H2 & P2 & V2).
  destruct (n_take s1 d) as [s2 old]. cbn [fst snd] in *. subst old.
  destruct (n_unref_opt_ok s2 (nslot s1 d) I2) as (s3 & E3 & I3 & H3 & P3 & F3).
  { intros a Ha. rewrite P2, Ha. left. reflexivity. }
  rewrite E3. cbn [bind]. rewrite P2, rm_opt_o2l in P3.
  assert (L1 : d < length (nhs s1)) by (rewrite (ninv_len s1 I1); assumption).
  assert (S3 : nslot s3 d = None).
  { rewrite (nslot_set s1 s3 d None d) by (rewrite ?H3; assumption). rewrite Nat.eqb_refl. reflexivity. }
  eexists. split; [reflexivity|].
  apply (CRef_frame s ss); try assumption.
  - split.
    + apply n_put_ok; try assumption. intros o Ho. rewrite P3, P1, Ho. left. reflexivity.
    + cbn [n_put npend]. rewrite P3, P1. destruct (nslot s si); cbn [rm_opt o2l]; [apply remove_one_cons|reflexivity].
  - apply (nframe_trans _ s1 _ (nframe_objs s s1 O1)). apply (nframe_trans _ s2 _ (nframe_objs s1 s2 O2)).
    apply (nframe_trans _ _ _ F3). apply nframe_objs. reflexivity.
  - reflexivity.
  - cbn [csput cshs n_put nhs]. rewrite H3, H2, H1, HS, (csslot_ref s ss RF si). symmetry. apply set_nth_twice.
Qed.

Lemma sim_drop s ss d : CRef s ss -> exists s', n_drop s d = Ok s' /\ CRef s' (csput ss d None).
Proof.
  intros RF. pose proof RF as (G & HS & K).
  destruct (n_drop_ok s d G) as (s' & E & G' & Hh & F). exists s'. split; [exact E|].
  apply (CRef_frame s ss); try assumption; [reflexivity|]. cbn [csput cshs]. rewrite Hh, HS. reflexivity.
Qed.

Lemma sim_exec s ss o : CRef s ss -> nguard (nhs s) o = true ->
  exists s', nexec s o = Ok (s', snd (csexec ss o)) /\ CRef s' (fst (csexec ss o)).
Proof.
  intros RF Hg. pose proof RF as ([I P] & HS & K).
  destruct o; cbn [nguard nexec csexec] in *;
    repeat match goal with
           | H : context [nth ?i (nhs s) None] |- _ => change (nth i (nhs s) None) with (nslot s i) in H
           end;
    split_guard Hg.
  - (* NNew *)
    pose proof (bank3_bound _ Hg) as Hd.
    destruct (n_new_ok s I) as (I1 & H1 & P1 & V1 & O1).
    destruct (n_new s) as [s1 n]. cbn [fst snd] in *. subst n. rewrite P in P1.
    destruct (n_take_ok s1 d I1) as (I2 & O2 & H2 & P2 & V2).
    destruct (n_take s1 d) as [s2 old]. cbn [fst snd] in *. subst old.
    destruct (n_unref_opt_ok s2 (nslot s1 d) I2) as (s3 & E3 & I3 & H3 & P3 & F3).
    { intros a Ha. rewrite P2, Ha. left. reflexivity. }
    rewrite E3. cbn [bind]. rewrite P2, rm_opt_o2l in P3.
    assert (L1 : d < length (nhs s1)) by (rewrite (ninv_len s1 I1); assumption).
    assert (S3 : nslot s3 d = None).
    { rewrite (nslot_set s1 s3 d None d) by (rewrite ?H3; assumption). rewrite Nat.eqb_refl. reflexivity. }
    eexists. split; [reflexivity|]. cbn [fst].
    split; [split|split].
    + apply n_put_ok; try assumption. intros o Ho. inversion Ho; subst o. rewrite P3, P1. left. reflexivity.
    + cbn [n_put npend rm_opt]. rewrite P3, P1. apply remove_one_cons.
    + cbn [csput cshs n_put nhs]. rewrite H3, H2, H1, HS, <- (F2_length crel _ _ K). symmetry. apply set_nth_twice.
    + cbn [csput cnx n_put nobjs].
      apply (crel_frame s2); [apply (nframe_trans _ _ _ F3); apply nframe_objs; reflexivity|].
      rewrite O2, O1. apply Forall2_app; [exact K|]. constructor; [|constructor]. intros _. reflexivity.
  - (* NAssign *)
    destruct (sim_assign s ss (nslot s s0) d RF (bank3_bound _ Hg0)) as (s' & E & R').
    { intros o Ho. apply (NH_slot s s0 o Ho). }
    rewrite E. cbn [bind]. exists s'. split; [reflexivity|]. cbn [fst]. rewrite (csslot_ref s ss RF s0). exact R'.
  - (* NCopy *)
    destruct (sim_drop s ss d RF) as (s1 & E1 & R1). rewrite E1. cbn [bind].
    destruct (sim_assign s1 (csput ss d None) (nslot s1 s0) d R1 (bank3_bound _ Hg1)) as (s' & E & R').
    { intros o Ho. apply (NH_slot s1 s0 o Ho). }
    rewrite E. cbn [bind]. exists s'. split; [reflexivity|]. cbn [fst]. rewrite (csslot_ref s1 _ R1 s0). exact R'.
  - (* NMove *) exact (sim_move s ss s0 d RF (bank3_bound _ Hg0)).
  - (* NDetach *)
    destruct (n_take_ok s s0 I) as (I1 & O1 & H1 & P1 & V1).
    destruct (n_take s s0) as [s1 v]. cbn [fst snd] in *. subst v. rewrite P, app_nil_r in P1.
    pose proof (bank4_bound _ Hg1) as Hd.
    assert (Nd : s0 <> d) by (intros ->; apply Nat.eqb_eq in Hg, Hg1; lia).
    assert (S1 : nslot s1 d = None).
    { destruct (Nat.lt_ge_cases s0 (length (nhs s))) as [Hl|Hl].
      - rewrite (nslot_set s s1 s0 None d H1 Hl). destruct (Nat.eqb_spec s0 d); [contradiction|]. apply is_none_true, Hg0.
      - rewrite (nslot_hs s s1 d) by (rewrite H1; apply set_nth_beyond, Hl). apply is_none_true, Hg0. }
    eexists. split; [reflexivity|]. cbn [fst].
    apply (CRef_frame s ss); try assumption.
    + split.
      * apply n_put_ok; try assumption. intros o Ho. rewrite P1, Ho. left. reflexivity.
      * cbn [n_put npend]. rewrite P1. destruct (nslot s s0); cbn [rm_opt o2l]; [apply remove_one_cons|reflexivity].
    + apply (nframe_trans _ s1 _ (nframe_objs s s1 O1)). apply nframe_objs. reflexivity.
    + reflexivity.
    + cbn [csput cshs n_put nhs]. rewrite H1, HS, (csslot_ref s ss RF s0). reflexivity.
  - (* NSetInst *) exact (sim_move s ss s0 d RF (bank3_bound _ Hg0)).
  - (* NDrop *)
    destruct (sim_drop s ss d RF) as (s1 & E1 & R1). rewrite E1. cbn [bind]. exists s1. auto.
  - (* NAddref *)
    destruct (is_none_false _ Hg1) as (o & So). rewrite (csslot_ref s ss RF s0), So.
    destruct (n_addref_ok s o I (NH_slot s s0 o So)) as (s1 & r & E1 & I1 & H1 & Hr & P1 & F1).
    rewrite E1. cbn [bind]. unfold cshareable. rewrite (ctotal_ref s ss RF o). rewrite P in P1.
    destruct (N.of_nat (NH s o) <? CMAX)%N eqn:Q.
    + assert (Z : (r =? 0)%N = false) by (rewrite Hr; apply N.eqb_neq; lia). rewrite Z in *.
      eexists. split; [rewrite Hr; reflexivity|]. cbn [fst].
      apply (CRef_frame s ss); try assumption.
      * split.
        -- apply n_put_ok; try assumption.
           ++ rewrite (nslot_hs s s1 d H1). apply is_none_true, Hg0.
           ++ apply (bank4_bound _ Hg2).
           ++ intros o' Ho'. inversion Ho'; subst o'. rewrite P1. left. reflexivity.
        -- cbn [n_put npend rm_opt]. rewrite P1. apply remove_one_cons.
      * reflexivity.
      * cbn [csput cshs n_put nhs]. rewrite H1, HS. reflexivity.
    + assert (Z : (r =? 0)%N = true) by (rewrite Hr; reflexivity). rewrite Z in *.
      eexists. split; [rewrite Hr; reflexivity|]. cbn [fst].
      apply (CRef_frame s ss); try assumption; [split; assumption|reflexivity|congruence].
  - (* NUnref *)
    destruct (sim_drop s ss s0 RF) as (s1 & E1 & R1). rewrite E1. cbn [bind]. exists s1. auto.
  - (* NSetNext *)
    rewrite (csslot_ref s ss RF d), (csslot_ref s ss RF s0).
    destruct (nslot s d) as [od|] eqn:Sd; [|discriminate].
    destruct (ninv_live s od I (NH_slot s d od Sd)) as (x & E & D).
    destruct (n_assign_next_ok s (nslot s s0) od d x (conj I P) Sd E) as (s' & E' & G' & Hh & L & R).
    { intros o Ho. split; [apply (NH_slot s s0 o Ho)|]. rewrite Ho in Hg0. apply Nat.ltb_lt, Hg0. }
    rewrite E'. cbn [bind]. exists s'. rewrite (csnext_ref s ss RF od x E D).
    destruct (eq_opt (nslot s s0) (nnext x)).
    + subst s'. split; [reflexivity|]. exact RF.
    + split; [reflexivity|]. cbn [fst]. destruct R as (Rj & x' & Ex' & Dx' & Nx').
      split; [assumption|]. split; [cbn [cshs]; congruence|]. cbn [cnx].
      apply F2_of_nth; [rewrite length_set_nth, L; apply (F2_length crel _ _ K)|].
      intros j y v Ej Ev Dj. rewrite nth_error_set_nth in Ev. destruct (Nat.eqb_spec od j) as [<-|Nj].
      * rewrite Ex' in Ej. inversion Ej; subst y.
        destruct (nth_error (cnx ss) od); inversion Ev. rewrite Nx', (cshareable_ref s ss RF). reflexivity.
      * destruct (Rj j y (not_eq_sym Nj) Ej Dj) as (y0 & Ey0 & Dy0 & Ny0).
        destruct (F2_nth_l crel _ _ K j y0 Ey0) as (v0 & Ev0 & Hv0). rewrite Ev in Ev0. inversion Ev0; subst v0.
        rewrite Ny0. apply Hv0, Dy0.
  - (* NNext *)
    destruct (is_none_false _ Hg0) as (o & So). rewrite (csslot_ref s ss RF s0), So.
    destruct (ninv_live s o I (NH_slot s s0 o So)) as (x & E & D).
    rewrite (nlive_ok s o x E D). cbn [bind].
    destruct (sim_assign s ss (nnext x) d RF (bank3_bound _ Hg1)) as (s' & E' & R').
    { intros b Hb. apply (NH_next s o x b E Hb). }
    rewrite E'. cbn [bind]. exists s'. split; [reflexivity|]. cbn [fst]. rewrite (csnext_ref s ss RF o x E D). exact R'.
Qed.

Lemma CRef_clear s ss : CRef s ss -> CRef (nclear_log s) ss.
Proof.
  intros ([I P] & HS & K). split; [split; [apply (NInv_ext s); try reflexivity; assumption|exact P]|]. split; assumption.
Qed.

(* one step: same output, related successors, no fault — from EVERY pair of related states *)
Lemma csim_step s ss o : CRef s ss ->
  exists s', nstep s o = Ok (s', snd (csstep ss o)) /\ CRef s' (fst (csstep ss o)).
Proof.
  intros RF. pose proof (CRef_clear s ss RF) as RC. unfold nstep, csstep.
  replace (nguard (cshs ss) o) with (nguard (nhs (nclear_log s)) o) by (destruct RF as (_ & -> & _); reflexivity).
  destruct (nguard (nhs (nclear_log s)) o) eqn:Hg.
  - exact (sim_exec (nclear_log s) ss o RC Hg).
  - exists (nclear_log s). split; [reflexivity|exact RC].
Qed.

Lemma CRef_init : CRef ninit csinit.
Proof.
  split; [split; [|reflexivity]|split; [reflexivity|constructor]]. constructor.
  - reflexivity.
  - intros o H. unfold NH, ninit in H. cbn in H. lia.
  - intros o x E. destruct o; discriminate.
Qed.

Definition nfinal (s : nst) (ops : list nop) : option nst := snd (nrun s ops).

(* all histories *)
Lemma csim_run ops : forall s ss, CRef s ss ->
  map nstrip (fst (nrun s ops)) = fst (csrun ss ops) /\
  exists s', nfinal s ops = Some s' /\ CRef s' (snd (csrun ss ops)).
Proof.
  induction ops as [|o r IH]; intros s ss RF.
  - split; [reflexivity|]. exists s. split; [reflexivity|exact RF].
  - destruct (csim_step s ss o RF) as (s1 & E & R1).
    unfold nfinal in *. cbn [nrun csrun]. rewrite E.
    destruct (csstep ss o) as [ss1 t]. cbn [fst snd] in *.
    destruct (IH s1 ss1 R1) as (EQ & s' & F & R').
    destruct (nrun s1 r) as [l f]. destruct (csrun ss1 r) as [l' f']. cbn [fst snd map] in *.
    split; [|exists s'; split; assumption].
    f_equal; [|exact EQ]. symmetry. apply (cobserve_ref s1 ss1 R1).
Qed.

(* ---------- corollaries ---------- *)
Lemma chain_history_l : forall ops,
  map nstrip (fst (nrun ninit ops)) = fst (csrun csinit ops) /\
  exists s, nfinal ninit ops = Some s /\ CRef s (snd (csrun csinit ops)).
Proof. intros ops. exact (csim_run ops ninit csinit CRef_init). Qed.

Lemma chain_never_faults_l : forall ops, exists s, nfinal ninit ops = Some s /\ ~ In NObsFault (fst (nrun ninit ops)).
Proof.
  intros ops. destruct (chain_history_l ops) as (EQ & s & F & _). exists s. split; [exact F|].
  intros H. apply (in_map nstrip) in H. rewrite EQ in H. cbn [nstrip] in H.
  clear - H. revert H. generalize csinit. induction ops as [|o r IH]; intros ss H; [destruct H|].
  cbn [csrun] in H. destruct (csstep ss o) as [s1 t]. specialize (IH s1). destruct (csrun s1 r) as [l f].
  cbn [fst] in *. destruct H as [H|H]; [discriminate|auto].
Qed.

(* an object is destroyed exactly when no handle is left — slots and handles OWNED by existing objects alike —
   and the counter of an existing object is the number of its handles; the handles are those of the
   specification state reached by the specification's own steps *)
Lemma chain_destroyed_iff_l : forall ops, exists s, nfinal ninit ops = Some s /\
  length (nobjs s) = length (cnx (snd (csrun csinit ops))) /\
  forall o x, nth_error (nobjs s) o = Some x ->
    ndead x = negb (calive (snd (csrun csinit ops)) o) /\
    (ndead x = true <-> ctotal (snd (csrun csinit ops)) o = 0) /\
    (ndead x = false -> ncnt x = N.of_nat (ctotal (snd (csrun csinit ops)) o) /\
                        csnext (snd (csrun csinit ops)) o = nnext x).
Proof.
  intros ops. destruct (chain_history_l ops) as (_ & s & F & RF). exists s. split; [exact F|].
  pose proof RF as ([I P] & HS & K). split; [apply (F2_length crel _ _ K)|].
  intros o x E. rewrite (calive_ref s _ RF o x E), (ctotal_ref s _ RF o).
  pose proof (ninv_obj s I o x E) as (_ & C3). split; [destruct (ndead x); reflexivity|].
  destruct (ndead x) eqn:D.
  - destruct C3 as (_ & Z). split; [split; auto|discriminate].
  - destruct C3 as (Hc & H0 & _). split; [split; [discriminate|lia]|].
    intros _. split; [exact Hc|apply (csnext_ref s _ RF o x E D)].
Qed.

(* the step along a chain, r[d] = r[d].instance()->next, from ANY related state: the successor [b] is held by the
   slot afterwards and EXISTS — also when the only handle on it was the one the old head owned and the old head
   loses its last handle in this very assignment; the result refines "slot d := b" *)
Lemma chain_step_along_l s ss d o x b :
  CRef s ss -> (bank d =? 3) = true -> nslot s d = Some o -> nth_error (nobjs s) o = Some x -> nnext x = Some b ->
  cshareable ss b = true ->
  exists s', nstep s (NNext d d) = Ok (s', OD) /\ CRef s' (csput ss d (Some b)) /\ nslot s' d = Some b /\
    exists xb, nth_error (nobjs s') b = Some xb /\ ndead xb = false /\ (0 < ncnt xb)%N.
Proof.
  intros RF Hb Sd E Nx Sh. pose proof RF as ([I P] & HS & K).
  destruct (ninv_live s o I (NH_slot s d o Sd)) as (x0 & E0 & D). rewrite E in E0. inversion E0; subst x0.
  pose proof (ninv_obj s I o x E) as (C1 & _). pose proof (C1 b Nx) as Lb.
  destruct (csim_step s ss (NNext d d) RF) as (s' & Es & R').
  assert (G : nguard (cshs ss) (NNext d d) = true).
  { cbn [nguard]. rewrite HS. change (nth d (nhs s) None) with (nslot s d). rewrite Sd, Hb. reflexivity. }
  unfold csstep in Es, R'. rewrite G in Es, R'. cbn [csexec fst snd] in Es, R'.
  rewrite (csslot_ref s ss RF d), Sd, (csnext_ref s ss RF o x E D), Nx in R'.
  rewrite (csslot_ref s ss RF d), Sd in Es. cbn [snd] in Es.
  unfold cs_assign in R'. rewrite (csslot_ref s ss RF d), Sd in R'. cbn [eq_opt cshareable_opt] in R'.
  replace (b =? o) with false in R' by (symmetry; apply Nat.eqb_neq; lia). rewrite Sh in R'. cbn [fst] in R'.
  exists s'. split; [exact Es|]. split; [exact R'|].
  pose proof R' as ([I' P'] & HS' & K').
  assert (Sd' : nslot s' d = Some b).
  { unfold nslot. rewrite <- HS'. cbn [csput cshs]. rewrite nth_set_nth, Nat.eqb_refl, HS, (ninv_len s I).
    pose proof (bank3_bound d Hb) as Hd. destruct (Nat.ltb_spec d NSLOT); [reflexivity|lia]. }
  split; [exact Sd'|].
  destruct (ninv_live s' b I' (NH_slot s' d b Sd')) as (xb & Eb & Db). exists xb. split; [exact Eb|]. split; [exact Db|].
  pose proof (ninv_obj s' I' b xb Eb) as (_ & C3). rewrite Db in C3. apply C3.
Qed.

(* the invariant is inductive from any state that satisfies it *)
Lemma chain_step_ok_l s o : NGood s -> exists s' t, nstep s o = Ok (s', t) /\ NGood s'.
Proof.
  intros G. destruct (csim_step s (nabs s) o (CRef_abs s G)) as (s' & E & R'). eexists _, _. split; [exact E|apply R'].
Qed.

(* for the record (Properties.v, C15_ex_release_first_faults): the same assignment with the two halves exchanged —
   release the old referent, THEN retain the new one.  Not used by the model. *)
Definition n_assign_ptr_release_first (s : nst) (r : option nat) (d : nat) : res nst :=
  if eq_opt r (nslot s d) then Ok s else
  let '(s2, old) := n_take s d in
  do s3 <- n_unref_opt s2 old;
  do '(s4, ok) <- n_retain s3 r;
  Ok (n_put s4 d (if ok then r else None)).
