(* C15/RefcountSpec.v — what the property says, on handle multisets only.

   The specification keeps NO counter.  Its state is: which objects were created
   (kind, handle owned by the object, handles held by the environment) and what
   every handle slot holds.  Everything else is DERIVED from the handles:
     - the number an object's counter must show = number of handles on it,
     - an object exists exactly as long as a handle on it exists (never earlier
       destroyed, never later),
     - a handle can be shared iff the kind is counted and the number of handles
       is below the maximum the counter can represent (failure, not wrap),
     - an assignment (by conversion, by array clone, by reference<T>) just makes
       the target slot hold what the source slot holds: the old referent thereby
       loses exactly one handle, the new one gains exactly one. *)
From MptV Require Import Base.Mem C15.RefcountModel.
Local Open Scope nat_scope.

(* ---------- the counter, mathematically (no modulus) ---------- *)
Definition sraise (c : N) : N * N :=
  if ((0 <? c) && (c <? CMAX))%N then ((c + 1)%N, (c + 1)%N) else (c, 0%N).
Definition slower (c : N) : N * N :=
  if (0 <? c)%N then ((c - 1)%N, (c - 1)%N) else (c, CMAX).
Definition scstep (c : N) (o : cop) : N * N :=
  match o with CSet v => (v, v) | CRaise => sraise c | CLower => slower c end.
Fixpoint scrun (c : N) (ops : list cop) : list (N * N) :=
  match ops with
  | [] => []
  | o :: r => let '(c1, ret) := scstep c o in (ret, c1) :: scrun c1 r
  end.

(* ---------- handles ---------- *)
Record sobj := mksobj { skind : kind; sext : N; sinner : option nat }.
Record sst := mksst { sobjs : list sobj; shs : list (option nat) }.

Definition cnt (l : list nat) (o : nat) : nat := count_occ Nat.eq_dec l o.
Definition in_slots (s : sst) (o : nat) : nat := cnt (flat_map o2l (shs s)) o.

(* an object that owns a handle is itself only referenced from slots *)
Definition owner_alive (s : sst) (c : nat) (x : sobj) : bool :=
  is_static (skind x) || (0 <? N.of_nat (in_slots s c) + sext x)%N.

Fixpoint owned_from (s : sst) (l : list sobj) (i : nat) (o : nat) : nat :=
  match l with
  | [] => 0
  | x :: t => (if owner_alive s i x then cnt (o2l (sinner x)) o else 0) + owned_from s t (S i) o
  end.
(* handles the test can reach *)
Definition sheld (s : sst) (o : nat) : N := N.of_nat (in_slots s o + owned_from s (sobjs s) 0 o).
(* all handles *)
Definition stotal (s : sst) (o : nat) : N :=
  (sheld s o + match nth_error (sobjs s) o with Some x => sext x | None => 0 end)%N.

Definition salive (s : sst) (o : nat) : bool :=
  match nth_error (sobjs s) o with
  | Some x => is_static (skind x) || (0 <? stotal s o)%N
  | None => false
  end.

Definition skind_at (s : sst) (o : nat) : option kind :=
  match nth_error (sobjs s) o with Some x => Some (skind x) | None => None end.

(* may one more handle be taken? *)
Definition shareable (s : sst) (o : nat) : bool :=
  match skind_at s o with
  | Some k => match cls_of k with
              | Counted => (stotal s o <? CMAX)%N
              | Unique => false
              | Static => true
              end
  | None => false
  end.
Definition shareable_opt (s : sst) (v : option nat) : bool :=
  match v with Some o => shareable s o | None => true end.

Definition sslot (s : sst) (i : nat) : option nat := nth i (shs s) None.
Definition sput (s : sst) (d : nat) (v : option nat) : sst := mksst (sobjs s) (set_nth d v (shs s)).
Definition snew (s : sst) (k : kind) (inner : option nat) : sst * nat :=
  (mksst (sobjs s ++ [mksobj k 0%N inner]) (shs s), length (sobjs s)).

Fixpoint sfind (p : kind -> bool) (l : list sobj) (i : nat) : option nat :=
  match l with [] => None | x :: t => if p (skind x) then Some i else sfind p t (S i) end.

Definition s_metabuf (s : sst) (src : option nat) (d : nat) : sst :=
  let inner := if shareable_opt s src then src else None in
  let '(s1, id) := snew s KMetaBuf inner in sput s1 d (Some id).

(* slot d := slot s, when that handle can be shared *)
Definition s_share (s : sst) (si d : nat) : sst * bool :=
  if shareable_opt s (sslot s si) then (sput s d (sslot s si), true) else (s, false).

Definition sset_inner (s : sst) (o : nat) (v : option nat) : sst :=
  match nth_error (sobjs s) o with
  | Some x => mksst (set_nth o (mksobj (skind x) (sext x) v) (sobjs s)) (shs s)
  | None => s
  end.

Definition sexec (s : sst) (o : op) : sst * out :=
  match o with
  | ONew k d =>
      match (if is_static k then sfind is_static (sobjs s) 0 else None) with
      | Some id => (sput s d (Some id), OD)
      | None => let '(s1, id) := snew s k None in (sput s1 d (Some id), OD)
      end
  | OMetaBuf a d => (s_metabuf s (sslot s a) d, OD)
  | OAddref si d =>
      match sslot s si with
      | Some o => if shareable s o
                  then (sput s d (Some o),
                        ORet (match skind_at s o with
                              | Some k => if is_static k then 1%N else (stotal s o + 1)%N
                              | None => 0%N end))
                  else (s, ORet 0)
      | None => (s, OX)
      end
  | ODefer si d =>
      match sslot s si with
      | Some o => if shareable s o then (sput s d (Some o), OD) else (s, OE)
      | None => (s, OX)
      end
  | OUnref i => (sput s i None, OD)
  | OClone si d =>
      match sslot s si with
      | Some o =>
          match nth_error (sobjs s) o with
          | Some x =>
              match skind x with
              | KGen | KHUni | KCfg | KIterName => let '(s1, id) := snew s (skind x) None in (sput s1 d (Some id), OD)
              | KMetaBuf => (s_metabuf s (sinner x) d, OD)
              | _ => (s, OE)
              end
          | None => (s, OX)
          end
      | None => (s, OX)
      end
  | OConv si d => let '(s1, ok) := s_share s si d in (s1, if ok then OD else OE)
  | ORefInit _ si d =>
      let '(s1, ok) := s_share s si d in
      (s1, if ok then ORet (if is_none (sslot s si) then 0 else 1) else OE)
  | ORefFini _ d => (sput s d None, OD)
  | ORefCopy =>                      (* element by element; all or nothing *)
      let '(s1, ok1) := s_share s 0 3 in
      let '(s2, ok2) := s_share s1 1 4 in
      let '(s3, ok3) := s_share s2 2 5 in
      if ok1 && ok2 && ok3 then (s3, OD) else (s, OE)
  | OArrClone si d =>
      let set := sslot s si in
      let buf := sslot s d in
      if eq_opt set buf then (s, ORet 0) else
      if tmismatch (skind_at s) set buf then (s, OE) else      (* a typed buffer is not replaced by an untyped one *)
      let '(s1, ok) := s_share s si d in
      (s1, if ok then ORet ((if is_none buf then 0 else 2) + (if is_none set then 0 else 1))%N else OE)
  | OArrClear d => (sput s d None, ORet (if is_none (sslot s d) then 0 else 2))
  | ODetach a =>
      match sslot s a with
      | Some o => if (stotal s o <? 2)%N then (s, ORet 0)
                  else let '(s1, id) := snew s KBuf None in (sput s1 a (Some id), ORet 1)
      | None => (s, OX)
      end
  | ODetachF a =>                    (* a copy that cannot be made changes nothing *)
      match sslot s a with
      | Some o => (s, if (stotal s o <? 2)%N then ORet 0 else OE)
      | None => (s, OX)
      end
  | OSetInner m a =>
      match sslot s m with
      | Some o =>
          match nth_error (sobjs s) o with
          | Some x =>
              let set := sslot s a in
              if eq_opt set (sinner x) then (s, ORet 0) else
              if tmismatch (skind_at s) set (sinner x) then (s, OE) else
              if shareable_opt s set
              then (sset_inner s o set,
                    ORet ((if is_none (sinner x) then 0 else 2) + (if is_none set then 0 else 1))%N)
              else (s, OE)
          | None => (s, OX)
          end
      | None => (s, OX)
      end
  | OForce i v =>
      match sslot s i with
      | Some o =>
          match nth_error (sobjs s) o with
          | Some x => (mksst (set_nth o (mksobj (skind x) (v - sheld s o)%N (sinner x)) (sobjs s)) (shs s), OD)
          | None => (s, OX)
          end
      | None => (s, OX)
      end
  | OUnforce => (mksst (map (fun x => mksobj (skind x) 0%N (sinner x)) (sobjs s)) (shs s), OD)
  | XNew d => let '(s1, id) := snew s KCxx None in (sput s1 d (Some id), OD)
  | XAssign si d =>                  (* a handle that cannot be shared leaves the target empty *)
      if eq_opt (sslot s si) (sslot s d) then (s, OD) else
      (sput s d (if shareable_opt s (sslot s si) then sslot s si else None), OD)
  | XCopy si d =>                    (* the target is destroyed first, then copy-constructed *)
      let s1 := sput s d None in
      (sput s1 d (if shareable_opt s1 (sslot s1 si) then sslot s1 si else None), OD)
  | XMove si d | XSetInst si d | XDetach si d =>
      let v := sslot s si in (sput (sput s si None) d v, OD)
  | XDrop d => (sput s d None, OD)
  | XGen d => let '(s1, id) := snew s KXGen None in (sput s1 d (Some id), OD)
  | XClone si d =>
      match sslot s si with
      | Some o =>
          match nth_error (sobjs s) o with
          | Some x => let '(s1, id) := snew s (skind x) None in (sput s1 d (Some id), OD)
          | None => (s, OX)
          end
      | None => (s, OX)
      end
  | ORawModify m =>                  (* the object owns an unshared stage buffer afterwards *)
      match sslot s m with
      | Some o =>
          match nth_error (sobjs s) o with
          | Some x =>
              match sinner x with
              | Some b => if (stotal s b <? 2)%N then (s, OD)
                          else let '(s1, id) := snew s KStage None in (sset_inner s1 o (Some id), OD)
              | None => let '(s1, id) := snew s KStage None in (sset_inner s1 o (Some id), OD)
              end
          | None => (s, OX)
          end
      | None => (s, OX)
      end
  | ORawAdvance m =>
      match sslot s m with
      | Some o =>
          match nth_error (sobjs s) o with
          | Some x =>
              match sinner x with
              | Some _ => (s, OD)
              | None => let '(s1, id) := snew s KStage None in (sset_inner s1 o (Some id), OD)
              end
          | None => (s, OX)
          end
      | None => (s, OX)
      end
  | ORawGet m a =>                   (* slot a := what the object owns *)
      match sslot s m with
      | Some o =>
          match nth_error (sobjs s) o with
          | Some x =>
              let set := sinner x in
              let buf := sslot s a in
              if eq_opt set buf then (s, ORet 0) else
              if tmismatch (skind_at s) set buf then (s, OE) else
              if shareable_opt s set
              then (sput s a set, ORet ((if is_none buf then 0 else 2) + (if is_none set then 0 else 1))%N)
              else (s, OE)
          | None => (s, OX)
          end
      | None => (s, OX)
      end
  | ORawCall _ fails => (s, if fails then OE else OD)
  end.

Definition sstep (s : sst) (o : op) : sst * out :=
  if guard (shs s) (skind_at s) (sheld s) o then sexec s o else (s, OX).

Fixpoint sdisp_from (s : sst) (l : list sobj) (i : nat) : list disp :=
  match l with
  | [] => []
  | x :: t =>
    (if salive s i then
       match cls_of (skind x) with Counted => DCnt (stotal s i) | Unique => DUni | Static => DSta end
     else DDead) :: sdisp_from s t (S i)
  end.

Definition sobserve (s : sst) (o : out) : obs := Obs o (sdisp_from s (sobjs s) 0) (shs s) [].

Fixpoint srun (s : sst) (ops : list op) : list obs * sst :=
  match ops with
  | [] => ([], s)
  | o :: r =>
    let '(s1, t) := sstep s o in
    let '(l, f) := srun s1 r in (sobserve s1 t :: l, f)
  end.

Fixpoint sleak_from (s : sst) (l : list sobj) (i : nat) : bool :=
  match l with
  | [] => false
  | x :: t => (salive s i && negb (is_static (skind x)) && (sheld s i =? 0)%N) || sleak_from s t (S i)
  end.
(* an object kept only by the environment that the test can no longer reach *)
Definition sleaked (s : sst) : bool := sleak_from s (sobjs s) 0.

Definition sinit : sst := mksst [] (repeat None NSLOT).
