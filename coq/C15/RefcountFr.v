(* C15/RefcountFr.v — the frame of the vtable calls: they change counters and destruction flags only; kind,
   environment handles and (while the object exists) the owned handle of every object, and the slots, stay. *)
From MptV Require Import Base.Mem C15.RefcountModel C15.RefcountSpec C15.RefcountCounter C15.RefcountInv
  C15.RefcountSteps.
Local Open Scope nat_scope.

Definition ofr (x x' : obj) : Prop :=
  okind x' = okind x /\ oext x' = oext x /\ (odead x' = false -> odead x = false /\ oinner x' = oinner x).

Definition fr (s s' : st) : Prop :=
  length (objs s') = length (objs s) /\
  forall o x, nth_error (objs s) o = Some x -> exists x', nth_error (objs s') o = Some x' /\ ofr x x'.

Lemma ofr_refl x : ofr x x.
Proof. unfold ofr. auto. Qed.
Lemma ofr_trans x y z : ofr x y -> ofr y z -> ofr x z.
Proof.
  intros (K1 & E1 & D1) (K2 & E2 & D2). split; [congruence|]. split; [congruence|].
  intros D. destruct (D2 D) as [Dy Iy]. destruct (D1 Dy) as [Dx Ix]. split; [assumption|congruence].
Qed.

Lemma fr_eq s s' : objs s' = objs s -> fr s s'.
Proof. intros E. split; [rewrite E; reflexivity|]. intros o x Ex. rewrite E. exists x. split; [assumption|apply ofr_refl]. Qed.
Lemma fr_refl s : fr s s.
Proof. apply fr_eq. reflexivity. Qed.
Lemma fr_trans s1 s2 s3 : fr s1 s2 -> fr s2 s3 -> fr s1 s3.
Proof.
  intros [L1 F1] [L2 F2]. split; [congruence|]. intros o x E.
  destruct (F1 o x E) as (x' & E' & O1). destruct (F2 o x' E') as (x'' & E'' & O2).
  exists x''. split; [assumption|]. eapply ofr_trans; eassumption.
Qed.

Lemma fr_set s s' o x x' : nth_error (objs s) o = Some x -> ofr x x' -> objs s' = set_nth o x' (objs s) -> fr s s'.
Proof.
  intros E O Eo. split; [rewrite Eo; apply length_set_nth|]. intros o' x0 E0. rewrite Eo, nth_error_set_nth.
  destruct (Nat.eqb_spec o o') as [<-|n].
  - rewrite E. exists x'. split; [reflexivity|]. rewrite E in E0. inversion E0; subst. assumption.
  - exists x0. split; [assumption|apply ofr_refl].
Qed.

Lemma ofr_cnt x c : ofr x (with_cnt x c).
Proof. unfold ofr. cbn. auto. Qed.
Lemma ofr_freed x c : ofr x (freed x c).
Proof. unfold ofr. cbn. repeat split; discriminate. Qed.

(* ---------- the vtable calls ---------- *)
Lemma m_addref_fr s o s' r : m_addref s o = Ok (s', r) -> fr s s' /\ hs s' = hs s.
Proof.
  unfold m_addref. destruct (live s o) as [x| |] eqn:L; cbn [bind]; try discriminate.
  destruct (live_inv s o x L) as [E D].
  destruct (cls_of (okind x)).
  - destruct (raise (ocnt x)) as [c r0]. intros X; inversion X; subst. split.
    + apply (fr_set s _ o x (with_cnt x c) E (ofr_cnt x c)). destruct (r =? 0)%N; simp_st; reflexivity.
    + destruct (r =? 0)%N; simp_st; reflexivity.
  - intros X; inversion X; subst. split; [apply fr_eq|]; simp_st; reflexivity.
  - intros X; inversion X; subst. split; [apply fr_eq|]; reflexivity.
Qed.

Lemma unref_leaf_fr s b s' : unref_leaf s b = Ok s' -> fr s s' /\ hs s' = hs s /\ pend s' = pend s.
Proof.
  unfold unref_leaf. destruct (live s b) as [x| |] eqn:L; cbn [bind]; try discriminate.
  destruct (live_inv s b x L) as [E D].
  destruct (cls_of (okind x)).
  - destruct (lower (ocnt x)) as [c r]. destruct (r =? 0)%N; intros X; inversion X; subst.
    + split; [|split; simp_st; reflexivity]. apply (fr_set s _ b x (freed x c) E (ofr_freed x c)). simp_st. reflexivity.
    + split; [|split; simp_st; reflexivity]. apply (fr_set s _ b x (with_cnt x c) E (ofr_cnt x c)). simp_st. reflexivity.
  - intros X; inversion X; subst. split; [|split; simp_st; reflexivity].
    apply (fr_set s _ b x (freed x (ocnt x)) E (ofr_freed x _)). simp_st. reflexivity.
  - intros X; inversion X; subst. split; [apply fr_refl|auto].
Qed.

Lemma destroy_fr s o x c s' : nth_error (objs s) o = Some x -> destroy s o x c = Ok s' -> fr s s' /\ hs s' = hs s.
Proof.
  intros E. unfold destroy.
  assert (Q : forall s1, fr s s1 -> hs s1 = hs s ->
              fr s (log (set_obj s1 o (freed x c)) (okind x) (EDel o)) /\ hs (log (set_obj s1 o (freed x c)) (okind x) (EDel o)) = hs s).
  { intros s1 [L1 F1] H1. split; [|simp_st; assumption].
    destruct (F1 o x E) as (x1 & E1 & O1).
    apply (fr_trans s s1); [split; assumption|].
    apply (fr_set s1 _ o x1 (freed x c) E1); [|simp_st; reflexivity].
    destruct O1 as (K1 & X1 & _). unfold ofr. cbn. repeat split; try congruence; discriminate. }
  destruct (oinner x) as [b|].
  - destruct (unref_leaf s b) as [s1| |] eqn:U; cbn [bind]; try discriminate.
    destruct (unref_leaf_fr s b s1 U) as (F1 & H1 & _). intros X; inversion X; subst. apply Q; assumption.
  - cbn [bind]. intros X; inversion X; subst. apply Q; [apply fr_refl|reflexivity].
Qed.

Lemma m_unref_fr s o s' : m_unref s o = Ok s' -> fr s s' /\ hs s' = hs s.
Proof.
  unfold m_unref. destruct (live (del_pend s o) o) as [x| |] eqn:L; cbn [bind]; try discriminate.
  destruct (live_inv _ o x L) as [E D]. autorewrite with st in E.
  assert (Q : forall s1 c, objs s1 = objs s -> hs s1 = hs s -> destroy s1 o x c = Ok s' -> fr s s' /\ hs s' = hs s).
  { intros s1 c Eo Eh X. destruct (destroy_fr s1 o x c s') as [F H]; [rewrite Eo; assumption|assumption|].
    split; [|congruence]. apply (fr_trans s s1); [apply fr_eq; assumption|assumption]. }
  destruct (cls_of (okind x)).
  - destruct (lower (ocnt x)) as [c r]. destruct (r =? 0)%N.
    + apply Q; simp_st; reflexivity.
    + intros X; inversion X; subst. split; [|simp_st; reflexivity].
      apply (fr_set s _ o x (with_cnt x c) E (ofr_cnt x c)). simp_st. reflexivity.
  - apply Q; simp_st; reflexivity.
  - intros X; inversion X; subst. split; [apply fr_eq|]; reflexivity.
Qed.

Lemma unref_opt_fr s v s' : unref_opt s v = Ok s' -> fr s s' /\ hs s' = hs s.
Proof.
  destruct v as [a|]; cbn [unref_opt]; [apply m_unref_fr|]. intros X; inversion X; subst. split; [apply fr_refl|reflexivity].
Qed.

Lemma retain_fr s v s' ok : retain s v = Ok (s', ok) -> fr s s' /\ hs s' = hs s.
Proof.
  destruct v as [o|]; cbn [retain].
  - destruct (m_addref s o) as [[s1 r]| |] eqn:E; cbn [bind]; try discriminate.
    intros X; inversion X; subst. eapply m_addref_fr; eassumption.
  - intros X; inversion X; subst. split; [apply fr_refl|reflexivity].
Qed.

