(* C15/ChainOps.v — linked nodes: what the composite moves of ChainModel.v do to a state that satisfies the invariant
   (reference<T>::operator= on a slot and on the member [next], set_instance(0)). *)
From MptV Require Import Base.Mem C15.RefcountModel C15.RefcountSpec C15.RefcountCounter C15.RefcountInv
  C15.RefcountSteps C15.RefcountOps C15.ChainModel C15.ChainInv.
Local Open Scope nat_scope.

Definition NGood (s : nst) : Prop := NInv s /\ npend s = [].

Lemma nslot_hs s s' i : nhs s' = nhs s -> nslot s' i = nslot s i.
Proof. unfold nslot. intros ->. reflexivity. Qed.

Lemma nslot_set s s' d v i : nhs s' = set_nth d v (nhs s) -> d < length (nhs s) ->
  nslot s' i = if Nat.eqb d i then v else nslot s i.
Proof.
  unfold nslot. intros -> H. rewrite nth_set_nth.
  destruct (Nat.eqb d i); [|reflexivity]. destruct (Nat.ltb_spec d (length (nhs s))); [reflexivity|lia].
Qed.

Lemma set_nth_nth {A} (l : list A) d dflt : d < length l -> set_nth d (nth d l dflt) l = l.
Proof. intros H. apply set_nth_same. apply nth_error_nth'. assumption. Qed.

Lemma eq_opt_true a b : eq_opt a b = true -> a = b.
Proof.
  destruct a as [x|], b as [y|]; cbn; intros H; try discriminate; try reflexivity.
  apply Nat.eqb_eq in H. congruence.
Qed.

(* ---------- set_instance(0) / ~reference() / raw unref ---------- *)
Lemma n_drop_ok s d : NGood s ->
  exists s', n_drop s d = Ok s' /\ NGood s' /\ nhs s' = set_nth d None (nhs s) /\ nframe s s'.
Proof.
  intros [I P]. unfold n_drop.
  destruct (n_take_ok s d I) as (I1 & O1 & H1 & P1 & V1).
  destruct (n_take s d) as [s1 old]. cbn [fst snd] in *. subst old. rewrite P, app_nil_r in P1.
  destruct (n_unref_opt_ok s1 (nslot s d) I1) as (s2 & E2 & I2 & H2 & P2 & F2).
  { intros a Ha. rewrite P1, Ha. left. reflexivity. }
  exists s2. split; [exact E2|]. split; [split; [assumption|]|split].
  - rewrite P2, P1. rewrite <- (app_nil_r (o2l (nslot s d))). apply rm_opt_o2l.
  - rewrite H2, H1. reflexivity.
  - exact (nframe_trans _ _ _ (nframe_objs s s1 O1) F2).
Qed.

(* ---------- reference::operator=(const reference &) on a slot: retain the new referent FIRST, then release the
   old one — the new referent survives the release even when the old referent was the only thing that kept it ---------- *)
Lemma n_assign_ptr_ok s r d : NGood s -> d < NSLOT -> (forall o, r = Some o -> 0 < NH s o) ->
  exists s', n_assign_ptr s r d = Ok s' /\ NGood s' /\ nframe s s' /\
    nhs s' = (if eq_opt r (nslot s d) then nhs s else set_nth d (if nshare s r then r else None) (nhs s)).
Proof.
  intros [I P] Hd Hr. unfold n_assign_ptr.
  destruct (eq_opt r (nslot s d)) eqn:Q.
  - exists s. split; [reflexivity|]. split; [split; assumption|]. split; [apply nframe_refl|reflexivity].
  - destruct (n_retain_ok s r I Hr) as (s1 & E1 & I1 & H1 & P1 & F1).
    rewrite E1. cbn [bind]. rewrite P, app_nil_r in P1.
    destruct (n_take_ok s1 d I1) as (I2 & O2 & H2 & P2 & V2).
    destruct (n_take s1 d) as [s2 old]. cbn [fst snd] in *. subst old.
    destruct (n_unref_opt_ok s2 (nslot s1 d) I2) as (s3 & E3 & I3 & H3 & P3 & F3).
    { intros a Ha. rewrite P2, Ha. left. reflexivity. }
    rewrite E3. cbn [bind]. rewrite P2, rm_opt_o2l in P3.
    assert (L1 : d < length (nhs s1)) by (rewrite (ninv_len s1 I1); assumption).
    assert (S3 : nslot s3 d = None).
    { rewrite (nslot_set s1 s3 d None d) by (rewrite ?H3; assumption). rewrite Nat.eqb_refl. reflexivity. }
    eexists. split; [reflexivity|]. split; [split|split].
    + apply n_put_ok; try assumption.
      intros o Ho. rewrite P3, P1. destruct (nshare s r); [|discriminate]. rewrite Ho. left. reflexivity.
    + cbn [n_put npend]. rewrite P3, P1. destruct (nshare s r); [|reflexivity].
      destruct r; cbn [rm_opt o2l]; [apply remove_one_cons|reflexivity].
    + apply (nframe_trans _ _ _ F1). apply (nframe_trans _ s2 _ (nframe_objs s1 s2 O2)).
      apply (nframe_trans _ _ _ F3). apply nframe_objs. reflexivity.
    + cbn [n_put nhs]. rewrite H3, H2, H1. apply set_nth_twice.
Qed.

(* ---------- the member [next] used as a slot ---------- *)
Lemma n_take_next_ok s o x : NInv s -> nth_error (nobjs s) o = Some x -> ndead x = false -> NInv (n_take_next s o x).
Proof.
  intros I E D. pose proof (ninv_obj s I o x E) as (C1 & C3). rewrite D in C3.
  assert (EH : forall o', NH (n_take_next s o x) o' = NH s o').
  { intros o'. unfold NH, n_take_next. cbn [nobjs nhs npend]. rewrite cnt_app.
    pose proof (cnt_flat_set_nth nin (nobjs s) o (mknobj (ncnt x) (ndead x) None) x o' E) as Q.
    unfold nin at 2 4 in Q. cbn [nnext o2l] in Q. rewrite cnt_nil in Q. lia. }
  apply (NInv_upd1 s _ o x (mknobj (ncnt x) (ndead x) None) I E); try reflexivity.
  - apply I.
  - intros o' _. apply EH.
  - cbn [nnext]. discriminate.
  - cbn [ndead ncnt nnext]. rewrite D, EH. exact C3.
Qed.

Lemma n_put_next_ok s o x v : NInv s -> nth_error (nobjs s) o = Some x -> ndead x = false -> nnext x = None ->
  (forall b, v = Some b -> In b (npend s) /\ b < o) ->
  exists s', n_put_next s o v = Ok s' /\ NInv s' /\ nhs s' = nhs s /\ npend s' = rm_opt v (npend s) /\
    nobjs s' = set_nth o (mknobj (ncnt x) false v) (nobjs s).
Proof.
  intros I E D Nx Hv. pose proof (ninv_obj s I o x E) as (C1 & C3). rewrite D in C3.
  unfold n_put_next. rewrite (nlive_ok s o x E D). cbn [bind]. rewrite D.
  eexists. split; [reflexivity|]. split; [|repeat split].
  set (s' := mknst _ _ _ _).
  assert (EH : forall o', NH s' o' = NH s o').
  { intros o'. unfold NH, s'. cbn [nobjs nhs npend].
    pose proof (cnt_flat_set_nth nin (nobjs s) o (mknobj (ncnt x) false v) x o' E) as Q.
    unfold nin at 2 4 in Q. rewrite Nx in Q. cbn [nnext o2l] in Q. rewrite cnt_nil in Q.
    destruct v as [b|]; cbn [rm_opt o2l] in *.
    - destruct (Hv b eq_refl) as [Hb _]. pose proof (cnt_remove_one (npend s) b o' Hb) as R.
      rewrite cnt_cons, cnt_nil in Q. lia.
    - rewrite cnt_nil in Q. lia. }
  apply (NInv_upd1 s s' o x (mknobj (ncnt x) false v) I E); try reflexivity.
  - apply I.
  - intros o' _. apply EH.
  - cbn [nnext]. intros b Hb. apply (Hv b Hb).
  - cbn [ndead ncnt]. rewrite EH. exact C3.
Qed.

(* ---------- reference::operator=(const reference &) on the member [next] of the object [od] a slot holds ---------- *)
Lemma n_assign_next_ok s r od i x :
  NGood s -> nslot s i = Some od -> nth_error (nobjs s) od = Some x ->
  (forall o, r = Some o -> 0 < NH s o /\ o < od) ->
  exists s', n_assign_next s r od = Ok s' /\ NGood s' /\ nhs s' = nhs s /\ length (nobjs s') = length (nobjs s) /\
    if eq_opt r (nnext x) then s' = s
    else (forall j x', j <> od -> nth_error (nobjs s') j = Some x' -> ndead x' = false ->
            exists x0, nth_error (nobjs s) j = Some x0 /\ ndead x0 = false /\ nnext x' = nnext x0) /\
         (exists x', nth_error (nobjs s') od = Some x' /\ ndead x' = false /\
                     nnext x' = if nshare s r then r else None).
Proof.
  intros [I P] Si E Hr.
  assert (LV : forall g, NInv g -> nhs g = nhs s -> exists y, nth_error (nobjs g) od = Some y /\ ndead y = false).
  { intros g Ig Hg. apply (ninv_live g od Ig). apply (NH_slot g i). rewrite (nslot_hs s g i Hg). exact Si. }
  destruct (LV s I eq_refl) as (x0 & E0 & D). rewrite E in E0. inversion E0; subst x0.
  unfold n_assign_next. rewrite (nlive_ok s od x E D). cbn [bind].
  destruct (eq_opt r (nnext x)) eqn:Q.
  - exists s. split; [reflexivity|]. split; [split; assumption|]. auto.
  - destruct (n_retain_ok s r I (fun o Ho => proj1 (Hr o Ho))) as (s1 & E1 & I1 & H1 & P1 & F1).
    rewrite E1. cbn [bind]. rewrite P, app_nil_r in P1.
    destruct (LV s1 I1 H1) as (x1 & Ex1 & D1). rewrite (nlive_ok s1 od x1 Ex1 D1). cbn [bind].
    pose proof (n_take_next_ok s1 od x1 I1 Ex1 D1) as I2.
    set (s2 := n_take_next s1 od x1) in *.
    assert (P2 : npend s2 = o2l (nnext x1) ++ npend s1) by reflexivity.
    assert (H2 : nhs s2 = nhs s1) by reflexivity.
    destruct (n_unref_opt_ok s2 (nnext x1) I2) as (s3 & E3 & I3 & H3 & P3 & F3).
    { intros a Ha. rewrite P2, Ha. left. reflexivity. }
    rewrite E3. cbn [bind]. rewrite P2, rm_opt_o2l in P3.
    destruct (LV s3 I3 ltac:(congruence)) as (x3 & Ex3 & D3).
    assert (N3 : nnext x3 = None).
    { destruct F3 as [_ F3]. destruct (F3 od x3) as (y & Ey & _ & Ny); try assumption.
      unfold s2 in Ey. cbn [n_take_next nobjs] in Ey. rewrite nth_error_set_nth, Nat.eqb_refl, Ex1 in Ey.
      inversion Ey; subst y. exact Ny. }
    destruct (n_put_next_ok s3 od x3 (if nshare s r then r else None) I3 Ex3 D3 N3) as (s4 & E4 & I4 & H4 & P4 & O4).
    { intros b Hb. destruct (nshare s r); [|discriminate]. split; [|apply (Hr b Hb)].
      rewrite P3, P1, Hb. left. reflexivity. }
    rewrite E4. exists s4. split; [reflexivity|].
    assert (L12 : length (nobjs s2) = length (nobjs s1)) by (unfold s2; cbn [n_take_next nobjs]; apply length_set_nth).
    assert (L : length (nobjs s4) = length (nobjs s)).
    { rewrite O4, length_set_nth. destruct F1 as [La _]. destruct F3 as [Lc _]. lia. }
    split; [split; [assumption|]|split; [congruence|split; [exact L|]]].
    + rewrite P4, P3, P1. destruct (nshare s r); [|reflexivity]. destruct r; cbn [rm_opt o2l]; [apply remove_one_cons|reflexivity].
    + split.
      * intros j x' Hj Ej Dj. rewrite O4, nth_error_set_nth in Ej.
        destruct (Nat.eqb_spec od j); [congruence|].
        destruct F3 as [Lc Fc]. destruct (Fc j x' Ej Dj) as (y2 & Ey2 & Dy2 & Ny2).
        unfold s2 in Ey2. cbn [n_take_next nobjs] in Ey2. rewrite nth_error_set_nth in Ey2.
        destruct (Nat.eqb_spec od j); [congruence|].
        destruct F1 as [La Fa]. destruct (Fa j y2 Ey2 Dy2) as (y0 & Ey0 & Dy0 & Ny0).
        exists y0. split; [assumption|]. split; [assumption|congruence].
      * eexists. split; [rewrite O4, nth_error_set_nth, Nat.eqb_refl, Ex3; reflexivity|]. split; reflexivity.
Qed.
