(* C15/RefcountInv.v — the invariant "counter = number of handles" and its preservation
   by the vtable calls and slot moves the operations are made of. *)
From MptV Require Import Base.Mem C15.RefcountModel C15.RefcountSpec C15.RefcountCounter.
Local Open Scope nat_scope.

(* ---------- lists ---------- *)
Definition oin (x : obj) : list nat := o2l (oinner x).
Definition ind (v : option nat) (o : nat) : nat := cnt (o2l v) o.

Lemma cnt_app l1 l2 o : cnt (l1 ++ l2) o = cnt l1 o + cnt l2 o.
Proof. unfold cnt. apply count_occ_app. Qed.

Lemma cnt_cons a l o : cnt (a :: l) o = (if Nat.eqb a o then 1 else 0) + cnt l o.
Proof.
  unfold cnt. cbn [count_occ]. destruct (Nat.eq_dec a o) as [->|n].
  - rewrite Nat.eqb_refl. reflexivity.
  - destruct (Nat.eqb_spec a o); [contradiction|reflexivity].
Qed.

Lemma cnt_nil o : cnt [] o = 0.
Proof. reflexivity. Qed.

Lemma ind_some a o : ind (Some a) o = if Nat.eqb a o then 1 else 0.
Proof. unfold ind. cbn [o2l]. rewrite cnt_cons, cnt_nil. lia. Qed.
Lemma ind_none o : ind None o = 0.
Proof. reflexivity. Qed.

Lemma cnt_pos_in l o : 0 < cnt l o <-> In o l.
Proof. unfold cnt. split; intros H; [apply (count_occ_In Nat.eq_dec) | apply (count_occ_In Nat.eq_dec)]; assumption. Qed.

Lemma length_set_nth {A} i (v : A) l : length (set_nth i v l) = length l.
Proof. revert i; induction l as [|h t IH]; intros [|i]; cbn; auto. Qed.

Lemma nth_error_set_nth {A} i (v : A) l j :
  nth_error (set_nth i v l) j =
  if Nat.eqb i j then match nth_error l i with Some _ => Some v | None => None end else nth_error l j.
Proof.
  revert i j; induction l as [|h t IH]; intros i j.
  - cbn. destruct i, j; cbn; try reflexivity; destruct (Nat.eqb i j); reflexivity.
  - destruct i, j; cbn [set_nth nth_error Nat.eqb]; try reflexivity. apply IH.
Qed.

Lemma nth_set_nth {A} i (v : A) l j d :
  nth j (set_nth i v l) d = if Nat.eqb i j && (i <? length l) then v else nth j l d.
Proof.
  revert i j; induction l as [|h t IH]; intros i j.
  - cbn. rewrite andb_false_r. destruct i; reflexivity.
  - destruct i, j; cbn [set_nth nth Nat.eqb length andb]; try reflexivity.
    rewrite IH. replace (S i <? S (length t)) with (i <? length t); [reflexivity|].
    destruct (Nat.ltb_spec i (length t)), (Nat.ltb_spec (S i) (S (length t))); try reflexivity; lia.
Qed.

Lemma set_nth_beyond {A} i (v : A) l : length l <= i -> set_nth i v l = l.
Proof.
  revert i; induction l as [|h t IH]; intros i H; [destruct i; reflexivity|].
  destruct i; cbn in *; [lia|]. f_equal. apply IH. lia.
Qed.

Lemma cnt_flat_set_nth {A} (f : A -> list nat) l i v x o :
  nth_error l i = Some x ->
  cnt (flat_map f (set_nth i v l)) o + cnt (f x) o = cnt (flat_map f l) o + cnt (f v) o.
Proof.
  revert i; induction l as [|h t IH]; intros i H; [destruct i; discriminate|].
  destruct i; cbn [set_nth flat_map nth_error] in *.
  - inversion H; subst. rewrite !cnt_app. lia.
  - rewrite !cnt_app. specialize (IH i H). lia.
Qed.

Lemma cnt_flat_app {A} (f : A -> list nat) l x o :
  cnt (flat_map f (l ++ [x])) o = cnt (flat_map f l) o + cnt (f x) o.
Proof. rewrite flat_map_app, cnt_app. cbn [flat_map]. rewrite app_nil_r. reflexivity. Qed.

Lemma cnt_remove_one l o o' :
  In o l -> cnt (remove_one o l) o' + (if Nat.eqb o o' then 1 else 0) = cnt l o'.
Proof.
  induction l as [|h t IH]; intros H; [destruct H|].
  cbn [remove_one]. destruct (Nat.eqb_spec h o) as [->|n].
  - rewrite cnt_cons. lia.
  - destruct H as [->|H]; [contradiction|]. rewrite !cnt_cons. specialize (IH H). lia.
Qed.

Lemma remove_one_cons o l : remove_one o (o :: l) = l.
Proof. cbn. rewrite Nat.eqb_refl. reflexivity. Qed.

Lemma nth_error_nth' {A} (l : list A) i d : i < length l -> nth_error l i = Some (nth i l d).
Proof.
  revert i; induction l as [|h t IH]; intros i H; [cbn in H; lia|].
  destruct i; [reflexivity|]. cbn. apply IH. cbn in H. lia.
Qed.

Lemma nth_error_app_last {A} (l : list A) x : nth_error (l ++ [x]) (length l) = Some x.
Proof. rewrite nth_error_app2 by lia. rewrite Nat.sub_diag. reflexivity. Qed.

(* ---------- the invariant ---------- *)
(* number of handles on o: locals + slots + handles owned by objects *)
Definition H3 (s : st) (o : nat) : nat :=
  cnt (pend s) o + cnt (flat_map o2l (hs s)) o + cnt (flat_map oin (objs s)) o.

Lemma held_H3 s o : held s o = N.of_nat (H3 s o).
Proof.
  unfold held, H3, handles. fold (cnt (pend s ++ flat_map o2l (hs s) ++ flat_map (fun x => o2l (oinner x)) (objs s)) o).
  rewrite !cnt_app. f_equal. unfold oin. lia.
Qed.

Definition obj_ok (s : st) (o : nat) (x : obj) : Prop :=
  (is_buf (okind x) = true -> oinner x = None) /\
  (forall b, oinner x = Some b -> exists y, nth_error (objs s) b = Some y /\ is_buf (okind y) = true) /\
  (if odead x
   then oinner x = None /\ H3 s o = 0 /\ oext x = 0%N /\ is_static (okind x) = false
   else match cls_of (okind x) with
        | Counted => ocnt x = (N.of_nat (H3 s o) + oext x)%N /\ (0 < ocnt x)%N /\ (ocnt x < W)%N
        | Unique => H3 s o = 1 /\ oext x = 0%N
        | Static => True
        end).

Record Inv (s : st) : Prop := mkInv {
  inv_len : length (hs s) = NSLOT;
  inv_rng : forall o, 0 < H3 s o -> o < length (objs s);
  inv_obj : forall o x, nth_error (objs s) o = Some x -> obj_ok s o x
}.

Lemma inv_live s o : Inv s -> 0 < H3 s o -> exists x, nth_error (objs s) o = Some x /\ odead x = false.
Proof.
  intros I H. pose proof (inv_rng s I o H) as Hl.
  destruct (nth_error (objs s) o) as [x|] eqn:E; [|apply nth_error_None in E; lia].
  exists x. split; [reflexivity|].
  destruct (inv_obj s I o x E) as (_ & _ & Hd).
  destruct (odead x); [|reflexivity]. destruct Hd as (_ & Hz & _). lia.
Qed.

Lemma live_ok s o x : nth_error (objs s) o = Some x -> odead x = false -> live s o = Ok x.
Proof. intros E D. unfold live. rewrite E, D. reflexivity. Qed.

Lemma live_inv s o x : live s o = Ok x -> nth_error (objs s) o = Some x /\ odead x = false.
Proof.
  unfold live. destruct (nth_error (objs s) o) as [y|]; [|discriminate].
  destruct (odead y) eqn:D; [discriminate|]. intros E; inversion E; subst; auto.
Qed.

Lemma H3_pend_in s o : In o (pend s) -> 0 < H3 s o.
Proof. intros H. unfold H3. apply cnt_pos_in in H. lia. Qed.

Lemma H3_slot s i o : slot s i = Some o -> 0 < H3 s o.
Proof.
  unfold slot. intros E. unfold H3.
  assert (Hi : i < length (hs s)).
  { destruct (Nat.ltb_spec i (length (hs s))); [assumption|]. rewrite nth_overflow in E by assumption. discriminate. }
  pose proof (cnt_flat_set_nth o2l (hs s) i None (Some o) o (eq_trans (nth_error_nth' (hs s) i None Hi) (f_equal Some E))) as C.
  cbn [o2l] in C. rewrite cnt_cons, Nat.eqb_refl, !cnt_nil in C. lia.
Qed.

Lemma H3_inner s c x b : nth_error (objs s) c = Some x -> oinner x = Some b -> 0 < H3 s b.
Proof.
  intros E Hb. unfold H3.
  pose proof (cnt_flat_set_nth oin (objs s) c (with_inner x None) x b E) as C.
  unfold oin at 2 4 in C. rewrite Hb in C. cbn [o2l with_inner oinner] in C. rewrite cnt_cons, Nat.eqb_refl, !cnt_nil in C. lia.
Qed.

(* objects keep their identity and kind: what every state transformer preserves *)
Definition same_kinds (s s' : st) : Prop :=
  length (objs s) <= length (objs s') /\
  forall o x, nth_error (objs s) o = Some x -> exists x', nth_error (objs s') o = Some x' /\ okind x' = okind x.

Lemma same_kinds_refl s : same_kinds s s.
Proof. split; [reflexivity|]. intros o x E. exists x. auto. Qed.
Lemma same_kinds_trans s1 s2 s3 : same_kinds s1 s2 -> same_kinds s2 s3 -> same_kinds s1 s3.
Proof.
  intros [L1 K1] [L2 K2]. split; [lia|].
  intros o x E. destruct (K1 o x E) as (x' & E' & Hk). destruct (K2 o x' E') as (x'' & E'' & Hk').
  exists x''. split; [assumption|congruence].
Qed.

Lemma kind_at_same s s' o k : same_kinds s s' -> kind_at s o = Some k -> kind_at s' o = Some k.
Proof.
  intros [_ K]. unfold kind_at. destruct (nth_error (objs s) o) as [x|] eqn:E; [|discriminate].
  intros Hk. inversion Hk; subst. destruct (K o x E) as (x' & E' & Hk'). rewrite E'. congruence.
Qed.

(* log and clear_log do not matter *)
Lemma H3_log s k e o : H3 (log s k e) o = H3 s o.
Proof. unfold log. destruct (logged k); reflexivity. Qed.
Lemma objs_log s k e : objs (log s k e) = objs s.
Proof. unfold log. destruct (logged k); reflexivity. Qed.
Lemma hs_log s k e : hs (log s k e) = hs s.
Proof. unfold log. destruct (logged k); reflexivity. Qed.
Lemma pend_log s k e : pend (log s k e) = pend s.
Proof. unfold log. destruct (logged k); reflexivity. Qed.

Lemma Inv_ext s s' :
  objs s' = objs s -> hs s' = hs s -> pend s' = pend s -> Inv s -> Inv s'.
Proof.
  intros Eo Eh Ep I.
  assert (EH : forall o, H3 s' o = H3 s o) by (intros; unfold H3; rewrite Eo, Eh, Ep; reflexivity).
  constructor.
  - rewrite Eh. apply I.
  - intros o. rewrite EH, Eo. apply I.
  - intros o x. rewrite Eo. intros E. pose proof (inv_obj s I o x E) as (A & B & C).
    unfold obj_ok. rewrite Eo, EH. auto.
Qed.

Lemma Inv_log s k e : Inv s -> Inv (log s k e).
Proof. apply Inv_ext; [apply objs_log|apply hs_log|apply pend_log]. Qed.
Lemma Inv_clear s : Inv s -> Inv (clear_log s).
Proof. apply Inv_ext; reflexivity. Qed.
